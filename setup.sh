#!/bin/bash
# Builds the framework from files on disk only (offline): the Lean project (models, theorems,
# drivers of every claimed check) and a warm Go build cache for the harnesses.
set -e
cd "$(dirname "$0")"
export GOFLAGS=-mod=mod GOPROXY=off GOSUMDB=off GOTOOLCHAIN=local
mkdir -p .build replays evidence
TARGETS=$(python3 - <<'PY'
import glob, json
t = ["ApiFu"]
for f in sorted(glob.glob("checks/C[0-9][0-9].json")):
    c = json.load(open(f))
    if c.get("claimed", True):
        for x in c.get("lean_targets", []):
            if x not in t: t.append(x)
print(" ".join(t))
PY
)
(cd lean && lake build $TARGETS)
cp /repo/go.sum harness/go.sum
for f in checks/C[0-9][0-9].json; do
  h=$(python3 -c "import json,sys; c=json.load(open('$f')); print(c.get('harness','') if c.get('claimed',True) else '')")
  if [ -n "$h" ]; then (cd harness && go build -tags verif -o /dev/null ./cmd/$h); fi
done
echo "setup ok"
