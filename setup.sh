#!/bin/bash
# Builds the framework from files on disk only (offline): the Lean project (models, theorems,
# drivers) and a warm Go build cache for the harnesses. Run once after a fresh restore.
set -e
cd "$(dirname "$0")"
export GOFLAGS=-mod=mod GOPROXY=off GOSUMDB=off GOTOOLCHAIN=local
mkdir -p .build replays evidence
(cd lean && lake build ApiFu $(grep -A1 '^\[\[lean_exe\]\]' lakefile.toml | sed -n 's/^name = "\(.*\)"/\1/p'))
cp /repo/go.sum harness/go.sum
(cd harness && go build -tags verif -o /dev/null ./... ) || (cd harness && go vet -tags verif ./... ; exit 1)
echo "setup ok"
