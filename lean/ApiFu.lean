import ApiFu.Common.Sexp
import ApiFu.Common.Loop
