/-
  C05 — helper lemmas for Props.lean (core Lean only).
-/
import ApiFu.C05.Model
import ApiFu.C05.Spec
namespace ApiFu.C05

theorem mapAll_some {α β : Type} {f : α → Option β} :
    ∀ {xs : List α} {ys : List β}, mapAll f xs = some ys → ∀ y ∈ ys, ∃ x ∈ xs, f x = some y
  | [], ys, h, y, hy => by simp [mapAll] at h; subst h; simp at hy
  | x :: xs, ys, h, y, hy => by
    simp only [mapAll] at h
    split at h
    · simp at h
    · rename_i y0 hy0
      split at h
      · simp at h
      · rename_i ys0 hys0
        simp at h
        subst h
        rcases List.mem_cons.mp hy with rfl | hy
        · exact ⟨x, by simp, hy0⟩
        · obtain ⟨x', hx', hfx⟩ := mapAll_some hys0 y hy
          exact ⟨x', by simp [hx'], hfx⟩

/-- Every key of the coerced map is a declared field. -/
def keysIn (fs : Fields) (m : List (String × GoVal)) : Bool := m.all (fun p => fs.hasName p.1)

theorem lookup_cons (a k : String) (b : GoVal) (es : List (String × GoVal)) :
    List.lookup a ((k, b) :: es) = if a == k then some b else List.lookup a es := by
  simp [List.lookup]; split <;> simp_all

theorem lookup_none_of_keysIn {fs : Fields} {name : String} :
    ∀ {m : List (String × GoVal)}, keysIn fs m = true → fs.hasName name = false → m.lookup name = none
  | [], _, _ => rfl
  | (k, v) :: m, hk, hn => by
    simp only [keysIn, List.all_cons, Bool.and_eq_true] at hk
    rw [lookup_cons]
    have hne : (name == k) = false := by
      cases h : name == k
      · rfl
      · have : name = k := by simpa using h
        subst this; simp [hn] at hk
    simp only [hne]
    exact lookup_none_of_keysIn (fs := fs) (by simpa [keysIn] using hk.2) hn

theorem conformsFields_cons_fresh {name : String} {c : GoVal} {m : List (String × GoVal)} :
    ∀ {fs : Fields}, fs.hasName name = false → conformsFields fs ((name, c) :: m) = conformsFields fs m
  | .nil, _ => by simp [conformsFields]
  | .cons n ty d rest, h => by
    simp only [Fields.hasName, Bool.or_eq_false_iff] at h
    simp only [conformsFields, lookup_cons]
    have hne : (n == name) = false := h.1
    simp only [hne]
    rw [conformsFields_cons_fresh h.2]
    simp

theorem keysIn_mono {name : String} {ty : Ty} {d : Option GoVal} {rest : Fields} {m : List (String × GoVal)}
    (h : keysIn rest m = true) : keysIn (.cons name ty d rest) m = true := by
  simp only [keysIn, List.all_eq_true] at *
  intro p hp
  simp [Fields.hasName, h p hp]

/-- The shared step of both object routes: joining one declared field to a good rest gives a good map. -/
theorem addField_good {name : String} {ty : Ty} {d : Option GoVal} {rest : Fields}
    {prov : Option (Option GoVal)} {tl : Option (List (String × GoVal))} {out : List (String × GoVal)}
    (hfresh : rest.hasName name = false)
    (hd : ∀ dv, d = some dv → conforms ty dv = true)
    (hprov : ∀ c, prov = some (some c) → conforms ty c = true)
    (htl : ∀ t, tl = some t → conformsFields rest t = true ∧ keysIn rest t = true)
    (h : addField name ty d prov tl = some out) :
    conformsFields (.cons name ty d rest) out = true ∧ keysIn (.cons name ty d rest) out = true := by
  have entry : ∀ (c : GoVal) (t : List (String × GoVal)), conforms ty c = true → tl = some t →
      conformsFields (.cons name ty d rest) ((name, c) :: t) = true ∧ keysIn (.cons name ty d rest) ((name, c) :: t) = true := by
    intro c t hc ht
    obtain ⟨h1, h2⟩ := htl t ht
    refine ⟨?_, ?_⟩
    · simp only [conformsFields, lookup_cons, beq_self_eq_true, if_true, hc, Bool.true_and]
      rw [conformsFields_cons_fresh hfresh]; exact h1
    · have := keysIn_mono (name := name) (ty := ty) (d := d) h2
      simp only [keysIn, List.all_cons, Bool.and_eq_true] at this ⊢
      exact ⟨by simp [Fields.hasName], this⟩
  cases prov with
  | some pv =>
    cases pv with
    | none => simp [addField] at h
    | some c =>
      cases tl with
      | none => simp [addField] at h
      | some t =>
        simp [addField] at h; subst h
        exact entry c t (hprov c rfl) rfl
  | none =>
    cases d with
    | some dv =>
      cases tl with
      | none => simp [addField] at h
      | some t =>
        simp [addField] at h; subst h
        exact entry dv t (hd dv rfl) rfl
    | none =>
      simp only [addField] at h
      split at h
      · simp at h
      · rename_i hnn
        obtain ⟨h1, h2⟩ := htl out h
        refine ⟨?_, keysIn_mono h2⟩
        simp only [conformsFields, lookup_none_of_keysIn h2 hfresh, h1]
        simp [hnn]

theorem scalar_coerceVar_shape (P : Parse) (k : Scalar) (j : Json) (x : GoVal)
    (h : k.coerceVar P j = some x) : scalarShape k x = true ∧ x.isNil = false := by
  cases k <;> cases j <;> simp [Scalar.coerceVar] at h
  all_goals first
    | (obtain ⟨h1, rfl⟩ := h; simp_all [scalarShape, GoVal.isNil])
    | (subst h; simp [scalarShape, GoVal.isNil])
    | (obtain ⟨c, _, rfl⟩ := h; simp [scalarShape, GoVal.isNil])

theorem conforms_of_shape {k : Scalar} {x : GoVal} (h : scalarShape k x = true) : conforms (.scalar k) x = true := by
  cases x <;> simp_all [conforms, scalarShape]


theorem Fields.wf_cons {name : String} {ty : Ty} {d : Option GoVal} {rest : Fields}
    (h : (Fields.cons name ty d rest).wf = true) :
    rest.hasName name = false ∧ ty.wf = true ∧ (∀ dv, d = some dv → conforms ty dv = true) ∧ rest.wf = true := by
  simp only [Fields.wf, Bool.and_eq_true] at h
  obtain ⟨⟨⟨h1, h2⟩, h3⟩, h4⟩ := h
  refine ⟨by simpa using h1, h2, ?_, h4⟩
  intro dv hd; subst hd; simpa using h3

theorem conforms_nil_of_not_nonNull {t : Ty} (h : isNonNull t = false) : conforms t .nil = true := by
  cases t <;> simp_all [conforms, isNonNull]

def Json.isNull : Json → Bool
  | .null => true
  | _ => false

/-- A JSON value other than null never coerces to Go nil. -/
theorem coerceVar_not_nil (P : Parse) :
    ∀ (T : Ty) (j : Json) (allow : Bool) (x : GoVal), j.isNull = false →
      coerceVar P T j allow = some x → x.isNil = false
  | .scalar k, j, allow, x, hj, h => by
    cases j <;> simp [coerceVar, Json.isNull] at h hj <;> exact (scalar_coerceVar_shape P k _ x h).2
  | .enum n vals, j, allow, x, hj, h => by
    cases j <;> simp [coerceVar, Json.isNull] at h hj
    obtain ⟨_, rfl⟩ := h; rfl
  | .inputObj n fs, j, allow, x, hj, h => by
    cases j <;> simp [coerceVar, Json.isNull] at h hj
    obtain ⟨_, out, _, rfl⟩ := h; rfl
  | .list t, j, allow, x, hj, h => by
    cases j <;> simp [coerceVar, Json.isNull] at h hj
    all_goals first
      | (obtain ⟨_, y, _, rfl⟩ := h; rfl)
      | (obtain ⟨y, _, rfl⟩ := h; rfl)
  | .nonNull t, j, allow, x, hj, h => by
    cases j <;> simp [coerceVar, Json.isNull] at h hj <;> exact coerceVar_not_nil P t _ allow x (by simp [Json.isNull]) h

mutual
/-- Variable route: whatever `coerceVariableValue` returns conforms to the type. -/
theorem coerceVar_conforms (P : Parse) :
    ∀ (T : Ty) (j : Json) (allow : Bool) (x : GoVal), T.wf = true →
      coerceVar P T j allow = some x → conforms T x = true
  | .scalar k, j, allow, x, _, h => by
    cases j <;> simp [coerceVar, isNonNull] at h
    all_goals first
      | (subst h; simp [conforms])
      | exact conforms_of_shape (scalar_coerceVar_shape P k _ x h).1
  | .enum n vals, j, allow, x, _, h => by
    cases j <;> simp [coerceVar, isNonNull] at h
    · subst h; simp [conforms]
    · obtain ⟨hm, rfl⟩ := h; simp [conforms, hm]
  | .inputObj n fs, j, allow, x, hwf, h => by
    cases j <;> simp [coerceVar, isNonNull] at h
    · subst h; simp [conforms]
    · rename_i m
      obtain ⟨_, out, hout, rfl⟩ := h
      have := coerceVarFields_good P fs m out (by simpa [Ty.wf] using hwf) hout
      simp only [conforms, Bool.and_eq_true]
      exact ⟨by simpa [keysIn] using this.2, this.1⟩
  | .list t, j, allow, x, hwf, h => by
    have hwt : t.wf = true := by simpa [Ty.wf] using hwf
    have wrap : ∀ (j : Json), (coerceVar P t j true).map (fun y => GoVal.list [y]) = some x → conforms (.list t) x = true := by
      intro j hj
      cases hc : coerceVar P t j true with
      | none => simp [hc] at hj
      | some y =>
        simp [hc] at hj; subst hj
        simp [conforms, coerceVar_conforms P t j true y hwt hc]
    cases j with
    | null => simp [coerceVar, isNonNull] at h; subst h; simp [conforms]
    | list xs =>
      simp only [coerceVar] at h
      cases hm : mapAll (fun x => coerceVar P t x false) xs with
      | none => simp [hm] at h
      | some ys =>
        simp [hm] at h; subst h
        simp only [conforms, List.all_eq_true]
        intro y hy
        obtain ⟨x0, _, hx0⟩ := mapAll_some hm y hy
        exact coerceVar_conforms P t x0 false y hwt hx0
    | num h' => simp only [coerceVar] at h; split at h <;> first | exact wrap _ h | simp at h
    | str s => simp only [coerceVar] at h; split at h <;> first | exact wrap _ h | simp at h
    | bool b => simp only [coerceVar] at h; split at h <;> first | exact wrap _ h | simp at h
    | obj m => simp only [coerceVar] at h; split at h <;> first | exact wrap _ h | simp at h
  | .nonNull t, j, allow, x, hwf, h => by
    have hwt : t.wf = true := by simpa [Ty.wf] using hwf
    cases j with
    | null => simp [coerceVar, isNonNull] at h
    | num h' =>
      simp only [coerceVar] at h
      simp [conforms, coerceVar_not_nil P t _ allow x (by simp [Json.isNull]) h, coerceVar_conforms P t _ allow x hwt h]
    | str s =>
      simp only [coerceVar] at h
      simp [conforms, coerceVar_not_nil P t _ allow x (by simp [Json.isNull]) h, coerceVar_conforms P t _ allow x hwt h]
    | bool b =>
      simp only [coerceVar] at h
      simp [conforms, coerceVar_not_nil P t _ allow x (by simp [Json.isNull]) h, coerceVar_conforms P t _ allow x hwt h]
    | list xs =>
      simp only [coerceVar] at h
      simp [conforms, coerceVar_not_nil P t _ allow x (by simp [Json.isNull]) h, coerceVar_conforms P t _ allow x hwt h]
    | obj m =>
      simp only [coerceVar] at h
      simp [conforms, coerceVar_not_nil P t _ allow x (by simp [Json.isNull]) h, coerceVar_conforms P t _ allow x hwt h]
theorem coerceVarFields_good (P : Parse) :
    ∀ (fs : Fields) (m : List (String × Json)) (out : List (String × GoVal)), fs.wf = true →
      coerceVarFields P fs m = some out → conformsFields fs out = true ∧ keysIn fs out = true
  | .nil, m, out, _, h => by
    simp [coerceVarFields] at h; subst h; simp [conformsFields, keysIn]
  | .cons name ty d rest, m, out, hwf, h => by
    obtain ⟨hfresh, hty, hd, hrest⟩ := Fields.wf_cons hwf
    simp only [coerceVarFields] at h
    refine addField_good hfresh hd ?_ (fun t ht => coerceVarFields_good P rest m t hrest ht) h
    intro c hc
    cases hl : m.lookup name with
    | none => simp [hl] at hc
    | some fv =>
      simp [hl] at hc
      exact coerceVar_conforms P ty fv true c hty hc
end


/-! ## Equality tests are exact -/

mutual
theorem GoVal.eq_of_beq : ∀ (a b : GoVal), GoVal.beq a b = true → a = b
  | .nil, b, h => by cases b <;> simp [GoVal.beq] at h ⊢
  | .int z, b, h => by cases b <;> simp [GoVal.beq] at h ⊢; exact h
  | .long z, b, h => by cases b <;> simp [GoVal.beq] at h ⊢; exact h
  | .float z, b, h => by cases b <;> simp [GoVal.beq] at h ⊢; exact h
  | .str z, b, h => by cases b <;> simp [GoVal.beq] at h ⊢; exact h
  | .bool z, b, h => by cases b <;> simp [GoVal.beq] at h ⊢; exact h
  | .time z, b, h => by cases b <;> simp [GoVal.beq] at h ⊢; exact h
  | .enumv z, b, h => by cases b <;> simp [GoVal.beq] at h ⊢; exact h
  | .list xs, b, h => by
    cases b <;> simp [GoVal.beq] at h ⊢
    exact GoVal.eq_of_beqL xs _ h
  | .obj fs, b, h => by
    cases b <;> simp [GoVal.beq] at h ⊢
    exact GoVal.eq_of_beqF fs _ h
theorem GoVal.eq_of_beqL : ∀ (a b : List GoVal), GoVal.beqL a b = true → a = b
  | [], b, h => by cases b <;> simp [GoVal.beqL] at h ⊢
  | x :: xs, b, h => by
    cases b with
    | nil => simp [GoVal.beqL] at h
    | cons y ys =>
      simp [GoVal.beqL] at h
      rw [GoVal.eq_of_beq x y h.1, GoVal.eq_of_beqL xs ys h.2]
theorem GoVal.eq_of_beqF : ∀ (a b : List (String × GoVal)), GoVal.beqF a b = true → a = b
  | [], b, h => by cases b <;> simp [GoVal.beqF] at h ⊢
  | p :: ps, b, h => by
    cases b with
    | nil => simp [GoVal.beqF] at h
    | cons q qs =>
      simp [GoVal.beqF] at h
      obtain ⟨⟨h1, h2⟩, h3⟩ := h
      have := GoVal.eq_of_beq p.2 q.2 h2
      rw [GoVal.eq_of_beqF ps qs h3]
      cases p; cases q; simp_all
end

theorem eq_of_optBeq : ∀ (a b : Option GoVal), optBeq a b = true → a = b
  | none, none, _ => rfl
  | some a, some b, h => by simp [optBeq] at h; rw [GoVal.eq_of_beq a b h]
  | none, some _, h => by simp [optBeq] at h
  | some _, none, h => by simp [optBeq] at h

mutual
theorem Ty.eq_of_beq : ∀ (a b : Ty), Ty.beq a b = true → a = b
  | .scalar k, b, h => by cases b <;> simp [Ty.beq] at h ⊢; exact h
  | .enum n vs, b, h => by cases b <;> simp [Ty.beq] at h ⊢; exact h
  | .inputObj n fs, b, h => by
    cases b <;> simp [Ty.beq] at h ⊢
    exact ⟨h.1, Fields.eq_of_beq fs _ h.2⟩
  | .list t, b, h => by
    cases b <;> simp [Ty.beq] at h ⊢
    exact Ty.eq_of_beq t _ h
  | .nonNull t, b, h => by
    cases b <;> simp [Ty.beq] at h ⊢
    exact Ty.eq_of_beq t _ h
theorem Fields.eq_of_beq : ∀ (a b : Fields), Fields.beq a b = true → a = b
  | .nil, b, h => by cases b <;> simp [Fields.beq] at h ⊢
  | .cons n t d r, b, h => by
    cases b with
    | nil => simp [Fields.beq] at h
    | cons m u e s =>
      simp [Fields.beq] at h
      obtain ⟨⟨⟨h1, h2⟩, h3⟩, h4⟩ := h
      rw [h1, Ty.eq_of_beq t u h2, eq_of_optBeq d e h3, Fields.eq_of_beq r s h4]
end

/-! ## Variable usage: a compatible variable type hands over conforming values -/

theorem conforms_nonNull {t : Ty} {x : GoVal} : conforms (.nonNull t) x = (!x.isNil && conforms t x) := by
  simp [conforms]

theorem conforms_nil_iff {t : Ty} : conforms t .nil = !isNonNull t := by
  cases t <;> simp [conforms, isNonNull, GoVal.isNil]

/-- `areTypesCompatible V L`: every value conforming to the variable's type conforms to the location's. -/
theorem compat_conforms : ∀ (V L : Ty) (x : GoVal), compat V L = true → conforms V x = true → conforms L x = true
  | .nonNull v, L, x, hc, hx => by
    cases L with
    | nonNull l =>
      simp only [compat] at hc
      simp only [conforms_nonNull, Bool.and_eq_true] at hx ⊢
      exact ⟨hx.1, compat_conforms v l x hc hx.2⟩
    | scalar k => simp only [compat] at hc; simp only [conforms_nonNull, Bool.and_eq_true] at hx; exact compat_conforms v _ x hc hx.2
    | enum n vs => simp only [compat] at hc; simp only [conforms_nonNull, Bool.and_eq_true] at hx; exact compat_conforms v _ x hc hx.2
    | inputObj n fs => simp only [compat] at hc; simp only [conforms_nonNull, Bool.and_eq_true] at hx; exact compat_conforms v _ x hc hx.2
    | list l => simp only [compat] at hc; simp only [conforms_nonNull, Bool.and_eq_true] at hx; exact compat_conforms v _ x hc hx.2
  | .list v, L, x, hc, hx => by
    cases L with
    | list l =>
      simp only [compat] at hc
      cases x <;> simp [conforms] at hx ⊢
      intro y hy
      exact compat_conforms v l y hc (hx y hy)
    | nonNull l => simp [compat] at hc
    | scalar k => simp [compat] at hc
    | enum n vs => simp [compat] at hc
    | inputObj n fs => simp [compat] at hc
  | .scalar k, L, x, hc, hx => by
    cases L <;> simp [compat] at hc
    all_goals (rw [← Ty.eq_of_beq _ _ hc]; exact hx)
  | .enum n vs, L, x, hc, hx => by
    cases L <;> simp [compat] at hc
    all_goals (rw [← Ty.eq_of_beq _ _ hc]; exact hx)
  | .inputObj n fs, L, x, hc, hx => by
    cases L <;> simp [compat] at hc
    all_goals (rw [← Ty.eq_of_beq _ _ hc]; exact hx)


/-! ## Literal route -/

theorem containsVarL_false : ∀ {xs : List Lit}, containsVarL xs = false → ∀ x ∈ xs, containsVar x = false
  | [], _, x, hx => by simp at hx
  | y :: ys, h, x, hx => by
    simp only [containsVarL, Bool.or_eq_false_iff] at h
    rcases List.mem_cons.mp hx with rfl | hx
    · exact h.1
    · exact containsVarL_false h.2 x hx

theorem containsVarF_false : ∀ {fs : List (String × Lit)}, containsVarF fs = false → ∀ p ∈ fs, containsVar p.2 = false
  | [], _, p, hp => by simp at hp
  | q :: qs, h, p, hp => by
    simp only [containsVarF, Bool.or_eq_false_iff] at h
    rcases List.mem_cons.mp hp with rfl | hp
    · exact h.1
    · exact containsVarF_false h.2 p hp

mutual
/-- A literal without variables passes the usage rule wherever it is written. -/
theorem usage_of_noVar (defs : List VarDef) (unwrap : Bool) :
    ∀ (T : Ty) (ld : Bool) (lit : Lit), containsVar lit = false → usage defs unwrap T ld lit = true
  | .scalar k, ld, lit, h => by cases lit <;> simp_all [usage, containsVar]
  | .enum n vs, ld, lit, h => by cases lit <;> simp_all [usage, containsVar]
  | .nonNull t, ld, lit, h => by
    cases lit <;> simp only [usage] <;> first
      | exact usage_of_noVar defs unwrap t ld _ h
      | simp [containsVar] at h
  | .list t, ld, lit, h => by
    cases lit with
    | var n => simp [containsVar] at h
    | list xs =>
      simp only [usage, List.all_eq_true]
      intro x hx
      exact usage_of_noVar defs unwrap t false x (containsVarL_false (by simpa [containsVar] using h) x hx)
    | obj lfs =>
      simp only [usage]
      split
      · exact usage_of_noVar defs unwrap t false _ h
      · simpa [containsVar] using h
    | null => simp_all [usage, containsVar]
    | int z => simp_all [usage, containsVar]
    | float z => simp_all [usage, containsVar]
    | str z => simp_all [usage, containsVar]
    | bool z => simp_all [usage, containsVar]
    | enum z => simp_all [usage, containsVar]
  | .inputObj n fs, ld, lit, h => by
    cases lit with
    | var n => simp [containsVar] at h
    | obj lfs =>
      have hf := containsVarF_false (by simpa [containsVar] using h)
      simp only [usage, Bool.and_eq_true, List.all_eq_true]
      refine ⟨usageFields_of_noVar defs unwrap fs lfs hf, ?_⟩
      intro p hp; simp [hf p hp]
    | list xs => simp_all [usage, containsVar]
    | null => simp_all [usage, containsVar]
    | int z => simp_all [usage, containsVar]
    | float z => simp_all [usage, containsVar]
    | str z => simp_all [usage, containsVar]
    | bool z => simp_all [usage, containsVar]
    | enum z => simp_all [usage, containsVar]
theorem usageFields_of_noVar (defs : List VarDef) (unwrap : Bool) :
    ∀ (fs : Fields) (lfs : List (String × Lit)), (∀ p ∈ lfs, containsVar p.2 = false) → usageFields defs unwrap fs lfs = true
  | .nil, _, _ => by simp [usageFields]
  | .cons name ty d rest, lfs, h => by
    simp only [usageFields, Bool.and_eq_true, List.all_eq_true]
    refine ⟨?_, usageFields_of_noVar defs unwrap rest lfs h⟩
    intro p hp
    exact usage_of_noVar defs unwrap ty _ p.2 (h p (List.mem_filter.mp hp).1)
end

theorem scalar_coerceLit_shape (P : Parse) (k : Scalar) (l : Lit) (x : GoVal)
    (h : k.coerceLit P l = some x) : scalarShape k x = true ∧ x.isNil = false := by
  cases k <;> cases l <;> simp [Scalar.coerceLit] at h
  all_goals first
    | (obtain ⟨h1, rfl⟩ := h; simp_all [scalarShape, GoVal.isNil])
    | (subst h; simp [scalarShape, GoVal.isNil])
    | (obtain ⟨c, _, rfl⟩ := h; simp [scalarShape, GoVal.isNil])

/-- A literal that is neither `null` nor a variable. -/
def Lit.plain : Lit → Bool
  | .null => false
  | .var _ => false
  | _ => true

/-- A plain literal never coerces to Go nil. -/
theorem coerceLit_not_nil (P : Parse) (vars : Vars) :
    ∀ (T : Ty) (l : Lit) (allow : Bool) (x : GoVal), l.plain = true →
      coerceLit P vars T l allow = some x → x.isNil = false
  | .scalar k, l, allow, x, hl, h => by
    cases l <;> simp [coerceLit, Lit.plain] at h hl <;> exact (scalar_coerceLit_shape P k _ x h).2
  | .enum n vals, l, allow, x, hl, h => by
    cases l <;> simp [coerceLit, Lit.plain] at h hl
    obtain ⟨_, rfl⟩ := h; rfl
  | .inputObj n fs, l, allow, x, hl, h => by
    cases l <;> simp [coerceLit, Lit.plain] at h hl
    obtain ⟨_, out, _, rfl⟩ := h; rfl
  | .list t, l, allow, x, hl, h => by
    cases l <;> simp [coerceLit, Lit.plain] at h hl
    all_goals first
      | (obtain ⟨_, y, _, rfl⟩ := h; rfl)
      | (obtain ⟨y, _, rfl⟩ := h; rfl)
  | .nonNull t, l, allow, x, hl, h => by
    cases l <;> simp [coerceLit, Lit.plain] at h hl <;> exact coerceLit_not_nil P vars t _ allow x (by simp [Lit.plain]) h

/-- Every runtime value of a variable conforms to the variable's declared type. -/
def VarsOK (defs : List VarDef) (vars : Vars) : Prop :=
  ∀ n v, vars.lookup n = some v → ∃ d, defs.find? (fun d => d.name == n) = some d ∧ conforms d.ty v = true

/-- `validateVariableUsage` passed and the value is not a null at a non-null location: it conforms. -/
theorem allowed_conforms {defs : List VarDef} {vars : Vars} (hv : VarsOK defs vars) {n : String} {L : Ty}
    {ld : Bool} {v : GoVal} (ha : allowed defs n L ld = true) (hl : vars.lookup n = some v)
    (hnn : (v.isNil && isNonNull L) = false) : conforms L v = true := by
  obtain ⟨d, hd, hc⟩ := hv n v hl
  simp only [allowed, hd] at ha
  cases L with
  | nonNull L' =>
    simp only at ha
    have hvn : v.isNil = false := by simpa [isNonNull] using hnn
    split at ha
    · exact compat_conforms _ _ v ha hc
    · simp only [Bool.and_eq_true] at ha
      simp [conforms_nonNull, hvn, compat_conforms _ _ v ha.2 hc]
  | scalar k => exact compat_conforms _ _ v ha hc
  | enum n vs => exact compat_conforms _ _ v ha hc
  | inputObj n fs => exact compat_conforms _ _ v ha hc
  | list l => exact compat_conforms _ _ v ha hc

theorem coerceVarRef_conforms {defs : List VarDef} {vars : Vars} (hv : VarsOK defs vars) {n : String} {L : Ty}
    {ld : Bool} {x : GoVal} (ha : allowed defs n L ld = true) (h : coerceVarRef vars L n = some x) :
    conforms L x = true := by
  simp only [coerceVarRef] at h
  cases hl : vars.lookup n with
  | some v =>
    simp only [hl] at h
    split at h
    · simp at h
    · rename_i hnn
      simp at h; subst h
      exact allowed_conforms hv ha hl (by simpa using hnn)
  | none =>
    simp only [hl] at h
    split at h
    · simp at h
    · rename_i hnn
      simp at h; subst h
      simp [conforms_nil_iff, hnn]


theorem litProvided_some {ty : Ty} {r : Option (List GoVal)} {c : GoVal}
    (h : litProvided ty r = some (some c)) : ∃ vs, r = some vs ∧ c ∈ vs := by
  cases r with
  | none => simp [litProvided] at h
  | some vs =>
    simp only [litProvided] at h
    cases hg : vs.getLast? with
    | none => simp [hg] at h
    | some v =>
      simp only [hg] at h
      split at h
      · simp at h
      · simp at h; subst h
        exact ⟨vs, rfl, List.mem_of_getLast? hg⟩

mutual
/-- Literal route, with variables: if every variable inside the literal passed the usage rule and
    holds a value conforming to its declared type, the coerced value conforms. -/
theorem coerceLit_conforms (P : Parse) (defs : List VarDef) (unwrap : Bool) (vars : Vars) (hv : VarsOK defs vars) :
    ∀ (T : Ty) (l : Lit) (allow ld : Bool) (x : GoVal), T.wf = true → usage defs unwrap T ld l = true →
      coerceLit P vars T l allow = some x → conforms T x = true
  | .scalar k, l, allow, ld, x, _, hu, h => by
    cases l with
    | null => simp [coerceLit, isNonNull] at h; subst h; simp [conforms]
    | var n => simp only [coerceLit] at h; simp only [usage] at hu; exact coerceVarRef_conforms hv hu h
    | int z => simp only [coerceLit] at h; exact conforms_of_shape (scalar_coerceLit_shape P k _ x h).1
    | float z => simp only [coerceLit] at h; exact conforms_of_shape (scalar_coerceLit_shape P k _ x h).1
    | str z => simp only [coerceLit] at h; exact conforms_of_shape (scalar_coerceLit_shape P k _ x h).1
    | bool z => simp only [coerceLit] at h; exact conforms_of_shape (scalar_coerceLit_shape P k _ x h).1
    | enum z => simp only [coerceLit] at h; exact conforms_of_shape (scalar_coerceLit_shape P k _ x h).1
    | list z => simp only [coerceLit] at h; exact conforms_of_shape (scalar_coerceLit_shape P k _ x h).1
    | obj z => simp only [coerceLit] at h; exact conforms_of_shape (scalar_coerceLit_shape P k _ x h).1
  | .enum n vals, l, allow, ld, x, _, hu, h => by
    cases l with
    | null => simp [coerceLit, isNonNull] at h; subst h; simp [conforms]
    | var n => simp only [coerceLit] at h; simp only [usage] at hu; exact coerceVarRef_conforms hv hu h
    | enum z => simp [coerceLit] at h; obtain ⟨hm, rfl⟩ := h; simp [conforms, hm]
    | int z => simp [coerceLit] at h
    | float z => simp [coerceLit] at h
    | str z => simp [coerceLit] at h
    | bool z => simp [coerceLit] at h
    | list z => simp [coerceLit] at h
    | obj z => simp [coerceLit] at h
  | .inputObj n fs, l, allow, ld, x, hwf, hu, h => by
    cases l with
    | null => simp [coerceLit, isNonNull] at h; subst h; simp [conforms]
    | var n => simp only [coerceLit] at h; simp only [usage] at hu; exact coerceVarRef_conforms hv hu h
    | obj lfs =>
      simp [coerceLit] at h
      obtain ⟨_, out, hout, rfl⟩ := h
      simp only [usage, Bool.and_eq_true] at hu
      have := coerceLitFields_good P defs unwrap vars hv fs lfs out (by simpa [Ty.wf] using hwf) hu.1 hout
      simp only [conforms, Bool.and_eq_true]
      exact ⟨by simpa [keysIn] using this.2, this.1⟩
    | int z => simp [coerceLit] at h
    | float z => simp [coerceLit] at h
    | str z => simp [coerceLit] at h
    | bool z => simp [coerceLit] at h
    | list z => simp [coerceLit] at h
    | enum z => simp [coerceLit] at h
  | .list t, l, allow, ld, x, hwf, hu, h => by
    have hwt : t.wf = true := by simpa [Ty.wf] using hwf
    have wrap : ∀ (l : Lit) (ld' : Bool), usage defs unwrap t ld' l = true →
        (coerceLit P vars t l true).map (fun y => GoVal.list [y]) = some x → conforms (.list t) x = true := by
      intro l ld' hu' hj
      cases hc : coerceLit P vars t l true with
      | none => simp [hc] at hj
      | some y =>
        simp [hc] at hj; subst hj
        simp [conforms, coerceLit_conforms P defs unwrap vars hv t l true ld' y hwt hu' hc]
    cases l with
    | null => simp [coerceLit, isNonNull] at h; subst h; simp [conforms]
    | var n => simp only [coerceLit] at h; simp only [usage] at hu; exact coerceVarRef_conforms hv hu h
    | list xs =>
      simp only [coerceLit] at h
      simp only [usage, List.all_eq_true] at hu
      cases hm : mapAll (fun x => coerceLit P vars t x false) xs with
      | none => simp [hm] at h
      | some ys =>
        simp [hm] at h; subst h
        simp only [conforms, List.all_eq_true]
        intro y hy
        obtain ⟨x0, hx0m, hx0⟩ := mapAll_some hm y hy
        exact coerceLit_conforms P defs unwrap vars hv t x0 false false y hwt (hu x0 hx0m) hx0
    | obj lfs =>
      simp only [coerceLit] at h
      simp only [usage] at hu
      split at h
      · split at hu
        · exact wrap _ false hu h
        · exact wrap _ false (usage_of_noVar defs unwrap t false _ (by simpa [containsVar] using hu)) h
      · simp at h
    | int z =>
      simp only [coerceLit] at h
      split at h
      · exact wrap _ false (usage_of_noVar defs unwrap t false _ (by simp [containsVar])) h
      · simp at h
    | float z =>
      simp only [coerceLit] at h
      split at h
      · exact wrap _ false (usage_of_noVar defs unwrap t false _ (by simp [containsVar])) h
      · simp at h
    | str z =>
      simp only [coerceLit] at h
      split at h
      · exact wrap _ false (usage_of_noVar defs unwrap t false _ (by simp [containsVar])) h
      · simp at h
    | bool z =>
      simp only [coerceLit] at h
      split at h
      · exact wrap _ false (usage_of_noVar defs unwrap t false _ (by simp [containsVar])) h
      · simp at h
    | enum z =>
      simp only [coerceLit] at h
      split at h
      · exact wrap _ false (usage_of_noVar defs unwrap t false _ (by simp [containsVar])) h
      · simp at h
  | .nonNull t, l, allow, ld, x, hwf, hu, h => by
    have hwt : t.wf = true := by simpa [Ty.wf] using hwf
    have plain : ∀ (l : Lit), l.plain = true → usage defs unwrap t ld l = true →
        coerceLit P vars t l allow = some x → conforms (.nonNull t) x = true := by
      intro l hp hu' h'
      simp [conforms_nonNull, coerceLit_not_nil P vars t l allow x hp h',
        coerceLit_conforms P defs unwrap vars hv t l allow ld x hwt hu' h']
    cases l with
    | null => simp [coerceLit, isNonNull] at h
    | var n => simp only [coerceLit] at h; simp only [usage] at hu; exact coerceVarRef_conforms hv hu h
    | int z => simp only [coerceLit] at h; simp only [usage] at hu; exact plain _ rfl hu h
    | float z => simp only [coerceLit] at h; simp only [usage] at hu; exact plain _ rfl hu h
    | str z => simp only [coerceLit] at h; simp only [usage] at hu; exact plain _ rfl hu h
    | bool z => simp only [coerceLit] at h; simp only [usage] at hu; exact plain _ rfl hu h
    | enum z => simp only [coerceLit] at h; simp only [usage] at hu; exact plain _ rfl hu h
    | list z => simp only [coerceLit] at h; simp only [usage] at hu; exact plain _ rfl hu h
    | obj z => simp only [coerceLit] at h; simp only [usage] at hu; exact plain _ rfl hu h
theorem coerceLitFields_good (P : Parse) (defs : List VarDef) (unwrap : Bool) (vars : Vars) (hv : VarsOK defs vars) :
    ∀ (fs : Fields) (lfs : List (String × Lit)) (out : List (String × GoVal)), fs.wf = true →
      usageFields defs unwrap fs lfs = true →
      coerceLitFields P vars fs lfs = some out → conformsFields fs out = true ∧ keysIn fs out = true
  | .nil, lfs, out, _, _, h => by
    simp [coerceLitFields] at h; subst h; simp [conformsFields, keysIn]
  | .cons name ty d rest, lfs, out, hwf, hu, h => by
    obtain ⟨hfresh, hty, hd, hrest⟩ := Fields.wf_cons hwf
    simp only [usageFields, Bool.and_eq_true, List.all_eq_true] at hu
    simp only [coerceLitFields] at h
    refine addField_good hfresh hd ?_ (fun t ht => coerceLitFields_good P defs unwrap vars hv rest lfs t hrest hu.2 ht) h
    intro c hc
    obtain ⟨vs, hvs, hcm⟩ := litProvided_some hc
    obtain ⟨p, hp, hpc⟩ := mapAll_some hvs c hcm
    have hpf := List.mem_filter.mp hp
    have hname : (p.1 == name) = true := by
      have := hpf.2; simp only [Bool.and_eq_true] at this; exact this.1
    exact coerceLit_conforms P defs unwrap vars hv ty p.2 true _ c hty
      (hu.1 p (List.mem_filter.mpr ⟨hpf.1, hname⟩)) hpc
end


/-! ## `collect`: the coerced map of CoerceVariableValues / CoerceArgumentValues -/

theorem noDupNames_cons {n : String} {ns : List String} (h : noDupNames (n :: ns) = true) :
    n ∉ ns ∧ noDupNames ns = true := by
  simp only [noDupNames, Bool.and_eq_true] at h
  exact ⟨by simpa using h.1, h.2⟩

theorem collect_keys {δ : Type} {name : δ → String} {f : δ → Option (Option GoVal)} :
    ∀ {defs : List δ} {out : List (String × GoVal)}, collect name f defs = some out →
      ∀ p ∈ out, p.1 ∈ defs.map name
  | [], out, h, p, hp => by simp [collect] at h; subst h; simp at hp
  | d :: ds, out, h, p, hp => by
    simp only [collect] at h
    split at h
    · simp at h
    · simp only [List.map_cons, List.mem_cons]; exact Or.inr (collect_keys h p hp)
    · rename_i v hv
      cases ht : collect name f ds with
      | none => simp [ht] at h
      | some tl =>
        simp [ht] at h; subst h
        simp only [List.map_cons, List.mem_cons] at hp ⊢
        rcases hp with rfl | hp
        · exact Or.inl rfl
        · exact Or.inr (collect_keys ht p hp)

theorem lookup_none_of_not_key {n : String} : ∀ {m : List (String × GoVal)}, (∀ p ∈ m, p.1 ≠ n) → m.lookup n = none
  | [], _ => rfl
  | (k, v) :: m, h => by
    rw [lookup_cons]
    have : (n == k) = false := by
      have hk : k ≠ n := h (k, v) (List.mem_cons_self ..)
      cases hb : n == k
      · rfl
      · exact absurd (by simpa using hb : n = k).symm hk
    simp only [this]
    exact lookup_none_of_not_key (fun p hp => h p (List.mem_cons_of_mem _ hp))

/-- What the coerced map holds for a definition: exactly the per-definition result. -/
theorem collect_lookup_mem {δ : Type} {name : δ → String} {f : δ → Option (Option GoVal)} :
    ∀ {defs : List δ} {out : List (String × GoVal)}, noDupNames (defs.map name) = true →
      collect name f defs = some out → ∀ d ∈ defs, f d = some (out.lookup (name d))
  | [], out, _, h, d, hd => by simp at hd
  | d0 :: ds, out, hnd, h, d, hd => by
    obtain ⟨hfresh, hnd'⟩ := noDupNames_cons (by simpa using hnd)
    simp only [collect] at h
    have skip : ∀ d ∈ ds, name d ≠ name d0 := by
      intro d hd heq; exact hfresh (heq ▸ List.mem_map_of_mem hd)
    split at h
    · simp at h
    · rename_i hf0
      rcases List.mem_cons.mp hd with rfl | hd
      · rw [hf0, lookup_none_of_not_key]
        intro p hp heq
        exact hfresh (heq ▸ collect_keys h p hp)
      · exact collect_lookup_mem hnd' h d hd
    · rename_i v hf0
      cases ht : collect name f ds with
      | none => simp [ht] at h
      | some tl =>
        simp [ht] at h; subst h
        rcases List.mem_cons.mp hd with rfl | hd
        · simp [hf0]
        · have hne : (name d == name d0) = false := by simpa using skip d hd
          rw [lookup_cons]; simp only [hne]
          exact collect_lookup_mem hnd' ht d hd

/-- An entry of the coerced map comes from the (first) definition with that name. -/
theorem collect_lookup_find {δ : Type} {name : δ → String} {f : δ → Option (Option GoVal)} :
    ∀ {defs : List δ} {out : List (String × GoVal)} {n : String} {v : GoVal}, noDupNames (defs.map name) = true →
      collect name f defs = some out → out.lookup n = some v →
      ∃ d, defs.find? (fun d => name d == n) = some d ∧ f d = some (some v)
  | [], out, n, v, _, h, hl => by simp [collect] at h; subst h; simp at hl
  | d0 :: ds, out, n, v, hnd, h, hl => by
    obtain ⟨hfresh, hnd'⟩ := noDupNames_cons (by simpa using hnd)
    have viaTail : ∀ tl, collect name f ds = some tl → tl.lookup n = some v →
        ∃ d, (d0 :: ds).find? (fun d => name d == n) = some d ∧ f d = some (some v) := by
      intro tl ht hl'
      obtain ⟨d, hfind, hfd⟩ := collect_lookup_find hnd' ht hl'
      have hdn : name d = n := by simpa using List.find?_some hfind
      have hmem := List.mem_of_find?_eq_some hfind
      have hne : (name d0 == n) = false := by
        cases hb : name d0 == n
        · rfl
        · exfalso; apply hfresh
          have : name d0 = n := by simpa using hb
          rw [this, ← hdn]; exact List.mem_map_of_mem hmem
      exact ⟨d, by simp [hne, hfind], hfd⟩
    simp only [collect] at h
    split at h
    · simp at h
    · exact viaTail out h hl
    · rename_i v0 hf0
      cases ht : collect name f ds with
      | none => simp [ht] at h
      | some tl =>
        simp [ht] at h; subst h
        rw [lookup_cons] at hl
        split at hl
        · rename_i heq
          simp at hl; subst hl
          have : name d0 = n := ((by simpa using heq : n = name d0)).symm
          exact ⟨d0, by simp [this], hf0⟩
        · exact viaTail tl ht hl


/-! ## The specification's coercion conforms as well -/

theorem spec_scalar_shape (P : Parse) (k : Scalar) (v : CV) (x : GoVal)
    (h : Spec.scalar P k v = some x) : scalarShape k x = true ∧ x.isNil = false := by
  cases k <;> cases v <;> simp [Spec.scalar] at h
  all_goals first
    | (obtain ⟨h1, rfl⟩ := h; simp_all [scalarShape, GoVal.isNil])
    | (subst h; simp [scalarShape, GoVal.isNil])
    | (obtain ⟨c, _, rfl⟩ := h; simp [scalarShape, GoVal.isNil])

theorem spec_coerce_not_nil (P : Parse) :
    ∀ (T : Ty) (v : CV) (x : GoVal), v.isNull = false → Spec.coerce P T v = some x → x.isNil = false
  | .scalar k, v, x, hv, h => by
    cases v <;> simp [Spec.coerce, CV.isNull] at h hv <;> exact (spec_scalar_shape P k _ x h).2
  | .enum n vals, v, x, hv, h => by
    cases v <;> simp [Spec.coerce, CV.isNull] at h hv
    obtain ⟨_, rfl⟩ := h; rfl
  | .inputObj n fs, v, x, hv, h => by
    cases v <;> simp [Spec.coerce, CV.isNull] at h hv
    obtain ⟨_, out, _, rfl⟩ := h; rfl
  | .list t, v, x, hv, h => by
    cases v <;> simp [Spec.coerce, CV.isNull] at h hv
    all_goals first
      | (obtain ⟨y, _, rfl⟩ := h; rfl)
      | (obtain ⟨_, y, _, rfl⟩ := h; rfl)
  | .nonNull t, v, x, hv, h => by
    simp only [Spec.coerce, hv] at h
    exact spec_coerce_not_nil P t v x hv (by simpa using h)

mutual
theorem spec_coerce_conforms (P : Parse) :
    ∀ (T : Ty) (v : CV) (x : GoVal), T.wf = true → Spec.coerce P T v = some x → conforms T x = true
  | .scalar k, v, x, _, h => by
    cases v <;> simp [Spec.coerce] at h
    all_goals first
      | (subst h; simp [conforms])
      | exact conforms_of_shape (spec_scalar_shape P k _ x h).1
  | .enum n vals, v, x, _, h => by
    cases v <;> simp [Spec.coerce] at h
    · subst h; simp [conforms]
    · obtain ⟨hm, rfl⟩ := h; simp [conforms, hm]
  | .inputObj n fs, v, x, hwf, h => by
    cases v <;> simp [Spec.coerce] at h
    · subst h; simp [conforms]
    · rename_i m
      obtain ⟨_, out, hout, rfl⟩ := h
      have := spec_coerceFields_good P fs m out (by simpa [Ty.wf] using hwf) hout
      simp only [conforms, Bool.and_eq_true]
      exact ⟨by simpa [keysIn] using this.2, this.1⟩
  | .list t, v, x, hwf, h => by
    have hwt : t.wf = true := by simpa [Ty.wf] using hwf
    have wrap : ∀ (v : CV), (Spec.coerce P t v).map (fun y => GoVal.list [y]) = some x → conforms (.list t) x = true := by
      intro v hj
      cases hc : Spec.coerce P t v with
      | none => simp [hc] at hj
      | some y =>
        simp [hc] at hj; subst hj
        simp [conforms, spec_coerce_conforms P t v y hwt hc]
    cases v with
    | null => simp [Spec.coerce] at h; subst h; simp [conforms]
    | list xs =>
      simp only [Spec.coerce] at h
      obtain ⟨ys, hm, rfl⟩ := Option.map_eq_some_iff.mp h
      simp only [conforms, List.all_eq_true]
      intro y hy
      obtain ⟨x0, _, hx0⟩ := mapAll_some hm y hy
      split at hx0
      · simp at hx0
      · exact spec_coerce_conforms P t x0 y hwt hx0
    | int z => simp only [Spec.coerce] at h; exact wrap _ h
    | half z => simp only [Spec.coerce] at h; exact wrap _ h
    | str z => simp only [Spec.coerce] at h; exact wrap _ h
    | bool z => simp only [Spec.coerce] at h; exact wrap _ h
    | enum z => simp only [Spec.coerce] at h; exact wrap _ h
    | obj z => simp only [Spec.coerce] at h; exact wrap _ h
  | .nonNull t, v, x, hwf, h => by
    have hwt : t.wf = true := by simpa [Ty.wf] using hwf
    simp only [Spec.coerce] at h
    split at h
    · simp at h
    · rename_i hv
      simp [conforms_nonNull, spec_coerce_not_nil P t v x (by simpa using hv) h, spec_coerce_conforms P t v x hwt h]
theorem spec_coerceFields_good (P : Parse) :
    ∀ (fs : Fields) (m : List (String × CV)) (out : List (String × GoVal)), fs.wf = true →
      Spec.coerceFields P fs m = some out → conformsFields fs out = true ∧ keysIn fs out = true
  | .nil, m, out, _, h => by
    simp [Spec.coerceFields] at h; subst h; simp [conformsFields, keysIn]
  | .cons name ty d rest, m, out, hwf, h => by
    obtain ⟨hfresh, hty, hd, hrest⟩ := Fields.wf_cons hwf
    simp only [Spec.coerceFields] at h
    refine addField_good hfresh hd ?_ (fun t ht => spec_coerceFields_good P rest m t hrest ht) h
    intro c hc
    cases hl : m.lookup name with
    | none => simp [hl] at hc
    | some fv =>
      simp [hl] at hc
      exact spec_coerce_conforms P ty fv c hty hc
end


/-! ## The literal route equals the specification -/

theorem mapAll_congr {α β : Type} {f g : α → Option β} :
    ∀ {xs : List α}, (∀ x ∈ xs, f x = g x) → mapAll f xs = mapAll g xs
  | [], _ => rfl
  | x :: xs, h => by
    simp only [mapAll]
    rw [h x (List.mem_cons_self ..), mapAll_congr (fun y hy => h y (List.mem_cons_of_mem _ hy))]

theorem mapAll_map {α β γ : Type} {f : β → Option γ} {g : α → β} :
    ∀ {xs : List α}, mapAll f (xs.map g) = mapAll (fun x => f (g x)) xs
  | [] => rfl
  | x :: xs => by simp only [List.map_cons, mapAll]; rw [mapAll_map]

theorem toLitL_eq_map : ∀ (xs : List CV), CV.toLitL xs = xs.map CV.toLit
  | [] => rfl
  | x :: xs => by simp [CV.toLitL, toLitL_eq_map xs]

theorem toLitF_eq_map : ∀ (fs : List (String × CV)), CV.toLitF fs = fs.map (fun p => (p.1, p.2.toLit))
  | [] => rfl
  | p :: ps => by simp [CV.toLitF, toLitF_eq_map ps]

theorem wfL_forall : ∀ {xs : List CV}, CV.wfL xs = true → ∀ x ∈ xs, x.wf = true
  | [], _, x, hx => by simp at hx
  | y :: ys, h, x, hx => by
    simp only [CV.wfL, Bool.and_eq_true] at h
    rcases List.mem_cons.mp hx with rfl | hx
    · exact h.1
    · exact wfL_forall h.2 x hx

theorem wfF_lookup : ∀ {m : List (String × CV)} {name : String} {v : CV}, CV.wfF m = true →
    m.lookup name = some v → v.wf = true
  | [], _, _, _, h => by simp at h
  | (k, w) :: rest, name, v, hw, h => by
    simp only [CV.wfF, Bool.and_eq_true] at hw
    simp only [List.lookup] at h
    split at h
    · cases h; exact hw.1
    · exact wfF_lookup hw.2 h

theorem toLit_not_var (v : CV) (vars : Vars) : isUnsetVar vars v.toLit = false := by
  cases v <;> simp [CV.toLit, isUnsetVar]

theorem lookup_none_of_not_any {α : Type} {k : String} : ∀ {m : List (String × α)},
    m.any (fun q => q.1 == k) = false → m.lookup k = none
  | [], _ => rfl
  | (k', v) :: rest, h => by
    simp only [List.any_cons, Bool.or_eq_false_iff] at h
    simp only [List.lookup]
    have : (k == k') = false := by
      cases hb : k == k'
      · rfl
      · have : k = k' := by simpa using hb
        subst this; simp at h
    simp only [this]
    exact lookup_none_of_not_any h.2

/-- With distinct keys the literal entries written for a field are the one the map holds. -/
theorem filter_toLitF (name : String) (vars : Vars) : ∀ {m : List (String × CV)}, noDupKeys m = true →
    (CV.toLitF m).filter (fun p => p.1 == name && !isUnsetVar vars p.2)
      = match m.lookup name with
        | some v => [(name, v.toLit)]
        | none => []
  | [], _ => rfl
  | (k, v) :: rest, h => by
    simp only [noDupKeys, Bool.and_eq_true] at h
    obtain ⟨hfresh, hrest⟩ := h
    have hfresh' : rest.any (fun q => q.1 == k) = false := by simpa using hfresh
    simp only [CV.toLitF, List.filter_cons, toLit_not_var, List.lookup]
    cases hk : k == name
    · have : (name == k) = false := by
        cases hb : name == k
        · rfl
        · have e : name = k := by simpa using hb
          subst e; simp at hk
      simp only [this, Bool.false_and]
      exact filter_toLitF name vars hrest
    · have e : k = name := by simpa using hk
      subst e
      simp only [beq_self_eq_true, Bool.not_false, Bool.and_self, if_true]
      rw [filter_toLitF k vars hrest, lookup_none_of_not_any hfresh']

theorem all_hasName_toLitF (fs : Fields) : ∀ (m : List (String × CV)),
    (CV.toLitF m).all (fun p => fs.hasName p.1) = m.all (fun p => fs.hasName p.1)
  | [] => rfl
  | p :: ps => by simp [CV.toLitF, all_hasName_toLitF fs ps]

theorem scalar_coerceLit_eq_spec (P : Parse) (k : Scalar) (v : CV) :
    k.coerceLit P v.toLit = Spec.scalar P k v := by
  cases k <;> cases v <;> simp [Scalar.coerceLit, Spec.scalar, CV.toLit]

theorem spec_coerce_nonNull_not_nil (P : Parse) {T : Ty} {v : CV} {c : GoVal} (hnn : isNonNull T = true)
    (h : Spec.coerce P T v = some c) : c.isNil = false := by
  cases T <;> simp [isNonNull] at hnn
  rename_i t
  simp only [Spec.coerce] at h
  split at h
  · simp at h
  · rename_i hv
    exact spec_coerce_not_nil P t v c (by simpa using hv) h

theorem litProvided_single {ty : Ty} {c : GoVal} (h : isNonNull ty = true → c.isNil = false) :
    litProvided ty (some [c]) = some (some c) := by
  simp only [litProvided, List.getLast?_singleton]
  split
  · rename_i hcn
    simp only [Bool.and_eq_true] at hcn
    simp [h hcn.2] at hcn
  · rfl

mutual
/-- **The literal route is the specification**, item-to-list flag included: with the flag the
    code computes `Spec.coerce`, without it (items of a list value) `Spec.coerceItem`. -/
theorem coerceLit_eq_spec (P : Parse) :
    ∀ (T : Ty) (v : CV) (allow : Bool), v.wf = true →
      coerceLit P [] T v.toLit allow = if allow then Spec.coerce P T v else Spec.coerceItem P T v
  | .scalar k, v, allow, _ => by
    cases v <;> cases allow <;>
      simp [coerceLit, CV.toLit, Spec.coerce, Spec.coerceItem, isListish, isNonNull, coerceVarRef,
        ← scalar_coerceLit_eq_spec]
  | .enum n vals, v, allow, _ => by
    cases v <;> cases allow <;>
      simp [coerceLit, CV.toLit, Spec.coerce, Spec.coerceItem, isListish, isNonNull]
  | .inputObj n fs, v, allow, hw => by
    cases v with
    | obj m =>
      simp only [CV.wf, Bool.and_eq_true] at hw
      have := coerceLitFields_eq_spec P fs m hw.1 hw.2
      cases allow <;>
        (simp only [coerceLit, CV.toLit, Spec.coerce, Spec.coerceItem, isListish, this]
         rw [all_hasName_toLitF]; simp)
    | null => cases allow <;> simp [coerceLit, CV.toLit, Spec.coerce, Spec.coerceItem, isListish, isNonNull]
    | int z => cases allow <;> simp [coerceLit, CV.toLit, Spec.coerce, Spec.coerceItem, isListish, isNonNull]
    | half z => cases allow <;> simp [coerceLit, CV.toLit, Spec.coerce, Spec.coerceItem, isListish, isNonNull]
    | str z => cases allow <;> simp [coerceLit, CV.toLit, Spec.coerce, Spec.coerceItem, isListish, isNonNull]
    | bool z => cases allow <;> simp [coerceLit, CV.toLit, Spec.coerce, Spec.coerceItem, isListish, isNonNull]
    | enum z => cases allow <;> simp [coerceLit, CV.toLit, Spec.coerce, Spec.coerceItem, isListish, isNonNull]
    | list z => cases allow <;> simp [coerceLit, CV.toLit, Spec.coerce, Spec.coerceItem, isListish, isNonNull]
  | .list t, v, allow, hw => by
    have leaf : ∀ (w : CV), w.wf = true → w.isList = false → w.isNull = false → w.toLit.plain = true →
        (∀ xs, w.toLit ≠ .list xs) →
        coerceLit P [] (.list t) w.toLit allow
          = if allow then Spec.coerce P (.list t) w else Spec.coerceItem P (.list t) w := by
      intro w hww hl hn hp hnl
      have ih := coerceLit_eq_spec P t w true hww
      simp only [if_true] at ih
      cases w <;> simp [CV.isList, CV.isNull] at hl hn <;> cases allow <;>
        simp_all [coerceLit, CV.toLit, Spec.coerce, Spec.coerceItem, isListish, CV.isList, CV.isNull]
    cases v with
    | null => cases allow <;> simp [coerceLit, CV.toLit, Spec.coerce, Spec.coerceItem, isListish, isNonNull, CV.isNull, CV.isList]
    | list xs =>
      have hxs := wfL_forall (by simpa [CV.wf] using hw)
      have items : mapAll (fun x => coerceLit P [] t x false) (CV.toLitL xs)
          = mapAll (fun x => if (isListish t && !(x.isList || x.isNull)) = true then none else Spec.coerce P t x) xs := by
        rw [toLitL_eq_map, mapAll_map]
        apply mapAll_congr
        intro x hx
        have := coerceLit_eq_spec P t x false (hxs x hx)
        simpa [Spec.coerceItem] using this
      cases allow <;>
        simp [coerceLit, CV.toLit, Spec.coerce, Spec.coerceItem, isListish, CV.isList, CV.isNull, items]
    | int z => exact leaf _ hw rfl rfl rfl (by intro xs h; cases h)
    | half z => exact leaf _ hw rfl rfl rfl (by intro xs h; cases h)
    | str z => exact leaf _ hw rfl rfl rfl (by intro xs h; cases h)
    | bool z => exact leaf _ hw rfl rfl rfl (by intro xs h; cases h)
    | enum z => exact leaf _ hw rfl rfl rfl (by intro xs h; cases h)
    | obj z => exact leaf _ hw rfl rfl rfl (by intro xs h; cases h)
  | .nonNull t, v, allow, hw => by
    have ih := coerceLit_eq_spec P t v allow hw
    cases v <;> cases allow <;>
      simp_all [coerceLit, CV.toLit, Spec.coerce, Spec.coerceItem, isListish, isNonNull, CV.isNull, CV.isList]
theorem coerceLitFields_eq_spec (P : Parse) :
    ∀ (fs : Fields) (m : List (String × CV)), noDupKeys m = true → CV.wfF m = true →
      coerceLitFields P [] fs (CV.toLitF m) = Spec.coerceFields P fs m
  | .nil, m, _, _ => by simp [coerceLitFields, Spec.coerceFields]
  | .cons name ty d rest, m, hnd, hw => by
    simp only [coerceLitFields, Spec.coerceFields]
    rw [coerceLitFields_eq_spec P rest m hnd hw, filter_toLitF name [] hnd]
    cases hl : m.lookup name with
    | none => simp [mapAll, litProvided]
    | some v =>
      have ih := coerceLit_eq_spec P ty v true (wfF_lookup hw hl)
      simp only [if_true] at ih
      simp only [mapAll, ih, Option.map_some]
      cases hc : Spec.coerce P ty v with
      | none => simp [litProvided]
      | some c => simp only [litProvided_single (fun hnn => spec_coerce_nonNull_not_nil P hnn hc)]
end


/-! ## The variable route equals the specification on JSON-faithful values -/

theorem toJsonL_eq_map : ∀ (xs : List CV), CV.toJsonL xs = xs.map CV.toJson
  | [] => rfl
  | x :: xs => by simp [CV.toJsonL, toJsonL_eq_map xs]

theorem lookup_toJsonF (name : String) : ∀ (m : List (String × CV)),
    (CV.toJsonF m).lookup name = (m.lookup name).map CV.toJson
  | [] => rfl
  | (k, v) :: rest => by
    simp only [CV.toJsonF, List.lookup]
    split <;> simp [lookup_toJsonF name rest]

theorem all_hasName_toJsonF (fs : Fields) : ∀ (m : List (String × CV)),
    (CV.toJsonF m).all (fun p => fs.hasName p.1) = m.all (fun p => fs.hasName p.1)
  | [] => rfl
  | p :: ps => by simp [CV.toJsonF, all_hasName_toJsonF fs ps]

theorem scalar_coerceVar_eq_spec (P : Parse) (k : Scalar) (v : CV)
    (hf : jsonFaithful (.scalar k) v = true) : k.coerceVar P v.toJson = Spec.scalar P k v := by
  cases k <;> cases v <;>
    simp_all [Scalar.coerceVar, Spec.scalar, CV.toJson, jsonFaithful, Scalar.integral, Scalar.acceptsString,
      Int.mul_emod_right, Int.mul_ediv_cancel_left]

mutual
/-- **The variable route is the specification** on every client value JSON represents faithfully
    for the type it is sent to. -/
theorem coerceVar_eq_spec (P : Parse) :
    ∀ (T : Ty) (v : CV) (allow : Bool), v.wf = true → jsonFaithful T v = true →
      coerceVar P T v.toJson allow = if allow then Spec.coerce P T v else Spec.coerceItem P T v
  | .scalar k, v, allow, _, hf => by
    have := scalar_coerceVar_eq_spec P k v hf
    cases v <;> cases allow <;>
      simp_all [coerceVar, CV.toJson, Spec.coerce, Spec.coerceItem, isListish, isNonNull]
  | .enum n vals, v, allow, _, hf => by
    cases v <;> cases allow <;>
      simp_all [coerceVar, CV.toJson, Spec.coerce, Spec.coerceItem, isListish, isNonNull, jsonFaithful]
  | .inputObj n fs, v, allow, hw, hf => by
    cases v with
    | obj m =>
      simp only [CV.wf, Bool.and_eq_true] at hw
      have := coerceVarFields_eq_spec P fs m hw.2 (by simpa [jsonFaithful] using hf)
      cases allow <;>
        (simp only [coerceVar, CV.toJson, Spec.coerce, Spec.coerceItem, isListish, this]
         rw [all_hasName_toJsonF]; simp)
    | null => cases allow <;> simp [coerceVar, CV.toJson, Spec.coerce, Spec.coerceItem, isListish, isNonNull]
    | int z => cases allow <;> simp [coerceVar, CV.toJson, Spec.coerce, Spec.coerceItem, isListish]
    | half z => cases allow <;> simp [coerceVar, CV.toJson, Spec.coerce, Spec.coerceItem, isListish]
    | str z => cases allow <;> simp [coerceVar, CV.toJson, Spec.coerce, Spec.coerceItem, isListish]
    | bool z => cases allow <;> simp [coerceVar, CV.toJson, Spec.coerce, Spec.coerceItem, isListish]
    | enum z => cases allow <;> simp [coerceVar, CV.toJson, Spec.coerce, Spec.coerceItem, isListish]
    | list z => cases allow <;> simp [coerceVar, CV.toJson, Spec.coerce, Spec.coerceItem, isListish]
  | .list t, v, allow, hw, hf => by
    have leaf : ∀ (w : CV), w.wf = true → jsonFaithful t w = true → w.isList = false → w.isNull = false →
        coerceVar P (.list t) w.toJson allow
          = if allow then Spec.coerce P (.list t) w else Spec.coerceItem P (.list t) w := by
      intro w hww hfw hl hn
      have ih := coerceVar_eq_spec P t w true hww hfw
      simp only [if_true] at ih
      cases w <;> simp [CV.isList, CV.isNull] at hl hn <;> cases allow <;>
        simp_all [coerceVar, CV.toJson, Spec.coerce, Spec.coerceItem, isListish, CV.isList, CV.isNull]
    cases v with
    | null => cases allow <;> simp [coerceVar, CV.toJson, Spec.coerce, Spec.coerceItem, isListish, isNonNull, CV.isNull, CV.isList]
    | list xs =>
      have hxs := wfL_forall (by simpa [CV.wf] using hw)
      have hfs : ∀ x ∈ xs, jsonFaithful t x = true := by simpa [jsonFaithful] using hf
      have items : mapAll (fun x => coerceVar P t x false) (CV.toJsonL xs)
          = mapAll (fun x => if (isListish t && !(x.isList || x.isNull)) = true then none else Spec.coerce P t x) xs := by
        rw [toJsonL_eq_map, mapAll_map]
        apply mapAll_congr
        intro x hx
        have := coerceVar_eq_spec P t x false (hxs x hx) (hfs x hx)
        simpa [Spec.coerceItem] using this
      cases allow <;>
        simp [coerceVar, CV.toJson, Spec.coerce, Spec.coerceItem, isListish, CV.isList, CV.isNull, items]
    | int z => exact leaf _ hw (by simpa [jsonFaithful] using hf) rfl rfl
    | half z => exact leaf _ hw (by simpa [jsonFaithful] using hf) rfl rfl
    | str z => exact leaf _ hw (by simpa [jsonFaithful] using hf) rfl rfl
    | bool z => exact leaf _ hw (by simpa [jsonFaithful] using hf) rfl rfl
    | enum z => exact leaf _ hw (by simpa [jsonFaithful] using hf) rfl rfl
    | obj z => exact leaf _ hw (by simpa [jsonFaithful] using hf) rfl rfl
  | .nonNull t, v, allow, hw, hf => by
    cases v with
    | null => cases allow <;> simp [coerceVar, CV.toJson, Spec.coerce, Spec.coerceItem, isListish, isNonNull, CV.isNull, CV.isList]
    | int z =>
      have ih := coerceVar_eq_spec P t _ allow hw (by simpa [jsonFaithful] using hf)
      cases allow <;> simp_all [coerceVar, CV.toJson, Spec.coerce, Spec.coerceItem, isListish, CV.isNull, CV.isList]
    | half z =>
      have ih := coerceVar_eq_spec P t _ allow hw (by simpa [jsonFaithful] using hf)
      cases allow <;> simp_all [coerceVar, CV.toJson, Spec.coerce, Spec.coerceItem, isListish, CV.isNull, CV.isList]
    | str z =>
      have ih := coerceVar_eq_spec P t _ allow hw (by simpa [jsonFaithful] using hf)
      cases allow <;> simp_all [coerceVar, CV.toJson, Spec.coerce, Spec.coerceItem, isListish, CV.isNull, CV.isList]
    | bool z =>
      have ih := coerceVar_eq_spec P t _ allow hw (by simpa [jsonFaithful] using hf)
      cases allow <;> simp_all [coerceVar, CV.toJson, Spec.coerce, Spec.coerceItem, isListish, CV.isNull, CV.isList]
    | enum z =>
      have ih := coerceVar_eq_spec P t _ allow hw (by simpa [jsonFaithful] using hf)
      cases allow <;> simp_all [coerceVar, CV.toJson, Spec.coerce, Spec.coerceItem, isListish, CV.isNull, CV.isList]
    | list z =>
      have ih := coerceVar_eq_spec P t _ allow hw (by simpa [jsonFaithful] using hf)
      cases allow <;> simp_all [coerceVar, CV.toJson, Spec.coerce, Spec.coerceItem, isListish, CV.isNull, CV.isList]
    | obj z =>
      have ih := coerceVar_eq_spec P t _ allow hw (by simpa [jsonFaithful] using hf)
      cases allow <;> simp_all [coerceVar, CV.toJson, Spec.coerce, Spec.coerceItem, isListish, CV.isNull, CV.isList]
theorem coerceVarFields_eq_spec (P : Parse) :
    ∀ (fs : Fields) (m : List (String × CV)), CV.wfF m = true → jsonFaithfulFields fs m = true →
      coerceVarFields P fs (CV.toJsonF m) = Spec.coerceFields P fs m
  | .nil, m, _, _ => by simp [coerceVarFields, Spec.coerceFields]
  | .cons name ty d rest, m, hw, hf => by
    simp only [jsonFaithfulFields, Bool.and_eq_true] at hf
    simp only [coerceVarFields, Spec.coerceFields]
    rw [coerceVarFields_eq_spec P rest m hw hf.2, lookup_toJsonF]
    cases hl : m.lookup name with
    | none => simp
    | some v =>
      have ih := coerceVar_eq_spec P ty v true (wfF_lookup hw hl) (by simpa [hl] using hf.1)
      simp only [if_true] at ih
      simp [ih]
end

theorem lookupLast_mem {α : Type} {k : String} : ∀ {l : List (String × α)} {v : α},
    lookupLast k l = some v → (k, v) ∈ l
  | [], v, h => by simp [lookupLast] at h
  | (k', v') :: rest, v, h => by
    simp only [lookupLast] at h
    cases hr : lookupLast k rest with
    | some w =>
      simp only [hr] at h
      cases h
      exact List.mem_cons_of_mem _ (lookupLast_mem hr)
    | none =>
      simp only [hr] at h
      split at h
      · rename_i heq
        cases h
        have : k' = k := by simpa using heq
        subst this
        exact List.mem_cons_self ..
      · simp at h

theorem find_self {defs : List ArgDef} (hnd : noDupNames (defs.map (·.name)) = true) {d : ArgDef}
    (hd : d ∈ defs) : ArgDef.find defs d.name = some d := by
  induction defs with
  | nil => simp at hd
  | cons d0 ds ih =>
    obtain ⟨hfresh, hnd'⟩ := noDupNames_cons (by simpa using hnd)
    rcases List.mem_cons.mp hd with rfl | hd
    · simp [ArgDef.find]
    · have hne : (d0.name == d.name) = false := by
        cases hb : d0.name == d.name
        · rfl
        · exfalso; apply hfresh
          have : d0.name = d.name := by simpa using hb
          rw [this]; exact List.mem_map_of_mem hd
      have := ih hnd' hd
      simp only [ArgDef.find] at this ⊢
      simp [hne, this]



/-! ## Variables nested in a literal -/

mutual
theorem inline_closed (σ : Supplied) : ∀ (l : Lit), containsVar l = false → inline σ l = l
  | .var n, h => by simp [containsVar] at h
  | .list xs, h => by simp only [inline]; rw [inlineL_closed σ xs (by simpa [containsVar] using h)]
  | .obj fs, h => by simp only [inline]; rw [inlineF_closed σ fs (by simpa [containsVar] using h)]
  | .int z, _ => rfl
  | .float z, _ => rfl
  | .str z, _ => rfl
  | .bool z, _ => rfl
  | .null, _ => rfl
  | .enum z, _ => rfl
theorem inlineL_closed (σ : Supplied) : ∀ (xs : List Lit), containsVarL xs = false → inlineL σ xs = xs
  | [], _ => rfl
  | x :: xs, h => by
    simp only [containsVarL, Bool.or_eq_false_iff] at h
    simp only [inlineL]; rw [inline_closed σ x h.1, inlineL_closed σ xs h.2]
theorem inlineF_closed (σ : Supplied) : ∀ (fs : List (String × Lit)), containsVarF fs = false → inlineF σ fs = fs
  | [], _ => rfl
  | (k, l) :: ps, h => by
    simp only [containsVarF, Bool.or_eq_false_iff] at h
    have := inline_closed σ l h.1
    cases l <;> simp_all [inlineF, containsVar, inlineF_closed σ ps h.2]
end

theorem containsVarF_of_forall : ∀ {fs : List (String × Lit)}, (∀ p ∈ fs, containsVar p.2 = false) → containsVarF fs = false
  | [], _ => rfl
  | q :: qs, h => by
    simp only [containsVarF, Bool.or_eq_false_iff]
    exact ⟨h q (List.mem_cons_self ..), containsVarF_of_forall (fun p hp => h p (List.mem_cons_of_mem _ hp))⟩

theorem isUnsetVar_closed {vars : Vars} {l : Lit} (h : containsVar l = false) : isUnsetVar vars l = false := by
  cases l <;> simp_all [isUnsetVar, containsVar]

mutual
/-- The variable values do not matter for a literal without variables. -/
theorem coerceLit_closed (P : Parse) (vars : Vars) :
    ∀ (T : Ty) (l : Lit) (a : Bool), containsVar l = false → coerceLit P vars T l a = coerceLit P [] T l a
  | .scalar k, l, a, h => by cases l <;> simp_all [coerceLit, containsVar]
  | .enum n vs, l, a, h => by cases l <;> simp_all [coerceLit, containsVar]
  | .inputObj n fs, l, a, h => by
    cases l with
    | obj lfs =>
      have := coerceLitFields_closed P vars fs lfs (containsVarF_false (by simpa [containsVar] using h))
      simp [coerceLit, this]
    | var n => simp [containsVar] at h
    | null => simp [coerceLit]
    | int z => simp [coerceLit]
    | float z => simp [coerceLit]
    | str z => simp [coerceLit]
    | bool z => simp [coerceLit]
    | enum z => simp [coerceLit]
    | list z => simp [coerceLit]
  | .list t, l, a, h => by
    cases l with
    | var n => simp [containsVar] at h
    | null => simp [coerceLit]
    | list xs =>
      have hx := containsVarL_false (by simpa [containsVar] using h)
      simp only [coerceLit]
      rw [mapAll_congr (fun x hxm => coerceLit_closed P vars t x false (hx x hxm))]
    | int z => simp only [coerceLit]; rw [coerceLit_closed P vars t _ true h]
    | float z => simp only [coerceLit]; rw [coerceLit_closed P vars t _ true h]
    | str z => simp only [coerceLit]; rw [coerceLit_closed P vars t _ true h]
    | bool z => simp only [coerceLit]; rw [coerceLit_closed P vars t _ true h]
    | enum z => simp only [coerceLit]; rw [coerceLit_closed P vars t _ true h]
    | obj z => simp only [coerceLit]; rw [coerceLit_closed P vars t _ true h]
  | .nonNull t, l, a, h => by
    cases l with
    | var n => simp [containsVar] at h
    | null => simp [coerceLit]
    | list xs => simp only [coerceLit]; exact coerceLit_closed P vars t _ a h
    | int z => simp only [coerceLit]; exact coerceLit_closed P vars t _ a h
    | float z => simp only [coerceLit]; exact coerceLit_closed P vars t _ a h
    | str z => simp only [coerceLit]; exact coerceLit_closed P vars t _ a h
    | bool z => simp only [coerceLit]; exact coerceLit_closed P vars t _ a h
    | enum z => simp only [coerceLit]; exact coerceLit_closed P vars t _ a h
    | obj z => simp only [coerceLit]; exact coerceLit_closed P vars t _ a h
theorem coerceLitFields_closed (P : Parse) (vars : Vars) :
    ∀ (fs : Fields) (lfs : List (String × Lit)), (∀ p ∈ lfs, containsVar p.2 = false) →
      coerceLitFields P vars fs lfs = coerceLitFields P [] fs lfs
  | .nil, _, _ => by simp [coerceLitFields]
  | .cons name ty d rest, lfs, h => by
    simp only [coerceLitFields]
    rw [coerceLitFields_closed P vars rest lfs h]
    have hf : lfs.filter (fun p => p.1 == name && !isUnsetVar vars p.2)
        = lfs.filter (fun p => p.1 == name && !isUnsetVar [] p.2) := by
      apply List.filter_congr
      intro p hp
      rw [isUnsetVar_closed (h p hp), isUnsetVar_closed (h p hp)]
    rw [hf]
    rw [mapAll_congr (fun p hp => coerceLit_closed P vars ty p.2 true (h p (List.mem_filter.mp hp).1))]
end

theorem coerceVar_nonNull_not_nil (P : Parse) {L : Ty} {j : Json} {a : Bool} {x : GoVal}
    (hnn : isNonNull L = true) (h : coerceVar P L j a = some x) : x.isNil = false := by
  cases L <;> simp [isNonNull] at hnn
  rename_i t
  cases j with
  | null => simp [coerceVar, isNonNull] at h
  | num z => exact coerceVar_not_nil P _ _ a x rfl h
  | str z => exact coerceVar_not_nil P _ _ a x rfl h
  | bool z => exact coerceVar_not_nil P _ _ a x rfl h
  | list z => exact coerceVar_not_nil P _ _ a x rfl h
  | obj z => exact coerceVar_not_nil P _ _ a x rfl h

/-- A variable that stands for a supplied value coerces exactly like that value written in place. -/
theorem var_stands (P : Parse) (σ : Supplied) (vars : Vars) (L : Ty) (item : Bool) (n : String)
    (h : VarStandsFor P σ vars L item n) :
    coerceLit P vars L (.var n) (!item) = coerceLit P [] L (inline σ (.var n)) (!item) := by
  simp only [VarStandsFor] at h
  simp only [coerceLit, inline, coerceVarRef]
  cases hs : σ.lookup n with
  | none =>
    simp only [hs] at h
    simp [h, coerceLit]
  | some v =>
    simp only [hs] at h
    obtain ⟨hw, hf, ⟨x, hx, hc⟩, hitem⟩ := h
    simp only [hx]
    have hspec := (coerceVar_eq_spec P L v true hw hf).symm
    simp only [if_true, hc] at hspec
    have hnil : (x.isNil && isNonNull L) = false := by
      cases hnn : isNonNull L
      · simp
      · simp [coerceVar_nonNull_not_nil P hnn hc]
    simp only [hnil]
    rw [coerceLit_eq_spec P L v (!item) hw]
    cases item with
    | false => simp [hspec]
    | true =>
      simp only [Bool.not_true, Spec.coerceItem]
      cases hl : isListish L
      · simp [hspec]
      · have := hitem rfl hl
        simp [this, hspec]


theorem inlineL_eq_map (σ : Supplied) : ∀ (xs : List Lit), inlineL σ xs = xs.map (inline σ)
  | [] => rfl
  | x :: xs => by simp [inlineL, inlineL_eq_map σ xs]

theorem closed_case (P : Parse) (σ : Supplied) (vars : Vars) (T : Ty) (l : Lit) (a : Bool)
    (h : containsVar l = false) : coerceLit P vars T l a = coerceLit P [] T (inline σ l) a := by
  rw [inline_closed σ l h, coerceLit_closed P vars T l a h]

theorem nested_var {P : Parse} {σ : Supplied} {vars : Vars} {T : Ty} {item : Bool} {n : String}
    (h : Nested P σ vars T item (.var n)) : VarStandsFor P σ vars T item n := by
  cases T <;> simpa [Nested] using h

theorem inline_not_unset (σ : Supplied) (l : Lit) : isUnsetVar [] (inline σ l) = false := by
  cases l with
  | var n =>
    simp only [inline]
    cases σ.lookup n with
    | none => rfl
    | some v => exact toLit_not_var v []
  | null => rfl
  | int z => rfl
  | float z => rfl
  | str z => rfl
  | bool z => rfl
  | enum z => rfl
  | list z => rfl
  | obj z => rfl

theorem isUnsetVar_var (vars : Vars) (n : String) : isUnsetVar vars (.var n) = (vars.lookup n).isNone := rfl

/-- The entries a literal writes for one declared field, with variables and with the values the
    variables stand for written in place, coerce alike. -/
theorem nested_field_entries (P : Parse) (σ : Supplied) (vars : Vars) (name : String) (ty : Ty)
    (ih : ∀ l, Nested P σ vars ty false l → coerceLit P vars ty l true = coerceLit P [] ty (inline σ l) true) :
    ∀ (lfs : List (String × Lit)), (∀ p ∈ lfs, p.1 = name → Nested P σ vars ty false p.2) →
      mapAll (fun (p : String × Lit) => coerceLit P vars ty p.2 true)
          (lfs.filter (fun p => p.1 == name && !isUnsetVar vars p.2))
        = mapAll (fun (p : String × Lit) => coerceLit P [] ty p.2 true)
          ((inlineF σ lfs).filter (fun p => p.1 == name && !isUnsetVar [] p.2))
  | [], _ => rfl
  | (k, l) :: ps, h => by
    have hrest := nested_field_entries P σ vars name ty ih ps (fun p hp => h p (List.mem_cons_of_mem _ hp))
    cases hk : k == name with
    | false =>
      -- another field's entry: skipped on both sides
      have lhs : ((k, l) :: ps).filter (fun p => p.1 == name && !isUnsetVar vars p.2)
          = ps.filter (fun p => p.1 == name && !isUnsetVar vars p.2) := by
        simp [List.filter_cons, hk]
      rw [lhs, hrest]
      cases l with
      | var n =>
        simp only [inlineF]
        cases σ.lookup n <;> simp [List.filter_cons, hk]
      | null => simp [inlineF, List.filter_cons, hk]
      | int z => simp [inlineF, List.filter_cons, hk]
      | float z => simp [inlineF, List.filter_cons, hk]
      | str z => simp [inlineF, List.filter_cons, hk]
      | bool z => simp [inlineF, List.filter_cons, hk]
      | enum z => simp [inlineF, List.filter_cons, hk]
      | list z => simp [inlineF, List.filter_cons, hk]
      | obj z => simp [inlineF, List.filter_cons, hk]
    | true =>
      have hkn : k = name := by simpa using hk
      have hn := h (k, l) (List.mem_cons_self ..) hkn
      have plain : ∀ (l' : Lit), l' = l → isUnsetVar vars l = false → inlineF σ ((k, l) :: ps) = (k, inline σ l) :: inlineF σ ps →
          mapAll (fun (p : String × Lit) => coerceLit P vars ty p.2 true)
              (((k, l) :: ps).filter (fun p => p.1 == name && !isUnsetVar vars p.2))
            = mapAll (fun (p : String × Lit) => coerceLit P [] ty p.2 true)
              ((inlineF σ ((k, l) :: ps)).filter (fun p => p.1 == name && !isUnsetVar [] p.2)) := by
        intro _ _ hu hi
        rw [hi]
        simp only [List.filter_cons, hk, hu, inline_not_unset, Bool.not_false, Bool.and_self, if_true, mapAll]
        rw [ih l hn, hrest]
      cases l with
      | var n =>
        have hv := nested_var hn
        have hvs := var_stands P σ vars ty false n hv
        simp only [Bool.not_false] at hvs
        simp only [VarStandsFor] at hv
        cases hs : σ.lookup n with
        | none =>
          simp only [hs] at hv
          have hu : isUnsetVar vars (.var n) = true := by rw [isUnsetVar_var, hv]; rfl
          have hi : inlineF σ ((k, .var n) :: ps) = inlineF σ ps := by simp only [inlineF, hs]
          rw [hi]
          simp only [List.filter_cons, hk, hu, Bool.not_true, Bool.and_false, Bool.false_eq_true, if_false]
          exact hrest
        | some v =>
          simp only [hs] at hv
          obtain ⟨_, _, ⟨x, hx, _⟩, _⟩ := hv
          simp only [inline, hs] at hvs
          have hu : isUnsetVar vars (.var n) = false := by rw [isUnsetVar_var, hx]; rfl
          have hi : inlineF σ ((k, .var n) :: ps) = (k, v.toLit) :: inlineF σ ps := by simp only [inlineF, hs]
          rw [hi]
          simp only [List.filter_cons, hk, hu, toLit_not_var, Bool.not_false, Bool.and_self, if_true, mapAll]
          rw [hvs, hrest]
      | null => exact plain _ rfl rfl rfl
      | int z => exact plain _ rfl rfl rfl
      | float z => exact plain _ rfl rfl rfl
      | str z => exact plain _ rfl rfl rfl
      | bool z => exact plain _ rfl rfl rfl
      | enum z => exact plain _ rfl rfl rfl
      | list z => exact plain _ rfl rfl rfl
      | obj z => exact plain _ rfl rfl rfl

theorem all_hasName_inlineF (σ : Supplied) (fs : Fields) : ∀ (lfs : List (String × Lit)),
    (∀ p ∈ lfs, fs.hasName p.1 = true ∨ containsVar p.2 = false) →
      (inlineF σ lfs).all (fun p => fs.hasName p.1) = lfs.all (fun p => fs.hasName p.1)
  | [], _ => rfl
  | (k, l) :: ps, h => by
    have hrest := all_hasName_inlineF σ fs ps (fun p hp => h p (List.mem_cons_of_mem _ hp))
    cases l with
    | var n =>
      have := h (k, .var n) (List.mem_cons_self ..)
      simp only [containsVar, Bool.true_eq_false, or_false] at this
      simp only [inlineF]
      cases σ.lookup n <;> simp [this, hrest]
    | null => simp [inlineF, hrest]
    | int z => simp [inlineF, hrest]
    | float z => simp [inlineF, hrest]
    | str z => simp [inlineF, hrest]
    | bool z => simp [inlineF, hrest]
    | enum z => simp [inlineF, hrest]
    | list z => simp [inlineF, hrest]
    | obj z => simp [inlineF, hrest]


mutual
theorem nested_lit (P : Parse) (σ : Supplied) (vars : Vars) :
    ∀ (T : Ty) (l : Lit) (item : Bool), Nested P σ vars T item l →
      coerceLit P vars T l (!item) = coerceLit P [] T (inline σ l) (!item)
  | .scalar k, l, item, h => by
    cases l with
    | var n => exact var_stands P σ vars _ item n (nested_var h)
    | null => exact closed_case P σ vars _ _ _ rfl
    | int z => exact closed_case P σ vars _ _ _ rfl
    | float z => exact closed_case P σ vars _ _ _ rfl
    | str z => exact closed_case P σ vars _ _ _ rfl
    | bool z => exact closed_case P σ vars _ _ _ rfl
    | enum z => exact closed_case P σ vars _ _ _ rfl
    | list z => exact closed_case P σ vars _ _ _ (by simpa [Nested] using h)
    | obj z => exact closed_case P σ vars _ _ _ (by simpa [Nested] using h)
  | .enum n vs, l, item, h => by
    cases l with
    | var n => exact var_stands P σ vars _ item n (nested_var h)
    | null => exact closed_case P σ vars _ _ _ rfl
    | int z => exact closed_case P σ vars _ _ _ rfl
    | float z => exact closed_case P σ vars _ _ _ rfl
    | str z => exact closed_case P σ vars _ _ _ rfl
    | bool z => exact closed_case P σ vars _ _ _ rfl
    | enum z => exact closed_case P σ vars _ _ _ rfl
    | list z => exact closed_case P σ vars _ _ _ (by simpa [Nested] using h)
    | obj z => exact closed_case P σ vars _ _ _ (by simpa [Nested] using h)
  | .inputObj n fs, l, item, h => by
    cases l with
    | var n => exact var_stands P σ vars _ item n (nested_var h)
    | obj lfs =>
      simp only [Nested] at h
      simp only [coerceLit, inline]
      rw [all_hasName_inlineF σ fs lfs h.2, nested_fields P σ vars fs lfs h.1]
    | null => exact closed_case P σ vars _ _ _ rfl
    | int z => exact closed_case P σ vars _ _ _ rfl
    | float z => exact closed_case P σ vars _ _ _ rfl
    | str z => exact closed_case P σ vars _ _ _ rfl
    | bool z => exact closed_case P σ vars _ _ _ rfl
    | enum z => exact closed_case P σ vars _ _ _ rfl
    | list z => exact closed_case P σ vars _ _ _ (by simpa [Nested] using h)
  | .list t, l, item, h => by
    cases l with
    | var n => exact var_stands P σ vars _ item n (nested_var h)
    | list xs =>
      simp only [Nested] at h
      simp only [coerceLit, inline]
      rw [inlineL_eq_map, mapAll_map]
      rw [mapAll_congr (fun x hx => by simpa using nested_lit P σ vars t x true (h x hx))]
    | obj lfs =>
      cases item with
      | false =>
        simp only [Nested] at h
        have ih := nested_lit P σ vars t (.obj lfs) false h
        simp only [Bool.not_false, inline] at ih ⊢
        simp only [coerceLit, if_true, ih]
      | true => exact closed_case P σ vars _ _ _ (by simpa [Nested] using h)
    | null => exact closed_case P σ vars _ _ _ rfl
    | int z => exact closed_case P σ vars _ _ _ rfl
    | float z => exact closed_case P σ vars _ _ _ rfl
    | str z => exact closed_case P σ vars _ _ _ rfl
    | bool z => exact closed_case P σ vars _ _ _ rfl
    | enum z => exact closed_case P σ vars _ _ _ rfl
  | .nonNull t, l, item, h => by
    cases l with
    | var n => exact var_stands P σ vars _ item n (nested_var h)
    | null => exact closed_case P σ vars _ _ _ rfl
    | int z => exact closed_case P σ vars _ _ _ rfl
    | float z => exact closed_case P σ vars _ _ _ rfl
    | str z => exact closed_case P σ vars _ _ _ rfl
    | bool z => exact closed_case P σ vars _ _ _ rfl
    | enum z => exact closed_case P σ vars _ _ _ rfl
    | list xs =>
      simp only [Nested] at h
      have ih := nested_lit P σ vars t (.list xs) item h
      simp only [inline] at ih ⊢
      simpa only [coerceLit] using ih
    | obj lfs =>
      simp only [Nested] at h
      have ih := nested_lit P σ vars t (.obj lfs) item h
      simp only [inline] at ih ⊢
      simpa only [coerceLit] using ih
theorem nested_fields (P : Parse) (σ : Supplied) (vars : Vars) :
    ∀ (fs : Fields) (lfs : List (String × Lit)), NestedFields P σ vars fs lfs →
      coerceLitFields P vars fs lfs = coerceLitFields P [] fs (inlineF σ lfs)
  | .nil, _, _ => by simp [coerceLitFields]
  | .cons name ty d rest, lfs, h => by
    simp only [NestedFields] at h
    simp only [coerceLitFields]
    rw [nested_fields P σ vars rest lfs h.2,
      nested_field_entries P σ vars name ty
        (fun l hl => by simpa using nested_lit P σ vars ty l false hl) lfs h.1]
end


/-! ## The static check agrees with the run-time coercion on closed literals -/

theorem mapAll_isSome {α β : Type} {f : α → Option β} :
    ∀ (xs : List α), (mapAll f xs).isSome = xs.all (fun x => (f x).isSome)
  | [] => rfl
  | x :: xs => by
    simp only [mapAll, List.all_cons]
    cases hx : f x with
    | none => simp
    | some y =>
      have := mapAll_isSome (f := f) xs
      cases hm : mapAll f xs <;> simp_all

theorem all_congr_mem {α : Type} {f g : α → Bool} : ∀ {xs : List α}, (∀ x ∈ xs, f x = g x) → xs.all f = xs.all g
  | [], _ => rfl
  | x :: xs, h => by
    simp only [List.all_cons]
    rw [h x (List.mem_cons_self ..), all_congr_mem (fun y hy => h y (List.mem_cons_of_mem _ hy))]

theorem noDupL_forall : ∀ {xs : List Lit}, Lit.noDupL xs = true → ∀ x ∈ xs, x.noDup = true
  | [], _, x, hx => by simp at hx
  | y :: ys, h, x, hx => by
    simp only [Lit.noDupL, Bool.and_eq_true] at h
    rcases List.mem_cons.mp hx with rfl | hx
    · exact h.1
    · exact noDupL_forall h.2 x hx

theorem noDupF_forall : ∀ {fs : List (String × Lit)}, Lit.noDupF fs = true → ∀ p ∈ fs, p.2.noDup = true
  | [], _, p, hp => by simp at hp
  | q :: qs, h, p, hp => by
    simp only [Lit.noDupF, Bool.and_eq_true] at h
    rcases List.mem_cons.mp hp with rfl | hp
    · exact h.1
    · exact noDupF_forall h.2 p hp

/-- With distinct keys a literal writes at most one entry for a field. -/
theorem filter_key {name : String} : ∀ {m : List (String × Lit)}, noDupKeys m = true →
    m.filter (fun p => p.1 == name)
      = match m.lookup name with
        | some v => [(name, v)]
        | none => []
  | [], _ => rfl
  | (k, v) :: rest, h => by
    simp only [noDupKeys, Bool.and_eq_true] at h
    obtain ⟨hfresh, hrest⟩ := h
    have hfresh' : rest.any (fun q => q.1 == k) = false := by simpa using hfresh
    simp only [List.filter_cons, List.lookup]
    cases hk : k == name
    · have : (name == k) = false := by
        cases hb : name == k
        · rfl
        · have e : name = k := by simpa using hb
          subst e; simp at hk
      simp only [this]
      exact filter_key hrest
    · have e : k = name := by simpa using hk
      subst e
      simp only [beq_self_eq_true, if_true]
      rw [filter_key hrest, lookup_none_of_not_any hfresh']

theorem lookup_mem {α : Type} {name : String} : ∀ {m : List (String × α)} {v : α}, m.lookup name = some v → ∃ k, (k, v) ∈ m
  | [], _, h => by simp at h
  | (k, w) :: rest, v, h => by
    simp only [List.lookup] at h
    split at h
    · cases h; exact ⟨k, List.mem_cons_self ..⟩
    · obtain ⟨k', hk'⟩ := lookup_mem h; exact ⟨k', List.mem_cons_of_mem _ hk'⟩

theorem any_key_eq_lookup {name : String} : ∀ (m : List (String × Lit)),
    m.any (fun p => p.1 == name) = (m.lookup name).isSome
  | [] => rfl
  | (k, v) :: rest => by
    simp only [List.any_cons, List.lookup]
    cases hk : k == name
    · have : (name == k) = false := by
        cases hb : name == k
        · rfl
        · have e : name = k := by simpa using hb
          subst e; simp at hk
      simp [this, any_key_eq_lookup rest]
    · have e : k = name := by simpa using hk
      subst e; simp

theorem coerceLit_nonNull_not_nil (P : Parse) {T : Ty} {l : Lit} {a : Bool} {x : GoVal}
    (hnn : isNonNull T = true) (hc : containsVar l = false) (h : coerceLit P [] T l a = some x) :
    x.isNil = false := by
  cases T <;> simp [isNonNull] at hnn
  rename_i t
  cases l with
  | null => simp [coerceLit, isNonNull] at h
  | var n => simp [containsVar] at hc
  | int z => exact coerceLit_not_nil P [] _ _ a x rfl h
  | float z => exact coerceLit_not_nil P [] _ _ a x rfl h
  | str z => exact coerceLit_not_nil P [] _ _ a x rfl h
  | bool z => exact coerceLit_not_nil P [] _ _ a x rfl h
  | enum z => exact coerceLit_not_nil P [] _ _ a x rfl h
  | list z => exact coerceLit_not_nil P [] _ _ a x rfl h
  | obj z => exact coerceLit_not_nil P [] _ _ a x rfl h

mutual
/-- `validateCoercion` accepts a closed literal exactly when `coerceLiteral` succeeds on it. -/
theorem validate_eq_coerces (P : Parse) :
    ∀ (T : Ty) (l : Lit) (a : Bool), containsVar l = false → l.noDup = true →
      validateCoercion P T l a = (coerceLit P [] T l a).isSome
  | .scalar k, l, a, hc, _ => by
    cases l <;> simp_all [validateCoercion, coerceLit, containsVar] <;> cases isNonNull (Ty.scalar k) <;> simp
  | .enum n vs, l, a, hc, _ => by
    cases l <;> simp_all [validateCoercion, coerceLit, containsVar]
    · cases isNonNull (Ty.enum n vs) <;> simp
    · split <;> simp_all
  | .inputObj n fs, l, a, hc, hd => by
    cases l with
    | var n => simp [containsVar] at hc
    | obj lfs =>
      simp only [Lit.noDup, Bool.and_eq_true] at hd
      have hcl := containsVarF_false (by simpa [containsVar] using hc)
      have := validateFields_eq_coerces P fs lfs hcl hd.1 (noDupF_forall hd.2)
      simp only [validateCoercion, coerceLit, hd.1, Bool.true_and, this]
      cases lfs.all (fun p => fs.hasName p.1) <;> simp
    | null => simp [validateCoercion, coerceLit, isNonNull]
    | int z => simp [validateCoercion, coerceLit]
    | float z => simp [validateCoercion, coerceLit]
    | str z => simp [validateCoercion, coerceLit]
    | bool z => simp [validateCoercion, coerceLit]
    | enum z => simp [validateCoercion, coerceLit]
    | list z => simp [validateCoercion, coerceLit]
  | .list t, l, a, hc, hd => by
    have leaf : ∀ (l : Lit), containsVar l = false → l.noDup = true →
        (a && validateCoercion P t l true)
          = (if a = true then (coerceLit P [] t l true).map (fun y => GoVal.list [y]) else none).isSome := by
      intro l hc hd
      rw [validate_eq_coerces P t l true hc hd]
      cases a <;> simp
    cases l with
    | var n => simp [containsVar] at hc
    | null => simp [validateCoercion, coerceLit, isNonNull]
    | list xs =>
      have hx := containsVarL_false (by simpa [containsVar] using hc)
      have hdx := noDupL_forall (by simpa [Lit.noDup] using hd)
      simp only [validateCoercion, coerceLit, Option.isSome_map, mapAll_isSome]
      apply all_congr_mem
      intro x hxm
      exact validate_eq_coerces P t x false (hx x hxm) (hdx x hxm)
    | int z => simpa only [validateCoercion, coerceLit] using leaf _ hc hd
    | float z => simpa only [validateCoercion, coerceLit] using leaf _ hc hd
    | str z => simpa only [validateCoercion, coerceLit] using leaf _ hc hd
    | bool z => simpa only [validateCoercion, coerceLit] using leaf _ hc hd
    | enum z => simpa only [validateCoercion, coerceLit] using leaf _ hc hd
    | obj z => simpa only [validateCoercion, coerceLit] using leaf _ hc hd
  | .nonNull t, l, a, hc, hd => by
    cases l with
    | var n => simp [containsVar] at hc
    | null => simp [validateCoercion, coerceLit, isNonNull]
    | int z => simpa only [validateCoercion, coerceLit] using validate_eq_coerces P t _ a hc hd
    | float z => simpa only [validateCoercion, coerceLit] using validate_eq_coerces P t _ a hc hd
    | str z => simpa only [validateCoercion, coerceLit] using validate_eq_coerces P t _ a hc hd
    | bool z => simpa only [validateCoercion, coerceLit] using validate_eq_coerces P t _ a hc hd
    | enum z => simpa only [validateCoercion, coerceLit] using validate_eq_coerces P t _ a hc hd
    | list z => simpa only [validateCoercion, coerceLit] using validate_eq_coerces P t _ a hc hd
    | obj z => simpa only [validateCoercion, coerceLit] using validate_eq_coerces P t _ a hc hd
theorem validateFields_eq_coerces (P : Parse) :
    ∀ (fs : Fields) (lfs : List (String × Lit)), (∀ p ∈ lfs, containsVar p.2 = false) → noDupKeys lfs = true →
      (∀ p ∈ lfs, p.2.noDup = true) →
      validateFields P fs lfs = (coerceLitFields P [] fs lfs).isSome
  | .nil, _, _, _, _ => by simp [validateFields, coerceLitFields]
  | .cons name ty d rest, lfs, hc, hnd, hd => by
    have ihr := validateFields_eq_coerces P rest lfs hc hnd hd
    have hf : lfs.filter (fun p => p.1 == name && !isUnsetVar [] p.2) = lfs.filter (fun p => p.1 == name) := by
      apply List.filter_congr
      intro p hp
      rw [isUnsetVar_closed (hc p hp)]; simp
    simp only [validateFields, coerceLitFields, hf, filter_key hnd, any_key_eq_lookup, ihr]
    cases hl : lfs.lookup name with
    | none =>
      simp only [List.all_nil, mapAll, litProvided, List.getLast?_nil, addField, Option.isSome_none]
      cases d with
      | some dv => cases coerceLitFields P [] rest lfs <;> simp
      | none => cases isNonNull ty <;> simp
    | some l =>
      obtain ⟨k, hk⟩ := lookup_mem hl
      have hcl := hc (k, l) hk
      have ih := validate_eq_coerces P ty l true hcl (hd (k, l) hk)
      simp only [List.all_cons, List.all_nil, Bool.and_true, mapAll, ih, Option.isSome_some, Bool.or_true]
      cases hco : coerceLit P [] ty l true with
      | none => simp [litProvided, addField]
      | some c =>
        simp only [litProvided_single (fun hnn => coerceLit_nonNull_not_nil P hnn hcl hco), addField,
          Option.isSome_some, Bool.true_and]
        cases coerceLitFields P [] rest lfs <;> simp
end

end ApiFu.C05
