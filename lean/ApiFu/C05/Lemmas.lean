/-
  C05 — helper lemmas for Props.lean (core Lean only).
-/
import ApiFu.C05.Model
import ApiFu.C05.Spec
namespace ApiFu.C05

theorem mapAll_some {α β : Type} {f : α → Option β} :
    ∀ {xs : List α} {ys : List β}, mapAll f xs = some ys → ∀ y ∈ ys, ∃ x ∈ xs, f x = some y
  | [], ys, h, y, hy => by simp [mapAll] at h; subst h; simp at hy
  | x :: xs, ys, h, y, hy => by
    simp only [mapAll] at h
    split at h
    · simp at h
    · rename_i y0 hy0
      split at h
      · simp at h
      · rename_i ys0 hys0
        simp at h
        subst h
        rcases List.mem_cons.mp hy with rfl | hy
        · exact ⟨x, by simp, hy0⟩
        · obtain ⟨x', hx', hfx⟩ := mapAll_some hys0 y hy
          exact ⟨x', by simp [hx'], hfx⟩

/-- Every key of the coerced map is a declared field. -/
def keysIn (fs : Fields) (m : List (String × GoVal)) : Bool := m.all (fun p => fs.hasName p.1)

theorem lookup_cons (a k : String) (b : GoVal) (es : List (String × GoVal)) :
    List.lookup a ((k, b) :: es) = if a == k then some b else List.lookup a es := by
  simp [List.lookup]; split <;> simp_all

theorem lookup_none_of_keysIn {fs : Fields} {name : String} :
    ∀ {m : List (String × GoVal)}, keysIn fs m = true → fs.hasName name = false → m.lookup name = none
  | [], _, _ => rfl
  | (k, v) :: m, hk, hn => by
    simp only [keysIn, List.all_cons, Bool.and_eq_true] at hk
    rw [lookup_cons]
    have hne : (name == k) = false := by
      cases h : name == k
      · rfl
      · have : name = k := by simpa using h
        subst this; simp [hn] at hk
    simp only [hne]
    exact lookup_none_of_keysIn (fs := fs) (by simpa [keysIn] using hk.2) hn

theorem conformsFields_cons_fresh {name : String} {c : GoVal} {m : List (String × GoVal)} :
    ∀ {fs : Fields}, fs.hasName name = false → conformsFields fs ((name, c) :: m) = conformsFields fs m
  | .nil, _ => by simp [conformsFields]
  | .cons n ty d rest, h => by
    simp only [Fields.hasName, Bool.or_eq_false_iff] at h
    simp only [conformsFields, lookup_cons]
    have hne : (n == name) = false := h.1
    simp only [hne]
    rw [conformsFields_cons_fresh h.2]
    simp

theorem keysIn_mono {name : String} {ty : Ty} {d : Option GoVal} {rest : Fields} {m : List (String × GoVal)}
    (h : keysIn rest m = true) : keysIn (.cons name ty d rest) m = true := by
  simp only [keysIn, List.all_eq_true] at *
  intro p hp
  simp [Fields.hasName, h p hp]

/-- The shared step of both object routes: joining one declared field to a good rest gives a good map. -/
theorem addField_good {name : String} {ty : Ty} {d : Option GoVal} {rest : Fields}
    {prov : Option (Option GoVal)} {tl : Option (List (String × GoVal))} {out : List (String × GoVal)}
    (hfresh : rest.hasName name = false)
    (hd : ∀ dv, d = some dv → conforms ty dv = true)
    (hprov : ∀ c, prov = some (some c) → conforms ty c = true)
    (htl : ∀ t, tl = some t → conformsFields rest t = true ∧ keysIn rest t = true)
    (h : addField name ty d prov tl = some out) :
    conformsFields (.cons name ty d rest) out = true ∧ keysIn (.cons name ty d rest) out = true := by
  have entry : ∀ (c : GoVal) (t : List (String × GoVal)), conforms ty c = true → tl = some t →
      conformsFields (.cons name ty d rest) ((name, c) :: t) = true ∧ keysIn (.cons name ty d rest) ((name, c) :: t) = true := by
    intro c t hc ht
    obtain ⟨h1, h2⟩ := htl t ht
    refine ⟨?_, ?_⟩
    · simp only [conformsFields, lookup_cons, beq_self_eq_true, if_true, hc, Bool.true_and]
      rw [conformsFields_cons_fresh hfresh]; exact h1
    · have := keysIn_mono (name := name) (ty := ty) (d := d) h2
      simp only [keysIn, List.all_cons, Bool.and_eq_true] at this ⊢
      exact ⟨by simp [Fields.hasName], this⟩
  cases prov with
  | some pv =>
    cases pv with
    | none => simp [addField] at h
    | some c =>
      cases tl with
      | none => simp [addField] at h
      | some t =>
        simp [addField] at h; subst h
        exact entry c t (hprov c rfl) rfl
  | none =>
    cases d with
    | some dv =>
      cases tl with
      | none => simp [addField] at h
      | some t =>
        simp [addField] at h; subst h
        exact entry dv t (hd dv rfl) rfl
    | none =>
      simp only [addField] at h
      split at h
      · simp at h
      · rename_i hnn
        obtain ⟨h1, h2⟩ := htl out h
        refine ⟨?_, keysIn_mono h2⟩
        simp only [conformsFields, lookup_none_of_keysIn h2 hfresh, h1]
        simp [hnn]

theorem scalar_coerceVar_shape (P : Parse) (k : Scalar) (j : Json) (x : GoVal)
    (h : k.coerceVar P j = some x) : scalarShape k x = true ∧ x.isNil = false := by
  cases k <;> cases j <;> simp [Scalar.coerceVar] at h
  all_goals first
    | (obtain ⟨h1, rfl⟩ := h; simp_all [scalarShape, GoVal.isNil])
    | (subst h; simp [scalarShape, GoVal.isNil])
    | (obtain ⟨c, _, rfl⟩ := h; simp [scalarShape, GoVal.isNil])

theorem conforms_of_shape {k : Scalar} {x : GoVal} (h : scalarShape k x = true) : conforms (.scalar k) x = true := by
  cases x <;> simp_all [conforms, scalarShape]


theorem Fields.wf_cons {name : String} {ty : Ty} {d : Option GoVal} {rest : Fields}
    (h : (Fields.cons name ty d rest).wf = true) :
    rest.hasName name = false ∧ ty.wf = true ∧ (∀ dv, d = some dv → conforms ty dv = true) ∧ rest.wf = true := by
  simp only [Fields.wf, Bool.and_eq_true] at h
  obtain ⟨⟨⟨h1, h2⟩, h3⟩, h4⟩ := h
  refine ⟨by simpa using h1, h2, ?_, h4⟩
  intro dv hd; subst hd; simpa using h3

theorem conforms_nil_of_not_nonNull {t : Ty} (h : isNonNull t = false) : conforms t .nil = true := by
  cases t <;> simp_all [conforms, isNonNull]

def Json.isNull : Json → Bool
  | .null => true
  | _ => false

/-- A JSON value other than null never coerces to Go nil. -/
theorem coerceVar_not_nil (P : Parse) :
    ∀ (T : Ty) (j : Json) (allow : Bool) (x : GoVal), j.isNull = false →
      coerceVar P T j allow = some x → x.isNil = false
  | .scalar k, j, allow, x, hj, h => by
    cases j <;> simp [coerceVar, Json.isNull] at h hj <;> exact (scalar_coerceVar_shape P k _ x h).2
  | .enum n vals, j, allow, x, hj, h => by
    cases j <;> simp [coerceVar, Json.isNull] at h hj
    obtain ⟨_, rfl⟩ := h; rfl
  | .inputObj n fs, j, allow, x, hj, h => by
    cases j <;> simp [coerceVar, Json.isNull] at h hj
    obtain ⟨_, out, _, rfl⟩ := h; rfl
  | .list t, j, allow, x, hj, h => by
    cases j <;> simp [coerceVar, Json.isNull] at h hj
    all_goals first
      | (obtain ⟨_, y, _, rfl⟩ := h; rfl)
      | (obtain ⟨y, _, rfl⟩ := h; rfl)
  | .nonNull t, j, allow, x, hj, h => by
    cases j <;> simp [coerceVar, Json.isNull] at h hj <;> exact coerceVar_not_nil P t _ allow x (by simp [Json.isNull]) h

mutual
/-- Variable route: whatever `coerceVariableValue` returns conforms to the type. -/
theorem coerceVar_conforms (P : Parse) :
    ∀ (T : Ty) (j : Json) (allow : Bool) (x : GoVal), T.wf = true →
      coerceVar P T j allow = some x → conforms T x = true
  | .scalar k, j, allow, x, _, h => by
    cases j <;> simp [coerceVar, isNonNull] at h
    all_goals first
      | (subst h; simp [conforms])
      | exact conforms_of_shape (scalar_coerceVar_shape P k _ x h).1
  | .enum n vals, j, allow, x, _, h => by
    cases j <;> simp [coerceVar, isNonNull] at h
    · subst h; simp [conforms]
    · obtain ⟨hm, rfl⟩ := h; simp [conforms, hm]
  | .inputObj n fs, j, allow, x, hwf, h => by
    cases j <;> simp [coerceVar, isNonNull] at h
    · subst h; simp [conforms]
    · rename_i m
      obtain ⟨_, out, hout, rfl⟩ := h
      have := coerceVarFields_good P fs m out (by simpa [Ty.wf] using hwf) hout
      simp only [conforms, Bool.and_eq_true]
      exact ⟨by simpa [keysIn] using this.2, this.1⟩
  | .list t, j, allow, x, hwf, h => by
    have hwt : t.wf = true := by simpa [Ty.wf] using hwf
    have wrap : ∀ (j : Json), (coerceVar P t j true).map (fun y => GoVal.list [y]) = some x → conforms (.list t) x = true := by
      intro j hj
      cases hc : coerceVar P t j true with
      | none => simp [hc] at hj
      | some y =>
        simp [hc] at hj; subst hj
        simp [conforms, coerceVar_conforms P t j true y hwt hc]
    cases j with
    | null => simp [coerceVar, isNonNull] at h; subst h; simp [conforms]
    | list xs =>
      simp only [coerceVar] at h
      cases hm : mapAll (fun x => coerceVar P t x false) xs with
      | none => simp [hm] at h
      | some ys =>
        simp [hm] at h; subst h
        simp only [conforms, List.all_eq_true]
        intro y hy
        obtain ⟨x0, _, hx0⟩ := mapAll_some hm y hy
        exact coerceVar_conforms P t x0 false y hwt hx0
    | num h' => simp only [coerceVar] at h; split at h <;> first | exact wrap _ h | simp at h
    | str s => simp only [coerceVar] at h; split at h <;> first | exact wrap _ h | simp at h
    | bool b => simp only [coerceVar] at h; split at h <;> first | exact wrap _ h | simp at h
    | obj m => simp only [coerceVar] at h; split at h <;> first | exact wrap _ h | simp at h
  | .nonNull t, j, allow, x, hwf, h => by
    have hwt : t.wf = true := by simpa [Ty.wf] using hwf
    cases j with
    | null => simp [coerceVar, isNonNull] at h
    | num h' =>
      simp only [coerceVar] at h
      simp [conforms, coerceVar_not_nil P t _ allow x (by simp [Json.isNull]) h, coerceVar_conforms P t _ allow x hwt h]
    | str s =>
      simp only [coerceVar] at h
      simp [conforms, coerceVar_not_nil P t _ allow x (by simp [Json.isNull]) h, coerceVar_conforms P t _ allow x hwt h]
    | bool b =>
      simp only [coerceVar] at h
      simp [conforms, coerceVar_not_nil P t _ allow x (by simp [Json.isNull]) h, coerceVar_conforms P t _ allow x hwt h]
    | list xs =>
      simp only [coerceVar] at h
      simp [conforms, coerceVar_not_nil P t _ allow x (by simp [Json.isNull]) h, coerceVar_conforms P t _ allow x hwt h]
    | obj m =>
      simp only [coerceVar] at h
      simp [conforms, coerceVar_not_nil P t _ allow x (by simp [Json.isNull]) h, coerceVar_conforms P t _ allow x hwt h]
theorem coerceVarFields_good (P : Parse) :
    ∀ (fs : Fields) (m : List (String × Json)) (out : List (String × GoVal)), fs.wf = true →
      coerceVarFields P fs m = some out → conformsFields fs out = true ∧ keysIn fs out = true
  | .nil, m, out, _, h => by
    simp [coerceVarFields] at h; subst h; simp [conformsFields, keysIn]
  | .cons name ty d rest, m, out, hwf, h => by
    obtain ⟨hfresh, hty, hd, hrest⟩ := Fields.wf_cons hwf
    simp only [coerceVarFields] at h
    refine addField_good hfresh hd ?_ (fun t ht => coerceVarFields_good P rest m t hrest ht) h
    intro c hc
    cases hl : m.lookup name with
    | none => simp [hl] at hc
    | some fv =>
      simp [hl] at hc
      exact coerceVar_conforms P ty fv true c hty hc
end


/-! ## Equality tests are exact -/

mutual
theorem GoVal.eq_of_beq : ∀ (a b : GoVal), GoVal.beq a b = true → a = b
  | .nil, b, h => by cases b <;> simp [GoVal.beq] at h ⊢
  | .int z, b, h => by cases b <;> simp [GoVal.beq] at h ⊢; exact h
  | .long z, b, h => by cases b <;> simp [GoVal.beq] at h ⊢; exact h
  | .float z, b, h => by cases b <;> simp [GoVal.beq] at h ⊢; exact h
  | .str z, b, h => by cases b <;> simp [GoVal.beq] at h ⊢; exact h
  | .bool z, b, h => by cases b <;> simp [GoVal.beq] at h ⊢; exact h
  | .time z, b, h => by cases b <;> simp [GoVal.beq] at h ⊢; exact h
  | .enumv z, b, h => by cases b <;> simp [GoVal.beq] at h ⊢; exact h
  | .list xs, b, h => by
    cases b <;> simp [GoVal.beq] at h ⊢
    exact GoVal.eq_of_beqL xs _ h
  | .obj fs, b, h => by
    cases b <;> simp [GoVal.beq] at h ⊢
    exact GoVal.eq_of_beqF fs _ h
theorem GoVal.eq_of_beqL : ∀ (a b : List GoVal), GoVal.beqL a b = true → a = b
  | [], b, h => by cases b <;> simp [GoVal.beqL] at h ⊢
  | x :: xs, b, h => by
    cases b with
    | nil => simp [GoVal.beqL] at h
    | cons y ys =>
      simp [GoVal.beqL] at h
      rw [GoVal.eq_of_beq x y h.1, GoVal.eq_of_beqL xs ys h.2]
theorem GoVal.eq_of_beqF : ∀ (a b : List (String × GoVal)), GoVal.beqF a b = true → a = b
  | [], b, h => by cases b <;> simp [GoVal.beqF] at h ⊢
  | p :: ps, b, h => by
    cases b with
    | nil => simp [GoVal.beqF] at h
    | cons q qs =>
      simp [GoVal.beqF] at h
      obtain ⟨⟨h1, h2⟩, h3⟩ := h
      have := GoVal.eq_of_beq p.2 q.2 h2
      rw [GoVal.eq_of_beqF ps qs h3]
      cases p; cases q; simp_all
end

theorem eq_of_optBeq : ∀ (a b : Option GoVal), optBeq a b = true → a = b
  | none, none, _ => rfl
  | some a, some b, h => by simp [optBeq] at h; rw [GoVal.eq_of_beq a b h]
  | none, some _, h => by simp [optBeq] at h
  | some _, none, h => by simp [optBeq] at h

mutual
theorem Ty.eq_of_beq : ∀ (a b : Ty), Ty.beq a b = true → a = b
  | .scalar k, b, h => by cases b <;> simp [Ty.beq] at h ⊢; exact h
  | .enum n vs, b, h => by cases b <;> simp [Ty.beq] at h ⊢; exact h
  | .inputObj n fs, b, h => by
    cases b <;> simp [Ty.beq] at h ⊢
    exact ⟨h.1, Fields.eq_of_beq fs _ h.2⟩
  | .list t, b, h => by
    cases b <;> simp [Ty.beq] at h ⊢
    exact Ty.eq_of_beq t _ h
  | .nonNull t, b, h => by
    cases b <;> simp [Ty.beq] at h ⊢
    exact Ty.eq_of_beq t _ h
theorem Fields.eq_of_beq : ∀ (a b : Fields), Fields.beq a b = true → a = b
  | .nil, b, h => by cases b <;> simp [Fields.beq] at h ⊢
  | .cons n t d r, b, h => by
    cases b with
    | nil => simp [Fields.beq] at h
    | cons m u e s =>
      simp [Fields.beq] at h
      obtain ⟨⟨⟨h1, h2⟩, h3⟩, h4⟩ := h
      rw [h1, Ty.eq_of_beq t u h2, eq_of_optBeq d e h3, Fields.eq_of_beq r s h4]
end

/-! ## Variable usage: a compatible variable type hands over conforming values -/

theorem conforms_nonNull {t : Ty} {x : GoVal} : conforms (.nonNull t) x = (!x.isNil && conforms t x) := by
  simp [conforms]

theorem conforms_nil_iff {t : Ty} : conforms t .nil = !isNonNull t := by
  cases t <;> simp [conforms, isNonNull, GoVal.isNil]

/-- `areTypesCompatible V L`: every value conforming to the variable's type conforms to the location's. -/
theorem compat_conforms : ∀ (V L : Ty) (x : GoVal), compat V L = true → conforms V x = true → conforms L x = true
  | .nonNull v, L, x, hc, hx => by
    cases L with
    | nonNull l =>
      simp only [compat] at hc
      simp only [conforms_nonNull, Bool.and_eq_true] at hx ⊢
      exact ⟨hx.1, compat_conforms v l x hc hx.2⟩
    | scalar k => simp only [compat] at hc; simp only [conforms_nonNull, Bool.and_eq_true] at hx; exact compat_conforms v _ x hc hx.2
    | enum n vs => simp only [compat] at hc; simp only [conforms_nonNull, Bool.and_eq_true] at hx; exact compat_conforms v _ x hc hx.2
    | inputObj n fs => simp only [compat] at hc; simp only [conforms_nonNull, Bool.and_eq_true] at hx; exact compat_conforms v _ x hc hx.2
    | list l => simp only [compat] at hc; simp only [conforms_nonNull, Bool.and_eq_true] at hx; exact compat_conforms v _ x hc hx.2
  | .list v, L, x, hc, hx => by
    cases L with
    | list l =>
      simp only [compat] at hc
      cases x <;> simp [conforms] at hx ⊢
      intro y hy
      exact compat_conforms v l y hc (hx y hy)
    | nonNull l => simp [compat] at hc
    | scalar k => simp [compat] at hc
    | enum n vs => simp [compat] at hc
    | inputObj n fs => simp [compat] at hc
  | .scalar k, L, x, hc, hx => by
    cases L <;> simp [compat] at hc
    all_goals (rw [← Ty.eq_of_beq _ _ hc]; exact hx)
  | .enum n vs, L, x, hc, hx => by
    cases L <;> simp [compat] at hc
    all_goals (rw [← Ty.eq_of_beq _ _ hc]; exact hx)
  | .inputObj n fs, L, x, hc, hx => by
    cases L <;> simp [compat] at hc
    all_goals (rw [← Ty.eq_of_beq _ _ hc]; exact hx)


/-! ## Literal route -/

theorem containsVarL_false : ∀ {xs : List Lit}, containsVarL xs = false → ∀ x ∈ xs, containsVar x = false
  | [], _, x, hx => by simp at hx
  | y :: ys, h, x, hx => by
    simp only [containsVarL, Bool.or_eq_false_iff] at h
    rcases List.mem_cons.mp hx with rfl | hx
    · exact h.1
    · exact containsVarL_false h.2 x hx

theorem containsVarF_false : ∀ {fs : List (String × Lit)}, containsVarF fs = false → ∀ p ∈ fs, containsVar p.2 = false
  | [], _, p, hp => by simp at hp
  | q :: qs, h, p, hp => by
    simp only [containsVarF, Bool.or_eq_false_iff] at h
    rcases List.mem_cons.mp hp with rfl | hp
    · exact h.1
    · exact containsVarF_false h.2 p hp

mutual
/-- A literal without variables passes the usage rule wherever it is written. -/
theorem usage_of_noVar (defs : List VarDef) (unwrap : Bool) :
    ∀ (T : Ty) (ld : Bool) (lit : Lit), containsVar lit = false → usage defs unwrap T ld lit = true
  | .scalar k, ld, lit, h => by cases lit <;> simp_all [usage, containsVar]
  | .enum n vs, ld, lit, h => by cases lit <;> simp_all [usage, containsVar]
  | .nonNull t, ld, lit, h => by
    cases lit <;> simp only [usage] <;> first
      | exact usage_of_noVar defs unwrap t ld _ h
      | simp [containsVar] at h
  | .list t, ld, lit, h => by
    cases lit with
    | var n => simp [containsVar] at h
    | list xs =>
      simp only [usage, List.all_eq_true]
      intro x hx
      exact usage_of_noVar defs unwrap t false x (containsVarL_false (by simpa [containsVar] using h) x hx)
    | obj lfs =>
      simp only [usage]
      split
      · exact usage_of_noVar defs unwrap t false _ h
      · simpa [containsVar] using h
    | null => simp_all [usage, containsVar]
    | int z => simp_all [usage, containsVar]
    | float z => simp_all [usage, containsVar]
    | str z => simp_all [usage, containsVar]
    | bool z => simp_all [usage, containsVar]
    | enum z => simp_all [usage, containsVar]
  | .inputObj n fs, ld, lit, h => by
    cases lit with
    | var n => simp [containsVar] at h
    | obj lfs =>
      have hf := containsVarF_false (by simpa [containsVar] using h)
      simp only [usage, Bool.and_eq_true, List.all_eq_true]
      refine ⟨usageFields_of_noVar defs unwrap fs lfs hf, ?_⟩
      intro p hp; simp [hf p hp]
    | list xs => simp_all [usage, containsVar]
    | null => simp_all [usage, containsVar]
    | int z => simp_all [usage, containsVar]
    | float z => simp_all [usage, containsVar]
    | str z => simp_all [usage, containsVar]
    | bool z => simp_all [usage, containsVar]
    | enum z => simp_all [usage, containsVar]
theorem usageFields_of_noVar (defs : List VarDef) (unwrap : Bool) :
    ∀ (fs : Fields) (lfs : List (String × Lit)), (∀ p ∈ lfs, containsVar p.2 = false) → usageFields defs unwrap fs lfs = true
  | .nil, _, _ => by simp [usageFields]
  | .cons name ty d rest, lfs, h => by
    simp only [usageFields, Bool.and_eq_true, List.all_eq_true]
    refine ⟨?_, usageFields_of_noVar defs unwrap rest lfs h⟩
    intro p hp
    exact usage_of_noVar defs unwrap ty _ p.2 (h p (List.mem_filter.mp hp).1)
end

theorem scalar_coerceLit_shape (P : Parse) (k : Scalar) (l : Lit) (x : GoVal)
    (h : k.coerceLit P l = some x) : scalarShape k x = true ∧ x.isNil = false := by
  cases k <;> cases l <;> simp [Scalar.coerceLit] at h
  all_goals first
    | (obtain ⟨h1, rfl⟩ := h; simp_all [scalarShape, GoVal.isNil])
    | (subst h; simp [scalarShape, GoVal.isNil])
    | (obtain ⟨c, _, rfl⟩ := h; simp [scalarShape, GoVal.isNil])

/-- A literal that is neither `null` nor a variable. -/
def Lit.plain : Lit → Bool
  | .null => false
  | .var _ => false
  | _ => true

/-- A plain literal never coerces to Go nil. -/
theorem coerceLit_not_nil (P : Parse) (vars : Vars) :
    ∀ (T : Ty) (l : Lit) (allow : Bool) (x : GoVal), l.plain = true →
      coerceLit P vars T l allow = some x → x.isNil = false
  | .scalar k, l, allow, x, hl, h => by
    cases l <;> simp [coerceLit, Lit.plain] at h hl <;> exact (scalar_coerceLit_shape P k _ x h).2
  | .enum n vals, l, allow, x, hl, h => by
    cases l <;> simp [coerceLit, Lit.plain] at h hl
    obtain ⟨_, rfl⟩ := h; rfl
  | .inputObj n fs, l, allow, x, hl, h => by
    cases l <;> simp [coerceLit, Lit.plain] at h hl
    obtain ⟨_, out, _, rfl⟩ := h; rfl
  | .list t, l, allow, x, hl, h => by
    cases l <;> simp [coerceLit, Lit.plain] at h hl
    all_goals first
      | (obtain ⟨_, y, _, rfl⟩ := h; rfl)
      | (obtain ⟨y, _, rfl⟩ := h; rfl)
  | .nonNull t, l, allow, x, hl, h => by
    cases l <;> simp [coerceLit, Lit.plain] at h hl <;> exact coerceLit_not_nil P vars t _ allow x (by simp [Lit.plain]) h

/-- Every runtime value of a variable conforms to the variable's declared type. -/
def VarsOK (defs : List VarDef) (vars : Vars) : Prop :=
  ∀ n v, vars.lookup n = some v → ∃ d, defs.find? (fun d => d.name == n) = some d ∧ conforms d.ty v = true

/-- `validateVariableUsage` passed and the value is not a null at a non-null location: it conforms. -/
theorem allowed_conforms {defs : List VarDef} {vars : Vars} (hv : VarsOK defs vars) {n : String} {L : Ty}
    {ld : Bool} {v : GoVal} (ha : allowed defs n L ld = true) (hl : vars.lookup n = some v)
    (hnn : (v.isNil && isNonNull L) = false) : conforms L v = true := by
  obtain ⟨d, hd, hc⟩ := hv n v hl
  simp only [allowed, hd] at ha
  cases L with
  | nonNull L' =>
    simp only at ha
    have hvn : v.isNil = false := by simpa [isNonNull] using hnn
    split at ha
    · exact compat_conforms _ _ v ha hc
    · simp only [Bool.and_eq_true] at ha
      simp [conforms_nonNull, hvn, compat_conforms _ _ v ha.2 hc]
  | scalar k => exact compat_conforms _ _ v ha hc
  | enum n vs => exact compat_conforms _ _ v ha hc
  | inputObj n fs => exact compat_conforms _ _ v ha hc
  | list l => exact compat_conforms _ _ v ha hc

theorem coerceVarRef_conforms {defs : List VarDef} {vars : Vars} (hv : VarsOK defs vars) {n : String} {L : Ty}
    {ld : Bool} {x : GoVal} (ha : allowed defs n L ld = true) (h : coerceVarRef vars L n = some x) :
    conforms L x = true := by
  simp only [coerceVarRef] at h
  cases hl : vars.lookup n with
  | some v =>
    simp only [hl] at h
    split at h
    · simp at h
    · rename_i hnn
      simp at h; subst h
      exact allowed_conforms hv ha hl (by simpa using hnn)
  | none =>
    simp only [hl] at h
    split at h
    · simp at h
    · rename_i hnn
      simp at h; subst h
      simp [conforms_nil_iff, hnn]


theorem litProvided_some {ty : Ty} {r : Option (List GoVal)} {c : GoVal}
    (h : litProvided ty r = some (some c)) : ∃ vs, r = some vs ∧ c ∈ vs := by
  cases r with
  | none => simp [litProvided] at h
  | some vs =>
    simp only [litProvided] at h
    cases hg : vs.getLast? with
    | none => simp [hg] at h
    | some v =>
      simp only [hg] at h
      split at h
      · simp at h
      · simp at h; subst h
        exact ⟨vs, rfl, List.mem_of_getLast? hg⟩

mutual
/-- Literal route, with variables: if every variable inside the literal passed the usage rule and
    holds a value conforming to its declared type, the coerced value conforms. -/
theorem coerceLit_conforms (P : Parse) (defs : List VarDef) (unwrap : Bool) (vars : Vars) (hv : VarsOK defs vars) :
    ∀ (T : Ty) (l : Lit) (allow ld : Bool) (x : GoVal), T.wf = true → usage defs unwrap T ld l = true →
      coerceLit P vars T l allow = some x → conforms T x = true
  | .scalar k, l, allow, ld, x, _, hu, h => by
    cases l with
    | null => simp [coerceLit, isNonNull] at h; subst h; simp [conforms]
    | var n => simp only [coerceLit] at h; simp only [usage] at hu; exact coerceVarRef_conforms hv hu h
    | int z => simp only [coerceLit] at h; exact conforms_of_shape (scalar_coerceLit_shape P k _ x h).1
    | float z => simp only [coerceLit] at h; exact conforms_of_shape (scalar_coerceLit_shape P k _ x h).1
    | str z => simp only [coerceLit] at h; exact conforms_of_shape (scalar_coerceLit_shape P k _ x h).1
    | bool z => simp only [coerceLit] at h; exact conforms_of_shape (scalar_coerceLit_shape P k _ x h).1
    | enum z => simp only [coerceLit] at h; exact conforms_of_shape (scalar_coerceLit_shape P k _ x h).1
    | list z => simp only [coerceLit] at h; exact conforms_of_shape (scalar_coerceLit_shape P k _ x h).1
    | obj z => simp only [coerceLit] at h; exact conforms_of_shape (scalar_coerceLit_shape P k _ x h).1
  | .enum n vals, l, allow, ld, x, _, hu, h => by
    cases l with
    | null => simp [coerceLit, isNonNull] at h; subst h; simp [conforms]
    | var n => simp only [coerceLit] at h; simp only [usage] at hu; exact coerceVarRef_conforms hv hu h
    | enum z => simp [coerceLit] at h; obtain ⟨hm, rfl⟩ := h; simp [conforms, hm]
    | int z => simp [coerceLit] at h
    | float z => simp [coerceLit] at h
    | str z => simp [coerceLit] at h
    | bool z => simp [coerceLit] at h
    | list z => simp [coerceLit] at h
    | obj z => simp [coerceLit] at h
  | .inputObj n fs, l, allow, ld, x, hwf, hu, h => by
    cases l with
    | null => simp [coerceLit, isNonNull] at h; subst h; simp [conforms]
    | var n => simp only [coerceLit] at h; simp only [usage] at hu; exact coerceVarRef_conforms hv hu h
    | obj lfs =>
      simp [coerceLit] at h
      obtain ⟨_, out, hout, rfl⟩ := h
      simp only [usage, Bool.and_eq_true] at hu
      have := coerceLitFields_good P defs unwrap vars hv fs lfs out (by simpa [Ty.wf] using hwf) hu.1 hout
      simp only [conforms, Bool.and_eq_true]
      exact ⟨by simpa [keysIn] using this.2, this.1⟩
    | int z => simp [coerceLit] at h
    | float z => simp [coerceLit] at h
    | str z => simp [coerceLit] at h
    | bool z => simp [coerceLit] at h
    | list z => simp [coerceLit] at h
    | enum z => simp [coerceLit] at h
  | .list t, l, allow, ld, x, hwf, hu, h => by
    have hwt : t.wf = true := by simpa [Ty.wf] using hwf
    have wrap : ∀ (l : Lit) (ld' : Bool), usage defs unwrap t ld' l = true →
        (coerceLit P vars t l true).map (fun y => GoVal.list [y]) = some x → conforms (.list t) x = true := by
      intro l ld' hu' hj
      cases hc : coerceLit P vars t l true with
      | none => simp [hc] at hj
      | some y =>
        simp [hc] at hj; subst hj
        simp [conforms, coerceLit_conforms P defs unwrap vars hv t l true ld' y hwt hu' hc]
    cases l with
    | null => simp [coerceLit, isNonNull] at h; subst h; simp [conforms]
    | var n => simp only [coerceLit] at h; simp only [usage] at hu; exact coerceVarRef_conforms hv hu h
    | list xs =>
      simp only [coerceLit] at h
      simp only [usage, List.all_eq_true] at hu
      cases hm : mapAll (fun x => coerceLit P vars t x false) xs with
      | none => simp [hm] at h
      | some ys =>
        simp [hm] at h; subst h
        simp only [conforms, List.all_eq_true]
        intro y hy
        obtain ⟨x0, hx0m, hx0⟩ := mapAll_some hm y hy
        exact coerceLit_conforms P defs unwrap vars hv t x0 false false y hwt (hu x0 hx0m) hx0
    | obj lfs =>
      simp only [coerceLit] at h
      simp only [usage] at hu
      split at h
      · split at hu
        · exact wrap _ false hu h
        · exact wrap _ false (usage_of_noVar defs unwrap t false _ (by simpa [containsVar] using hu)) h
      · simp at h
    | int z =>
      simp only [coerceLit] at h
      split at h
      · exact wrap _ false (usage_of_noVar defs unwrap t false _ (by simp [containsVar])) h
      · simp at h
    | float z =>
      simp only [coerceLit] at h
      split at h
      · exact wrap _ false (usage_of_noVar defs unwrap t false _ (by simp [containsVar])) h
      · simp at h
    | str z =>
      simp only [coerceLit] at h
      split at h
      · exact wrap _ false (usage_of_noVar defs unwrap t false _ (by simp [containsVar])) h
      · simp at h
    | bool z =>
      simp only [coerceLit] at h
      split at h
      · exact wrap _ false (usage_of_noVar defs unwrap t false _ (by simp [containsVar])) h
      · simp at h
    | enum z =>
      simp only [coerceLit] at h
      split at h
      · exact wrap _ false (usage_of_noVar defs unwrap t false _ (by simp [containsVar])) h
      · simp at h
  | .nonNull t, l, allow, ld, x, hwf, hu, h => by
    have hwt : t.wf = true := by simpa [Ty.wf] using hwf
    have plain : ∀ (l : Lit), l.plain = true → usage defs unwrap t ld l = true →
        coerceLit P vars t l allow = some x → conforms (.nonNull t) x = true := by
      intro l hp hu' h'
      simp [conforms_nonNull, coerceLit_not_nil P vars t l allow x hp h',
        coerceLit_conforms P defs unwrap vars hv t l allow ld x hwt hu' h']
    cases l with
    | null => simp [coerceLit, isNonNull] at h
    | var n => simp only [coerceLit] at h; simp only [usage] at hu; exact coerceVarRef_conforms hv hu h
    | int z => simp only [coerceLit] at h; simp only [usage] at hu; exact plain _ rfl hu h
    | float z => simp only [coerceLit] at h; simp only [usage] at hu; exact plain _ rfl hu h
    | str z => simp only [coerceLit] at h; simp only [usage] at hu; exact plain _ rfl hu h
    | bool z => simp only [coerceLit] at h; simp only [usage] at hu; exact plain _ rfl hu h
    | enum z => simp only [coerceLit] at h; simp only [usage] at hu; exact plain _ rfl hu h
    | list z => simp only [coerceLit] at h; simp only [usage] at hu; exact plain _ rfl hu h
    | obj z => simp only [coerceLit] at h; simp only [usage] at hu; exact plain _ rfl hu h
theorem coerceLitFields_good (P : Parse) (defs : List VarDef) (unwrap : Bool) (vars : Vars) (hv : VarsOK defs vars) :
    ∀ (fs : Fields) (lfs : List (String × Lit)) (out : List (String × GoVal)), fs.wf = true →
      usageFields defs unwrap fs lfs = true →
      coerceLitFields P vars fs lfs = some out → conformsFields fs out = true ∧ keysIn fs out = true
  | .nil, lfs, out, _, _, h => by
    simp [coerceLitFields] at h; subst h; simp [conformsFields, keysIn]
  | .cons name ty d rest, lfs, out, hwf, hu, h => by
    obtain ⟨hfresh, hty, hd, hrest⟩ := Fields.wf_cons hwf
    simp only [usageFields, Bool.and_eq_true, List.all_eq_true] at hu
    simp only [coerceLitFields] at h
    refine addField_good hfresh hd ?_ (fun t ht => coerceLitFields_good P defs unwrap vars hv rest lfs t hrest hu.2 ht) h
    intro c hc
    obtain ⟨vs, hvs, hcm⟩ := litProvided_some hc
    obtain ⟨p, hp, hpc⟩ := mapAll_some hvs c hcm
    have hpf := List.mem_filter.mp hp
    have hname : (p.1 == name) = true := by
      have := hpf.2; simp only [Bool.and_eq_true] at this; exact this.1
    exact coerceLit_conforms P defs unwrap vars hv ty p.2 true _ c hty
      (hu.1 p (List.mem_filter.mpr ⟨hpf.1, hname⟩)) hpc
end

end ApiFu.C05
