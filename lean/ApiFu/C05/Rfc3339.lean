/-
  C05 — which strings `time.Time.UnmarshalText` (Go 1.23, what `apifu.DateTimeType` uses) accepts,
  as a decidable predicate on the characters. The *rendering* of an accepted timestamp (instant,
  zone) stays Go's (`P`); the driver's `P` is `fun s => if accepts s then table s else none`, so the
  acceptance the correspondence exercises is the one computed here.

  Go first tries a strict RFC 3339 parser (`parseRFC3339`) and falls back to `Parse(RFC3339, s)`
  (the strictness checks after the fallback are disabled, go.dev/issue/54580). The fallback accepts
  everything the strict parser accepts, plus: a one-digit hour, `,` as the fraction separator, a
  zone hour of 24 and a zone minute of 60. `strict` is RFC 3339 proper; `strict_accepts` shows the
  inclusion.

      yyyy '-' mm '-' dd 'T' h[h] ':' mm ':' ss [ ('.'|',') d+ ] ( 'Z' | ('+'|'-') hh ':' mm )
-/
namespace ApiFu.C05.Rfc3339

def digit (c : Char) : Option Nat :=
  if '0' ≤ c ∧ c ≤ '9' then some (c.toNat - '0'.toNat) else none

def isLeap (y : Nat) : Bool := y % 4 == 0 && (y % 100 != 0 || y % 400 == 0)

def daysIn (month year : Nat) : Nat :=
  if month == 2 then (if isLeap year then 29 else 28)
  else if month == 4 || month == 6 || month == 9 || month == 11 then 30
  else 31

/-- Exactly two digits. -/
def two : List Char → Option (Nat × List Char)
  | a :: b :: rest =>
    match digit a, digit b with
    | some x, some y => some (10 * x + y, rest)
    | _, _ => none
  | _ => none

/-- One or two digits (two when the second character is a digit). -/
def oneOrTwo : List Char → Option (Nat × List Char)
  | a :: rest =>
    match digit a with
    | none => none
    | some x =>
      match rest with
      | b :: rest' =>
        match digit b with
        | some y => some (10 * x + y, rest')
        | none => some (x, rest)
      | [] => some (x, [])
  | [] => none

def four : List Char → Option (Nat × List Char)
  | a :: b :: c :: d :: rest =>
    match digit a, digit b, digit c, digit d with
    | some w, some x, some y, some z => some (1000 * w + 100 * x + 10 * y + z, rest)
    | _, _, _, _ => none
  | _ => none

def lit (c : Char) : List Char → Option (List Char)
  | a :: rest => if a == c then some rest else none
  | [] => none

def dropDigits : List Char → List Char
  | a :: rest => if (digit a).isSome then dropDigits rest else a :: rest
  | [] => []

/-- The optional fraction: a separator followed by at least one digit. -/
def fraction (lenient : Bool) : List Char → List Char
  | sep :: d :: rest =>
    if (sep == '.' || (lenient && sep == ',')) && (digit d).isSome then dropDigits rest else sep :: d :: rest
  | s => s

def zone (lenient : Bool) : List Char → Bool
  | ['Z'] => true
  | [sg, a, b, c, d, e] =>
    (sg == '+' || sg == '-') && c == ':' &&
    (match two [a, b], two [d, e] with
     | some (hh, _), some (mm, _) => if lenient then hh ≤ 24 && mm ≤ 60 else hh ≤ 23 && mm ≤ 59
     | _, _ => false)
  | _ => false

/-- `lenient = true`: what Go accepts; `false`: RFC 3339 proper. -/
def shape (lenient : Bool) (s : List Char) : Bool :=
  match four s with
  | none => false
  | some (year, s) =>
  match lit '-' s with
  | none => false
  | some s =>
  match two s with
  | none => false
  | some (month, s) =>
  match lit '-' s with
  | none => false
  | some s =>
  match two s with
  | none => false
  | some (day, s) =>
  match lit 'T' s with
  | none => false
  | some s =>
  match (if lenient then oneOrTwo s else two s) with
  | none => false
  | some (hour, s) =>
  match lit ':' s with
  | none => false
  | some s =>
  match two s with
  | none => false
  | some (minute, s) =>
  match lit ':' s with
  | none => false
  | some s =>
  match two s with
  | none => false
  | some (second, s) =>
    1 ≤ month && month ≤ 12 && 1 ≤ day && day ≤ daysIn month year && hour ≤ 23 && minute ≤ 59 && second ≤ 59
    && zone lenient (fraction lenient s)

def accepts (s : List Char) : Bool := shape true s
def strict (s : List Char) : Bool := shape false s

theorem two_oneOrTwo {s : List Char} {r : Nat × List Char} (h : two s = some r) : oneOrTwo s = some r := by
  match s with
  | [] => simp [two] at h
  | [a] => simp [two] at h
  | a :: b :: rest =>
    simp only [two] at h
    cases ha : digit a with
    | none => simp [ha] at h
    | some x =>
      cases hb : digit b with
      | none => simp [ha, hb] at h
      | some y =>
        simp [ha, hb] at h
        simp [oneOrTwo, ha, hb, h]

theorem fraction_strict_lenient (s : List Char) (h : zone false (fraction false s) = true) :
    zone true (fraction true s) = true := by
  have zl : ∀ t, zone false t = true → zone true t = true := by
    intro t ht
    match t with
    | ['Z'] => rfl
    | [sg, a, b, c, d, e] =>
      simp only [zone] at ht ⊢
      cases h1 : two [a, b] with
      | none => simp [h1] at ht
      | some p =>
        cases h2 : two [d, e] with
        | none => simp [h1, h2] at ht
        | some q =>
          simp only [h1, h2, Bool.and_eq_true, decide_eq_true_eq, if_true, Bool.false_eq_true, if_false] at ht ⊢
          exact ⟨ht.1, by omega, by omega⟩
    | [] => simp [zone] at ht
    | [a] =>
      simp only [zone] at ht ⊢
      split at ht <;> simp_all
    | [a, b] => simp [zone] at ht
    | [a, b, c] => simp [zone] at ht
    | [a, b, c, d] => simp [zone] at ht
    | [a, b, c, d, e] => simp [zone] at ht
    | a :: b :: c :: d :: e :: f :: g :: rest => simp [zone] at ht
  match s with
  | [] => exact zl _ h
  | [a] => exact zl _ h
  | sep :: d :: rest =>
    simp only [fraction] at h ⊢
    by_cases hs : sep = '.'
    · subst hs
      by_cases hd : (digit d).isSome = true
      · simp only [hd] at h ⊢; simpa using zl _ (by simpa using h)
      · simp only [hd] at h ⊢; simpa using zl _ (by simpa using h)
    · -- not a period: the strict reading leaves the text as it is, and it has to be a zone then,
      -- which never starts with a comma
      have h' : zone false (sep :: d :: rest) = true := by simpa [hs] using h
      by_cases hc : sep = ','
      · subst hc
        exfalso
        match rest with
        | [] => simp [zone] at h'
        | [a] => simp [zone] at h'
        | [a, b] => simp [zone] at h'
        | [a, b, c] => simp [zone] at h'
        | [a, b, c, e] => simp [zone] at h'
        | a :: b :: c :: e :: f :: rest' => simp [zone] at h'
      · have : ((sep == '.' || (true && sep == ',')) && (digit d).isSome) = false := by simp [hs, hc]
        simp only [this]
        exact zl _ h'

/-- **Every RFC 3339 timestamp is accepted** (the converse fails exactly on the four leniencies). -/
theorem strict_accepts (s : List Char) (h : strict s = true) : accepts s = true := by
  simp only [strict, accepts, shape, Bool.false_eq_true, if_false, if_true] at h ⊢
  cases h1 : four s with
  | none => simp [h1] at h
  | some p1 =>
    obtain ⟨year, s1⟩ := p1
    simp only [h1] at h ⊢
    cases h2 : lit '-' s1 with
    | none => simp [h2] at h
    | some s2 =>
      simp only [h2] at h ⊢
      cases h3 : two s2 with
      | none => simp [h3] at h
      | some p3 =>
        obtain ⟨month, s3⟩ := p3
        simp only [h3] at h ⊢
        cases h4 : lit '-' s3 with
        | none => simp [h4] at h
        | some s4 =>
          simp only [h4] at h ⊢
          cases h5 : two s4 with
          | none => simp [h5] at h
          | some p5 =>
            obtain ⟨day, s5⟩ := p5
            simp only [h5] at h ⊢
            cases h6 : lit 'T' s5 with
            | none => simp [h6] at h
            | some s6 =>
              simp only [h6] at h ⊢
              cases h7 : two s6 with
              | none => simp [h7] at h
              | some p7 =>
                obtain ⟨hour, s7⟩ := p7
                simp only [h7, two_oneOrTwo h7] at h ⊢
                cases h8 : lit ':' s7 with
                | none => simp [h8] at h
                | some s8 =>
                  simp only [h8] at h ⊢
                  cases h9 : two s8 with
                  | none => simp [h9] at h
                  | some p9 =>
                    obtain ⟨minute, s9⟩ := p9
                    simp only [h9] at h ⊢
                    cases h10 : lit ':' s9 with
                    | none => simp [h10] at h
                    | some s10 =>
                      simp only [h10] at h ⊢
                      cases h11 : two s10 with
                      | none => simp [h11] at h
                      | some p11 =>
                        obtain ⟨second, s11⟩ := p11
                        simp only [h11] at h ⊢
                        simp only [Bool.and_eq_true] at h ⊢
                        exact ⟨h.1, fraction_strict_lenient _ h.2⟩

end ApiFu.C05.Rfc3339
