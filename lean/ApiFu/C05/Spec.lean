/-
  C05 — reference semantics, written from the GraphQL specification (June 2018), not from the Go
  code: §3.5 (scalars), §3.9 (enums), §3.10 (input objects), §3.11 (lists), §3.12 (non-null),
  §6.1.2 CoerceVariableValues, §6.4.1 CoerceArgumentValues.

  One abstract *client value* domain `CV` (what the client means), with an embedding into
  literals (`toLit`) and into JSON (`toJson`). There is no item-to-list *flag* here: the list rule
  is stated the way the specification words it ("if the value passed as an input to a list type
  is not a list and not the null value … a list of size one"; an *item* of a list value is
  accepted "only when each item in the list can be accepted by the list's item type", i.e. an
  item for a list type must itself be a list or null — `[1, 2, 3]` is not a `[[Int]]`, which
  the repository's own list_type_test.go fixes as the intended reading).

  `conforms T x` is the shape a resolver may rely on: never null at non-null, a list at a list
  type, a declared enum value, a map with exactly the declared fields (every non-null field and
  every field with a default present).
-/
import ApiFu.C05.Model

namespace ApiFu.C05

/-- What the client supplies, independent of the spelling. `half h` is a number written in float
    syntax with value `h/2` (`1.5`, also `2.0` or `1e3`); `enum n` a bare name. -/
inductive CV where
  | null
  | int (z : Int)
  | half (h : Int)
  | str (s : String)
  | bool (b : Bool)
  | enum (n : String)
  | list (xs : List CV)
  | obj (fs : List (String × CV))
  deriving Repr, Inhabited

mutual
/-- The client value written as a literal. -/
def CV.toLit : CV → Lit
  | .null => .null
  | .int z => .int z
  | .half h => .float h
  | .str s => .str s
  | .bool b => .bool b
  | .enum n => .enum n
  | .list xs => .list (CV.toLitL xs)
  | .obj fs => .obj (CV.toLitF fs)
def CV.toLitL : List CV → List Lit
  | [] => []
  | x :: xs => x.toLit :: CV.toLitL xs
def CV.toLitF : List (String × CV) → List (String × Lit)
  | [] => []
  | p :: ps => (p.1, p.2.toLit) :: CV.toLitF ps
end

mutual
/-- The client value serialised as JSON: numbers lose the int/float syntax, enum names become
    strings. -/
def CV.toJson : CV → Json
  | .null => .null
  | .int z => .num (2 * z)
  | .half h => .num h
  | .str s => .str s
  | .bool b => .bool b
  | .enum n => .str n
  | .list xs => .list (CV.toJsonL xs)
  | .obj fs => .obj (CV.toJsonF fs)
def CV.toJsonL : List CV → List Json
  | [] => []
  | x :: xs => x.toJson :: CV.toJsonL xs
def CV.toJsonF : List (String × CV) → List (String × Json)
  | [] => []
  | p :: ps => (p.1, p.2.toJson) :: CV.toJsonF ps
end

def CV.isNull : CV → Bool
  | .null => true
  | _ => false

def CV.isList : CV → Bool
  | .list _ => true
  | _ => false

/-- A list type, possibly under non-null wrappers. -/
def isListish : Ty → Bool
  | .list _ => true
  | .nonNull t => isListish t
  | _ => false

namespace Spec

/-- §3.5: Int accepts integers in the 32-bit range; Float integers and floats; String strings;
    Boolean booleans; ID strings and integers (the server's integer width: 64 bit); DateTime
    RFC 3339 strings; LongInt integers in ±(2^53−1). Everything else is an error — in particular
    a float-syntax number for Int, a boolean for a number, a bare name for a string. -/
def scalar (P : Parse) : Scalar → CV → Option GoVal
  | .int, .int z => if inInt32 z then some (.int z) else none
  | .float, .int z => some (.float (2 * z))
  | .float, .half h => some (.float h)
  | .string, .str s => some (.str s)
  | .boolean, .bool b => some (.bool b)
  | .id, .int z => if inInt64 z then some (.int z) else none
  | .id, .str s => some (.str s)
  | .dateTime, .str s => (P s).map GoVal.time
  | .longInt, .int z => if inSafe z then some (.long z) else none
  | _, _ => none

mutual
/-- Input coercion of a client value at a type. -/
def coerce (P : Parse) : Ty → CV → Option GoVal
  | .nonNull t, v => if v.isNull then none else coerce P t v         -- §3.12
  | _, .null => some .nil
  | .scalar k, v => scalar P k v
  | .enum _ vals, .enum n => if vals.contains n then some (.enumv n) else none    -- §3.9
  | .enum _ _, _ => none
  | .list t, .list xs =>                                              -- §3.11
    (mapAll (fun x => if isListish t && !(x.isList || x.isNull) then none else coerce P t x) xs).map GoVal.list
  | .list t, v => (coerce P t v).map (fun y => GoVal.list [y])
  | .inputObj _ fs, .obj m =>                                         -- §3.10
    if m.all (fun p => fs.hasName p.1) then (coerceFields P fs m).map GoVal.obj else none
  | .inputObj _ _, _ => none
def coerceFields (P : Parse) : Fields → List (String × CV) → Option (List (String × GoVal))
  | .nil, _ => some []
  | .cons name ty d rest, m =>
    addField name ty d ((m.lookup name).map (fun v => coerce P ty v)) (coerceFields P rest m)
end

/-- An item of a list value: for a list item type it has to be a list (or null) itself. -/
def coerceItem (P : Parse) (t : Ty) (x : CV) : Option GoVal :=
  if isListish t && !(x.isList || x.isNull) then none else coerce P t x

end Spec

/-! ## Conformance -/

/-- The Go dynamic type a scalar's coerced value has. -/
def scalarShape : Scalar → GoVal → Bool
  | .int, .int z => inInt32 z
  | .float, .float _ => true
  | .string, .str _ => true
  | .boolean, .bool _ => true
  | .id, .int z => inInt64 z
  | .id, .str _ => true
  | .dateTime, .time _ => true
  | .longInt, .long z => inSafe z
  | _, _ => false

mutual
/-- `x` is a value a resolver may receive for an argument of type `T`. -/
def conforms : Ty → GoVal → Bool
  | .nonNull t, x => !x.isNil && conforms t x
  | _, .nil => true
  | .scalar k, x => scalarShape k x
  | .enum _ vals, .enumv n => vals.contains n
  | .enum _ _, _ => false
  | .list t, .list xs => xs.all (fun x => conforms t x)
  | .list _, _ => false
  | .inputObj _ fs, .obj m => m.all (fun p => fs.hasName p.1) && conformsFields fs m
  | .inputObj _ _, _ => false
/-- Complete field map: a declared field is present with a conforming value, or absent when it is
    nullable and has no default. -/
def conformsFields : Fields → List (String × GoVal) → Bool
  | .nil, _ => true
  | .cons name ty d rest, m =>
    (match m.lookup name with
     | some v => conforms ty v
     | none => !isNonNull ty && d.isNone)
    && conformsFields rest m
end

mutual
/-- Well-formed type: field names of an input object are distinct (a Go map) and every declared
    default conforms to its field's type (`schema.Null` only at nullable fields). Defaults are raw
    Go values supplied by the schema author and are handed to resolvers unchanged. -/
def Ty.wf : Ty → Bool
  | .scalar _ => true
  | .enum _ _ => true
  | .inputObj _ fs => fs.wf
  | .list t => t.wf
  | .nonNull t => t.wf
def Fields.wf : Fields → Bool
  | .nil => true
  | .cons name ty d rest =>
    !rest.hasName name && ty.wf
    && (match d with
        | some dv => conforms ty dv
        | none => true)
    && rest.wf
end

mutual
/-- The client value has no duplicate keys in any object (it is an unordered map). -/
def CV.wf : CV → Bool
  | .list xs => CV.wfL xs
  | .obj fs => noDupKeys fs && CV.wfF fs
  | _ => true
def CV.wfL : List CV → Bool
  | [] => true
  | x :: xs => x.wf && CV.wfL xs
def CV.wfF : List (String × CV) → Bool
  | [] => true
  | p :: ps => p.2.wf && CV.wfF ps
end

/-- Scalars whose input is an integer only. -/
def Scalar.integral : Scalar → Bool
  | .int | .id | .longInt => true
  | _ => false

/-- Scalars that accept a string. -/
def Scalar.acceptsString : Scalar → Bool
  | .string | .id | .dateTime => true
  | _ => false

mutual
/-- JSON keeps enough of the client value for the type it is sent to: no float-syntax integral
    number where an integer is expected (JSON `1.0` *is* `1`), no bare name where a string is
    accepted and no string where an enum is expected (the specification lets JSON transports read
    strings as enum names). Outside this the literal and the JSON spelling are different inputs. -/
def jsonFaithful : Ty → CV → Bool
  | _, .null => true
  | .nonNull t, v => jsonFaithful t v
  | .scalar k, .half h => !k.integral || h % 2 != 0
  | .scalar k, .enum _ => !k.acceptsString
  | .scalar _, _ => true
  | .enum _ _, .str _ => false
  | .enum _ _, _ => true
  | .list t, .list xs => xs.all (fun x => jsonFaithful t x)
  | .list t, v => jsonFaithful t v
  | .inputObj _ fs, .obj m => jsonFaithfulFields fs m
  | .inputObj _ _, _ => true
def jsonFaithfulFields : Fields → List (String × CV) → Bool
  | .nil, _ => true
  | .cons name ty _ rest, m =>
    (match m.lookup name with
     | some v => jsonFaithful ty v
     | none => true)
    && jsonFaithfulFields rest m
end


/-! ## Variables nested in a literal -/

/-- What the client supplied for the variables, as abstract client values (a variable that is
    not listed has no runtime value). -/
abbrev Supplied := List (String × CV)

mutual
/-- The literal the client *means*: every variable replaced by the literal spelling of the value
    supplied for it. A variable without a value is `null` as a list item (and at the top) and
    *nothing* as an input-object field (§3.10: "no entry"). -/
def inline (σ : Supplied) : Lit → Lit
  | .var n =>
    match σ.lookup n with
    | some v => v.toLit
    | none => .null
  | .list xs => .list (inlineL σ xs)
  | .obj fs => .obj (inlineF σ fs)
  | .int z => .int z
  | .float h => .float h
  | .str s => .str s
  | .bool b => .bool b
  | .null => .null
  | .enum n => .enum n
def inlineL (σ : Supplied) : List Lit → List Lit
  | [] => []
  | x :: xs => inline σ x :: inlineL σ xs
def inlineF (σ : Supplied) : List (String × Lit) → List (String × Lit)
  | [] => []
  | (k, l) :: ps =>
    match l with
    | .var n =>
      match σ.lookup n with
      | some v => (k, v.toLit) :: inlineF σ ps
      | none => inlineF σ ps
    | l => (k, inline σ l) :: inlineF σ ps
end

/-- The variable `$n`, written where a value of type `L` is expected (`item`: as an item of a list
    literal), stands for the supplied client value: either nothing was supplied and it has no
    runtime value, or its runtime value is the variable route's coercion of the supplied value at
    the location's type. For an item of a list-of-lists type the supplied value must itself be a
    list (or null): a *variable* of type `[Int]` accepts the single item `5` (→ `[5]`), the item
    `5` of a list literal does not — the one place where "through a variable" legitimately
    accepts more than "written in place" (§3.11 applies to the variable's own value). -/
def VarStandsFor (P : Parse) (σ : Supplied) (vars : Vars) (L : Ty) (item : Bool) (n : String) : Prop :=
  match σ.lookup n with
  | none => vars.lookup n = none
  | some v =>
    v.wf = true ∧ jsonFaithful L v = true ∧
    (∃ x, vars.lookup n = some x ∧ coerceVar P L v.toJson true = some x) ∧
    (item = true → isListish L = true → (v.isList || v.isNull) = true)

mutual
/-- Every variable inside the literal, at the type its position has, stands for its supplied
    value (`VarStandsFor`); variables may sit at the top, in list items, in input-object fields
    (also of a single object given for a list), at any depth. -/
def Nested (P : Parse) (σ : Supplied) (vars : Vars) : Ty → Bool → Lit → Prop
  | L, item, .var n => VarStandsFor P σ vars L item n
  | .nonNull t, item, l => Nested P σ vars t item l
  | .list t, _, .list xs => ∀ x ∈ xs, Nested P σ vars t true x
  | .list t, false, .obj lfs => Nested P σ vars t false (.obj lfs)
  | .inputObj _ fs, _, .obj lfs =>
    NestedFields P σ vars fs lfs ∧ ∀ p ∈ lfs, fs.hasName p.1 = true ∨ containsVar p.2 = false
  | _, _, l => containsVar l = false
def NestedFields (P : Parse) (σ : Supplied) (vars : Vars) : Fields → List (String × Lit) → Prop
  | .nil, _ => True
  | .cons name ty _ rest, lfs =>
    (∀ p ∈ lfs, p.1 = name → Nested P σ vars ty false p.2) ∧ NestedFields P σ vars rest lfs
end


mutual
/-- No object literal inside has two fields of the same name (validation rule "input object field
    uniqueness", checked by `validateCoercion`). -/
def Lit.noDup : Lit → Bool
  | .list xs => Lit.noDupL xs
  | .obj fs => noDupKeys fs && Lit.noDupF fs
  | _ => true
def Lit.noDupL : List Lit → Bool
  | [] => true
  | x :: xs => x.noDup && Lit.noDupL xs
def Lit.noDupF : List (String × Lit) → Bool
  | [] => true
  | p :: ps => p.2.noDup && Lit.noDupF ps
end

end ApiFu.C05
