/-
  C05, generalised model: the static check agrees with the run-time coercion on closed literals.
-/
import ApiFu.C05.R.LemmasSpec

namespace ApiFu.C05.R
open ApiFu.C05 (Scalar GoVal Lit Parse mapAll Vars noDupKeys containsVar containsVarL containsVarF
  containsVarL_false containsVarF_false mapAll_isSome all_congr_mem noDupL_forall noDupF_forall filter_key
  lookup_mem any_key_eq_lookup isUnsetVar_closed isUnsetVar)

theorem coerceLitT_not_nil (Pm : Params) (k : String → List (String × Lit) → Option GoVal) (hk : NonNil k) :
    ∀ (T : Ty) (l : Lit) (a : Bool) (x : GoVal), plain l = true → coerceLitT Pm [] k T l a = some x → x.isNil = false := by
  intro T
  induction T with
  | scalar s => intro l a x hp h; cases l <;> simp [coerceLitT, plain] at h hp <;> exact (scalar_coerceLit_shape' Pm.parse s _ x h).2
  | custom n => intro l a x hp h; cases l <;> simp only [coerceLitT, plain] at h hp <;> first | exact (notNil_some h).2 | simp at hp
  | enum n vs =>
    intro l a x hp h
    cases l <;> simp [coerceLitT, plain] at h hp
    obtain ⟨_, rfl⟩ := h; rfl
  | ref n => intro l a x hp h; cases l <;> simp [coerceLitT, plain] at h hp; exact hk n _ x h
  | list t _ =>
    intro l a x hp h
    cases l <;> simp [coerceLitT, plain] at h hp
    all_goals first
      | (obtain ⟨_, y, _, rfl⟩ := h; rfl)
      | (obtain ⟨y, _, rfl⟩ := h; rfl)
  | nonNull t ih =>
    intro l a x hp h
    cases l <;> simp [coerceLitT, plain] at h hp <;> exact ih _ a x (by simp [plain]) h

theorem coerceLitT_nonNull_not_nil (Pm : Params) (k : String → List (String × Lit) → Option GoVal) (hk : NonNil k)
    {T : Ty} {l : Lit} {a : Bool} {x : GoVal} (hnn : isNonNull T = true) (hc : containsVar l = false)
    (h : coerceLitT Pm [] k T l a = some x) : x.isNil = false := by
  cases T <;> simp [isNonNull] at hnn
  cases l with
  | null => simp [coerceLitT, isNonNull] at h
  | var n => simp [containsVar] at hc
  | int z => exact coerceLitT_not_nil Pm k hk _ _ a x rfl h
  | float z => exact coerceLitT_not_nil Pm k hk _ _ a x rfl h
  | str z => exact coerceLitT_not_nil Pm k hk _ _ a x rfl h
  | bool z => exact coerceLitT_not_nil Pm k hk _ _ a x rfl h
  | enum z => exact coerceLitT_not_nil Pm k hk _ _ a x rfl h
  | list z => exact coerceLitT_not_nil Pm k hk _ _ a x rfl h
  | obj z => exact coerceLitT_not_nil Pm k hk _ _ a x rfl h

/-- Outside objects: `validateCoercion` = "`coerceLiteral` succeeds", when the insides correspond. -/
theorem validateT_eq (Pm : Params) (kv : String → List (String × Lit) → Bool)
    (kc : String → List (String × Lit) → Option GoVal)
    (hk : ∀ n lfs, containsVarF lfs = false → noDupKeys lfs = true → Lit.noDupF lfs = true →
      kv n lfs = (kc n lfs).isSome) :
    ∀ (T : Ty) (l : Lit) (a : Bool), containsVar l = false → l.noDup = true →
      validateT Pm kv T l a = (coerceLitT Pm [] kc T l a).isSome := by
  intro T
  induction T with
  | scalar s =>
    intro l a hc _
    cases l <;> simp_all [validateT, coerceLitT, containsVar] <;> cases isNonNull (Ty.scalar s) <;> simp
  | custom n =>
    intro l a hc _
    cases l <;> simp_all [validateT, coerceLitT, containsVar] <;> cases isNonNull (Ty.custom n) <;> simp
  | enum n vs =>
    intro l a hc _
    cases l <;> simp_all [validateT, coerceLitT, containsVar]
    · cases isNonNull (Ty.enum n vs) <;> simp
    · split <;> simp_all
  | ref n =>
    intro l a hc hd
    cases l with
    | var v => simp [containsVar] at hc
    | obj lfs =>
      simp only [ApiFu.C05.Lit.noDup, Bool.and_eq_true] at hd
      simp only [validateT, coerceLitT]
      exact hk n lfs (by simpa [containsVar] using hc) hd.1 hd.2
    | null => simp [validateT, coerceLitT, isNonNull]
    | int z => simp [validateT, coerceLitT]
    | float z => simp [validateT, coerceLitT]
    | str z => simp [validateT, coerceLitT]
    | bool z => simp [validateT, coerceLitT]
    | enum z => simp [validateT, coerceLitT]
    | list z => simp [validateT, coerceLitT]
  | list t ih =>
    intro l a hc hd
    have leaf : ∀ (l : Lit), containsVar l = false → l.noDup = true →
        (a && validateT Pm kv t l true)
          = (if a = true then (coerceLitT Pm [] kc t l true).map (fun y => GoVal.list [y]) else none).isSome := by
      intro l hc hd
      rw [ih l true hc hd]
      cases a <;> simp
    cases l with
    | var v => simp [containsVar] at hc
    | null => simp [validateT, coerceLitT, isNonNull]
    | list xs =>
      have hx := containsVarL_false (by simpa [containsVar] using hc)
      have hdx := noDupL_forall (by simpa [ApiFu.C05.Lit.noDup] using hd)
      simp only [validateT, coerceLitT, Option.isSome_map, mapAll_isSome]
      apply all_congr_mem
      intro x hxm
      exact ih x false (hx x hxm) (hdx x hxm)
    | int z => simpa only [validateT, coerceLitT] using leaf _ hc hd
    | float z => simpa only [validateT, coerceLitT] using leaf _ hc hd
    | str z => simpa only [validateT, coerceLitT] using leaf _ hc hd
    | bool z => simpa only [validateT, coerceLitT] using leaf _ hc hd
    | enum z => simpa only [validateT, coerceLitT] using leaf _ hc hd
    | obj z => simpa only [validateT, coerceLitT] using leaf _ hc hd
  | nonNull t ih =>
    intro l a hc hd
    cases l with
    | var v => simp [containsVar] at hc
    | null => simp [validateT, coerceLitT, isNonNull]
    | int z => simpa only [validateT, coerceLitT] using ih _ a hc hd
    | float z => simpa only [validateT, coerceLitT] using ih _ a hc hd
    | str z => simpa only [validateT, coerceLitT] using ih _ a hc hd
    | bool z => simpa only [validateT, coerceLitT] using ih _ a hc hd
    | enum z => simpa only [validateT, coerceLitT] using ih _ a hc hd
    | list z => simpa only [validateT, coerceLitT] using ih _ a hc hd
    | obj z => simpa only [validateT, coerceLitT] using ih _ a hc hd

theorem validateFields_eq {vrec : Ty → Lit → Bool} {rec : Ty → Lit → Option GoVal}
    (lfs : List (String × Lit)) (hc : ∀ p ∈ lfs, containsVar p.2 = false) (hnd : noDupKeys lfs = true)
    (hrec : ∀ t p, p ∈ lfs → vrec t p.2 = (rec t p.2).isSome)
    (hnn : ∀ t p c, p ∈ lfs → isNonNull t = true → rec t p.2 = some c → c.isNil = false) :
    ∀ (fs : List FieldDef), validateFields vrec fs lfs = (coerceLitFields [] rec fs lfs).isSome
  | [] => rfl
  | f :: rest => by
    have ihr := validateFields_eq lfs hc hnd hrec hnn rest
    have hf : lfs.filter (fun p => p.1 == f.name && !isUnsetVar [] p.2) = lfs.filter (fun p => p.1 == f.name) := by
      apply List.filter_congr
      intro p hp
      rw [isUnsetVar_closed (hc p hp)]; simp
    simp only [validateFields, coerceLitFields, hf, filter_key hnd, any_key_eq_lookup, ihr]
    cases hl : lfs.lookup f.name with
    | none =>
      simp only [List.all_nil, mapAll, litProvided, List.getLast?_nil, addField, Option.isSome_none]
      cases hd : f.dflt with
      | some dv => cases coerceLitFields [] rec rest lfs <;> simp
      | none => cases isNonNull f.ty <;> simp
    | some l =>
      obtain ⟨k, hk⟩ := lookup_mem hl
      have ih := hrec f.ty (k, l) hk
      simp only at ih
      simp only [List.all_cons, List.all_nil, Bool.and_true, mapAll, ih, Option.isSome_some, Bool.or_true]
      cases hco : rec f.ty l with
      | none => simp [litProvided, addField]
      | some c =>
        simp only [litProvided_single (fun hn => hnn f.ty (k, l) c hk hn hco), addField,
          Option.isSome_some, Bool.true_and]
        cases coerceLitFields [] rec rest lfs <;> simp

theorem coerceLitObj_nonNil (Pm : Params) (env : Env) (hh : HookOK Pm) (fuel : Nat) :
    NonNil (fun n lfs => coerceLitObj Pm env [] fuel n lfs) := by
  intro n lfs x h
  cases fuel with
  | zero => simp [coerceLitObj] at h
  | succ f =>
    simp only [coerceLitObj] at h
    cases hl : env.lookup n with
    | none => simp [hl] at h
    | some od =>
      simp only [hl] at h
      split at h
      · split at h
        · simp at h
        · exact spec_finish_not_nil hh h
      · simp at h

/-- The inside of an object. `hooksTotal`: the static check cannot foresee a hook's error. -/
theorem validateObj_eq (Pm : Params) (env : Env) (hh : HookOK Pm) (hooksTotal : ∀ n m, (Pm.hook n m).isSome = true) :
    ∀ (fuel : Nat) (n : String) (lfs : List (String × Lit)), containsVarF lfs = false → noDupKeys lfs = true →
      Lit.noDupF lfs = true → validateObj Pm env fuel n lfs = (coerceLitObj Pm env [] fuel n lfs).isSome := by
  intro fuel
  induction fuel with
  | zero => intro n lfs _ _ _; rfl
  | succ fuel ih =>
    intro n lfs hc hnd hd
    have hcf := containsVarF_false hc
    simp only [validateObj, coerceLitObj]
    cases env.lookup n with
    | none => rfl
    | some od =>
      simp only [hnd, Bool.true_and]
      rw [validateFields_eq (rec := fun t l => coerceLitT Pm [] (fun n' l' => coerceLitObj Pm env [] fuel n' l') t l true)
        lfs hcf hnd ?_ ?_ od.fields]
      · cases lfs.all (fun p => hasName od.fields p.1) with
        | false => simp
        | true =>
          simp only [Bool.true_and, if_true]
          cases coerceLitFields [] _ od.fields lfs with
          | none => rfl
          | some out =>
            simp only [Option.isSome_some, finish]
            split
            · exact (hooksTotal n out).symm
            · rfl
      · intro t p hp
        exact validateT_eq Pm _ _ (fun n' l' h1 h2 h3 => ih n' l' h1 h2 h3) t p.2 true (hcf p hp) (noDupF_forall hd p hp)
      · intro t p c hp hn hco
        exact coerceLitT_nonNull_not_nil Pm _ (coerceLitObj_nonNil Pm env hh fuel) hn (hcf p hp) hco

theorem validate_eq_coerces (Pm : Params) (env : Env) (hh : HookOK Pm)
    (hooksTotal : ∀ n m, (Pm.hook n m).isSome = true) (fuel : Nat) (T : Ty) (l : Lit) (a : Bool)
    (hc : containsVar l = false) (hd : l.noDup = true) :
    validateCoercion Pm env fuel T l a = (coerceLit Pm env [] fuel T l a).isSome :=
  validateT_eq Pm _ _ (fun n lfs h1 h2 h3 => validateObj_eq Pm env hh hooksTotal fuel n lfs h1 h2 h3) T l a hc hd

end ApiFu.C05.R
