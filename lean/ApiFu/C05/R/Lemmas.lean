/-
  C05, generalised model: helper lemmas (core Lean only).
-/
import ApiFu.C05.Lemmas
import ApiFu.C05.R.Spec

namespace ApiFu.C05.R
open ApiFu.C05 (Scalar GoVal Lit Parse mapAll CV scalarShape Vars mapAll_some lookup_cons inInt32 inInt64 inSafe
  noDupNames noDupNames_cons collect containsVar)

mutual
/-- A Go integer of kind `k` is inside the range of `k`. -/
def In.wf : In → Bool
  | .intk k z => k.lo ≤ z && z ≤ k.hi
  | .list xs => In.wfL xs
  | .obj fs => In.wfF fs
  | _ => true
def In.wfL : List In → Bool
  | [] => true
  | x :: xs => x.wf && In.wfL xs
def In.wfF : List (String × In) → Bool
  | [] => true
  | p :: ps => p.2.wf && In.wfF ps
end

theorem In.wfL_forall : ∀ {xs : List In}, In.wfL xs = true → ∀ x ∈ xs, x.wf = true
  | [], _, x, hx => by simp at hx
  | y :: ys, h, x, hx => by
    simp only [In.wfL, Bool.and_eq_true] at h
    rcases List.mem_cons.mp hx with rfl | hx
    · exact h.1
    · exact In.wfL_forall h.2 x hx

theorem In.wfF_lookup : ∀ {m : List (String × In)} {name : String} {v : In}, In.wfF m = true →
    m.lookup name = some v → v.wf = true
  | [], _, _, _, h => by simp at h
  | (k, w) :: rest, name, v, hw, h => by
    simp only [In.wfF, Bool.and_eq_true] at hw
    simp only [List.lookup] at h
    split at h
    · cases h; exact hw.1
    · exact In.wfF_lookup hw.2 h

theorem notNil_some {r : Option GoVal} {x : GoVal} (h : notNil r = some x) : r = some x ∧ x.isNil = false := by
  cases r with
  | none => simp [notNil] at h
  | some y =>
    cases y <;> simp [notNil] at h
    all_goals (subst h; simp [GoVal.isNil])

theorem scalarVar_shape (P : Parse) (k : Scalar) (v : In) (x : GoVal) (hw : v.wf = true)
    (h : scalarVar P k v = some x) : scalarShape k x = true ∧ x.isNil = false := by
  cases k <;> cases v <;> simp [scalarVar] at h
  all_goals first
    | (obtain ⟨h1, rfl⟩ := h; simp_all [scalarShape, GoVal.isNil])
    | (subst h; simp [scalarShape, GoVal.isNil])
    | (obtain ⟨c, _, rfl⟩ := h; simp [scalarShape, GoVal.isNil])
    | (rename_i kd z
       cases kd <;> simp [scalarVar] at h
       subst h
       simp only [In.wf, IntKind.lo, IntKind.hi, Bool.and_eq_true] at hw
       have a := of_decide_eq_true hw.1
       have b := of_decide_eq_true hw.2
       simp only [scalarShape, GoVal.isNil, inInt64, ApiFu.C05.minInt64, ApiFu.C05.maxInt64, Bool.and_eq_true,
         decide_eq_true_eq, and_true]
       constructor <;> first | omega | (apply decide_eq_true; omega) | trace_state)

theorem lookup_none_of_keys {fs : List FieldDef} {name : String} :
    ∀ {m : List (String × GoVal)}, (∀ p ∈ m, hasName fs p.1 = true) → hasName fs name = false → m.lookup name = none
  | [], _, _ => rfl
  | (k, v) :: m, hk, hn => by
    rw [lookup_cons]
    have hne : (name == k) = false := by
      cases h : name == k
      · rfl
      · have : name = k := by simpa using h
        subst this
        have := hk (name, v) (List.mem_cons_self ..)
        simp [hn] at this
    simp only [hne]
    exact lookup_none_of_keys (fun p hp => hk p (List.mem_cons_of_mem _ hp)) hn

theorem hasName_cons (f : FieldDef) (rest : List FieldDef) (n : String) :
    hasName (f :: rest) n = (f.name == n || hasName rest n) := by
  simp [hasName]

theorem name_ne_of_mem {f g : FieldDef} {rest : List FieldDef} (hfresh : hasName rest f.name = false)
    (hg : g ∈ rest) : (g.name == f.name) = false := by
  cases hb : g.name == f.name
  · rfl
  · exfalso
    have : g.name = f.name := by simpa using hb
    have : hasName rest f.name = true := by
      simp only [hasName, List.any_eq_true]
      exact ⟨g, hg, by simp [this]⟩
    simp [hfresh] at this

/-- Joining one declared field to a good rest gives a good map. -/
theorem addField_good {Pm : Params} {env : Env} {f : FieldDef} {rest : List FieldDef}
    {prov : Option (Option GoVal)} {tl : Option (List (String × GoVal))} {out : List (String × GoVal)}
    (hfresh : hasName rest f.name = false)
    (hd : ∀ dv, f.dflt = some dv → Conforms Pm env f.ty dv)
    (hprov : ∀ c, prov = some (some c) → Conforms Pm env f.ty c)
    (htl : ∀ t, tl = some t → FieldsGood Pm env rest t)
    (h : addField f prov tl = some out) : FieldsGood Pm env (f :: rest) out := by
  have entry : ∀ (c : GoVal) (t : List (String × GoVal)), Conforms Pm env f.ty c → tl = some t →
      FieldsGood Pm env (f :: rest) ((f.name, c) :: t) := by
    intro c t hc ht
    obtain ⟨h1, h2, h3⟩ := htl t ht
    refine ⟨?_, ?_, ?_⟩
    · intro p hp
      rcases List.mem_cons.mp hp with rfl | hp
      · simp [hasName_cons]
      · simp [hasName_cons, h1 p hp]
    · intro g hg v hv
      rcases List.mem_cons.mp hg with rfl | hg
      · simp [lookup_cons] at hv; subst hv; exact hc
      · rw [lookup_cons] at hv
        simp only [name_ne_of_mem hfresh hg] at hv
        exact h2 g hg v hv
    · intro g hg hv
      rcases List.mem_cons.mp hg with rfl | hg
      · simp [lookup_cons] at hv
      · rw [lookup_cons] at hv
        simp only [name_ne_of_mem hfresh hg] at hv
        exact h3 g hg hv
  cases prov with
  | some pv =>
    cases pv with
    | none => simp [addField] at h
    | some c =>
      cases tl with
      | none => simp [addField] at h
      | some t =>
        simp [addField] at h; subst h
        exact entry c t (hprov c rfl) rfl
  | none =>
    cases hdf : f.dflt with
    | some dv =>
      cases tl with
      | none => simp [addField, hdf] at h
      | some t =>
        simp [addField, hdf] at h; subst h
        exact entry dv t (hd dv hdf) rfl
    | none =>
      simp only [addField, hdf] at h
      split at h
      · simp at h
      · rename_i hnn
        obtain ⟨h1, h2, h3⟩ := htl out h
        have hnone : out.lookup f.name = none := lookup_none_of_keys h1 hfresh
        refine ⟨?_, ?_, ?_⟩
        · intro p hp; simp [hasName_cons, h1 p hp]
        · intro g hg v hv
          rcases List.mem_cons.mp hg with rfl | hg
          · simp [hnone] at hv
          · exact h2 g hg v hv
        · intro g hg hv
          rcases List.mem_cons.mp hg with rfl | hg
          · exact ⟨by simpa using hnn, hdf⟩
          · exact h3 g hg hv

theorem noDup_fields_cons {f : FieldDef} {rest : List FieldDef}
    (h : noDupNames ((f :: rest).map (·.name)) = true) :
    hasName rest f.name = false ∧ noDupNames (rest.map (·.name)) = true := by
  obtain ⟨h1, h2⟩ := noDupNames_cons (by simpa using h)
  refine ⟨?_, h2⟩
  cases hb : hasName rest f.name
  · rfl
  · exfalso; apply h1
    simp only [hasName, List.any_eq_true] at hb
    obtain ⟨g, hg, hgn⟩ := hb
    have : g.name = f.name := by simpa using hgn
    rw [← this]; exact List.mem_map_of_mem hg

/-- The variable-route field loop yields a good map when `rec` yields conforming values. -/
theorem coerceVarFields_good {Pm : Params} {env : Env} {rec : Ty → In → Option GoVal} :
    ∀ (fs : List FieldDef) (m : List (String × In)) (out : List (String × GoVal)),
      noDupNames (fs.map (·.name)) = true →
      (∀ f ∈ fs, ∀ dv, f.dflt = some dv → Conforms Pm env f.ty dv) →
      (∀ f ∈ fs, ∀ v c, m.lookup f.name = some v → rec f.ty v = some c → Conforms Pm env f.ty c) →
      coerceVarFields rec fs m = some out → FieldsGood Pm env fs out
  | [], m, out, _, _, _, h => by
    simp [coerceVarFields] at h; subst h
    exact ⟨by simp, by simp, by simp⟩
  | f :: rest, m, out, hnd, hd, hrec, h => by
    obtain ⟨hfresh, hnd'⟩ := noDup_fields_cons hnd
    simp only [coerceVarFields] at h
    refine addField_good hfresh (hd f (List.mem_cons_self ..)) ?_
      (fun t ht => coerceVarFields_good rest m t hnd' (fun g hg => hd g (List.mem_cons_of_mem _ hg))
        (fun g hg => hrec g (List.mem_cons_of_mem _ hg)) ht) h
    intro c hc
    cases hl : m.lookup f.name with
    | none => simp [hl] at hc
    | some fv =>
      simp [hl] at hc
      exact hrec f (List.mem_cons_self ..) fv c hl hc

theorem conforms_nil {Pm : Params} {env : Env} {t : Ty} (h : isNonNull t = false) : Conforms Pm env t .nil :=
  Conforms.nil h

/-- What the inside of an object has to guarantee (`k` = `coerceVarObj … fuel`). -/
def KGood (Pm : Params) (env : Env) {α : Type} (W : String → α → Prop) (k : String → α → Option GoVal) : Prop :=
  ∀ n m x, W n m → k n m = some x → Conforms Pm env (.ref n) x ∧ x.isNil = false

/-- Outside objects: `coerceVarT` yields conforming, and for a non-null input non-nil, values. -/
theorem coerceVarT_good (Pm : Params) (env : Env) (k : String → List (String × In) → Option GoVal)
    (hk : KGood Pm env (fun _ m => In.wfF m = true) k) :
    ∀ (T : Ty) (v : In) (allow : Bool) (x : GoVal), v.wf = true → coerceVarT Pm k T v allow = some x →
      Conforms Pm env T x ∧ (v = .null ∨ x.isNil = false) := by
  intro T
  induction T with
  | scalar s =>
    intro v allow x hw h
    cases v <;> simp [coerceVarT, isNonNull] at h
    all_goals first
      | (subst h; exact ⟨Conforms.nil rfl, Or.inl rfl⟩)
      | (have := scalarVar_shape Pm.parse s _ x hw h; exact ⟨Conforms.scalar this.1, Or.inr this.2⟩)
  | custom n =>
    intro v allow x hw h
    cases v <;> simp only [coerceVarT, isNonNull] at h
    all_goals first
      | (simp at h; subst h; exact ⟨Conforms.nil rfl, Or.inl rfl⟩)
      | (obtain ⟨h1, h2⟩ := notNil_some h
         exact ⟨Conforms.custom h2 (Or.inl ⟨_, h1⟩), Or.inr h2⟩)
  | enum n vals =>
    intro v allow x hw h
    cases v <;> simp [coerceVarT, isNonNull] at h
    · subst h; exact ⟨Conforms.nil rfl, Or.inl rfl⟩
    · obtain ⟨hm, rfl⟩ := h
      exact ⟨Conforms.enum (by simpa using hm), Or.inr rfl⟩
  | ref n =>
    intro v allow x hw h
    cases v <;> simp [coerceVarT, isNonNull] at h
    · subst h; exact ⟨Conforms.nil rfl, Or.inl rfl⟩
    · have := hk n _ x (by simpa [In.wf] using hw) h
      exact ⟨this.1, Or.inr this.2⟩
  | list t ih =>
    intro v allow x hw h
    have wrap : ∀ (w : In), w.wf = true → (coerceVarT Pm k t w true).map (fun y => GoVal.list [y]) = some x →
        Conforms Pm env (.list t) x ∧ x.isNil = false := by
      intro w hww hj
      obtain ⟨y, hy, rfl⟩ := Option.map_eq_some_iff.mp hj
      refine ⟨Conforms.list ?_, rfl⟩
      intro z hz
      simp at hz; subst hz
      exact (ih w true z hww hy).1
    cases v with
    | null => simp [coerceVarT, isNonNull] at h; subst h; exact ⟨Conforms.nil rfl, Or.inl rfl⟩
    | list xs =>
      simp only [coerceVarT] at h
      obtain ⟨ys, hm, rfl⟩ := Option.map_eq_some_iff.mp h
      have hxs := In.wfL_forall (by simpa [In.wf] using hw)
      refine ⟨Conforms.list ?_, Or.inr rfl⟩
      intro y hy
      obtain ⟨x0, hx0m, hx0⟩ := mapAll_some hm y hy
      exact (ih x0 false y (hxs x0 hx0m) hx0).1
    | num z => simp only [coerceVarT] at h; split at h <;> first | exact ⟨(wrap _ hw h).1, Or.inr (wrap _ hw h).2⟩ | simp at h
    | str z => simp only [coerceVarT] at h; split at h <;> first | exact ⟨(wrap _ hw h).1, Or.inr (wrap _ hw h).2⟩ | simp at h
    | bool z => simp only [coerceVarT] at h; split at h <;> first | exact ⟨(wrap _ hw h).1, Or.inr (wrap _ hw h).2⟩ | simp at h
    | obj z => simp only [coerceVarT] at h; split at h <;> first | exact ⟨(wrap _ hw h).1, Or.inr (wrap _ hw h).2⟩ | simp at h
    | intk kd z => simp only [coerceVarT] at h; split at h <;> first | exact ⟨(wrap _ hw h).1, Or.inr (wrap _ hw h).2⟩ | simp at h
    | f32 z => simp only [coerceVarT] at h; split at h <;> first | exact ⟨(wrap _ hw h).1, Or.inr (wrap _ hw h).2⟩ | simp at h
    | nonFinite => simp only [coerceVarT] at h; split at h <;> first | exact ⟨(wrap _ hw h).1, Or.inr (wrap _ hw h).2⟩ | simp at h
    | jsonNumber z => simp only [coerceVarT] at h; split at h <;> first | exact ⟨(wrap _ hw h).1, Or.inr (wrap _ hw h).2⟩ | simp at h
    | bytes z => simp only [coerceVarT] at h; split at h <;> first | exact ⟨(wrap _ hw h).1, Or.inr (wrap _ hw h).2⟩ | simp at h
    | other z => simp only [coerceVarT] at h; split at h <;> first | exact ⟨(wrap _ hw h).1, Or.inr (wrap _ hw h).2⟩ | simp at h
  | nonNull t ih =>
    intro v allow x hw h
    have inner : ∀ (w : In), w.wf = true → w ≠ .null → coerceVarT Pm k t w allow = some x →
        Conforms Pm env (.nonNull t) x ∧ (w = .null ∨ x.isNil = false) := by
      intro w hww hne hj
      have := ih w allow x hww hj
      rcases this.2 with hnull | hnn
      · exact absurd hnull hne
      · exact ⟨Conforms.nonNull hnn this.1, Or.inr hnn⟩
    cases v with
    | null => simp [coerceVarT, isNonNull] at h
    | list xs => simp only [coerceVarT] at h; exact inner _ hw (by simp) h
    | num z => simp only [coerceVarT] at h; exact inner _ hw (by simp) h
    | str z => simp only [coerceVarT] at h; exact inner _ hw (by simp) h
    | bool z => simp only [coerceVarT] at h; exact inner _ hw (by simp) h
    | obj z => simp only [coerceVarT] at h; exact inner _ hw (by simp) h
    | intk kd z => simp only [coerceVarT] at h; exact inner _ hw (by simp) h
    | f32 z => simp only [coerceVarT] at h; exact inner _ hw (by simp) h
    | nonFinite => simp only [coerceVarT] at h; exact inner _ hw (by simp) h
    | jsonNumber z => simp only [coerceVarT] at h; exact inner _ hw (by simp) h
    | bytes z => simp only [coerceVarT] at h; exact inner _ hw (by simp) h
    | other z => simp only [coerceVarT] at h; exact inner _ hw (by simp) h


theorem finish_good {Pm : Params} {env : Env} (hh : HookOK Pm) {n : String} {od : ObjDef}
    {out : List (String × GoVal)} {x : GoVal} (hl : env.lookup n = some od)
    (hg : FieldsGood Pm env od.fields out) (h : finish Pm n od out = some x) :
    Conforms Pm env (.ref n) x ∧ x.isNil = false := by
  simp only [finish] at h
  cases hk : od.hooked with
  | true =>
    simp only [hk, if_true] at h
    exact ⟨Conforms.hooked hl hk hg.1 hg.2.1 hg.2.2 h, hh n out x h⟩
  | false =>
    simp [hk] at h; subst h
    exact ⟨Conforms.obj hl hk hg.1 hg.2.1 hg.2.2, rfl⟩

/-- The inside of an object, variable route: by induction on the fuel. -/
theorem coerceVarObj_good (Pm : Params) (env : Env) (he : EnvOK Pm env) (hh : HookOK Pm) :
    ∀ (fuel : Nat) (n : String) (m : List (String × In)) (x : GoVal), In.wfF m = true →
      coerceVarObj Pm env fuel n m = some x → Conforms Pm env (.ref n) x ∧ x.isNil = false := by
  intro fuel
  induction fuel with
  | zero => intro n m x _ h; simp [coerceVarObj] at h
  | succ fuel ih =>
    intro n m x hw h
    simp only [coerceVarObj] at h
    cases hl : env.lookup n with
    | none => simp [hl] at h
    | some od =>
      simp only [hl] at h
      split at h
      · cases hf : coerceVarFields (fun t v => coerceVarT Pm (fun n' m' => coerceVarObj Pm env fuel n' m') t v true)
            od.fields m with
        | none => simp [hf] at h
        | some out =>
          simp only [hf] at h
          obtain ⟨hnd, hdf⟩ := he n od hl
          have hg : FieldsGood Pm env od.fields out := by
            refine coerceVarFields_good od.fields m out hnd hdf ?_ hf
            intro f _ v c hlv hc
            exact (coerceVarT_good Pm env _ (fun n' m' x' hwm hx' => ih n' m' x' hwm hx') f.ty v true c
              (In.wfF_lookup hw hlv) hc).1
          exact finish_good hh hl hg h
      · simp at h


/-! ## Variable usage -/

theorem conforms_nonNull_inv {Pm : Params} {env : Env} {t : Ty} {x : GoVal}
    (h : Conforms Pm env (.nonNull t) x) : x.isNil = false ∧ Conforms Pm env t x := by
  cases h with
  | nil hn => simp [isNonNull] at hn
  | nonNull h1 h2 => exact ⟨h1, h2⟩

theorem conforms_list_inv {Pm : Params} {env : Env} {t : Ty} {x : GoVal}
    (h : Conforms Pm env (.list t) x) : x = .nil ∨ ∃ xs, x = .list xs ∧ ∀ y ∈ xs, Conforms Pm env t y := by
  cases h with
  | nil _ => exact Or.inl rfl
  | list hx => exact Or.inr ⟨_, rfl, hx⟩

theorem compat_conforms {Pm : Params} {env : Env} :
    ∀ (V L : Ty) (x : GoVal), compat V L = true → Conforms Pm env V x → Conforms Pm env L x := by
  intro V
  induction V with
  | nonNull v ih =>
    intro L x hc hx
    obtain ⟨hnn, hv⟩ := conforms_nonNull_inv hx
    cases L with
    | nonNull l => simp only [compat] at hc; exact Conforms.nonNull hnn (ih l x hc hv)
    | scalar k => simp only [compat] at hc; exact ih _ x hc hv
    | custom n => simp only [compat] at hc; exact ih _ x hc hv
    | enum n vs => simp only [compat] at hc; exact ih _ x hc hv
    | ref n => simp only [compat] at hc; exact ih _ x hc hv
    | list l => simp only [compat] at hc; exact ih _ x hc hv
  | list v ih =>
    intro L x hc hx
    cases L with
    | list l =>
      simp only [compat] at hc
      rcases conforms_list_inv hx with rfl | ⟨xs, rfl, hxs⟩
      · exact Conforms.nil rfl
      · exact Conforms.list (fun y hy => ih l y hc (hxs y hy))
    | nonNull l => simp [compat] at hc
    | scalar k => simp [compat] at hc
    | custom n => simp [compat] at hc
    | enum n vs => simp [compat] at hc
    | ref n => simp [compat] at hc
  | scalar k => intro L x hc hx; cases L <;> simp [compat] at hc <;> (subst hc; exact hx)
  | custom n => intro L x hc hx; cases L <;> simp [compat] at hc <;> (subst hc; exact hx)
  | enum n vs => intro L x hc hx; cases L <;> simp [compat] at hc <;> (obtain ⟨rfl, rfl⟩ := hc; exact hx)
  | ref n => intro L x hc hx; cases L <;> simp [compat] at hc <;> (subst hc; exact hx)

/-- Every runtime value of a variable conforms to the variable's declared type. -/
def VarsOK (Pm : Params) (env : Env) (defs : List VarDef) (vars : Vars) : Prop :=
  ∀ n v, vars.lookup n = some v → ∃ d, defs.find? (fun d => d.name == n) = some d ∧ Conforms Pm env d.ty v

theorem allowed_conforms {Pm : Params} {env : Env} {defs : List VarDef} {vars : Vars}
    (hv : VarsOK Pm env defs vars) {n : String} {L : Ty} {ld : Bool} {v : GoVal}
    (ha : allowed defs n L ld = true) (hl : vars.lookup n = some v)
    (hnn : (v.isNil && isNonNull L) = false) : Conforms Pm env L v := by
  obtain ⟨d, hd, hc⟩ := hv n v hl
  simp only [allowed, hd] at ha
  cases L with
  | nonNull L' =>
    simp only at ha
    have hvn : v.isNil = false := by simpa [isNonNull] using hnn
    split at ha
    · exact compat_conforms _ _ v ha hc
    · simp only [Bool.and_eq_true] at ha
      exact Conforms.nonNull hvn (compat_conforms _ _ v ha.2 hc)
  | scalar k => exact compat_conforms _ _ v ha hc
  | custom k => exact compat_conforms _ _ v ha hc
  | enum n vs => exact compat_conforms _ _ v ha hc
  | ref n => exact compat_conforms _ _ v ha hc
  | list l => exact compat_conforms _ _ v ha hc

theorem coerceVarRef_conforms {Pm : Params} {env : Env} {defs : List VarDef} {vars : Vars}
    (hv : VarsOK Pm env defs vars) {n : String} {L : Ty} {ld : Bool} {x : GoVal}
    (ha : allowed defs n L ld = true) (h : coerceVarRef vars L n = some x) : Conforms Pm env L x := by
  simp only [coerceVarRef] at h
  cases hl : vars.lookup n with
  | some v =>
    simp only [hl] at h
    split at h
    · simp at h
    · rename_i hnn
      simp at h; subst h
      exact allowed_conforms hv ha hl (by simpa using hnn)
  | none =>
    simp only [hl] at h
    split at h
    · simp at h
    · rename_i hnn
      simp at h; subst h
      exact Conforms.nil (by simpa using hnn)

/-- A literal that is neither a variable, nor null, nor a list, nor an object. -/
def Lit.leaf : Lit → Bool
  | .int _ | .float _ | .str _ | .bool _ | .enum _ => true
  | _ => false

theorem usageT_leaf (defs : List VarDef) (k : String → List (String × Lit) → Bool) :
    ∀ (T : Ty) (ld : Bool) (l : Lit), Lit.leaf l = true → usageT defs k T ld l = true := by
  intro T
  induction T with
  | nonNull t ih => intro ld l hl; cases l <;> simp [Lit.leaf] at hl <;> (simp only [usageT]; exact ih ld _ rfl)
  | scalar s => intro ld l hl; cases l <;> simp_all [Lit.leaf, usageT, containsVar]
  | custom s => intro ld l hl; cases l <;> simp_all [Lit.leaf, usageT, containsVar]
  | enum n vs => intro ld l hl; cases l <;> simp_all [Lit.leaf, usageT, containsVar]
  | ref n => intro ld l hl; cases l <;> simp_all [Lit.leaf, usageT, containsVar]
  | list t _ => intro ld l hl; cases l <;> simp_all [Lit.leaf, usageT, containsVar]

theorem scalar_coerceLit_shape' (P : Parse) (k : Scalar) (l : Lit) (x : GoVal)
    (h : k.coerceLit P l = some x) : scalarShape k x = true ∧ x.isNil = false :=
  ApiFu.C05.scalar_coerceLit_shape P k l x h

/-- A literal that is neither `null` nor a variable. -/
def plain : Lit → Bool
  | .null => false
  | .var _ => false
  | _ => true

theorem litProvided_some {ty : Ty} {r : Option (List GoVal)} {c : GoVal}
    (h : litProvided ty r = some (some c)) : ∃ vs, r = some vs ∧ c ∈ vs := by
  cases r with
  | none => simp [litProvided] at h
  | some vs =>
    simp only [litProvided] at h
    cases hg : vs.getLast? with
    | none => simp [hg] at h
    | some v =>
      simp only [hg] at h
      split at h
      · simp at h
      · simp at h; subst h
        exact ⟨vs, rfl, List.mem_of_getLast? hg⟩

/-- Outside objects, literal route with variables. -/
theorem coerceLitT_good (Pm : Params) (env : Env) (defs : List VarDef) (vars : Vars)
    (hv : VarsOK Pm env defs vars) (k : String → List (String × Lit) → Option GoVal)
    (ku : String → List (String × Lit) → Bool) (hk : KGood Pm env (fun n lfs => ku n lfs = true) k) :
    ∀ (T : Ty) (l : Lit) (allow ld : Bool) (x : GoVal), usageT defs ku T ld l = true →
      coerceLitT Pm vars k T l allow = some x → Conforms Pm env T x ∧ (plain l = true → x.isNil = false) := by
  intro T
  induction T with
  | scalar s =>
    intro l allow ld x hu h
    cases l with
    | null => simp [coerceLitT, isNonNull] at h; subst h; exact ⟨Conforms.nil rfl, by simp [plain]⟩
    | var n => simp only [coerceLitT] at h; simp only [usageT] at hu; exact ⟨coerceVarRef_conforms hv hu h, by simp [plain]⟩
    | int z => simp only [coerceLitT] at h; have := scalar_coerceLit_shape' Pm.parse s _ x h; exact ⟨Conforms.scalar this.1, fun _ => this.2⟩
    | float z => simp only [coerceLitT] at h; have := scalar_coerceLit_shape' Pm.parse s _ x h; exact ⟨Conforms.scalar this.1, fun _ => this.2⟩
    | str z => simp only [coerceLitT] at h; have := scalar_coerceLit_shape' Pm.parse s _ x h; exact ⟨Conforms.scalar this.1, fun _ => this.2⟩
    | bool z => simp only [coerceLitT] at h; have := scalar_coerceLit_shape' Pm.parse s _ x h; exact ⟨Conforms.scalar this.1, fun _ => this.2⟩
    | enum z => simp only [coerceLitT] at h; have := scalar_coerceLit_shape' Pm.parse s _ x h; exact ⟨Conforms.scalar this.1, fun _ => this.2⟩
    | list z => simp only [coerceLitT] at h; have := scalar_coerceLit_shape' Pm.parse s _ x h; exact ⟨Conforms.scalar this.1, fun _ => this.2⟩
    | obj z => simp only [coerceLitT] at h; have := scalar_coerceLit_shape' Pm.parse s _ x h; exact ⟨Conforms.scalar this.1, fun _ => this.2⟩
  | custom n =>
    intro l allow ld x hu h
    cases l with
    | null => simp [coerceLitT, isNonNull] at h; subst h; exact ⟨Conforms.nil rfl, by simp [plain]⟩
    | var v => simp only [coerceLitT] at h; simp only [usageT] at hu; exact ⟨coerceVarRef_conforms hv hu h, by simp [plain]⟩
    | int z => simp only [coerceLitT] at h; obtain ⟨h1, h2⟩ := notNil_some h; exact ⟨Conforms.custom h2 (Or.inr ⟨_, h1⟩), fun _ => h2⟩
    | float z => simp only [coerceLitT] at h; obtain ⟨h1, h2⟩ := notNil_some h; exact ⟨Conforms.custom h2 (Or.inr ⟨_, h1⟩), fun _ => h2⟩
    | str z => simp only [coerceLitT] at h; obtain ⟨h1, h2⟩ := notNil_some h; exact ⟨Conforms.custom h2 (Or.inr ⟨_, h1⟩), fun _ => h2⟩
    | bool z => simp only [coerceLitT] at h; obtain ⟨h1, h2⟩ := notNil_some h; exact ⟨Conforms.custom h2 (Or.inr ⟨_, h1⟩), fun _ => h2⟩
    | enum z => simp only [coerceLitT] at h; obtain ⟨h1, h2⟩ := notNil_some h; exact ⟨Conforms.custom h2 (Or.inr ⟨_, h1⟩), fun _ => h2⟩
    | list z => simp only [coerceLitT] at h; obtain ⟨h1, h2⟩ := notNil_some h; exact ⟨Conforms.custom h2 (Or.inr ⟨_, h1⟩), fun _ => h2⟩
    | obj z => simp only [coerceLitT] at h; obtain ⟨h1, h2⟩ := notNil_some h; exact ⟨Conforms.custom h2 (Or.inr ⟨_, h1⟩), fun _ => h2⟩
  | enum n vals =>
    intro l allow ld x hu h
    cases l with
    | null => simp [coerceLitT, isNonNull] at h; subst h; exact ⟨Conforms.nil rfl, by simp [plain]⟩
    | var v => simp only [coerceLitT] at h; simp only [usageT] at hu; exact ⟨coerceVarRef_conforms hv hu h, by simp [plain]⟩
    | enum z => simp [coerceLitT] at h; obtain ⟨hm, rfl⟩ := h; exact ⟨Conforms.enum (by simpa using hm), fun _ => rfl⟩
    | int z => simp [coerceLitT] at h
    | float z => simp [coerceLitT] at h
    | str z => simp [coerceLitT] at h
    | bool z => simp [coerceLitT] at h
    | list z => simp [coerceLitT] at h
    | obj z => simp [coerceLitT] at h
  | ref n =>
    intro l allow ld x hu h
    cases l with
    | null => simp [coerceLitT, isNonNull] at h; subst h; exact ⟨Conforms.nil rfl, by simp [plain]⟩
    | var v => simp only [coerceLitT] at h; simp only [usageT] at hu; exact ⟨coerceVarRef_conforms hv hu h, by simp [plain]⟩
    | obj lfs =>
      simp only [coerceLitT] at h
      simp only [usageT] at hu
      have := hk n lfs x hu h
      exact ⟨this.1, fun _ => this.2⟩
    | int z => simp [coerceLitT] at h
    | float z => simp [coerceLitT] at h
    | str z => simp [coerceLitT] at h
    | bool z => simp [coerceLitT] at h
    | list z => simp [coerceLitT] at h
    | enum z => simp [coerceLitT] at h
  | list t ih =>
    intro l allow ld x hu h
    have wrap : ∀ (l : Lit) (ld' : Bool), usageT defs ku t ld' l = true →
        (coerceLitT Pm vars k t l true).map (fun y => GoVal.list [y]) = some x →
        Conforms Pm env (.list t) x ∧ x.isNil = false := by
      intro l ld' hu' hj
      obtain ⟨y, hy, rfl⟩ := Option.map_eq_some_iff.mp hj
      refine ⟨Conforms.list ?_, rfl⟩
      intro z hz
      simp at hz; subst hz
      exact (ih l true ld' z hu' hy).1
    have leaf : ∀ (l : Lit), Lit.leaf l = true →
        (if allow = true then (coerceLitT Pm vars k t l true).map (fun y => GoVal.list [y]) else none) = some x →
        Conforms Pm env (.list t) x ∧ (plain l = true → x.isNil = false) := by
      intro l hl hj
      split at hj
      · have := wrap l false (usageT_leaf defs ku t false l hl) hj
        exact ⟨this.1, fun _ => this.2⟩
      · simp at hj
    cases l with
    | null => simp [coerceLitT, isNonNull] at h; subst h; exact ⟨Conforms.nil rfl, by simp [plain]⟩
    | var v => simp only [coerceLitT] at h; simp only [usageT] at hu; exact ⟨coerceVarRef_conforms hv hu h, by simp [plain]⟩
    | list xs =>
      simp only [coerceLitT] at h
      simp only [usageT, List.all_eq_true] at hu
      obtain ⟨ys, hm, rfl⟩ := Option.map_eq_some_iff.mp h
      refine ⟨Conforms.list ?_, fun _ => rfl⟩
      intro y hy
      obtain ⟨x0, hx0m, hx0⟩ := mapAll_some hm y hy
      exact (ih x0 false false y (hu x0 hx0m) hx0).1
    | obj lfs =>
      simp only [coerceLitT] at h
      simp only [usageT] at hu
      split at h
      · have := wrap _ false hu h; exact ⟨this.1, fun _ => this.2⟩
      · simp at h
    | int z => simp only [coerceLitT] at h; exact leaf _ rfl h
    | float z => simp only [coerceLitT] at h; exact leaf _ rfl h
    | str z => simp only [coerceLitT] at h; exact leaf _ rfl h
    | bool z => simp only [coerceLitT] at h; exact leaf _ rfl h
    | enum z => simp only [coerceLitT] at h; exact leaf _ rfl h
  | nonNull t ih =>
    intro l allow ld x hu h
    have inner : ∀ (l : Lit), plain l = true → usageT defs ku t ld l = true →
        coerceLitT Pm vars k t l allow = some x →
        Conforms Pm env (.nonNull t) x ∧ (plain l = true → x.isNil = false) := by
      intro l hp hu' h'
      have := ih l allow ld x hu' h'
      exact ⟨Conforms.nonNull (this.2 hp) this.1, this.2⟩
    cases l with
    | null => simp [coerceLitT, isNonNull] at h
    | var v => simp only [coerceLitT] at h; simp only [usageT] at hu; exact ⟨coerceVarRef_conforms hv hu h, by simp [plain]⟩
    | int z => simp only [coerceLitT] at h; simp only [usageT] at hu; exact inner _ rfl hu h
    | float z => simp only [coerceLitT] at h; simp only [usageT] at hu; exact inner _ rfl hu h
    | str z => simp only [coerceLitT] at h; simp only [usageT] at hu; exact inner _ rfl hu h
    | bool z => simp only [coerceLitT] at h; simp only [usageT] at hu; exact inner _ rfl hu h
    | enum z => simp only [coerceLitT] at h; simp only [usageT] at hu; exact inner _ rfl hu h
    | list z => simp only [coerceLitT] at h; simp only [usageT] at hu; exact inner _ rfl hu h
    | obj z => simp only [coerceLitT] at h; simp only [usageT] at hu; exact inner _ rfl hu h


theorem coerceLitFields_good {Pm : Params} {env : Env} {vars : Vars} {rec : Ty → Lit → Option GoVal}
    {urec : Ty → Bool → Lit → Bool} :
    ∀ (fs : List FieldDef) (lfs : List (String × Lit)) (out : List (String × GoVal)),
      noDupNames (fs.map (·.name)) = true →
      (∀ f ∈ fs, ∀ dv, f.dflt = some dv → Conforms Pm env f.ty dv) →
      (∀ f ∈ fs, ∀ l c ld, urec f.ty ld l = true → rec f.ty l = some c → Conforms Pm env f.ty c) →
      usageFields urec fs lfs = true →
      coerceLitFields vars rec fs lfs = some out → FieldsGood Pm env fs out
  | [], lfs, out, _, _, _, _, h => by
    simp [coerceLitFields] at h; subst h
    exact ⟨by simp, by simp, by simp⟩
  | f :: rest, lfs, out, hnd, hd, hrec, hu, h => by
    obtain ⟨hfresh, hnd'⟩ := noDup_fields_cons hnd
    simp only [usageFields, Bool.and_eq_true, List.all_eq_true] at hu
    simp only [coerceLitFields] at h
    refine addField_good hfresh (hd f (List.mem_cons_self ..)) ?_
      (fun t ht => coerceLitFields_good rest lfs t hnd' (fun g hg => hd g (List.mem_cons_of_mem _ hg))
        (fun g hg => hrec g (List.mem_cons_of_mem _ hg)) hu.2 ht) h
    intro c hc
    obtain ⟨vs, hvs, hcm⟩ := litProvided_some hc
    obtain ⟨p, hp, hpc⟩ := mapAll_some hvs c hcm
    have hpf := List.mem_filter.mp hp
    have hname : (p.1 == f.name) = true := by
      have := hpf.2; simp only [Bool.and_eq_true] at this; exact this.1
    exact hrec f (List.mem_cons_self ..) p.2 c _ (hu.1 p (List.mem_filter.mpr ⟨hpf.1, hname⟩)) hpc

/-- The inside of an object, literal route: by induction on the fuel (usage and coercion consume
    it in lockstep). -/
theorem coerceLitObj_good (Pm : Params) (env : Env) (he : EnvOK Pm env) (hh : HookOK Pm) (defs : List VarDef)
    (vars : Vars) (hv : VarsOK Pm env defs vars) :
    ∀ (fuel : Nat) (n : String) (lfs : List (String × Lit)) (x : GoVal),
      usageObj defs env fuel n lfs = true → coerceLitObj Pm env vars fuel n lfs = some x →
      Conforms Pm env (.ref n) x ∧ x.isNil = false := by
  intro fuel
  induction fuel with
  | zero => intro n lfs x _ h; simp [coerceLitObj] at h
  | succ fuel ih =>
    intro n lfs x hu h
    simp only [coerceLitObj] at h
    simp only [usageObj] at hu
    cases hl : env.lookup n with
    | none => simp [hl] at h
    | some od =>
      simp only [hl] at h hu
      simp only [Bool.and_eq_true] at hu
      split at h
      · cases hf : coerceLitFields vars
            (fun t l => coerceLitT Pm vars (fun n' l' => coerceLitObj Pm env vars fuel n' l') t l true) od.fields lfs with
        | none => simp [hf] at h
        | some out =>
          simp only [hf] at h
          obtain ⟨hnd, hdf⟩ := he n od hl
          have hg : FieldsGood Pm env od.fields out := by
            refine coerceLitFields_good (urec := fun t ld l =>
                usageT defs (fun n' l' => usageObj defs env fuel n' l') t ld l) od.fields lfs out hnd hdf ?_ hu.1 hf
            intro f _ l c ld hul hc
            exact (coerceLitT_good Pm env defs vars hv _ _ (fun n' l' x' hu' hx' => ih n' l' x' hu' hx')
              f.ty l true ld c hul hc).1
          exact finish_good hh hl hg h
      · simp at h

theorem coerceVar_conforms (Pm : Params) (env : Env) (he : EnvOK Pm env) (hh : HookOK Pm) (fuel : Nat) (T : Ty)
    (v : In) (allow : Bool) (x : GoVal) (hw : v.wf = true) (h : coerceVar Pm env fuel T v allow = some x) :
    Conforms Pm env T x :=
  (coerceVarT_good Pm env _ (fun n m x' hwm hx' => coerceVarObj_good Pm env he hh fuel n m x' hwm hx')
    T v allow x hw h).1

theorem coerceLit_conforms (Pm : Params) (env : Env) (he : EnvOK Pm env) (hh : HookOK Pm) (defs : List VarDef)
    (vars : Vars) (hv : VarsOK Pm env defs vars) (fuel : Nat) (T : Ty) (l : Lit) (allow ld : Bool) (x : GoVal)
    (hu : usage defs env fuel T ld l = true) (h : coerceLit Pm env vars fuel T l allow = some x) :
    Conforms Pm env T x :=
  (coerceLitT_good Pm env defs vars hv _ _
    (fun n lfs x' hu' hx' => coerceLitObj_good Pm env he hh defs vars hv fuel n lfs x' hu' hx')
    T l allow ld x hu h).1


/-! ## Closed literals pass the usage rule (given fuel for their depth) -/

open ApiFu.C05 (containsVarL containsVarF containsVarL_false containsVarF_false)

theorem litDepth_le_L : ∀ {xs : List Lit} {x : Lit}, x ∈ xs → litDepth x ≤ litDepthL xs
  | y :: ys, x, hx => by
    simp only [litDepthL]
    rcases List.mem_cons.mp hx with rfl | hx
    · exact Nat.le_max_left ..
    · exact Nat.le_trans (litDepth_le_L hx) (Nat.le_max_right ..)

theorem litDepth_le_F : ∀ {fs : List (String × Lit)} {p : String × Lit}, p ∈ fs → litDepth p.2 ≤ litDepthF fs
  | q :: qs, p, hp => by
    simp only [litDepthF]
    rcases List.mem_cons.mp hp with rfl | hp
    · exact Nat.le_max_left ..
    · exact Nat.le_trans (litDepth_le_F hp) (Nat.le_max_right ..)

theorem usageT_closed (defs : List VarDef) (k : String → List (String × Lit) → Bool) (F : Nat)
    (hk : ∀ n lfs, containsVarF lfs = false → litDepthF lfs + 1 ≤ F → k n lfs = true) :
    ∀ (T : Ty) (ld : Bool) (l : Lit), containsVar l = false → litDepth l ≤ F → usageT defs k T ld l = true := by
  intro T
  induction T with
  | scalar s => intro ld l hc _; cases l <;> simp_all [usageT, containsVar]
  | custom s => intro ld l hc _; cases l <;> simp_all [usageT, containsVar]
  | enum n vs => intro ld l hc _; cases l <;> simp_all [usageT, containsVar]
  | ref n =>
    intro ld l hc hd
    cases l with
    | var v => simp [containsVar] at hc
    | obj lfs => simp only [usageT]; exact hk n lfs (by simpa [containsVar] using hc) (by simpa [litDepth] using hd)
    | null => simp [usageT, containsVar]
    | int z => simp [usageT, containsVar]
    | float z => simp [usageT, containsVar]
    | str z => simp [usageT, containsVar]
    | bool z => simp [usageT, containsVar]
    | enum z => simp [usageT, containsVar]
    | list z => simpa [usageT] using hc
  | list t ih =>
    intro ld l hc hd
    cases l with
    | var v => simp [containsVar] at hc
    | list xs =>
      simp only [usageT, List.all_eq_true]
      intro x hx
      exact ih false x (containsVarL_false (by simpa [containsVar] using hc) x hx)
        (Nat.le_trans (litDepth_le_L hx) (by simpa [litDepth] using hd))
    | obj lfs => simp only [usageT]; exact ih false _ hc hd
    | null => simp [usageT, containsVar]
    | int z => simp [usageT, containsVar]
    | float z => simp [usageT, containsVar]
    | str z => simp [usageT, containsVar]
    | bool z => simp [usageT, containsVar]
    | enum z => simp [usageT, containsVar]
  | nonNull t ih =>
    intro ld l hc hd
    cases l with
    | var v => simp [containsVar] at hc
    | null => simp only [usageT]; exact ih ld _ hc hd
    | int z => simp only [usageT]; exact ih ld _ hc hd
    | float z => simp only [usageT]; exact ih ld _ hc hd
    | str z => simp only [usageT]; exact ih ld _ hc hd
    | bool z => simp only [usageT]; exact ih ld _ hc hd
    | enum z => simp only [usageT]; exact ih ld _ hc hd
    | list z => simp only [usageT]; exact ih ld _ hc hd
    | obj z => simp only [usageT]; exact ih ld _ hc hd

theorem usageFields_of (rec : Ty → Bool → Lit → Bool) : ∀ (fs : List FieldDef) (lfs : List (String × Lit)),
    (∀ f ∈ fs, ∀ p ∈ lfs, rec f.ty (fieldLocDefault f.dflt) p.2 = true) → usageFields rec fs lfs = true
  | [], _, _ => rfl
  | f :: rest, lfs, h => by
    simp only [usageFields, Bool.and_eq_true, List.all_eq_true]
    refine ⟨?_, usageFields_of rec rest lfs (fun g hg => h g (List.mem_cons_of_mem _ hg))⟩
    intro p hp
    exact h f (List.mem_cons_self ..) p (List.mem_filter.mp hp).1

theorem usageObj_closed (defs : List VarDef) (env : Env) :
    ∀ (fuel : Nat) (n : String) (lfs : List (String × Lit)), containsVarF lfs = false → litDepthF lfs + 1 ≤ fuel →
      usageObj defs env fuel n lfs = true := by
  intro fuel
  induction fuel with
  | zero => intro n lfs _ h; omega
  | succ fuel ih =>
    intro n lfs hc hd
    have hcf := containsVarF_false hc
    simp only [usageObj]
    cases env.lookup n with
    | none => simp [hc]
    | some od =>
      simp only [Bool.and_eq_true, List.all_eq_true]
      refine ⟨?_, ?_⟩
      · apply usageFields_of
        intro f _ p hp
        exact usageT_closed defs _ fuel (fun n' l' hc' hd' => ih n' l' hc' hd') f.ty _ p.2 (hcf p hp)
          (Nat.le_trans (litDepth_le_F hp) (by omega))
      · intro p hp; simp [hcf p hp]

theorem usage_closed (defs : List VarDef) (env : Env) (fuel : Nat) (T : Ty) (ld : Bool) (l : Lit)
    (hc : containsVar l = false) (hd : litDepth l ≤ fuel) : usage defs env fuel T ld l = true :=
  usageT_closed defs _ fuel (fun n lfs hc' hd' => usageObj_closed defs env fuel n lfs hc' hd') T ld l hc hd


/-! ## Fuel does not matter beyond the object nesting depth of the value -/

theorem In.depth_le_L : ∀ {xs : List In} {x : In}, x ∈ xs → x.depth ≤ In.depthL xs
  | y :: ys, x, hx => by
    simp only [In.depthL]
    rcases List.mem_cons.mp hx with rfl | hx
    · exact Nat.le_max_left ..
    · exact Nat.le_trans (In.depth_le_L hx) (Nat.le_max_right ..)

theorem In.depth_lookup_le : ∀ {m : List (String × In)} {name : String} {v : In},
    m.lookup name = some v → v.depth ≤ In.depthF m
  | (k, w) :: rest, name, v, h => by
    simp only [List.lookup] at h
    simp only [In.depthF]
    split at h
    · cases h; exact Nat.le_max_left ..
    · exact Nat.le_trans (In.depth_lookup_le h) (Nat.le_max_right ..)

theorem mapAll_congr' {α β : Type} {f g : α → Option β} {xs : List α} (h : ∀ x ∈ xs, f x = g x) :
    mapAll f xs = mapAll g xs := ApiFu.C05.mapAll_congr h

/-- Outside objects: two insides that agree on every object below the value give the same result. -/
theorem coerceVarT_congr (Pm : Params) (k k' : String → List (String × In) → Option GoVal) :
    ∀ (T : Ty) (v : In) (allow : Bool), (∀ n m, In.depthF m + 1 ≤ v.depth → k n m = k' n m) →
      coerceVarT Pm k T v allow = coerceVarT Pm k' T v allow := by
  intro T
  induction T with
  | scalar s => intro v allow _; cases v <;> simp [coerceVarT]
  | custom n => intro v allow _; cases v <;> simp [coerceVarT]
  | enum n vs => intro v allow _; cases v <;> simp [coerceVarT]
  | ref n =>
    intro v allow h
    cases v <;> simp only [coerceVarT]
    exact h n _ (by simp [In.depth])
  | list t ih =>
    intro v allow h
    cases v with
    | list xs =>
      simp only [coerceVarT]
      rw [mapAll_congr' (fun x hx => ih x false (fun n m hm => h n m
        (Nat.le_trans hm (by simpa [In.depth] using In.depth_le_L hx))))]
    | null => simp [coerceVarT]
    | num z => simp only [coerceVarT]; rw [ih _ true h]
    | str z => simp only [coerceVarT]; rw [ih _ true h]
    | bool z => simp only [coerceVarT]; rw [ih _ true h]
    | obj z => simp only [coerceVarT]; rw [ih _ true h]
    | intk kd z => simp only [coerceVarT]; rw [ih _ true h]
    | f32 z => simp only [coerceVarT]; rw [ih _ true h]
    | nonFinite => simp only [coerceVarT]; rw [ih _ true h]
    | jsonNumber z => simp only [coerceVarT]; rw [ih _ true h]
    | bytes z => simp only [coerceVarT]; rw [ih _ true h]
    | other z => simp only [coerceVarT]; rw [ih _ true h]
  | nonNull t ih =>
    intro v allow h
    cases v with
    | null => simp [coerceVarT]
    | list xs => simp only [coerceVarT]; exact ih _ allow h
    | num z => simp only [coerceVarT]; exact ih _ allow h
    | str z => simp only [coerceVarT]; exact ih _ allow h
    | bool z => simp only [coerceVarT]; exact ih _ allow h
    | obj z => simp only [coerceVarT]; exact ih _ allow h
    | intk kd z => simp only [coerceVarT]; exact ih _ allow h
    | f32 z => simp only [coerceVarT]; exact ih _ allow h
    | nonFinite => simp only [coerceVarT]; exact ih _ allow h
    | jsonNumber z => simp only [coerceVarT]; exact ih _ allow h
    | bytes z => simp only [coerceVarT]; exact ih _ allow h
    | other z => simp only [coerceVarT]; exact ih _ allow h

theorem coerceVarFields_congr {rec rec' : Ty → In → Option GoVal} :
    ∀ (fs : List FieldDef) (m : List (String × In)),
      (∀ f ∈ fs, ∀ v, m.lookup f.name = some v → rec f.ty v = rec' f.ty v) →
      coerceVarFields rec fs m = coerceVarFields rec' fs m
  | [], _, _ => rfl
  | f :: rest, m, h => by
    simp only [coerceVarFields]
    rw [coerceVarFields_congr rest m (fun g hg => h g (List.mem_cons_of_mem _ hg))]
    cases hl : m.lookup f.name with
    | none => rfl
    | some v => simp [h f (List.mem_cons_self ..) v hl]

theorem coerceVarObj_fuel (Pm : Params) (env : Env) :
    ∀ (f f' : Nat) (n : String) (m : List (String × In)), In.depthF m + 1 ≤ f → In.depthF m + 1 ≤ f' →
      coerceVarObj Pm env f n m = coerceVarObj Pm env f' n m := by
  intro f
  induction f with
  | zero => intro f' n m h; omega
  | succ f ih =>
    intro f' n m h h'
    cases f' with
    | zero => omega
    | succ f' =>
      simp only [coerceVarObj]
      cases env.lookup n with
      | none => rfl
      | some od =>
        simp only
        rw [coerceVarFields_congr od.fields m]
        intro fd _ v hv
        have hdv := In.depth_lookup_le hv
        exact coerceVarT_congr Pm _ _ fd.ty v true (fun n' m' hm => ih f' n' m' (by omega) (by omega))

/-- **Fuel irrelevance (variable route).** -/
theorem coerceVar_fuel (Pm : Params) (env : Env) (f f' : Nat) (T : Ty) (v : In) (allow : Bool)
    (h : v.depth ≤ f) (h' : v.depth ≤ f') : coerceVar Pm env f T v allow = coerceVar Pm env f' T v allow :=
  coerceVarT_congr Pm _ _ T v allow (fun n m hm => coerceVarObj_fuel Pm env f f' n m (by omega) (by omega))


theorem coerceLitT_congr (Pm : Params) (vars : Vars) (k k' : String → List (String × Lit) → Option GoVal) :
    ∀ (T : Ty) (l : Lit) (allow : Bool), (∀ n lfs, litDepthF lfs + 1 ≤ litDepth l → k n lfs = k' n lfs) →
      coerceLitT Pm vars k T l allow = coerceLitT Pm vars k' T l allow := by
  intro T
  induction T with
  | scalar s => intro l allow _; cases l <;> simp [coerceLitT]
  | custom n => intro l allow _; cases l <;> simp [coerceLitT]
  | enum n vs => intro l allow _; cases l <;> simp [coerceLitT]
  | ref n =>
    intro l allow h
    cases l <;> simp only [coerceLitT]
    exact h n _ (by simp [litDepth])
  | list t ih =>
    intro l allow h
    cases l with
    | list xs =>
      simp only [coerceLitT]
      rw [mapAll_congr' (fun x hx => ih x false (fun n m hm => h n m
        (Nat.le_trans hm (by simpa [litDepth] using litDepth_le_L hx))))]
    | null => simp [coerceLitT]
    | var v => simp [coerceLitT]
    | int z => simp only [coerceLitT]; rw [ih _ true h]
    | float z => simp only [coerceLitT]; rw [ih _ true h]
    | str z => simp only [coerceLitT]; rw [ih _ true h]
    | bool z => simp only [coerceLitT]; rw [ih _ true h]
    | enum z => simp only [coerceLitT]; rw [ih _ true h]
    | obj z => simp only [coerceLitT]; rw [ih _ true h]
  | nonNull t ih =>
    intro l allow h
    cases l with
    | null => simp [coerceLitT]
    | var v => simp [coerceLitT]
    | list xs => simp only [coerceLitT]; exact ih _ allow h
    | int z => simp only [coerceLitT]; exact ih _ allow h
    | float z => simp only [coerceLitT]; exact ih _ allow h
    | str z => simp only [coerceLitT]; exact ih _ allow h
    | bool z => simp only [coerceLitT]; exact ih _ allow h
    | enum z => simp only [coerceLitT]; exact ih _ allow h
    | obj z => simp only [coerceLitT]; exact ih _ allow h

theorem coerceLitFields_congr {vars : Vars} {rec rec' : Ty → Lit → Option GoVal} :
    ∀ (fs : List FieldDef) (lfs : List (String × Lit)),
      (∀ f ∈ fs, ∀ p ∈ lfs, rec f.ty p.2 = rec' f.ty p.2) →
      coerceLitFields vars rec fs lfs = coerceLitFields vars rec' fs lfs
  | [], _, _ => rfl
  | f :: rest, lfs, h => by
    simp only [coerceLitFields]
    rw [coerceLitFields_congr rest lfs (fun g hg => h g (List.mem_cons_of_mem _ hg))]
    rw [mapAll_congr' (fun p hp => h f (List.mem_cons_self ..) p (List.mem_filter.mp hp).1)]

theorem coerceLitObj_fuel (Pm : Params) (env : Env) (vars : Vars) :
    ∀ (f f' : Nat) (n : String) (lfs : List (String × Lit)), litDepthF lfs + 1 ≤ f → litDepthF lfs + 1 ≤ f' →
      coerceLitObj Pm env vars f n lfs = coerceLitObj Pm env vars f' n lfs := by
  intro f
  induction f with
  | zero => intro f' n m h; omega
  | succ f ih =>
    intro f' n lfs h h'
    cases f' with
    | zero => omega
    | succ f' =>
      simp only [coerceLitObj]
      cases env.lookup n with
      | none => rfl
      | some od =>
        simp only
        rw [coerceLitFields_congr od.fields lfs]
        intro fd _ p hp
        have hdv := litDepth_le_F hp
        exact coerceLitT_congr Pm vars _ _ fd.ty p.2 true (fun n' m' hm => ih f' n' m' (by omega) (by omega))

/-- **Fuel irrelevance (literal route).** -/
theorem coerceLit_fuel (Pm : Params) (env : Env) (vars : Vars) (f f' : Nat) (T : Ty) (l : Lit) (allow : Bool)
    (h : litDepth l ≤ f) (h' : litDepth l ≤ f') :
    coerceLit Pm env vars f T l allow = coerceLit Pm env vars f' T l allow :=
  coerceLitT_congr Pm vars _ _ T l allow (fun n m hm => coerceLitObj_fuel Pm env vars f f' n m (by omega) (by omega))

theorem find_self {defs : List ArgDef} (hnd : noDupNames (defs.map (·.name)) = true) {d : ArgDef}
    (hd : d ∈ defs) : ArgDef.find defs d.name = some d := by
  induction defs with
  | nil => simp at hd
  | cons d0 ds ih =>
    obtain ⟨hfresh, hnd'⟩ := noDupNames_cons (by simpa using hnd)
    rcases List.mem_cons.mp hd with rfl | hd
    · simp [ArgDef.find]
    · have hne : (d0.name == d.name) = false := by
        cases hb : d0.name == d.name
        · rfl
        · exfalso; apply hfresh
          have : d0.name = d.name := by simpa using hb
          rw [this]; exact List.mem_map_of_mem hd
      have := ih hnd' hd
      simp only [ArgDef.find] at this ⊢
      simp [hne, this]


end ApiFu.C05.R
