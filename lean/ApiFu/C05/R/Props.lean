/-
  C05, generalised model — property theorems: recursive input object types (type environment +
  fuel), `InputCoercion` hooks and custom scalars as parameters, every Go kind of variable value.

  For every parameter set `Pm` (RFC 3339 parser, hooks, custom coercers), every environment `env`
  of input-object definitions (recursive or not), every fuel.

  Hypotheses that recur:
  * `EnvOK Pm env` — schema well-formed: distinct field names, declared defaults conform;
  * `HookOK Pm` — contract of the hooks: a successful hook does not return Go nil;
  * `v.wf` — a Go integer of kind κ lies in κ's range (it *is* a Go value);
  * `VarsOK`, `usage … = true` — as in ApiFu/C05/Props.lean.
-/
import ApiFu.C05.R.Lemmas

namespace ApiFu.C05.R
open ApiFu.C05 (Scalar GoVal Lit Parse CV Vars containsVar noDupNames collect collect_lookup_find collect_lookup_mem
  lookupLast lookupLast_mem)

/-! ## coerced_conforms -/

/-- **coerced_conforms (variable route, every Go kind, recursive types, hooks, custom scalars).**
    Whatever `coerceVariableValue` returns for *any* Go value a caller can put into
    `Request.VariableValues` conforms to the type: for an input object with a hook it is the hook's
    result on a complete conforming field map, for a custom scalar an output of its coercer. -/
theorem coerced_conforms_variable (Pm : Params) (env : Env) (he : EnvOK Pm env) (hh : HookOK Pm) (fuel : Nat)
    (T : Ty) (v : In) (allow : Bool) (x : GoVal) (hw : v.wf = true)
    (h : coerceVar Pm env fuel T v allow = some x) : Conforms Pm env T x :=
  coerceVar_conforms Pm env he hh fuel T v allow x hw h

/-- **coerced_conforms (literal route with variables).** -/
theorem coerced_conforms_literal_vars (Pm : Params) (env : Env) (he : EnvOK Pm env) (hh : HookOK Pm)
    (defs : List VarDef) (vars : Vars) (hv : VarsOK Pm env defs vars) (fuel : Nat) (T : Ty) (l : Lit)
    (allow ld : Bool) (x : GoVal) (hu : usage defs env fuel T ld l = true)
    (h : coerceLit Pm env vars fuel T l allow = some x) : Conforms Pm env T x :=
  coerceLit_conforms Pm env he hh defs vars hv fuel T l allow ld x hu h

/-- **coerced_conforms (closed literal).** -/
theorem coerced_conforms_literal (Pm : Params) (env : Env) (he : EnvOK Pm env) (hh : HookOK Pm) (fuel : Nat)
    (T : Ty) (l : Lit) (allow : Bool) (x : GoVal) (hc : containsVar l = false) (hd : litDepth l ≤ fuel)
    (h : coerceLit Pm env [] fuel T l allow = some x) : Conforms Pm env T x :=
  coerceLit_conforms Pm env he hh [] [] (fun n v hl => by simp at hl) fuel T l allow false x
    (usage_closed [] env fuel T false l hc hd) h

/-! ## variables_conform / arguments_conform -/

def VarDefsOK (fuel : Nat) (defs : List VarDef) : Prop :=
  noDupNames (defs.map (·.name)) = true ∧
  ∀ d ∈ defs, ∀ l, d.dflt = some l → containsVar l = false ∧ litDepth l ≤ fuel

/-- Raw variable values are Go values. -/
def RawOK (raw : List (String × In)) : Prop := ∀ n v, raw.lookup n = some v → v.wf = true

/-- **variables_conform.** -/
theorem variables_conform (Pm : Params) (env : Env) (he : EnvOK Pm env) (hh : HookOK Pm) (fuel : Nat)
    (defs : List VarDef) (raw : List (String × In)) (vars : Vars) (hd : VarDefsOK fuel defs) (hr : RawOK raw)
    (h : coerceVariableValues Pm env fuel defs raw = some vars) : VarsOK Pm env defs vars := by
  intro n v hl
  obtain ⟨d, hfind, hfd⟩ := collect_lookup_find hd.1 h hl
  refine ⟨d, hfind, ?_⟩
  have hconst := hd.2 d (List.mem_of_find?_eq_some hfind)
  simp only [coerceVariable] at hfd
  cases hrl : raw.lookup d.name with
  | some j =>
    simp only [hrl] at hfd
    obtain ⟨c, hc, hcv⟩ := Option.map_eq_some_iff.mp hfd
    cases hcv
    exact coerceVar_conforms Pm env he hh fuel d.ty j true v (hr _ _ hrl) hc
  | none =>
    simp only [hrl] at hfd
    cases hdf : d.dflt with
    | none =>
      simp only [hdf] at hfd
      split at hfd <;> simp at hfd
    | some l =>
      simp only [hdf] at hfd
      obtain ⟨c, hc, hcv⟩ := Option.map_eq_some_iff.mp hfd
      cases hcv
      exact coerced_conforms_literal Pm env he hh fuel d.ty l true v (hconst l hdf).1 (hconst l hdf).2 hc

def ArgDefsOK (Pm : Params) (env : Env) (defs : List ArgDef) : Prop :=
  noDupNames (defs.map (·.name)) = true ∧
  ∀ d ∈ defs, ∀ dv, d.dflt = some dv → Conforms Pm env d.ty dv

def ArgsConform (Pm : Params) (env : Env) (defs : List ArgDef) (m : List (String × GoVal)) : Prop :=
  ∀ d ∈ defs, (∀ v, m.lookup d.name = some v → Conforms Pm env d.ty v) ∧
    (m.lookup d.name = none → isNonNull d.ty = false ∧ d.dflt = none)

theorem find_self {defs : List ArgDef} (hnd : noDupNames (defs.map (·.name)) = true) {d : ArgDef}
    (hd : d ∈ defs) : ArgDef.find defs d.name = some d := by
  induction defs with
  | nil => simp at hd
  | cons d0 ds ih =>
    obtain ⟨hfresh, hnd'⟩ := ApiFu.C05.noDupNames_cons (by simpa using hnd)
    rcases List.mem_cons.mp hd with rfl | hd
    · simp [ArgDef.find]
    · have hne : (d0.name == d.name) = false := by
        cases hb : d0.name == d.name
        · rfl
        · exfalso; apply hfresh
          have : d0.name = d.name := by simpa using hb
          rw [this]; exact List.mem_map_of_mem hd
      have := ih hnd' hd
      simp only [ArgDef.find] at this ⊢
      simp [hne, this]

/-- **arguments_conform.** -/
theorem arguments_conform (Pm : Params) (fuel : Nat) (c : Case) (vars : Vars)
    (args : List (String × GoVal)) (henv : EnvOK Pm c.env) (hh : HookOK Pm) (hdefs : ArgDefsOK Pm c.env c.argDefs)
    (hv : VarsOK Pm c.env c.varDefs vars) (hvalid : variablesValid fuel c = true)
    (h : coerceArgumentValues Pm c.env fuel vars c.args c.argDefs = some args) :
    ArgsConform Pm c.env c.argDefs args := by
  intro d hd
  have hdflt := hdefs.2 d hd
  have hres := collect_lookup_mem (name := fun (d : ArgDef) => d.name) hdefs.1 h d hd
  simp only [variablesValid, Bool.and_eq_true, List.all_eq_true] at hvalid
  have husage : ∀ l, lookupLast d.name c.args = some l →
      usage c.varDefs c.env fuel d.ty (argLocDefault c.site d.dflt) l = true := by
    intro l hl
    have := hvalid.1.2 (d.name, l) (lookupLast_mem hl)
    simpa [find_self hdefs.1 hd] using this
  simp only [coerceArgument] at hres
  constructor
  · intro v hl
    simp only [hl] at hres
    split at hres
    · cases hdf : d.dflt with
      | some dv => simp only [hdf] at hres; cases hres; exact hdflt v hdf
      | none => simp only [hdf] at hres; split at hres <;> simp at hres
    · cases hav : lookupLast d.name c.args with
      | none => simp [hav] at hres
      | some l =>
        have hu := husage l hav
        simp only [hav] at hres
        have viaLit : (coerceLit Pm c.env vars fuel d.ty l true).map some = some (some v) →
            Conforms Pm c.env d.ty v := by
          intro hm
          obtain ⟨x, hx, hxe⟩ := Option.map_eq_some_iff.mp hm; cases hxe
          exact coerceLit_conforms Pm c.env henv hh c.varDefs vars hv fuel d.ty l true _ v hu hx
        cases l with
        | var n =>
          simp only at hres
          cases hvl : vars.lookup n with
          | none => simp [hvl] at hres
          | some w =>
            simp only [hvl] at hres
            split at hres
            · simp at hres
            · rename_i hnn
              cases hres
              simp only [usage, usageT] at hu
              exact allowed_conforms hv hu hvl (by simpa using hnn)
        | null => exact viaLit hres
        | int z => exact viaLit hres
        | float z => exact viaLit hres
        | str z => exact viaLit hres
        | bool z => exact viaLit hres
        | enum z => exact viaLit hres
        | list z => exact viaLit hres
        | obj z => exact viaLit hres
  · intro hl
    simp only [hl] at hres
    split at hres
    · cases hdf : d.dflt with
      | some dv => simp [hdf] at hres
      | none =>
        simp only [hdf] at hres
        split at hres
        · simp at hres
        · rename_i hnn; exact ⟨by simpa using hnn, rfl⟩
    · cases hav : lookupLast d.name c.args with
      | none => simp [hav] at hres
      | some l =>
        simp only [hav] at hres
        cases l with
        | var n =>
          simp only at hres
          cases hvl : vars.lookup n with
          | none => simp [hvl] at hres
          | some w => simp only [hvl] at hres; split at hres <;> simp at hres
        | null => simp at hres
        | int z => simp at hres
        | float z => simp at hres
        | str z => simp at hres
        | bool z => simp at hres
        | enum z => simp at hres
        | list z => simp at hres
        | obj z => simp at hres

/-- **resolver_invoked_only_with_coerced_arguments.** -/
theorem resolver_invoked_only_with_coerced_arguments (Pm : Params) (fuel : Nat) (c : Case)
    (args : List (String × GoVal)) (h : run Pm fuel c = .invoked args) :
    validate Pm fuel c = true ∧ ∃ vars, coerceVariableValues Pm c.env fuel c.varDefs c.raw = some vars ∧
      coerceArgumentValues Pm c.env fuel vars c.args c.argDefs = some args := by
  simp only [run] at h
  split at h
  · rename_i hval
    refine ⟨hval, ?_⟩
    simp only [coerceCase] at h
    cases hv : coerceVariableValues Pm c.env fuel c.varDefs c.raw with
    | none => simp [hv] at h
    | some vars =>
      cases ha : coerceArgumentValues Pm c.env fuel vars c.args c.argDefs with
      | none => simp [hv, ha] at h
      | some a =>
        refine ⟨vars, rfl, ?_⟩
        simp [hv, ha] at h
        rw [ha, h]
  · simp at h

/-- **observed_arguments_conform (end to end).** Whenever the resolver of a field — or the filter
    of a directive, or (same gate) the cost function — is called, every declared argument conforms:
    recursive input types, hooked types, custom scalars, variable values of any Go kind included. -/
theorem observed_arguments_conform (Pm : Params) (fuel : Nat) (c : Case) (args : List (String × GoVal))
    (henv : EnvOK Pm c.env) (hh : HookOK Pm) (hdefs : ArgDefsOK Pm c.env c.argDefs) (hr : RawOK c.raw)
    (hfuel : ∀ d ∈ c.varDefs, ∀ l, d.dflt = some l → litDepth l ≤ fuel)
    (h : run Pm fuel c = .invoked args) : ArgsConform Pm c.env c.argDefs args := by
  obtain ⟨hval, vars, hvars, hargs⟩ := resolver_invoked_only_with_coerced_arguments Pm fuel c args h
  simp only [validate, Bool.and_eq_true] at hval
  obtain ⟨⟨_, hvalues⟩, hvariables⟩ := hval
  have hvd : VarDefsOK fuel c.varDefs := by
    refine ⟨?_, ?_⟩
    · simp only [variablesValid, Bool.and_eq_true] at hvariables
      exact hvariables.1.1
    · intro d hd l hl
      simp only [valuesValid, Bool.and_eq_true, List.all_eq_true] at hvalues
      have := hvalues.2 d hd
      simp only [hl, Bool.and_eq_true] at this
      exact ⟨by simpa using this.1, hfuel d hd l hl⟩
  exact arguments_conform Pm fuel c vars args henv hh hdefs
    (variables_conform Pm c.env henv hh fuel c.varDefs c.raw vars hvd hr hvars) hvariables hargs

/-! ## default_routes -/

theorem default_routes_argument (Pm : Params) (env : Env) (fuel : Nat) (vars : Vars) (d : ArgDef) (dv : GoVal)
    (av : Option Lit) (hd : d.dflt = some dv) (hav : av = none ∨ ∃ n, av = some (.var n) ∧ vars.lookup n = none) :
    coerceArgument Pm env fuel vars d av = some (some dv) := by
  rcases hav with rfl | ⟨n, rfl, hn⟩ <;> simp [coerceArgument, argHasValue, *]

theorem default_routes_variable (Pm : Params) (env : Env) (fuel : Nat) (raw : List (String × In)) (d : VarDef)
    (l : Lit) (hd : d.dflt = some l) (hraw : raw.lookup d.name = none) :
    coerceVariable Pm env fuel raw d = (coerceLit Pm env [] fuel d.ty l true).map some := by
  simp [coerceVariable, hd, hraw]

/-- **default_routes (input field, also of a recursive type: `e: In = {…}`).** A declared field the
    client supplies nothing for appears with exactly its default — on the variable route, the
    literal route (also when only unset variables are written for it) and in the specification. -/
theorem default_routes_field_variable (rec : Ty → In → Option GoVal) (f : FieldDef) (dv : GoVal)
    (rest : List FieldDef) (m : List (String × In)) (hd : f.dflt = some dv) (h : m.lookup f.name = none) :
    coerceVarFields rec (f :: rest) m = (coerceVarFields rec rest m).map (fun t => (f.name, dv) :: t) := by
  simp [coerceVarFields, h, addField, hd]

theorem default_routes_field_literal (vars : Vars) (rec : Ty → Lit → Option GoVal) (f : FieldDef) (dv : GoVal)
    (rest : List FieldDef) (lfs : List (String × Lit)) (hd : f.dflt = some dv)
    (h : ∀ p ∈ lfs, p.1 = f.name → ApiFu.C05.isUnsetVar vars p.2 = true) :
    coerceLitFields vars rec (f :: rest) lfs
      = (coerceLitFields vars rec rest lfs).map (fun t => (f.name, dv) :: t) := by
  have hf : lfs.filter (fun p => p.1 == f.name && !ApiFu.C05.isUnsetVar vars p.2) = [] := by
    rw [List.filter_eq_nil_iff]
    intro p hp
    by_cases hn : p.1 = f.name
    · simp [hn, h p hp hn]
    · simp [hn]
  simp [coerceLitFields, hf, ApiFu.C05.mapAll, litProvided, addField, hd]

theorem default_routes_field_spec (rec : Ty → CV → Option GoVal) (f : FieldDef) (dv : GoVal)
    (rest : List FieldDef) (m : List (String × CV)) (hd : f.dflt = some dv) (h : m.lookup f.name = none) :
    Spec.coerceFields rec (f :: rest) m = (Spec.coerceFields rec rest m).map (fun t => (f.name, dv) :: t) := by
  simp [Spec.coerceFields, h, addField, hd]

end ApiFu.C05.R
