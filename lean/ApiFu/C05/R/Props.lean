/-
  C05, generalised model — property theorems: recursive input object types (type environment +
  fuel), `InputCoercion` hooks and custom scalars as parameters, every Go kind of variable value.

  For every parameter set `Pm` (RFC 3339 parser, hooks, custom coercers), every environment `env`
  of input-object definitions (recursive or not), every fuel.

  Hypotheses that recur:
  * `EnvOK Pm env` — schema well-formed: distinct field names, declared defaults conform;
  * `HookOK Pm` — contract of the hooks: a successful hook does not return Go nil;
  * `v.wf` — a Go integer of kind κ lies in κ's range (it *is* a Go value);
  * `VarsOK`, `usage … = true` — as in ApiFu/C05/Props.lean.
-/
import ApiFu.C05.R.Lemmas
import ApiFu.C05.R.LemmasSpec
import ApiFu.C05.R.LemmasStatic
import ApiFu.C05.R.Nested

namespace ApiFu.C05.R
open ApiFu.C05 (Scalar GoVal Lit Parse CV Vars containsVar noDupNames collect collect_lookup_find collect_lookup_mem
  lookupLast lookupLast_mem)

/-! ## coerced_conforms -/

/-- **coerced_conforms (variable route, every Go kind, recursive types, hooks, custom scalars).**
    Whatever `coerceVariableValue` returns for *any* Go value a caller can put into
    `Request.VariableValues` conforms to the type: for an input object with a hook it is the hook's
    result on a complete conforming field map, for a custom scalar an output of its coercer. -/
theorem coerced_conforms_variable (Pm : Params) (env : Env) (he : EnvOK Pm env) (hh : HookOK Pm) (fuel : Nat)
    (T : Ty) (v : In) (allow : Bool) (x : GoVal) (hw : v.wf = true)
    (h : coerceVar Pm env fuel T v allow = some x) : Conforms Pm env T x :=
  coerceVar_conforms Pm env he hh fuel T v allow x hw h

/-- **coerced_conforms (literal route with variables).** -/
theorem coerced_conforms_literal_vars (Pm : Params) (env : Env) (he : EnvOK Pm env) (hh : HookOK Pm)
    (defs : List VarDef) (vars : Vars) (hv : VarsOK Pm env defs vars) (fuel : Nat) (T : Ty) (l : Lit)
    (allow ld : Bool) (x : GoVal) (hu : usage defs env fuel T ld l = true)
    (h : coerceLit Pm env vars fuel T l allow = some x) : Conforms Pm env T x :=
  coerceLit_conforms Pm env he hh defs vars hv fuel T l allow ld x hu h

/-- **coerced_conforms (closed literal).** -/
theorem coerced_conforms_literal (Pm : Params) (env : Env) (he : EnvOK Pm env) (hh : HookOK Pm) (fuel : Nat)
    (T : Ty) (l : Lit) (allow : Bool) (x : GoVal) (hc : containsVar l = false) (hd : litDepth l ≤ fuel)
    (h : coerceLit Pm env [] fuel T l allow = some x) : Conforms Pm env T x :=
  coerceLit_conforms Pm env he hh [] [] (fun n v hl => by simp at hl) fuel T l allow false x
    (usage_closed [] env fuel T false l hc hd) h

/-! ## variables_conform / arguments_conform -/

def VarDefsOK (fuel : Nat) (defs : List VarDef) : Prop :=
  noDupNames (defs.map (·.name)) = true ∧
  ∀ d ∈ defs, ∀ l, d.dflt = some l → containsVar l = false ∧ litDepth l ≤ fuel

/-- Raw variable values are Go values. -/
def RawOK (raw : List (String × In)) : Prop := ∀ n v, raw.lookup n = some v → v.wf = true

/-- **variables_conform.** -/
theorem variables_conform (Pm : Params) (env : Env) (he : EnvOK Pm env) (hh : HookOK Pm) (fuel : Nat)
    (defs : List VarDef) (raw : List (String × In)) (vars : Vars) (hd : VarDefsOK fuel defs) (hr : RawOK raw)
    (h : coerceVariableValues Pm env fuel defs raw = some vars) : VarsOK Pm env defs vars := by
  intro n v hl
  obtain ⟨d, hfind, hfd⟩ := collect_lookup_find hd.1 h hl
  refine ⟨d, hfind, ?_⟩
  have hconst := hd.2 d (List.mem_of_find?_eq_some hfind)
  simp only [coerceVariable] at hfd
  cases hrl : raw.lookup d.name with
  | some j =>
    simp only [hrl] at hfd
    obtain ⟨c, hc, hcv⟩ := Option.map_eq_some_iff.mp hfd
    cases hcv
    exact coerceVar_conforms Pm env he hh fuel d.ty j true v (hr _ _ hrl) hc
  | none =>
    simp only [hrl] at hfd
    cases hdf : d.dflt with
    | none =>
      simp only [hdf] at hfd
      split at hfd <;> simp at hfd
    | some l =>
      simp only [hdf] at hfd
      obtain ⟨c, hc, hcv⟩ := Option.map_eq_some_iff.mp hfd
      cases hcv
      exact coerced_conforms_literal Pm env he hh fuel d.ty l true v (hconst l hdf).1 (hconst l hdf).2 hc

def ArgDefsOK (Pm : Params) (env : Env) (defs : List ArgDef) : Prop :=
  noDupNames (defs.map (·.name)) = true ∧
  ∀ d ∈ defs, ∀ dv, d.dflt = some dv → Conforms Pm env d.ty dv

def ArgsConform (Pm : Params) (env : Env) (defs : List ArgDef) (m : List (String × GoVal)) : Prop :=
  ∀ d ∈ defs, (∀ v, m.lookup d.name = some v → Conforms Pm env d.ty v) ∧
    (m.lookup d.name = none → isNonNull d.ty = false ∧ d.dflt = none)

/-- **arguments_conform.** -/
theorem arguments_conform (Pm : Params) (fuel : Nat) (c : Case) (vars : Vars)
    (args : List (String × GoVal)) (henv : EnvOK Pm c.env) (hh : HookOK Pm) (hdefs : ArgDefsOK Pm c.env c.argDefs)
    (hv : VarsOK Pm c.env c.varDefs vars) (hvalid : variablesValid fuel c = true)
    (h : coerceArgumentValues Pm c.env fuel vars c.args c.argDefs = some args) :
    ArgsConform Pm c.env c.argDefs args := by
  intro d hd
  have hdflt := hdefs.2 d hd
  have hres := collect_lookup_mem (name := fun (d : ArgDef) => d.name) hdefs.1 h d hd
  simp only [variablesValid, Bool.and_eq_true, List.all_eq_true] at hvalid
  have husage : ∀ l, lookupLast d.name c.args = some l →
      usage c.varDefs c.env fuel d.ty (argLocDefault c.site d.dflt) l = true := by
    intro l hl
    have := hvalid.1.2 (d.name, l) (lookupLast_mem hl)
    simpa [find_self hdefs.1 hd] using this
  simp only [coerceArgument] at hres
  constructor
  · intro v hl
    simp only [hl] at hres
    split at hres
    · cases hdf : d.dflt with
      | some dv => simp only [hdf] at hres; cases hres; exact hdflt v hdf
      | none => simp only [hdf] at hres; split at hres <;> simp at hres
    · cases hav : lookupLast d.name c.args with
      | none => simp [hav] at hres
      | some l =>
        have hu := husage l hav
        simp only [hav] at hres
        have viaLit : (coerceLit Pm c.env vars fuel d.ty l true).map some = some (some v) →
            Conforms Pm c.env d.ty v := by
          intro hm
          obtain ⟨x, hx, hxe⟩ := Option.map_eq_some_iff.mp hm; cases hxe
          exact coerceLit_conforms Pm c.env henv hh c.varDefs vars hv fuel d.ty l true _ v hu hx
        cases l with
        | var n =>
          simp only at hres
          cases hvl : vars.lookup n with
          | none => simp [hvl] at hres
          | some w =>
            simp only [hvl] at hres
            split at hres
            · simp at hres
            · rename_i hnn
              cases hres
              simp only [usage, usageT] at hu
              exact allowed_conforms hv hu hvl (by simpa using hnn)
        | null => exact viaLit hres
        | int z => exact viaLit hres
        | float z => exact viaLit hres
        | str z => exact viaLit hres
        | bool z => exact viaLit hres
        | enum z => exact viaLit hres
        | list z => exact viaLit hres
        | obj z => exact viaLit hres
  · intro hl
    simp only [hl] at hres
    split at hres
    · cases hdf : d.dflt with
      | some dv => simp [hdf] at hres
      | none =>
        simp only [hdf] at hres
        split at hres
        · simp at hres
        · rename_i hnn; exact ⟨by simpa using hnn, rfl⟩
    · cases hav : lookupLast d.name c.args with
      | none => simp [hav] at hres
      | some l =>
        simp only [hav] at hres
        cases l with
        | var n =>
          simp only at hres
          cases hvl : vars.lookup n with
          | none => simp [hvl] at hres
          | some w => simp only [hvl] at hres; split at hres <;> simp at hres
        | null => simp at hres
        | int z => simp at hres
        | float z => simp at hres
        | str z => simp at hres
        | bool z => simp at hres
        | enum z => simp at hres
        | list z => simp at hres
        | obj z => simp at hres

/-- **resolver_invoked_only_with_coerced_arguments.** -/
theorem resolver_invoked_only_with_coerced_arguments (Pm : Params) (fuel : Nat) (c : Case)
    (args : List (String × GoVal)) (h : run Pm fuel c = .invoked args) :
    validate Pm fuel c = true ∧ ∃ vars, coerceVariableValues Pm c.env fuel c.varDefs c.raw = some vars ∧
      coerceArgumentValues Pm c.env fuel vars c.args c.argDefs = some args := by
  simp only [run] at h
  split at h
  · rename_i hval
    refine ⟨hval, ?_⟩
    simp only [coerceCase] at h
    cases hv : coerceVariableValues Pm c.env fuel c.varDefs c.raw with
    | none => simp [hv] at h
    | some vars =>
      cases ha : coerceArgumentValues Pm c.env fuel vars c.args c.argDefs with
      | none => simp [hv, ha] at h
      | some a =>
        refine ⟨vars, rfl, ?_⟩
        simp [hv, ha] at h
        rw [ha, h]
  · simp at h

/-- **observed_arguments_conform (end to end).** Whenever the resolver of a field — or the filter
    of a directive, or (same gate) the cost function — is called, every declared argument conforms:
    recursive input types, hooked types, custom scalars, variable values of any Go kind included. -/
theorem observed_arguments_conform (Pm : Params) (fuel : Nat) (c : Case) (args : List (String × GoVal))
    (henv : EnvOK Pm c.env) (hh : HookOK Pm) (hdefs : ArgDefsOK Pm c.env c.argDefs) (hr : RawOK c.raw)
    (hfuel : ∀ d ∈ c.varDefs, ∀ l, d.dflt = some l → litDepth l ≤ fuel)
    (h : run Pm fuel c = .invoked args) : ArgsConform Pm c.env c.argDefs args := by
  obtain ⟨hval, vars, hvars, hargs⟩ := resolver_invoked_only_with_coerced_arguments Pm fuel c args h
  simp only [validate, Bool.and_eq_true] at hval
  obtain ⟨⟨_, hvalues⟩, hvariables⟩ := hval
  have hvd : VarDefsOK fuel c.varDefs := by
    refine ⟨?_, ?_⟩
    · simp only [variablesValid, Bool.and_eq_true] at hvariables
      exact hvariables.1.1
    · intro d hd l hl
      simp only [valuesValid, Bool.and_eq_true, List.all_eq_true] at hvalues
      have := hvalues.2 d hd
      simp only [hl, Bool.and_eq_true] at this
      exact ⟨by simpa using this.1, hfuel d hd l hl⟩
  exact arguments_conform Pm fuel c vars args henv hh hdefs
    (variables_conform Pm c.env henv hh fuel c.varDefs c.raw vars hvd hr hvars) hvariables hargs

/-! ## default_routes -/

theorem default_routes_argument (Pm : Params) (env : Env) (fuel : Nat) (vars : Vars) (d : ArgDef) (dv : GoVal)
    (av : Option Lit) (hd : d.dflt = some dv) (hav : av = none ∨ ∃ n, av = some (.var n) ∧ vars.lookup n = none) :
    coerceArgument Pm env fuel vars d av = some (some dv) := by
  rcases hav with rfl | ⟨n, rfl, hn⟩ <;> simp [coerceArgument, argHasValue, *]

theorem default_routes_variable (Pm : Params) (env : Env) (fuel : Nat) (raw : List (String × In)) (d : VarDef)
    (l : Lit) (hd : d.dflt = some l) (hraw : raw.lookup d.name = none) :
    coerceVariable Pm env fuel raw d = (coerceLit Pm env [] fuel d.ty l true).map some := by
  simp [coerceVariable, hd, hraw]

/-- **default_routes (input field, also of a recursive type: `e: In = {…}`).** A declared field the
    client supplies nothing for appears with exactly its default — on the variable route, the
    literal route (also when only unset variables are written for it) and in the specification. -/
theorem default_routes_field_variable (rec : Ty → In → Option GoVal) (f : FieldDef) (dv : GoVal)
    (rest : List FieldDef) (m : List (String × In)) (hd : f.dflt = some dv) (h : m.lookup f.name = none) :
    coerceVarFields rec (f :: rest) m = (coerceVarFields rec rest m).map (fun t => (f.name, dv) :: t) := by
  simp [coerceVarFields, h, addField, hd]

theorem default_routes_field_literal (vars : Vars) (rec : Ty → Lit → Option GoVal) (f : FieldDef) (dv : GoVal)
    (rest : List FieldDef) (lfs : List (String × Lit)) (hd : f.dflt = some dv)
    (h : ∀ p ∈ lfs, p.1 = f.name → ApiFu.C05.isUnsetVar vars p.2 = true) :
    coerceLitFields vars rec (f :: rest) lfs
      = (coerceLitFields vars rec rest lfs).map (fun t => (f.name, dv) :: t) := by
  have hf : lfs.filter (fun p => p.1 == f.name && !ApiFu.C05.isUnsetVar vars p.2) = [] := by
    rw [List.filter_eq_nil_iff]
    intro p hp
    by_cases hn : p.1 = f.name
    · simp [hn, h p hp hn]
    · simp [hn]
  simp [coerceLitFields, hf, ApiFu.C05.mapAll, litProvided, addField, hd]

theorem default_routes_field_spec (rec : Ty → CV → Option GoVal) (f : FieldDef) (dv : GoVal)
    (rest : List FieldDef) (m : List (String × CV)) (hd : f.dflt = some dv) (h : m.lookup f.name = none) :
    Spec.coerceFields rec (f :: rest) m = (Spec.coerceFields rec rest m).map (fun t => (f.name, dv) :: t) := by
  simp [Spec.coerceFields, h, addField, hd]


/-! ## coerce_eq_spec / route_agreement over recursive types, hooks and custom scalars -/

/-- **coerce_eq_spec (literal route).** For every environment (recursive input types included),
    every hook, custom scalars whose literal coercer implements the author's specification `S`:
    `coerceLiteral` of the literal spelling of a client value is the specification's coercion, fuel
    for fuel (and neither depends on the fuel beyond the value's object depth: `fuel_irrelevant_*`). -/
theorem coerce_eq_spec_literal (Pm : Params) (S : Spec.CustomSpec) (cf : String → CV → Bool) (env : Env)
    (hh : HookOK Pm) (hc : CoercersAgree Pm S cf) (fuel : Nat) (T : Ty) (v : CV) (hw : v.wf = true) :
    coerceLit Pm env [] fuel T v.toLit true = Spec.coerce Pm S env fuel T v := by
  have hS : NonNil S := by
    intro n w x hx
    rw [← hc.1 n w] at hx
    exact (notNil_some hx).2
  have := coerceLitT_eq_spec Pm S hc.1 (fun n l => coerceLitObj Pm env [] fuel n l)
    (fun n m => Spec.coerceObj Pm S env fuel n m)
    (fun n m h1 h2 => coerceLitObj_eq_spec Pm S env hh hS hc.1 fuel n m h1 h2) T v true hw
  simpa [coerceLit, Spec.coerce] using this

/-- **coerce_eq_spec (variable route)** on JSON-faithful client values. -/
theorem coerce_eq_spec_variable (Pm : Params) (S : Spec.CustomSpec) (cf : String → CV → Bool) (env : Env)
    (hc : CoercersAgree Pm S cf) (fuel : Nat) (T : Ty) (v : CV) (hw : v.wf = true)
    (hf : jsonFaithful cf env fuel T v = true) :
    coerceVar Pm env fuel T (toIn v) true = Spec.coerce Pm S env fuel T v := by
  have := coerceVarT_eq_spec Pm S cf hc.2 (fun n m => coerceVarObj Pm env fuel n m)
    (fun n m => Spec.coerceObj Pm S env fuel n m) (fun n m => faithfulObj cf env fuel n m)
    (fun n m h1 h2 => coerceVarObj_eq_spec Pm S cf env hc.2 fuel n m h1 h2) T v true hw hf
  simpa [coerceVar, Spec.coerce] using this

/-- **route_agreement.** Literal route = variable route on every JSON-faithful client value, for
    recursive input types, hooked types (the hook sees the same field map on both routes) and custom
    scalars whose two coercers implement one specification. -/
theorem route_agreement (Pm : Params) (S : Spec.CustomSpec) (cf : String → CV → Bool) (env : Env)
    (hh : HookOK Pm) (hc : CoercersAgree Pm S cf) (fuel : Nat) (T : Ty) (v : CV) (hw : v.wf = true)
    (hf : jsonFaithful cf env fuel T v = true) :
    coerceLit Pm env [] fuel T v.toLit true = coerceVar Pm env fuel T (toIn v) true := by
  rw [coerce_eq_spec_literal Pm S cf env hh hc fuel T v hw, coerce_eq_spec_variable Pm S cf env hc fuel T v hw hf]

/-! ## Fuel -/

/-- **fuel_irrelevant (variable route).** Once the fuel reaches the object nesting depth of the
    value the result no longer depends on it: a `none` obtained with that much fuel is a coercion
    error, never "out of fuel" (the driver runs every request with more). -/
theorem fuel_irrelevant_variable (Pm : Params) (env : Env) (f f' : Nat) (T : Ty) (v : In) (allow : Bool)
    (h : v.depth ≤ f) (h' : v.depth ≤ f') : coerceVar Pm env f T v allow = coerceVar Pm env f' T v allow :=
  coerceVar_fuel Pm env f f' T v allow h h'

/-- **fuel_irrelevant (literal route).** -/
theorem fuel_irrelevant_literal (Pm : Params) (env : Env) (vars : Vars) (f f' : Nat) (T : Ty) (l : Lit)
    (allow : Bool) (h : litDepth l ≤ f) (h' : litDepth l ≤ f') :
    coerceLit Pm env vars f T l allow = coerceLit Pm env vars f' T l allow :=
  coerceLit_fuel Pm env vars f f' T l allow h h'

/-! ## Go kinds -/

/-- The client value a Go number / byte slice stands for (an integral float is the integer, as in
    JSON). -/
def denoted : In → Option CV
  | .intk _ z => some (.int z)
  | .num h => some (if h % 2 = 0 then .int (h / 2) else .half h)
  | .f32 h => some (if h % 2 = 0 then .int (h / 2) else .half h)
  | .str s => some (.str s)
  | .bytes s => some (.str s)
  | .bool b => some (.bool b)
  | _ => none

/-- **go_kinds_sound.** Whatever Go kind a caller puts into `Request.VariableValues`, a built-in
    scalar either refuses it or coerces it to exactly what the specification gives for the client
    value it stands for (no wrap-around, no truncation: `uint64(2^64−1)` is not `-1`, `int64(2^40)`
    is not an `Int`); `json.Number`, non-finite floats and every opaque Go value are refused. (Most
    sized kinds are refused by `ID`, `[]byte` by everything but `DateTime` — refusing is allowed;
    apifu's own transports only produce the JSON kinds, for which `route_agreement` is exact.) -/
theorem go_kinds_sound (P : Parse) (k : Scalar) (v : In) (x : GoVal) (hw : v.wf = true)
    (h : scalarVar P k v = some x) :
    ∃ cv, denoted v = some cv ∧ ApiFu.C05.Spec.scalar P k cv = some x := by
  have even : ∀ z : Int, z % 2 = 0 → 2 * (z / 2) = z := by intro z hz; omega
  -- an integral float stands for the integer
  have viaHalf : ∀ (hh : Int) (c : Int → Bool) (mk : Int → GoVal),
      (if hh % 2 = 0 && c (hh / 2) then some (mk (hh / 2)) else none) = some x →
      hh % 2 = 0 ∧ c (hh / 2) = true ∧ mk (hh / 2) = x := by
    intro hh c mk hx
    split at hx
    · rename_i hc; simp only [Bool.and_eq_true, decide_eq_true_eq] at hc; exact ⟨hc.1, hc.2, by simpa using hx⟩
    · simp at hx
  cases k <;> cases v <;> simp only [scalarVar] at h <;> try (simp at h; done)
  case int.num hh =>
    obtain ⟨h1, h2, rfl⟩ := viaHalf hh _ _ h
    exact ⟨_, rfl, by simp [ApiFu.C05.Spec.scalar, h1, h2]⟩
  case int.f32 hh =>
    obtain ⟨h1, h2, rfl⟩ := viaHalf hh _ _ h
    exact ⟨_, rfl, by simp [ApiFu.C05.Spec.scalar, h1, h2]⟩
  case int.intk kd z =>
    split at h
    · rename_i hc; simp at h; subst h; exact ⟨_, rfl, by simp [ApiFu.C05.Spec.scalar, hc]⟩
    · simp at h
  case float.num hh =>
    simp at h; subst h
    refine ⟨_, rfl, ?_⟩
    by_cases hz : hh % 2 = 0 <;> simp [ApiFu.C05.Spec.scalar, hz, even]
  case float.f32 hh =>
    simp at h; subst h
    refine ⟨_, rfl, ?_⟩
    by_cases hz : hh % 2 = 0 <;> simp [ApiFu.C05.Spec.scalar, hz, even]
  case float.intk kd z => simp at h; subst h; exact ⟨_, rfl, by simp [ApiFu.C05.Spec.scalar]⟩
  case string.str s => simp at h; subst h; exact ⟨_, rfl, by simp [ApiFu.C05.Spec.scalar]⟩
  case boolean.bool b => simp at h; subst h; exact ⟨_, rfl, by simp [ApiFu.C05.Spec.scalar]⟩
  case id.num hh =>
    obtain ⟨h1, h2, rfl⟩ := viaHalf hh _ _ h
    exact ⟨_, rfl, by simp [ApiFu.C05.Spec.scalar, h1, h2]⟩
  case id.intk kd z =>
    cases kd <;> simp at h
    subst h
    refine ⟨_, rfl, ?_⟩
    simp only [In.wf, IntKind.lo, IntKind.hi, Bool.and_eq_true] at hw
    have a := of_decide_eq_true hw.1
    have b := of_decide_eq_true hw.2
    have : ApiFu.C05.inInt64 z = true := by
      simp only [ApiFu.C05.inInt64, ApiFu.C05.minInt64, ApiFu.C05.maxInt64, Bool.and_eq_true]
      constructor <;> (apply decide_eq_true; omega)
    simp [ApiFu.C05.Spec.scalar, this]
  case id.str s => simp at h; subst h; exact ⟨_, rfl, by simp [ApiFu.C05.Spec.scalar]⟩
  case dateTime.str s => exact ⟨_, rfl, by simpa [ApiFu.C05.Spec.scalar] using h⟩
  case dateTime.bytes s => exact ⟨_, rfl, by simpa [ApiFu.C05.Spec.scalar] using h⟩
  case longInt.num hh =>
    obtain ⟨h1, h2, rfl⟩ := viaHalf hh _ _ h
    exact ⟨_, rfl, by simp [ApiFu.C05.Spec.scalar, h1, h2]⟩
  case longInt.f32 hh =>
    obtain ⟨h1, h2, rfl⟩ := viaHalf hh _ _ h
    exact ⟨_, rfl, by simp [ApiFu.C05.Spec.scalar, h1, h2]⟩
  case longInt.intk kd z =>
    split at h
    · rename_i hc; simp at h; subst h; exact ⟨_, rfl, by simp [ApiFu.C05.Spec.scalar, hc]⟩
    · simp at h

/-! ## static_agrees -/

/-- **static_agrees.** On literals without variables and without duplicate object fields,
    `validateCoercion` reports no error exactly when `coerceLiteral` succeeds — for recursive input
    types and custom scalars as well. For types with an `InputCoercion` hook the static check cannot
    foresee the hook's own verdict: the equivalence is stated for hooks that do not fail
    (`hooksTotal`); with a failing hook a validated literal is a run-time coercion error (field
    error, resolver not invoked) — see the example below. -/
theorem static_agrees (Pm : Params) (env : Env) (hh : HookOK Pm)
    (hooksTotal : ∀ n m, (Pm.hook n m).isSome = true) (fuel : Nat) (T : Ty) (l : Lit) (allow : Bool)
    (hc : containsVar l = false) (hd : l.noDup = true) :
    validateCoercion Pm env fuel T l allow = true ↔ ∃ x, coerceLit Pm env [] fuel T l allow = some x := by
  rw [validate_eq_coerces Pm env hh hooksTotal fuel T l allow hc hd, Option.isSome_iff_exists]

/-! ## nested_variable -/

/-- **nested_variable.** Over recursive input types, hooked types and custom scalars: a literal with
    variables anywhere inside it (list items, fields of — possibly recursive — input objects, a single
    object given for a list, any depth) coerces exactly like the literal in which every variable is
    replaced by the value the client supplied for it (`inline`; an unset variable is a null item /
    an absent field) — the same Go value (the same hook results), or both fail. `NestedT … NestedObj`
    says each variable's runtime value is the variable route's coercion of the supplied value at the
    type of its position (`VarStandsFor`, with the item side condition explained there); the fuel
    only has to cover the depth of the inlined literal. -/
theorem nested_variable (Pm : Params) (S : Spec.CustomSpec) (cf : String → CV → Bool) (env : Env)
    (hh : HookOK Pm) (hc : CoercersAgree Pm S cf) (F : Nat) (σ : ApiFu.C05.Supplied) (vars : Vars) (T : Ty) (l : Lit)
    (h : NestedT (VarStandsFor Pm cf env F σ vars)
      (fun n lfs => NestedObj (VarStandsFor Pm cf env F σ vars) env F n lfs) T false l)
    (hd : litDepth (ApiFu.C05.inline σ l) ≤ F) :
    coerceLit Pm env vars F T l true = coerceLit Pm env [] F T (ApiFu.C05.inline σ l) true := by
  let C : Ctx := { Pm := Pm, S := S, cf := cf, env := env, hh := hh, hc := hc }
  have := nestedT_eq C F σ vars F (Nat.le_refl F) _
    (fun n lfs hK hd' => nestedObj_eq C F σ vars F (Nat.le_refl F) n lfs hK hd') T l false h hd
  simpa [coerceLit] using this

/-! ## Non-vacuity: a recursive type, a hook, Go kinds -/

/-- `input In { c: [In], e: In, x: Int! = 5 }` with a hook on `H { y: Int }`. -/
def exEnv : Env :=
  [("In", { fields := [{ name := "c", ty := .list (.ref "In"), dflt := none },
                       { name := "e", ty := .ref "In", dflt := none },
                       { name := "x", ty := .nonNull (.scalar .int), dflt := some (.int 5) }], hooked := false }),
   ("H", { fields := [{ name := "y", ty := .scalar .int, dflt := none }], hooked := true })]

def exParams : Params :=
  { parse := fun _ => none,
    hook := fun n m => if m.any (fun p => p.1 == "y" && p.2.isNil) then none else some (.obj [("$fields", .obj m), ("$hook", .str n)]),
    customLit := fun _ _ => none, customVar := fun _ _ => none }

-- a value nested three objects deep, a single object for the list `c`, a uint8 for `x`
example : coerceVar exParams exEnv 3 (.ref "In")
    (.obj [("e", .obj [("x", .intk .u8 7), ("e", .obj [])]), ("c", .obj [])]) true
    = some (.obj [("c", .list [.obj [("x", .int 5)]]),
                  ("e", .obj [("e", .obj [("x", .int 5)]), ("x", .int 7)]), ("x", .int 5)]) := by rfl
-- … the same with more fuel; with too little the driver would say so (it never runs below the depth)
example : coerceVar exParams exEnv 9 (.ref "In") (.obj [("e", .obj [("x", .intk .u8 7), ("e", .obj [])]), ("c", .obj [])]) true
    = coerceVar exParams exEnv 3 (.ref "In") (.obj [("e", .obj [("x", .intk .u8 7), ("e", .obj [])]), ("c", .obj [])]) true := by rfl
-- the hook's result is the value; the hook's error is a coercion error
example : coerceLit exParams exEnv [] 1 (.ref "H") (.obj [("y", .int 2)]) true
    = some (.obj [("$fields", .obj [("y", .int 2)]), ("$hook", .str "H")]) := by rfl
example : coerceLit exParams exEnv [] 1 (.ref "H") (.obj [("y", .null)]) true = none := by rfl
-- … which validation cannot know (necessity of `hooksTotal` in `static_agrees`)
example : validateCoercion exParams exEnv 1 (.ref "H") (.obj [("y", .null)]) true = true := by rfl
-- a variable inside a recursive object inside a list: `{c: [{x: $v}, $w]}` with v ↦ 7, w unset
example : coerceLit exParams exEnv [("v", .int 7)] 3 (.ref "In")
      (.obj [("c", .list [.obj [("x", .var "v")], .var "w"])]) true
    = coerceLit exParams exEnv [] 3 (.ref "In")
      (ApiFu.C05.inline [("v", .int 7)] (.obj [("c", .list [.obj [("x", .var "v")], .var "w"])])) true := by rfl
example : ApiFu.C05.inline [("v", .int 7)] (.obj [("c", .list [.obj [("x", .var "v")], .var "w"])])
    = .obj [("c", .list [.obj [("x", .int 7)], .null])] := by rfl
-- Go kinds: no wrap-around, no truncation
example : scalarVar (fun _ => none) .int (.intk .u64 18446744073709551615) = none := by rfl
example : scalarVar (fun _ => none) .longInt (.intk .u64 9007199254740992) = none := by rfl
example : scalarVar (fun _ => none) .float (.intk .i64 (-3)) = some (.float (-6)) := by rfl
example : scalarVar (fun _ => none) .id (.intk .i32 3) = none := by rfl
example : scalarVar (fun _ => none) .string (.jsonNumber "1") = none := by rfl

end ApiFu.C05.R
