/-
  C05, generalised model: driver functions (parsers and line handlers), used by Main.lean.

    (rcase field|directive <env> <argdefs> <vardefs> <args> <raw>) → (res <outcome> <ungated outcome>) | out-of-fuel
    (rlit <env> <ty> <lit>)   → (ok <goval>) | err
    (rvar <env> <ty> <in>)    → (ok <goval>) | err
    (rspec <env> <ty> <cv>)   → (ok <goval>) | err

    env  := ((Name hooked|plain ((f ty dflt)…))…)
    ty   := Int|Float|String|Boolean|ID|DateTime|LongInt | (custom N) | (enum N (v…)) | (ref N) | (list ty) | (nn ty)
    in   := null | (num h) | (str s) | (bool b) | (list in…) | (obj (k in)…) | (intk kind z) | (f32 h) | (nonfinite nan|pinf|ninf|nan32)
          | (jsonnumber s) | (bytes s) | (other tag)
    kind := i8|u8|i16|u16|i32|u32|i64|u64|int|uint

  The parameters are instantiated with the harness's *symbolic* hook and custom scalars:
    hook N m      = error when some field value is the string "reject" or the int 13,
                    else {"$fields": m, "$hook": N}
    Even          : an even integer (literal IntValue; float64 or any Go integer kind) ↦ {"$scalar":"Even","$value":z}
    Tag           : a non-empty string ↦ {"$scalar":"Tag","$value":s}
-/
import ApiFu.Common.Sexp
import ApiFu.C05.R.Spec

namespace ApiFu.C05.R.Driver
open ApiFu
open ApiFu.C05 (Scalar GoVal Lit CV Parse Site)
open ApiFu.C05.R

def scalarOf : String → Option Scalar
  | "Int" => some .int | "Float" => some .float | "String" => some .string | "Boolean" => some .boolean
  | "ID" => some .id | "DateTime" => some .dateTime | "LongInt" => some .longInt
  | _ => none

def kindOf : String → Option IntKind
  | "i8" => some .i8 | "u8" => some .u8 | "i16" => some .i16 | "u16" => some .u16 | "i32" => some .i32
  | "u32" => some .u32 | "i64" => some .i64 | "u64" => some .u64 | "int" => some .int | "uint" => some .uint
  | _ => none

def kvs {α : Type} (f : Sexp → Option α) (xs : List Sexp) : Option (List (String × α)) :=
  xs.mapM fun (x : Sexp) => match x with
    | Sexp.list [Sexp.atom k, v] => (f v).map (fun v => (k, v))
    | _ => none

partial def goValOf : Sexp → Option GoVal
  | .atom "nil" => some .nil
  | .list [.atom "int", z] => z.int?.map .int
  | .list [.atom "long", z] => z.int?.map .long
  | .list [.atom "float", h] => h.int?.map .float
  | .list [.atom "str", .atom s] => some (.str s)
  | .list [.atom "bool", .atom b] => some (.bool (b == "true"))
  | .list [.atom "time", .atom s] => some (.time s)
  | .list [.atom "enum", .atom n] => some (.enumv n)
  | .list (.atom "list" :: xs) => (xs.mapM goValOf).map .list
  | .list (.atom "obj" :: fs) => (kvs goValOf fs).map .obj
  | _ => none

def dfltOf : Sexp → Option (Option GoVal)
  | .atom "none" => some none
  | .list [.atom "some", v] => (goValOf v).map some
  | _ => none

partial def tyOf : Sexp → Option Ty
  | .atom a => (scalarOf a).map .scalar
  | .list [.atom "custom", .atom n] => some (.custom n)
  | .list [.atom "enum", .atom n, .list vs] => (vs.mapM Sexp.atom?).map (.enum n)
  | .list [.atom "ref", .atom n] => some (.ref n)
  | .list [.atom "list", t] => (tyOf t).map .list
  | .list [.atom "nn", t] => (tyOf t).map .nonNull
  | _ => none

def fieldsOf (xs : List Sexp) : Option (List FieldDef) :=
  xs.mapM fun (x : Sexp) => match x with
    | Sexp.list [Sexp.atom f, t, d] => do
      let t ← tyOf t
      let d ← dfltOf d
      pure { name := f, ty := t, dflt := d }
    | _ => none

def envOf : Sexp → Option Env
  | .list xs => xs.mapM fun (x : Sexp) => match x with
    | Sexp.list [Sexp.atom n, Sexp.atom h, Sexp.list fs] => (fieldsOf fs).map fun fs => (n, { fields := fs, hooked := h == "hooked" })
    | _ => none
  | _ => none

partial def litOf : Sexp → Option Lit
  | .atom "null" => some .null
  | .list [.atom "var", .atom n] => some (.var n)
  | .list [.atom "int", z] => z.int?.map .int
  | .list [.atom "float", h] => h.int?.map .float
  | .list [.atom "str", .atom s] => some (.str s)
  | .list [.atom "bool", .atom b] => some (.bool (b == "true"))
  | .list [.atom "enum", .atom n] => some (.enum n)
  | .list (.atom "list" :: xs) => (xs.mapM litOf).map .list
  | .list (.atom "obj" :: fs) => (kvs litOf fs).map .obj
  | _ => none

partial def inOf : Sexp → Option In
  | .atom "null" => some .null
  | .list [.atom "nonfinite", _] => some .nonFinite
  | .list [.atom "num", h] => h.int?.map .num
  | .list [.atom "str", .atom s] => some (.str s)
  | .list [.atom "bool", .atom b] => some (.bool (b == "true"))
  | .list [.atom "intk", .atom k, z] => do
    let k ← kindOf k
    let z ← z.int?
    pure (.intk k z)
  | .list [.atom "f32", h] => h.int?.map .f32
  | .list [.atom "jsonnumber", .atom s] => some (.jsonNumber s)
  | .list [.atom "bytes", .atom s] => some (.bytes s)
  | .list [.atom "other", .atom s] => some (.other s)
  | .list (.atom "list" :: xs) => (xs.mapM inOf).map .list
  | .list (.atom "obj" :: fs) => (kvs inOf fs).map .obj
  | _ => none

partial def cvOf : Sexp → Option CV
  | .atom "null" => some .null
  | .list [.atom "int", z] => z.int?.map .int
  | .list [.atom "half", h] => h.int?.map .half
  | .list [.atom "str", .atom s] => some (.str s)
  | .list [.atom "bool", .atom b] => some (.bool (b == "true"))
  | .list [.atom "enum", .atom n] => some (.enum n)
  | .list (.atom "list" :: xs) => (xs.mapM cvOf).map .list
  | .list (.atom "obj" :: fs) => (kvs cvOf fs).map .obj
  | _ => none

partial def goValSexp : GoVal → Sexp
  | .nil => .atom "nil"
  | .int z => Sexp.node "int" [Sexp.ofInt z]
  | .long z => Sexp.node "long" [Sexp.ofInt z]
  | .float h => Sexp.node "float" [Sexp.ofInt h]
  | .str s => Sexp.node "str" [.atom s]
  | .bool b => Sexp.node "bool" [Sexp.ofBool b]
  | .time s => Sexp.node "time" [.atom s]
  | .enumv n => Sexp.node "enum" [.atom n]
  | .list xs => Sexp.node "list" (xs.map goValSexp)
  | .obj fs => Sexp.node "obj" (fs.map fun p => .list [.atom p.1, goValSexp p.2])

def pairsOf {α : Type} (f : Sexp → Option α) : Sexp → Option (List (String × α))
  | .list xs => kvs f xs
  | _ => none

def argDefsOf : Sexp → Option (List ArgDef)
  | .list xs => xs.mapM fun (x : Sexp) => match x with
    | Sexp.list [Sexp.atom n, t, d] => do
      let t ← tyOf t
      let d ← dfltOf d
      pure { name := n, ty := t, dflt := d }
    | _ => none
  | _ => none

def varDefsOf : Sexp → Option (List VarDef)
  | .list xs => xs.mapM fun (x : Sexp) => match x with
    | Sexp.list [Sexp.atom n, t, Sexp.atom "none"] => (tyOf t).map fun t => { name := n, ty := t, dflt := none }
    | Sexp.list [Sexp.atom n, t, Sexp.list [Sexp.atom "some", l]] => do
      let t ← tyOf t
      let l ← litOf l
      pure { name := n, ty := t, dflt := some l }
    | _ => none
  | _ => none

/-! The symbolic parameters. -/

def rejects (m : List (String × GoVal)) : Bool :=
  m.any fun p => match p.2 with
    | .str "reject" => true
    | .int 13 => true
    | _ => false

def symHook (n : String) (m : List (String × GoVal)) : Option GoVal :=
  if rejects m then none else some (.obj [("$fields", .obj m), ("$hook", .str n)])

def wrapScalar (n : String) (v : GoVal) : GoVal := .obj [("$scalar", .str n), ("$value", v)]

def symCustomLit : String → Lit → Option GoVal
  | "Even", .int z => if z % 2 = 0 && ApiFu.C05.inInt64 z then some (wrapScalar "Even" (.int z)) else none
  | "Tag", .str s => if s == "" then none else some (wrapScalar "Tag" (.str s))
  | _, _ => none

def symCustomVar : String → In → Option GoVal
  | "Even", .num h => if h % 4 = 0 && ApiFu.C05.inInt64 (h / 2) then some (wrapScalar "Even" (.int (h / 2))) else none
  | "Even", .intk _ z => if z % 2 = 0 && ApiFu.C05.inInt64 z then some (wrapScalar "Even" (.int z)) else none
  | "Tag", .str s => if s == "" then none else some (wrapScalar "Tag" (.str s))
  | _, _ => none

def params (P : Parse) : Params :=
  { parse := P, hook := symHook, customLit := symCustomLit, customVar := symCustomVar }

def symSpec : Spec.CustomSpec
  | "Even", .int z => if z % 2 = 0 && ApiFu.C05.inInt64 z then some (wrapScalar "Even" (.int z)) else none
  | "Tag", .str s => if s == "" then none else some (wrapScalar "Tag" (.str s))
  | _, _ => none

def outcomeSexp : Outcome → Sexp
  | .invalid => .atom "invalid"
  | .reqErr => .atom "reqerr"
  | .fieldErr => .atom "fielderr"
  | .invoked args => Sexp.node "ok" (args.map fun p => .list [.atom p.1, goValSexp p.2])

def resStr : Option GoVal → String
  | some v => toString (Sexp.node "ok" [goValSexp v])
  | none => "err"

/-- Handle one line of the generalised protocol; `none` = not one of ours. -/
def handle (P : Parse) : Sexp → Option String
  | .list [.atom "rcase", .atom site, ev, ad, vd, ar, rw] =>
    match envOf ev, argDefsOf ad, varDefsOf vd, pairsOf litOf ar, pairsOf inOf rw with
    | some ev, some ad, some vd, some ar, some rw =>
      let c : Case := { site := if site == "directive" then .directive else .field, env := ev,
                        argDefs := ad, varDefs := vd, args := ar, raw := rw }
      let fuel := c.fuel + 1
      some (toString (Sexp.node "res" [outcomeSexp (run (params P) fuel c), outcomeSexp (coerceCase (params P) fuel c)]))
    | _, _, _, _, _ => some "bad-op"
  | .list [.atom "rlit", ev, t, l] =>
    match envOf ev, tyOf t, litOf l with
    | some ev, some t, some l => some (resStr (coerceLit (params P) ev [] (litDepth l + 1) t l true))
    | _, _, _ => some "bad-op"
  | .list [.atom "rvar", ev, t, j] =>
    match envOf ev, tyOf t, inOf j with
    | some ev, some t, some j => some (resStr (coerceVar (params P) ev (j.depth + 1) t j true))
    | _, _, _ => some "bad-op"
  | .list [.atom "rspec", ev, t, v] =>
    match envOf ev, tyOf t, cvOf v with
    | some ev, some t, some v => some (resStr (Spec.coerce (params P) symSpec ev (cvDepth v + 1) t v))
    | _, _, _ => some "bad-op"
  | _ => none

end ApiFu.C05.R.Driver
