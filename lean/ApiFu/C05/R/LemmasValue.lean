/-
  C05, generalised model — helpers for `PropsValue.lean`:

  * the *positions* at which a literal uses a variable (`UsedAt`), as TypeInfo computes the expected
    type and the "location has a default" flag on the way down, and the soundness of the model's
    `usage` traversal with respect to them;
  * the fuel-free ("by value") reading of the two coercion routes: the fuel is the object nesting
    depth of the value itself, and the functions satisfy the recursion equations of the Go code with
    no fuel in them.

  Core Lean only.
-/
import ApiFu.C05.R.Lemmas
import ApiFu.C05.R.LemmasSpec
import ApiFu.C05.R.Nested

namespace ApiFu.C05.R
open ApiFu.C05 (Scalar GoVal Lit Parse CV Vars containsVar mapAll)

/-! ## Positions of variable usages -/

/-- `UsedAt env n L ld T b l`: walking the literal `l`, written at a position of expected type `T`
    whose location-default flag is `b`, the way `TypeInfo` does (non-null unwrapped, list literal at a
    list type → items at the item type, object literal at a list type → the single item, object
    literal at an input object type → every written field at the declared field's type with the
    field's default flag), one reaches the variable `$n` at a position of expected type `L` with
    flag `ld`. These are exactly the `(variable, location type, location default)` triples
    `validateVariableUsage` is called with. -/
inductive UsedAt (env : Env) (n : String) (L : Ty) (ld : Bool) : Ty → Bool → Lit → Prop
  | here : UsedAt env n L ld L ld (.var n)
  | nonNull {t : Ty} {b : Bool} {l : Lit} : (∀ m, l ≠ .var m) → UsedAt env n L ld t b l →
      UsedAt env n L ld (.nonNull t) b l
  | item {t : Ty} {b : Bool} {xs : List Lit} {x : Lit} : x ∈ xs → UsedAt env n L ld t false x →
      UsedAt env n L ld (.list t) b (.list xs)
  | single {t : Ty} {b : Bool} {lfs : List (String × Lit)} : UsedAt env n L ld t false (.obj lfs) →
      UsedAt env n L ld (.list t) b (.obj lfs)
  | field {nm : String} {od : ObjDef} {f : FieldDef} {p : String × Lit} {lfs : List (String × Lit)} {b : Bool} :
      env.lookup nm = some od → f ∈ od.fields → p ∈ lfs → p.1 = f.name →
      UsedAt env n L ld f.ty (fieldLocDefault f.dflt) p.2 → UsedAt env n L ld (.ref nm) b (.obj lfs)

theorem usageT_var (defs : List VarDef) (k : String → List (String × Lit) → Bool) (L : Ty) (ld : Bool) (n : String) :
    usageT defs k L ld (.var n) = allowed defs n L ld := by
  cases L <;> simp [usageT]

theorem usageT_nonNull (defs : List VarDef) (k : String → List (String × Lit) → Bool) (t : Ty) (ld : Bool) (l : Lit)
    (h : ∀ m, l ≠ .var m) : usageT defs k (.nonNull t) ld l = usageT defs k t ld l := by
  cases l <;> first | (exact absurd rfl (h _)) | simp [usageT]

theorem usageFields_elim (rec : Ty → Bool → Lit → Bool) : ∀ (fs : List FieldDef) (lfs : List (String × Lit)),
    usageFields rec fs lfs = true → ∀ f ∈ fs, ∀ p ∈ lfs, p.1 = f.name →
      rec f.ty (fieldLocDefault f.dflt) p.2 = true
  | [], _, _, f, hf, _, _, _ => by cases hf
  | g :: rest, lfs, h, f, hf, p, hp, hn => by
    simp only [usageFields, Bool.and_eq_true, List.all_eq_true] at h
    rcases List.mem_cons.mp hf with rfl | hf
    · exact h.1 p (List.mem_filter.mpr ⟨hp, by simp [hn]⟩)
    · exact usageFields_elim rec rest lfs h.2 f hf p hp hn

/-- **Soundness of the traversal.** A literal the variable-usage rule accepts has, at every position
    it uses a variable, a usage `IsVariableUsageAllowed` accepts — at any depth, through recursive
    input object types (whatever fuel the check was run with). -/
theorem usage_sound (defs : List VarDef) (env : Env) {n : String} {L : Ty} {ld : Bool} {T : Ty} {b : Bool} {l : Lit}
    (hp : UsedAt env n L ld T b l) :
    ∀ fuel, usage defs env fuel T b l = true → allowed defs n L ld = true := by
  induction hp with
  | here => intro fuel h; simpa [usage, usageT_var] using h
  | nonNull hl _ ih =>
    intro fuel h
    apply ih fuel
    simpa [usage, usageT_nonNull _ _ _ _ _ hl] using h
  | item hx _ ih =>
    intro fuel h
    apply ih fuel
    simp only [usage, usageT, List.all_eq_true] at h
    exact h _ hx
  | single _ ih =>
    intro fuel h
    apply ih fuel
    simpa [usage, usageT] using h
  | field hl hf hpm hn _ ih =>
    intro fuel h
    simp only [usage, usageT] at h
    cases fuel with
    | zero => simp [usageObj] at h
    | succ fuel =>
      simp only [usageObj, hl, Bool.and_eq_true] at h
      exact ih fuel (usageFields_elim _ _ _ h.1 _ hf _ hpm hn)


/-! ## Every occurrence of a variable in an accepted literal is such a position -/

open ApiFu.C05 (mentions mentionsL mentionsF containsVarL containsVarF)

mutual
theorem mentions_containsVar (n : String) : ∀ (l : Lit), mentions n l = true → containsVar l = true
  | .var _, _ => rfl
  | .list xs, h => by simp only [mentions] at h; simp only [containsVar]; exact mentionsL_containsVar n xs h
  | .obj fs, h => by simp only [mentions] at h; simp only [containsVar]; exact mentionsF_containsVar n fs h
  | .null, h => by simp [mentions] at h
  | .int _, h => by simp [mentions] at h
  | .float _, h => by simp [mentions] at h
  | .str _, h => by simp [mentions] at h
  | .bool _, h => by simp [mentions] at h
  | .enum _, h => by simp [mentions] at h
theorem mentionsL_containsVar (n : String) : ∀ (xs : List Lit), mentionsL n xs = true → containsVarL xs = true
  | [], h => by simp [mentionsL] at h
  | x :: xs, h => by
    simp only [mentionsL, Bool.or_eq_true] at h
    simp only [containsVarL, Bool.or_eq_true]
    rcases h with h | h
    · exact Or.inl (mentions_containsVar n x h)
    · exact Or.inr (mentionsL_containsVar n xs h)
theorem mentionsF_containsVar (n : String) : ∀ (fs : List (String × Lit)), mentionsF n fs = true → containsVarF fs = true
  | [], h => by simp [mentionsF] at h
  | p :: ps, h => by
    simp only [mentionsF, Bool.or_eq_true] at h
    simp only [containsVarF, Bool.or_eq_true]
    rcases h with h | h
    · exact Or.inl (mentions_containsVar n p.2 h)
    · exact Or.inr (mentionsF_containsVar n ps h)
end

theorem mentionsL_exists (n : String) : ∀ (xs : List Lit), mentionsL n xs = true → ∃ x ∈ xs, mentions n x = true
  | [], h => by simp [mentionsL] at h
  | x :: xs, h => by
    simp only [mentionsL, Bool.or_eq_true] at h
    rcases h with h | h
    · exact ⟨x, List.mem_cons_self .., h⟩
    · obtain ⟨y, hy, hm⟩ := mentionsL_exists n xs h
      exact ⟨y, List.mem_cons_of_mem _ hy, hm⟩

theorem mentionsF_exists (n : String) : ∀ (fs : List (String × Lit)), mentionsF n fs = true →
    ∃ p ∈ fs, mentions n p.2 = true
  | [], h => by simp [mentionsF] at h
  | p :: ps, h => by
    simp only [mentionsF, Bool.or_eq_true] at h
    rcases h with h | h
    · exact ⟨p, List.mem_cons_self .., h⟩
    · obtain ⟨q, hq, hm⟩ := mentionsF_exists n ps h
      exact ⟨q, List.mem_cons_of_mem _ hq, hm⟩

theorem hasName_exists {fs : List FieldDef} {nm : String} (h : hasName fs nm = true) : ∃ f ∈ fs, f.name = nm := by
  simp only [hasName, List.any_eq_true, beq_iff_eq] at h
  exact h

/-- Outside objects: every occurrence of `$n` in an accepted literal is a `UsedAt` position, given
    that for the inside of objects (`k`). -/
theorem usageT_covers (defs : List VarDef) (env : Env) (n : String) (k : String → List (String × Lit) → Bool)
    (hk : ∀ nm lfs b, k nm lfs = true → mentionsF n lfs = true → ∃ L ld, UsedAt env n L ld (.ref nm) b (.obj lfs)) :
    ∀ (T : Ty) (b : Bool) (l : Lit), usageT defs k T b l = true → mentions n l = true →
      ∃ L ld, UsedAt env n L ld T b l := by
  have hvar : ∀ (T : Ty) (b : Bool) (m : String), mentions n (.var m) = true → ∃ L ld, UsedAt env n L ld T b (.var m) := by
    intro T b m hm
    simp only [mentions, beq_iff_eq] at hm
    subst hm
    exact ⟨T, b, UsedAt.here⟩
  have hclosed : ∀ (l : Lit), (!containsVar l) = true → mentions n l = true → False := by
    intro l hc hm
    simp [mentions_containsVar n l hm] at hc
  intro T
  induction T with
  | scalar s =>
    intro b l hu hm
    cases l with
    | var m => exact hvar _ b m hm
    | _ => exact (hclosed _ (by simpa [usageT] using hu) hm).elim
  | custom s =>
    intro b l hu hm
    cases l with
    | var m => exact hvar _ b m hm
    | _ => exact (hclosed _ (by simpa [usageT] using hu) hm).elim
  | enum e vs =>
    intro b l hu hm
    cases l with
    | var m => exact hvar _ b m hm
    | _ => exact (hclosed _ (by simpa [usageT] using hu) hm).elim
  | ref nm =>
    intro b l hu hm
    cases l with
    | var m => exact hvar _ b m hm
    | obj lfs => exact hk nm lfs b (by simpa [usageT] using hu) (by simpa [mentions] using hm)
    | _ => exact (hclosed _ (by simpa [usageT] using hu) hm).elim
  | list t ih =>
    intro b l hu hm
    cases l with
    | var m => exact hvar _ b m hm
    | list xs =>
      simp only [usageT, List.all_eq_true] at hu
      obtain ⟨x, hx, hmx⟩ := mentionsL_exists n xs (by simpa [mentions] using hm)
      obtain ⟨L, ld, hp⟩ := ih false x (hu x hx) hmx
      exact ⟨L, ld, UsedAt.item hx hp⟩
    | obj lfs =>
      obtain ⟨L, ld, hp⟩ := ih false (.obj lfs) (by simpa [usageT] using hu) hm
      exact ⟨L, ld, UsedAt.single hp⟩
    | _ => exact (hclosed _ (by simpa [usageT] using hu) hm).elim
  | nonNull t ih =>
    intro b l hu hm
    cases l with
    | var m => exact hvar _ b m hm
    | null => simp [mentions] at hm
    | int z => simp [mentions] at hm
    | float z => simp [mentions] at hm
    | str z => simp [mentions] at hm
    | bool z => simp [mentions] at hm
    | enum z => simp [mentions] at hm
    | list xs =>
      obtain ⟨L, ld, hp⟩ := ih b (.list xs) (by simpa [usageT] using hu) hm
      exact ⟨L, ld, UsedAt.nonNull (by intro m h; cases h) hp⟩
    | obj lfs =>
      obtain ⟨L, ld, hp⟩ := ih b (.obj lfs) (by simpa [usageT] using hu) hm
      exact ⟨L, ld, UsedAt.nonNull (by intro m h; cases h) hp⟩

/-- Inside objects, by induction on the fuel the check ran with. -/
theorem usageObj_covers (defs : List VarDef) (env : Env) (n : String) :
    ∀ (fuel : Nat) (nm : String) (lfs : List (String × Lit)) (b : Bool), usageObj defs env fuel nm lfs = true →
      mentionsF n lfs = true → ∃ L ld, UsedAt env n L ld (.ref nm) b (.obj lfs) := by
  intro fuel
  induction fuel with
  | zero => intro nm lfs b h; simp [usageObj] at h
  | succ fuel ih =>
    intro nm lfs b h hm
    simp only [usageObj] at h
    cases hl : env.lookup nm with
    | none =>
      simp only [hl] at h
      simp [mentionsF_containsVar n lfs hm] at h
    | some od =>
      simp only [hl, Bool.and_eq_true, List.all_eq_true] at h
      obtain ⟨p, hp, hmp⟩ := mentionsF_exists n lfs hm
      have hn : hasName od.fields p.1 = true := by
        have := h.2 p hp
        simpa [mentions_containsVar n p.2 hmp] using this
      obtain ⟨f, hf, hfn⟩ := hasName_exists hn
      have hrec := usageFields_elim _ _ _ h.1 f hf p hp hfn.symm
      obtain ⟨L, ld, hu⟩ := usageT_covers defs env n _ (fun nm' lfs' b' => ih nm' lfs' b') f.ty _ p.2 hrec hmp
      exact ⟨L, ld, UsedAt.field hl hf hp hfn.symm hu⟩

/-! ## The fuel a value needs is its own object nesting depth -/

mutual
theorem depth_toIn : ∀ (v : CV), (toIn v).depth = cvDepth v
  | .null => rfl
  | .int _ => rfl
  | .half _ => rfl
  | .str _ => rfl
  | .bool _ => rfl
  | .enum _ => rfl
  | .list xs => by simp only [toIn, In.depth, cvDepth]; exact depthL_toIn xs
  | .obj fs => by simp only [toIn, In.depth, cvDepth]; rw [depthF_toIn fs]
theorem depthL_toIn : ∀ (xs : List CV), In.depthL (toInL xs) = cvDepthL xs
  | [] => rfl
  | x :: xs => by simp only [toInL, In.depthL, cvDepthL]; rw [depth_toIn x, depthL_toIn xs]
theorem depthF_toIn : ∀ (fs : List (String × CV)), In.depthF (toInF fs) = cvDepthF fs
  | [] => rfl
  | p :: ps => by simp only [toInF, In.depthF, cvDepthF]; rw [depth_toIn p.2, depthF_toIn ps]
end

end ApiFu.C05.R
