/-
  C05, generalised model — theorems "by value" and the tie between validation and coercion.

  Part 1 (recursive input object types without fuel in the statement). The model's object recursion
  is fuelled because input object types may be cyclic (`input In { e: In, c: [In] }`): there is no
  induction on the type. What decreases is the VALUE: `CoerceVariableValue` / `CoerceLiteral` of an
  input object type recurse only into the values written for its fields, and all other steps
  (non-null, list, item-to-list) descend the type over the same or a smaller value. Here the fuel is
  removed from every statement by taking it FROM the value — `coerceVarV T v := coerceVar (depth v) T v`
  — and the termination argument is made explicit:

  * `fuel_is_value_depth_*`: any fuel ≥ the object nesting depth of the value gives this result, so a
    `none` is a coercion error and never "out of fuel";
  * `coerceVarV_object`, `coerceVarV_list`, `coerceLitV_object`, `coerceLitV_list`: the fuel-free
    functions satisfy the recursion equations of the Go code (an object: look the type up, refuse
    unknown keys, coerce the value written for each declared field AT THAT FIELD'S TYPE with the same
    function, apply the hook) — equations in which no fuel and no exhaustion branch occurs: the Go
    recursion terminates on every value for every (cyclic) schema, its call tree is the value's tree;
  * `coerceVarV_fixpoint`: `coerceVarV` is `coerceVarT` (structural in the type, outside objects) with
    ITSELF as the inside of objects — with `coerceVarV_object` a definition by recursion on the value;
  * `objV_good`, `coerced_conforms_by_value_induction`: coerced_conforms for the variable route proved
    by induction on the VALUE (its object nesting depth) through these equations only: an object's
    coercion conforms because the strictly shallower values written for its fields do;
  * `coerceLitV_fixpoint`, `objLitV_good`, `coerced_conforms_literal_by_value_induction`: the same for the
    literal route with variables inside (the usage rule may have run with any fuel);
  * `coerced_conforms_value`, `coerced_conforms_literal_value`, `coerce_eq_spec_*_value`,
    `route_agreement_value`: the property theorems for every type of every environment, recursive or
    not, with no fuel in the statement. The agreement ones are obtained from the fuelled theorems of
    `R/Props.lean` (there the specification consumes fuel in lockstep with the two routes); by the
    first bullet that induction on the fuel is the induction on the object nesting depth of the value.

  Part 2 (variable usages allowed ⇒ no re-check needed). `CoerceArgumentValues` copies the coerced
  value of a variable into the argument map, and `coerceLiteral` copies it into a list / an input
  object, checking nothing but "null at a non-null position". That is sound because of validation:

  * `variable_usage_fits`: in a literal the variable-usage rule accepts, the runtime value of every
    variable conforms to the expected type of EVERY position the variable is used at (`UsedAt`: any
    depth, list items, fields of recursive input objects) — or it is Go nil at a non-null position
    reached through the rule's default-value exception (nullable variable, and the variable or the
    location has a default): exactly the one case the copying code tests for;
  * `every_occurrence_is_a_usage_position`: the rule's walk loses no occurrence of a variable, so the
    positions above are all the places a variable's value is copied to;
  * `default_exception_is_needed`: that case exists (`$v: Int = 1`, `{"v": null}`, location `Int!`);
  * `variable_copy_sound`: what `coerceArgument` copies for `arg: $v` conforms to the argument's type;
  * `validated_document_variables_fit`: end to end for a validated field / directive — from the raw
    request variables through `CoerceVariableValues` to every usage position;
  * `implementer_argument_may_only_widen` / `narrower_implementer_argument_unsound`: the expected
    type validation used must be the type the executor coerces against, up to `areTypesCompatible`
    — why `satisfyInterface` may not let an object narrow an interface's argument type (`[Int!]` for
    `[Int]`): validation sees the interface's definition, the executor the object's.

  For every `Pm`, `env`. Core Lean only.
-/
import ApiFu.C05.R.LemmasValue
import ApiFu.C05.R.Props

namespace ApiFu.C05.R
open ApiFu.C05 (Scalar GoVal Lit Parse CV Vars containsVar noDupNames mapAll mapAll_some lookupLast lookupLast_mem mentions)

/-! ## Part 1 — the fuel is the value -/

/-- `coerceVariableValue`, no fuel: the fuel is the object nesting depth of the value itself. -/
def coerceVarV (Pm : Params) (env : Env) (T : Ty) (v : In) (allow : Bool) : Option GoVal :=
  coerceVar Pm env v.depth T v allow

/-- `coerceLiteral`, no fuel. -/
def coerceLitV (Pm : Params) (env : Env) (vars : Vars) (T : Ty) (l : Lit) (allow : Bool) : Option GoVal :=
  coerceLit Pm env vars (litDepth l) T l allow

/-- The June-2018 specification, no fuel. -/
def specCoerceV (Pm : Params) (S : Spec.CustomSpec) (env : Env) (T : Ty) (v : CV) : Option GoVal :=
  Spec.coerce Pm S env (cvDepth v) T v

/-- JSON-faithfulness of a client value at a type, no fuel. -/
def jsonFaithfulV (cf : String → CV → Bool) (env : Env) (T : Ty) (v : CV) : Bool :=
  jsonFaithful cf env (cvDepth v) T v

/-- **The fuel is the value (variable route).** Every fuel that covers the object nesting depth of
    the value gives `coerceVarV`: the fuelled model never confuses "out of fuel" with a coercion
    error on such a run, and `coerceVarV` is what the Go function returns. -/
theorem fuel_is_value_depth_variable (Pm : Params) (env : Env) (fuel : Nat) (T : Ty) (v : In) (allow : Bool)
    (h : v.depth ≤ fuel) : coerceVar Pm env fuel T v allow = coerceVarV Pm env T v allow :=
  coerceVar_fuel Pm env fuel v.depth T v allow h (Nat.le_refl _)

/-- **The fuel is the value (literal route).** -/
theorem fuel_is_value_depth_literal (Pm : Params) (env : Env) (vars : Vars) (fuel : Nat) (T : Ty) (l : Lit)
    (allow : Bool) (h : litDepth l ≤ fuel) :
    coerceLit Pm env vars fuel T l allow = coerceLitV Pm env vars T l allow :=
  coerceLit_fuel Pm env vars fuel (litDepth l) T l allow h (Nat.le_refl _)

/-- **Recursion equation, input object (variable route): termination made explicit.** For any — also
    a cyclic — environment: the coercion of a map at the input object type `n` looks the type up,
    refuses unknown keys, coerces the value written for each declared field at that field's type *with
    the same fuel-free function*, applies the defaults / required rule and the hook. No fuel and no
    exhaustion branch: every recursive call is on a value written inside `m`. -/
theorem coerceVarV_object (Pm : Params) (env : Env) (n : String) (m : List (String × In)) (allow : Bool) :
    coerceVarV Pm env (.ref n) (.obj m) allow =
      match env.lookup n with
      | none => none
      | some od =>
        if m.all (fun p => hasName od.fields p.1) then
          match coerceVarFields (fun t v => coerceVarV Pm env t v true) od.fields m with
          | none => none
          | some out => finish Pm n od out
        else none := by
  simp only [coerceVarV, coerceVar, coerceVarT, In.depth, coerceVarObj]
  cases env.lookup n with
  | none => rfl
  | some od =>
    simp only
    rw [coerceVarFields_congr (rec' := fun t v => coerceVar Pm env v.depth t v true) od.fields m]
    · rfl
    · intro fd _ v hv
      exact coerceVar_fuel Pm env (In.depthF m) v.depth fd.ty v true (In.depth_lookup_le hv) (Nat.le_refl _)

/-- **Recursion equation, list value at a list type (variable route).** -/
theorem coerceVarV_list (Pm : Params) (env : Env) (t : Ty) (xs : List In) (allow : Bool) :
    coerceVarV Pm env (.list t) (.list xs) allow =
      (mapAll (fun x => coerceVarV Pm env t x false) xs).map GoVal.list := by
  simp only [coerceVarV, coerceVar, coerceVarT, In.depth]
  rw [mapAll_congr']
  intro x hx
  exact coerceVar_fuel Pm env (In.depthL xs) x.depth t x false (In.depth_le_L hx) (Nat.le_refl _)

/-- **Recursion equation, input object (literal route).** -/
theorem coerceLitV_object (Pm : Params) (env : Env) (vars : Vars) (n : String) (lfs : List (String × Lit))
    (allow : Bool) :
    coerceLitV Pm env vars (.ref n) (.obj lfs) allow =
      match env.lookup n with
      | none => none
      | some od =>
        if lfs.all (fun p => hasName od.fields p.1) then
          match coerceLitFields vars (fun t l => coerceLitV Pm env vars t l true) od.fields lfs with
          | none => none
          | some out => finish Pm n od out
        else none := by
  simp only [coerceLitV, coerceLit, coerceLitT, litDepth, coerceLitObj]
  cases env.lookup n with
  | none => rfl
  | some od =>
    simp only
    rw [coerceLitFields_congr (rec' := fun t l => coerceLit Pm env vars (litDepth l) t l true) od.fields lfs]
    · rfl
    · intro fd _ p hp
      exact coerceLit_fuel Pm env vars (litDepthF lfs) (litDepth p.2) fd.ty p.2 true (litDepth_le_F hp) (Nat.le_refl _)

/-- **Recursion equation, list literal at a list type (literal route).** -/
theorem coerceLitV_list (Pm : Params) (env : Env) (vars : Vars) (t : Ty) (xs : List Lit) (allow : Bool) :
    coerceLitV Pm env vars (.list t) (.list xs) allow =
      (mapAll (fun x => coerceLitV Pm env vars t x false) xs).map GoVal.list := by
  simp only [coerceLitV, coerceLit, coerceLitT, litDepth]
  rw [mapAll_congr']
  intro x hx
  exact coerceLit_fuel Pm env vars (litDepthL xs) (litDepth x) t x false (litDepth_le_L hx) (Nat.le_refl _)

/-- **coerced_conforms, by value (variable route).** For every environment — recursive and mutually
    recursive input object types, hooks, custom scalars — every type, every Go value: what the
    variable route returns conforms to the type. No fuel in the statement. -/
theorem coerced_conforms_value (Pm : Params) (env : Env) (he : EnvOK Pm env) (hh : HookOK Pm) (T : Ty) (v : In)
    (allow : Bool) (x : GoVal) (hw : v.wf = true) (h : coerceVarV Pm env T v allow = some x) :
    Conforms Pm env T x :=
  coerced_conforms_variable Pm env he hh v.depth T v allow x hw h

/-- **coerced_conforms, by value (literal route, variables inside).** The literal passed the
    variable-usage rule (run with any fuel) and the variables' values conform to their declared types. -/
theorem coerced_conforms_literal_value (Pm : Params) (env : Env) (he : EnvOK Pm env) (hh : HookOK Pm)
    (defs : List VarDef) (vars : Vars) (hv : VarsOK Pm env defs vars) (T : Ty) (l : Lit) (allow ld : Bool)
    (x : GoVal) (hu : usage defs env (litDepth l) T ld l = true)
    (h : coerceLitV Pm env vars T l allow = some x) : Conforms Pm env T x :=
  coerced_conforms_literal_vars Pm env he hh defs vars hv (litDepth l) T l allow ld x hu h

/-- **coerce_eq_spec, by value (literal route).** -/
theorem coerce_eq_spec_literal_value (Pm : Params) (S : Spec.CustomSpec) (cf : String → CV → Bool) (env : Env)
    (hh : HookOK Pm) (hc : CoercersAgree Pm S cf) (T : Ty) (v : CV) (hw : v.wf = true) :
    coerceLitV Pm env [] T v.toLit true = specCoerceV Pm S env T v := by
  simp only [coerceLitV, specCoerceV, litDepth_toLit]
  exact coerce_eq_spec_literal Pm S cf env hh hc (cvDepth v) T v hw

/-- **coerce_eq_spec, by value (variable route)** on JSON-faithful client values. -/
theorem coerce_eq_spec_variable_value (Pm : Params) (S : Spec.CustomSpec) (cf : String → CV → Bool) (env : Env)
    (hc : CoercersAgree Pm S cf) (T : Ty) (v : CV) (hw : v.wf = true) (hf : jsonFaithfulV cf env T v = true) :
    coerceVarV Pm env T (toIn v) true = specCoerceV Pm S env T v := by
  simp only [coerceVarV, specCoerceV, depth_toIn]
  exact coerce_eq_spec_variable Pm S cf env hc (cvDepth v) T v hw hf

/-- **route_agreement, by value.** For recursive input object types (`In → [In]`, `In → In`), hooked
    types and custom scalars: the literal spelling and the JSON spelling of a JSON-faithful client
    value coerce to the same Go value, or both fail. No fuel in the statement. -/
theorem route_agreement_value (Pm : Params) (S : Spec.CustomSpec) (cf : String → CV → Bool) (env : Env)
    (hh : HookOK Pm) (hc : CoercersAgree Pm S cf) (T : Ty) (v : CV) (hw : v.wf = true)
    (hf : jsonFaithfulV cf env T v = true) :
    coerceLitV Pm env [] T v.toLit true = coerceVarV Pm env T (toIn v) true := by
  rw [coerce_eq_spec_literal_value Pm S cf env hh hc T v hw, coerce_eq_spec_variable_value Pm S cf env hc T v hw hf]

/-! ### coerced_conforms by induction on the value -/

/-- The fuel-free coercion of a map at the input object type `n` (the function `coerceVarV_object`
    unfolds). -/
def objV (Pm : Params) (env : Env) (n : String) (m : List (String × In)) : Option GoVal :=
  coerceVarV Pm env (.ref n) (.obj m) true

theorem objV_eq_fuel (Pm : Params) (env : Env) (n : String) (m : List (String × In)) (fuel : Nat)
    (h : In.depthF m + 1 ≤ fuel) : coerceVarObj Pm env fuel n m = objV Pm env n m := by
  simp only [objV, coerceVarV, coerceVar, coerceVarT, In.depth]
  exact coerceVarObj_fuel Pm env fuel (In.depthF m + 1) n m h (Nat.le_refl _)

/-- **Fixpoint equation.** The fuel-free variable route is `coerceVarT` (the part outside objects,
    structural in the type) with ITSELF as the inside of objects: together with `coerceVarV_object`
    this determines `coerceVarV` by recursion on the value alone. -/
theorem coerceVarV_fixpoint (Pm : Params) (env : Env) (T : Ty) (v : In) (allow : Bool) :
    coerceVarV Pm env T v allow = coerceVarT Pm (objV Pm env) T v allow := by
  simp only [coerceVarV, coerceVar]
  exact coerceVarT_congr Pm _ _ T v allow (fun n m hm => objV_eq_fuel Pm env n m v.depth hm)

/-- The objects of nesting depth `< d`, everything deeper refused: the induction hypothesis of the
    induction on the value's depth as an "inside of objects". -/
def objBelow (Pm : Params) (env : Env) (d : Nat) (n : String) (m : List (String × In)) : Option GoVal :=
  if In.depthF m + 1 ≤ d then objV Pm env n m else none

/-- **coerced_conforms by induction on the VALUE** (its object nesting depth), through the fuel-free
    recursion equations only — no induction on the type environment, no induction on fuel: the
    coercion of a map at an input object type conforms to the type and is not Go nil, provided that
    holds for the (strictly shallower) values written for its fields. -/
theorem objV_good (Pm : Params) (env : Env) (he : EnvOK Pm env) (hh : HookOK Pm) :
    ∀ (d : Nat) (n : String) (m : List (String × In)) (x : GoVal), In.depthF m + 1 ≤ d → In.wfF m = true →
      objV Pm env n m = some x → Conforms Pm env (.ref n) x ∧ x.isNil = false := by
  intro d
  induction d with
  | zero => intro n m x h; omega
  | succ d ih =>
    intro n m x hd hw h
    simp only [objV, coerceVarV_object] at h
    cases hl : env.lookup n with
    | none => simp [hl] at h
    | some od =>
      simp only [hl] at h
      split at h
      · cases hf : coerceVarFields (fun t v => coerceVarV Pm env t v true) od.fields m with
        | none => simp [hf] at h
        | some out =>
          simp only [hf] at h
          obtain ⟨hnd, hdf⟩ := he n od hl
          have hg : FieldsGood Pm env od.fields out := by
            refine coerceVarFields_good od.fields m out hnd hdf ?_ hf
            intro f _ v c hlv hc
            -- the value written for the field is strictly shallower than the object
            have hvd : v.depth ≤ d := by have := In.depth_lookup_le hlv; omega
            rw [coerceVarV_fixpoint, coerceVarT_congr Pm (objV Pm env) (objBelow Pm env d) f.ty v true
              (fun n' m' hm => by simp only [objBelow]; rw [if_pos (by omega)])] at hc
            refine (coerceVarT_good Pm env (objBelow Pm env d) ?_ f.ty v true c (In.wfF_lookup hw hlv) hc).1
            intro n' m' x' hwm hx'
            simp only [objBelow] at hx'
            split at hx'
            · rename_i hle; exact ih n' m' x' hle hwm hx'
            · simp at hx'
          exact finish_good hh hl hg h
      · simp at h

/-- **coerced_conforms, by induction on the value (variable route).** Same statement as
    `coerced_conforms_value`; the proof goes through `coerceVarV_fixpoint` and `objV_good`. -/
theorem coerced_conforms_by_value_induction (Pm : Params) (env : Env) (he : EnvOK Pm env) (hh : HookOK Pm) (T : Ty)
    (v : In) (allow : Bool) (x : GoVal) (hw : v.wf = true) (h : coerceVarV Pm env T v allow = some x) :
    Conforms Pm env T x := by
  rw [coerceVarV_fixpoint] at h
  refine (coerceVarT_good Pm env (objV Pm env) ?_ T v allow x hw h).1
  intro n m x' hwm hx'
  exact objV_good Pm env he hh (In.depthF m + 1) n m x' (Nat.le_refl _) hwm hx'

/-- The fuel-free coercion of an object literal at the input object type `n`. -/
def objLitV (Pm : Params) (env : Env) (vars : Vars) (n : String) (lfs : List (String × Lit)) : Option GoVal :=
  coerceLitV Pm env vars (.ref n) (.obj lfs) true

theorem objLitV_eq_fuel (Pm : Params) (env : Env) (vars : Vars) (n : String) (lfs : List (String × Lit)) (fuel : Nat)
    (h : litDepthF lfs + 1 ≤ fuel) : coerceLitObj Pm env vars fuel n lfs = objLitV Pm env vars n lfs := by
  simp only [objLitV, coerceLitV, coerceLit, coerceLitT, litDepth]
  exact coerceLitObj_fuel Pm env vars fuel (litDepthF lfs + 1) n lfs h (Nat.le_refl _)

/-- **Fixpoint equation (literal route).** -/
theorem coerceLitV_fixpoint (Pm : Params) (env : Env) (vars : Vars) (T : Ty) (l : Lit) (allow : Bool) :
    coerceLitV Pm env vars T l allow = coerceLitT Pm vars (objLitV Pm env vars) T l allow := by
  simp only [coerceLitV, coerceLit]
  exact coerceLitT_congr Pm vars _ _ T l allow (fun n lfs hm => objLitV_eq_fuel Pm env vars n lfs (litDepth l) hm)

def objLitBelow (Pm : Params) (env : Env) (vars : Vars) (d : Nat) (n : String) (lfs : List (String × Lit)) : Option GoVal :=
  if litDepthF lfs + 1 ≤ d then objLitV Pm env vars n lfs else none

/-- `coerceLitFields_good` with the obligation on the recursive call restricted to the literals
    actually written in the object (what an induction on the value can supply). -/
theorem coerceLitFields_good_written {Pm : Params} {env : Env} {vars : Vars} {rec : Ty → Lit → Option GoVal}
    {urec : Ty → Bool → Lit → Bool} :
    ∀ (fs : List FieldDef) (lfs : List (String × Lit)) (out : List (String × GoVal)),
      noDupNames (fs.map (·.name)) = true →
      (∀ f ∈ fs, ∀ dv, f.dflt = some dv → Conforms Pm env f.ty dv) →
      (∀ f ∈ fs, ∀ p ∈ lfs, ∀ c ld, urec f.ty ld p.2 = true → rec f.ty p.2 = some c → Conforms Pm env f.ty c) →
      usageFields urec fs lfs = true →
      coerceLitFields vars rec fs lfs = some out → FieldsGood Pm env fs out
  | [], lfs, out, _, _, _, _, h => by
    simp [coerceLitFields] at h; subst h
    exact ⟨by simp, by simp, by simp⟩
  | f :: rest, lfs, out, hnd, hd, hrec, hu, h => by
    obtain ⟨hfresh, hnd'⟩ := noDup_fields_cons hnd
    simp only [usageFields, Bool.and_eq_true, List.all_eq_true] at hu
    simp only [coerceLitFields] at h
    refine addField_good hfresh (hd f (List.mem_cons_self ..)) ?_
      (fun t ht => coerceLitFields_good_written rest lfs t hnd' (fun g hg => hd g (List.mem_cons_of_mem _ hg))
        (fun g hg => hrec g (List.mem_cons_of_mem _ hg)) hu.2 ht) h
    intro c hc
    obtain ⟨vs, hvs, hcm⟩ := litProvided_some hc
    obtain ⟨p, hp, hpc⟩ := mapAll_some hvs c hcm
    have hpf := List.mem_filter.mp hp
    have hname : (p.1 == f.name) = true := by
      have := hpf.2; simp only [Bool.and_eq_true] at this; exact this.1
    exact hrec f (List.mem_cons_self ..) p hpf.1 c _ (hu.1 p (List.mem_filter.mpr ⟨hpf.1, hname⟩)) hpc

/-- **coerced_conforms for object literals by induction on the VALUE** (the literal's object nesting
    depth), variables inside: the usage rule accepted the literal (with whatever fuel `F`), the
    variables' values conform to their declared types. -/
theorem objLitV_good (Pm : Params) (env : Env) (he : EnvOK Pm env) (hh : HookOK Pm) (defs : List VarDef)
    (vars : Vars) (hv : VarsOK Pm env defs vars) :
    ∀ (d F : Nat) (n : String) (lfs : List (String × Lit)) (x : GoVal), litDepthF lfs + 1 ≤ d →
      usageObj defs env F n lfs = true → objLitV Pm env vars n lfs = some x →
      Conforms Pm env (.ref n) x ∧ x.isNil = false := by
  intro d
  induction d with
  | zero => intro F n lfs x h; omega
  | succ d ih =>
    intro F n lfs x hd hu h
    cases F with
    | zero => simp [usageObj] at hu
    | succ F =>
      simp only [objLitV, coerceLitV_object] at h
      simp only [usageObj] at hu
      cases hl : env.lookup n with
      | none => simp [hl] at h
      | some od =>
        simp only [hl] at h hu
        simp only [Bool.and_eq_true] at hu
        split at h
        · cases hf : coerceLitFields vars (fun t l => coerceLitV Pm env vars t l true) od.fields lfs with
          | none => simp [hf] at h
          | some out =>
            simp only [hf] at h
            obtain ⟨hnd, hdf⟩ := he n od hl
            have hg : FieldsGood Pm env od.fields out := by
              refine coerceLitFields_good_written (urec := fun t ld l =>
                  usageT defs (fun n' l' => usageObj defs env F n' l') t ld l) od.fields lfs out hnd hdf ?_ hu.1 hf
              intro f _ p hp c ld hul hc
              -- the literal written for the field is strictly shallower than the object literal
              have hpd : litDepth p.2 ≤ d := by have := litDepth_le_F hp; omega
              rw [coerceLitV_fixpoint, coerceLitT_congr Pm vars (objLitV Pm env vars) (objLitBelow Pm env vars d) f.ty p.2 true
                (fun n' l' hm => by simp only [objLitBelow]; rw [if_pos (by omega)])] at hc
              refine (coerceLitT_good Pm env defs vars hv (objLitBelow Pm env vars d)
                (fun n' l' => usageObj defs env F n' l') ?_ f.ty p.2 true ld c hul hc).1
              intro n' l' x' hu' hx'
              simp only [objLitBelow] at hx'
              split at hx'
              · rename_i hle; exact ih F n' l' x' hle hu' hx'
              · simp at hx'
            exact finish_good hh hl hg h
        · simp at h

/-- **coerced_conforms, by induction on the value (literal route, variables inside).** Same statement
    as `coerced_conforms_literal_value` for any fuel of the usage check. -/
theorem coerced_conforms_literal_by_value_induction (Pm : Params) (env : Env) (he : EnvOK Pm env) (hh : HookOK Pm)
    (defs : List VarDef) (vars : Vars) (hv : VarsOK Pm env defs vars) (F : Nat) (T : Ty) (l : Lit) (allow ld : Bool)
    (x : GoVal) (hu : usage defs env F T ld l = true) (h : coerceLitV Pm env vars T l allow = some x) :
    Conforms Pm env T x := by
  rw [coerceLitV_fixpoint] at h
  refine (coerceLitT_good Pm env defs vars hv (objLitV Pm env vars) (fun n' l' => usageObj defs env F n' l') ?_
    T l allow ld x hu h).1
  intro n lfs x' hu' hx'
  exact objLitV_good Pm env he hh defs vars hv (litDepthF lfs + 1) F n lfs x' (Nat.le_refl _) hu' hx'

/-- `input In { c: [In], e: In, x: Int! = 5 }`. -/
def vEnv : Env :=
  [("In", { fields := [{ name := "c", ty := .list (.ref "In"), dflt := none },
                       { name := "e", ty := .ref "In", dflt := none },
                       { name := "x", ty := .nonNull (.scalar .int), dflt := some (.int 5) }], hooked := false })]

def vParams : Params :=
  { parse := fun _ => none, hook := fun _ _ => none, customLit := fun _ _ => none, customVar := fun _ _ => none }

/-! ## Part 2 — variable usages allowed ⇒ no re-check needed -/

/-- **Every occurrence is a usage position.** In a literal the variable-usage rule accepts, every
    variable that occurs anywhere in it occurs at a `UsedAt` position — the rule (TypeInfo's walk) loses
    no occurrence: not below a list written for a list type, not in a single object written for a
    list, not in a field of a recursive input object, and a variable below a place without an
    expected type (an unknown field, a list literal at a scalar) makes the rule refuse the literal. So
    `variable_usage_fits` speaks about all the places a variable's value can be copied to. -/
theorem every_occurrence_is_a_usage_position (defs : List VarDef) (env : Env) (fuel : Nat) (T : Ty) (b : Bool)
    (l : Lit) (n : String) (hu : usage defs env fuel T b l = true) (hm : mentions n l = true) :
    ∃ L ld, UsedAt env n L ld T b l :=
  usageT_covers defs env n _ (fun nm lfs b' => usageObj_covers defs env n fuel nm lfs b') T b l hu hm

/-- The default-value exception of `IsVariableUsageAllowed`: a nullable variable at a non-null
    location, let through because the variable or the location has a (non-null) default. -/
def DefaultException (defs : List VarDef) (n : String) (L : Ty) (ld : Bool) : Prop :=
  isNonNull L = true ∧
  ∃ d, defs.find? (fun d => d.name == n) = some d ∧ isNonNull d.ty = false ∧ (d.hasNonNullDefault || ld) = true

/-- **variable_usage_fits.** A literal accepted by the variable-usage rule, variables whose runtime
    values conform to their declared types (`variables_conform`): at EVERY position `(L, ld)` the
    literal uses `$n` (`UsedAt`: directly, as a list item, as a field of an — also recursive — input
    object, at any depth) the variable's runtime value conforms to the expected type `L` of that
    position, so copying it there needs no second coercion. The only other possibility is Go nil at a
    non-null `L`, and then only through the rule's default-value exception — the one thing
    `CoerceArgumentValues` / `coerceLiteral` test before they copy. -/
theorem variable_usage_fits (Pm : Params) (env : Env) (defs : List VarDef) (vars : Vars)
    (hv : VarsOK Pm env defs vars) (fuel : Nat) {T : Ty} {b : Bool} {l : Lit} {n : String} {L : Ty} {ld : Bool}
    {v : GoVal} (hu : usage defs env fuel T b l = true) (hp : UsedAt env n L ld T b l)
    (hl : vars.lookup n = some v) :
    Conforms Pm env L v ∨ (v = .nil ∧ DefaultException defs n L ld) := by
  have ha := usage_sound defs env hp fuel hu
  cases hnn : (v.isNil && isNonNull L) with
  | false => exact Or.inl (allowed_conforms hv ha hl hnn)
  | true =>
    simp only [Bool.and_eq_true] at hnn
    have hvn : v = .nil := by cases v <;> simp [GoVal.isNil] at hnn ⊢
    subst hvn
    refine Or.inr ⟨rfl, hnn.2, ?_⟩
    obtain ⟨d, hd, hc⟩ := hv n .nil hl
    refine ⟨d, hd, ?_⟩
    have hdn : isNonNull d.ty = false := by
      cases hdt : d.ty with
      | nonNull t => rw [hdt] at hc; exact absurd (conforms_nonNull_inv hc).1 (by simp [GoVal.isNil])
      | _ => rfl
    refine ⟨hdn, ?_⟩
    cases L with
    | nonNull L' =>
      simp only [allowed, hd, hdn] at ha
      simp only [Bool.false_eq_true, if_false, Bool.and_eq_true] at ha
      exact ha.1
    | _ => simp [isNonNull] at hnn

/-- **The default-value exception is needed in the statement**: `query ($v: Int = 1) { f(a: $v) }`
    with `{"v": null}` and `a: Int!` — the usage is allowed, the variable's runtime value is Go nil,
    the position is non-null (F-05a; the copying code's null test is what keeps the resolver safe). -/
theorem default_exception_is_needed :
    let defs : List VarDef := [{ name := "v", ty := .scalar .int, dflt := some (.int 1) }]
    usage defs [] 0 (.nonNull (.scalar .int)) false (.var "v") = true
    ∧ coerceVariableValues vParams [] 0 defs [("v", .null)] = some [("v", .nil)]
    ∧ DefaultException defs "v" (.nonNull (.scalar .int)) false := by
  refine ⟨by decide, rfl, rfl, ?_⟩
  exact ⟨_, rfl, rfl, rfl⟩

/-- **variable_copy_sound.** `arg: $n` — `coerceArgument` copies the variable's coerced value after
    the null test only; under a validated usage the copied value conforms to the ARGUMENT's type. -/
theorem variable_copy_sound (Pm : Params) (env : Env) (defs : List VarDef) (vars : Vars)
    (hv : VarsOK Pm env defs vars) (fuel fuel' : Nat) (d : ArgDef) (ld : Bool) (n : String) (x : GoVal)
    (hu : usage defs env fuel d.ty ld (.var n) = true) (hl : (vars.lookup n).isSome = true)
    (h : coerceArgument Pm env fuel' vars d (some (.var n)) = some (some x)) : Conforms Pm env d.ty x := by
  obtain ⟨v, hlv⟩ := Option.isSome_iff_exists.mp hl
  simp only [coerceArgument, argHasValue, hlv, Option.isSome_some, Bool.not_true, Bool.false_eq_true, if_false] at h
  split at h
  · simp at h
  · rename_i hnn
    simp only [Option.some.injEq] at h
    subst h
    rcases variable_usage_fits Pm env defs vars hv fuel hu UsedAt.here hlv with hc | ⟨hnil, hex, _⟩
    · exact hc
    · subst hnil; simp [GoVal.isNil, hex] at hnn

/-- **validated_document_variables_fit.** End to end for one validated field / directive: the request's
    raw variable values (any Go values), the document's variable definitions (constant defaults),
    `CoerceVariableValues` succeeded, `validateVariables` accepted the arguments. Then for every
    written argument and every position inside its literal that uses a variable with a runtime value,
    that value conforms to the expected type of the position — or is Go nil at a non-null position
    under the default-value exception. -/
theorem validated_document_variables_fit (Pm : Params) (fuel : Nat) (c : Case) (vars : Vars)
    (henv : EnvOK Pm c.env) (hh : HookOK Pm) (hdefs : ArgDefsOK Pm c.env c.argDefs)
    (hvd : VarDefsOK fuel c.varDefs) (hr : RawOK c.raw)
    (hvars : coerceVariableValues Pm c.env fuel c.varDefs c.raw = some vars)
    (hvalid : variablesValid fuel c = true)
    {d : ArgDef} (hd : d ∈ c.argDefs) {l : Lit} (hal : lookupLast d.name c.args = some l)
    {n : String} {L : Ty} {ld : Bool} {v : GoVal}
    (hp : UsedAt c.env n L ld d.ty (argLocDefault c.site d.dflt) l) (hl : vars.lookup n = some v) :
    Conforms Pm c.env L v ∨ (v = .nil ∧ DefaultException c.varDefs n L ld) := by
  have hv := variables_conform Pm c.env henv hh fuel c.varDefs c.raw vars hvd hr hvars
  simp only [variablesValid, Bool.and_eq_true, List.all_eq_true] at hvalid
  have hu : usage c.varDefs c.env fuel d.ty (argLocDefault c.site d.dflt) l = true := by
    have := hvalid.1.2 (d.name, l) (lookupLast_mem hal)
    simpa [find_self hdefs.1 hd] using this
  exact variable_usage_fits Pm c.env c.varDefs vars hv fuel hu hp hl

/-- **An implementer's argument type may only be WIDER than the type validation used.** If the
    executor coerces against `O` where validation checked usages against `I` (an object type's field
    run through a selection on an interface), everything stays sound when `areTypesCompatible I O`:
    a value fitting a position of type `I` fits `O`. -/
theorem implementer_argument_may_only_widen (Pm : Params) (env : Env) (I O : Ty) (x : GoVal)
    (h : compat I O = true) (hx : Conforms Pm env I x) : Conforms Pm env O x :=
  compat_conforms I O x h hx

/-- **… and not narrower**: `[1, null]` fits the interface's `ids: [Int]` (so `$v: [Int]` is a valid
    usage and is copied), and does not fit an implementer's `ids: [Int!]`. This is why
    `ObjectType.satisfyInterface` must demand the same argument type (seeded change C05-22). -/
theorem narrower_implementer_argument_unsound (Pm : Params) (env : Env) :
    Conforms Pm env (.list (.scalar .int)) (.list [.int 1, .nil])
    ∧ ¬ Conforms Pm env (.list (.nonNull (.scalar .int))) (.list [.int 1, .nil]) := by
  constructor
  · refine Conforms.list (fun y hy => ?_)
    simp only [List.mem_cons, List.not_mem_nil, or_false] at hy
    rcases hy with rfl | rfl
    · exact Conforms.scalar rfl
    · exact Conforms.nil rfl
  · intro h
    rcases conforms_list_inv h with h0 | ⟨xs, hxs, hall⟩
    · cases h0
    · cases hxs
      exact absurd (conforms_nonNull_inv (hall .nil (by simp))).1 (by simp [GoVal.isNil])

/-! ## Non-vacuity -/

-- the fuel-free function on a value three objects deep (In → In → In, a single object for `c: [In]`)
example : coerceVarV vParams vEnv (.ref "In")
    (.obj [("e", .obj [("x", .num 14), ("e", .obj [])]), ("c", .obj [])]) true
    = some (.obj [("c", .list [.obj [("x", .int 5)]]),
                  ("e", .obj [("e", .obj [("x", .int 5)]), ("x", .int 7)]), ("x", .int 5)]) := by rfl

-- `{c: [{x: $v}], e: {e: {x: $w}}}`: `$v` and `$w` are used at `Int!` with the field's default flag,
-- `$v` inside a list item of a recursive field, `$w` two objects down
example : UsedAt vEnv "v" (.nonNull (.scalar .int)) true (.ref "In") false
    (.obj [("c", .list [.obj [("x", .var "v")]]), ("e", .obj [("e", .obj [("x", .var "w")])])]) := by
  refine UsedAt.field (nm := "In") (f := { name := "c", ty := .list (.ref "In"), dflt := none })
    (p := ("c", .list [.obj [("x", .var "v")]])) (od := _) rfl ?_ ?_ rfl ?_
  · simp
  · simp
  · refine UsedAt.item (x := .obj [("x", .var "v")]) (by simp) ?_
    refine UsedAt.field (nm := "In") (f := { name := "x", ty := .nonNull (.scalar .int), dflt := some (.int 5) })
      (p := ("x", .var "v")) (od := _) rfl ?_ ?_ rfl UsedAt.here
    · simp
    · simp

-- the usage rule accepts it for `$v: Int!`, `$w: Int` (the field `x` has a default), fuel = its depth
example : usage [{ name := "v", ty := .nonNull (.scalar .int), dflt := none }, { name := "w", ty := .scalar .int, dflt := none }]
    vEnv 3 (.ref "In") false
    (.obj [("c", .list [.obj [("x", .var "v")]]), ("e", .obj [("e", .obj [("x", .var "w")])])]) = true := by decide

end ApiFu.C05.R
