/-
  C05, generalised model: the two routes equal the specification (helper lemmas).
-/
import ApiFu.C05.R.Lemmas

namespace ApiFu.C05.R
open ApiFu.C05 (Scalar GoVal Lit Parse mapAll CV Vars mapAll_some mapAll_congr mapAll_map noDupKeys
  toLitL_eq_map wfL_forall wfF_lookup filter_toLitF toLit_not_var scalar_coerceLit_eq_spec)

theorem all_hasName_toLitF (fs : List FieldDef) : ∀ (m : List (String × CV)),
    (CV.toLitF m).all (fun p => hasName fs p.1) = m.all (fun p => hasName fs p.1)
  | [] => rfl
  | p :: ps => by simp [CV.toLitF, all_hasName_toLitF fs ps]

theorem litProvided_single {ty : Ty} {c : GoVal} (h : isNonNull ty = true → c.isNil = false) :
    litProvided ty (some [c]) = some (some c) := by
  simp only [litProvided, List.getLast?_singleton]
  split
  · rename_i hcn
    simp only [Bool.and_eq_true] at hcn
    simp [h hcn.2] at hcn
  · rfl

/-- Results of the inside of objects and of custom scalars are never Go nil. -/
def NonNil {α : Type} (k : String → α → Option GoVal) : Prop := ∀ n m x, k n m = some x → x.isNil = false

theorem spec_scalar_not_nil (P : Parse) (s : Scalar) (v : CV) (x : GoVal)
    (h : ApiFu.C05.Spec.scalar P s v = some x) : x.isNil = false :=
  (ApiFu.C05.spec_scalar_shape P s v x h).2

theorem specT_not_nil (P : Parse) (S : Spec.CustomSpec) (ks : String → List (String × CV) → Option GoVal)
    (hS : NonNil S) (hks : NonNil ks) :
    ∀ (T : Ty) (v : CV) (x : GoVal), v.isNull = false → Spec.coerceT P S ks T v = some x → x.isNil = false := by
  intro T
  induction T with
  | scalar s => intro v x hv h; cases v <;> simp [Spec.coerceT, CV.isNull] at h hv <;> exact spec_scalar_not_nil P s _ x h
  | custom n => intro v x hv h; cases v <;> simp [Spec.coerceT, CV.isNull] at h hv <;> exact hS n _ x h
  | enum n vals =>
    intro v x hv h
    cases v <;> simp [Spec.coerceT, CV.isNull] at h hv
    obtain ⟨_, rfl⟩ := h; rfl
  | ref n => intro v x hv h; cases v <;> simp [Spec.coerceT, CV.isNull] at h hv; exact hks n _ x h
  | list t _ =>
    intro v x hv h
    cases v <;> simp [Spec.coerceT, CV.isNull] at h hv
    all_goals first
      | (obtain ⟨y, _, rfl⟩ := h; rfl)
      | (obtain ⟨_, y, _, rfl⟩ := h; rfl)
  | nonNull t ih =>
    intro v x hv h
    simp only [Spec.coerceT, hv] at h
    exact ih v x hv (by simpa using h)

theorem specT_nonNull_not_nil (P : Parse) (S : Spec.CustomSpec) (ks : String → List (String × CV) → Option GoVal)
    (hS : NonNil S) (hks : NonNil ks) {T : Ty} {v : CV} {c : GoVal} (hnn : isNonNull T = true)
    (h : Spec.coerceT P S ks T v = some c) : c.isNil = false := by
  cases T <;> simp [isNonNull] at hnn
  rename_i t
  simp only [Spec.coerceT] at h
  split at h
  · simp at h
  · rename_i hv
    exact specT_not_nil P S ks hS hks t v c (by simpa using hv) h

/-- Literal route outside objects = specification outside objects, when the insides correspond. -/
theorem coerceLitT_eq_spec (Pm : Params) (S : Spec.CustomSpec)
    (hlit : ∀ n v, notNil (Pm.customLit n (CV.toLit v)) = S n v)
    (k : String → List (String × Lit) → Option GoVal) (ks : String → List (String × CV) → Option GoVal)
    (hk : ∀ n m, noDupKeys m = true → CV.wfF m = true → k n (CV.toLitF m) = ks n m) :
    ∀ (T : Ty) (v : CV) (allow : Bool), v.wf = true →
      coerceLitT Pm [] k T v.toLit allow
        = if allow then Spec.coerceT Pm.parse S ks T v
          else (if isListish T && !(v.isList || v.isNull) then none else Spec.coerceT Pm.parse S ks T v) := by
  intro T
  induction T with
  | scalar s =>
    intro v allow _
    cases v <;> cases allow <;>
      simp [coerceLitT, CV.toLit, Spec.coerceT, isListish, isNonNull, ← scalar_coerceLit_eq_spec]
  | custom n =>
    intro v allow _
    have := hlit n v
    cases v <;> cases allow <;> simp_all [coerceLitT, CV.toLit, Spec.coerceT, isListish, isNonNull]
  | enum n vals =>
    intro v allow _
    cases v <;> cases allow <;> simp [coerceLitT, CV.toLit, Spec.coerceT, isListish, isNonNull]
  | ref n =>
    intro v allow hw
    cases v with
    | obj m =>
      simp only [CV.wf, Bool.and_eq_true] at hw
      have := hk n m hw.1 hw.2
      cases allow <;> simp [coerceLitT, CV.toLit, Spec.coerceT, isListish, this]
    | null => cases allow <;> simp [coerceLitT, CV.toLit, Spec.coerceT, isListish, isNonNull]
    | int z => cases allow <;> simp [coerceLitT, CV.toLit, Spec.coerceT, isListish]
    | half z => cases allow <;> simp [coerceLitT, CV.toLit, Spec.coerceT, isListish]
    | str z => cases allow <;> simp [coerceLitT, CV.toLit, Spec.coerceT, isListish]
    | bool z => cases allow <;> simp [coerceLitT, CV.toLit, Spec.coerceT, isListish]
    | enum z => cases allow <;> simp [coerceLitT, CV.toLit, Spec.coerceT, isListish]
    | list z => cases allow <;> simp [coerceLitT, CV.toLit, Spec.coerceT, isListish]
  | list t ih =>
    intro v allow hw
    have leaf : ∀ (w : CV), w.wf = true → w.isList = false → w.isNull = false →
        coerceLitT Pm [] k (.list t) w.toLit allow
          = if allow then Spec.coerceT Pm.parse S ks (.list t) w
            else (if isListish (.list t) && !(w.isList || w.isNull) then none else Spec.coerceT Pm.parse S ks (.list t) w) := by
      intro w hww hl hn
      have ih' := ih w true hww
      simp only [if_true] at ih'
      cases w <;> simp [CV.isList, CV.isNull] at hl hn <;> cases allow <;>
        simp_all [coerceLitT, CV.toLit, Spec.coerceT, isListish, CV.isList, CV.isNull]
    cases v with
    | null => cases allow <;> simp [coerceLitT, CV.toLit, Spec.coerceT, isListish, isNonNull, CV.isNull, CV.isList]
    | list xs =>
      have hxs := wfL_forall (by simpa [CV.wf] using hw)
      have items : mapAll (fun x => coerceLitT Pm [] k t x false) (CV.toLitL xs)
          = mapAll (fun x => if (isListish t && !(x.isList || x.isNull)) = true then none
              else Spec.coerceT Pm.parse S ks t x) xs := by
        rw [toLitL_eq_map, mapAll_map]
        apply mapAll_congr
        intro x hx
        simpa using ih x false (hxs x hx)
      cases allow <;>
        simp [coerceLitT, CV.toLit, Spec.coerceT, isListish, CV.isList, CV.isNull, items]
    | int z => exact leaf _ hw rfl rfl
    | half z => exact leaf _ hw rfl rfl
    | str z => exact leaf _ hw rfl rfl
    | bool z => exact leaf _ hw rfl rfl
    | enum z => exact leaf _ hw rfl rfl
    | obj z => exact leaf _ hw rfl rfl
  | nonNull t ih =>
    intro v allow hw
    have ih' := ih v allow hw
    cases v <;> cases allow <;>
      simp_all [coerceLitT, CV.toLit, Spec.coerceT, isListish, isNonNull, CV.isNull, CV.isList]

theorem coerceLitFields_eq_spec (P : Parse) (S : Spec.CustomSpec) (ks : String → List (String × CV) → Option GoVal)
    (hS : NonNil S) (hks : NonNil ks) {rec : Ty → Lit → Option GoVal}
    (m : List (String × CV)) (hnd : noDupKeys m = true)
    (hrec : ∀ t v, (∃ name, m.lookup name = some v) → rec t v.toLit = Spec.coerceT P S ks t v) :
    ∀ (fs : List FieldDef),
      coerceLitFields [] rec fs (CV.toLitF m) = Spec.coerceFields (fun t v => Spec.coerceT P S ks t v) fs m
  | [] => rfl
  | f :: rest => by
    simp only [coerceLitFields, Spec.coerceFields]
    rw [coerceLitFields_eq_spec P S ks hS hks m hnd hrec rest, filter_toLitF f.name [] hnd]
    cases hl : m.lookup f.name with
    | none => simp [mapAll, litProvided]
    | some v =>
      simp only [mapAll, hrec f.ty v ⟨_, hl⟩, Option.map_some]
      cases hc : Spec.coerceT P S ks f.ty v with
      | none => simp [litProvided]
      | some c =>
        simp only [litProvided_single (fun hnn => specT_nonNull_not_nil P S ks hS hks hnn hc)]

theorem spec_finish_not_nil {Pm : Params} (hh : HookOK Pm) {n : String} {od : ObjDef}
    {out : List (String × GoVal)} {x : GoVal} (h : finish Pm n od out = some x) : x.isNil = false := by
  simp only [finish] at h
  split at h
  · exact hh n out x h
  · simp at h; subst h; rfl

theorem specObj_nonNil (Pm : Params) (S : Spec.CustomSpec) (env : Env) (hh : HookOK Pm) (fuel : Nat) :
    NonNil (fun n m => Spec.coerceObj Pm S env fuel n m) := by
  intro n m x h
  cases fuel with
  | zero => simp [Spec.coerceObj] at h
  | succ f =>
    simp only [Spec.coerceObj] at h
    cases hl : env.lookup n with
    | none => simp [hl] at h
    | some od =>
      simp only [hl] at h
      split at h
      · split at h
        · simp at h
        · exact spec_finish_not_nil hh h
      · simp at h

/-- The inside of an object: literal route = specification, fuel for fuel. -/
theorem coerceLitObj_eq_spec (Pm : Params) (S : Spec.CustomSpec) (env : Env) (hh : HookOK Pm)
    (hS : NonNil S) (hlit : ∀ n v, notNil (Pm.customLit n (CV.toLit v)) = S n v) :
    ∀ (fuel : Nat) (n : String) (m : List (String × CV)), noDupKeys m = true → CV.wfF m = true →
      coerceLitObj Pm env [] fuel n (CV.toLitF m) = Spec.coerceObj Pm S env fuel n m := by
  intro fuel
  induction fuel with
  | zero => intro n m _ _; rfl
  | succ fuel ih =>
    intro n m hnd hw
    simp only [coerceLitObj, Spec.coerceObj]
    cases env.lookup n with
    | none => rfl
    | some od =>
      have hrec : ∀ t v, (∃ name, m.lookup name = some v) →
          coerceLitT Pm [] (fun n' l' => coerceLitObj Pm env [] fuel n' l') t v.toLit true
            = Spec.coerceT Pm.parse S (fun n' m' => Spec.coerceObj Pm S env fuel n' m') t v := by
        intro t v ⟨name, hl⟩
        have := coerceLitT_eq_spec Pm S hlit (fun n' l' => coerceLitObj Pm env [] fuel n' l')
          (fun n' m' => Spec.coerceObj Pm S env fuel n' m') (fun n' m' h1 h2 => ih n' m' h1 h2) t v true
          (wfF_lookup hw hl)
        simpa using this
      simp only [all_hasName_toLitF]
      rw [coerceLitFields_eq_spec Pm.parse S (fun n' m' => Spec.coerceObj Pm S env fuel n' m') hS
        (specObj_nonNil Pm S env hh fuel) m hnd hrec od.fields]
      generalize Spec.coerceFields _ od.fields m = r
      split
      · cases r <;> rfl
      · rfl


/-! ## Variable route -/

theorem toInL_eq_map : ∀ (xs : List CV), toInL xs = xs.map toIn
  | [] => rfl
  | x :: xs => by simp [toInL, toInL_eq_map xs]

theorem lookup_toInF (name : String) : ∀ (m : List (String × CV)),
    (toInF m).lookup name = (m.lookup name).map toIn
  | [] => rfl
  | (k, v) :: rest => by
    simp only [toInF, List.lookup]
    split <;> simp [lookup_toInF name rest]

theorem all_hasName_toInF (fs : List FieldDef) : ∀ (m : List (String × CV)),
    (toInF m).all (fun p => hasName fs p.1) = m.all (fun p => hasName fs p.1)
  | [] => rfl
  | p :: ps => by simp [toInF, all_hasName_toInF fs ps]

theorem scalarVar_eq_spec (P : Parse) (s : Scalar) (v : CV)
    (hf : (match v with
      | .half h => !s.integral || h % 2 != 0
      | .enum _ => !s.acceptsString
      | _ => true) = true) :
    scalarVar P s (toIn v) = ApiFu.C05.Spec.scalar P s v := by
  cases s <;> cases v <;>
    simp_all [scalarVar, ApiFu.C05.Spec.scalar, toIn, Scalar.integral, Scalar.acceptsString,
      Int.mul_emod_right, Int.mul_ediv_cancel_left]

theorem coerceVarT_eq_spec (Pm : Params) (S : Spec.CustomSpec) (cf : String → CV → Bool)
    (hvar : ∀ n v, cf n v = true → notNil (Pm.customVar n (toIn v)) = S n v)
    (k : String → List (String × In) → Option GoVal) (ks : String → List (String × CV) → Option GoVal)
    (kf : String → List (String × CV) → Bool)
    (hk : ∀ n m, CV.wfF m = true → kf n m = true → k n (toInF m) = ks n m) :
    ∀ (T : Ty) (v : CV) (allow : Bool), v.wf = true → faithfulT cf kf T v = true →
      coerceVarT Pm k T (toIn v) allow
        = if allow then Spec.coerceT Pm.parse S ks T v
          else (if isListish T && !(v.isList || v.isNull) then none else Spec.coerceT Pm.parse S ks T v) := by
  intro T
  induction T with
  | scalar s =>
    intro v allow _ hf
    have := scalarVar_eq_spec Pm.parse s v (by cases v <;> simp_all [faithfulT])
    cases v <;> cases allow <;> simp_all [coerceVarT, toIn, Spec.coerceT, isListish, isNonNull]
  | custom n =>
    intro v allow _ hf
    cases v with
    | null => cases allow <;> simp [coerceVarT, toIn, Spec.coerceT, isListish, isNonNull]
    | int z => have := hvar n _ (by simpa [faithfulT] using hf); cases allow <;> simp_all [coerceVarT, toIn, Spec.coerceT, isListish]
    | half z => have := hvar n _ (by simpa [faithfulT] using hf); cases allow <;> simp_all [coerceVarT, toIn, Spec.coerceT, isListish]
    | str z => have := hvar n _ (by simpa [faithfulT] using hf); cases allow <;> simp_all [coerceVarT, toIn, Spec.coerceT, isListish]
    | bool z => have := hvar n _ (by simpa [faithfulT] using hf); cases allow <;> simp_all [coerceVarT, toIn, Spec.coerceT, isListish]
    | enum z => have := hvar n _ (by simpa [faithfulT] using hf); cases allow <;> simp_all [coerceVarT, toIn, Spec.coerceT, isListish]
    | list z => have := hvar n _ (by simpa [faithfulT] using hf); cases allow <;> simp_all [coerceVarT, toIn, Spec.coerceT, isListish]
    | obj z => have := hvar n _ (by simpa [faithfulT] using hf); cases allow <;> simp_all [coerceVarT, toIn, Spec.coerceT, isListish]
  | enum n vals =>
    intro v allow _ hf
    cases v <;> cases allow <;> simp_all [coerceVarT, toIn, Spec.coerceT, isListish, isNonNull, faithfulT]
  | ref n =>
    intro v allow hw hf
    cases v with
    | obj m =>
      simp only [CV.wf, Bool.and_eq_true] at hw
      have := hk n m hw.2 (by simpa [faithfulT] using hf)
      cases allow <;> simp [coerceVarT, toIn, Spec.coerceT, isListish, this]
    | null => cases allow <;> simp [coerceVarT, toIn, Spec.coerceT, isListish, isNonNull]
    | int z => cases allow <;> simp [coerceVarT, toIn, Spec.coerceT, isListish]
    | half z => cases allow <;> simp [coerceVarT, toIn, Spec.coerceT, isListish]
    | str z => cases allow <;> simp [coerceVarT, toIn, Spec.coerceT, isListish]
    | bool z => cases allow <;> simp [coerceVarT, toIn, Spec.coerceT, isListish]
    | enum z => cases allow <;> simp [coerceVarT, toIn, Spec.coerceT, isListish]
    | list z => cases allow <;> simp [coerceVarT, toIn, Spec.coerceT, isListish]
  | list t ih =>
    intro v allow hw hf
    have leaf : ∀ (w : CV), w.wf = true → faithfulT cf kf t w = true → w.isList = false → w.isNull = false →
        coerceVarT Pm k (.list t) (toIn w) allow
          = if allow then Spec.coerceT Pm.parse S ks (.list t) w
            else (if isListish (.list t) && !(w.isList || w.isNull) then none else Spec.coerceT Pm.parse S ks (.list t) w) := by
      intro w hww hfw hl hn
      have ih' := ih w true hww hfw
      simp only [if_true] at ih'
      cases w <;> simp [CV.isList, CV.isNull] at hl hn <;> cases allow <;>
        simp_all [coerceVarT, toIn, Spec.coerceT, isListish, CV.isList, CV.isNull]
    cases v with
    | null => cases allow <;> simp [coerceVarT, toIn, Spec.coerceT, isListish, isNonNull, CV.isNull, CV.isList]
    | list xs =>
      have hxs := wfL_forall (by simpa [CV.wf] using hw)
      have hfs : ∀ x ∈ xs, faithfulT cf kf t x = true := by simpa [faithfulT] using hf
      have items : mapAll (fun x => coerceVarT Pm k t x false) (toInL xs)
          = mapAll (fun x => if (isListish t && !(x.isList || x.isNull)) = true then none
              else Spec.coerceT Pm.parse S ks t x) xs := by
        rw [toInL_eq_map, mapAll_map]
        apply mapAll_congr
        intro x hx
        simpa using ih x false (hxs x hx) (hfs x hx)
      cases allow <;>
        simp [coerceVarT, toIn, Spec.coerceT, isListish, CV.isList, CV.isNull, items]
    | int z => exact leaf _ hw (by simpa [faithfulT] using hf) rfl rfl
    | half z => exact leaf _ hw (by simpa [faithfulT] using hf) rfl rfl
    | str z => exact leaf _ hw (by simpa [faithfulT] using hf) rfl rfl
    | bool z => exact leaf _ hw (by simpa [faithfulT] using hf) rfl rfl
    | enum z => exact leaf _ hw (by simpa [faithfulT] using hf) rfl rfl
    | obj z => exact leaf _ hw (by simpa [faithfulT] using hf) rfl rfl
  | nonNull t ih =>
    intro v allow hw hf
    cases v with
    | null => cases allow <;> simp [coerceVarT, toIn, Spec.coerceT, isListish, isNonNull, CV.isNull, CV.isList]
    | int z => have ih' := ih _ allow hw (by simpa [faithfulT] using hf); cases allow <;> simp_all [coerceVarT, toIn, Spec.coerceT, isListish, CV.isNull, CV.isList]
    | half z => have ih' := ih _ allow hw (by simpa [faithfulT] using hf); cases allow <;> simp_all [coerceVarT, toIn, Spec.coerceT, isListish, CV.isNull, CV.isList]
    | str z => have ih' := ih _ allow hw (by simpa [faithfulT] using hf); cases allow <;> simp_all [coerceVarT, toIn, Spec.coerceT, isListish, CV.isNull, CV.isList]
    | bool z => have ih' := ih _ allow hw (by simpa [faithfulT] using hf); cases allow <;> simp_all [coerceVarT, toIn, Spec.coerceT, isListish, CV.isNull, CV.isList]
    | enum z => have ih' := ih _ allow hw (by simpa [faithfulT] using hf); cases allow <;> simp_all [coerceVarT, toIn, Spec.coerceT, isListish, CV.isNull, CV.isList]
    | list z => have ih' := ih _ allow hw (by simpa [faithfulT] using hf); cases allow <;> simp_all [coerceVarT, toIn, Spec.coerceT, isListish, CV.isNull, CV.isList]
    | obj z => have ih' := ih _ allow hw (by simpa [faithfulT] using hf); cases allow <;> simp_all [coerceVarT, toIn, Spec.coerceT, isListish, CV.isNull, CV.isList]

theorem coerceVarFields_eq_spec {rec : Ty → In → Option GoVal} {srec : Ty → CV → Option GoVal}
    {frec : Ty → CV → Bool} (m : List (String × CV))
    (hrec : ∀ t v, (∃ name, m.lookup name = some v) → frec t v = true → rec t (toIn v) = srec t v) :
    ∀ (fs : List FieldDef), faithfulFields frec fs m = true →
      coerceVarFields rec fs (toInF m) = Spec.coerceFields srec fs m
  | [], _ => rfl
  | f :: rest, hf => by
    simp only [faithfulFields, Bool.and_eq_true] at hf
    simp only [coerceVarFields, Spec.coerceFields]
    rw [coerceVarFields_eq_spec m hrec rest hf.2, lookup_toInF]
    cases hl : m.lookup f.name with
    | none => simp
    | some v => simp [hrec f.ty v ⟨_, hl⟩ (by simpa [hl] using hf.1)]

theorem coerceVarObj_eq_spec (Pm : Params) (S : Spec.CustomSpec) (cf : String → CV → Bool) (env : Env)
    (hvar : ∀ n v, cf n v = true → notNil (Pm.customVar n (toIn v)) = S n v) :
    ∀ (fuel : Nat) (n : String) (m : List (String × CV)), CV.wfF m = true → faithfulObj cf env fuel n m = true →
      coerceVarObj Pm env fuel n (toInF m) = Spec.coerceObj Pm S env fuel n m := by
  intro fuel
  induction fuel with
  | zero => intro n m _ _; rfl
  | succ fuel ih =>
    intro n m hw hf
    simp only [coerceVarObj, Spec.coerceObj]
    simp only [faithfulObj] at hf
    cases hl : env.lookup n with
    | none => rfl
    | some od =>
      simp only [hl] at hf
      have hrec : ∀ t v, (∃ name, m.lookup name = some v) →
          faithfulT cf (fun n' m' => faithfulObj cf env fuel n' m') t v = true →
          coerceVarT Pm (fun n' m' => coerceVarObj Pm env fuel n' m') t (toIn v) true
            = Spec.coerceT Pm.parse S (fun n' m' => Spec.coerceObj Pm S env fuel n' m') t v := by
        intro t v ⟨name, hlv⟩ hfv
        have := coerceVarT_eq_spec Pm S cf hvar (fun n' m' => coerceVarObj Pm env fuel n' m')
          (fun n' m' => Spec.coerceObj Pm S env fuel n' m') (fun n' m' => faithfulObj cf env fuel n' m')
          (fun n' m' h1 h2 => ih n' m' h1 h2) t v true (wfF_lookup hw hlv) hfv
        simpa using this
      simp only [all_hasName_toInF]
      rw [coerceVarFields_eq_spec m hrec od.fields hf]
      generalize Spec.coerceFields _ od.fields m = r
      split
      · cases r <;> rfl
      · rfl

end ApiFu.C05.R
