/-
  C05, generalised model ("R"): the same Go functions as ApiFu/C05/Model.lean, extended to

  * **recursive input object types**: a type is `ref name` into an environment of input-object
    definitions (Go: a pointer to the `*InputObjectType`), so `input In { e: In, c: [In] }` is
    expressible. The coercion of one object consumes one unit of *fuel*; `fuel_irrelevant`
    (Props) shows the result does not depend on the fuel once it exceeds the object nesting depth of
    the value, so "out of fuel" is never confused with a coercion error (the driver checks the bound);
  * **`InputObjectType.InputCoercion` hooks**: the parameter `Pm.hook`, applied once, after every
    field of the object has been coerced and the unknown-field check passed; its error (`none`) is a
    coercion error, its result is the coerced value;
  * **custom scalars**: the parameters `Pm.customLit` / `Pm.customVar` (`ScalarType.LiteralCoercion` /
    `VariableValueCoercion` of a user-defined scalar); Go nil = failure;
  * **every Go kind a caller can put into `Request.VariableValues`** (`In`): besides the kinds
    `encoding/json` produces also the sized integer kinds, `float32`, non-finite floats,
    `json.Number`, `[]byte` and a rest `other` (typed nil pointers, typed slices and maps, structs …).

  Shared with the tree model: `Scalar`, `GoVal`, `Lit`, `mapAll`, `lookupLast`, the literal coercers
  of the seven scalars. Core Lean only.
-/
import ApiFu.C05.Model

namespace ApiFu.C05.R
open ApiFu.C05 (Scalar GoVal Lit Parse mapAll lookupLast Vars inInt32 inInt64 inSafe noDupKeys noDupNames containsVar
  containsVarL containsVarF mentions isUnsetVar collect Site)

/-! ## Data -/

/-- Go's sized integer kinds (`int` and `uint` are 64 bit here). -/
inductive IntKind where
  | i8 | u8 | i16 | u16 | i32 | u32 | i64 | u64 | int | uint
  deriving Repr, DecidableEq, Inhabited

def IntKind.lo : IntKind → Int
  | .i8 => -128 | .i16 => -32768 | .i32 => -2147483648
  | .i64 => -9223372036854775808 | .int => -9223372036854775808
  | _ => 0

def IntKind.hi : IntKind → Int
  | .i8 => 127 | .u8 => 255 | .i16 => 32767 | .u16 => 65535
  | .i32 => 2147483647 | .u32 => 4294967295
  | .i64 => 9223372036854775807 | .int => 9223372036854775807
  | .u64 => 18446744073709551615 | .uint => 18446744073709551615

/-- A value of `Request.VariableValues` (`interface{}`), or a part of one. -/
inductive In where
  | null                                  -- untyped nil
  | num (h : Int)                         -- float64 `h/2` (every JSON number)
  | str (s : String)
  | bool (b : Bool)
  | list (xs : List In)                   -- []interface{}
  | obj (fs : List (String × In))         -- map[string]interface{}
  | intk (k : IntKind) (z : Int)          -- int8 … uint64, int, uint
  | f32 (h : Int)                         -- float32 `h/2`
  | nonFinite                             -- float64 / float32 NaN, +Inf, −Inf
  | jsonNumber (s : String)               -- json.Number
  | bytes (s : String)                    -- []byte
  | other (tag : String)                  -- anything else: typed nil pointer, typed slice / map, struct …
  deriving Repr, Inhabited

/-- Input types; `ref n` is the input object type named `n` of the environment. -/
inductive Ty where
  | scalar (k : Scalar)
  | custom (name : String)
  | enum (name : String) (vals : List String)
  | ref (name : String)
  | list (t : Ty)
  | nonNull (t : Ty)
  deriving Repr, DecidableEq, Inhabited

structure FieldDef where
  name : String
  ty : Ty
  dflt : Option GoVal        -- `none` = no default, `some .nil` = `schema.Null`
  deriving Repr, Inhabited

structure ObjDef where
  fields : List FieldDef
  hooked : Bool              -- `InputCoercion != nil`
  deriving Repr, Inhabited

abbrev Env := List (String × ObjDef)

/-- The functions the schema author supplies (and the RFC 3339 parser). -/
structure Params where
  parse : Parse
  hook : String → List (String × GoVal) → Option GoVal
  customLit : String → Lit → Option GoVal
  customVar : String → In → Option GoVal

def isNonNull : Ty → Bool
  | .nonNull _ => true
  | _ => false

def hasName (fs : List FieldDef) (n : String) : Bool := fs.any (fun f => f.name == n)

/-- Go nil returned by a coercer means "cannot coerce". -/
def notNil : Option GoVal → Option GoVal
  | some .nil => none
  | r => r

/-! ## Scalars on every Go kind -/

/-- `VariableValueCoercion` of the seven scalars (after patch 04 and C03's non-finite fix).
    Int: `coerceInt` — every integer kind inside the 32-bit window, an integral float inside it;
    Float: `coerceFloat` — every numeric kind (exact on the generated values), finite;
    ID: only `int`, integral `float64`, `string`; LongInt: `coerceLongInt`; DateTime: `string` or
    `[]byte` that parses; String / Boolean: exactly that kind. `json.Number`, `[]byte` (other than
    for DateTime) and every opaque kind are rejected everywhere. -/
def scalarVar (P : Parse) : Scalar → In → Option GoVal
  | .int, .num h => if h % 2 = 0 && inInt32 (h / 2) then some (.int (h / 2)) else none
  | .int, .f32 h => if h % 2 = 0 && inInt32 (h / 2) then some (.int (h / 2)) else none
  | .int, .intk _ z => if inInt32 z then some (.int z) else none
  | .float, .num h => some (.float h)
  | .float, .f32 h => some (.float h)
  | .float, .intk _ z => some (.float (2 * z))
  | .string, .str s => some (.str s)
  | .boolean, .bool b => some (.bool b)
  | .id, .num h => if h % 2 = 0 && inInt64 (h / 2) then some (.int (h / 2)) else none
  | .id, .intk .int z => some (.int z)
  | .id, .str s => some (.str s)
  | .dateTime, .str s => (P s).map GoVal.time
  | .dateTime, .bytes s => (P s).map GoVal.time
  | .longInt, .num h => if h % 2 = 0 && inSafe (h / 2) then some (.long (h / 2)) else none
  | .longInt, .f32 h => if h % 2 = 0 && inSafe (h / 2) then some (.long (h / 2)) else none
  | .longInt, .intk _ z => if inSafe z then some (.long z) else none
  | _, _ => none

/-! ## The shared field rule -/

/-- As `ApiFu.C05.addField`, for the field definitions of this model. -/
def addField (f : FieldDef) :
    Option (Option GoVal) → Option (List (String × GoVal)) → Option (List (String × GoVal))
  | some none, _ => none
  | some (some c), tl => tl.map (fun tl => (f.name, c) :: tl)
  | none, tl =>
    match f.dflt with
    | some dv => tl.map (fun tl => (f.name, dv) :: tl)
    | none => if isNonNull f.ty then none else tl

/-- After the loops of `InputObjectType.Coerce…`: the hook, if the type has one. -/
def finish (Pm : Params) (n : String) (od : ObjDef) (out : List (String × GoVal)) : Option GoVal :=
  if od.hooked then Pm.hook n out else some (.obj out)

/-! ## coerceVariableValue -/

/-- `coerceVariableValue` for everything but the inside of an input object, which is `k`. -/
def coerceVarT (Pm : Params) (k : String → List (String × In) → Option GoVal) : Ty → In → Bool → Option GoVal
  | t, .null, _ => if isNonNull t then none else some .nil
  | .scalar s, v, _ => scalarVar Pm.parse s v
  | .custom n, v, _ => notNil (Pm.customVar n v)
  | .enum _ vals, .str s, _ => if vals.contains s then some (.enumv s) else none
  | .enum _ _, _, _ => none
  | .ref n, .obj m, _ => k n m
  | .ref _, _, _ => none
  | .list t, .list xs, _ => (mapAll (fun x => coerceVarT Pm k t x false) xs).map GoVal.list
  | .list t, v, allow => if allow then (coerceVarT Pm k t v true).map (fun y => GoVal.list [y]) else none
  | .nonNull t, v, allow => coerceVarT Pm k t v allow

/-- The loop over the declared fields of `InputObjectType.CoerceVariableValue`; `rec` coerces one
    field value at the field's type (item-to-list allowed). -/
def coerceVarFields (rec : Ty → In → Option GoVal) : List FieldDef → List (String × In) →
    Option (List (String × GoVal))
  | [], _ => some []
  | f :: rest, m => addField f ((m.lookup f.name).map (fun fv => rec f.ty fv)) (coerceVarFields rec rest m)

/-- `InputObjectType.CoerceVariableValue` for the type named `n`; one unit of fuel per object. -/
def coerceVarObj (Pm : Params) (env : Env) : Nat → String → List (String × In) → Option GoVal
  | 0, _, _ => none
  | fuel + 1, n, m =>
    match env.lookup n with
    | none => none
    | some od =>
      if m.all (fun p => hasName od.fields p.1) then
        match coerceVarFields (fun t v => coerceVarT Pm (fun n' m' => coerceVarObj Pm env fuel n' m') t v true)
                od.fields m with
        | none => none
        | some out => finish Pm n od out
      else none

def coerceVar (Pm : Params) (env : Env) (fuel : Nat) (T : Ty) (v : In) (allow : Bool) : Option GoVal :=
  coerceVarT Pm (fun n m => coerceVarObj Pm env fuel n m) T v allow

/-! ## coerceLiteral -/

/-- As `ApiFu.C05.coerceVarRef` (patch 02). -/
def coerceVarRef (vars : Vars) (to : Ty) (n : String) : Option GoVal :=
  match vars.lookup n with
  | some v => if v.isNil && isNonNull to then none else some v
  | none => if isNonNull to then none else some .nil

def litProvided (ty : Ty) : Option (List GoVal) → Option (Option GoVal)
  | none => some none
  | some vs =>
    match vs.getLast? with
    | none => none
    | some v => if v.isNil && isNonNull ty then some none else some (some v)

def coerceLitT (Pm : Params) (vars : Vars) (k : String → List (String × Lit) → Option GoVal) :
    Ty → Lit → Bool → Option GoVal
  | to, .null, _ => if isNonNull to then none else some .nil
  | to, .var n, _ => coerceVarRef vars to n
  | .scalar s, frm, _ => s.coerceLit Pm.parse frm
  | .custom n, frm, _ => notNil (Pm.customLit n frm)
  | .list t, .list xs, _ => (mapAll (fun x => coerceLitT Pm vars k t x false) xs).map GoVal.list
  | .list t, frm, allow => if allow then (coerceLitT Pm vars k t frm true).map (fun y => GoVal.list [y]) else none
  | .ref n, .obj lfs, _ => k n lfs
  | .ref _, _, _ => none
  | .enum _ vals, .enum n, _ => if vals.contains n then some (.enumv n) else none
  | .enum _ _, _, _ => none
  | .nonNull t, frm, allow => coerceLitT Pm vars k t frm allow

def coerceLitFields (vars : Vars) (rec : Ty → Lit → Option GoVal) : List FieldDef → List (String × Lit) →
    Option (List (String × GoVal))
  | [], _ => some []
  | f :: rest, lfs =>
    addField f
      (litProvided f.ty (mapAll (fun (p : String × Lit) => rec f.ty p.2)
        (lfs.filter (fun p => p.1 == f.name && !isUnsetVar vars p.2))))
      (coerceLitFields vars rec rest lfs)

def coerceLitObj (Pm : Params) (env : Env) (vars : Vars) : Nat → String → List (String × Lit) → Option GoVal
  | 0, _, _ => none
  | fuel + 1, n, lfs =>
    match env.lookup n with
    | none => none
    | some od =>
      if lfs.all (fun p => hasName od.fields p.1) then
        match coerceLitFields vars
                (fun t l => coerceLitT Pm vars (fun n' l' => coerceLitObj Pm env vars fuel n' l') t l true)
                od.fields lfs with
        | none => none
        | some out => finish Pm n od out
      else none

def coerceLit (Pm : Params) (env : Env) (vars : Vars) (fuel : Nat) (T : Ty) (l : Lit) (allow : Bool) : Option GoVal :=
  coerceLitT Pm vars (fun n lfs => coerceLitObj Pm env vars fuel n lfs) T l allow

/-! ## Object nesting depth (the fuel a value needs) -/

mutual
def In.depth : In → Nat
  | .list xs => In.depthL xs
  | .obj fs => In.depthF fs + 1
  | _ => 0
def In.depthL : List In → Nat
  | [] => 0
  | x :: xs => max x.depth (In.depthL xs)
def In.depthF : List (String × In) → Nat
  | [] => 0
  | p :: ps => max p.2.depth (In.depthF ps)
end

mutual
def litDepth : Lit → Nat
  | .list xs => litDepthL xs
  | .obj fs => litDepthF fs + 1
  | _ => 0
def litDepthL : List Lit → Nat
  | [] => 0
  | x :: xs => max (litDepth x) (litDepthL xs)
def litDepthF : List (String × Lit) → Nat
  | [] => 0
  | p :: ps => max (litDepth p.2) (litDepthF ps)
end

/-! ## CoerceVariableValues / CoerceArgumentValues -/

structure VarDef where
  name : String
  ty : Ty
  dflt : Option Lit
  deriving Repr, Inhabited

structure ArgDef where
  name : String
  ty : Ty
  dflt : Option GoVal
  deriving Repr, Inhabited

def coerceVariable (Pm : Params) (env : Env) (fuel : Nat) (raw : List (String × In)) (d : VarDef) :
    Option (Option GoVal) :=
  match raw.lookup d.name with
  | none =>
    match d.dflt with
    | some lit => (coerceLit Pm env [] fuel d.ty lit true).map some
    | none => if isNonNull d.ty then none else some none
  | some v => (coerceVar Pm env fuel d.ty v true).map some

def coerceVariableValues (Pm : Params) (env : Env) (fuel : Nat) (defs : List VarDef) (raw : List (String × In)) :
    Option Vars :=
  collect (·.name) (coerceVariable Pm env fuel raw) defs

def argHasValue (vars : Vars) : Option Lit → Bool
  | some (.var n) => (vars.lookup n).isSome
  | some _ => true
  | none => false

def coerceArgument (Pm : Params) (env : Env) (fuel : Nat) (vars : Vars) (d : ArgDef) (av : Option Lit) :
    Option (Option GoVal) :=
  if !argHasValue vars av then
    match d.dflt with
    | some dv => some (some dv)
    | none => if isNonNull d.ty then none else some none
  else
    match av with
    | some (.var n) =>
      match vars.lookup n with
      | some v => if v.isNil && isNonNull d.ty then none else some (some v)
      | none => none
    | some lit => (coerceLit Pm env vars fuel d.ty lit true).map some
    | none => none

def coerceArgumentValues (Pm : Params) (env : Env) (fuel : Nat) (vars : Vars) (args : List (String × Lit))
    (defs : List ArgDef) : Option (List (String × GoVal)) :=
  collect (·.name) (fun d => coerceArgument Pm env fuel vars d (lookupLast d.name args)) defs

/-! ## The static side -/

def validateT (Pm : Params) (k : String → List (String × Lit) → Bool) : Ty → Lit → Bool → Bool
  | _, .var _, _ => true
  | t, .null, _ => !isNonNull t
  | .scalar s, v, _ => (s.coerceLit Pm.parse v).isSome
  | .custom n, v, _ => (notNil (Pm.customLit n v)).isSome
  | .list t, .list xs, _ => xs.all (fun x => validateT Pm k t x false)
  | .list t, v, allow => allow && validateT Pm k t v true
  | .ref n, .obj lfs, _ => k n lfs
  | .ref _, _, _ => false
  | .enum _ vals, .enum n, _ => vals.contains n
  | .enum _ _, _, _ => false
  | .nonNull t, v, allow => validateT Pm k t v allow

def validateFields (rec : Ty → Lit → Bool) : List FieldDef → List (String × Lit) → Bool
  | [], _ => true
  | f :: rest, lfs =>
    (lfs.filter (fun p => p.1 == f.name)).all (fun p => rec f.ty p.2)
    && (!(isNonNull f.ty && f.dflt.isNone) || lfs.any (fun p => p.1 == f.name))
    && validateFields rec rest lfs

def validateObj (Pm : Params) (env : Env) : Nat → String → List (String × Lit) → Bool
  | 0, _, _ => false
  | fuel + 1, n, lfs =>
    match env.lookup n with
    | none => false
    | some od =>
      noDupKeys lfs && lfs.all (fun p => hasName od.fields p.1)
      && validateFields (fun t l => validateT Pm (fun n' l' => validateObj Pm env fuel n' l') t l true) od.fields lfs

def validateCoercion (Pm : Params) (env : Env) (fuel : Nat) (T : Ty) (l : Lit) (allow : Bool) : Bool :=
  validateT Pm (fun n lfs => validateObj Pm env fuel n lfs) T l allow

/-- `areTypesCompatible`; named types are the same when they are the same definition (Go pointer
    equality = the same name in the schema). -/
def compat : Ty → Ty → Bool
  | .nonNull v, .nonNull l => compat v l
  | .nonNull v, l => compat v l
  | .list v, .list l => compat v l
  | .list _, _ => false
  | v, l =>
    match l with
    | .nonNull _ => false
    | .list _ => false
    | _ => v == l

def VarDef.hasNonNullDefault (d : VarDef) : Bool :=
  match d.dflt with
  | some .null => false
  | some _ => true
  | none => false

def allowed (defs : List VarDef) (n : String) (L : Ty) (locDefault : Bool) : Bool :=
  match defs.find? (fun d => d.name == n) with
  | none => false
  | some d =>
    match L with
    | .nonNull L' =>
      if isNonNull d.ty then compat d.ty L
      else (d.hasNonNullDefault || locDefault) && compat d.ty L'
    | _ => compat d.ty L

def fieldLocDefault : Option GoVal → Bool
  | some .nil => false
  | some _ => true
  | none => false

/-- Variable usages below a literal (TypeInfo + validateVariableUsage), the inside of an object
    literal being `k`. -/
def usageT (defs : List VarDef) (k : String → List (String × Lit) → Bool) : Ty → Bool → Lit → Bool
  | L, ld, .var n => allowed defs n L ld
  | .nonNull t, ld, lit => usageT defs k t ld lit
  | .list t, _, .list xs => xs.all (fun x => usageT defs k t false x)
  | .list t, _, .obj lfs => usageT defs k t false (.obj lfs)
  | .ref n, _, .obj lfs => k n lfs
  | _, _, lit => !containsVar lit

def usageFields (rec : Ty → Bool → Lit → Bool) : List FieldDef → List (String × Lit) → Bool
  | [], _ => true
  | f :: rest, lfs =>
    (lfs.filter (fun p => p.1 == f.name)).all (fun p => rec f.ty (fieldLocDefault f.dflt) p.2)
    && usageFields rec rest lfs

def usageObj (defs : List VarDef) (env : Env) : Nat → String → List (String × Lit) → Bool
  | 0, _, _ => false
  | fuel + 1, n, lfs =>
    match env.lookup n with
    | none => !containsVarF lfs
    | some od =>
      usageFields (fun t ld l => usageT defs (fun n' l' => usageObj defs env fuel n' l') t ld l) od.fields lfs
      && lfs.all (fun p => hasName od.fields p.1 || !containsVar p.2)

def usage (defs : List VarDef) (env : Env) (fuel : Nat) (T : Ty) (ld : Bool) (l : Lit) : Bool :=
  usageT defs (fun n lfs => usageObj defs env fuel n lfs) T ld l

def argLocDefault (site : Site) (d : Option GoVal) : Bool :=
  match site with
  | .field => d.isSome
  | .directive => fieldLocDefault d

structure Case where
  site : Site
  env : Env
  argDefs : List ArgDef
  varDefs : List VarDef
  args : List (String × Lit)
  raw : List (String × In)
  deriving Inhabited

def ArgDef.find (defs : List ArgDef) (n : String) : Option ArgDef := defs.find? (fun d => d.name == n)

def argumentsValid (c : Case) : Bool :=
  c.args.all (fun a => (ArgDef.find c.argDefs a.1).isSome)
  && noDupKeys c.args
  && c.argDefs.all (fun d => !(isNonNull d.ty && d.dflt.isNone) || c.args.any (fun a => a.1 == d.name))

def valuesValid (Pm : Params) (fuel : Nat) (c : Case) : Bool :=
  c.args.all (fun a =>
    match ArgDef.find c.argDefs a.1 with
    | some d => validateCoercion Pm c.env fuel d.ty a.2 true
    | none => false)
  && c.varDefs.all (fun d =>
    match d.dflt with
    | some lit => !containsVar lit && validateCoercion Pm c.env fuel d.ty lit true
    | none => true)

def variablesValid (fuel : Nat) (c : Case) : Bool :=
  noDupNames (c.varDefs.map (·.name))
  && c.args.all (fun a =>
    match ArgDef.find c.argDefs a.1 with
    | some d => usage c.varDefs c.env fuel d.ty (argLocDefault c.site d.dflt) a.2
    | none => !containsVar a.2)
  && c.varDefs.all (fun d => c.args.any (fun a => mentions d.name a.2))

def validate (Pm : Params) (fuel : Nat) (c : Case) : Bool :=
  argumentsValid c && valuesValid Pm fuel c && variablesValid fuel c

inductive Outcome where
  | invalid
  | reqErr
  | fieldErr
  | invoked (args : List (String × GoVal))
  deriving Repr, Inhabited

def coerceCase (Pm : Params) (fuel : Nat) (c : Case) : Outcome :=
  match coerceVariableValues Pm c.env fuel c.varDefs c.raw with
  | none => .reqErr
  | some vars =>
    match coerceArgumentValues Pm c.env fuel vars c.args c.argDefs with
    | none => .fieldErr
    | some args => .invoked args

def run (Pm : Params) (fuel : Nat) (c : Case) : Outcome :=
  if validate Pm fuel c then coerceCase Pm fuel c else .invalid

/-- Fuel that is certainly enough for the case: one more than the deepest value in it. -/
def Case.fuel (c : Case) : Nat :=
  1 + (c.args.map (fun a => litDepth a.2)).foldl max 0
    + (c.varDefs.map (fun d => match d.dflt with | some l => litDepth l | none => 0)).foldl max 0
    + (c.raw.map (fun r => r.2.depth)).foldl max 0

end ApiFu.C05.R
