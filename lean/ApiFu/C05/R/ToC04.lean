/-
  C05 → C04: the variable-usage rule of C04's validation specification (`ApiFu.C04.Spec`, §5.8.5
  `IsVariableUsageAllowed` / `AreTypesCompatible`, written there from the specification text over type
  REFERENCES by name) is the rule this model transliterates from `validate_variables.go` over type
  DEFINITIONS — provided names identify definitions (Go: `areTypesCompatible` ends in pointer equality
  of the named types, and `schema.New` refuses two definitions with one name). Hence: a usage C04's
  specification allows ⇒ the variable's coerced runtime value fits the position (or is Go nil at a
  non-null position under the default-value exception) — the coercion side of C05 and the validation
  side of C04 meet in one statement. C04's files are imported read-only.
-/
import ApiFu.C05.R.PropsValue
import ApiFu.C04.Spec

namespace ApiFu.C05.R
open ApiFu.C05 (GoVal Lit Vars)

/-- The named type under the wrappers. -/
def Ty.base : Ty → Ty
  | .list t => t.base
  | .nonNull t => t.base
  | t => t

/-- The reference C04 sees for a type of this model; `nameOf` gives the schema's name of a named type. -/
def tref (nameOf : Ty → String) : Ty → ApiFu.C04.TRef
  | .list t => .list (tref nameOf t)
  | .nonNull t => .nonNull (tref nameOf t)
  | t => .named (nameOf t)

/-- Names identify definitions, for the two types compared. -/
def NamesIdentify (nameOf : Ty → String) (V L : Ty) : Prop :=
  nameOf V.base = nameOf L.base → V.base = L.base

theorem beq_eq_decide_name {nameOf : Ty → String} (A B : Ty) (h : nameOf A = nameOf B → A = B) :
    (A == B) = decide (nameOf A = nameOf B) := by
  by_cases e : A = B
  · subst e; simp
  · have hn : nameOf A ≠ nameOf B := fun hn => e (h hn)
    simp [e, hn]

/-- **`areTypesCompatible` is C04's `AreTypesCompatible`.** -/
theorem compat_eq_typesCompatible (nameOf : Ty → String) :
    ∀ (V L : Ty), NamesIdentify nameOf V L → compat V L = ApiFu.C04.Spec.typesCompatible (tref nameOf V) (tref nameOf L) := by
  intro V
  induction V with
  | nonNull v ih =>
    intro L h
    cases L with
    | nonNull l => simp only [compat, tref, ApiFu.C04.Spec.typesCompatible]; exact ih l h
    | list l => simp only [compat, tref, ApiFu.C04.Spec.typesCompatible]; exact ih (.list l) h
    | scalar k => simp only [compat, tref, ApiFu.C04.Spec.typesCompatible]; exact ih (.scalar k) h
    | custom k => simp only [compat, tref, ApiFu.C04.Spec.typesCompatible]; exact ih (.custom k) h
    | enum k vs => simp only [compat, tref, ApiFu.C04.Spec.typesCompatible]; exact ih (.enum k vs) h
    | ref k => simp only [compat, tref, ApiFu.C04.Spec.typesCompatible]; exact ih (.ref k) h
  | list v ih =>
    intro L h
    cases L with
    | list l => simp only [compat, tref, ApiFu.C04.Spec.typesCompatible]; exact ih l h
    | _ => simp [compat, tref, ApiFu.C04.Spec.typesCompatible]
  | scalar k =>
    intro L h
    cases L with
    | nonNull l => simp [compat, tref, ApiFu.C04.Spec.typesCompatible]
    | list l => simp [compat, tref, ApiFu.C04.Spec.typesCompatible]
    | _ => simp only [compat, tref, ApiFu.C04.Spec.typesCompatible]; exact beq_eq_decide_name _ _ h
  | custom k =>
    intro L h
    cases L with
    | nonNull l => simp [compat, tref, ApiFu.C04.Spec.typesCompatible]
    | list l => simp [compat, tref, ApiFu.C04.Spec.typesCompatible]
    | _ => simp only [compat, tref, ApiFu.C04.Spec.typesCompatible]; exact beq_eq_decide_name _ _ h
  | enum k vs =>
    intro L h
    cases L with
    | nonNull l => simp [compat, tref, ApiFu.C04.Spec.typesCompatible]
    | list l => simp [compat, tref, ApiFu.C04.Spec.typesCompatible]
    | _ => simp only [compat, tref, ApiFu.C04.Spec.typesCompatible]; exact beq_eq_decide_name _ _ h
  | ref k =>
    intro L h
    cases L with
    | nonNull l => simp [compat, tref, ApiFu.C04.Spec.typesCompatible]
    | list l => simp [compat, tref, ApiFu.C04.Spec.typesCompatible]
    | _ => simp only [compat, tref, ApiFu.C04.Spec.typesCompatible]; exact beq_eq_decide_name _ _ h

theorem tref_isNonNull (nameOf : Ty → String) (t : Ty) : (tref nameOf t).isNonNull = isNonNull t := by
  cases t <;> rfl

/-- **`validateVariableUsage` is C04's `IsVariableUsageAllowed`**, for a usage whose expected type is
    the reference of `L` and whose location-default flag is `ld`, and a variable definition whose
    default C04 sees as `dv` (only "absent / null / a value" matters). -/
theorem allowed_eq_usageAllowed (nameOf : Ty → String) (defs : List VarDef) (n : String) (d : VarDef)
    (hd : defs.find? (fun d => d.name == n) = some d) (L : Ty) (ld : Bool) (dv : Option ApiFu.C04.Value)
    (u : ApiFu.C04.Spec.Usage) (hexp : u.expected = some (tref nameOf L)) (hld : u.locDefault = ld)
    (hdv : (match dv with | some v => !v.isNull | none => false) = d.hasNonNullDefault)
    (hn : NamesIdentify nameOf d.ty L) :
    allowed defs n L ld = ApiFu.C04.Spec.usageAllowed (tref nameOf d.ty) dv u := by
  simp only [allowed, hd, ApiFu.C04.Spec.usageAllowed, hexp, hld]
  cases L with
  | nonNull L' =>
    simp only [tref, tref_isNonNull]
    have h1 := compat_eq_typesCompatible nameOf d.ty (.nonNull L') hn
    have h2 := compat_eq_typesCompatible nameOf d.ty L' hn
    simp only [tref] at h1
    cases hnn : isNonNull d.ty with
    | true => simp [h1]
    | false =>
      simp only [Bool.false_eq_true, if_false, h2]
      cases dv with
      | none => simp only at hdv ⊢; rw [← hdv]; cases ld <;> simp
      | some w =>
        simp only at hdv ⊢; rw [← hdv]
        rcases Bool.eq_false_or_eq_true w.isNull with hw | hw <;> cases ld <;> simp [hw]
  | list l => simp only [tref]; exact compat_eq_typesCompatible nameOf d.ty (.list l) hn
  | scalar k => simp only [tref]; exact compat_eq_typesCompatible nameOf d.ty (.scalar k) hn
  | custom k => simp only [tref]; exact compat_eq_typesCompatible nameOf d.ty (.custom k) hn
  | enum k vs => simp only [tref]; exact compat_eq_typesCompatible nameOf d.ty (.enum k vs) hn
  | ref k => simp only [tref]; exact compat_eq_typesCompatible nameOf d.ty (.ref k) hn

/-- **C04's rule allows the usage ⇒ the variable's value fits the position.** A usage of `$n` at a
    position of expected type `L` that C04's specification of §5.8.5 allows, the variables' runtime
    values conforming to their declared types (`variables_conform`): the value conforms to `L` — no
    second coercion is needed — or it is Go nil at a non-null `L` under the default-value exception. -/
theorem spec_allowed_usage_fits (Pm : Params) (env : Env) (nameOf : Ty → String) (defs : List VarDef) (vars : Vars)
    (hv : VarsOK Pm env defs vars) (n : String) (d : VarDef)
    (hd : defs.find? (fun d => d.name == n) = some d) (L : Ty) (ld : Bool) (dv : Option ApiFu.C04.Value)
    (u : ApiFu.C04.Spec.Usage) (hexp : u.expected = some (tref nameOf L)) (hld : u.locDefault = ld)
    (hdv : (match dv with | some v => !v.isNull | none => false) = d.hasNonNullDefault)
    (hn : NamesIdentify nameOf d.ty L)
    (hallowed : ApiFu.C04.Spec.usageAllowed (tref nameOf d.ty) dv u = true)
    (v : GoVal) (hl : vars.lookup n = some v) :
    Conforms Pm env L v ∨ (v = .nil ∧ DefaultException defs n L ld) := by
  have ha : allowed defs n L ld = true := by
    rw [allowed_eq_usageAllowed nameOf defs n d hd L ld dv u hexp hld hdv hn]; exact hallowed
  exact variable_usage_fits Pm env defs vars hv 0 (T := L) (b := ld) (l := .var n)
    (by simpa [usage, usageT_var] using ha) UsedAt.here hl

/-! ## Non-vacuity -/

/-- The names a schema with `Int`, `String` and `input In` gives (anything else: its constructor tag). -/
def exName : Ty → String
  | .scalar .int => "Int"
  | .scalar .string => "String"
  | .ref n => n
  | .custom n => n
  | .enum n _ => n
  | _ => "?"

-- `$v: [In!] = []` used at a position `[In]!` whose argument has a default: C04's specification allows
-- it, and the hypotheses of `allowed_eq_usageAllowed` are met
example : ApiFu.C04.Spec.usageAllowed (tref exName (.list (.nonNull (.ref "In")))) (some (.list [] ⟨1, 1⟩))
    { name := "v", pos := ⟨1, 9⟩, expected := some (tref exName (.nonNull (.list (.ref "In")))), locDefault := true } = true := by
  decide
example : NamesIdentify exName (.list (.nonNull (.ref "In"))) (.nonNull (.list (.ref "In"))) := fun _ => rfl
-- … and a `String` variable at an `Int` position is refused by both
example : ApiFu.C04.Spec.usageAllowed (tref exName (.scalar .string)) none
    { name := "v", pos := ⟨1, 9⟩, expected := some (tref exName (.scalar .int)), locDefault := false } = false := by decide
example : allowed [{ name := "v", ty := .scalar .string, dflt := none }] "v" (.scalar .int) false = false := by decide

end ApiFu.C05.R
