/-
  C05, generalised model: reference semantics and conformance over a type environment.

  `Conforms Pm env T x` is an inductive predicate (recursive types need no fuel here): never nil at
  non-null; the shape of a built-in scalar; for a custom scalar "an output of one of its coercers";
  a declared enum value; a list of conforming items; for an input object a complete field map —
  or, when the type has an `InputCoercion` hook, the hook's result on such a map.

  `Spec.coerce` is the June-2018 input coercion of an abstract client value (`ApiFu.C05.CV`) as in
  ApiFu/C05/Spec.lean (no item-to-list flag), with `S` the author's specification of the custom
  scalars and `Pm.hook` applied to every coerced object of a hooked type.
-/
import ApiFu.C05.Spec
import ApiFu.C05.R.Model

namespace ApiFu.C05.R
open ApiFu.C05 (Scalar GoVal Lit Parse mapAll CV scalarShape Vars)

/-! ## Conformance -/

inductive Conforms (Pm : Params) (env : Env) : Ty → GoVal → Prop
  | nil {t : Ty} : isNonNull t = false → Conforms Pm env t .nil
  | nonNull {t : Ty} {x : GoVal} : x.isNil = false → Conforms Pm env t x → Conforms Pm env (.nonNull t) x
  | scalar {k : Scalar} {x : GoVal} : scalarShape k x = true → Conforms Pm env (.scalar k) x
  | custom {n : String} {x : GoVal} : x.isNil = false →
      ((∃ i, Pm.customVar n i = some x) ∨ (∃ l, Pm.customLit n l = some x)) → Conforms Pm env (.custom n) x
  | enum {n : String} {vals : List String} {v : String} : vals.contains v = true →
      Conforms Pm env (.enum n vals) (.enumv v)
  | list {t : Ty} {xs : List GoVal} : (∀ y ∈ xs, Conforms Pm env t y) → Conforms Pm env (.list t) (.list xs)
  | obj {n : String} {od : ObjDef} {m : List (String × GoVal)} :
      env.lookup n = some od → od.hooked = false →
      (∀ p ∈ m, hasName od.fields p.1 = true) →
      (∀ f ∈ od.fields, ∀ v, m.lookup f.name = some v → Conforms Pm env f.ty v) →
      (∀ f ∈ od.fields, m.lookup f.name = none → isNonNull f.ty = false ∧ f.dflt = none) →
      Conforms Pm env (.ref n) (.obj m)
  | hooked {n : String} {od : ObjDef} {m : List (String × GoVal)} {x : GoVal} :
      env.lookup n = some od → od.hooked = true →
      (∀ p ∈ m, hasName od.fields p.1 = true) →
      (∀ f ∈ od.fields, ∀ v, m.lookup f.name = some v → Conforms Pm env f.ty v) →
      (∀ f ∈ od.fields, m.lookup f.name = none → isNonNull f.ty = false ∧ f.dflt = none) →
      Pm.hook n m = some x → Conforms Pm env (.ref n) x

/-- A complete, conforming field map for the declared fields `fs`. -/
def FieldsGood (Pm : Params) (env : Env) (fs : List FieldDef) (m : List (String × GoVal)) : Prop :=
  (∀ p ∈ m, hasName fs p.1 = true) ∧
  (∀ f ∈ fs, ∀ v, m.lookup f.name = some v → Conforms Pm env f.ty v) ∧
  (∀ f ∈ fs, m.lookup f.name = none → isNonNull f.ty = false ∧ f.dflt = none)

/-- Well-formed schema: field names of every input object are distinct (a Go map) and every declared
    default conforms to its field's type. -/
def EnvOK (Pm : Params) (env : Env) : Prop :=
  ∀ n od, env.lookup n = some od →
    noDupNames (od.fields.map (·.name)) = true ∧
    ∀ f ∈ od.fields, ∀ dv, f.dflt = some dv → Conforms Pm env f.ty dv

/-- Contract of an `InputCoercion` hook: a successful hook does not return Go nil (the library hands
    the result on unchecked, also to non-null positions). -/
def HookOK (Pm : Params) : Prop := ∀ n m x, Pm.hook n m = some x → x.isNil = false

/-! ## Client values as variable values -/

mutual
def toIn : CV → In
  | .null => .null
  | .int z => .num (2 * z)
  | .half h => .num h
  | .str s => .str s
  | .bool b => .bool b
  | .enum n => .str n
  | .list xs => .list (toInL xs)
  | .obj fs => .obj (toInF fs)
def toInL : List CV → List In
  | [] => []
  | x :: xs => toIn x :: toInL xs
def toInF : List (String × CV) → List (String × In)
  | [] => []
  | p :: ps => (p.1, toIn p.2) :: toInF ps
end

mutual
def cvDepth : CV → Nat
  | .list xs => cvDepthL xs
  | .obj fs => cvDepthF fs + 1
  | _ => 0
def cvDepthL : List CV → Nat
  | [] => 0
  | x :: xs => max (cvDepth x) (cvDepthL xs)
def cvDepthF : List (String × CV) → Nat
  | [] => 0
  | p :: ps => max (cvDepth p.2) (cvDepthF ps)
end

def isListish : Ty → Bool
  | .list _ => true
  | .nonNull t => isListish t
  | _ => false

namespace Spec

/-- `S`: the author's specification of the custom scalars on client values. -/
abbrev CustomSpec := String → CV → Option GoVal

def coerceT (P : Parse) (S : CustomSpec) (k : String → List (String × CV) → Option GoVal) : Ty → CV → Option GoVal
  | .nonNull t, v => if v.isNull then none else coerceT P S k t v
  | _, .null => some .nil
  | .scalar s, v => ApiFu.C05.Spec.scalar P s v
  | .custom n, v => S n v
  | .enum _ vals, .enum n => if vals.contains n then some (.enumv n) else none
  | .enum _ _, _ => none
  | .list t, .list xs =>
    (mapAll (fun x => if isListish t && !(x.isList || x.isNull) then none else coerceT P S k t x) xs).map GoVal.list
  | .list t, v => (coerceT P S k t v).map (fun y => GoVal.list [y])
  | .ref n, .obj m => k n m
  | .ref _, _ => none

def coerceFields (rec : Ty → CV → Option GoVal) : List FieldDef → List (String × CV) → Option (List (String × GoVal))
  | [], _ => some []
  | f :: rest, m => addField f ((m.lookup f.name).map (fun v => rec f.ty v)) (coerceFields rec rest m)

def coerceObj (Pm : Params) (S : CustomSpec) (env : Env) : Nat → String → List (String × CV) → Option GoVal
  | 0, _, _ => none
  | fuel + 1, n, m =>
    match env.lookup n with
    | none => none
    | some od =>
      if m.all (fun p => hasName od.fields p.1) then
        match coerceFields (fun t v => coerceT Pm.parse S (fun n' m' => coerceObj Pm S env fuel n' m') t v) od.fields m with
        | none => none
        | some out => finish Pm n od out
      else none

def coerce (Pm : Params) (S : CustomSpec) (env : Env) (fuel : Nat) (T : Ty) (v : CV) : Option GoVal :=
  coerceT Pm.parse S (fun n m => coerceObj Pm S env fuel n m) T v

def coerceItem (Pm : Params) (S : CustomSpec) (env : Env) (fuel : Nat) (t : Ty) (x : CV) : Option GoVal :=
  if isListish t && !(x.isList || x.isNull) then none else coerce Pm S env fuel t x

end Spec

/-! ## JSON faithfulness over an environment -/

/-- As `ApiFu.C05.jsonFaithful`; `cf n v`: the author's statement that JSON represents the client
    value `v` faithfully for the custom scalar `n`. -/
def faithfulT (cf : String → CV → Bool) (k : String → List (String × CV) → Bool) : Ty → CV → Bool
  | _, .null => true
  | .nonNull t, v => faithfulT cf k t v
  | .scalar s, .half h => !s.integral || h % 2 != 0
  | .scalar s, .enum _ => !s.acceptsString
  | .scalar _, _ => true
  | .custom n, v => cf n v
  | .enum _ _, .str _ => false
  | .enum _ _, _ => true
  | .list t, .list xs => xs.all (fun x => faithfulT cf k t x)
  | .list t, v => faithfulT cf k t v
  | .ref n, .obj m => k n m
  | .ref _, _ => true

def faithfulFields (rec : Ty → CV → Bool) : List FieldDef → List (String × CV) → Bool
  | [], _ => true
  | f :: rest, m =>
    (match m.lookup f.name with
     | some v => rec f.ty v
     | none => true)
    && faithfulFields rec rest m

def faithfulObj (cf : String → CV → Bool) (env : Env) : Nat → String → List (String × CV) → Bool
  | 0, _, _ => false
  | fuel + 1, n, m =>
    match env.lookup n with
    | none => true
    | some od => faithfulFields (fun t v => faithfulT cf (fun n' m' => faithfulObj cf env fuel n' m') t v) od.fields m

def jsonFaithful (cf : String → CV → Bool) (env : Env) (fuel : Nat) (T : Ty) (v : CV) : Bool :=
  faithfulT cf (fun n m => faithfulObj cf env fuel n m) T v

/-- Contract of the author's coercers of the custom scalars: the literal coercer implements the
    specification `S` on the literal spelling of every client value, the variable coercer on the
    JSON spelling of the values JSON represents faithfully for that scalar (Go nil = failure). -/
def CoercersAgree (Pm : Params) (S : Spec.CustomSpec) (cf : String → CV → Bool) : Prop :=
  (∀ n v, notNil (Pm.customLit n (CV.toLit v)) = S n v) ∧
  (∀ n v, cf n v = true → notNil (Pm.customVar n (toIn v)) = S n v)

end ApiFu.C05.R
