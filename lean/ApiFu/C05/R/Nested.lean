/-
  C05, generalised model: variables nested in a literal (recursive input types, hooks, custom scalars).
-/
import ApiFu.C05.R.LemmasStatic

namespace ApiFu.C05.R
open ApiFu.C05 (Scalar GoVal Lit Parse mapAll CV Vars Supplied inline inlineL inlineF containsVar containsVarL
  containsVarF containsVarL_false containsVarF_false inline_closed inlineL_eq_map mapAll_congr mapAll_map isUnsetVar
  isUnsetVar_closed isUnsetVar_var toLit_not_var inline_not_unset noDupKeys)

/-! ## Definitions -/

/-- As `ApiFu.C05.VarStandsFor`, over the environment; `F` is the fuel of the request. -/
def VarStandsFor (Pm : Params) (cf : String → CV → Bool) (env : Env) (F : Nat) (σ : Supplied) (vars : Vars)
    (L : Ty) (item : Bool) (n : String) : Prop :=
  match σ.lookup n with
  | none => vars.lookup n = none
  | some v =>
    v.wf = true ∧ jsonFaithful cf env F L v = true ∧
    (∃ x, vars.lookup n = some x ∧ coerceVar Pm env F L (toIn v) true = some x) ∧
    (item = true → isListish L = true → (v.isList || v.isNull) = true)

def NestedT (VS : Ty → Bool → String → Prop) (K : String → List (String × Lit) → Prop) : Ty → Bool → Lit → Prop
  | L, item, .var n => VS L item n
  | .nonNull t, item, l => NestedT VS K t item l
  | .list t, _, .list xs => ∀ x ∈ xs, NestedT VS K t true x
  | .list t, false, .obj lfs => NestedT VS K t false (.obj lfs)
  | .ref n, _, .obj lfs => K n lfs
  | _, _, l => containsVar l = false

def NestedFields (rec : Ty → Lit → Prop) : List FieldDef → List (String × Lit) → Prop
  | [], _ => True
  | f :: rest, lfs => (∀ p ∈ lfs, p.1 = f.name → rec f.ty p.2) ∧ NestedFields rec rest lfs

def NestedObj (VS : Ty → Bool → String → Prop) (env : Env) : Nat → String → List (String × Lit) → Prop
  | 0, _, _ => True
  | fuel + 1, n, lfs =>
    match env.lookup n with
    | none => True
    | some od =>
      NestedFields (fun t l => NestedT VS (fun n' l' => NestedObj VS env fuel n' l') t false l) od.fields lfs
      ∧ ∀ p ∈ lfs, hasName od.fields p.1 = true ∨ containsVar p.2 = false

/-! ## Closed literals do not look at the variables -/

theorem coerceLitT_closed (Pm : Params) (vars : Vars) (k k0 : String → List (String × Lit) → Option GoVal)
    (hk : ∀ n lfs, containsVarF lfs = false → k n lfs = k0 n lfs) :
    ∀ (T : Ty) (l : Lit) (a : Bool), containsVar l = false → coerceLitT Pm vars k T l a = coerceLitT Pm [] k0 T l a := by
  intro T
  induction T with
  | scalar s => intro l a h; cases l <;> simp_all [coerceLitT, containsVar]
  | custom n => intro l a h; cases l <;> simp_all [coerceLitT, containsVar]
  | enum n vs => intro l a h; cases l <;> simp_all [coerceLitT, containsVar]
  | ref n =>
    intro l a h
    cases l with
    | obj lfs => simp only [coerceLitT]; exact hk n lfs (by simpa [containsVar] using h)
    | var v => simp [containsVar] at h
    | null => simp [coerceLitT]
    | int z => simp [coerceLitT]
    | float z => simp [coerceLitT]
    | str z => simp [coerceLitT]
    | bool z => simp [coerceLitT]
    | enum z => simp [coerceLitT]
    | list z => simp [coerceLitT]
  | list t ih =>
    intro l a h
    cases l with
    | var v => simp [containsVar] at h
    | null => simp [coerceLitT]
    | list xs =>
      have hx := containsVarL_false (by simpa [containsVar] using h)
      simp only [coerceLitT]
      rw [mapAll_congr (fun x hxm => ih x false (hx x hxm))]
    | int z => simp only [coerceLitT]; rw [ih _ true h]
    | float z => simp only [coerceLitT]; rw [ih _ true h]
    | str z => simp only [coerceLitT]; rw [ih _ true h]
    | bool z => simp only [coerceLitT]; rw [ih _ true h]
    | enum z => simp only [coerceLitT]; rw [ih _ true h]
    | obj z => simp only [coerceLitT]; rw [ih _ true h]
  | nonNull t ih =>
    intro l a h
    cases l with
    | var v => simp [containsVar] at h
    | null => simp [coerceLitT]
    | list xs => simp only [coerceLitT]; exact ih _ a h
    | int z => simp only [coerceLitT]; exact ih _ a h
    | float z => simp only [coerceLitT]; exact ih _ a h
    | str z => simp only [coerceLitT]; exact ih _ a h
    | bool z => simp only [coerceLitT]; exact ih _ a h
    | enum z => simp only [coerceLitT]; exact ih _ a h
    | obj z => simp only [coerceLitT]; exact ih _ a h

theorem coerceLitFields_closed {vars : Vars} {rec rec0 : Ty → Lit → Option GoVal}
    (lfs : List (String × Lit)) (hc : ∀ p ∈ lfs, containsVar p.2 = false)
    (hrec : ∀ t p, p ∈ lfs → rec t p.2 = rec0 t p.2) :
    ∀ (fs : List FieldDef), coerceLitFields vars rec fs lfs = coerceLitFields [] rec0 fs lfs
  | [] => rfl
  | f :: rest => by
    simp only [coerceLitFields]
    rw [coerceLitFields_closed lfs hc hrec rest]
    have hf : lfs.filter (fun p => p.1 == f.name && !isUnsetVar vars p.2)
        = lfs.filter (fun p => p.1 == f.name && !isUnsetVar [] p.2) := by
      apply List.filter_congr
      intro p hp
      rw [isUnsetVar_closed (hc p hp), isUnsetVar_closed (hc p hp)]
    rw [hf, mapAll_congr (fun p hp => hrec f.ty p (List.mem_filter.mp hp).1)]

theorem coerceLitObj_closed (Pm : Params) (env : Env) (vars : Vars) :
    ∀ (fuel : Nat) (n : String) (lfs : List (String × Lit)), containsVarF lfs = false →
      coerceLitObj Pm env vars fuel n lfs = coerceLitObj Pm env [] fuel n lfs := by
  intro fuel
  induction fuel with
  | zero => intro n lfs _; rfl
  | succ fuel ih =>
    intro n lfs hc
    have hcf := containsVarF_false hc
    simp only [coerceLitObj]
    cases env.lookup n with
    | none => rfl
    | some od =>
      simp only
      rw [coerceLitFields_closed
        (rec0 := fun t l => coerceLitT Pm [] (fun n' l' => coerceLitObj Pm env [] fuel n' l') t l true) lfs hcf
        (fun t p hp => coerceLitT_closed Pm vars _ _ (fun n' l' h' => ih n' l' h') t p.2 true (hcf p hp)) od.fields]


/-! ## A variable that stands for a supplied value -/

mutual
theorem litDepth_toLit : ∀ (v : CV), litDepth v.toLit = cvDepth v
  | .null => rfl
  | .int _ => rfl
  | .half _ => rfl
  | .str _ => rfl
  | .bool _ => rfl
  | .enum _ => rfl
  | .list xs => by simp only [CV.toLit, litDepth, cvDepth]; exact litDepthL_toLit xs
  | .obj fs => by simp only [CV.toLit, litDepth, cvDepth]; rw [litDepthF_toLit fs]
theorem litDepthL_toLit : ∀ (xs : List CV), litDepthL (CV.toLitL xs) = cvDepthL xs
  | [] => rfl
  | x :: xs => by simp only [CV.toLitL, litDepthL, cvDepthL]; rw [litDepth_toLit x, litDepthL_toLit xs]
theorem litDepthF_toLit : ∀ (fs : List (String × CV)), litDepthF (CV.toLitF fs) = cvDepthF fs
  | [] => rfl
  | p :: ps => by simp only [CV.toLitF, litDepthF, cvDepthF]; rw [litDepth_toLit p.2, litDepthF_toLit ps]
end

/-- The standing assumptions of this section. -/
structure Ctx where
  Pm : Params
  S : Spec.CustomSpec
  cf : String → CV → Bool
  env : Env
  hh : HookOK Pm
  hc : CoercersAgree Pm S cf

theorem coerce_eq_spec_variable' (C : Ctx) (F : Nat) (L : Ty) (v : CV) (hw : v.wf = true)
    (hf : jsonFaithful C.cf C.env F L v = true) :
    coerceVar C.Pm C.env F L (toIn v) true
      = Spec.coerceT C.Pm.parse C.S (fun n' m' => Spec.coerceObj C.Pm C.S C.env F n' m') L v := by
  have := coerceVarT_eq_spec C.Pm C.S C.cf C.hc.2 (fun n m => coerceVarObj C.Pm C.env F n m)
    (fun n m => Spec.coerceObj C.Pm C.S C.env F n m) (fun n m => faithfulObj C.cf C.env F n m)
    (fun n m h1 h2 => coerceVarObj_eq_spec C.Pm C.S C.cf C.env C.hc.2 F n m h1 h2) L v true hw hf
  simpa [coerceVar] using this

theorem var_stands (C : Ctx) (F : Nat) (σ : Supplied) (vars : Vars) (f : Nat) (hfF : f ≤ F)
    (k : String → List (String × Lit) → Option GoVal) (L : Ty) (item : Bool) (n : String)
    (h : VarStandsFor C.Pm C.cf C.env F σ vars L item n) (hd : litDepth (inline σ (.var n)) ≤ f) :
    coerceLitT C.Pm vars k L (.var n) (!item)
      = coerceLitT C.Pm [] (fun n' l' => coerceLitObj C.Pm C.env [] f n' l') L (inline σ (.var n)) (!item) := by
  simp only [VarStandsFor] at h
  simp only [coerceLitT, inline, coerceVarRef] at hd ⊢
  cases hs : σ.lookup n with
  | none =>
    simp only [hs] at h
    simp [h, coerceLitT]
  | some v =>
    simp only [hs] at h hd
    obtain ⟨hw, hf, ⟨x, hx, hcv⟩, hitem⟩ := h
    simp only [hx]
    have hS : NonNil C.S := by
      intro n' w y hy
      rw [← C.hc.1 n' w] at hy
      exact (notNil_some hy).2
    -- the literal spelling at the local fuel = at the request's fuel = the specification
    have hlit : coerceLitT C.Pm [] (fun n' l' => coerceLitObj C.Pm C.env [] f n' l') L v.toLit (!item)
        = coerceLit C.Pm C.env [] F L v.toLit (!item) :=
      coerceLit_fuel C.Pm C.env [] f F L v.toLit (!item) hd (Nat.le_trans hd hfF)
    have hspecL := coerceLitT_eq_spec C.Pm C.S C.hc.1 (fun n' l' => coerceLitObj C.Pm C.env [] F n' l')
      (fun n' m' => Spec.coerceObj C.Pm C.S C.env F n' m')
      (fun n' m' h1 h2 => coerceLitObj_eq_spec C.Pm C.S C.env C.hh hS C.hc.1 F n' m' h1 h2) L v (!item) hw
    have hspecV := coerce_eq_spec_variable' C F L v hw hf
    rw [hlit]
    simp only [coerceLit]
    rw [hspecL]
    have hxs : Spec.coerceT C.Pm.parse C.S (fun n' m' => Spec.coerceObj C.Pm C.S C.env F n' m') L v = some x := by
      rw [← hspecV]; exact hcv
    have hnil : (x.isNil && isNonNull L) = false := by
      cases hnn : isNonNull L
      · simp
      · simp [specT_nonNull_not_nil C.Pm.parse C.S _ hS (specObj_nonNil C.Pm C.S C.env C.hh F) hnn hxs]
    simp only [hnil]
    cases item with
    | false => simp [hxs]
    | true =>
      simp only [Bool.not_true]
      cases hl : isListish L
      · simp [hxs]
      · have := hitem rfl hl
        simp [this, hxs]


/-! ## Depth of the inlined literal -/

theorem inlineF_depth (σ : Supplied) : ∀ (lfs : List (String × Lit)) (p : String × Lit), p ∈ lfs →
    (∃ n, p.2 = .var n ∧ σ.lookup n = none) ∨ litDepth (inline σ p.2) ≤ litDepthF (inlineF σ lfs)
  | (k, l) :: ps, p, hp => by
    rcases List.mem_cons.mp hp with rfl | hp
    · cases l with
      | var n =>
        cases hs : σ.lookup n with
        | none => exact Or.inl ⟨n, rfl, hs⟩
        | some v => right; simp only [inlineF, inline, hs, litDepthF]; exact Nat.le_max_left ..
      | null => right; simp only [inlineF, litDepthF]; exact Nat.le_max_left ..
      | int z => right; simp only [inlineF, litDepthF]; exact Nat.le_max_left ..
      | float z => right; simp only [inlineF, litDepthF]; exact Nat.le_max_left ..
      | str z => right; simp only [inlineF, litDepthF]; exact Nat.le_max_left ..
      | bool z => right; simp only [inlineF, litDepthF]; exact Nat.le_max_left ..
      | enum z => right; simp only [inlineF, litDepthF]; exact Nat.le_max_left ..
      | list z => right; simp only [inlineF, litDepthF]; exact Nat.le_max_left ..
      | obj z => right; simp only [inlineF, litDepthF]; exact Nat.le_max_left ..
    · rcases inlineF_depth σ ps p hp with h | h
      · exact Or.inl h
      · right
        refine Nat.le_trans h ?_
        cases l with
        | var n =>
          simp only [inlineF]
          cases σ.lookup n with
          | none => exact Nat.le_refl _
          | some v => simp only [litDepthF]; exact Nat.le_max_right ..
        | null => simp only [inlineF, litDepthF]; exact Nat.le_max_right ..
        | int z => simp only [inlineF, litDepthF]; exact Nat.le_max_right ..
        | float z => simp only [inlineF, litDepthF]; exact Nat.le_max_right ..
        | str z => simp only [inlineF, litDepthF]; exact Nat.le_max_right ..
        | bool z => simp only [inlineF, litDepthF]; exact Nat.le_max_right ..
        | enum z => simp only [inlineF, litDepthF]; exact Nat.le_max_right ..
        | list z => simp only [inlineF, litDepthF]; exact Nat.le_max_right ..
        | obj z => simp only [inlineF, litDepthF]; exact Nat.le_max_right ..

theorem inlineL_depth (σ : Supplied) : ∀ (xs : List Lit) (x : Lit), x ∈ xs →
    litDepth (inline σ x) ≤ litDepthL (inlineL σ xs)
  | y :: ys, x, hx => by
    simp only [inlineL, litDepthL]
    rcases List.mem_cons.mp hx with rfl | hx
    · exact Nat.le_max_left ..
    · exact Nat.le_trans (inlineL_depth σ ys x hx) (Nat.le_max_right ..)

theorem all_hasName_inlineF (σ : Supplied) (fs : List FieldDef) : ∀ (lfs : List (String × Lit)),
    (∀ p ∈ lfs, hasName fs p.1 = true ∨ containsVar p.2 = false) →
      (inlineF σ lfs).all (fun p => hasName fs p.1) = lfs.all (fun p => hasName fs p.1)
  | [], _ => rfl
  | (k, l) :: ps, h => by
    have hrest := all_hasName_inlineF σ fs ps (fun p hp => h p (List.mem_cons_of_mem _ hp))
    cases l with
    | var n =>
      have := h (k, .var n) (List.mem_cons_self ..)
      simp only [containsVar, Bool.true_eq_false, or_false] at this
      simp only [inlineF]
      cases σ.lookup n <;> simp [this, hrest]
    | null => simp [inlineF, hrest]
    | int z => simp [inlineF, hrest]
    | float z => simp [inlineF, hrest]
    | str z => simp [inlineF, hrest]
    | bool z => simp [inlineF, hrest]
    | enum z => simp [inlineF, hrest]
    | list z => simp [inlineF, hrest]
    | obj z => simp [inlineF, hrest]

/-! ## The theorem -/

theorem nestedT_var {VS : Ty → Bool → String → Prop} {K : String → List (String × Lit) → Prop} {T : Ty}
    {item : Bool} {n : String} (h : NestedT VS K T item (.var n)) : VS T item n := by
  cases T <;> simpa [NestedT] using h

/-- Outside objects. -/
theorem nestedT_eq (C : Ctx) (F : Nat) (σ : Supplied) (vars : Vars) (f : Nat) (hfF : f ≤ F)
    (K : String → List (String × Lit) → Prop)
    (hk : ∀ n lfs, K n lfs → litDepthF (inlineF σ lfs) + 1 ≤ f →
      coerceLitObj C.Pm C.env vars f n lfs = coerceLitObj C.Pm C.env [] f n (inlineF σ lfs)) :
    ∀ (T : Ty) (l : Lit) (item : Bool), NestedT (VarStandsFor C.Pm C.cf C.env F σ vars) K T item l →
      litDepth (inline σ l) ≤ f →
      coerceLitT C.Pm vars (fun n' l' => coerceLitObj C.Pm C.env vars f n' l') T l (!item)
        = coerceLitT C.Pm [] (fun n' l' => coerceLitObj C.Pm C.env [] f n' l') T (inline σ l) (!item) := by
  have closed : ∀ (T : Ty) (l : Lit) (a : Bool), containsVar l = false →
      coerceLitT C.Pm vars (fun n' l' => coerceLitObj C.Pm C.env vars f n' l') T l a
        = coerceLitT C.Pm [] (fun n' l' => coerceLitObj C.Pm C.env [] f n' l') T (inline σ l) a := by
    intro T l a hc
    rw [inline_closed σ l hc]
    exact coerceLitT_closed C.Pm vars _ _ (fun n lfs h => coerceLitObj_closed C.Pm C.env vars f n lfs h) T l a hc
  intro T
  induction T with
  | scalar s =>
    intro l item h hd
    cases l with
    | var n => exact var_stands C F σ vars f hfF _ _ item n (nestedT_var h) hd
    | null => exact closed _ _ _ rfl
    | int z => exact closed _ _ _ rfl
    | float z => exact closed _ _ _ rfl
    | str z => exact closed _ _ _ rfl
    | bool z => exact closed _ _ _ rfl
    | enum z => exact closed _ _ _ rfl
    | list z => exact closed _ _ _ (by simpa [NestedT] using h)
    | obj z => exact closed _ _ _ (by simpa [NestedT] using h)
  | custom s =>
    intro l item h hd
    cases l with
    | var n => exact var_stands C F σ vars f hfF _ _ item n (nestedT_var h) hd
    | null => exact closed _ _ _ rfl
    | int z => exact closed _ _ _ rfl
    | float z => exact closed _ _ _ rfl
    | str z => exact closed _ _ _ rfl
    | bool z => exact closed _ _ _ rfl
    | enum z => exact closed _ _ _ rfl
    | list z => exact closed _ _ _ (by simpa [NestedT] using h)
    | obj z => exact closed _ _ _ (by simpa [NestedT] using h)
  | enum n vs =>
    intro l item h hd
    cases l with
    | var v => exact var_stands C F σ vars f hfF _ _ item v (nestedT_var h) hd
    | null => exact closed _ _ _ rfl
    | int z => exact closed _ _ _ rfl
    | float z => exact closed _ _ _ rfl
    | str z => exact closed _ _ _ rfl
    | bool z => exact closed _ _ _ rfl
    | enum z => exact closed _ _ _ rfl
    | list z => exact closed _ _ _ (by simpa [NestedT] using h)
    | obj z => exact closed _ _ _ (by simpa [NestedT] using h)
  | ref n =>
    intro l item h hd
    cases l with
    | var v => exact var_stands C F σ vars f hfF _ _ item v (nestedT_var h) hd
    | obj lfs =>
      simp only [NestedT] at h
      simp only [coerceLitT, inline]
      exact hk n lfs h (by simpa [inline, litDepth] using hd)
    | null => exact closed _ _ _ rfl
    | int z => exact closed _ _ _ rfl
    | float z => exact closed _ _ _ rfl
    | str z => exact closed _ _ _ rfl
    | bool z => exact closed _ _ _ rfl
    | enum z => exact closed _ _ _ rfl
    | list z => exact closed _ _ _ (by simpa [NestedT] using h)
  | list t ih =>
    intro l item h hd
    cases l with
    | var v => exact var_stands C F σ vars f hfF _ _ item v (nestedT_var h) hd
    | list xs =>
      simp only [NestedT] at h
      simp only [coerceLitT, inline]
      rw [inlineL_eq_map, mapAll_map]
      have hdx : ∀ x ∈ xs, litDepth (inline σ x) ≤ f := fun x hx =>
        Nat.le_trans (inlineL_depth σ xs x hx) (by simpa [inline, litDepth] using hd)
      rw [mapAll_congr (fun x hx => by simpa using ih x true (h x hx) (hdx x hx))]
    | obj lfs =>
      cases item with
      | false =>
        simp only [NestedT] at h
        have ih' := ih (.obj lfs) false h hd
        simp only [Bool.not_false, inline] at ih' ⊢
        simp only [coerceLitT, if_true, ih']
      | true => exact closed _ _ _ (by simpa [NestedT] using h)
    | null => exact closed _ _ _ rfl
    | int z => exact closed _ _ _ rfl
    | float z => exact closed _ _ _ rfl
    | str z => exact closed _ _ _ rfl
    | bool z => exact closed _ _ _ rfl
    | enum z => exact closed _ _ _ rfl
  | nonNull t ih =>
    intro l item h hd
    cases l with
    | var v => exact var_stands C F σ vars f hfF _ _ item v (nestedT_var h) hd
    | null => exact closed _ _ _ rfl
    | int z => exact closed _ _ _ rfl
    | float z => exact closed _ _ _ rfl
    | str z => exact closed _ _ _ rfl
    | bool z => exact closed _ _ _ rfl
    | enum z => exact closed _ _ _ rfl
    | list xs =>
      simp only [NestedT] at h
      have ih' := ih (.list xs) item h hd
      simp only [inline] at ih' ⊢
      simpa only [coerceLitT] using ih'
    | obj lfs =>
      simp only [NestedT] at h
      have ih' := ih (.obj lfs) item h hd
      simp only [inline] at ih' ⊢
      simpa only [coerceLitT] using ih'

theorem varStands_iff {C : Ctx} {F : Nat} {σ : Supplied} {vars : Vars} {L : Ty} {item : Bool} {n : String}
    (h : VarStandsFor C.Pm C.cf C.env F σ vars L item n) : σ.lookup n = none ↔ vars.lookup n = none := by
  simp only [VarStandsFor] at h
  cases hs : σ.lookup n with
  | none => simp only [hs] at h; simp [h]
  | some v =>
    simp only [hs] at h
    obtain ⟨_, _, ⟨x, hx, _⟩, _⟩ := h
    simp [hx]

theorem nested_fields (σ : Supplied) (vars : Vars) (rec rec0 : Ty → Lit → Option GoVal)
    (N : Ty → Lit → Prop) (lfs : List (String × Lit))
    (hrec : ∀ t (p : String × Lit), p ∈ lfs → N t p.2 → isUnsetVar vars p.2 = false → rec t p.2 = rec0 t (inline σ p.2))
    (hiff : ∀ t (p : String × Lit), p ∈ lfs → N t p.2 → ∀ n, p.2 = .var n → (σ.lookup n = none ↔ vars.lookup n = none)) :
    ∀ (fs : List FieldDef), NestedFields N fs lfs →
      coerceLitFields vars rec fs lfs = coerceLitFields [] rec0 fs (inlineF σ lfs)
  | [], _ => rfl
  | f :: rest, h => by
    simp only [NestedFields] at h
    simp only [coerceLitFields]
    rw [nested_fields σ vars rec rec0 N lfs hrec hiff rest h.2]
    -- restrict the entry lemma to the entries that are in lfs
    have key : ∀ (sub : List (String × Lit)), (∀ p ∈ sub, p ∈ lfs) →
        mapAll (fun (p : String × Lit) => rec f.ty p.2) (sub.filter (fun p => p.1 == f.name && !isUnsetVar vars p.2))
          = mapAll (fun (p : String × Lit) => rec0 f.ty p.2)
            ((inlineF σ sub).filter (fun p => p.1 == f.name && !isUnsetVar [] p.2)) := by
      intro sub
      induction sub with
      | nil => intro _; rfl
      | cons q qs ihs =>
        intro hsub
        have hq := hsub q (List.mem_cons_self ..)
        have hqs := ihs (fun p hp => hsub p (List.mem_cons_of_mem _ hp))
        obtain ⟨k, l⟩ := q
        cases hk : k == f.name with
        | false =>
          have lhs : ((k, l) :: qs).filter (fun p => p.1 == f.name && !isUnsetVar vars p.2)
              = qs.filter (fun p => p.1 == f.name && !isUnsetVar vars p.2) := by simp [List.filter_cons, hk]
          rw [lhs, hqs]
          cases l with
          | var n => simp only [inlineF]; cases σ.lookup n <;> simp [List.filter_cons, hk]
          | null => simp [inlineF, List.filter_cons, hk]
          | int z => simp [inlineF, List.filter_cons, hk]
          | float z => simp [inlineF, List.filter_cons, hk]
          | str z => simp [inlineF, List.filter_cons, hk]
          | bool z => simp [inlineF, List.filter_cons, hk]
          | enum z => simp [inlineF, List.filter_cons, hk]
          | list z => simp [inlineF, List.filter_cons, hk]
          | obj z => simp [inlineF, List.filter_cons, hk]
        | true =>
          have hkn : k = f.name := by simpa using hk
          have hN := h.1 (k, l) hq hkn
          have plain : isUnsetVar vars l = false → inlineF σ ((k, l) :: qs) = (k, inline σ l) :: inlineF σ qs →
              mapAll (fun (p : String × Lit) => rec f.ty p.2)
                  (((k, l) :: qs).filter (fun p => p.1 == f.name && !isUnsetVar vars p.2))
                = mapAll (fun (p : String × Lit) => rec0 f.ty p.2)
                  ((inlineF σ ((k, l) :: qs)).filter (fun p => p.1 == f.name && !isUnsetVar [] p.2)) := by
            intro hu hi
            rw [hi]
            simp only [List.filter_cons, hk, hu, inline_not_unset, Bool.not_false, Bool.and_self, if_true, mapAll]
            rw [hrec f.ty (k, l) hq hN hu, hqs]
          cases l with
          | var n =>
            have hi2 := hiff f.ty (k, .var n) hq hN n rfl
            cases hs : σ.lookup n with
            | none =>
              have hv := hi2.mp hs
              have hu : isUnsetVar vars (.var n) = true := by rw [isUnsetVar_var, hv]; rfl
              have hi : inlineF σ ((k, .var n) :: qs) = inlineF σ qs := by simp only [inlineF, hs]
              rw [hi]
              simp only [List.filter_cons, hk, hu, Bool.not_true, Bool.and_false, Bool.false_eq_true, if_false]
              exact hqs
            | some v =>
              have hv : vars.lookup n ≠ none := fun hn => by simp [hi2.mpr hn] at hs
              have hu : isUnsetVar vars (.var n) = false := by
                rw [isUnsetVar_var]
                cases hvl : vars.lookup n with
                | none => exact absurd hvl hv
                | some x => rfl
              have hi : inlineF σ ((k, .var n) :: qs) = (k, inline σ (.var n)) :: inlineF σ qs := by
                simp only [inlineF, inline, hs]
              exact plain hu hi
          | null => exact plain rfl rfl
          | int z => exact plain rfl rfl
          | float z => exact plain rfl rfl
          | str z => exact plain rfl rfl
          | bool z => exact plain rfl rfl
          | enum z => exact plain rfl rfl
          | list z => exact plain rfl rfl
          | obj z => exact plain rfl rfl
    rw [key lfs (fun p hp => hp)]

/-- The inside of an object. -/
theorem nestedObj_eq (C : Ctx) (F : Nat) (σ : Supplied) (vars : Vars) :
    ∀ (f : Nat), f ≤ F → ∀ (n : String) (lfs : List (String × Lit)),
      NestedObj (VarStandsFor C.Pm C.cf C.env F σ vars) C.env f n lfs → litDepthF (inlineF σ lfs) + 1 ≤ f →
      coerceLitObj C.Pm C.env vars f n lfs = coerceLitObj C.Pm C.env [] f n (inlineF σ lfs) := by
  intro f
  induction f with
  | zero => intro _ n lfs _ hd; omega
  | succ g ih =>
    intro hfF n lfs h hd
    have hgF : g ≤ F := by omega
    simp only [coerceLitObj]
    simp only [NestedObj] at h
    cases hl : C.env.lookup n with
    | none => rfl
    | some od =>
      simp only [hl] at h
      simp only
      rw [all_hasName_inlineF σ od.fields lfs h.2]
      have hdep : ∀ p ∈ lfs, isUnsetVar vars p.2 = false →
          (∀ nn, p.2 = .var nn → (σ.lookup nn = none ↔ vars.lookup nn = none)) → litDepth (inline σ p.2) ≤ g := by
        intro p hp hu hi
        rcases inlineF_depth σ lfs p hp with ⟨nn, hpn, hs⟩ | hle
        · exfalso
          have := (hi nn hpn).mp hs
          rw [hpn, isUnsetVar_var, this] at hu
          simp at hu
        · omega
      rw [nested_fields σ vars
        (fun t l => coerceLitT C.Pm vars (fun n' l' => coerceLitObj C.Pm C.env vars g n' l') t l true)
        (fun t l => coerceLitT C.Pm [] (fun n' l' => coerceLitObj C.Pm C.env [] g n' l') t l true)
        (fun t l => NestedT (VarStandsFor C.Pm C.cf C.env F σ vars)
          (fun n' l' => NestedObj (VarStandsFor C.Pm C.cf C.env F σ vars) C.env g n' l') t false l)
        lfs ?_ ?_ od.fields h.1]
      · intro t p hp hN hu
        have hi : ∀ nn, p.2 = .var nn → (σ.lookup nn = none ↔ vars.lookup nn = none) := by
          intro nn hpn
          rw [hpn] at hN
          exact varStands_iff (nestedT_var hN)
        have := nestedT_eq C F σ vars g hgF _ (fun n' l' hK hd' => ih hgF n' l' hK hd') t p.2 false hN
          (hdep p hp hu hi)
        simpa using this
      · intro t p hp hN nn hpn
        rw [hpn] at hN
        exact varStands_iff (nestedT_var hN)

end ApiFu.C05.R
