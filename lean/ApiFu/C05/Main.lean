/-
  C05 model driver. One S-expression per line in, one out.

    (dt "<text>" (some "<rendering>")|none)               → ok     -- rendering table (Go's parser); acceptance is Rfc3339.accepts
    (dtshape "<text>")                                    → (shape <accepted by Go's UnmarshalText> <RFC 3339 proper>)
    (case field|directive <argdefs> <vardefs> <args> <raw>) → (res <outcome> <outcome before F-04d's repair (diagnostic only)> <coercion without the validation gate (diagnostic only)>)
    (lit <ty> <lit> <vars>)                               → (ok <goval>) | err      -- schema.CoerceLiteral
    (var <ty> <json>)                                     → (ok <goval>) | err      -- schema.CoerceVariableValue
    (vc <ty> <lit>)                                       → true | false            -- validateCoercion returns no error
    (spec <ty> <cv>)                                      → (ok <goval>) | err      -- Spec.coerce
    (conf <ty> <goval>)                                   → true | false            -- conforms

    ty     := Int|Float|String|Boolean|ID|DateTime|LongInt | (enum N (v…)) | (input N ((f ty dflt)…)) | (list ty) | (nn ty)
    dflt   := none | (some goval)
    goval  := nil | (int z) | (long z) | (float h) | (str s) | (bool b) | (time s) | (enum n) | (list goval…) | (obj (k goval)…)
    lit    := null | (var n) | (int z) | (float h) | (str s) | (bool b) | (enum n) | (list lit…) | (obj (k lit)…)
    json   := null | (num h) | (str s) | (bool b) | (list json…) | (obj (k json)…)
    cv     := null | (int z) | (half h) | (str s) | (bool b) | (enum n) | (list cv…) | (obj (k cv)…)
    outcome:= invalid | reqerr | fielderr | (ok (name goval)…)

  Every other line is handed to the generalised model's driver (ApiFu/C05/R/Driver.lean: rcase, rlit, rvar,
  rspec — type environment with recursive input objects, hooks, custom scalars, Go kinds).
-/
import ApiFu.Common.Sexp
import ApiFu.Common.Loop
import ApiFu.C05.Model
import ApiFu.C05.Spec
import ApiFu.C05.R.Driver
import ApiFu.C05.Rfc3339

open ApiFu ApiFu.C05

abbrev St := List (String × Option String)

/-- The parameter `P`: *whether* a string is a timestamp is decided here (`Rfc3339.accepts`, the
    decidable shape of what Go's `UnmarshalText` takes); *which* instant and zone it is comes from
    Go's parser through the table. -/
def parseOf (st : St) : Parse := fun s =>
  if Rfc3339.accepts s.toList then
    match st.lookup s with
    | some r => r
    | none => none
  else none

def scalarOf : String → Option Scalar
  | "Int" => some .int
  | "Float" => some .float
  | "String" => some .string
  | "Boolean" => some .boolean
  | "ID" => some .id
  | "DateTime" => some .dateTime
  | "LongInt" => some .longInt
  | _ => none

def kvs {α : Type} (f : Sexp → Option α) (xs : List Sexp) : Option (List (String × α)) :=
  xs.mapM fun (x : Sexp) => match x with
    | Sexp.list [Sexp.atom k, v] => (f v).map (fun v => (k, v))
    | _ => none

partial def goValOf : Sexp → Option GoVal
  | .atom "nil" => some .nil
  | .list [.atom "int", z] => z.int?.map .int
  | .list [.atom "long", z] => z.int?.map .long
  | .list [.atom "float", h] => h.int?.map .float
  | .list [.atom "str", .atom s] => some (.str s)
  | .list [.atom "bool", .atom b] => some (.bool (b == "true"))
  | .list [.atom "time", .atom s] => some (.time s)
  | .list [.atom "enum", .atom n] => some (.enumv n)
  | .list (.atom "list" :: xs) => (xs.mapM goValOf).map .list
  | .list (.atom "obj" :: fs) =>
    (kvs goValOf fs).map .obj
  | _ => none

def dfltOf : Sexp → Option (Option GoVal)
  | .atom "none" => some none
  | .list [.atom "some", v] => (goValOf v).map some
  | _ => none

mutual
partial def tyOf : Sexp → Option Ty
  | .atom a => (scalarOf a).map .scalar
  | .list [.atom "enum", .atom n, .list vs] => (vs.mapM Sexp.atom?).map (.enum n)
  | .list [.atom "input", .atom n, .list fs] => (fieldsOf fs).map (.inputObj n)
  | .list [.atom "list", t] => (tyOf t).map .list
  | .list [.atom "nn", t] => (tyOf t).map .nonNull
  | _ => none
partial def fieldsOf : List Sexp → Option Fields
  | [] => some .nil
  | .list [.atom f, t, d] :: rest => do
    let t ← tyOf t
    let d ← dfltOf d
    let r ← fieldsOf rest
    pure (.cons f t d r)
  | _ => none
end

partial def litOf : Sexp → Option Lit
  | .atom "null" => some .null
  | .list [.atom "var", .atom n] => some (.var n)
  | .list [.atom "int", z] => z.int?.map .int
  | .list [.atom "float", h] => h.int?.map .float
  | .list [.atom "str", .atom s] => some (.str s)
  | .list [.atom "bool", .atom b] => some (.bool (b == "true"))
  | .list [.atom "enum", .atom n] => some (.enum n)
  | .list (.atom "list" :: xs) => (xs.mapM litOf).map .list
  | .list (.atom "obj" :: fs) =>
    (kvs litOf fs).map .obj
  | _ => none

partial def jsonOf : Sexp → Option Json
  | .atom "null" => some .null
  | .list [.atom "num", h] => h.int?.map .num
  | .list [.atom "str", .atom s] => some (.str s)
  | .list [.atom "bool", .atom b] => some (.bool (b == "true"))
  | .list (.atom "list" :: xs) => (xs.mapM jsonOf).map .list
  | .list (.atom "obj" :: fs) =>
    (kvs jsonOf fs).map .obj
  | _ => none

partial def cvOf : Sexp → Option CV
  | .atom "null" => some .null
  | .list [.atom "int", z] => z.int?.map .int
  | .list [.atom "half", h] => h.int?.map .half
  | .list [.atom "str", .atom s] => some (.str s)
  | .list [.atom "bool", .atom b] => some (.bool (b == "true"))
  | .list [.atom "enum", .atom n] => some (.enum n)
  | .list (.atom "list" :: xs) => (xs.mapM cvOf).map .list
  | .list (.atom "obj" :: fs) =>
    (kvs cvOf fs).map .obj
  | _ => none

partial def goValSexp : GoVal → Sexp
  | .nil => .atom "nil"
  | .int z => Sexp.node "int" [Sexp.ofInt z]
  | .long z => Sexp.node "long" [Sexp.ofInt z]
  | .float h => Sexp.node "float" [Sexp.ofInt h]
  | .str s => Sexp.node "str" [.atom s]
  | .bool b => Sexp.node "bool" [Sexp.ofBool b]
  | .time s => Sexp.node "time" [.atom s]
  | .enumv n => Sexp.node "enum" [.atom n]
  | .list xs => Sexp.node "list" (xs.map goValSexp)
  | .obj fs => Sexp.node "obj" (fs.map fun p => .list [.atom p.1, goValSexp p.2])

def pairsOf {α : Type} (f : Sexp → Option α) : Sexp → Option (List (String × α))
  | .list xs => kvs f xs
  | _ => none

def argDefsOf : Sexp → Option (List ArgDef)
  | .list xs => xs.mapM fun (x : Sexp) => match x with
    | Sexp.list [Sexp.atom n, t, d] => do
      let t ← tyOf t
      let d ← dfltOf d
      pure { name := n, ty := t, dflt := d }
    | _ => none
  | _ => none

def varDefsOf : Sexp → Option (List VarDef)
  | .list xs => xs.mapM fun (x : Sexp) => match x with
    | Sexp.list [Sexp.atom n, t, Sexp.atom "none"] => (tyOf t).map fun t => { name := n, ty := t, dflt := none }
    | Sexp.list [Sexp.atom n, t, Sexp.list [Sexp.atom "some", l]] => do
      let t ← tyOf t
      let l ← litOf l
      pure { name := n, ty := t, dflt := some l }
    | _ => none
  | _ => none

def outcomeSexp : Outcome → Sexp
  | .invalid => .atom "invalid"
  | .reqErr => .atom "reqerr"
  | .fieldErr => .atom "fielderr"
  | .invoked args => Sexp.node "ok" (args.map fun p => .list [.atom p.1, goValSexp p.2])

def resSexp : Option GoVal → String
  | some v => toString (Sexp.node "ok" [goValSexp v])
  | none => "err"

def handle (st : St) (line : String) : St × String :=
  match Sexp.parse line with
  | some (.list [.atom "dtshape", .atom t]) =>
    (st, toString (Sexp.node "shape" [Sexp.ofBool (Rfc3339.accepts t.toList), Sexp.ofBool (Rfc3339.strict t.toList)]))
  | some (.list [.atom "dt", .atom t, .atom "none"]) => ((t, none) :: st, "ok")
  | some (.list [.atom "dt", .atom t, .list [.atom "some", .atom c]]) => ((t, some c) :: st, "ok")
  | some (.list [.atom "case", .atom site, ad, vd, ar, rw]) =>
    match argDefsOf ad, varDefsOf vd, pairsOf litOf ar, pairsOf jsonOf rw with
    | some ad, some vd, some ar, some rw =>
      let c : Case := { site := if site == "directive" then .directive else .field,
                        argDefs := ad, varDefs := vd, args := ar, raw := rw }
      let P := parseOf st
      (st, toString (Sexp.node "res" [outcomeSexp (run P true c), outcomeSexp (run P false c),
                                      outcomeSexp (coerceCase P c)]))
    | _, _, _, _ => (st, "bad-op")
  | some (.list [.atom "lit", t, l, vs]) =>
    match tyOf t, litOf l, pairsOf goValOf vs with
    | some t, some l, some vs => (st, resSexp (coerceLit (parseOf st) vs t l true))
    | _, _, _ => (st, "bad-op")
  | some (.list [.atom "var", t, j]) =>
    match tyOf t, jsonOf j with
    | some t, some j => (st, resSexp (coerceVar (parseOf st) t j true))
    | _, _ => (st, "bad-op")
  | some (.list [.atom "vc", t, l]) =>
    match tyOf t, litOf l with
    | some t, some l => (st, toString (validateCoercion (parseOf st) t l true))
    | _, _ => (st, "bad-op")
  | some (.list [.atom "spec", t, v]) =>
    match tyOf t, cvOf v with
    | some t, some v => (st, resSexp (Spec.coerce (parseOf st) t v))
    | _, _ => (st, "bad-op")
  | some (.list [.atom "conf", t, v]) =>
    match tyOf t, goValOf v with
    | some t, some v => (st, toString (conforms t v))
    | _, _ => (st, "bad-op")
  | some x =>
    match ApiFu.C05.R.Driver.handle (parseOf st) x with
    | some r => (st, r)
    | none => (st, "bad-op")
  | none => (st, "bad-op")

def main : IO Unit := lineLoop handle []
