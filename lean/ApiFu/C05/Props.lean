/-
  C05 — property theorems. For every RFC 3339 parser `P`, every input type, every client value,
  every set of variable / argument definitions (unbounded: structural induction over the mutual
  inductive `Ty` / `Fields`).

  Hypotheses that recur:
  * `T.wf` — the *schema* is well-formed: field names of an input object are distinct (a Go map)
    and every declared default (a raw Go value the schema author supplies, handed to resolvers
    unchanged) conforms to its own type. Not a property of the request.
  * `VarsOK defs vars` — every runtime variable value conforms to the variable's declared type;
    *proved* for the output of `coerceVariableValues` (`variables_conform`).
  * `usage … = true` — `validateVariables` accepted every variable usage (the document is valid).
-/
import ApiFu.C05.Model
import ApiFu.C05.Spec
import ApiFu.C05.Lemmas

namespace ApiFu.C05

/-! ## coerced_conforms — whatever a coercion route returns conforms to the type -/

/-- **coerced_conforms (variable route).** `coerceVariableValue(json, T)` = ok x ⇒ x conforms to T:
    never nil at non-null, a list at a list type (single items wrapped), a declared enum value, a
    complete field map. All types, all JSON values, both values of the item-to-list flag. -/
theorem coerced_conforms_variable (P : Parse) (T : Ty) (j : Json) (allow : Bool) (x : GoVal)
    (hwf : T.wf = true) (h : coerceVar P T j allow = some x) : conforms T x = true :=
  coerceVar_conforms P T j allow x hwf h

/-- **coerced_conforms (literal route, closed literal).** `coerceLiteral(lit, T, ∅)` = ok x ⇒ x
    conforms to T, for every literal without variables. -/
theorem coerced_conforms_literal (P : Parse) (T : Ty) (l : Lit) (allow : Bool) (x : GoVal)
    (hwf : T.wf = true) (hclosed : containsVar l = false) (h : coerceLit P [] T l allow = some x) :
    conforms T x = true :=
  coerceLit_conforms P [] true [] (fun n v hl => by simp at hl) T l allow false x hwf
    (usage_of_noVar [] true T false l hclosed) h

/-- **coerced_conforms (literal route with variables).** If the variables hold values conforming
    to their declared types and every usage inside the literal passed `validateVariableUsage`
    (with the expected types `NewTypeInfo` assigns), the coerced value conforms — in particular
    an explicit null that reached a nullable variable never surfaces at a non-null position
    (patches 01, 02). -/
theorem coerced_conforms_literal_vars (P : Parse) (defs : List VarDef) (unwrap : Bool) (vars : Vars)
    (hv : VarsOK defs vars) (T : Ty) (l : Lit) (allow ld : Bool) (x : GoVal) (hwf : T.wf = true)
    (hu : usage defs unwrap T ld l = true) (h : coerceLit P vars T l allow = some x) :
    conforms T x = true :=
  coerceLit_conforms P defs unwrap vars hv T l allow ld x hwf hu h

/-- **coerced_conforms (specification).** The reference coercion conforms as well. -/
theorem coerced_conforms_spec (P : Parse) (T : Ty) (v : CV) (x : GoVal) (hwf : T.wf = true)
    (h : Spec.coerce P T v = some x) : conforms T x = true :=
  spec_coerce_conforms P T v x hwf h

-- non-vacuity: a nested single item is wrapped twice and conforms; a null item does not pass [Int!]
example : coerceVar (fun _ => none) (.list (.list (.scalar .int))) (.num 2) true
    = some (.list [.list [.int 1]]) := by rfl
example : conforms (.list (.list (.scalar .int))) (.list [.list [.int 1]]) = true := by rfl
example : coerceVar (fun _ => none) (.list (.nonNull (.scalar .int))) (.list [.null]) true = none := by rfl
example : conforms (.list (.nonNull (.scalar .int))) (.list [.nil]) = false := by rfl

/-! ## variables_conform / arguments_conform -/

/-- Well-formed variable definitions: distinct names, well-formed types, constant defaults
    (`validateVariables` / the parser's "expected constant value"). -/
def VarDefsOK (defs : List VarDef) : Prop :=
  noDupNames (defs.map (·.name)) = true ∧
  ∀ d ∈ defs, d.ty.wf = true ∧ ∀ l, d.dflt = some l → containsVar l = false

/-- **variables_conform.** Every entry of `CoerceVariableValues`' result conforms to the declared
    type of its variable — whether it came from the JSON value or from the variable's default. -/
theorem variables_conform (P : Parse) (defs : List VarDef) (raw : List (String × Json)) (vars : Vars)
    (hd : VarDefsOK defs) (h : coerceVariableValues P defs raw = some vars) : VarsOK defs vars := by
  intro n v hl
  obtain ⟨d, hfind, hfd⟩ := collect_lookup_find hd.1 h hl
  refine ⟨d, hfind, ?_⟩
  obtain ⟨hwf, hconst⟩ := hd.2 d (List.mem_of_find?_eq_some hfind)
  simp only [coerceVariable] at hfd
  cases hr : raw.lookup d.name with
  | some j =>
    simp only [hr] at hfd
    obtain ⟨c, hc, hcv⟩ := Option.map_eq_some_iff.mp hfd
    cases hcv
    exact coerceVar_conforms P d.ty j true v hwf hc
  | none =>
    simp only [hr] at hfd
    cases hdf : d.dflt with
    | none =>
      simp only [hdf] at hfd
      split at hfd <;> simp at hfd
    | some l =>
      simp only [hdf] at hfd
      obtain ⟨c, hc, hcv⟩ := Option.map_eq_some_iff.mp hfd
      cases hcv
      exact coerced_conforms_literal P d.ty l true v hwf (hconst l hdf) hc

/-- The argument definitions of a field or directive in a well-formed schema. -/
def ArgDefsOK (defs : List ArgDef) : Prop :=
  noDupNames (defs.map (·.name)) = true ∧
  ∀ d ∈ defs, d.ty.wf = true ∧ ∀ dv, d.dflt = some dv → conforms d.ty dv = true

/-- What a resolver may rely on: for every declared argument, a conforming value — or no entry,
    and then the argument is nullable and has no default. -/
def ArgsConform (defs : List ArgDef) (m : List (String × GoVal)) : Prop :=
  ∀ d ∈ defs, match m.lookup d.name with
    | some v => conforms d.ty v = true
    | none => isNonNull d.ty = false ∧ d.dflt = none

/-- **arguments_conform.** For a field (or directive) of a well-formed schema, written in a
    document whose variable usages `validateVariables` accepted, executed with variable values
    that conform to their declared types: if `CoerceArgumentValues` succeeds, *every* declared
    argument conforms (literal, variable, nested variable, default, omission alike). -/
theorem arguments_conform (P : Parse) (unwrap : Bool) (c : Case) (vars : Vars)
    (args : List (String × GoVal)) (hdefs : ArgDefsOK c.argDefs) (hv : VarsOK c.varDefs vars)
    (hvalid : variablesValid unwrap c = true)
    (h : coerceArgumentValues P vars c.args c.argDefs = some args) : ArgsConform c.argDefs args := by
  intro d hd
  obtain ⟨hwf, hdflt⟩ := hdefs.2 d hd
  have hres := collect_lookup_mem (name := fun (d : ArgDef) => d.name) hdefs.1 h d hd
  simp only [variablesValid, Bool.and_eq_true, List.all_eq_true] at hvalid
  -- the usage rule for the argument as written (if it is written)
  have husage : ∀ l, lookupLast d.name c.args = some l →
      usage c.varDefs unwrap d.ty (argLocDefault c.site d.dflt) l = true := by
    intro l hl
    have := hvalid.1.2 (d.name, l) (lookupLast_mem hl)
    simpa [find_self hdefs.1 hd] using this
  simp only [coerceArgument] at hres
  cases hl : args.lookup d.name with
  | some v =>
    simp only [hl] at hres ⊢
    split at hres
    · -- no value: the declared default
      cases hdf : d.dflt with
      | some dv => simp only [hdf] at hres; cases hres; exact hdflt v hdf
      | none => simp only [hdf] at hres; split at hres <;> simp at hres
    · cases hav : lookupLast d.name c.args with
      | none => simp [hav] at hres
      | some l =>
        have hu := husage l hav
        simp only [hav] at hres
        cases l with
        | var n =>
          simp only at hres
          cases hvl : vars.lookup n with
          | none => simp [hvl] at hres
          | some w =>
            simp only [hvl] at hres
            split at hres
            · simp at hres
            · rename_i hnn
              cases hres
              simp only [usage] at hu
              exact allowed_conforms hv hu hvl (by simpa using hnn)
        | null =>
          obtain ⟨x, hx, hxe⟩ := Option.map_eq_some_iff.mp hres; cases hxe
          exact coerceLit_conforms P c.varDefs unwrap vars hv d.ty _ true _ v hwf hu hx
        | int z =>
          obtain ⟨x, hx, hxe⟩ := Option.map_eq_some_iff.mp hres; cases hxe
          exact coerceLit_conforms P c.varDefs unwrap vars hv d.ty _ true _ v hwf hu hx
        | float z =>
          obtain ⟨x, hx, hxe⟩ := Option.map_eq_some_iff.mp hres; cases hxe
          exact coerceLit_conforms P c.varDefs unwrap vars hv d.ty _ true _ v hwf hu hx
        | str z =>
          obtain ⟨x, hx, hxe⟩ := Option.map_eq_some_iff.mp hres; cases hxe
          exact coerceLit_conforms P c.varDefs unwrap vars hv d.ty _ true _ v hwf hu hx
        | bool z =>
          obtain ⟨x, hx, hxe⟩ := Option.map_eq_some_iff.mp hres; cases hxe
          exact coerceLit_conforms P c.varDefs unwrap vars hv d.ty _ true _ v hwf hu hx
        | enum z =>
          obtain ⟨x, hx, hxe⟩ := Option.map_eq_some_iff.mp hres; cases hxe
          exact coerceLit_conforms P c.varDefs unwrap vars hv d.ty _ true _ v hwf hu hx
        | list z =>
          obtain ⟨x, hx, hxe⟩ := Option.map_eq_some_iff.mp hres; cases hxe
          exact coerceLit_conforms P c.varDefs unwrap vars hv d.ty _ true _ v hwf hu hx
        | obj z =>
          obtain ⟨x, hx, hxe⟩ := Option.map_eq_some_iff.mp hres; cases hxe
          exact coerceLit_conforms P c.varDefs unwrap vars hv d.ty _ true _ v hwf hu hx
  | none =>
    simp only [hl] at hres ⊢
    split at hres
    · cases hdf : d.dflt with
      | some dv => simp [hdf] at hres
      | none =>
        simp only [hdf] at hres
        split at hres
        · simp at hres
        · rename_i hnn; exact ⟨by simpa using hnn, rfl⟩
    · cases hav : lookupLast d.name c.args with
      | none => simp [hav] at hres
      | some l =>
        simp only [hav] at hres
        cases l with
        | var n =>
          simp only at hres
          cases hvl : vars.lookup n with
          | none => simp [hvl] at hres
          | some w => simp only [hvl] at hres; split at hres <;> simp at hres
        | null => simp at hres
        | int z => simp at hres
        | float z => simp at hres
        | str z => simp at hres
        | bool z => simp at hres
        | enum z => simp at hres
        | list z => simp at hres
        | obj z => simp at hres


-- non-vacuity of `arguments_conform`: F-05a's request. A nullable variable with a default is
-- allowed at `a: Int!`; with an explicit null CoerceArgumentValues now fails (as found it
-- returned `[("a", nil)]`, which does not conform).
example :
    let c : Case := { site := .field, argDefs := [{ name := "a", ty := .nonNull (.scalar .int), dflt := none }],
                      varDefs := [{ name := "v", ty := .scalar .int, dflt := some (.int 1) }],
                      args := [("a", .var "v")], raw := [("v", .null)] }
    variablesValid true c = true ∧ coerceVariableValues (fun _ => none) c.varDefs c.raw = some [("v", .nil)]
      ∧ coerceArgumentValues (fun _ => none) [("v", .nil)] c.args c.argDefs = none := by
  refine ⟨by rfl, by rfl, by rfl⟩
example :
    let c : Case := { site := .field, argDefs := [{ name := "a", ty := .nonNull (.scalar .int), dflt := none }],
                      varDefs := [{ name := "v", ty := .scalar .int, dflt := some (.int 1) }],
                      args := [("a", .var "v")], raw := [] }
    run (fun _ => none) true c = .invoked [("a", .int 1)] := by rfl

/-! ## The whole request: what the resolver observes -/

/-- **resolver_invoked_only_with_coerced_arguments.** The resolver (directive filter) is invoked
    only when validation, `CoerceVariableValues` and `CoerceArgumentValues` all succeeded, and then
    with exactly the coerced map; `invalid`, `reqErr` and `fieldErr` invoke nothing. The same
    gate guards the cost function (`ValidateCost` runs only on valid documents, patch 06). -/
theorem resolver_invoked_only_with_coerced_arguments (P : Parse) (unwrap : Bool) (c : Case)
    (args : List (String × GoVal)) (h : run P unwrap c = .invoked args) :
    validate P unwrap c = true ∧ ∃ vars, coerceVariableValues P c.varDefs c.raw = some vars ∧
      coerceArgumentValues P vars c.args c.argDefs = some args := by
  simp only [run] at h
  split at h
  · rename_i hval
    refine ⟨hval, ?_⟩
    simp only [coerceCase] at h
    cases hv : coerceVariableValues P c.varDefs c.raw with
    | none => simp [hv] at h
    | some vars =>
      cases ha : coerceArgumentValues P vars c.args c.argDefs with
      | none => simp [hv, ha] at h
      | some a =>
        refine ⟨vars, rfl, ?_⟩
        simp [hv, ha] at h
        rw [ha, h]
  · simp at h

/-- **arguments_conform (end to end).** In a well-formed schema, whenever `graphql.Execute` calls
    the resolver of a field — or the filter of a directive — every declared argument it observes
    conforms to its declared type, whatever mixture of literals, variables, nested variables,
    defaults, omissions and explicit nulls the client used. -/
theorem observed_arguments_conform (P : Parse) (unwrap : Bool) (c : Case) (args : List (String × GoVal))
    (hdefs : ArgDefsOK c.argDefs) (hvt : ∀ d ∈ c.varDefs, d.ty.wf = true)
    (h : run P unwrap c = .invoked args) : ArgsConform c.argDefs args := by
  obtain ⟨hval, vars, hvars, hargs⟩ := resolver_invoked_only_with_coerced_arguments P unwrap c args h
  simp only [validate, Bool.and_eq_true] at hval
  obtain ⟨⟨_, hvalues⟩, hvariables⟩ := hval
  have hvd : VarDefsOK c.varDefs := by
    refine ⟨?_, ?_⟩
    · simp only [variablesValid, Bool.and_eq_true] at hvariables
      exact hvariables.1.1
    · intro d hd
      refine ⟨hvt d hd, ?_⟩
      intro l hl
      simp only [valuesValid, Bool.and_eq_true, List.all_eq_true] at hvalues
      have := hvalues.2 d hd
      simp only [hl, Bool.and_eq_true] at this
      simpa using this.1
  exact arguments_conform P unwrap c vars args hdefs (variables_conform P c.varDefs c.raw vars hvd hvars)
    hvariables hargs

/-! ## default_routes — an omitted argument / variable / input field yields exactly the declared default -/

/-- **default_routes (argument).** An argument that is not written, or written as a variable
    without a runtime value, is exactly its declared default (`schema.Null` ↦ nil). -/
theorem default_routes_argument (P : Parse) (vars : Vars) (d : ArgDef) (dv : GoVal) (av : Option Lit)
    (hd : d.dflt = some dv) (hav : av = none ∨ ∃ n, av = some (.var n) ∧ vars.lookup n = none) :
    coerceArgument P vars d av = some (some dv) := by
  rcases hav with rfl | ⟨n, rfl, hn⟩ <;> simp [coerceArgument, argHasValue, *]

/-- … and without a default the argument is absent (nullable type) or the field fails (non-null). -/
theorem default_routes_argument_none (P : Parse) (vars : Vars) (d : ArgDef) (av : Option Lit)
    (hd : d.dflt = none) (hav : av = none ∨ ∃ n, av = some (.var n) ∧ vars.lookup n = none) :
    coerceArgument P vars d av = if isNonNull d.ty then none else some none := by
  rcases hav with rfl | ⟨n, rfl, hn⟩ <;> simp [coerceArgument, argHasValue, *]

/-- **default_routes (variable).** A variable without a JSON value is the coercion of its default
    literal — the very function the literal route uses. -/
theorem default_routes_variable (P : Parse) (raw : List (String × Json)) (d : VarDef) (l : Lit)
    (hd : d.dflt = some l) (hraw : raw.lookup d.name = none) :
    coerceVariable P raw d = (coerceLit P [] d.ty l true).map some := by
  simp [coerceVariable, hd, hraw]

/-- **default_routes (input field, all three routes).** A declared field for which the client
    supplies nothing — no JSON member, no literal entry (or only variables without a runtime
    value), no member of the abstract value — appears in the result with exactly its default. -/
theorem default_routes_field (name : String) (ty : Ty) (dv : GoVal) (tl : Option (List (String × GoVal))) :
    addField name ty (some dv) none tl = tl.map (fun t => (name, dv) :: t) := by
  simp [addField]

theorem default_routes_field_variable (P : Parse) (name : String) (ty : Ty) (dv : GoVal) (rest : Fields)
    (m : List (String × Json)) (h : m.lookup name = none) :
    coerceVarFields P (.cons name ty (some dv) rest) m
      = (coerceVarFields P rest m).map (fun t => (name, dv) :: t) := by
  simp [coerceVarFields, h, addField]

theorem default_routes_field_literal (P : Parse) (vars : Vars) (name : String) (ty : Ty) (dv : GoVal)
    (rest : Fields) (lfs : List (String × Lit))
    (h : ∀ p ∈ lfs, p.1 = name → isUnsetVar vars p.2 = true) :
    coerceLitFields P vars (.cons name ty (some dv) rest) lfs
      = (coerceLitFields P vars rest lfs).map (fun t => (name, dv) :: t) := by
  have hf : lfs.filter (fun p => p.1 == name && !isUnsetVar vars p.2) = [] := by
    rw [List.filter_eq_nil_iff]
    intro p hp
    by_cases hn : p.1 = name
    · simp [hn, h p hp hn]
    · simp [hn]
  simp [coerceLitFields, hf, mapAll, litProvided, addField]

theorem default_routes_field_spec (P : Parse) (name : String) (ty : Ty) (dv : GoVal) (rest : Fields)
    (m : List (String × CV)) (h : m.lookup name = none) :
    Spec.coerceFields P (.cons name ty (some dv) rest) m
      = (Spec.coerceFields P rest m).map (fun t => (name, dv) :: t) := by
  simp [Spec.coerceFields, h, addField]


/-! ## coerce_eq_spec / route_agreement -/

/-- **coerce_eq_spec (literal route).** For every type and every client value (an unordered map
    at every object level), `coerceLiteral` of its literal spelling *is* the specification's input
    coercion — and with the item-to-list flag off (the items of a list value) it is the
    specification's item rule. After patch 03 the flag is exactly "this value is not an item". -/
theorem coerce_eq_spec_literal (P : Parse) (T : Ty) (v : CV) (hw : v.wf = true) :
    coerceLit P [] T v.toLit true = Spec.coerce P T v ∧
    coerceLit P [] T v.toLit false = Spec.coerceItem P T v :=
  ⟨by simpa using coerceLit_eq_spec P T v true hw, by simpa using coerceLit_eq_spec P T v false hw⟩

/-- **coerce_eq_spec (variable route).** The same for `coerceVariableValue` of the JSON spelling,
    for the client values JSON keeps apart at that type (`jsonFaithful`: JSON has one number
    syntax and no enum syntax — the specification itself lets JSON transports read strings as enum
    names, so outside this set literal and JSON are different inputs, see the witnesses below). -/
theorem coerce_eq_spec_variable (P : Parse) (T : Ty) (v : CV) (hw : v.wf = true)
    (hf : jsonFaithful T v = true) :
    coerceVar P T v.toJson true = Spec.coerce P T v ∧
    coerceVar P T v.toJson false = Spec.coerceItem P T v :=
  ⟨by simpa using coerceVar_eq_spec P T v true hw hf, by simpa using coerceVar_eq_spec P T v false hw hf⟩

/-- **route_agreement.** The literal route and the variable route agree on every client value:
    the same Go value, or both fail (patches 03 and 04 were needed for this: `[1]` for `[[Int]!]`
    and `true` for `Int`). -/
theorem route_agreement (P : Parse) (T : Ty) (v : CV) (allow : Bool) (hw : v.wf = true)
    (hf : jsonFaithful T v = true) :
    coerceLit P [] T v.toLit allow = coerceVar P T v.toJson allow := by
  rw [coerceLit_eq_spec P T v allow hw, coerceVar_eq_spec P T v allow hw hf]

-- non-vacuity and necessity of `jsonFaithful`: the three kinds of value JSON conflates
example : jsonFaithful (.list (.nonNull (.list (.scalar .int)))) (.list [.int 1]) = true := by rfl
example : coerceLit (fun _ => none) [] (.list (.nonNull (.list (.scalar .int)))) (CV.toLit (.list [.int 1])) true = none := by rfl
example : coerceVar (fun _ => none) (.list (.nonNull (.list (.scalar .int)))) (CV.toJson (.list [.int 1])) true = none := by rfl
example : coerceVar (fun _ => none) (.scalar .int) (CV.toJson (.bool true)) true = none := by rfl
-- a string where an enum is expected / a float-syntax integer where an Int is expected / a bare
-- name where a String is expected: the literal is rejected, the JSON spelling is another value
example : coerceLit (fun _ => none) [] (.enum "Color" ["RED"]) (CV.toLit (.str "RED")) true = none
    ∧ coerceVar (fun _ => none) (.enum "Color" ["RED"]) (CV.toJson (.str "RED")) true = some (.enumv "RED") := by
  exact ⟨by rfl, by rfl⟩
example : coerceLit (fun _ => none) [] (.scalar .int) (CV.toLit (.half 2)) true = none
    ∧ coerceVar (fun _ => none) (.scalar .int) (CV.toJson (.half 2)) true = some (.int 1) := by
  exact ⟨by rfl, by rfl⟩
example : coerceLit (fun _ => none) [] (.scalar .string) (CV.toLit (.enum "RED")) true = none
    ∧ coerceVar (fun _ => none) (.scalar .string) (CV.toJson (.enum "RED")) true = some (.str "RED") := by
  exact ⟨by rfl, by rfl⟩


/-! ## nested_variable -/

/-- **nested_variable.** A literal with variables anywhere inside it — at the top, in list items,
    in input-object fields (also of a single object given for a list), at any depth — coerces
    exactly like the literal in which every variable is replaced by the value the client
    supplied for it (`inline`; an unset variable is a null item / an absent field): the same Go
    value, or both fail. `Nested` says that each variable's runtime value is the variable route's
    coercion of the supplied value at the type of the variable's position. Needs patch 02 (null
    and unset variables) and patch 03. -/
theorem nested_variable (P : Parse) (σ : Supplied) (vars : Vars) (T : Ty) (l : Lit)
    (h : Nested P σ vars T false l) :
    coerceLit P vars T l true = coerceLit P [] T (inline σ l) true := by
  simpa using nested_lit P σ vars T l false h

-- non-vacuity: F-05b's and F-05d's requests. `[$v, $w]` for `[Int]` with v ↦ 7 and w unset is `[7, null]`;
example :
    let σ : Supplied := [("v", .int 7)]
    let vars : Vars := [("v", .int 7)]
    Nested (fun _ => none) σ vars (.list (.scalar .int)) false (.list [.var "v", .var "w"])
    ∧ coerceLit (fun _ => none) vars (.list (.scalar .int)) (.list [.var "v", .var "w"]) true
        = some (.list [.int 7, .nil])
    ∧ inline σ (.list [.var "v", .var "w"]) = .list [.int 7, .null] := by
  refine ⟨?_, by rfl, by rfl⟩
  simp only [Nested]
  intro x hx
  simp only [List.mem_cons, List.not_mem_nil, or_false] at hx
  rcases hx with rfl | rfl
  · simp only [Nested, VarStandsFor]
    exact ⟨by rfl, by rfl, ⟨.int 7, by rfl, by rfl⟩, by intro _ h; simp [isListish] at h⟩
  · simp only [Nested, VarStandsFor]; rfl
-- … and with an explicit null for `$v` at `[Int!]` both spellings fail (as found: `[nil]`).
example : coerceLit (fun _ => none) [("v", .nil)] (.list (.nonNull (.scalar .int))) (.list [.var "v"]) true = none
    ∧ coerceLit (fun _ => none) [] (.list (.nonNull (.scalar .int))) (.list [.null]) true = none := by
  exact ⟨by rfl, by rfl⟩
-- the item side condition of `VarStandsFor` is necessary: `$x: [Int]` accepts the single item 5
-- (→ [5]) by the list rule applied to the variable's own value, the item 5 of `[5]` for `[[Int]]` does not
example : coerceLit (fun _ => none) [("x", .list [.int 5])] (.list (.list (.scalar .int))) (.list [.var "x"]) true
      = some (.list [.list [.int 5]])
    ∧ coerceLit (fun _ => none) [] (.list (.list (.scalar .int))) (.list [.int 5]) true = none := by
  exact ⟨by rfl, by rfl⟩


/-! ## static_agrees -/

/-- **static_agrees.** On literals without variables (and without duplicate object fields, which
    `validateCoercion` rejects and the run-time coercion would resolve by "last wins"),
    `validateCoercion` reports no error exactly when `coerceLiteral` succeeds: a literal that
    validation lets through never fails at run time, and one for which no coercion exists is a
    validation error (the resolver is not reached). Both sides thread the item-to-list flag the
    same way since patch 03 (as found, `[1]` for `[[Int]!]` was rejected statically but accepted
    by the run-time code). -/
theorem static_agrees (P : Parse) (T : Ty) (l : Lit) (allow : Bool) (hc : containsVar l = false)
    (hd : l.noDup = true) :
    validateCoercion P T l allow = true ↔ ∃ x, coerceLit P [] T l allow = some x := by
  rw [validate_eq_coerces P T l allow hc hd, Option.isSome_iff_exists]

example : validateCoercion (fun _ => none) (.list (.nonNull (.list (.scalar .int)))) (.list [.int 1]) true = false := by rfl
example : validateCoercion (fun _ => none) (.list (.list (.scalar .int))) (.int 1) true = true
    ∧ coerceLit (fun _ => none) [] (.list (.list (.scalar .int))) (.int 1) true = some (.list [.list [.int 1]]) := by
  exact ⟨by rfl, by rfl⟩

end ApiFu.C05
