import ApiFu.C05.Model
import ApiFu.C05.Spec
namespace ApiFu.C05
end ApiFu.C05
