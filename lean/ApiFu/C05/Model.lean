/-
  C05 — executable model of api-fu's input coercion, as written in the Go sources (with the
  repairs of repo-patches/C05 applied: the model follows the *fixed* code; every place where a
  patch changed the transliteration is marked `-- patch NN`).

  Go sources mirrored (function by function):
    graphql/schema/builtins.go            Int / Float / String / Boolean / ID literal + variable coercers
    scalars.go                            DateTime (RFC 3339 parsing is the parameter `P`), LongInt
    graphql/schema/schema.go:172-235      coerceVariableValue / coerceLiteral (dispatch, null, variables)
    graphql/schema/list_type.go:53-101    list coercion, the allowItemToListCoercion flag
    graphql/schema/input_object_type.go   input objects (unknown / missing fields, defaults, schema.Null)
    graphql/schema/enum_type.go           enums
    graphql/validator/coerce.go           CoerceVariableValues, CoerceArgumentValues
    graphql/validator/validate_values.go  validateCoercion
    graphql/validator/validate_variables.go  validateVariableUsage, areTypesCompatible (+ the part of
                                          type_info.go that assigns expected types to nested values)
    graphql/validator/validate_arguments.go  unknown / duplicate / missing required arguments
    graphql/executor/executor.go:313-330  executeField: coercion error ⇒ field error, resolver not called
    graphql/executor/executor.go:494-507  collectFieldsImpl: a directive's coercion error is reported and the
                                          selection left out (patch 05)
    graphql/validator/validator.go:67-95  additional rules (ValidateCost) only on valid documents (patch 06)

  Numbers are exact: a JSON number or a float is the integer `h` standing for `h/2` (all generated
  numbers are integers or halves; no Lean `Float` anywhere). Go maps are association lists; the
  result of an input object is listed in the order of the type's fields (the harness sorts the Go
  map by key and declares fields in sorted order). All coercion errors are one class (`none`):
  which of several errors a Go map iteration reports first is not observable here.

  Core Lean only (linked into the driver `c05model`).
-/
namespace ApiFu.C05

/-! ## Data -/

inductive Scalar where
  | int | float | string | boolean | id | dateTime | longInt
  deriving Repr, DecidableEq, Inhabited

/-- A Go value as a resolver observes it (`interface{}`), also the type of declared defaults.
    `float h` is the float64 `h/2`; `int` is Go `int`, `long` is `int64` (LongInt);
    `time s` is a `time.Time` identified by its RFC3339Nano rendering; `enumv n` is the Go value
    the schema attached to enum value `n`. -/
inductive GoVal where
  | nil
  | int (z : Int)
  | long (z : Int)
  | float (h : Int)
  | str (s : String)
  | bool (b : Bool)
  | time (s : String)
  | enumv (n : String)
  | list (xs : List GoVal)
  | obj (fs : List (String × GoVal))
  deriving Repr, Inhabited

/-- A GraphQL literal (`ast.Value`). `float h` is a FloatValue whose value is `h/2`. -/
inductive Lit where
  | var (n : String)
  | int (z : Int)
  | float (h : Int)
  | str (s : String)
  | bool (b : Bool)
  | null
  | enum (n : String)
  | list (xs : List Lit)
  | obj (fs : List (String × Lit))
  deriving Repr, Inhabited

/-- A decoded JSON value (`encoding/json` into `interface{}`): every number is a float64 `h/2`. -/
inductive Json where
  | null
  | num (h : Int)
  | str (s : String)
  | bool (b : Bool)
  | list (xs : List Json)
  | obj (fs : List (String × Json))
  deriving Repr, Inhabited

mutual
/-- Input types. Go pointers to named types become the definitions themselves (tree-shaped:
    recursive input object types are outside the model). -/
inductive Ty where
  | scalar (k : Scalar)
  | enum (name : String) (vals : List String)
  | inputObj (name : String) (fs : Fields)
  | list (t : Ty)
  | nonNull (t : Ty)
  deriving Repr
/-- Fields of an input object: name, type, `DefaultValue` (`none` = Go nil = no default,
    `some .nil` = `schema.Null`). -/
inductive Fields where
  | nil
  | cons (name : String) (ty : Ty) (dflt : Option GoVal) (rest : Fields)
  deriving Repr
end

instance : Inhabited Ty := ⟨.scalar .int⟩

/-- `time.Time.UnmarshalText` as a parameter: `P s = some c` iff `s` parses, `c` the rendering
    of the parsed instant (the driver's table is filled from Go's own parser). -/
abbrev Parse := String → Option String

def isNonNull : Ty → Bool
  | .nonNull _ => true
  | _ => false

def GoVal.isNil : GoVal → Bool
  | .nil => true
  | _ => false

def Fields.hasName : Fields → String → Bool
  | .nil, _ => false
  | .cons name _ _ rest, n => name == n || rest.hasName n

/-- `xs.mapM f` in `Option`, written out so that it unfolds by structural recursion. -/
def mapAll {α β : Type} (f : α → Option β) : List α → Option (List β)
  | [] => some []
  | x :: xs =>
    match f x with
    | none => none
    | some y =>
      match mapAll f xs with
      | none => none
      | some ys => some (y :: ys)

/-- Value of the last pair with key `k` (a Go map filled by successive assignments). -/
def lookupLast {α : Type} (k : String) : List (String × α) → Option α
  | [] => none
  | (k', v) :: rest =>
    match lookupLast k rest with
    | some w => some w
    | none => if k' == k then some v else none

/-! ## Scalars -/

def minInt32 : Int := -2147483648
def maxInt32 : Int := 2147483647
def minInt64 : Int := -9223372036854775808
def maxInt64 : Int := 9223372036854775807
def maxSafeInteger : Int := 9007199254740991
def minSafeInteger : Int := -9007199254740991

def inInt32 (z : Int) : Bool := minInt32 ≤ z && z ≤ maxInt32
def inInt64 (z : Int) : Bool := minInt64 ≤ z && z ≤ maxInt64
def inSafe (z : Int) : Bool := minSafeInteger ≤ z && z ≤ maxSafeInteger

/-- `ScalarType.LiteralCoercion` of the seven scalars (`none` = Go nil = "cannot coerce").
    Int: `strconv.ParseInt(…, 10, 32)`; Float: `ParseFloat` of an IntValue or FloatValue (exact on
    the generated values); ID: `ParseInt(…, 10, 0)` (64 bit) or a string; LongInt: `ParseInt(…, 64)`
    then the ±(2^53−1) window; DateTime: a string that parses. -/
def Scalar.coerceLit (P : Parse) : Scalar → Lit → Option GoVal
  | .int, .int z => if inInt32 z then some (.int z) else none
  | .float, .int z => some (.float (2 * z))
  | .float, .float h => some (.float h)
  | .string, .str s => some (.str s)
  | .boolean, .bool b => some (.bool b)
  | .id, .int z => if inInt64 z then some (.int z) else none
  | .id, .str s => some (.str s)
  | .dateTime, .str s => (P s).map GoVal.time
  | .longInt, .int z => if inSafe z then some (.long z) else none
  | _, _ => none

/-- `ScalarType.VariableValueCoercion` on decoded JSON (numbers are float64).
    Int: `math.Trunc(v) == v` and the 32-bit window; ID: `float64(int(Trunc v)) == v` (on amd64 this
    is exactly the int64 window for the integral values generated); LongInt: integral and safe.
    Booleans are *not* accepted for Int / Float / LongInt (patch 04; `coerceInt`, `coerceFloat`,
    `coerceLongInt` stay as they are for result coercion). -/
def Scalar.coerceVar (P : Parse) : Scalar → Json → Option GoVal
  | .int, .num h => if h % 2 = 0 && inInt32 (h / 2) then some (.int (h / 2)) else none
  | .float, .num h => some (.float h)
  | .string, .str s => some (.str s)
  | .boolean, .bool b => some (.bool b)
  | .id, .num h => if h % 2 = 0 && inInt64 (h / 2) then some (.int (h / 2)) else none
  | .id, .str s => some (.str s)
  | .dateTime, .str s => (P s).map GoVal.time
  | .longInt, .num h => if h % 2 = 0 && inSafe (h / 2) then some (.long (h / 2)) else none
  | _, _ => none

/-- One declared field of an input object joined with the rest of the result (both routes share
    the rule). `provided`: `none` = the client gave no value for the field; `some none` = it gave
    one that does not coerce; `some (some c)` = it coerced to `c`. Not provided: the default
    (`schema.Null` is `some .nil`), else an error when the type is non-null, else no entry. -/
def addField (name : String) (ty : Ty) (d : Option GoVal) :
    Option (Option GoVal) → Option (List (String × GoVal)) → Option (List (String × GoVal))
  | some none, _ => none
  | some (some c), tl => tl.map (fun tl => (name, c) :: tl)
  | none, tl =>
    match d with
    | some dv => tl.map (fun tl => (name, dv) :: tl)
    | none => if isNonNull ty then none else tl

/-! ## coerceVariableValue (schema.go:176-199, list_type.go:57-75, input_object_type.go:61-97,
       enum_type.go:71-78) -/

mutual
/-- `coerceVariableValue(value, t, allowItemToListCoercion)`. -/
def coerceVar (P : Parse) : Ty → Json → Bool → Option GoVal
  | t, .null, _ => if isNonNull t then none else some .nil
  | .scalar k, v, _ => k.coerceVar P v
  | .enum _ vals, .str s, _ => if vals.contains s then some (.enumv s) else none
  | .enum _ _, _, _ => none
  | .inputObj _ fs, .obj m, _ =>
    -- every key of the JSON object must be a declared field ("unknown field")
    if m.all (fun p => fs.hasName p.1) then (coerceVarFields P fs m).map GoVal.obj else none
  | .inputObj _ _, _, _ => none
  | .list t, .list xs, _ => (mapAll (fun x => coerceVar P t x false) xs).map GoVal.list
  | .list t, v, allow =>
    if allow then (coerceVar P t v true).map (fun y => GoVal.list [y]) else none
  -- patch 03: the flag is threaded through the non-null wrapper (as found: reset to true)
  | .nonNull t, v, allow => coerceVar P t v allow
/-- The loop over `t.Fields` of `InputObjectType.CoerceVariableValue`. -/
def coerceVarFields (P : Parse) : Fields → List (String × Json) → Option (List (String × GoVal))
  | .nil, _ => some []
  | .cons name ty d rest, m =>
    addField name ty d ((m.lookup name).map (fun fv => coerceVar P ty fv true))
      (coerceVarFields P rest m)
end

/-! ## coerceLiteral (schema.go:201-235, list_type.go:77-96, input_object_type.go:99-134,
       enum_type.go:80-87) -/

abbrev Vars := List (String × GoVal)

/-- The variable branch of `coerceLiteral` (patch 02): an explicit null — or an unset variable,
    which can only be reached as a list item — is null, hence an error at a non-null type.
    As found: a set variable's value was returned unchecked (F-05b) and an unset one fell through
    to the type switch ("cannot coerce", F-05d). -/
def coerceVarRef (vars : Vars) (to : Ty) (n : String) : Option GoVal :=
  match vars.lookup n with
  | some v => if v.isNil && isNonNull to then none else some v
  | none => if isNonNull to then none else some .nil

/-- Is this literal field a variable without a runtime value? (`continue` in the first loop of
    `InputObjectType.CoerceLiteral`.) -/
def isUnsetVar (vars : Vars) : Lit → Bool
  | .var n => (vars.lookup n).isNone
  | _ => false

/-- The value a literal gives a declared field: `vs` are the coerced entries written for it
    (`none` = one of them failed). The second loop's `(!ok || v == nil) && IsNonNullType` test. -/
def litProvided (ty : Ty) : Option (List GoVal) → Option (Option GoVal)
  | none => some none
  | some vs =>
    match vs.getLast? with
    | none => none
    | some v => if v.isNil && isNonNull ty then some none else some (some v)

mutual
/-- `coerceLiteral(from, to, variableValues, allowItemToListCoercion)`. -/
def coerceLit (P : Parse) (vars : Vars) : Ty → Lit → Bool → Option GoVal
  | to, .null, _ => if isNonNull to then none else some .nil
  | to, .var n, _ => coerceVarRef vars to n
  | .scalar k, frm, _ => k.coerceLit P frm
  | .list t, .list xs, _ => (mapAll (fun x => coerceLit P vars t x false) xs).map GoVal.list
  | .list t, frm, allow =>
    if allow then (coerceLit P vars t frm true).map (fun y => GoVal.list [y]) else none
  | .inputObj _ fs, .obj lfs, _ =>
    -- first loop: a literal field that the type does not define is an error
    if lfs.all (fun p => fs.hasName p.1) then (coerceLitFields P vars fs lfs).map GoVal.obj else none
  | .inputObj _ _, _, _ => none
  | .enum _ vals, .enum n, _ => if vals.contains n then some (.enumv n) else none
  | .enum _ _, _, _ => none
  -- patch 03: the flag is threaded through the non-null wrapper
  | .nonNull t, frm, allow => coerceLit P vars t frm allow
/-- Both loops of `InputObjectType.CoerceLiteral`, regrouped per declared field: every literal
    entry for the field (other than an unset variable) is coerced — any failure fails the whole
    object — and the last one is the field's value (`litProvided`); then the default / required
    rule (`addField`). -/
def coerceLitFields (P : Parse) (vars : Vars) : Fields → List (String × Lit) → Option (List (String × GoVal))
  | .nil, _ => some []
  | .cons name ty d rest, lfs =>
    addField name ty d
      (litProvided ty (mapAll (fun (p : String × Lit) => coerceLit P vars ty p.2 true)
        (lfs.filter (fun p => p.1 == name && !isUnsetVar vars p.2))))
      (coerceLitFields P vars rest lfs)
end

/-! ## CoerceVariableValues / CoerceArgumentValues (validator/coerce.go) -/

structure VarDef where
  name : String
  ty : Ty
  dflt : Option Lit
  deriving Repr, Inhabited

structure ArgDef where
  name : String
  ty : Ty
  dflt : Option GoVal
  deriving Repr, Inhabited

/-- Gather per-definition results into the coerced map (`none` = error; an inner `none` = no entry). -/
def collect {δ : Type} (name : δ → String) (f : δ → Option (Option GoVal)) :
    List δ → Option (List (String × GoVal))
  | [] => some []
  | d :: ds =>
    match f d with
    | none => none
    | some none => collect name f ds
    | some (some v) => (collect name f ds).map (fun tl => (name d, v) :: tl)

/-- One iteration of `CoerceVariableValues`: `none` = request error, `some none` = no entry.
    Default values are constants (the parser rejects variables inside them), so the raw variable
    map handed to `CoerceLiteral` there is never consulted: `[]`. -/
def coerceVariable (P : Parse) (raw : List (String × Json)) (d : VarDef) : Option (Option GoVal) :=
  match raw.lookup d.name with
  | none =>
    match d.dflt with
    | some lit => (coerceLit P [] d.ty lit true).map some
    | none => if isNonNull d.ty then none else some none
  | some v => (coerceVar P d.ty v true).map some

/-- `CoerceVariableValues`. -/
def coerceVariableValues (P : Parse) (defs : List VarDef) (raw : List (String × Json)) : Option Vars :=
  collect (·.name) (coerceVariable P raw) defs

/-- `hasValue` of `CoerceArgumentValues`: the argument is written, and if it is a variable the
    variable has a runtime value. -/
def argHasValue (vars : Vars) : Option Lit → Bool
  | some (.var n) => (vars.lookup n).isSome
  | some _ => true
  | none => false

/-- One iteration of `CoerceArgumentValues` for the definition `d`, `av` = the written argument
    (`argumentValues[argumentName]`). `none` = field error, `some none` = no entry. -/
def coerceArgument (P : Parse) (vars : Vars) (d : ArgDef) (av : Option Lit) : Option (Option GoVal) :=
  if !argHasValue vars av then
    -- `!hasValue && defaultValue != nil` / `IsNonNullType(argumentType) && !hasValue` / nothing
    match d.dflt with
    | some dv => some (some dv)
    | none => if isNonNull d.ty then none else some none
  else
    match av with
    | some (.var n) =>
      match vars.lookup n with
      | some v =>
        -- patch 01: a null runtime value at a non-null argument is a field error (as found: F-05a)
        if v.isNil && isNonNull d.ty then none else some (some v)
      | none => none      -- not reachable: hasValue
    | some lit => (coerceLit P vars d.ty lit true).map some
    | none => none        -- not reachable: hasValue

/-- `CoerceArgumentValues` (`argumentValues` is a Go map filled in source order: last wins). -/
def coerceArgumentValues (P : Parse) (vars : Vars) (args : List (String × Lit))
    (defs : List ArgDef) : Option (List (String × GoVal)) :=
  collect (·.name) (fun d => coerceArgument P vars d (lookupLast d.name args)) defs

/-! ## The static side: validateCoercion, variable usage, arguments -/

mutual
def containsVar : Lit → Bool
  | .var _ => true
  | .list xs => containsVarL xs
  | .obj fs => containsVarF fs
  | _ => false
def containsVarL : List Lit → Bool
  | [] => false
  | x :: xs => containsVar x || containsVarL xs
def containsVarF : List (String × Lit) → Bool
  | [] => false
  | p :: ps => containsVar p.2 || containsVarF ps
end

def noDupKeys {α : Type} : List (String × α) → Bool
  | [] => true
  | p :: ps => !(ps.any (fun q => q.1 == p.1)) && noDupKeys ps

mutual
/-- `validateCoercion(from, to, allowItemToListCoercion)` = "returns no error". -/
def validateCoercion (P : Parse) : Ty → Lit → Bool → Bool
  | _, .var _, _ => true
  | t, .null, _ => !isNonNull t
  | .scalar k, v, _ => (k.coerceLit P v).isSome
  | .list t, .list xs, _ => xs.all (fun x => validateCoercion P t x false)
  | .list t, v, allow => allow && validateCoercion P t v true
  | .inputObj _ fs, .obj lfs, _ =>
    noDupKeys lfs && lfs.all (fun p => fs.hasName p.1) && validateFields P fs lfs
  | .inputObj _ _, _, _ => false
  | .enum _ vals, .enum n, _ => vals.contains n
  | .enum _ _, _, _ => false
  | .nonNull t, v, allow => validateCoercion P t v allow
def validateFields (P : Parse) : Fields → List (String × Lit) → Bool
  | .nil, _ => true
  | .cons name ty d rest, lfs =>
    (lfs.filter (fun p => p.1 == name)).all (fun p => validateCoercion P ty p.2 true)
    && (!(isNonNull ty && d.isNone) || lfs.any (fun p => p.1 == name))
    && validateFields P rest lfs
end

mutual
def GoVal.beq : GoVal → GoVal → Bool
  | .nil, .nil => true
  | .int a, .int b => a == b
  | .long a, .long b => a == b
  | .float a, .float b => a == b
  | .str a, .str b => a == b
  | .bool a, .bool b => a == b
  | .time a, .time b => a == b
  | .enumv a, .enumv b => a == b
  | .list a, .list b => GoVal.beqL a b
  | .obj a, .obj b => GoVal.beqF a b
  | _, _ => false
def GoVal.beqL : List GoVal → List GoVal → Bool
  | [], [] => true
  | x :: xs, y :: ys => GoVal.beq x y && GoVal.beqL xs ys
  | _, _ => false
def GoVal.beqF : List (String × GoVal) → List (String × GoVal) → Bool
  | [], [] => true
  | p :: ps, q :: qs => p.1 == q.1 && GoVal.beq p.2 q.2 && GoVal.beqF ps qs
  | _, _ => false
end

def optBeq : Option GoVal → Option GoVal → Bool
  | none, none => true
  | some a, some b => GoVal.beq a b
  | _, _ => false

mutual
/-- `IsSameType` is pointer equality of named types in Go; the harness gives every distinct
    definition its own name, so this is equality of definitions. -/
def Ty.beq : Ty → Ty → Bool
  | .scalar a, .scalar b => a == b
  | .enum n vs, .enum m ws => n == m && vs == ws
  | .inputObj n fs, .inputObj m gs => n == m && Fields.beq fs gs
  | .list a, .list b => Ty.beq a b
  | .nonNull a, .nonNull b => Ty.beq a b
  | _, _ => false
def Fields.beq : Fields → Fields → Bool
  | .nil, .nil => true
  | .cons n t d r, .cons m u e s => n == m && Ty.beq t u && optBeq d e && Fields.beq r s
  | _, _ => false
end

/-- `areTypesCompatible(variableType, locationType)`. -/
def compat : Ty → Ty → Bool
  | .nonNull v, .nonNull l => compat v l
  | .nonNull v, l => compat v l
  | .list v, .list l => compat v l
  | .list _, _ => false
  | v, l =>
    match l with
    | .nonNull _ => false
    | .list _ => false
    | _ => Ty.beq v l

def VarDef.hasNonNullDefault (d : VarDef) : Bool :=
  match d.dflt with
  | some .null => false
  | some _ => true
  | none => false

/-- `validateVariableUsage` for a usage of `$n` at a location of type `L` (`locDefault` =
    `typeInfo.DefaultValues[usage] != nil`). An undefined variable is an error as well. -/
def allowed (defs : List VarDef) (n : String) (L : Ty) (locDefault : Bool) : Bool :=
  match defs.find? (fun d => d.name == n) with
  | none => false
  | some d =>
    match L with
    | .nonNull L' =>
      if isNonNull d.ty then compat d.ty L
      else (d.hasNonNullDefault || locDefault) && compat d.ty L'
    | _ => compat d.ty L

/-- `DefaultValues[…] != nil` for an input-object field or a directive argument: `schema.Null` is
    stored as nil there (type_info.go:75-80, 90-95). -/
def fieldLocDefault : Option GoVal → Bool
  | some .nil => false
  | some _ => true
  | none => false

mutual
/-- Every variable inside the literal `lit`, written where a value of type `L` is expected, is
    allowed there: `NewTypeInfo` hands expected types down through list literals at list types and
    object literals at input-object types only; a variable below any other combination has no
    location type ("no type info for location type") and the document is rejected.
    `unwrap = true` is the code as it is now (C04's repair of F-04d: an object literal at a list
    type is typed by the item type, recursively); `unwrap = false` the behaviour before it, kept
    for diagnostics. The theorems hold for both. -/
def usage (defs : List VarDef) (unwrap : Bool) : Ty → Bool → Lit → Bool
  | L, ld, .var n => allowed defs n L ld
  | .nonNull t, ld, lit => usage defs unwrap t ld lit
  | .list t, _, .list xs => xs.all (fun x => usage defs unwrap t false x)
  | .list t, _, .obj lfs =>
    if unwrap then usage defs unwrap t false (.obj lfs) else !containsVarF lfs
  | .inputObj _ fs, _, .obj lfs =>
    usageFields defs unwrap fs lfs && lfs.all (fun p => fs.hasName p.1 || !containsVar p.2)
  | _, _, lit => !containsVar lit
def usageFields (defs : List VarDef) (unwrap : Bool) : Fields → List (String × Lit) → Bool
  | .nil, _ => true
  | .cons name ty d rest, lfs =>
    (lfs.filter (fun p => p.1 == name)).all (fun p => usage defs unwrap ty (fieldLocDefault d) p.2)
    && usageFields defs unwrap rest lfs
end

/-- What carries the arguments: a field (default present = `DefaultValue != nil`, `schema.Null`
    included) or a directive (`schema.Null` counts as no default for the usage rule). -/
inductive Site where
  | field | directive
  deriving Repr, DecidableEq, Inhabited

def argLocDefault (site : Site) (d : Option GoVal) : Bool :=
  match site with
  | .field => d.isSome
  | .directive => fieldLocDefault d

/-- One request: a field (or directive) with argument definitions `argDefs`, written with the
    arguments `args` in an operation declaring `varDefs`, sent with the JSON variables `raw`. -/
structure Case where
  site : Site
  argDefs : List ArgDef
  varDefs : List VarDef
  args : List (String × Lit)
  raw : List (String × Json)
  deriving Repr, Inhabited

def ArgDef.find (defs : List ArgDef) (n : String) : Option ArgDef := defs.find? (fun d => d.name == n)

/-- `validateArguments`: no undefined / duplicate argument, every required one is written. -/
def argumentsValid (c : Case) : Bool :=
  c.args.all (fun a => (ArgDef.find c.argDefs a.1).isSome)
  && noDupKeys c.args
  && c.argDefs.all (fun d => !(isNonNull d.ty && d.dflt.isNone) || c.args.any (fun a => a.1 == d.name))

/-- `validateValues` on the arguments and on the variable defaults. -/
def valuesValid (P : Parse) (c : Case) : Bool :=
  c.args.all (fun a =>
    match ArgDef.find c.argDefs a.1 with
    | some d => validateCoercion P d.ty a.2 true
    | none => false)
  && c.varDefs.all (fun d =>
    match d.dflt with
    | some lit => !containsVar lit && validateCoercion P d.ty lit true
    | none => true)

def noDupNames : List String → Bool
  | [] => true
  | n :: ns => !ns.contains n && noDupNames ns

mutual
def mentions (n : String) : Lit → Bool
  | .var m => m == n
  | .list xs => mentionsL n xs
  | .obj fs => mentionsF n fs
  | _ => false
def mentionsL (n : String) : List Lit → Bool
  | [] => false
  | x :: xs => mentions n x || mentionsL n xs
def mentionsF (n : String) : List (String × Lit) → Bool
  | [] => false
  | p :: ps => mentions n p.2 || mentionsF n ps
end

/-- `validateVariables`: unique definitions, every usage allowed, every definition used. -/
def variablesValid (unwrap : Bool) (c : Case) : Bool :=
  noDupNames (c.varDefs.map (·.name))
  && c.args.all (fun a =>
    match ArgDef.find c.argDefs a.1 with
    | some d => usage c.varDefs unwrap d.ty (argLocDefault c.site d.dflt) a.2
    | none => !containsVar a.2)
  && c.varDefs.all (fun d => c.args.any (fun a => mentions d.name a.2))

def validate (P : Parse) (unwrap : Bool) (c : Case) : Bool :=
  argumentsValid c && valuesValid P c && variablesValid unwrap c

/-- What the client and the resolver see. `invalid`: ParseAndValidate rejects, nothing runs.
    `reqErr`: CoerceVariableValues fails, nothing runs. `fieldErr`: CoerceArgumentValues fails —
    in `executeField` the resolver is not called and the field is an error; in `collectFieldsImpl`
    (a directive's arguments, patch 05) the filter is not called, the error is reported and the
    selection is left out. `invoked args`: the resolver (filter) runs and observes exactly `args`. -/
inductive Outcome where
  | invalid
  | reqErr
  | fieldErr
  | invoked (args : List (String × GoVal))
  deriving Repr, Inhabited

/-- Coercion as the executor performs it once the document is valid; `ValidateCost` does the same
    before it calls a cost function. -/
def coerceCase (P : Parse) (c : Case) : Outcome :=
  match coerceVariableValues P c.varDefs c.raw with
  | none => .reqErr
  | some vars =>
    match coerceArgumentValues P vars c.args c.argDefs with
    | none => .fieldErr
    | some args => .invoked args

/-- `graphql.Execute`: validate, then coerce, then (only on success) call the resolver or the
    directive's filter. The same gate holds for the cost function: additional validation rules
    (`ValidateCost`) run only on documents the standard rules accept (patch 06). -/
def run (P : Parse) (unwrap : Bool) (c : Case) : Outcome :=
  if validate P unwrap c then coerceCase P c else .invalid

end ApiFu.C05
