/-
  C02 reference semantics, written from the GraphQL execution rules (June 2018 §6.4) and not
  from the Go code: what a request's plan (selection sets + resolver outcomes) must yield,
  *independently of which resolvers answer through promises and of any schedule* — `Mode` and the
  schedule do not occur in this file.

    field error  → the field is null if its type is nullable, otherwise the error propagates to
                   the parent (list item → list, field → object), up to the nearest nullable
                   position or the whole data;
    a null for a non-null position is a field error.

  Core Lean only.
-/
import ApiFu.C02.Model

namespace ApiFu.C02

/-- Eventual outcome of a future / of completing a value: a value, or a failure (some field error
    propagates; which one is not part of the outcome). -/
inductive Out where
  | ok (v : Val)
  | fail
  deriving Repr, Inhabited

def Res.out : Res → Out
  | .ok v => .ok v
  | .err _ => .fail

def Out.isOk : Out → Bool
  | .ok _ => true
  | .fail => false

/-- A nullable position absorbs a failure as null. -/
def Out.caught (nn : Bool) (o : Out) : Out :=
  if nn then o else match o with | .fail => .ok .null | o => o

/-- A non-null position turns null into a failure. -/
def Out.nonNull (nn : Bool) (o : Out) : Out :=
  if nn then (match o with | .ok .null => .fail | o => o) else o

namespace Spec

mutual
  /-- CompleteValue for a resolved value `c` at a type whose non-null-ness is `nn`; objects are
      named by their response path (`Val.obj path n`). -/
  def comp (nn : Bool) (c : Comp) (path : Path) : Out :=
    match c with
    | .null => Out.nonNull nn (.ok .null)
    | .scalar s => Out.nonNull nn (.ok (.scalar s))
    | .bad _ => .fail
    | .list inn cs =>
      match items inn cs path 0 with
      | some vs => .ok (.list vs)
      | none => .fail
    | .object fs => if fieldsOk fs path then .ok (.obj path fs.length) else .fail
  /-- The items of a list: `none` when an item of a non-null element type fails. -/
  def items (inn : Bool) (cs : List Comp) (path : Path) (i : Nat) : Option (List Val) :=
    match cs with
    | [] => some []
    | c :: rest =>
      match Out.caught inn (comp inn c (path ++ [.idx i])), items inn rest path (i + 1) with
      | .ok v, some vs => some (v :: vs)
      | _, _ => none
  /-- Does every field of the selection set yield a value (after nullable fields absorbed their
      failures)? -/
  def fieldsOk (fs : List Field) (path : Path) : Bool :=
    match fs with
    | [] => true
    | .mk key nn mode rerr c :: rest =>
      (match mode with
       | .tname => true
       | _ =>
         match rerr with
         | some _ => !nn
         | none => (Out.caught nn (comp nn c (path ++ [.key key]))).isOk) && fieldsOk rest path
end

/-- Outcome of one field (its slot value when ok). -/
def field (path : Path) : Field → Out
  | .mk key nn mode rerr c =>
    match mode with
    | .tname => .ok (tnameVal c)
    | _ =>
      match rerr with
      | some _ => Out.caught nn .fail
      | none => Out.caught nn (comp nn c (path ++ [.key key]))

end Spec

/-! ### The response data, the `Set`s that are right, the slots that must be set -/

/-- `Set(i, key, v)` on the result map of the object at `mp`. -/
structure Write where
  mp : Path
  i : Nat
  key : String
  v : Val

/-- A slot of a result map. -/
abbrev Cell := Path × Nat

namespace Spec

/-- Is this field completed beneath (resolver-backed, no resolver error)? -/
def descends (mode : Mode) (rerr : Option String) : Bool :=
  match mode, rerr with
  | .tname, _ => false
  | _, some _ => false
  | _, none => true

mutual
  /-- JSON text of the completed value of plan `c` at `path` (meaningful when `comp _ c path` is ok). -/
  def jsonC (c : Comp) (path : Path) : String :=
    match c with
    | .null => "null"
    | .scalar s => s
    | .bad _ => "null"
    | .list inn cs => "[" ++ ",".intercalate (jsonL inn cs path 0) ++ "]"
    | .object fs => "{" ++ ",".intercalate (jsonF fs path) ++ "}"
  /-- List items: a failed item of a nullable element type is null. -/
  def jsonL (inn : Bool) (cs : List Comp) (path : Path) (i : Nat) : List String :=
    match cs with
    | [] => []
    | c :: rest =>
      (if (comp inn c (path ++ [.idx i])).isOk then jsonC c (path ++ [.idx i]) else "null") :: jsonL inn rest path (i + 1)
  /-- Object members `"key":value` in selection-set order. -/
  def jsonF (fs : List Field) (path : Path) : List String :=
    match fs with
    | [] => []
    | .mk key nn mode rerr c :: rest =>
      (quote key ++ ":" ++
        (match mode with
         | .tname => (match tnameVal c with | .scalar s => s | _ => "null")
         | _ =>
           match rerr with
           | some _ => "null"
           | none => if (comp nn c (path ++ [.key key])).isOk then jsonC c (path ++ [.key key]) else "null"))
      :: jsonF rest path
end

mutual
  /-- Every `Set` that is right for the sub-response of plan `c` at `path`: slot `i` of the object
      at `mp` gets the field's key and its reference value. -/
  def writesC (c : Comp) (path : Path) : List Write :=
    match c with
    | .list _ cs => writesL cs path 0
    | .object fs => writesF fs path 0
    | _ => []
  def writesL (cs : List Comp) (path : Path) (i : Nat) : List Write :=
    match cs with
    | [] => []
    | c :: rest => writesC c (path ++ [.idx i]) ++ writesL rest path (i + 1)
  def writesF (fs : List Field) (path : Path) (i : Nat) : List Write :=
    match fs with
    | [] => []
    | .mk key nn mode rerr c :: rest =>
      (match Spec.field path (.mk key nn mode rerr c) with
       | .ok v => [⟨path, i, key, v⟩]
       | .fail => []) ++
      (if descends mode rerr then writesC c (path ++ [.key key]) else []) ++
      writesF rest path (i + 1)
end

mutual
  /-- The slots that must have been set for the value of plan `c` at `path` to be complete:
      every slot of every object that is visible in the data. -/
  def cellsC (nn : Bool) (c : Comp) (path : Path) : List Cell :=
    if (comp nn c path).isOk then
      match c with
      | .list inn cs => cellsL inn cs path 0
      | .object fs => cellsF fs path 0
      | _ => []
    else []
  def cellsL (inn : Bool) (cs : List Comp) (path : Path) (i : Nat) : List Cell :=
    match cs with
    | [] => []
    | c :: rest => cellsC inn c (path ++ [.idx i]) ++ cellsL inn rest path (i + 1)
  def cellsF (fs : List Field) (path : Path) (i : Nat) : List Cell :=
    match fs with
    | [] => []
    | .mk key nn mode rerr c :: rest =>
      (path, i) :: ((if descends mode rerr then cellsC nn c (path ++ [.key key]) else []) ++ cellsF rest path (i + 1))
end

/-- The errors one field invocation at response path `p` can raise: none for `__typename`, the
    resolver's error, or (`inner`) those of completing its value. -/
def headErrs (mode : Mode) (rerr : Option String) (p : Path) (inner : List Err) : List Err :=
  match mode with
  | .tname => []
  | _ =>
    match rerr with
    | some msg => [⟨p, msg⟩]
    | none => inner

mutual
  /-- Every field error the request can raise according to the GraphQL rules, read off the plan:
      resolver errors, completion errors, a null resolved for a non-null position. Which of them
      a run reports depends on propagation (and, when several fail beneath one non-null position,
      on execution order); no run may report anything else, nor any of them twice. -/
  def errsC (nn : Bool) (c : Comp) (path : Path) : List Err :=
    match c with
    | .null => if nn then [⟨path, nonNullMsg⟩] else []
    | .scalar _ => []
    | .bad msg => [⟨path, msg⟩]
    | .list inn cs => errsL inn cs path 0
    | .object fs => errsF fs path
  def errsL (inn : Bool) (cs : List Comp) (path : Path) (i : Nat) : List Err :=
    match cs with
    | [] => []
    | c :: rest => errsC inn c (path ++ [.idx i]) ++ errsL inn rest path (i + 1)
  def errsF (fs : List Field) (path : Path) : List Err :=
    match fs with
    | [] => []
    | .mk key nn mode rerr c :: rest =>
      headErrs mode rerr (path ++ [.key key]) (errsC nn c (path ++ [.key key])) ++ errsF rest path
end

/-! ### Required errors: the error of every visible null whose *own* field failed -/

/-- The error of a failing completion that is the position's own (a completion error); a list or
    object fails with an error from beneath, which is not the position's own. -/
def certC (c : Comp) (p : Path) : List Err :=
  match c with
  | .bad msg => [⟨p, msg⟩]
  | _ => []

/-- Required errors of one field invocation at `p`: a nullable field whose resolver fails, or whose
    value fails with its own completion error, must report exactly that error; a field that yields
    a value passes on the required errors beneath it (`inner`). -/
def reqHead (mode : Mode) (nn : Bool) (rerr : Option String) (p : Path) (ok : Bool) (inner cert : List Err) : List Err :=
  match mode with
  | .tname => []
  | _ =>
    match rerr with
    | some msg => if nn then [] else [⟨p, msg⟩]
    | none => if ok then inner else if nn then [] else cert

mutual
  /-- Required errors beneath a value that is visible in the data. -/
  def reqC (nn : Bool) (c : Comp) (path : Path) : List Err :=
    if (comp nn c path).isOk then
      match c with
      | .list inn cs => reqL inn cs path 0
      | .object fs => reqF fs path
      | _ => []
    else []
  def reqL (inn : Bool) (cs : List Comp) (path : Path) (i : Nat) : List Err :=
    match cs with
    | [] => []
    | c :: rest =>
      (if (comp inn c (path ++ [.idx i])).isOk then reqC inn c (path ++ [.idx i])
       else if inn then [] else certC c (path ++ [.idx i])) ++ reqL inn rest path (i + 1)
  def reqF (fs : List Field) (path : Path) : List Err :=
    match fs with
    | [] => []
    | .mk key nn mode rerr c :: rest =>
      reqHead mode nn rerr (path ++ [.key key]) (comp nn c (path ++ [.key key])).isOk
        (reqC nn c (path ++ [.key key])) (certC c (path ++ [.key key])) ++ reqF rest path
end

/-- The errors every run of the request must report: those of the visible nulls whose own field
    failed (none are required when the whole data is null: then some propagating error is
    reported, and which one may depend on the schedule). -/
def required (rq : Request) : List Err :=
  if fieldsOk rq.fields [] then reqF rq.fields [] else []

/-- The data of a request: the root object's JSON, or null. -/
def data (rq : Request) : String :=
  if fieldsOk rq.fields [] then "{" ++ ",".intercalate (jsonF rq.fields []) ++ "}" else "null"

end Spec

mutual
  /-- Response keys within every selection set are pairwise distinct (validation + collectFields
      guarantee it); without it two sibling objects would share a response path. -/
  def Comp.distinctKeys : Comp → Bool
    | .list _ cs => Comp.distinctKeysL cs
    | .object fs => Field.distinctKeysL fs
    | _ => true
  def Comp.distinctKeysL : List Comp → Bool
    | [] => true
    | c :: cs => c.distinctKeys && Comp.distinctKeysL cs
  def Field.distinctKeysL : List Field → Bool
    | [] => true
    | .mk key _ _ _ c :: rest =>
      !(Field.keysL rest).contains key && c.distinctKeys && Field.distinctKeysL rest
  def Field.keysL : List Field → List String
    | [] => []
    | .mk key _ _ _ _ :: rest => key :: Field.keysL rest
end

mutual
  /-- All response keys occurring in a plan. -/
  def Comp.allKeys : Comp → List String
    | .list _ cs => Comp.allKeysL cs
    | .object fs => Field.allKeysL fs
    | _ => []
  def Comp.allKeysL : List Comp → List String
    | [] => []
    | c :: cs => c.allKeys ++ Comp.allKeysL cs
  def Field.allKeysL : List Field → List String
    | [] => []
    | .mk key _ _ _ c :: rest => key :: (c.allKeys ++ Field.allKeysL rest)
end

/-! The all-synchronous counterpart of a plan: same selection sets, same resolver outcomes, every
    resolver answers directly. -/

def Mode.toSync : Mode → Mode
  | .tname => .tname
  | _ => .sync

mutual
  def Comp.allSync : Comp → Comp
    | .list inn cs => .list inn (Comp.allSyncL cs)
    | .object fs => .object (Field.allSyncL fs)
    | .null => .null
    | .scalar s => .scalar s
    | .bad m => .bad m
  def Comp.allSyncL : List Comp → List Comp
    | [] => []
    | c :: cs => c.allSync :: Comp.allSyncL cs
  def Field.allSyncL : List Field → List Field
    | [] => []
    | .mk key nn mode rerr c :: rest => .mk key nn mode.toSync rerr c.allSync :: Field.allSyncL rest
end

/-- The same request with every resolver answering synchronously (and any schedule: it is never
    consulted). -/
def Request.allSync (rq : Request) (sched : List Nat) : Request :=
  { mutation := rq.mutation, fields := Field.allSyncL rq.fields, sched := sched, settle := rq.settle }

end ApiFu.C02
