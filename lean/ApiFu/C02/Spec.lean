/-
  C02 reference semantics, written from the GraphQL execution rules (June 2018 §6.4) and not
  from the Go code: what a request's plan (selection sets + resolver outcomes) must yield,
  *independently of which resolvers answer through promises and of any schedule* — `Mode` and the
  schedule do not occur in this file.

    field error  → the field is null if its type is nullable, otherwise the error propagates to
                   the parent (list item → list, field → object), up to the nearest nullable
                   position or the whole data;
    a null for a non-null position is a field error.

  Core Lean only.
-/
import ApiFu.C02.Model

namespace ApiFu.C02

/-- Eventual outcome of a future / of completing a value: a value, or a failure (some field error
    propagates; which one is not part of the outcome). -/
inductive Out where
  | ok (v : Val)
  | fail
  deriving Repr, Inhabited

def Res.out : Res → Out
  | .ok v => .ok v
  | .err _ => .fail

def Out.isOk : Out → Bool
  | .ok _ => true
  | .fail => false

/-- A nullable position absorbs a failure as null. -/
def Out.caught (nn : Bool) (o : Out) : Out :=
  if nn then o else match o with | .fail => .ok .null | o => o

/-- A non-null position turns null into a failure. -/
def Out.nonNull (nn : Bool) (o : Out) : Out :=
  if nn then (match o with | .ok .null => .fail | o => o) else o

namespace Spec

mutual
  /-- CompleteValue for a resolved value `c` at a type whose non-null-ness is `nn`; objects are
      named by their response path (`Val.obj path n`). -/
  def comp (nn : Bool) (c : Comp) (path : Path) : Out :=
    match c with
    | .null => Out.nonNull nn (.ok .null)
    | .scalar s => Out.nonNull nn (.ok (.scalar s))
    | .bad _ => .fail
    | .list inn cs =>
      match items inn cs path 0 with
      | some vs => .ok (.list vs)
      | none => .fail
    | .object fs => if fieldsOk fs path then .ok (.obj path fs.length) else .fail
  /-- The items of a list: `none` when an item of a non-null element type fails. -/
  def items (inn : Bool) (cs : List Comp) (path : Path) (i : Nat) : Option (List Val) :=
    match cs with
    | [] => some []
    | c :: rest =>
      match Out.caught inn (comp inn c (path ++ [.idx i])), items inn rest path (i + 1) with
      | .ok v, some vs => some (v :: vs)
      | _, _ => none
  /-- Does every field of the selection set yield a value (after nullable fields absorbed their
      failures)? -/
  def fieldsOk (fs : List Field) (path : Path) : Bool :=
    match fs with
    | [] => true
    | .mk key nn mode rerr c :: rest =>
      (match mode with
       | .tname => true
       | _ =>
         match rerr with
         | some _ => !nn
         | none => (Out.caught nn (comp nn c (path ++ [.key key]))).isOk) && fieldsOk rest path
end

/-- Outcome of one field (its slot value when ok). -/
def field (path : Path) : Field → Out
  | .mk key nn mode rerr c =>
    match mode with
    | .tname => .ok (tnameVal c)
    | _ =>
      match rerr with
      | some _ => Out.caught nn .fail
      | none => Out.caught nn (comp nn c (path ++ [.key key]))

end Spec

end ApiFu.C02
