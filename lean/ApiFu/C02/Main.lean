/-
  C02 model driver executable: see ApiFu/C02/Driver.lean for the line protocol.
-/
import ApiFu.Common.Loop
import ApiFu.C02.Driver

def main : IO Unit := ApiFu.lineLoopPure ApiFu.C02.Driver.handle
