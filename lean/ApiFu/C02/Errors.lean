/-
  C02 lemmas about the error list (core Lean only): counting argument.

  `f.pot` lists, with multiplicity, the errors future `f` may still emit — log through a
  `CatchError` inside it, or hold as its own result. Building and polling never increase, for any
  error `e`,   (#e in executor.Errors) + (#e in f.pot);   initially that is at most #e among the
  field errors of the request (`Spec.errsF`), which are pairwise distinct when response keys are.
  Hence every reported error is a field error of the request and none is reported twice.
-/
import ApiFu.C02.Lemmas

namespace ApiFu.C02

theorem errorsOf_append (a b : List Entry) : errorsOf (a ++ b) = errorsOf a ++ errorsOf b := by
  induction a with
  | nil => simp [errorsOf]
  | cons e a ih => cases e <;> simp [errorsOf, ih]

theorem errorsOf_push_error (S : Store) (e : Err) : errorsOf (S.push (.error e)).log = errorsOf S.log ++ [e] := by
  simp [Store.push, errorsOf_append, errorsOf]

theorem errorsOf_push_other (S : Store) (x : Entry) (h : ∀ e, x ≠ .error e) :
    errorsOf (S.push x).log = errorsOf S.log := by
  simp only [Store.push, errorsOf_append]
  cases x <;> simp [errorsOf] <;> exact absurd rfl (h _)

theorem errorsOf_fulfils (l : List Entry) (h : ∀ e ∈ l, ∃ p : Path, e = Entry.fulfil p) : errorsOf l = [] := by
  induction l with
  | nil => simp [errorsOf]
  | cons x l ih =>
    obtain ⟨p, hp⟩ := h x (by simp)
    subst hp
    simp only [errorsOf]
    exact ih (fun e he => h e (by simp [he]))

/-- Settling reports no error. -/
theorem Settled.errorsOf {S S' : Store} (h : Settled S S') : errorsOf S'.log = errorsOf S.log := by
  obtain ⟨l, hl, hle⟩ := h.log
  rw [hl, errorsOf_append, errorsOf_fulfils l (fun e he => by obtain ⟨p, _, hp⟩ := hle e he; exact ⟨p.2, hp⟩)]
  simp

/-- The error the non-null check may raise, given what its child resolves to. -/
def potErr (fn : MapFn) (o : Out) : List Err :=
  match fn, o with
  | .nonNull e, .ok v => if v.isNull then [e] else []
  | _, _ => []

mutual
  /-- The promise adapter of executeField is `Then` over the raw channel future. -/
  def Fut.shaped : Fut → Bool
    | .ready _ => true
    | .promise _ _ => true
    | .map _ g => g.shaped
    | .mapOk _ g => g.shaped
    | .mapOkToAny g => g.shaped
    | .mapOkValue _ g => g.shaped
    | .thenK _ _ _ (.promise _ _) none => true
    | .thenK _ _ _ _ none => false
    | .thenK _ _ _ _ (some t) => t.shaped
    | .thenT _ _ _ _ _ => false
    | .join gs => Fut.shapedL gs
    | .after gs => Fut.shapedL gs
  def Fut.shapedL : List Fut → Bool
    | [] => true
    | g :: gs => g.shaped && Fut.shapedL gs
end

mutual
  /-- Errors `f` may still emit, with multiplicity. -/
  def Fut.pot : Fut → List Err
    | .ready (.ok _) => []
    | .ready (.err e) => [e]
    | .promise _ (.ok _) => []
    | .promise _ (.err e) => [e]      -- the raw resolver error (no path yet); `Then` wraps it
    | .map fn g => g.pot ++ potErr fn g.out
    | .mapOk _ g => g.pot
    | .mapOkToAny g => g.pot
    | .mapOkValue _ g => g.pot
    | .thenK nn c path (.promise _ (.ok _)) none => Spec.errsC nn c path
    | .thenK _ _ path (.promise _ (.err e)) none => [⟨path, e.msg⟩]
    | .thenK _ _ _ _ none => []
    | .thenK _ _ _ _ (some t) => t.pot
    | .thenT _ _ _ _ _ => []
    | .join gs => Fut.potL gs
    | .after gs => Fut.potL gs
  def Fut.potL : List Fut → List Err
    | [] => []
    | g :: gs => g.pot ++ Fut.potL gs
end

/-- #e in executor.Errors + #e the future may still emit. -/
def Cnt (e : Err) (S : Store) (f : Fut) : Nat := (errorsOf S.log).count e + f.pot.count e

def CntL (e : Err) (S : Store) (fs : List Fut) : Nat := (errorsOf S.log).count e + (Fut.potL fs).count e

/-! ### callbacks and constructors -/

theorem applyMap_cnt (fn : MapFn) (r : Res) (S : Store) (e : Err) :
    Cnt e (applyMap fn r S).2 (.ready (applyMap fn r S).1) ≤
      (errorsOf S.log).count e + (Fut.ready r).pot.count e + (potErr fn r.out).count e := by
  cases fn with
  | catchError =>
    cases r with
    | ok v => simp [applyMap, Cnt, Fut.pot, potErr]
    | err e' => simp [applyMap, Cnt, Fut.pot, potErr, errorsOf_push_error, List.count_append]
  | nonNull e0 =>
    cases r with
    | ok v => by_cases h : v.isNull <;> simp [applyMap, Cnt, Fut.pot, potErr, Res.out, h]
    | err e' => simp [applyMap, Cnt, Fut.pot, potErr, Res.out]
  | tap t =>
    simp only [applyMap, Cnt, potErr]
    rw [errorsOf_push_other _ _ (by intros; simp)]
    omega

theorem applyOk_errors (fn : OkFn) (v : Val) (S : Store) : errorsOf (applyOk fn v S).2.log = errorsOf S.log := by
  cases fn; exact errorsOf_push_other _ _ (by intros; simp)

theorem mkMap_cnt (fn : MapFn) (f : Fut) (S : Store) (e : Err) :
    Cnt e (mkMap fn f S).2 (mkMap fn f S).1 ≤ (errorsOf S.log).count e + (Fut.map fn f).pot.count e := by
  cases f with
  | ready r =>
    have := applyMap_cnt fn r S e
    simp only [mkMap, Fut.pot, Fut.out, List.count_append] at this ⊢
    omega
  | _ => simp [mkMap, Cnt]

theorem mkMap_shaped (fn : MapFn) (f : Fut) (S : Store) (h : f.shaped = true) : (mkMap fn f S).1.shaped = true := by
  cases f <;> simp_all [mkMap, Fut.shaped]

theorem mkMapOkToAny_pot (f : Fut) : (mkMapOkToAny f).pot = f.pot := by
  cases f with
  | ready r => cases r <;> simp [mkMapOkToAny, Fut.pot]
  | _ => simp [mkMapOkToAny, Fut.pot]

theorem mkMapOkToAny_shaped (f : Fut) (h : f.shaped = true) : (mkMapOkToAny f).shaped = true := by
  cases f <;> simp_all [mkMapOkToAny, Fut.shaped]

theorem mkMapOkValue_pot (v : Val) (f : Fut) : (mkMapOkValue v f).pot = f.pot := by
  cases f with
  | ready r => cases r <;> simp [mkMapOkValue, Fut.pot]
  | _ => simp [mkMapOkValue, Fut.pot]

theorem mkMapOkValue_shaped (v : Val) (f : Fut) (h : f.shaped = true) : (mkMapOkValue v f).shaped = true := by
  cases f with
  | ready r => cases r <;> simp [mkMapOkValue, Fut.shaped]
  | _ => simp_all [mkMapOkValue, Fut.shaped]

theorem scanReady_failed_mem (fs : List Fut) (e : Err) (h : scanReady fs = .failed e) : e ∈ Fut.potL fs := by
  induction fs with
  | nil => simp [scanReady] at h
  | cons f rest ih =>
    cases f with
    | ready r =>
      cases r with
      | err e' =>
        simp only [scanReady, Pass.failed.injEq] at h; subst h
        simp [Fut.potL, Fut.pot]
      | ok v =>
        simp only [scanReady] at h
        cases hr : scanReady rest with
        | failed e' => rw [hr] at h; simp at h; subst h; simp [Fut.potL, ih hr]
        | done vs => rw [hr] at h; simp at h
        | pending => rw [hr] at h; simp at h
    | _ =>
      simp only [scanReady] at h
      cases hr : scanReady rest with
      | failed e' => rw [hr] at h; simp at h; subst h; simp [Fut.potL, ih hr]
      | done vs => rw [hr] at h; simp at h
      | pending => rw [hr] at h; simp at h

theorem count_singleton_le_of_mem {e e' : Err} {l : List Err} (h : e ∈ l) : [e].count e' ≤ l.count e' := by
  by_cases he : e' = e
  · subst he
    have := List.count_pos_iff.mpr h
    simp; omega
  · have : [e].count e' = 0 := by simp [List.count_cons, he]; exact fun h => he h.symm
    omega

theorem mkJoin_pot (fs : List Fut) (e : Err) : (mkJoin fs).pot.count e ≤ (Fut.potL fs).count e := by
  unfold mkJoin
  split
  · rename_i e0 he; exact count_singleton_le_of_mem (scanReady_failed_mem fs e0 he)
  · simp [Fut.pot]
  · simp [Fut.pot]

theorem mkAfter_pot (fs : List Fut) (e : Err) : (mkAfter fs).pot.count e ≤ (Fut.potL fs).count e := by
  unfold mkAfter
  split
  · rename_i e0 he; exact count_singleton_le_of_mem (scanReady_failed_mem fs e0 he)
  · simp [Fut.pot]
  · simp [Fut.pot]

theorem mkJoin_shaped (fs : List Fut) (h : Fut.shapedL fs = true) : (mkJoin fs).shaped = true := by
  unfold mkJoin; split <;> simp_all [Fut.shaped]

theorem mkAfter_shaped (fs : List Fut) (h : Fut.shapedL fs = true) : (mkAfter fs).shaped = true := by
  unfold mkAfter; split <;> simp_all [Fut.shaped]

/-! ### builders -/

theorem nonNullWrap_cnt (nn : Bool) (path : Path) (f : Fut) (S : Store) (e : Err) :
    Cnt e (nonNullWrap nn path f S).2 (nonNullWrap nn path f S).1 ≤
      (errorsOf S.log).count e + f.pot.count e +
      (if nn then potErr (.nonNull ⟨path, nonNullMsg⟩) f.out else []).count e := by
  unfold nonNullWrap
  cases nn
  · simp [Cnt]
  · have := mkMap_cnt (.nonNull ⟨path, nonNullMsg⟩) f S e
    simp only [Fut.pot, List.count_append] at this
    simp only [if_true]
    omega

theorem nonNullWrap_shaped (nn : Bool) (path : Path) (f : Fut) (S : Store) (h : f.shaped = true) :
    (nonNullWrap nn path f S).1.shaped = true := by
  unfold nonNullWrap; cases nn <;> simp <;> first | exact h | exact mkMap_shaped _ _ _ h

theorem catchIfNullable_cnt (nn : Bool) (f : Fut) (S : Store) (e : Err) :
    Cnt e (catchIfNullable nn f S).2 (catchIfNullable nn f S).1 ≤ (errorsOf S.log).count e + f.pot.count e := by
  unfold catchIfNullable
  cases nn
  · have := mkMap_cnt .catchError f S e
    simp only [Fut.pot, List.count_append, potErr] at this
    simpa using this
  · simp [Cnt]

theorem catchIfNullable_shaped (nn : Bool) (f : Fut) (S : Store) (h : f.shaped = true) :
    (catchIfNullable nn f S).1.shaped = true := by
  unfold catchIfNullable; cases nn <;> simp <;> first | exact h | exact mkMap_shaped _ _ _ h

/-- The errors one field invocation can raise. -/
def fieldErrs (nn : Bool) (rerr : Option String) (c : Comp) (itemPath : Path) : List Err :=
  match rerr with
  | some msg => [⟨itemPath, msg⟩]
  | none => Spec.errsC nn c itemPath

theorem execField_cnt (nn : Bool) (mode : Mode) (rerr : Option String) (c : Comp) (itemPath : Path)
    (completed : Store → Fut × Store) (S : Store) (e : Err)
    (hc : ∀ S', Cnt e (completed S').2 (completed S').1 ≤ (errorsOf S'.log).count e + (Spec.errsC nn c itemPath).count e ∧
      (completed S').1.shaped = true) :
    Cnt e (execField nn mode rerr c itemPath completed S).2 (execField nn mode rerr c itemPath completed S).1 ≤
      (errorsOf S.log).count e + (fieldErrs nn rerr c itemPath).count e ∧
    (execField nn mode rerr c itemPath completed S).1.shaped = true := by
  have h0 : errorsOf (S.push (.start itemPath)).log = errorsOf S.log := errorsOf_push_other _ _ (by intros; simp)
  have h1 : ∀ T : Store, errorsOf (T.push (.fulfil itemPath)).log = errorsOf T.log :=
    fun T => errorsOf_push_other _ _ (by intros; simp)
  unfold execField
  cases mode <;> cases rerr <;> simp only [fieldErrs]
  · have := hc (S.push (.start itemPath)); rw [h0] at this; exact this
  · simp [Cnt, Fut.pot, Fut.shaped, h0]
  · simp only [Cnt, Fut.pot, Fut.shaped, and_true]; rw [show errorsOf _ = errorsOf (S.push (.start itemPath)).log from rfl, h0]
    exact Nat.le_refl _
  · simp only [Cnt, Fut.pot, Fut.shaped, and_true]; rw [show errorsOf _ = errorsOf (S.push (.start itemPath)).log from rfl, h0]
    exact Nat.le_refl _
  · simp only [Cnt, Fut.pot, Fut.shaped, and_true]
    rw [show errorsOf _ = errorsOf ((S.push (.start itemPath)).push (.fulfil itemPath)).log from rfl, h1, h0]
    exact Nat.le_refl _
  · simp only [Cnt, Fut.pot, Fut.shaped, and_true]
    rw [show errorsOf _ = errorsOf ((S.push (.start itemPath)).push (.fulfil itemPath)).log from rfl, h1, h0]
    exact Nat.le_refl _
  · have := hc (S.push (.start itemPath)); rw [h0] at this; exact this
  · simp [Cnt, Fut.pot, Fut.shaped, h0]

theorem potL_append_one (acc : List Fut) (g : Fut) : Fut.potL (acc ++ [g]) = Fut.potL acc ++ g.pot := by
  induction acc with
  | nil => simp [Fut.potL]
  | cons a acc ih => simp [Fut.potL, ih]

theorem shapedL_append_one (acc : List Fut) (g : Fut) : Fut.shapedL (acc ++ [g]) = (Fut.shapedL acc && g.shaped) := by
  induction acc with
  | nil => simp [Fut.shapedL]
  | cons a acc ih => simp [Fut.shapedL, ih, Bool.and_assoc]

theorem errsF_cons (key : String) (nn : Bool) (mode : Mode) (rerr : Option String) (c : Comp) (rest : List Field)
    (path : Path) (hm : mode ≠ .tname) :
    Spec.errsF (.mk key nn mode rerr c :: rest) path = fieldErrs nn rerr c (path ++ [.key key]) ++ Spec.errsF rest path := by
  cases mode <;> cases rerr <;> simp_all [Spec.errsF, Spec.headErrs, fieldErrs]

theorem potErr_nonNull_nonnull (e0 : Err) (o : Out) (h : ∀ v, o = .ok v → v.isNull = false) :
    potErr (.nonNull e0) o = [] := by
  cases o with
  | fail => rfl
  | ok v => simp [potErr, h v rfl]

/-- Building never reports, nor leaves to be reported, more of any error than the request has. -/
theorem complete_cnt_aux (e : Err) :
    (∀ nn c path S, Cnt e (complete nn c path S).2 (complete nn c path S).1 ≤
      (errorsOf S.log).count e + (Spec.errsC nn c path).count e ∧ (complete nn c path S).1.shaped = true) ∧
    (∀ fields path n i acc S, Fut.shapedL acc = true →
      Cnt e (execFields fields path n i acc S).2 (execFields fields path n i acc S).1 ≤
        (errorsOf S.log).count e + (Fut.potL acc).count e + (Spec.errsF fields path).count e ∧
      (execFields fields path n i acc S).1.shaped = true) ∧
    (∀ inn items path i S, CntL e (completeItems inn items path i S).2 (completeItems inn items path i S).1 ≤
      (errorsOf S.log).count e + (Spec.errsL inn items path i).count e ∧
      Fut.shapedL (completeItems inn items path i S).1 = true) := by
  apply complete.mutual_induct
    (motive_1 := fun nn c path S => Cnt e (complete nn c path S).2 (complete nn c path S).1 ≤
      (errorsOf S.log).count e + (Spec.errsC nn c path).count e ∧ (complete nn c path S).1.shaped = true)
    (motive_2 := fun fields path n i acc S => Fut.shapedL acc = true →
      Cnt e (execFields fields path n i acc S).2 (execFields fields path n i acc S).1 ≤
        (errorsOf S.log).count e + (Fut.potL acc).count e + (Spec.errsF fields path).count e ∧
      (execFields fields path n i acc S).1.shaped = true)
    (motive_3 := fun inn items path i S =>
      CntL e (completeItems inn items path i S).2 (completeItems inn items path i S).1 ≤
      (errorsOf S.log).count e + (Spec.errsL inn items path i).count e ∧
      Fut.shapedL (completeItems inn items path i S).1 = true)
  · intro nn path S
    have := nonNullWrap_cnt nn path (.ready (.ok .null)) S e
    refine ⟨?_, nonNullWrap_shaped _ _ _ _ (by simp [Fut.shaped])⟩
    simp only [complete, Spec.errsC]
    cases nn <;> simp [Fut.pot, Fut.out, Res.out, potErr, Val.isNull] at this ⊢ <;> omega
  · intro nn path S a
    have := nonNullWrap_cnt nn path (.ready (.ok (.scalar a))) S e
    refine ⟨?_, nonNullWrap_shaped _ _ _ _ (by simp [Fut.shaped])⟩
    simp only [complete, Spec.errsC]
    cases nn <;> simp [Fut.pot, Fut.out, Res.out, potErr, Val.isNull] at this ⊢ <;> omega
  · intro nn path S a
    have := nonNullWrap_cnt nn path (.ready (.err ⟨path, a⟩)) S e
    refine ⟨?_, nonNullWrap_shaped _ _ _ _ (by simp [Fut.shaped])⟩
    simp only [complete, Spec.errsC]
    cases nn <;> simp [Fut.pot, Fut.out, Res.out, potErr] at this ⊢ <;> omega
  · intro nn path S inn items fs S1 h ih
    rw [h] at ih
    have hw := nonNullWrap_cnt nn path (mkMapOkToAny (mkJoin fs)) S1 e
    have hj := mkJoin_pot fs e
    have hnn : potErr (.nonNull ⟨path, nonNullMsg⟩) (mkMapOkToAny (mkJoin fs)).out = [] := by
      apply potErr_nonNull_nonnull
      intro v hv
      rw [mkMapOkToAny_out, mkJoin_out] at hv
      simp only [Fut.out] at hv
      split at hv <;> cases hv
      rfl
    simp only [complete, h, Spec.errsC]
    refine ⟨?_, nonNullWrap_shaped _ _ _ _ (mkMapOkToAny_shaped _ (mkJoin_shaped _ ih.2))⟩
    rw [mkMapOkToAny_pot, hnn] at hw
    have := ih.1
    simp only [CntL] at this
    cases nn <;> simp at hw <;> omega
  · intro nn path S fields f S1 h ih
    have ih := ih (by simp [Fut.shapedL]); rw [h] at ih
    have hw := nonNullWrap_cnt nn path (mkMapOkToAny f) S1 e
    have hnn : potErr (.nonNull ⟨path, nonNullMsg⟩) (mkMapOkToAny f).out = [] := by
      apply potErr_nonNull_nonnull
      intro v hv
      have ho := complete_out_aux.2.1 fields path fields.length 0 [] S
      rw [h] at ho
      rw [mkMapOkToAny_out, ho] at hv
      simp only [fieldsOut] at hv
      split at hv <;> cases hv
      rfl
    simp only [complete, h, Spec.errsC]
    refine ⟨?_, nonNullWrap_shaped _ _ _ _ (mkMapOkToAny_shaped _ ih.2)⟩
    rw [mkMapOkToAny_pot, hnn] at hw
    have := ih.1
    simp only [Cnt, Fut.potL, List.count_nil] at this
    cases nn <;> simp at hw <;> omega
  · intro inn path i S; simp [completeItems, CntL, Fut.potL, Fut.shapedL, Spec.errsL]
  · intro inn path i S c rest f S1 h1 f1 S11 h2 fs S2 h3 ih1 ih2
    rw [h1] at ih1; rw [h3] at ih2
    have hc := catchIfNullable_cnt inn f S1 e
    have hcs := catchIfNullable_shaped inn f S1 ih1.2
    rw [h2] at hc hcs
    have hm3 := complete_mono_aux.2.2 inn rest path (i + 1) S11
    rw [h3] at hm3
    simp only [completeItems, h1, h2, h3, CntL, Fut.potL, Fut.shapedL, Spec.errsL, List.count_append]
    refine ⟨?_, by simp [hcs, ih2.2]⟩
    have a := ih1.1
    have b := ih2.1
    simp only [Cnt, CntL] at a b hc
    -- f1's potential errors are not touched by building the rest
    omega
  · intro path n i acc S hacc
    have h1 := mkAfter_pot acc e
    simp only [execFields, Cnt, mkMapOkValue_pot, Spec.errsF, List.count_nil]
    exact ⟨by omega, mkMapOkValue_shaped _ _ (mkAfter_shaped _ hacc)⟩
  · intro path n i acc S key nn rerr c rest ih hacc
    rw [execFields_tname]
    have ih := ih hacc
    rw [errorsOf_push_other _ _ (by intros; simp)] at ih
    simpa [Spec.errsF, Spec.headErrs] using ih
  · intro path n i acc S key nn mode rerr c rest itemPath f S1 h1 S11 e' hm h2 ihc hacc
    have hm' : mode ≠ .tname := fun h => hm h
    have hf := execField_cnt nn mode rerr c itemPath (fun S' => complete nn c itemPath S') S e ihc
    rw [h1] at hf
    have hc := catchIfNullable_cnt nn f S1 e
    rw [h2] at hc
    rw [execFields_cons path key nn mode rerr c rest n i acc S S1 S11 f _ hm' h1 h2, errsF_cons _ _ _ _ _ _ _ hm']
    simp only [fieldCont, Fut.shaped, and_true, List.count_append]
    have a := hf.1
    simp only [Cnt, show itemPath = path ++ [Seg.key key] from rfl] at a hc ⊢
    omega
  · intro path n i acc S key nn mode rerr c rest itemPath f S1 h1 S11 v hm h2 ihc ih hacc
    have hm' : mode ≠ .tname := fun h => hm h
    have hf := execField_cnt nn mode rerr c itemPath (fun S' => complete nn c itemPath S') S e ihc
    rw [h1] at hf
    have hc := catchIfNullable_cnt nn f S1 e
    rw [h2] at hc
    rw [execFields_cons path key nn mode rerr c rest n i acc S S1 S11 f _ hm' h1 h2, errsF_cons _ _ _ _ _ _ _ hm']
    have ih := ih hacc
    rw [errorsOf_push_other _ _ (by intros; simp)] at ih
    simp only [fieldCont, List.count_append]
    refine ⟨?_, ih.2⟩
    have a := hf.1
    have b := ih.1
    simp only [Cnt, Fut.pot, List.count_nil, show itemPath = path ++ [Seg.key key] from rfl] at a hc b ⊢
    omega
  · intro path n i acc S key nn mode rerr c rest itemPath f S1 h1 S11 f1 hne hno hm h2 ihc ih hacc
    have hm' : mode ≠ .tname := fun h => hm h
    have hf := execField_cnt nn mode rerr c itemPath (fun S' => complete nn c itemPath S') S e ihc
    rw [h1] at hf
    have hc := catchIfNullable_cnt nn f S1 e
    have hcs := catchIfNullable_shaped nn f S1 hf.2
    rw [h2] at hc hcs
    rw [execFields_cons path key nn mode rerr c rest n i acc S S1 S11 f f1 hm' h1 h2, errsF_cons _ _ _ _ _ _ _ hm']
    have hshape : fieldCont rest path n i acc key f1 S11 =
        execFields rest path n (i + 1) (acc ++ [Fut.mapOk (OkFn.setSlot path i key) f1]) S11 := by
      unfold fieldCont
      split
      · exact absurd rfl (hne _)
      · exact absurd rfl (hno _)
      · rfl
    rw [hshape]
    have ih := ih (by rw [shapedL_append_one]; simp [hacc, Fut.shaped, hcs])
    rw [potL_append_one] at ih
    simp only [List.count_append, Fut.pot] at ih ⊢
    refine ⟨?_, ih.2⟩
    have a := hf.1
    have b := ih.1
    simp only [Cnt, show itemPath = path ++ [Seg.key key] from rfl] at a hc b ⊢
    omega

/-! ### poll -/

theorem applyK_cnt (nn : Bool) (c : Comp) (path : Path) (r : Res) (S : Store) (id : Nat) (e : Err) :
    Cnt e (applyK nn c path r S).2 (applyK nn c path r S).1 ≤
      (errorsOf S.log).count e + (Fut.thenK nn c path (.promise id r) none).pot.count e ∧
    (applyK nn c path r S).1.shaped = true := by
  cases r with
  | ok v => simp only [applyK, Fut.pot]; exact (complete_cnt_aux e).1 nn c path S
  | err e' => simp [applyK, Fut.pot, Cnt, Fut.shaped]

/-- Polling never increases, for any error, the number of times it has been reported plus the
    number of times it may still be. -/
theorem poll_cnt_aux :
    (∀ f S, f.shaped = true →
      (∀ e, Cnt e (poll f S).2.1 (poll f S).1 ≤ Cnt e S f) ∧ (poll f S).1.shaped = true) ∧
    (∀ fs S, Fut.shapedL fs = true →
      (∀ e, CntL e (pollAll fs S).2.1 (pollAll fs S).1 ≤ CntL e S fs) ∧ Fut.shapedL (pollAll fs S).1 = true ∧
      (∀ e0, (pollAll fs S).2.2 = .failed e0 → e0 ∈ Fut.potL (pollAll fs S).1)) := by
  apply poll_induct'
    (P1 := fun f S => f.shaped = true →
      (∀ e, Cnt e (poll f S).2.1 (poll f S).1 ≤ Cnt e S f) ∧ (poll f S).1.shaped = true)
    (P2 := fun fs S => Fut.shapedL fs = true →
      (∀ e, CntL e (pollAll fs S).2.1 (pollAll fs S).1 ≤ CntL e S fs) ∧ Fut.shapedL (pollAll fs S).1 = true ∧
      (∀ e0, (pollAll fs S).2.2 = .failed e0 → e0 ∈ Fut.potL (pollAll fs S).1))
  · intro r S _; rw [poll_ready]; exact ⟨fun e => Nat.le_refl _, by simp [Fut.shaped]⟩
  · intro id res S _
    by_cases h : id ∈ S.chan <;> simp only [poll, h, if_true, if_false]
    · exact ⟨fun e => by cases res <;> simp [Cnt, Fut.pot], by simp [Fut.shaped]⟩
    · exact ⟨fun e => Nat.le_refl _, by simp [Fut.shaped]⟩
  · intro fn g S ih hs
    obtain ⟨i1, i2⟩ := ih (by simpa [Fut.shaped] using hs)
    have hres := poll_result_out g S
    have ho := poll_out g S
    rcases hp : poll g S with ⟨g', S1, o⟩
    rw [hp] at i1 i2 hres ho
    cases o with
    | some r =>
      rw [poll_map_some hp]
      have hr := poll_some_ready g S g' S1 r hp
      refine ⟨fun e => ?_, by simp [Fut.shaped]⟩
      have a := applyMap_cnt fn r S1 e
      have b := i1 e
      rw [hr] at b
      rw [hres r rfl] at a
      simp only [Cnt, Fut.pot, List.count_append] at a b ⊢
      omega
    | none =>
      rw [poll_map_none hp]
      simp only at ho
      refine ⟨fun e => ?_, by simpa [Fut.shaped] using i2⟩
      have b := i1 e
      simp only [Cnt, Fut.pot, List.count_append, ho] at b ⊢
      omega
  · intro fn g S ih hs
    obtain ⟨i1, i2⟩ := ih (by simpa [Fut.shaped] using hs)
    rcases hp : poll g S with ⟨g', S1, o⟩
    rw [hp] at i1 i2
    cases o with
    | some r =>
      have hr := poll_some_ready g S g' S1 r hp
      cases r with
      | ok v =>
        rw [poll_mapOk_ok hp]
        refine ⟨fun e => ?_, by simp [Fut.shaped]⟩
        have b := i1 e
        rw [hr] at b
        simp only [Cnt, Fut.pot, applyOk_errors] at b ⊢
        omega
      | err e' =>
        rw [poll_mapOk_err hp]
        refine ⟨fun e => ?_, by simp [Fut.shaped]⟩
        have b := i1 e
        rw [hr] at b
        simpa [Cnt, Fut.pot] using b
    | none => rw [poll_mapOk_none hp]; exact ⟨fun e => by simpa [Cnt, Fut.pot] using i1 e, by simpa [Fut.shaped] using i2⟩
  · intro g S ih hs
    obtain ⟨i1, i2⟩ := ih (by simpa [Fut.shaped] using hs)
    rcases hp : poll g S with ⟨g', S1, o⟩
    rw [hp] at i1 i2
    cases o with
    | some r =>
      have hr := poll_some_ready g S g' S1 r hp
      rw [poll_mapOkToAny_some hp]
      refine ⟨fun e => ?_, by simp [Fut.shaped]⟩
      have b := i1 e
      rw [hr] at b
      simpa [Cnt, Fut.pot] using b
    | none =>
      rw [poll_mapOkToAny_none hp]
      exact ⟨fun e => by simpa [Cnt, Fut.pot] using i1 e, by simpa [Fut.shaped] using i2⟩
  · intro v g S ih hs
    obtain ⟨i1, i2⟩ := ih (by simpa [Fut.shaped] using hs)
    rcases hp : poll g S with ⟨g', S1, o⟩
    rw [hp] at i1 i2
    cases o with
    | some r =>
      have hr := poll_some_ready g S g' S1 r hp
      cases r with
      | ok u =>
        rw [poll_mapOkValue_ok hp]
        refine ⟨fun e => ?_, by simp [Fut.shaped]⟩
        have b := i1 e
        rw [hr] at b
        simpa [Cnt, Fut.pot] using b
      | err e' =>
        rw [poll_mapOkValue_err hp]
        refine ⟨fun e => ?_, by simp [Fut.shaped]⟩
        have b := i1 e
        rw [hr] at b
        simpa [Cnt, Fut.pot] using b
    | none =>
      rw [poll_mapOkValue_none hp]
      exact ⟨fun e => by simpa [Cnt, Fut.pot] using i1 e, by simpa [Fut.shaped] using i2⟩
  · intro nn c path g S ih ihk hs
    -- shaped: g is the raw channel future
    cases g with
    | promise id res =>
      by_cases h : id ∈ S.chan
      · have hp : poll (.promise id res) S = (.ready res, { S with chan := S.chan.erase id }, some res) := by
          simp [poll, h]
        have hk := applyK_cnt nn c path res { S with chan := S.chan.erase id } id
        obtain ⟨k1, k2⟩ := ihk _ _ _ hp (hk default).2
        rcases hp2 : poll (applyK nn c path res { S with chan := S.chan.erase id }).1
          (applyK nn c path res { S with chan := S.chan.erase id }).2 with ⟨t', S3, o2⟩
        rw [hp2] at k1 k2
        cases o2 with
        | some r' =>
          rw [poll_thenK_fire_some hp hp2]
          have hr := poll_some_ready _ _ t' S3 r' hp2
          refine ⟨fun e => ?_, by simp [Fut.shaped]⟩
          have a := (hk e).1
          have b := k1 e
          rw [hr] at b
          simp only [Cnt] at a b ⊢
          omega
        | none =>
          rw [poll_thenK_fire_none hp hp2]
          refine ⟨fun e => ?_, by simpa [Fut.shaped] using k2⟩
          have a := (hk e).1
          have b := k1 e
          simp only [Cnt, Fut.pot] at a b ⊢
          omega
      · have hp : poll (.promise id res) S = (.promise id res, S, none) := by simp [poll, h]
        rw [poll_thenK_wait hp]
        exact ⟨fun e => Nat.le_refl _, by simp [Fut.shaped]⟩
    | _ => simp [Fut.shaped] at hs
  · intro nn c path g t S ih hs
    obtain ⟨i1, i2⟩ := ih (by simpa [Fut.shaped] using hs)
    rcases hp : poll t S with ⟨t', S1, o⟩
    rw [hp] at i1 i2
    cases o with
    | some r =>
      have hr := poll_some_ready t S t' S1 r hp
      rw [poll_thenK_cont_some hp]
      refine ⟨fun e => ?_, by simp [Fut.shaped]⟩
      have b := i1 e
      rw [hr] at b
      simpa [Cnt, Fut.pot] using b
    | none =>
      rw [poll_thenK_cont_none hp]
      exact ⟨fun e => by simpa [Cnt, Fut.pot] using i1 e, by simpa [Fut.shaped] using i2⟩
  · intro tag a b g S _ _ hs; simp [Fut.shaped] at hs
  · intro tag a b g t S _ hs; simp [Fut.shaped] at hs
  · intro fs S ih hs
    obtain ⟨i1, i2, i3⟩ := ih (by simpa [Fut.shaped] using hs)
    rcases hp : pollAll fs S with ⟨fs', S1, p⟩
    rw [hp] at i1 i2 i3
    cases p with
    | failed e0 =>
      rw [poll_join_failed hp]
      refine ⟨fun e => ?_, by simp [Fut.shaped]⟩
      have a := i1 e
      have b := count_singleton_le_of_mem (e' := e) (i3 e0 rfl)
      simp only [Cnt, CntL, Fut.pot] at a b ⊢
      omega
    | done vs =>
      rw [poll_join_done hp]
      refine ⟨fun e => ?_, by simp [Fut.shaped]⟩
      have a := i1 e
      simp only [Cnt, CntL, Fut.pot, List.count_nil] at a ⊢
      omega
    | pending =>
      rw [poll_join_pending hp]
      exact ⟨fun e => by simpa [Cnt, CntL, Fut.pot] using i1 e, by simpa [Fut.shaped] using i2⟩
  · intro fs S ih hs
    obtain ⟨i1, i2, i3⟩ := ih (by simpa [Fut.shaped] using hs)
    rcases hp : pollAll fs S with ⟨fs', S1, p⟩
    rw [hp] at i1 i2 i3
    cases p with
    | failed e0 =>
      rw [poll_after_failed hp]
      refine ⟨fun e => ?_, by simp [Fut.shaped]⟩
      have a := i1 e
      have b := count_singleton_le_of_mem (e' := e) (i3 e0 rfl)
      simp only [Cnt, CntL, Fut.pot] at a b ⊢
      omega
    | done vs =>
      rw [poll_after_done hp]
      refine ⟨fun e => ?_, by simp [Fut.shaped]⟩
      have a := i1 e
      simp only [Cnt, CntL, Fut.pot, List.count_nil] at a ⊢
      omega
    | pending =>
      rw [poll_after_pending hp]
      exact ⟨fun e => by simpa [Cnt, CntL, Fut.pot] using i1 e, by simpa [Fut.shaped] using i2⟩
  · intro S _; rw [pollAll_nil]; exact ⟨fun e => Nat.le_refl _, by simp [Fut.shapedL], fun e0 h => by cases h⟩
  · intro f rest S ih ihr hs
    simp only [Fut.shapedL, Bool.and_eq_true] at hs
    obtain ⟨i1, i2⟩ := ih hs.1
    rcases hp : poll f S with ⟨f', S1, o⟩
    rw [hp] at i1 i2
    cases o with
    | some r =>
      have hr := poll_some_ready f S f' S1 r hp
      cases r with
      | err e' =>
        rw [pollAll_cons_err hp]
        refine ⟨fun e => ?_, by simp [Fut.shapedL, i2, hs.2], fun e0 h => ?_⟩
        · have a := i1 e
          simp only [Cnt, CntL, Fut.potL, List.count_append] at a ⊢
          omega
        · simp only [Pass.failed.injEq] at h; subst h
          simp [Fut.potL, hr, Fut.pot]
      | ok v =>
        obtain ⟨r1, r2, r3⟩ := ihr f' S1 _ hp (by intro e h; cases h) hs.2
        have hm := poll_mono_aux.2 rest S1
        rcases hp2 : pollAll rest S1 with ⟨rest', S2, p⟩
        rw [hp2] at r1 r2 r3 hm
        rw [pollAll_cons_ok hp hp2]
        refine ⟨fun e => ?_, by simp [Fut.shapedL, i2, r2], fun e0 h => ?_⟩
        · have a := i1 e
          have b := r1 e
          rw [hr] at a
          simp only [Cnt, CntL, Fut.potL, Fut.pot, List.count_append, List.count_nil, hr] at a b ⊢
          omega
        · cases p <;> simp at h
          subst h
          exact List.mem_append_right _ (r3 _ rfl)
    | none =>
      obtain ⟨r1, r2, r3⟩ := ihr f' S1 _ hp (by intro e h; cases h) hs.2
      rcases hp2 : pollAll rest S1 with ⟨rest', S2, p⟩
      rw [hp2] at r1 r2 r3
      rw [pollAll_cons_none hp hp2]
      refine ⟨fun e => ?_, by simp [Fut.shapedL, i2, r2], fun e0 h => ?_⟩
      · have a := i1 e
        have b := r1 e
        simp only [Cnt, CntL, Fut.potL, List.count_append] at a b ⊢
        -- the errors of f' are untouched by polling the rest
        omega
      · cases p <;> simp at h
        subst h
        exact List.mem_append_right _ (r3 _ rfl)

/-! ### wait and whole requests -/

theorem idleRound_errors (mask : Option Nat) (S : Store) (hne : S.outstanding ≠ []) :
    errorsOf (idleRound mask S).log = errorsOf S.log := by
  obtain ⟨_, _, _, _, hlog, _⟩ := idleRound_spec mask S hne
  rw [hlog, errorsOf_append]
  have : ∀ l : List (Nat × Path), errorsOf (l.map (fun p => Entry.fulfil p.2)) = [] := by
    intro l; induction l with
    | nil => rfl
    | cons a l ih => simp [errorsOf, ih]
  rw [this]; simp

theorem waitLoop_cnt (fuel : Nat) : ∀ (f : Fut) (sched : List Nat) (S : Store), f.shaped = true →
    ∀ r, (waitLoop fuel f sched S).1 = .done r →
      ∀ e, (errorsOf (waitLoop fuel f sched S).2.2.log).count e + (Fut.ready r).pot.count e ≤ Cnt e S f := by
  induction fuel with
  | zero =>
    intro f sched S hs r h e
    obtain ⟨i1, _⟩ := poll_cnt_aux.1 f S hs
    rcases hp : poll f S with ⟨f', S1, o⟩
    rw [hp] at i1
    cases o with
    | none => rw [waitLoop_zero_none f f' sched S S1 hp] at h; cases h
    | some r' =>
      rw [waitLoop_some 0 f f' sched S S1 r' hp] at h ⊢
      cases h
      have := i1 e
      rw [poll_some_ready f S f' S1 r hp] at this
      simpa [Cnt] using this
  | succ fuel ih =>
    intro f sched S hs r h e
    obtain ⟨i1, i2⟩ := poll_cnt_aux.1 f S hs
    rcases hp : poll f S with ⟨f', S1, o⟩
    rw [hp] at i1 i2
    cases o with
    | some r' =>
      rw [waitLoop_some (fuel + 1) f f' sched S S1 r' hp] at h ⊢
      cases h
      have := i1 e
      rw [poll_some_ready f S f' S1 r hp] at this
      simpa [Cnt] using this
    | none =>
      by_cases he : S1.outstanding = []
      · rw [waitLoop_succ_stuck fuel f f' sched S S1 hp he] at h; cases h
      · rw [waitLoop_succ_none fuel f f' sched S S1 hp he] at h ⊢
        have := ih f' sched.tail (idleRound sched.head? S1) i2 r h e
        have a := i1 e
        simp only [Cnt, idleRound_errors _ _ he] at this a ⊢
        omega

/-- **Every reported error is a field error of the request, with multiplicity (query).** -/
theorem query_errors_count (rq : Request) (hq : rq.mutation = false) (r : Res) (h : (execute rq).1 = .done r) (e : Err) :
    (errorsOf (execute rq).2.log).count e ≤ (Spec.errsF rq.fields []).count e := by
  unfold execute at h ⊢
  simp only [hq, Bool.false_eq_true, if_false] at h ⊢
  rcases hb : execFields rq.fields [] rq.fields.length 0 [] {} with ⟨f, S1⟩
  have hbuild := (complete_cnt_aux e).2.1 rq.fields [] rq.fields.length 0 [] {} (by simp [Fut.shapedL])
  rw [hb] at h hbuild
  simp only at h ⊢
  have hw := waitLoop_cnt (Field.invocationsL rq.fields + 1) f rq.sched S1 hbuild.2
  rcases hwl : waitLoop (Field.invocationsL rq.fields + 1) f rq.sched S1 with ⟨w, sched', S⟩
  rw [hwl] at h hw
  have hb1 := hbuild.1
  simp only [Cnt, Fut.potL, List.count_nil, errorsOf] at hb1
  cases w with
  | done r' =>
    have := hw r' rfl e
    cases r' with
    | ok v =>
      simp only [Fut.pot, List.count_nil, Cnt] at this ⊢
      omega
    | err e' =>
      simp only [Fut.pot, Cnt] at this ⊢
      rw [errorsOf_push_error, List.count_append]
      omega
  | stuck => simp at h
  | outOfFuel => simp at h

theorem execSerial_cnt (st : Bool) (fuel : Nat) (e : Err) : ∀ (fields : List Field) (n i : Nat) (sched : List Nat) (S : Store),
    ∀ r, (execSerial st fuel fields n i sched S).1 = .done r →
      (errorsOf (execSerial st fuel fields n i sched S).2.2.log).count e + (Fut.ready r).pot.count e ≤
        (errorsOf S.log).count e + (Spec.errsF fields []).count e := by
  intro fields
  induction fields with
  | nil =>
    intro n i sched S r h
    simp only [execSerial] at h ⊢
    cases h
    simp [Fut.pot, Spec.errsF]
  | cons fld rest ih =>
    intro n i sched S r h
    cases fld with
    | mk key nn mode rerr c =>
      by_cases hm : mode = .tname
      · subst hm
        simp only [execSerial] at h ⊢
        have := ih n (i + 1) sched _ r h
        rw [errorsOf_push_other _ _ (by intros; simp)] at this
        simpa [Spec.errsF, Spec.headErrs] using this
      · rcases h1 : execField nn mode rerr c [.key key] (complete nn c [.key key]) S with ⟨f0, S1⟩
        rcases h2 : catchIfNullable nn f0 S1 with ⟨f, S2⟩
        have hf := execField_cnt nn mode rerr c [.key key] (complete nn c [.key key]) S e
          (fun S' => (complete_cnt_aux e).1 nn c [.key key] S')
        rw [h1] at hf
        have hc := catchIfNullable_cnt nn f0 S1 e
        have hcs := catchIfNullable_shaped nn f0 S1 hf.2
        rw [h2] at hc hcs
        rw [execSerial_cons st fuel key nn mode rerr c rest n i sched S S1 S2 f0 f hm h1 h2] at h ⊢
        have hw := waitLoop_cnt fuel f sched S2 hcs
        obtain ⟨sched0, S3', hwl, hset, _⟩ := waitSettle_settled st fuel f sched S2
        rcases hws : waitSettle st fuel f sched S2 with ⟨w, sched', S3⟩
        rw [hws] at h hwl hset
        rw [hwl] at hw
        simp only at hset hw
        rw [← hset.errorsOf] at hw
        rw [errsF_cons _ _ _ _ _ _ _ hm, List.count_append]
        simp only [List.nil_append]
        have a := hf.1
        simp only [Cnt] at a hc
        cases w with
        | done r' =>
          have b := hw r' rfl e
          cases r' with
          | err e' =>
            simp only [serialCont] at h ⊢
            cases h
            simp only [Cnt] at b ⊢
            omega
          | ok v =>
            simp only [serialCont] at h ⊢
            have := ih n (i + 1) sched' _ r h
            rw [errorsOf_push_other _ _ (by intros; simp)] at this
            simp only [Cnt, Fut.pot, List.count_nil] at b
            omega
        | stuck => simp [serialCont] at h
        | outOfFuel => simp [serialCont] at h

theorem mutation_errors_count (rq : Request) (hq : rq.mutation = true) (r : Res) (h : (execute rq).1 = .done r)
    (e : Err) : (errorsOf (execute rq).2.log).count e ≤ (Spec.errsF rq.fields []).count e := by
  unfold execute at h ⊢
  simp only [hq, if_true] at h ⊢
  have hs := execSerial_cnt rq.settle (Field.invocationsL rq.fields + 1) e rq.fields rq.fields.length 0 rq.sched {}
  rcases hx : execSerial rq.settle (Field.invocationsL rq.fields + 1) rq.fields rq.fields.length 0 rq.sched {} with ⟨w, s', S⟩
  rw [hx] at h hs
  cases w with
  | done r' =>
    have := hs r' rfl
    cases r' with
    | ok v => simp only [Fut.pot, List.count_nil, errorsOf] at this ⊢; omega
    | err e' =>
      simp only [Fut.pot, errorsOf, List.count_nil] at this ⊢
      rw [errorsOf_push_error, List.count_append]
      omega
  | stuck => simp at h
  | outOfFuel => simp at h

theorem request_errors_count (rq : Request) (r : Res) (h : (execute rq).1 = .done r) (e : Err) :
    (errorsOf (execute rq).2.log).count e ≤ (Spec.errsF rq.fields []).count e := by
  cases hq : rq.mutation
  · exact query_errors_count rq hq r h e
  · exact mutation_errors_count rq hq r h e

/-! ### the field errors of a request are pairwise distinct (distinct response keys) -/

theorem prefix_singleton_inj' {p m : Path} {a b : Seg} (h1 : (p ++ [a]) <+: m) (h2 : (p ++ [b]) <+: m) : a = b := by
  have h := List.prefix_of_prefix_length_le h1 h2 (by simp)
  have := h.eq_of_length (by simp)
  simpa using this

theorem keysL_contains_false' {key : String} {rest : List Field} (h : (Field.keysL rest).contains key = false) :
    key ∉ Field.keysL rest := by
  intro hm
  have : (Field.keysL rest).contains key = true := by simpa using hm
  rw [h] at this; cases this

theorem errs_nodup_aux :
    (∀ c : Comp, ∀ nn path, c.distinctKeys = true →
      (∀ e ∈ Spec.errsC nn c path, path <+: e.path) ∧ (Spec.errsC nn c path).Nodup) ∧
    (∀ fs : List Field, ∀ path, Field.distinctKeysL fs = true →
      (∀ e ∈ Spec.errsF fs path, ∃ key ∈ Field.keysL fs, (path ++ [Seg.key key]) <+: e.path) ∧
      (Spec.errsF fs path).Nodup) ∧
    (∀ cs : List Comp, ∀ inn path i, Comp.distinctKeysL cs = true →
      (∀ e ∈ Spec.errsL inn cs path i, ∃ j, i ≤ j ∧ (path ++ [Seg.idx j]) <+: e.path) ∧
      (Spec.errsL inn cs path i).Nodup) := by
  apply Comp.allSync.mutual_induct
    (motive_1 := fun c => ∀ nn path, c.distinctKeys = true →
      (∀ e ∈ Spec.errsC nn c path, path <+: e.path) ∧ (Spec.errsC nn c path).Nodup)
    (motive_2 := fun fs => ∀ path, Field.distinctKeysL fs = true →
      (∀ e ∈ Spec.errsF fs path, ∃ key ∈ Field.keysL fs, (path ++ [Seg.key key]) <+: e.path) ∧
      (Spec.errsF fs path).Nodup)
    (motive_3 := fun cs => ∀ inn path i, Comp.distinctKeysL cs = true →
      (∀ e ∈ Spec.errsL inn cs path i, ∃ j, i ≤ j ∧ (path ++ [Seg.idx j]) <+: e.path) ∧
      (Spec.errsL inn cs path i).Nodup)
  · intro inn cs ih nn path hd
    simp only [Comp.distinctKeys] at hd
    obtain ⟨h1, h2⟩ := ih inn path 0 hd
    simp only [Spec.errsC]
    refine ⟨fun e he => ?_, h2⟩
    obtain ⟨j, _, hj⟩ := h1 e he
    exact (List.prefix_append path [Seg.idx j]).trans hj
  · intro fs ih nn path hd
    simp only [Comp.distinctKeys] at hd
    obtain ⟨h1, h2⟩ := ih path hd
    simp only [Spec.errsC]
    refine ⟨fun e he => ?_, h2⟩
    obtain ⟨key, _, hk⟩ := h1 e he
    exact (List.prefix_append path [Seg.key key]).trans hk
  · intro nn path _
    simp only [Spec.errsC]
    cases nn <;> simp
  · intro s nn path _; simp [Spec.errsC]
  · intro m nn path _; simp [Spec.errsC]
  · intro inn path i _; simp [Spec.errsL]
  · intro c rest ih1 ih2 inn path i hd
    simp only [Comp.distinctKeysL, Bool.and_eq_true] at hd
    obtain ⟨a1, a2⟩ := ih1 inn (path ++ [Seg.idx i]) hd.1
    obtain ⟨b1, b2⟩ := ih2 inn path (i + 1) hd.2
    simp only [Spec.errsL]
    constructor
    · intro e he
      rcases List.mem_append.mp he with he | he
      · exact ⟨i, Nat.le_refl _, a1 e he⟩
      · obtain ⟨j, hj, hp⟩ := b1 e he
        exact ⟨j, by omega, hp⟩
    · refine List.nodup_append.mpr ⟨a2, b2, ?_⟩
      intro a ha b hb hab
      subst hab
      obtain ⟨j, hj, hp⟩ := b1 a hb
      have := prefix_singleton_inj' (a1 a ha) hp
      simp at this; omega
  · intro path _; simp [Spec.errsF]
  · intro key nn mode rerr c rest ih1 ih2 path hd
    simp only [Field.distinctKeysL, Bool.and_eq_true, Bool.not_eq_true'] at hd
    obtain ⟨⟨hk, hdc⟩, hdr⟩ := hd
    have hknot := keysL_contains_false' hk
    obtain ⟨a1, a2⟩ := ih1 nn (path ++ [Seg.key key]) hdc
    obtain ⟨b1, b2⟩ := ih2 path hdr
    have head_shape : ∀ e ∈ Spec.headErrs mode rerr (path ++ [Seg.key key]) (Spec.errsC nn c (path ++ [Seg.key key])),
        (path ++ [Seg.key key]) <+: e.path := by
      intro e he
      cases mode <;> cases rerr <;> simp [Spec.headErrs] at he
      all_goals first
        | exact a1 e he
        | (subst he; exact List.prefix_refl _)
    have head_nodup : (Spec.headErrs mode rerr (path ++ [Seg.key key]) (Spec.errsC nn c (path ++ [Seg.key key]))).Nodup := by
      cases mode <;> cases rerr <;> simp [Spec.headErrs, a2]
    simp only [Spec.errsF, Field.keysL]
    constructor
    · intro e he
      rcases List.mem_append.mp he with he | he
      · exact ⟨key, List.mem_cons_self, head_shape e he⟩
      · obtain ⟨key', hk', hp⟩ := b1 e he
        exact ⟨key', List.mem_cons_of_mem _ hk', hp⟩
    · refine List.nodup_append.mpr ⟨head_nodup, b2, ?_⟩
      intro a ha b hb hab
      subst hab
      obtain ⟨key', hk', hp⟩ := b1 a hb
      have := prefix_singleton_inj' (head_shape a ha) hp
      simp at this
      subst this
      exact hknot hk'

theorem count_le_one_of_nodup {l : List Err} (h : l.Nodup) (e : Err) : l.count e ≤ 1 := by
  induction l with
  | nil => simp
  | cons a l ih =>
    obtain ⟨hn, hl⟩ := List.nodup_cons.mp h
    rw [List.count_cons]
    by_cases hae : a = e
    · subst hae
      have : l.count a = 0 := List.count_eq_zero.mpr hn
      simp [this]
    · have := ih hl
      simp [hae]; omega

theorem nodup_of_count_le_one {l : List Err} (h : ∀ e, l.count e ≤ 1) : l.Nodup := by
  induction l with
  | nil => exact List.nodup_nil
  | cons a l ih =>
    refine List.nodup_cons.mpr ⟨fun hm => ?_, ih (fun e => ?_)⟩
    · have h1 := h a
      have h2 := List.count_pos_iff.mpr hm
      rw [List.count_cons] at h1
      simp at h1; omega
    · have h1 := h e
      rw [List.count_cons] at h1
      omega

theorem errsF_nodup (fs : List Field) (path : Path) (hd : Field.distinctKeysL fs = true) :
    (Spec.errsF fs path).Nodup := (errs_nodup_aux.2.1 fs path hd).2

end ApiFu.C02
