/-
  C02: where the distinct response keys come from (core Lean only).

  The theorems about data and duplicate errors assume that the response keys of every selection set
  of the plan are pairwise distinct (`Field.distinctKeysL`). The executor does not receive plans,
  it receives documents, and builds every selection set it executes with `collectFields`
  (executor.go: `collectFieldsImpl` over fields, inline fragments and fragment spreads, filtered by
  @skip/@include, into a `GroupedFieldSet`, whose `Append` adds a field to the entry of its response
  key or creates the entry) and `mergeSelectionSets` (the sub-selections of all fields of an entry,
  concatenated). This file transliterates both, elaborates a document + resolver outcomes ("world",
  keyed by field *name*, as the schema's resolvers are) into the plan the executor model runs
  (`Request.ofDoc`), and proves that every plan obtained that way has distinct keys
  (`ofDoc_distinctKeys`) — so for requests the executor can actually be given, the hypothesis is a
  theorem.

  Evaluated outside the model (flags on the syntax nodes): whether a directive filters a selection
  out (`skip`), whether a type condition applies to the concrete object type (`applies`), and the
  lookup of a fragment by name (the body stands at the spread).
-/
import ApiFu.C02.Spec

namespace ApiFu.C02

/-- A selection, as `collectFieldsImpl` sees it. -/
inductive Sel where
  | field (key name : String) (skip : Bool) (sub : List Sel)
  | inline (skip applies : Bool) (body : List Sel)
  | spread (skip : Bool) (frag : String) (applies : Bool) (body : List Sel)
  deriving Inhabited

/-- One `*ast.Field` of a `GroupedFieldSetItem`. -/
structure Occ where
  name : String
  sub : List Sel
  deriving Inhabited

/-- `GroupedFieldSet.items`. -/
abbrev Grouped := List (String × List Occ)

/-- `GroupedFieldSet.Append`. -/
def Grouped.add : Grouped → String → Occ → Grouped
  | [], key, o => [(key, [o])]
  | (k, os) :: rest, key, o => if k = key then (k, os ++ [o]) :: rest else (k, os) :: Grouped.add rest key o

def Grouped.keys (g : Grouped) : List String := g.map Prod.fst

mutual
  /-- `collectFieldsImpl`, one selection; `vis` is `visitedFragments`. -/
  def collectSel (s : Sel) (vis : List String) (g : Grouped) : List String × Grouped :=
    match s with
    | .field key name skip sub => if skip then (vis, g) else (vis, g.add key ⟨name, sub⟩)
    | .inline skip applies body => if skip || !applies then (vis, g) else collectL body vis g
    | .spread skip frag applies body =>
      if skip then (vis, g)
      else if vis.contains frag then (vis, g)
      else if !applies then (frag :: vis, g)
      else collectL body (frag :: vis) g
  def collectL (ss : List Sel) (vis : List String) (g : Grouped) : List String × Grouped :=
    match ss with
    | [] => (vis, g)
    | s :: rest =>
      let (v1, g1) := collectSel s vis g
      collectL rest v1 g1
end

/-- `collectFields(objectType, selections)`. -/
def collect (ss : List Sel) : Grouped := (collectL ss [] []).2

/-- `mergeSelectionSets(fields)`. -/
def mergeSubs : List Occ → List Sel
  | [] => []
  | o :: os => o.sub ++ mergeSubs os

/-! ### resolver outcomes, keyed by field name -/

mutual
  /-- A resolved value, described by how completeValue will treat it. -/
  inductive WComp where
    | null
    | scalar (s : String)
    | bad (msg : String)
    | list (inn : Bool) (items : List WComp)
    | object (tname : String) (fields : List WField)
  /-- What the resolver of field `name` of the object answers. -/
  inductive WField where
    | mk (name : String) (nn : Bool) (mode : Mode) (rerr : Option String) (c : WComp)
end

instance : Inhabited WComp := ⟨.null⟩

/-- The outcome of one resolver, with its value waiting for the merged sub-selection. -/
structure Resolved where
  nn : Bool
  mode : Mode
  rerr : Option String
  plan : List Sel → Comp

def lookupResolved (name : String) : List (String × Resolved) → Option Resolved
  | [] => none
  | (n, oc) :: rest => if n = name then some oc else lookupResolved name rest

/-- The plan field of one `GroupedFieldSetItem`: resolver and arguments of its first field
    (`fields[0]`), sub-selections of all of them. -/
def fuseOne (tname : String) (tbl : List (String × Resolved)) (key : String) (occs : List Occ) : Field :=
  match occs with
  | [] => .mk key false .sync (some "no field") .null          -- never: an entry is created with a field
  | o :: _ =>
    if o.name = "__typename" then .mk key false .tname none (.scalar (quote tname))
    else
      match lookupResolved o.name tbl with
      | some oc => .mk key oc.nn oc.mode oc.rerr (oc.plan (mergeSubs occs))
      | none => .mk key false .sync (some "no resolver") .null  -- never for a validated document

def fuse (tname : String) (tbl : List (String × Resolved)) : Grouped → List Field
  | [] => []
  | (key, occs) :: rest => fuseOne tname tbl key occs :: fuse tname tbl rest

mutual
  /-- The plan of a resolved value under the sub-selections `subs`: objects run `collectFields`. -/
  def WComp.plan (w : WComp) (subs : List Sel) : Comp :=
    match w with
    | .null => .null
    | .scalar s => .scalar s
    | .bad m => .bad m
    | .list inn items => .list inn (WComp.planL items subs)
    | .object tname fs => .object (fuse tname (WField.table fs) (collect subs))
  def WComp.planL (ws : List WComp) (subs : List Sel) : List Comp :=
    match ws with
    | [] => []
    | w :: rest => w.plan subs :: WComp.planL rest subs
  def WField.table (fs : List WField) : List (String × Resolved) :=
    match fs with
    | [] => []
    | .mk name nn mode rerr c :: rest => (name, ⟨nn, mode, rerr, fun subs => c.plan subs⟩) :: WField.table rest
end

/-- A request as the executor is given it: operation kind, root selection set, root value. -/
structure Doc where
  mutation : Bool
  sels : List Sel
  tname : String
  world : List WField
  sched : List Nat
  settle : Bool := false

/-- The plan the executor runs for the document. -/
def Request.ofDoc (d : Doc) : Request :=
  { mutation := d.mutation, fields := fuse d.tname (WField.table d.world) (collect d.sels), sched := d.sched,
    settle := d.settle }

/-! ### the keys of a grouped field set are distinct -/

theorem Grouped.keys_add (g : Grouped) (key : String) (o : Occ) :
    (g.add key o).keys = if key ∈ g.keys then g.keys else g.keys ++ [key] := by
  induction g with
  | nil => simp [Grouped.add, Grouped.keys]
  | cons a rest ih =>
    obtain ⟨k, os⟩ := a
    simp only [Grouped.add]
    by_cases h : k = key
    · subst h; simp [Grouped.keys]
    · simp only [h, if_false]
      simp only [Grouped.keys, List.map_cons, List.mem_cons] at ih ⊢
      have hne : ¬ key = k := fun h' => h h'.symm
      by_cases hm : key ∈ List.map Prod.fst rest
      · simp [hm, ih]
      · simp [hm, hne, ih]

theorem Grouped.add_nodup (g : Grouped) (key : String) (o : Occ) (h : g.keys.Nodup) : (g.add key o).keys.Nodup := by
  rw [Grouped.keys_add]
  by_cases hm : key ∈ g.keys
  · simp [hm, h]
  · simp only [hm, if_false]
    rw [List.nodup_append]
    exact ⟨h, by simp, by intro a ha b hb; simp at hb; subst hb; exact fun hab => hm (hab ▸ ha)⟩

theorem collect_nodup_aux :
    (∀ s vis g, g.keys.Nodup → (collectSel s vis g).2.keys.Nodup) ∧
    (∀ ss vis g, g.keys.Nodup → (collectL ss vis g).2.keys.Nodup) := by
  apply collectSel.mutual_induct
    (motive_1 := fun s vis g => g.keys.Nodup → (collectSel s vis g).2.keys.Nodup)
    (motive_2 := fun ss vis g => g.keys.Nodup → (collectL ss vis g).2.keys.Nodup)
  all_goals intros
  all_goals simp_all [collectSel, collectL, Grouped.add_nodup]

/-- **The response keys `collectFields` yields are pairwise distinct.** -/
theorem collect_keys_nodup (ss : List Sel) : (collect ss).keys.Nodup :=
  collect_nodup_aux.2 ss [] [] (by simp [Grouped.keys])

/-! ### every plan built from a document has distinct keys -/

theorem fuseOne_key (tname : String) (tbl : List (String × Resolved)) (key : String) (occs : List Occ) :
    Field.keysL [fuseOne tname tbl key occs] = [key] := by
  unfold fuseOne
  split
  · rfl
  · split
    · rfl
    · split <;> rfl

theorem keysL_cons (f : Field) (rest : List Field) : Field.keysL (f :: rest) = Field.keysL [f] ++ Field.keysL rest := by
  cases f; simp [Field.keysL]

theorem fuse_keys (tname : String) (tbl : List (String × Resolved)) (g : Grouped) :
    Field.keysL (fuse tname tbl g) = g.keys := by
  induction g with
  | nil => simp [fuse, Field.keysL, Grouped.keys]
  | cons a rest ih =>
    obtain ⟨key, occs⟩ := a
    simp only [fuse]
    rw [keysL_cons, fuseOne_key, ih]
    simp [Grouped.keys]

/-- The plan of every table entry has distinct keys under every sub-selection. -/
def TableOk (tbl : List (String × Resolved)) : Prop := ∀ n oc, (n, oc) ∈ tbl → ∀ subs, (oc.plan subs).distinctKeys = true

theorem lookupResolved_mem {name : String} {tbl : List (String × Resolved)} {oc : Resolved}
    (h : lookupResolved name tbl = some oc) : ∃ n, (n, oc) ∈ tbl := by
  induction tbl with
  | nil => simp [lookupResolved] at h
  | cons a rest ih =>
    obtain ⟨n, oc'⟩ := a
    simp only [lookupResolved] at h
    split at h
    · cases h; exact ⟨n, by simp⟩
    · obtain ⟨m, hm⟩ := ih h; exact ⟨m, List.mem_cons_of_mem _ hm⟩

theorem fuseOne_distinct (tname : String) (tbl : List (String × Resolved)) (htbl : TableOk tbl) (key : String)
    (occs : List Occ) (rest : List Field) :
    Field.distinctKeysL (fuseOne tname tbl key occs :: rest) =
      (!(Field.keysL rest).contains key && Field.distinctKeysL rest) := by
  unfold fuseOne
  split
  · simp [Field.distinctKeysL, Comp.distinctKeys]
  · split
    · simp [Field.distinctKeysL, Comp.distinctKeys]
    · split
      · rename_i oc hoc
        obtain ⟨n, hn⟩ := lookupResolved_mem hoc
        simp [Field.distinctKeysL, htbl n oc hn]
      · simp [Field.distinctKeysL, Comp.distinctKeys]

theorem fuse_distinct (tname : String) (tbl : List (String × Resolved)) (htbl : TableOk tbl) (g : Grouped)
    (h : g.keys.Nodup) : Field.distinctKeysL (fuse tname tbl g) = true := by
  induction g with
  | nil => simp [fuse, Field.distinctKeysL]
  | cons a rest ih =>
    obtain ⟨key, occs⟩ := a
    simp only [Grouped.keys, List.map_cons, List.nodup_cons] at h
    simp only [fuse]
    rw [fuseOne_distinct tname tbl htbl, fuse_keys, ih h.2]
    simp only [Bool.and_true, Bool.not_eq_true', List.contains_eq_mem, decide_eq_false_iff_not]
    exact h.1

theorem plan_distinct_aux :
    (∀ (w : WComp) subs, (w.plan subs).distinctKeys = true) ∧
    (∀ (fs : List WField), TableOk (WField.table fs)) ∧
    (∀ (ws : List WComp) subs, Comp.distinctKeysL (WComp.planL ws subs) = true) := by
  apply WComp.plan.mutual_induct
    (motive_1 := fun w subs => (w.plan subs).distinctKeys = true)
    (motive_2 := fun fs => TableOk (WField.table fs))
    (motive_3 := fun ws subs => Comp.distinctKeysL (WComp.planL ws subs) = true)
  · intro subs; simp [WComp.plan, Comp.distinctKeys]
  · intro subs s; simp [WComp.plan, Comp.distinctKeys]
  · intro subs m; simp [WComp.plan, Comp.distinctKeys]
  · intro subs inn items ih; simpa [WComp.plan, Comp.distinctKeys] using ih
  · intro subs tname fs ih
    simp only [WComp.plan, Comp.distinctKeys]
    exact fuse_distinct tname _ ih _ (collect_keys_nodup subs)
  · intro subs; simp [WComp.planL, Comp.distinctKeysL]
  · intro subs w rest ih1 ih2; simp [WComp.planL, Comp.distinctKeysL, ih1, ih2]
  · intro n oc h; simp [WField.table] at h
  · intro name nn mode rerr c rest ih1 ih2 n oc h
    simp only [WField.table, List.mem_cons, Prod.mk.injEq] at h
    rcases h with ⟨_, rfl⟩ | h
    · intro subs; exact ih1 subs
    · exact ih2 n oc h

/-- **ofDoc_distinctKeys.** The plan the executor runs for a document — whatever its fragments,
    repeated keys, skipped selections and resolver outcomes — has pairwise distinct response keys in
    every selection set, at every depth. -/
theorem ofDoc_distinctKeys (d : Doc) : Field.distinctKeysL (Request.ofDoc d).fields = true :=
  fuse_distinct d.tname _ (plan_distinct_aux.2.1 d.world) _ (collect_keys_nodup d.sels)

end ApiFu.C02
