/-
  C02: `collectFields` with its three parameters instantiated (core Lean only).

  ApiFu/C02/Collect.lean transliterates `collectFieldsImpl` over selections whose directives and
  type conditions have already been evaluated to flags and whose fragment spreads carry the
  fragment's body. Here the selections are the document's own (`CSel`): directives with their
  arguments — literals or variables —, type conditions by name, fragment spreads by name; and the
  three evaluations are models of the Go code:

  * `dirSkips` — the directive loop of `collectFieldsImpl` for the two directives that have a
    `FieldCollectionFilter`: `@skip(if:)` (filter `!if`) and `@include(if:)` (filter `if`), the
    argument coerced from a literal or from the coerced variable values; an argument that cannot be
    coerced (a variable that is null or absent at `Boolean!`) leaves the selection out (and reports
    an error, which the executor memoises together with the collection; the harness checks it is
    reported at most once). Other directives are ignored;
  * `typeApplies` — `schemaType` + `doesFragmentTypeApply`: an object type applies to itself, an
    interface to the object types that implement it, a union to its members; an unknown type name
    applies to nothing;
  * `lookupFrag` — `e.FragmentDefinitions[name]`; a spread of an unknown fragment collects nothing
    (after having been marked visited, as in the Go code).

  `collectSelC` / `collectLC` are recursive on a fuel argument (every call consumes one unit): the Go
  recursion through fragment definitions is not structural — it ends because of `visitedFragments`.
  Running out of fuel is never silent: the selection that could not be collected leaves the key
  `fuelKey` in the grouped field set, which no document can contain (it is not a GraphQL name), so
  the plan gets a field without resolver and the response of the model shows it — the comparison
  with the implementation fails instead of passing on a truncated collection. The driver supplies
  100000; every theorem below holds for every fuel.

  `Request.ofDocC` elaborates document + environment + resolver outcomes into the plan the executor
  model runs; the concrete type of every object value (`WComp.object tname …`) is what type
  conditions are checked against, so one selection set applied to values of different object types
  (an interface-typed list) is collected per type, as `collectFields(objectType, …)` is.
-/
import ApiFu.C02.Collect

namespace ApiFu.C02

/-- A directive argument `if: …`. -/
inductive DArg where
  | lit (b : Bool)
  | var (name : String)
  deriving Inhabited

structure Dir where
  name : String
  arg : DArg
  deriving Inhabited

/-- A selection of the document. -/
inductive CSel where
  | field (key name : String) (dirs : List Dir) (sub : List CSel)
  | inline (dirs : List Dir) (cond : Option String) (body : List CSel)
  | spread (dirs : List Dir) (frag : String)
  deriving Inhabited

inductive TypeDef where
  | object (ifaces : List String)     -- `ImplementedInterfaces`
  | iface
  | union (members : List String)     -- `MemberTypes`
  deriving Inhabited

structure FragDef where
  name : String
  cond : String
  body : List CSel

structure Env where
  /-- The coerced variable values: `none` = null (or no value). -/
  vars : List (String × Option Bool)
  frags : List FragDef
  types : List (String × TypeDef)
  fuel : Nat

def lookupVar (name : String) : List (String × Option Bool) → Option Bool
  | [] => none
  | (n, v) :: rest => if n = name then v else lookupVar name rest

/-- `coerceArgumentValues` for `if: Boolean!`: the value, or `none` when it cannot be coerced. -/
def evalArg (env : Env) : DArg → Option Bool
  | .lit b => some b
  | .var name => lookupVar name env.vars

/-- One directive of the loop: does it filter the selection out? -/
def dirSkips (env : Env) (d : Dir) : Bool :=
  if d.name = "skip" then
    match evalArg env d.arg with
    | none => true            -- uncoercible: error, skip = true
    | some b => b             -- FieldCollectionFilter(skip) = !if
  else if d.name = "include" then
    match evalArg env d.arg with
    | none => true
    | some b => !b            -- FieldCollectionFilter(include) = if
  else false                  -- no FieldCollectionFilter

def skipped (env : Env) (dirs : List Dir) : Bool := dirs.any (dirSkips env)

def lookupType (name : String) : List (String × TypeDef) → Option TypeDef
  | [] => none
  | (n, t) :: rest => if n = name then some t else lookupType name rest

/-- `doesFragmentTypeApply(objectType, schemaType(cond))`. -/
def typeApplies (env : Env) (objT cond : String) : Bool :=
  match lookupType cond env.types with
  | none => false
  | some (.object _) => cond == objT
  | some .iface =>
    match lookupType objT env.types with
    | some (.object ifaces) => ifaces.contains cond
    | _ => false
  | some (.union members) => members.contains objT

def lookupFrag (name : String) : List FragDef → Option FragDef
  | [] => none
  | f :: rest => if f.name = name then some f else lookupFrag name rest

/-- One `*ast.Field` of a `GroupedFieldSetItem`. -/
structure OccC where
  name : String
  sub : List CSel
  deriving Inhabited

abbrev GroupedC := List (String × List OccC)

/-- `GroupedFieldSet.Append`. -/
def GroupedC.add : GroupedC → String → OccC → GroupedC
  | [], key, o => [(key, [o])]
  | (k, os) :: rest, key, o => if k = key then (k, os ++ [o]) :: rest else (k, os) :: GroupedC.add rest key o

def GroupedC.keys (g : GroupedC) : List String := g.map Prod.fst

/-- The response key that marks a collection cut short by the fuel bound (not a GraphQL name). -/
def fuelKey : String := "<out of fuel>"

mutual
  /-- `collectFieldsImpl`, one selection, for object type `ty`; `vis` is `visitedFragments`. -/
  def collectSelC (env : Env) (ty : String) : Nat → CSel → List String → GroupedC → List String × GroupedC
    | 0, _, vis, g => (vis, g.add fuelKey ⟨"", []⟩)
    | _ + 1, .field key name dirs sub, vis, g =>
      if skipped env dirs then (vis, g) else (vis, g.add key ⟨name, sub⟩)
    | fuel + 1, .inline dirs cond body, vis, g =>
      if skipped env dirs then (vis, g)
      else
        match cond with
        | some c => if typeApplies env ty c then collectLC env ty fuel body vis g else (vis, g)
        | none => collectLC env ty fuel body vis g
    | fuel + 1, .spread dirs frag, vis, g =>
      if skipped env dirs then (vis, g)
      else if vis.contains frag then (vis, g)
      else
        match lookupFrag frag env.frags with
        | none => (frag :: vis, g)
        | some fd =>
          if typeApplies env ty fd.cond then collectLC env ty fuel fd.body (frag :: vis) g
          else (frag :: vis, g)
  def collectLC (env : Env) (ty : String) : Nat → List CSel → List String → GroupedC → List String × GroupedC
    | _, [], vis, g => (vis, g)
    | 0, _ :: _, vis, g => (vis, g.add fuelKey ⟨"", []⟩)
    | fuel + 1, s :: rest, vis, g =>
      let (v1, g1) := collectSelC env ty fuel s vis g
      collectLC env ty fuel rest v1 g1
end

/-- `collectFields(objectType, selections)`. -/
def collectC (env : Env) (ty : String) (ss : List CSel) : GroupedC := (collectLC env ty env.fuel ss [] []).2

/-- `mergeSelectionSets(fields)`. -/
def mergeSubsC : List OccC → List CSel
  | [] => []
  | o :: os => o.sub ++ mergeSubsC os

structure ResolvedC where
  nn : Bool
  mode : Mode
  rerr : Option String
  plan : List CSel → Comp

def lookupResolvedC (name : String) : List (String × ResolvedC) → Option ResolvedC
  | [] => none
  | (n, oc) :: rest => if n = name then some oc else lookupResolvedC name rest

def fuseOneC (tname : String) (tbl : List (String × ResolvedC)) (key : String) (occs : List OccC) : Field :=
  match occs with
  | [] => .mk key false .sync (some "no field") .null
  | o :: _ =>
    if o.name = "__typename" then .mk key false .tname none (.scalar (quote tname))
    else
      match lookupResolvedC o.name tbl with
      | some oc => .mk key oc.nn oc.mode oc.rerr (oc.plan (mergeSubsC occs))
      | none => .mk key false .sync (some "no resolver") .null

def fuseC (tname : String) (tbl : List (String × ResolvedC)) : GroupedC → List Field
  | [] => []
  | (key, occs) :: rest => fuseOneC tname tbl key occs :: fuseC tname tbl rest

mutual
  /-- The plan of a resolved value under the sub-selections `subs`: an object value of concrete
      type `tname` runs `collectFields(tname, subs)`. -/
  def WComp.planC (env : Env) (w : WComp) (subs : List CSel) : Comp :=
    match w with
    | .null => .null
    | .scalar s => .scalar s
    | .bad m => .bad m
    | .list inn items => .list inn (WComp.planLC env items subs)
    | .object tname fs => .object (fuseC tname (WField.tableC env fs) (collectC env tname subs))
  def WComp.planLC (env : Env) (ws : List WComp) (subs : List CSel) : List Comp :=
    match ws with
    | [] => []
    | w :: rest => w.planC env subs :: WComp.planLC env rest subs
  def WField.tableC (env : Env) (fs : List WField) : List (String × ResolvedC) :=
    match fs with
    | [] => []
    | .mk name nn mode rerr c :: rest => (name, ⟨nn, mode, rerr, fun subs => c.planC env subs⟩) :: WField.tableC env rest
end

/-- A request as the executor is given it: the operation's selection set as written, the
    environment (variables, fragment definitions, the schema's type relations), the root value. -/
structure DocC where
  mutation : Bool
  sels : List CSel
  env : Env
  tname : String
  world : List WField
  sched : List Nat
  settle : Bool := false

def Request.ofDocC (d : DocC) : Request :=
  { mutation := d.mutation, fields := fuseC d.tname (WField.tableC d.env d.world) (collectC d.env d.tname d.sels),
    sched := d.sched, settle := d.settle }

/-! ### the keys of a grouped field set are distinct -/

theorem GroupedC.keys_add (g : GroupedC) (key : String) (o : OccC) :
    (g.add key o).keys = if key ∈ g.keys then g.keys else g.keys ++ [key] := by
  induction g with
  | nil => simp [GroupedC.add, GroupedC.keys]
  | cons a rest ih =>
    obtain ⟨k, os⟩ := a
    simp only [GroupedC.add]
    by_cases h : k = key
    · subst h; simp [GroupedC.keys]
    · simp only [h, if_false]
      simp only [GroupedC.keys, List.map_cons, List.mem_cons] at ih ⊢
      have hne : ¬ key = k := fun h' => h h'.symm
      by_cases hm : key ∈ List.map Prod.fst rest
      · simp [hm, ih]
      · simp [hm, hne, ih]

theorem GroupedC.add_nodup (g : GroupedC) (key : String) (o : OccC) (h : g.keys.Nodup) : (g.add key o).keys.Nodup := by
  rw [GroupedC.keys_add]
  by_cases hm : key ∈ g.keys
  · simp [hm, h]
  · simp only [hm, if_false]
    rw [List.nodup_append]
    exact ⟨h, by simp, by intro a ha b hb; simp at hb; subst hb; exact fun hab => hm (hab ▸ ha)⟩

theorem collectC_nodup_aux (env : Env) (ty : String) (fuel : Nat) :
    (∀ s vis g, g.keys.Nodup → (collectSelC env ty fuel s vis g).2.keys.Nodup) ∧
    (∀ ss vis g, g.keys.Nodup → (collectLC env ty fuel ss vis g).2.keys.Nodup) := by
  induction fuel with
  | zero =>
    refine ⟨fun s vis g h => by simpa [collectSelC] using GroupedC.add_nodup _ _ _ h, fun ss vis g h => ?_⟩
    cases ss with
    | nil => simpa [collectLC] using h
    | cons s rest => simpa [collectLC] using GroupedC.add_nodup _ _ _ h
  | succ fuel ih =>
    refine ⟨fun s vis g h => ?_, fun ss vis g h => ?_⟩
    · cases s with
      | field key name dirs sub =>
        simp only [collectSelC]; split
        · exact h
        · exact GroupedC.add_nodup _ _ _ h
      | inline dirs cond body =>
        simp only [collectSelC]; split
        · exact h
        · cases cond with
          | none => exact ih.2 body vis g h
          | some c =>
            simp only; split
            · exact ih.2 body vis g h
            · exact h
      | spread dirs frag =>
        simp only [collectSelC]; split
        · exact h
        · split
          · exact h
          · split
            · exact h
            · split
              · exact ih.2 _ _ g h
              · exact h
    · cases ss with
      | nil => simpa [collectLC] using h
      | cons s rest =>
        simp only [collectLC]
        exact ih.2 rest _ _ (ih.1 s vis g h)

/-- The response keys `collectFields` yields are pairwise distinct. -/
theorem collectC_keys_nodup (env : Env) (ty : String) (ss : List CSel) : (collectC env ty ss).keys.Nodup :=
  (collectC_nodup_aux env ty env.fuel).2 ss [] [] (by simp [GroupedC.keys])

/-! ### every plan built from a document has distinct keys -/

theorem fuseOneC_key (tname : String) (tbl : List (String × ResolvedC)) (key : String) (occs : List OccC) :
    Field.keysL [fuseOneC tname tbl key occs] = [key] := by
  unfold fuseOneC
  split
  · rfl
  · split
    · rfl
    · split <;> rfl

theorem fuseC_keys (tname : String) (tbl : List (String × ResolvedC)) (g : GroupedC) :
    Field.keysL (fuseC tname tbl g) = g.keys := by
  induction g with
  | nil => simp [fuseC, Field.keysL, GroupedC.keys]
  | cons a rest ih =>
    obtain ⟨key, occs⟩ := a
    simp only [fuseC]
    rw [keysL_cons, fuseOneC_key, ih]
    simp [GroupedC.keys]

def TableOkC (tbl : List (String × ResolvedC)) : Prop := ∀ n oc, (n, oc) ∈ tbl → ∀ subs, (oc.plan subs).distinctKeys = true

theorem lookupResolvedC_mem {name : String} {tbl : List (String × ResolvedC)} {oc : ResolvedC}
    (h : lookupResolvedC name tbl = some oc) : ∃ n, (n, oc) ∈ tbl := by
  induction tbl with
  | nil => simp [lookupResolvedC] at h
  | cons a rest ih =>
    obtain ⟨n, oc'⟩ := a
    simp only [lookupResolvedC] at h
    split at h
    · cases h; exact ⟨n, by simp⟩
    · obtain ⟨m, hm⟩ := ih h; exact ⟨m, List.mem_cons_of_mem _ hm⟩

theorem fuseOneC_distinct (tname : String) (tbl : List (String × ResolvedC)) (htbl : TableOkC tbl) (key : String)
    (occs : List OccC) (rest : List Field) :
    Field.distinctKeysL (fuseOneC tname tbl key occs :: rest) =
      (!(Field.keysL rest).contains key && Field.distinctKeysL rest) := by
  unfold fuseOneC
  split
  · simp [Field.distinctKeysL, Comp.distinctKeys]
  · split
    · simp [Field.distinctKeysL, Comp.distinctKeys]
    · split
      · rename_i oc hoc
        obtain ⟨n, hn⟩ := lookupResolvedC_mem hoc
        simp [Field.distinctKeysL, htbl n oc hn]
      · simp [Field.distinctKeysL, Comp.distinctKeys]

theorem fuseC_distinct (tname : String) (tbl : List (String × ResolvedC)) (htbl : TableOkC tbl) (g : GroupedC)
    (h : g.keys.Nodup) : Field.distinctKeysL (fuseC tname tbl g) = true := by
  induction g with
  | nil => simp [fuseC, Field.distinctKeysL]
  | cons a rest ih =>
    obtain ⟨key, occs⟩ := a
    simp only [GroupedC.keys, List.map_cons, List.nodup_cons] at h
    simp only [fuseC]
    rw [fuseOneC_distinct tname tbl htbl, fuseC_keys, ih h.2]
    simp only [Bool.and_true, Bool.not_eq_true', List.contains_eq_mem, decide_eq_false_iff_not]
    exact h.1

theorem planC_distinct_aux (env : Env) :
    (∀ (w : WComp) subs, (w.planC env subs).distinctKeys = true) ∧
    (∀ (fs : List WField), TableOkC (WField.tableC env fs)) ∧
    (∀ (ws : List WComp) subs, Comp.distinctKeysL (WComp.planLC env ws subs) = true) := by
  apply WComp.planC.mutual_induct
    (motive_1 := fun w subs => (w.planC env subs).distinctKeys = true)
    (motive_2 := fun fs => TableOkC (WField.tableC env fs))
    (motive_3 := fun ws subs => Comp.distinctKeysL (WComp.planLC env ws subs) = true)
  · intro subs; simp [WComp.planC, Comp.distinctKeys]
  · intro subs s; simp [WComp.planC, Comp.distinctKeys]
  · intro subs m; simp [WComp.planC, Comp.distinctKeys]
  · intro subs inn items ih; simpa [WComp.planC, Comp.distinctKeys] using ih
  · intro subs tname fs ih
    simp only [WComp.planC, Comp.distinctKeys]
    exact fuseC_distinct tname _ ih _ (collectC_keys_nodup env tname subs)
  · intro subs; simp [WComp.planLC, Comp.distinctKeysL]
  · intro subs w rest ih1 ih2; simp [WComp.planLC, Comp.distinctKeysL, ih1, ih2]
  · intro n oc h; simp [WField.tableC] at h
  · intro name nn mode rerr c rest ih1 ih2 n oc h
    simp only [WField.tableC, List.mem_cons, Prod.mk.injEq] at h
    rcases h with ⟨_, rfl⟩ | h
    · intro subs; exact ih1 subs
    · exact ih2 n oc h

/-- The plan the executor runs for a concrete document has pairwise distinct response keys in
    every selection set, at every depth. -/
theorem ofDocC_distinctKeys (d : DocC) : Field.distinctKeysL (Request.ofDocC d).fields = true :=
  fuseC_distinct d.tname _ ((planC_distinct_aux d.env).2.1 d.world) _ (collectC_keys_nodup d.env d.tname d.sels)

/-! ### fuel: once the marker is absent, more fuel changes nothing -/

theorem GroupedC.keys_subset_add (g : GroupedC) (key : String) (o : OccC) : ∀ k ∈ g.keys, k ∈ (g.add key o).keys := by
  intro k hk
  rw [GroupedC.keys_add]
  split
  · exact hk
  · exact List.mem_append_left _ hk

theorem GroupedC.mem_keys_add (g : GroupedC) (key : String) (o : OccC) : key ∈ (g.add key o).keys := by
  rw [GroupedC.keys_add]
  split
  · assumption
  · simp

/-- The grouped field set only grows. -/
theorem collectC_keys_grow (env : Env) (ty : String) (fuel : Nat) :
    (∀ s vis g, ∀ k ∈ g.keys, k ∈ (collectSelC env ty fuel s vis g).2.keys) ∧
    (∀ ss vis g, ∀ k ∈ g.keys, k ∈ (collectLC env ty fuel ss vis g).2.keys) := by
  induction fuel with
  | zero =>
    refine ⟨fun s vis g k hk => by simpa [collectSelC] using GroupedC.keys_subset_add _ _ _ k hk, fun ss vis g k hk => ?_⟩
    cases ss with
    | nil => simpa [collectLC] using hk
    | cons s rest => simpa [collectLC] using GroupedC.keys_subset_add _ _ _ k hk
  | succ fuel ih =>
    refine ⟨fun s vis g k hk => ?_, fun ss vis g k hk => ?_⟩
    · cases s with
      | field key name dirs sub =>
        simp only [collectSelC]; split
        · exact hk
        · exact GroupedC.keys_subset_add _ _ _ k hk
      | inline dirs cond body =>
        simp only [collectSelC]; split
        · exact hk
        · cases cond with
          | none => exact ih.2 body vis g k hk
          | some c =>
            simp only; split
            · exact ih.2 body vis g k hk
            · exact hk
      | spread dirs frag =>
        simp only [collectSelC]; split
        · exact hk
        · split
          · exact hk
          · split
            · exact hk
            · split
              · exact ih.2 _ _ g k hk
              · exact hk
    · cases ss with
      | nil => simpa [collectLC] using hk
      | cons s rest =>
        simp only [collectLC]
        exact ih.2 rest _ _ k (ih.1 s vis g k hk)

/-- **More fuel changes nothing once the marker is absent.** -/
theorem collectC_fuel_step (env : Env) (ty : String) (fuel : Nat) :
    (∀ s vis g, fuelKey ∉ (collectSelC env ty fuel s vis g).2.keys →
      collectSelC env ty (fuel + 1) s vis g = collectSelC env ty fuel s vis g) ∧
    (∀ ss vis g, fuelKey ∉ (collectLC env ty fuel ss vis g).2.keys →
      collectLC env ty (fuel + 1) ss vis g = collectLC env ty fuel ss vis g) := by
  induction fuel with
  | zero =>
    refine ⟨fun s vis g h => ?_, fun ss vis g h => ?_⟩
    · exact absurd (by simpa [collectSelC] using GroupedC.mem_keys_add g fuelKey ⟨"", []⟩) h
    · cases ss with
      | nil => simp [collectLC]
      | cons s rest => exact absurd (by simpa [collectLC] using GroupedC.mem_keys_add g fuelKey ⟨"", []⟩) h
  | succ fuel ih =>
    refine ⟨fun s vis g h => ?_, fun ss vis g h => ?_⟩
    · cases s with
      | field key name dirs sub => simp only [collectSelC]
      | inline dirs cond body =>
        simp only [collectSelC] at h ⊢
        split
        · rfl
        · rename_i hs
          simp only [hs, Bool.false_eq_true, if_false] at h
          cases cond with
          | none => exact ih.2 body vis g h
          | some c =>
            simp only at h ⊢
            split
            · rename_i ha; simp only [ha, if_true] at h; exact ih.2 body vis g h
            · rfl
      | spread dirs frag =>
        simp only [collectSelC] at h ⊢
        split
        · rfl
        · rename_i hs
          simp only [hs, Bool.false_eq_true, if_false] at h
          split
          · rfl
          · rename_i hv
            simp only [hv, Bool.false_eq_true, if_false] at h
            split
            · rfl
            · rename_i fd hf
              simp only [hf] at h
              split
              · rename_i ha; simp only [ha, if_true] at h; exact ih.2 _ _ g h
              · rfl
    · cases ss with
      | nil => simp [collectLC]
      | cons s rest =>
        simp only [collectLC] at h ⊢
        have h1 : fuelKey ∉ (collectSelC env ty fuel s vis g).2.keys :=
          fun hm => h ((collectC_keys_grow env ty fuel).2 rest _ _ fuelKey hm)
        rw [ih.1 s vis g h1]
        exact ih.2 rest _ _ h

theorem collectC_fuel_mono (env : Env) (ty : String) (fuel : Nat) (ss : List CSel) (vis : List String) (g : GroupedC)
    (h : fuelKey ∉ (collectLC env ty fuel ss vis g).2.keys) (more : Nat) :
    collectLC env ty (fuel + more) ss vis g = collectLC env ty fuel ss vis g := by
  induction more with
  | zero => rfl
  | succ m ih =>
    have : fuelKey ∉ (collectLC env ty (fuel + m) ss vis g).2.keys := by rw [ih]; exact h
    rw [show fuel + (m + 1) = (fuel + m) + 1 by omega, (collectC_fuel_step env ty (fuel + m)).2 ss vis g this, ih]

end ApiFu.C02
