/-
  C02 lemmas about required errors (core Lean only): every error the reference semantics requires
  (`Spec.required`: the own error of every visible null) is reported by every run.

  `f.owedE` lists the required errors future `f` still has to log before it resolves ok (none if
  it is going to fail: then nothing beneath it is visible). Builders establish, and `poll`
  preserves,   "every required error is owed or already in executor.Errors";   a future that has
  resolved owes nothing.
-/
import ApiFu.C02.Errors

namespace ApiFu.C02

/-- The error a failing future directly beneath a `CatchError` is certain to fail with, when that
    is static: a ready error, a promise that delivers an error, a promise whose value fails with its
    own completion error. -/
def Fut.certF : Fut → List Err
  | .ready (.err e) => [e]
  | .thenK _ _ path (.promise _ (.err e0)) none => [⟨path, e0.msg⟩]
  | .thenK nn c path (.promise _ (.ok _)) none => if nn then [] else Spec.certC c path
  | .thenK _ _ _ _ (some t) => t.certF
  | _ => []

mutual
  /-- Required errors `f` still has to log before it resolves ok. -/
  def Fut.owedE : Fut → List Err
    | .ready _ => []
    | .promise _ _ => []
    | .map .catchError g => if g.out.isOk then g.owedE else g.certF
    | .map (.nonNull _) g => g.owedE
    | .map (.tap _) g => g.owedE
    | .mapOk _ g => g.owedE
    | .mapOkToAny g => g.owedE
    | .mapOkValue _ g => g.owedE
    | .thenK nn c path g none => if g.out.isOk then Spec.reqC nn c path else []
    | .thenK _ _ _ _ (some t) => t.owedE
    | .thenT _ _ _ _ _ => []
    | .join gs => if (Fut.outs gs).isSome then Fut.owedEL gs else []
    | .after gs => if (Fut.outs gs).isSome then Fut.owedEL gs else []
  def Fut.owedEL : List Fut → List Err
    | [] => []
    | g :: gs => g.owedE ++ Fut.owedEL gs
end

/-- `e` has been appended to executor.Errors. -/
def Rep (log : List Entry) (e : Err) : Prop := e ∈ errorsOf log

theorem Rep.mono {S S' : Store} (h : Mono S S') {e : Err} (hr : Rep S.log e) : Rep S'.log e := by
  obtain ⟨l, hl⟩ := h.log
  simp only [Rep, hl, errorsOf_append, List.mem_append]; exact Or.inl hr

theorem Rep.push_error (S : Store) (e : Err) : Rep (S.push (.error e)).log e := by
  simp [Rep, errorsOf_push_error]

/-! ### the certain error is the one that comes out -/

theorem complete_bad (msg : String) (path : Path) (S : Store) :
    complete false (.bad msg) path S = (.ready (.err ⟨path, msg⟩), S) := by
  simp [complete, nonNullWrap]

theorem certC_mem {c : Comp} {p : Path} {e : Err} (h : e ∈ Spec.certC c p) : ∃ msg, c = .bad msg ∧ e = ⟨p, msg⟩ := by
  cases c <;> simp [Spec.certC] at h
  exact ⟨_, rfl, h⟩

theorem poll_cert_aux :
    (∀ f S, ∀ e ∈ f.certF, ((poll f S).2.2 = none → e ∈ (poll f S).1.certF) ∧
      (∀ e', (poll f S).2.2 = some (.err e') → e' = e)) ∧
    (∀ (fs : List Fut) (S : Store), True) := by
  apply poll_induct'
    (P1 := fun f S => ∀ e ∈ f.certF, ((poll f S).2.2 = none → e ∈ (poll f S).1.certF) ∧
      (∀ e', (poll f S).2.2 = some (.err e') → e' = e))
    (P2 := fun _ _ => True)
  · intro r S e he
    rw [poll_ready]
    cases r with
    | ok v => simp [Fut.certF] at he
    | err e0 =>
      simp only [Fut.certF, List.mem_singleton] at he; subst he
      exact ⟨fun h => by cases h, fun e' h => by cases h; rfl⟩
  · intro id res S e he; simp [Fut.certF] at he
  · intro fn g S _ e he; simp [Fut.certF] at he
  · intro fn g S _ e he; simp [Fut.certF] at he
  · intro g S _ e he; simp [Fut.certF] at he
  · intro v g S _ e he; simp [Fut.certF] at he
  · intro nn c path g S _ _ e he
    cases g with
    | promise id res =>
      by_cases h : id ∈ S.chan
      · have hp : poll (.promise id res) S = (.ready res, { S with chan := S.chan.erase id }, some res) := by
          simp [poll, h]
        cases res with
        | err e0 =>
          simp only [Fut.certF, List.mem_singleton] at he; subst he
          have hp2 : poll (applyK nn c path (.err e0) { S with chan := S.chan.erase id }).1
              (applyK nn c path (.err e0) { S with chan := S.chan.erase id }).2 =
              (.ready (.err ⟨path, e0.msg⟩), { S with chan := S.chan.erase id }, some (.err ⟨path, e0.msg⟩)) := by
            simp [applyK, poll_ready]
          rw [poll_thenK_fire_some hp hp2]
          exact ⟨fun h => by cases h, fun e' h => by cases h; rfl⟩
        | ok v =>
          simp only [Fut.certF] at he
          cases nn with
          | true => simp at he
          | false =>
            simp only [Bool.false_eq_true, if_false] at he
            obtain ⟨msg, rfl, rfl⟩ := certC_mem he
            have hp2 : poll (applyK false (.bad msg) path (.ok v) { S with chan := S.chan.erase id }).1
                (applyK false (.bad msg) path (.ok v) { S with chan := S.chan.erase id }).2 =
                (.ready (.err ⟨path, msg⟩), { S with chan := S.chan.erase id }, some (.err ⟨path, msg⟩)) := by
              simp [applyK, complete_bad, poll_ready]
            rw [poll_thenK_fire_some hp hp2]
            exact ⟨fun h => by cases h, fun e' h => by cases h; rfl⟩
      · have hp : poll (.promise id res) S = (.promise id res, S, none) := by simp [poll, h]
        rw [poll_thenK_wait hp]
        exact ⟨fun _ => he, fun e' h => by cases h⟩
    | _ => simp [Fut.certF] at he
  · intro nn c path g t S ih e he
    have ih := ih e (by simpa [Fut.certF] using he)
    rcases hp : poll t S with ⟨t', S1, o⟩
    rw [hp] at ih
    cases o with
    | some r =>
      rw [poll_thenK_cont_some hp]
      exact ⟨fun h => by cases h, fun e' h => ih.2 e' (by simpa using h)⟩
    | none =>
      rw [poll_thenK_cont_none hp]
      exact ⟨fun _ => by simpa [Fut.certF] using ih.1 rfl, fun e' h => by cases h⟩
  · intro tag a b g S _ _ e he; simp [Fut.certF] at he
  · intro tag a b g t S _ e he; simp [Fut.certF] at he
  · intro fs S _ e he; simp [Fut.certF] at he
  · intro fs S _ e he; simp [Fut.certF] at he
  · intro S; trivial
  · intro f rest S _ _; trivial

end ApiFu.C02
