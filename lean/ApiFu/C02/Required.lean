/-
  C02 lemmas about required errors (core Lean only): every error the reference semantics requires
  (`Spec.required`: the own error of every visible null) is reported by every run.

  `f.owedE` lists the required errors future `f` still has to log before it resolves ok (none if
  it is going to fail: then nothing beneath it is visible). Builders establish, and `poll`
  preserves,   "every required error is owed or already in executor.Errors";   a future that has
  resolved owes nothing.
-/
import ApiFu.C02.Errors
import ApiFu.C02.Data

namespace ApiFu.C02

/-- The error a failing future directly beneath a `CatchError` is certain to fail with, when that
    is static: a ready error, a promise that delivers an error, a promise whose value fails with its
    own completion error. -/
def Fut.certF : Fut → List Err
  | .ready (.err e) => [e]
  | .thenK _ _ path (.promise _ (.err e0)) none => [⟨path, e0.msg⟩]
  | .thenK nn c path (.promise _ (.ok _)) none => if nn then [] else Spec.certC c path
  | .thenK _ _ _ _ (some t) => t.certF
  | _ => []

mutual
  /-- Required errors `f` still has to log before it resolves ok. -/
  def Fut.owedE : Fut → List Err
    | .ready _ => []
    | .promise _ _ => []
    | .map .catchError g => if g.out.isOk then g.owedE else g.certF
    | .map (.nonNull _) g => g.owedE
    | .map (.tap _) g => g.owedE
    | .mapOk _ g => g.owedE
    | .mapOkToAny g => g.owedE
    | .mapOkValue _ g => g.owedE
    | .thenK nn c path g none => if g.out.isOk then Spec.reqC nn c path else []
    | .thenK _ _ _ _ (some t) => t.owedE
    | .thenT _ _ _ _ _ => []
    | .join gs => if (Fut.outs gs).isSome then Fut.owedEL gs else []
    | .after gs => if (Fut.outs gs).isSome then Fut.owedEL gs else []
  def Fut.owedEL : List Fut → List Err
    | [] => []
    | g :: gs => g.owedE ++ Fut.owedEL gs
end

/-- `e` has been appended to executor.Errors. -/
def Rep (log : List Entry) (e : Err) : Prop := e ∈ errorsOf log

theorem Rep.mono {S S' : Store} (h : Mono S S') {e : Err} (hr : Rep S.log e) : Rep S'.log e := by
  obtain ⟨l, hl⟩ := h.log
  simp only [Rep, hl, errorsOf_append, List.mem_append]; exact Or.inl hr

theorem Rep.push_error (S : Store) (e : Err) : Rep (S.push (.error e)).log e := by
  simp [Rep, errorsOf_push_error]

/-! ### the certain error is the one that comes out -/

theorem complete_bad (msg : String) (path : Path) (S : Store) :
    complete false (.bad msg) path S = (.ready (.err ⟨path, msg⟩), S) := by
  simp [complete, nonNullWrap]

theorem certC_mem {c : Comp} {p : Path} {e : Err} (h : e ∈ Spec.certC c p) : ∃ msg, c = .bad msg ∧ e = ⟨p, msg⟩ := by
  cases c <;> simp [Spec.certC] at h
  exact ⟨_, rfl, h⟩

theorem poll_cert_aux :
    (∀ f S, ∀ e ∈ f.certF, ((poll f S).2.2 = none → e ∈ (poll f S).1.certF) ∧
      (∀ e', (poll f S).2.2 = some (.err e') → e' = e)) ∧
    (∀ (fs : List Fut) (S : Store), True) := by
  apply poll_induct'
    (P1 := fun f S => ∀ e ∈ f.certF, ((poll f S).2.2 = none → e ∈ (poll f S).1.certF) ∧
      (∀ e', (poll f S).2.2 = some (.err e') → e' = e))
    (P2 := fun _ _ => True)
  · intro r S e he
    rw [poll_ready]
    cases r with
    | ok v => simp [Fut.certF] at he
    | err e0 =>
      simp only [Fut.certF, List.mem_singleton] at he; subst he
      exact ⟨fun h => (by cases h), fun e' h => (by cases h; rfl)⟩
  · intro id res S e he; simp [Fut.certF] at he
  · intro fn g S _ e he; simp [Fut.certF] at he
  · intro fn g S _ e he; simp [Fut.certF] at he
  · intro g S _ e he; simp [Fut.certF] at he
  · intro v g S _ e he; simp [Fut.certF] at he
  · intro nn c path g S _ _ e he
    cases g with
    | promise id res =>
      by_cases h : id ∈ S.chan
      · have hp : poll (.promise id res) S = (.ready res, { S with chan := S.chan.erase id }, some res) := by
          simp [poll, h]
        cases res with
        | err e0 =>
          simp only [Fut.certF, List.mem_singleton] at he; subst he
          have hp2 : poll (applyK nn c path (.err e0) { S with chan := S.chan.erase id }).1
              (applyK nn c path (.err e0) { S with chan := S.chan.erase id }).2 =
              (.ready (.err ⟨path, e0.msg⟩), { S with chan := S.chan.erase id }, some (.err ⟨path, e0.msg⟩)) := by
            simp [applyK, poll_ready]
          rw [poll_thenK_fire_some hp hp2]
          exact ⟨fun h => (by cases h), fun e' h => (by cases h; rfl)⟩
        | ok v =>
          simp only [Fut.certF] at he
          cases nn with
          | true => simp at he
          | false =>
            simp only [Bool.false_eq_true, if_false] at he
            obtain ⟨msg, rfl, rfl⟩ := certC_mem he
            have hp2 : poll (applyK false (.bad msg) path (.ok v) { S with chan := S.chan.erase id }).1
                (applyK false (.bad msg) path (.ok v) { S with chan := S.chan.erase id }).2 =
                (.ready (.err ⟨path, msg⟩), { S with chan := S.chan.erase id }, some (.err ⟨path, msg⟩)) := by
              simp [applyK, complete_bad, poll_ready]
            rw [poll_thenK_fire_some hp hp2]
            exact ⟨fun h => (by cases h), fun e' h => (by cases h; rfl)⟩
      · have hp : poll (.promise id res) S = (.promise id res, S, none) := by simp [poll, h]
        rw [poll_thenK_wait hp]
        exact ⟨fun _ => he, fun e' h => (by cases h)⟩
    | _ => simp [Fut.certF] at he
  · intro nn c path g t S ih e he
    have ih := ih e (by simpa [Fut.certF] using he)
    rcases hp : poll t S with ⟨t', S1, o⟩
    rw [hp] at ih
    cases o with
    | some r =>
      rw [poll_thenK_cont_some hp]
      exact ⟨fun h => (by cases h), fun e' h => ih.2 e' (by simpa using h)⟩
    | none =>
      rw [poll_thenK_cont_none hp]
      exact ⟨fun _ => (by simpa [Fut.certF] using ih.1 rfl), fun e' h => (by cases h)⟩
  · intro tag a b g S _ _ e he; simp [Fut.certF] at he
  · intro tag a b g t S _ e he; simp [Fut.certF] at he
  · intro fs S _ e he; simp [Fut.certF] at he
  · intro fs S _ e he; simp [Fut.certF] at he
  · intro S; trivial
  · intro f rest S _ _; trivial

/-! ### constructors -/

theorem mkMap_req_catch (f : Fut) (S : Store) :
    ∀ e ∈ (Fut.map .catchError f).owedE,
      e ∈ (mkMap .catchError f S).1.owedE ∨ Rep (mkMap .catchError f S).2.log e := by
  intro e he
  cases f with
  | ready r =>
    cases r with
    | ok v => simp [Fut.owedE, Fut.out, Res.out, Out.isOk] at he
    | err e0 =>
      simp only [Fut.owedE, Fut.out, Res.out, Out.isOk, Bool.false_eq_true, if_false, Fut.certF,
        List.mem_singleton] at he
      subst he
      exact Or.inr (by simp only [mkMap, applyMap]; exact Rep.push_error S e)
  | _ => exact Or.inl (by simpa [mkMap] using he)

theorem mkMap_owedE_nonNull (e0 : Err) (f : Fut) (S : Store) : (mkMap (.nonNull e0) f S).1.owedE = f.owedE := by
  cases f <;> simp [mkMap, Fut.owedE]

theorem nonNullWrap_owedE (nn : Bool) (path : Path) (f : Fut) (S : Store) :
    (nonNullWrap nn path f S).1.owedE = f.owedE := by
  unfold nonNullWrap; cases nn <;> simp [mkMap_owedE_nonNull]

theorem mkMapOkToAny_owedE (f : Fut) : (mkMapOkToAny f).owedE = f.owedE := by
  cases f <;> simp [mkMapOkToAny, Fut.owedE]

theorem mkMapOkValue_owedE (v : Val) (f : Fut) : (mkMapOkValue v f).owedE = f.owedE := by
  cases f with
  | ready r => cases r <;> simp [mkMapOkValue, Fut.owedE]
  | _ => simp [mkMapOkValue, Fut.owedE]

theorem scanReady_done_owedE (fs : List Fut) (vs : List Val) (h : scanReady fs = .done vs) : Fut.owedEL fs = [] := by
  induction fs generalizing vs with
  | nil => rfl
  | cons f rest ih =>
    cases f with
    | ready r =>
      cases r with
      | ok v =>
        simp only [scanReady] at h
        cases hr : scanReady rest with
        | done vs' => simp [Fut.owedEL, Fut.owedE, ih vs' hr]
        | failed e => simp [hr] at h
        | pending => simp [hr] at h
      | err e => simp [scanReady] at h
    | _ => simp only [scanReady] at h; split at h <;> cases h

theorem mkJoin_owedE (fs : List Fut) (h : (Fut.outs fs).isSome = true) : (mkJoin fs).owedE = Fut.owedEL fs := by
  have hs := scanReady_out fs
  unfold mkJoin
  split
  · rename_i e he; rw [hs.1 e he] at h; simp at h
  · rename_i vs he; simp [Fut.owedE, scanReady_done_owedE fs vs he]
  · simp [Fut.owedE, h]

theorem mkAfter_owedE (fs : List Fut) (h : (Fut.outs fs).isSome = true) : (mkAfter fs).owedE = Fut.owedEL fs := by
  have hs := scanReady_out fs
  unfold mkAfter
  split
  · rename_i e he; rw [hs.1 e he] at h; simp at h
  · rename_i vs he; simp [Fut.owedE, scanReady_done_owedE fs vs he]
  · simp [Fut.owedE, h]

theorem owedEL_append_one (acc : List Fut) (g : Fut) : Fut.owedEL (acc ++ [g]) = Fut.owedEL acc ++ g.owedE := by
  induction acc with
  | nil => simp [Fut.owedEL]
  | cons a acc ih => simp [Fut.owedEL, ih]

theorem catch_req_ok (f : Fut) (S : Store) (hok : f.out.isOk = true) :
    ∀ e ∈ f.owedE, e ∈ (catchIfNullable false f S).1.owedE ∨ Rep (catchIfNullable false f S).2.log e := by
  intro e he
  have := mkMap_req_catch f S e (by simpa [Fut.owedE, hok] using he)
  simpa [catchIfNullable] using this

theorem catch_req_fail (f : Fut) (S : Store) (hok : f.out.isOk = false) :
    ∀ e ∈ f.certF, e ∈ (catchIfNullable false f S).1.owedE ∨ Rep (catchIfNullable false f S).2.log e := by
  intro e he
  have := mkMap_req_catch f S e (by simpa [Fut.owedE, hok] using he)
  simpa [catchIfNullable] using this

theorem execField_req (nn : Bool) (mode : Mode) (c : Comp) (p : Path) (completed : Store → Fut × Store) (S : Store)
    (hm : mode ≠ .tname)
    (hc : ∀ S', ∀ e ∈ Spec.reqC nn c p, e ∈ (completed S').1.owedE ∨ Rep (completed S').2.log e) :
    ∀ e ∈ Spec.reqC nn c p,
      e ∈ (execField nn mode none c p completed S).1.owedE ∨ Rep (execField nn mode none c p completed S).2.log e := by
  intro e he
  unfold execField
  cases mode with
  | tname => exact absurd rfl hm
  | sync => exact hc _ e he
  | promise => exact Or.inl (by simpa [Fut.owedE, Fut.out, Res.out, Out.isOk] using he)
  | pre => exact Or.inl (by simpa [Fut.owedE, Fut.out, Res.out, Out.isOk] using he)

theorem execField_cert_rerr (nn : Bool) (mode : Mode) (msg : String) (c : Comp) (p : Path)
    (completed : Store → Fut × Store) (S : Store) (hm : mode ≠ .tname) :
    (⟨p, msg⟩ : Err) ∈ (execField nn mode (some msg) c p completed S).1.certF := by
  unfold execField
  cases mode with
  | tname => exact absurd rfl hm
  | sync => simp [Fut.certF]
  | promise => simp [Fut.certF]
  | pre => simp [Fut.certF]

theorem execField_cert_comp (mode : Mode) (c : Comp) (p : Path) (S : Store) (hm : mode ≠ .tname) :
    ∀ e ∈ Spec.certC c p, e ∈ (execField false mode none c p (fun S' => complete false c p S') S).1.certF := by
  intro e he
  obtain ⟨msg, rfl, rfl⟩ := certC_mem he
  unfold execField
  cases mode with
  | tname => exact absurd rfl hm
  | sync => simp [complete_bad, Fut.certF]
  | promise => simp [Fut.certF, Spec.certC]
  | pre => simp [Fut.certF, Spec.certC]

/-- The future of one field, after `catchErrorIfNullable`, owes or has reported every required
    error of that field. -/
theorem fieldStep_req (path : Path) (key : String) (nn : Bool) (mode : Mode) (rerr : Option String) (c : Comp)
    (S S1 S11 : Store) (f f1 : Fut) (hm : mode ≠ .tname)
    (ihc : ∀ S', ∀ e ∈ Spec.reqC nn c (path ++ [.key key]),
      e ∈ (complete nn c (path ++ [.key key]) S').1.owedE ∨ Rep (complete nn c (path ++ [.key key]) S').2.log e)
    (h1 : execField nn mode rerr c (path ++ [.key key]) (fun S' => complete nn c (path ++ [.key key]) S') S = (f, S1))
    (h2 : catchIfNullable nn f S1 = (f1, S11)) :
    ∀ e ∈ Spec.reqHead mode nn rerr (path ++ [.key key]) (Spec.comp nn c (path ++ [.key key])).isOk
        (Spec.reqC nn c (path ++ [.key key])) (Spec.certC c (path ++ [.key key])),
      e ∈ f1.owedE ∨ Rep S11.log e := by
  intro e he
  have hfout := execField_out nn mode rerr c (path ++ [.key key]) (fun S' => complete nn c (path ++ [.key key]) S') S
    (fun S' => complete_out _ _ _ _)
  rw [h1] at hfout
  simp only at hfout
  have hcm := catchIfNullable_mono nn f S1
  rw [h2] at hcm
  cases rerr with
  | some msg =>
    simp only at hfout
    have hcert := execField_cert_rerr nn mode msg c (path ++ [.key key])
      (fun S' => complete nn c (path ++ [.key key]) S') S hm
    rw [h1] at hcert
    cases nn with
    | true => cases mode <;> simp [Spec.reqHead] at he
    | false =>
      have he' : e = ⟨path ++ [.key key], msg⟩ := by cases mode <;> simp_all [Spec.reqHead]
      subst he'
      have := catch_req_fail f S1 (by rw [hfout]; rfl) _ hcert
      rw [h2] at this; exact this
  | none =>
    simp only at hfout
    by_cases hok : (Spec.comp nn c (path ++ [.key key])).isOk = true
    · have he' : e ∈ Spec.reqC nn c (path ++ [.key key]) := by cases mode <;> simp_all [Spec.reqHead]
      have hreq := execField_req nn mode c (path ++ [.key key]) (fun S' => complete nn c (path ++ [.key key]) S') S hm ihc e he'
      rw [h1] at hreq
      rcases hreq with hreq | hreq
      · cases nn with
        | true =>
          simp only [catchIfNullable, if_true, Prod.mk.injEq] at h2
          obtain ⟨rfl, rfl⟩ := h2; exact Or.inl hreq
        | false =>
          have := catch_req_ok f S1 (by rw [hfout]; exact hok) e hreq
          rw [h2] at this; exact this
      · exact Or.inr (hreq.mono hcm)
    · have hok' : (Spec.comp nn c (path ++ [.key key])).isOk = false := by simpa using hok
      cases nn with
      | true => cases mode <;> simp_all [Spec.reqHead]
      | false =>
        have he' : e ∈ Spec.certC c (path ++ [.key key]) := by cases mode <;> simp_all [Spec.reqHead]
        have hcert := execField_cert_comp mode c (path ++ [.key key]) S hm e he'
        rw [h1] at hcert
        have := catch_req_fail f S1 (by rw [hfout]; exact hok') e hcert
        rw [h2] at this; exact this

theorem itemStep_req (inn : Bool) (c : Comp) (p : Path) (S S1 S11 : Store) (f f1 : Fut)
    (ih1 : ∀ e ∈ Spec.reqC inn c p, e ∈ (complete inn c p S).1.owedE ∨ Rep (complete inn c p S).2.log e)
    (h1 : complete inn c p S = (f, S1)) (h2 : catchIfNullable inn f S1 = (f1, S11)) :
    ∀ e ∈ (if (Spec.comp inn c p).isOk then Spec.reqC inn c p else if inn then [] else Spec.certC c p),
      e ∈ f1.owedE ∨ Rep S11.log e := by
  intro e he
  have hfout : f.out = Spec.comp inn c p := by have := complete_out inn c p S; rw [h1] at this; exact this
  have hcm := catchIfNullable_mono inn f S1
  rw [h2] at hcm
  rw [h1] at ih1
  by_cases hok : (Spec.comp inn c p).isOk = true
  · simp only [hok, if_true] at he
    rcases ih1 e he with h | h
    · cases inn with
      | true =>
        simp only [catchIfNullable, if_true, Prod.mk.injEq] at h2
        obtain ⟨rfl, rfl⟩ := h2; exact Or.inl h
      | false =>
        have := catch_req_ok f S1 (by rw [hfout]; exact hok) e h
        rw [h2] at this; exact this
    · exact Or.inr (h.mono hcm)
  · have hok' : (Spec.comp inn c p).isOk = false := by simpa using hok
    simp only [hok', Bool.false_eq_true, if_false] at he
    cases inn with
    | true => simp at he
    | false =>
      simp only [Bool.false_eq_true, if_false] at he
      obtain ⟨msg, rfl, rfl⟩ := certC_mem he
      rw [complete_bad] at h1
      simp only [Prod.mk.injEq] at h1
      obtain ⟨rfl, rfl⟩ := h1
      have := catch_req_fail (.ready (.err ⟨p, msg⟩)) S (by simp [Fut.out, Res.out, Out.isOk]) ⟨p, msg⟩
        (by simp [Fut.certF])
      rw [h2] at this; exact this

theorem mem_reqF_cons (key : String) (nn : Bool) (mode : Mode) (rerr : Option String) (c : Comp)
    (rest : List Field) (path : Path) (e : Err) :
    e ∈ Spec.reqF (.mk key nn mode rerr c :: rest) path ↔
      e ∈ Spec.reqHead mode nn rerr (path ++ [.key key]) (Spec.comp nn c (path ++ [.key key])).isOk
        (Spec.reqC nn c (path ++ [.key key])) (Spec.certC c (path ++ [.key key])) ∨
      e ∈ Spec.reqF rest path := by
  simp [Spec.reqF]

/-- After building, every required error beneath a visible value is owed by the returned future or
    already reported. -/
theorem complete_req_aux :
    (∀ nn c path S, ∀ e ∈ Spec.reqC nn c path,
      e ∈ (complete nn c path S).1.owedE ∨ Rep (complete nn c path S).2.log e) ∧
    (∀ fields path n i acc S, (Fut.outs acc).isSome = true → Spec.fieldsOk fields path = true →
      ∀ e, (e ∈ Fut.owedEL acc ∨ e ∈ Spec.reqF fields path) →
        e ∈ (execFields fields path n i acc S).1.owedE ∨ Rep (execFields fields path n i acc S).2.log e) ∧
    (∀ inn items path i S, (Spec.items inn items path i).isSome = true →
      ∀ e ∈ Spec.reqL inn items path i,
        e ∈ Fut.owedEL (completeItems inn items path i S).1 ∨ Rep (completeItems inn items path i S).2.log e) := by
  apply complete.mutual_induct
    (motive_1 := fun nn c path S => ∀ e ∈ Spec.reqC nn c path,
      e ∈ (complete nn c path S).1.owedE ∨ Rep (complete nn c path S).2.log e)
    (motive_2 := fun fields path n i acc S => (Fut.outs acc).isSome = true → Spec.fieldsOk fields path = true →
      ∀ e, (e ∈ Fut.owedEL acc ∨ e ∈ Spec.reqF fields path) →
        e ∈ (execFields fields path n i acc S).1.owedE ∨ Rep (execFields fields path n i acc S).2.log e)
    (motive_3 := fun inn items path i S => (Spec.items inn items path i).isSome = true →
      ∀ e ∈ Spec.reqL inn items path i,
        e ∈ Fut.owedEL (completeItems inn items path i S).1 ∨ Rep (completeItems inn items path i S).2.log e)
  · intro nn path S e h; simp [Spec.reqC] at h
  · intro nn path S a e h; simp [Spec.reqC] at h
  · intro nn path S a e h; simp [Spec.reqC] at h
  · intro nn path S inn items fs S1 h ih e he
    have hsome : (Spec.items inn items path 0).isSome = true := by
      simp only [Spec.reqC, Spec.comp] at he
      cases hi : Spec.items inn items path 0 <;> simp_all [Out.isOk]
    have hcl : e ∈ Spec.reqL inn items path 0 := by
      simp only [Spec.reqC] at he
      split at he
      · exact he
      · simp at he
    have ih := ih hsome e hcl; rw [h] at ih
    have houts : Fut.outs fs = Spec.items inn items path 0 := by
      have := complete_out_aux.2.2 inn items path 0 S; rw [h] at this; exact this
    simp only [complete, h, nonNullWrap_owedE, mkMapOkToAny_owedE, mkJoin_owedE fs (by rw [houts]; exact hsome)]
    rcases ih with h1 | h1
    · exact Or.inl h1
    · exact Or.inr (h1.mono (nonNullWrap_mono _ _ _ _))
  · intro nn path S fields f S1 h ih e he
    have hok : Spec.fieldsOk fields path = true := by
      simp only [Spec.reqC, Spec.comp] at he
      cases hi : Spec.fieldsOk fields path <;> simp_all [Out.isOk]
    have hcl : e ∈ Spec.reqF fields path := by
      simp only [Spec.reqC] at he
      split at he
      · exact he
      · simp at he
    have ih := ih (by simp [Fut.outs]) hok e (Or.inr hcl); rw [h] at ih
    simp only [complete, h, nonNullWrap_owedE, mkMapOkToAny_owedE]
    rcases ih with h1 | h1
    · exact Or.inl h1
    · exact Or.inr (h1.mono (nonNullWrap_mono _ _ _ _))
  · intro inn path i S _ e h; simp [Spec.reqL] at h
  · intro inn path i S c rest f S1 h1 f1 S11 h2 fs S2 h3 ih1 ih2 hsome e he
    have hrest := items_cons_some inn c rest path i hsome
    have hm3 := complete_mono_aux.2.2 inn rest path (i + 1) S11
    rw [h3] at hm3
    simp only [completeItems, h1, h2, h3, Fut.owedEL]
    simp only [Spec.reqL, List.mem_append] at he
    rcases he with he | he
    · rcases itemStep_req inn c (path ++ [.idx i]) S S1 S11 f f1 ih1 h1 h2 e he with h | h
      · exact Or.inl (List.mem_append_left _ h)
      · exact Or.inr (h.mono hm3)
    · have ih2 := ih2 hrest e he; rw [h3] at ih2
      rcases ih2 with h | h
      · exact Or.inl (List.mem_append_right _ h)
      · exact Or.inr h
  · intro path n i acc S hacc _ e he
    simp only [execFields, mkMapOkValue_owedE, mkAfter_owedE acc hacc]
    rcases he with h | h
    · exact Or.inl h
    · simp [Spec.reqF] at h
  · intro path n i acc S key nn rerr c rest ih hacc hok e he
    rw [execFields_tname]
    have hok' : Spec.fieldsOk rest path = true := by rw [fieldsOk_cons] at hok; simp at hok; exact hok.2
    rcases he with h | h
    · exact ih hacc hok' e (Or.inl h)
    · rcases (mem_reqF_cons _ _ _ _ _ _ _ _).mp h with h | h
      · simp [Spec.reqHead] at h
      · exact ih hacc hok' e (Or.inr h)
  · intro path n i acc S key nn mode rerr c rest itemPath f S1 h1 S11 e' hm h2 ihc hacc hok e he
    have hm' : mode ≠ .tname := fun h => hm h
    have hout := fieldStep_out path key nn mode rerr c S S1 S11 f _ hm' (fun S' => complete_out _ _ _ _) h1 h2
    rw [fieldsOk_cons, ← hout] at hok
    simp [Fut.out, Res.out, Out.isOk] at hok
  · intro path n i acc S key nn mode rerr c rest itemPath f S1 h1 S11 v hm h2 ihc ih hacc hok e he
    have hm' : mode ≠ .tname := fun h => hm h
    have hok' : Spec.fieldsOk rest path = true := by rw [fieldsOk_cons] at hok; simp at hok; exact hok.2
    rw [execFields_cons path key nn mode rerr c rest n i acc S S1 S11 f _ hm' h1 h2, fieldCont_ready_ok]
    have hmr := complete_mono_aux.2.1 rest path n (i + 1) acc (S11.push (.write path i key v))
    rcases he with h | h
    · exact ih hacc hok' e (Or.inl h)
    · rcases (mem_reqF_cons _ _ _ _ _ _ _ _).mp h with h | h
      · rcases fieldStep_req path key nn mode rerr c S S1 S11 f _ hm' ihc h1 h2 e h with hc | hc
        · simp [Fut.owedE] at hc
        · exact Or.inr ((hc.mono (Mono.push _ _)).mono hmr)
      · exact ih hacc hok' e (Or.inr h)
  · intro path n i acc S key nn mode rerr c rest itemPath f S1 h1 S11 f1 hne hno hm h2 ihc ih hacc hok e he
    have hm' : mode ≠ .tname := fun h => hm h
    have hout := fieldStep_out path key nn mode rerr c S S1 S11 f f1 hm' (fun S' => complete_out _ _ _ _) h1 h2
    have hok1 : f1.out.isOk = true := by rw [hout]; rw [fieldsOk_cons] at hok; simp at hok; exact hok.1
    have hok' : Spec.fieldsOk rest path = true := by rw [fieldsOk_cons] at hok; simp at hok; exact hok.2
    rw [execFields_cons path key nn mode rerr c rest n i acc S S1 S11 f f1 hm' h1 h2,
      fieldCont_async rest path n i acc key f1 S11 hne hno]
    have hacc' : (Fut.outs (acc ++ [Fut.mapOk (OkFn.setSlot path i key) f1])).isSome = true := by
      rw [outs_append_one]; simp only [hacc, Fut.out, Bool.true_and]
      cases hf : f1.out <;> simp_all [outOk, Out.isOk]
    have hmr := complete_mono_aux.2.1 rest path n (i + 1) (acc ++ [Fut.mapOk (OkFn.setSlot path i key) f1]) S11
    have ih := ih hacc' hok' e
    rw [owedEL_append_one] at ih
    simp only [Fut.owedE, List.mem_append] at ih
    rcases he with h | h
    · exact ih (Or.inl (Or.inl h))
    · rcases (mem_reqF_cons _ _ _ _ _ _ _ _).mp h with h | h
      · rcases fieldStep_req path key nn mode rerr c S S1 S11 f f1 hm' ihc h1 h2 e h with hc | hc
        · exact ih (Or.inl (Or.inr hc))
        · exact Or.inr (hc.mono hmr)
      · exact ih (Or.inr h)

/-! ### poll -/

theorem pollAll_done_owedE (fs : List Fut) : ∀ (S : Store) (fs' : List Fut) (S' : Store) (vs : List Val),
    pollAll fs S = (fs', S', .done vs) → Fut.owedEL fs' = [] := by
  induction fs with
  | nil => intro S fs' S' vs h; rw [pollAll_nil] at h; cases h; rfl
  | cons f rest ih =>
    intro S fs' S' vs h
    rcases hp : poll f S with ⟨f', S1, o⟩
    cases o with
    | none =>
      rcases hp2 : pollAll rest S1 with ⟨rest', S2, p⟩
      rw [pollAll_cons_none hp hp2] at h
      cases p <;> simp at h
    | some r =>
      cases r with
      | err e => rw [pollAll_cons_err hp] at h; cases h
      | ok v =>
        rcases hp2 : pollAll rest S1 with ⟨rest', S2, p⟩
        rw [pollAll_cons_ok hp hp2] at h
        cases p with
        | done vs' =>
          simp only [Prod.mk.injEq] at h
          obtain ⟨rfl, _, _⟩ := h
          have hr := poll_some_ready f S f' S1 _ hp
          simp [Fut.owedEL, hr, Fut.owedE, ih S1 rest' S2 vs' hp2]
        | failed e => simp at h
        | pending => simp at h

theorem applyK_req (nn : Bool) (c : Comp) (path : Path) (r : Res) (S : Store) (hr : r.isOk = true) :
    ∀ e ∈ Spec.reqC nn c path, e ∈ (applyK nn c path r S).1.owedE ∨ Rep (applyK nn c path r S).2.log e := by
  cases r with
  | ok v => simp only [applyK]; exact complete_req_aux.1 nn c path S
  | err e => simp [Res.isOk] at hr

/-- Polling never loses a required error: it stays owed or gets reported. -/
theorem poll_req_aux :
    (∀ f S, ∀ e ∈ f.owedE, e ∈ (poll f S).1.owedE ∨ Rep (poll f S).2.1.log e) ∧
    (∀ fs S, ∀ e ∈ Fut.owedEL fs, e ∈ Fut.owedEL (pollAll fs S).1 ∨ Rep (pollAll fs S).2.1.log e) := by
  apply poll_induct'
    (P1 := fun f S => ∀ e ∈ f.owedE, e ∈ (poll f S).1.owedE ∨ Rep (poll f S).2.1.log e)
    (P2 := fun fs S => ∀ e ∈ Fut.owedEL fs, e ∈ Fut.owedEL (pollAll fs S).1 ∨ Rep (pollAll fs S).2.1.log e)
  · intro r S e h; simp [Fut.owedE] at h
  · intro id res S e h; simp [Fut.owedE] at h
  · -- map
    intro fn g S ih e he
    have hres := poll_result_out g S
    have ho := poll_out g S
    have hcert := poll_cert_aux.1 g S
    rcases hp : poll g S with ⟨g', S1, o⟩
    rw [hp] at hres ho hcert
    simp only at ho
    cases fn with
    | catchError =>
      simp only [Fut.owedE] at he
      by_cases hok : g.out.isOk = true
      · simp only [hok, if_true] at he
        have ih := ih e he; rw [hp] at ih
        cases o with
        | some r =>
          rw [poll_map_some hp]
          have hr := poll_some_ready g S g' S1 r hp
          rcases ih with h | h
          · simp [hr, Fut.owedE] at h
          · exact Or.inr (h.mono (applyMap_mono _ _ _))
        | none =>
          rw [poll_map_none hp]
          simp only [Fut.owedE, ho, hok, if_true]; exact ih
      · have hok' : g.out.isOk = false := by simpa using hok
        simp only [hok', Bool.false_eq_true, if_false] at he
        obtain ⟨c1, c2⟩ := hcert e he
        cases o with
        | some r =>
          rw [poll_map_some hp]
          cases r with
          | ok v => have := hres _ rfl; rw [← this] at hok'; simp [Res.out, Out.isOk] at hok'
          | err e' =>
            have := c2 e' rfl; subst this
            exact Or.inr (by simp only [applyMap]; exact Rep.push_error S1 e')
        | none =>
          rw [poll_map_none hp]
          simp only [Fut.owedE, ho, hok', Bool.false_eq_true, if_false]
          exact Or.inl (c1 rfl)
    | nonNull e0 =>
      have ih := ih e (by simpa [Fut.owedE] using he); rw [hp] at ih
      cases o with
      | some r =>
        rw [poll_map_some hp]
        have hr := poll_some_ready g S g' S1 r hp
        rcases ih with h | h
        · simp [hr, Fut.owedE] at h
        · exact Or.inr (h.mono (applyMap_mono _ _ _))
      | none => rw [poll_map_none hp]; simpa [Fut.owedE] using ih
    | tap t =>
      have ih := ih e (by simpa [Fut.owedE] using he); rw [hp] at ih
      cases o with
      | some r =>
        rw [poll_map_some hp]
        have hr := poll_some_ready g S g' S1 r hp
        rcases ih with h | h
        · simp [hr, Fut.owedE] at h
        · exact Or.inr (h.mono (applyMap_mono _ _ _))
      | none => rw [poll_map_none hp]; simpa [Fut.owedE] using ih
  · intro fn g S ih e he
    have ih := ih e (by simpa [Fut.owedE] using he)
    rcases hp : poll g S with ⟨g', S1, o⟩
    rw [hp] at ih
    cases o with
    | some r =>
      have hr := poll_some_ready g S g' S1 r hp
      have hrep : Rep S1.log e := by
        rcases ih with h | h
        · simp [hr, Fut.owedE] at h
        · exact h
      cases r with
      | ok v => rw [poll_mapOk_ok hp]; exact Or.inr (hrep.mono (applyOk_mono _ _ _))
      | err e' => rw [poll_mapOk_err hp]; exact Or.inr hrep
    | none => rw [poll_mapOk_none hp]; simpa [Fut.owedE] using ih
  · intro g S ih e he
    have ih := ih e (by simpa [Fut.owedE] using he)
    rcases hp : poll g S with ⟨g', S1, o⟩
    rw [hp] at ih
    cases o with
    | some r =>
      rw [poll_mapOkToAny_some hp]
      have hr := poll_some_ready g S g' S1 r hp
      rcases ih with h | h
      · simp [hr, Fut.owedE] at h
      · exact Or.inr h
    | none => rw [poll_mapOkToAny_none hp]; simpa [Fut.owedE] using ih
  · intro v g S ih e he
    have ih := ih e (by simpa [Fut.owedE] using he)
    rcases hp : poll g S with ⟨g', S1, o⟩
    rw [hp] at ih
    cases o with
    | some r =>
      have hr := poll_some_ready g S g' S1 r hp
      have hrep : Rep S1.log e := by
        rcases ih with h | h
        · simp [hr, Fut.owedE] at h
        · exact h
      cases r with
      | ok u => rw [poll_mapOkValue_ok hp]; exact Or.inr hrep
      | err e' => rw [poll_mapOkValue_err hp]; exact Or.inr hrep
    | none => rw [poll_mapOkValue_none hp]; simpa [Fut.owedE] using ih
  · intro nn c path g S ih ihk e he
    have hres := poll_result_out g S
    have ho := poll_out g S
    rcases hp : poll g S with ⟨g', S1, o⟩
    rw [hp] at hres ho
    simp only [Fut.owedE] at he
    by_cases hok : g.out.isOk = true
    · simp only [hok, if_true] at he
      cases o with
      | none =>
        rw [poll_thenK_wait hp]
        simp only at ho
        exact Or.inl (by simpa [Fut.owedE, ho, hok] using he)
      | some r =>
        have hrok : r.isOk = true := by rw [← out_isOk_of_res (hres r rfl)]; exact hok
        have hk := applyK_req nn c path r S1 hrok e he
        have ihk := ihk g' S1 r hp
        have hmono := poll_mono (applyK nn c path r S1).1 (applyK nn c path r S1).2
        rcases hp2 : poll (applyK nn c path r S1).1 (applyK nn c path r S1).2 with ⟨t', S3, o2⟩
        rw [hp2] at ihk hmono
        have hfinal : e ∈ t'.owedE ∨ Rep S3.log e := by
          rcases hk with h | h
          · exact ihk e h
          · exact Or.inr (h.mono hmono)
        cases o2 with
        | some r' =>
          rw [poll_thenK_fire_some hp hp2]
          have hr := poll_some_ready _ _ t' S3 r' hp2
          rcases hfinal with h | h
          · simp [hr, Fut.owedE] at h
          · exact Or.inr h
        | none => rw [poll_thenK_fire_none hp hp2]; simpa [Fut.owedE] using hfinal
    · simp [hok] at he
  · intro nn c path g t S ih e he
    have ih := ih e (by simpa [Fut.owedE] using he)
    rcases hp : poll t S with ⟨t', S1, o⟩
    rw [hp] at ih
    cases o with
    | some r =>
      rw [poll_thenK_cont_some hp]
      have hr := poll_some_ready t S t' S1 r hp
      rcases ih with h | h
      · simp [hr, Fut.owedE] at h
      · exact Or.inr h
    | none => rw [poll_thenK_cont_none hp]; simpa [Fut.owedE] using ih
  · intro tag a b g S _ _ e h; simp [Fut.owedE] at h
  · intro tag a b g t S _ e h; simp [Fut.owedE] at h
  · intro fs S ih e he
    have hout := poll_out_aux.2 fs S
    rcases hp : pollAll fs S with ⟨fs', S1, p⟩
    rw [hp] at hout
    simp only [Fut.owedE] at he
    by_cases hok : (Fut.outs fs).isSome = true
    · simp only [hok, if_true] at he
      have ih := ih e he; rw [hp] at ih
      cases p with
      | failed e0 => have := hout.2.1 e0 rfl; rw [this] at hok; simp at hok
      | done vs =>
        rw [poll_join_done hp]
        have := pollAll_done_owedE fs S fs' S1 vs hp
        rcases ih with h | h
        · simp [this] at h
        · exact Or.inr h
      | pending =>
        rw [poll_join_pending hp]
        simp only [Fut.owedE, hout.1, hok, if_true]; exact ih
    · simp [hok] at he
  · intro fs S ih e he
    have hout := poll_out_aux.2 fs S
    rcases hp : pollAll fs S with ⟨fs', S1, p⟩
    rw [hp] at hout
    simp only [Fut.owedE] at he
    by_cases hok : (Fut.outs fs).isSome = true
    · simp only [hok, if_true] at he
      have ih := ih e he; rw [hp] at ih
      cases p with
      | failed e0 => have := hout.2.1 e0 rfl; rw [this] at hok; simp at hok
      | done vs =>
        rw [poll_after_done hp]
        have := pollAll_done_owedE fs S fs' S1 vs hp
        rcases ih with h | h
        · simp [this] at h
        · exact Or.inr h
      | pending =>
        rw [poll_after_pending hp]
        simp only [Fut.owedE, hout.1, hok, if_true]; exact ih
    · simp [hok] at he
  · intro S e h; simp [Fut.owedEL] at h
  · intro f rest S ih ihr e he
    simp only [Fut.owedEL, List.mem_append] at he
    rcases hp : poll f S with ⟨f', S1, o⟩
    have ih := fun h => ih e h
    rw [hp] at ih
    have hcombine : ∀ (rest' : List Fut) (S2 : Store), Mono S1 S2 →
        (e ∈ Fut.owedEL rest → e ∈ Fut.owedEL rest' ∨ Rep S2.log e) →
        e ∈ Fut.owedEL (f' :: rest') ∨ Rep S2.log e := by
      intro rest' S2 hm hr
      simp only [Fut.owedEL, List.mem_append]
      rcases he with h | h
      · rcases ih h with h | h
        · exact Or.inl (Or.inl h)
        · exact Or.inr (h.mono hm)
      · rcases hr h with h | h
        · exact Or.inl (Or.inr h)
        · exact Or.inr h
    cases o with
    | some r =>
      cases r with
      | err e' =>
        rw [pollAll_cons_err hp]
        exact hcombine rest S1 (Mono.refl _) (fun h => Or.inl h)
      | ok v =>
        have ihr := ihr f' S1 _ hp (by intro e h; cases h) e
        have hm := poll_mono_aux.2 rest S1
        rcases hp2 : pollAll rest S1 with ⟨rest', S2, p⟩
        rw [hp2] at ihr hm
        rw [pollAll_cons_ok hp hp2]; exact hcombine rest' S2 hm ihr
    | none =>
      have ihr := ihr f' S1 _ hp (by intro e h; cases h) e
      have hm := poll_mono_aux.2 rest S1
      rcases hp2 : pollAll rest S1 with ⟨rest', S2, p⟩
      rw [hp2] at ihr hm
      rw [pollAll_cons_none hp hp2]; exact hcombine rest' S2 hm ihr

/-! ### wait and whole requests -/

theorem idleRound_rep (mask : Option Nat) (S : Store) (hne : S.outstanding ≠ []) (e : Err) (h : Rep S.log e) :
    Rep (idleRound mask S).log e := by
  obtain ⟨_, _, _, _, hlog, _⟩ := idleRound_spec mask S hne
  simp only [Rep, hlog, errorsOf_append, List.mem_append]; exact Or.inl h

theorem waitLoop_req (req : List Err) (fuel : Nat) : ∀ (f : Fut) (sched : List Nat) (S : Store),
    (∀ e ∈ req, e ∈ f.owedE ∨ Rep S.log e) →
    ∀ r, (waitLoop fuel f sched S).1 = .done r → ∀ e ∈ req, Rep (waitLoop fuel f sched S).2.2.log e := by
  induction fuel with
  | zero =>
    intro f sched S hinv r h e he
    have hreq := poll_req_aux.1 f S
    have hm := poll_mono f S
    rcases hp : poll f S with ⟨f', S1, o⟩
    rw [hp] at hreq hm
    cases o with
    | none => rw [waitLoop_zero_none f f' sched S S1 hp] at h; cases h
    | some r' =>
      rw [waitLoop_some 0 f f' sched S S1 r' hp]
      have hr := poll_some_ready f S f' S1 r' hp
      rcases hinv e he with h1 | h1
      · rcases hreq e h1 with h2 | h2
        · simp [hr, Fut.owedE] at h2
        · exact h2
      · exact h1.mono hm
  | succ fuel ih =>
    intro f sched S hinv r h e he
    have hreq := poll_req_aux.1 f S
    have hm := poll_mono f S
    rcases hp : poll f S with ⟨f', S1, o⟩
    rw [hp] at hreq hm
    have hinv1 : ∀ e ∈ req, e ∈ f'.owedE ∨ Rep S1.log e := fun e he => by
      rcases hinv e he with h1 | h1
      · exact hreq e h1
      · exact Or.inr (h1.mono hm)
    cases o with
    | some r' =>
      rw [waitLoop_some (fuel + 1) f f' sched S S1 r' hp]
      have hr := poll_some_ready f S f' S1 r' hp
      rcases hinv1 e he with h2 | h2
      · simp [hr, Fut.owedE] at h2
      · exact h2
    | none =>
      by_cases hne : S1.outstanding = []
      · rw [waitLoop_succ_stuck fuel f f' sched S S1 hp hne] at h; cases h
      · rw [waitLoop_succ_none fuel f f' sched S S1 hp hne] at h ⊢
        exact ih f' sched.tail (idleRound sched.head? S1)
          (fun e he => by
            rcases hinv1 e he with h1 | h1
            · exact Or.inl h1
            · exact Or.inr (idleRound_rep _ _ hne e h1)) r h e he

theorem query_required (rq : Request) (hq : rq.mutation = false) (hok : Spec.fieldsOk rq.fields [] = true)
    (r : Res) (h : (execute rq).1 = .done r) : ∀ e ∈ Spec.reqF rq.fields [], Rep (execute rq).2.log e := by
  intro e he
  unfold execute at h ⊢
  simp only [hq, Bool.false_eq_true, if_false] at h ⊢
  rcases hb : execFields rq.fields [] rq.fields.length 0 [] {} with ⟨f, S1⟩
  have hbuild := complete_req_aux.2.1 rq.fields [] rq.fields.length 0 [] {} (by simp [Fut.outs]) hok
  rw [hb] at h hbuild
  simp only at h ⊢
  have hw := waitLoop_req (Spec.reqF rq.fields []) (Field.invocationsL rq.fields + 1) f rq.sched S1
    (fun e he => hbuild e (Or.inr he))
  rcases hwl : waitLoop (Field.invocationsL rq.fields + 1) f rq.sched S1 with ⟨w, sched', S⟩
  rw [hwl] at h hw
  cases w with
  | done r' =>
    have := hw r' rfl e he
    cases r' with
    | ok v => exact this
    | err e' => exact this.mono (Mono.push _ _)
  | stuck => simp at h
  | outOfFuel => simp at h

theorem execSerial_req (st : Bool) (fuel : Nat) : ∀ (fields : List Field) (n i : Nat) (sched : List Nat) (S : Store),
    ∀ v, (execSerial st fuel fields n i sched S).1 = .done (.ok v) →
      ∀ e, (e ∈ Spec.reqF fields [] ∨ Rep S.log e) → Rep (execSerial st fuel fields n i sched S).2.2.log e := by
  intro fields
  induction fields with
  | nil =>
    intro n i sched S v _ e he
    simp only [execSerial]
    rcases he with h | h
    · simp [Spec.reqF] at h
    · exact h
  | cons fld rest ih =>
    intro n i sched S v h e he
    cases fld with
    | mk key nn mode rerr c =>
      by_cases hm : mode = .tname
      · subst hm
        simp only [execSerial] at h ⊢
        refine ih n (i + 1) sched _ v h e ?_
        rcases he with he | he
        · rcases (mem_reqF_cons _ _ _ _ _ _ _ _).mp he with h1 | h1
          · simp [Spec.reqHead] at h1
          · exact Or.inl h1
        · exact Or.inr (he.mono (Mono.push _ _))
      · rcases h1 : execField nn mode rerr c [.key key] (complete nn c [.key key]) S with ⟨f0, S1⟩
        rcases h2 : catchIfNullable nn f0 S1 with ⟨f, S2⟩
        have hmono : Mono S S2 := by
          have a := execField_mono nn mode rerr c [.key key] (complete nn c [.key key]) S (fun S' => complete_mono _ _ _ _)
          have b := catchIfNullable_mono nn f0 S1
          rw [h1] at a; rw [h2] at b; exact a.trans b
        have hstep := fieldStep_req [] key nn mode rerr c S S1 S2 f0 f hm
          (fun S' => complete_req_aux.1 nn c ([] ++ [.key key]) S') h1 h2
        rw [execSerial_cons st fuel key nn mode rerr c rest n i sched S S1 S2 f0 f hm h1 h2] at h ⊢
        -- what the wait must deliver: this field's required errors, plus e if it was given as reported
        have hw := waitLoop_req [e] fuel f sched S2
        obtain ⟨sched0, S3', hwl, hset, _⟩ := waitSettle_settled st fuel f sched S2
        rcases hws : waitSettle st fuel f sched S2 with ⟨w, sched', S3⟩
        rw [hws] at h hwl hset
        rw [hwl] at hw
        simp only at hset hw
        simp only [Rep, ← hset.errorsOf] at hw
        simp only [← Rep.eq_1] at hw
        cases w with
        | done r' =>
          cases r' with
          | err e' => simp [serialCont] at h
          | ok v' =>
            simp only [serialCont] at h ⊢
            refine ih n (i + 1) sched' _ v h e ?_
            rcases he with he | he
            · rcases (mem_reqF_cons _ _ _ _ _ _ _ _).mp he with h3 | h3
              · refine Or.inr ((hw (fun e' he' => ?_) _ rfl e (by simp)).mono (Mono.push _ _))
                simp only [List.mem_singleton] at he'; subst he'
                exact hstep e' h3
              · exact Or.inl h3
            · refine Or.inr ((hw (fun e' he' => ?_) _ rfl e (by simp)).mono (Mono.push _ _))
              simp only [List.mem_singleton] at he'; subst he'
              exact Or.inr (he.mono hmono)
        | stuck => simp [serialCont] at h
        | outOfFuel => simp [serialCont] at h

theorem mutation_required (rq : Request) (hq : rq.mutation = true)
    (v : Val) (h : (execute rq).1 = .done (.ok v)) : ∀ e ∈ Spec.reqF rq.fields [], Rep (execute rq).2.log e := by
  intro e he
  unfold execute at h ⊢
  simp only [hq, if_true] at h ⊢
  have hs := execSerial_req rq.settle (Field.invocationsL rq.fields + 1) rq.fields rq.fields.length 0 rq.sched {}
  rcases hx : execSerial rq.settle (Field.invocationsL rq.fields + 1) rq.fields rq.fields.length 0 rq.sched {} with ⟨w, s', S⟩
  rw [hx] at h hs
  cases w with
  | done r' =>
    cases r' with
    | ok v' => simp only at h ⊢; exact hs v' rfl e (Or.inl he)
    | err e' => simp at h
  | stuck => simp at h
  | outOfFuel => simp at h

/-- **Every required error is reported.** -/
theorem required_reported (rq : Request) (r : Res) (h : (execute rq).1 = .done r) :
    ∀ e ∈ Spec.required rq, e ∈ errorsOf (execute rq).2.log := by
  intro e he
  simp only [Spec.required] at he
  by_cases hok : Spec.fieldsOk rq.fields [] = true
  · simp only [hok, if_true] at he
    cases hq : rq.mutation
    · exact query_required rq hq hok r h e he
    · have hspec := (execute_spec rq r h).1
      simp only [Spec.request, hok, if_true] at hspec
      cases r with
      | ok v => exact mutation_required rq hq v h e he
      | err e' => simp [Res.out] at hspec
  · simp [hok] at he

/-- The required errors do not depend on modes. -/
theorem req_allSync_aux :
    (∀ c : Comp, ∀ nn path, Spec.reqC nn c.allSync path = Spec.reqC nn c path ∧
      Spec.certC c.allSync path = Spec.certC c path) ∧
    (∀ fs : List Field, ∀ path, Spec.reqF (Field.allSyncL fs) path = Spec.reqF fs path) ∧
    (∀ cs : List Comp, ∀ inn path i, Spec.reqL inn (Comp.allSyncL cs) path i = Spec.reqL inn cs path i) := by
  apply Comp.allSync.mutual_induct
    (motive_1 := fun c => ∀ nn path, Spec.reqC nn c.allSync path = Spec.reqC nn c path ∧
      Spec.certC c.allSync path = Spec.certC c path)
    (motive_2 := fun fs => ∀ path, Spec.reqF (Field.allSyncL fs) path = Spec.reqF fs path)
    (motive_3 := fun cs => ∀ inn path i, Spec.reqL inn (Comp.allSyncL cs) path i = Spec.reqL inn cs path i)
  · intro inn cs ih nn path
    have h := spec_allSync_aux.1 (.list inn cs) nn path
    simp only [Comp.allSync] at h
    simp [Comp.allSync, Spec.reqC, Spec.certC, ih, h]
  · intro fs ih nn path
    have h := spec_allSync_aux.1 (.object fs) nn path
    simp only [Comp.allSync] at h
    simp [Comp.allSync, Spec.reqC, Spec.certC, ih, h]
  · intro nn path; simp [Comp.allSync]
  · intro s nn path; simp [Comp.allSync]
  · intro m nn path; simp [Comp.allSync]
  · intro inn path i; simp [Comp.allSyncL]
  · intro c rest ih1 ih2 inn path i
    simp [Comp.allSyncL, Spec.reqL, (ih1 inn _).1, (ih1 inn _).2, ih2, spec_allSync_aux.1]
  · intro path; simp [Field.allSyncL]
  · intro key nn mode rerr c rest ih1 ih2 path
    simp only [Field.allSyncL, Spec.reqF, (ih1 nn _).1, (ih1 nn _).2, ih2, spec_allSync_aux.1]
    cases mode <;> simp [Spec.reqHead, Mode.toSync]

theorem required_allSync (rq : Request) (sched : List Nat) : Spec.required (rq.allSync sched) = Spec.required rq := by
  simp [Spec.required, Request.allSync, spec_allSync_aux.2.1, req_allSync_aux.2.1]

end ApiFu.C02
