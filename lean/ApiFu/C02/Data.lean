/-
  C02 lemmas about the response data (core Lean only): the `Set`s a run performs are right
  (§A), every slot of every visible object gets set (§B), right `Set`s of one slot agree when
  response keys are distinct (§C), hence reading the data back from the log yields the
  reference JSON (§D).
-/
import ApiFu.C02.Lemmas

namespace ApiFu.C02

/-! ## §A soundness: only right `Set`s -/

mutual
  /-- `f.mayW w`: polling `f` (now or later) may perform the `Set` `w`. Scripted continuations
      (`thenT`, combinator-level tests only) may do anything. -/
  def Fut.mayW : Fut → Write → Prop
    | .ready _, _ => False
    | .promise _ _, _ => False
    | .map _ g, w => g.mayW w
    | .mapOk (.setSlot mp i key) g, w => (∃ v, g.out = .ok v ∧ w = ⟨mp, i, key, v⟩) ∨ g.mayW w
    | .mapOkToAny g, w => g.mayW w
    | .mapOkValue _ g, w => g.mayW w
    | .thenK _ c path g none, w => g.mayW w ∨ (g.out.isOk = true ∧ w ∈ Spec.writesC c path)
    | .thenK _ _ _ _ (some t), w => t.mayW w
    | .thenT _ _ _ _ _, _ => True
    | .join gs, w => Fut.mayWL gs w
    | .after gs, w => Fut.mayWL gs w
  def Fut.mayWL : List Fut → Write → Prop
    | [], _ => False
    | g :: gs, w => g.mayW w ∨ Fut.mayWL gs w
end

/-- The `Set`s recorded in a log. -/
def HasWrite (log : List Entry) (w : Write) : Prop := Entry.write w.mp w.i w.key w.v ∈ log

theorem HasWrite_append (a b : List Entry) (w : Write) : HasWrite (a ++ b) w ↔ HasWrite a w ∨ HasWrite b w := by
  simp [HasWrite]

theorem HasWrite_push_write (S : Store) (mp : Path) (i : Nat) (key : String) (v : Val) (w : Write) :
    HasWrite (S.push (.write mp i key v)).log w ↔ HasWrite S.log w ∨ w = ⟨mp, i, key, v⟩ := by
  cases w
  simp [HasWrite, Store.push]

theorem HasWrite_push_other (S : Store) (e : Entry) (w : Write) (h : ∀ mp i key v, e ≠ .write mp i key v) :
    HasWrite (S.push e).log w ↔ HasWrite S.log w := by
  simp only [HasWrite, Store.push, List.mem_append, List.mem_singleton]
  constructor
  · rintro (h1 | h1)
    · exact h1
    · exact absurd h1.symm (h _ _ _ _)
  · exact Or.inl

theorem mayWL_append_one (acc : List Fut) (g : Fut) (w : Write) :
    Fut.mayWL (acc ++ [g]) w ↔ Fut.mayWL acc w ∨ g.mayW w := by
  induction acc with
  | nil => simp [Fut.mayWL]
  | cons a acc ih => simp [Fut.mayWL, ih, or_assoc]

/-! ### callbacks and constructors -/

theorem applyMap_writes (fn : MapFn) (r : Res) (S : Store) (w : Write) :
    HasWrite (applyMap fn r S).2.log w ↔ HasWrite S.log w := by
  cases fn <;> cases r <;> simp only [applyMap] <;> (try split) <;>
    first | rfl | exact HasWrite_push_other _ _ _ (by intros; simp)

theorem mkMap_mayW (fn : MapFn) (f : Fut) (S : Store) (w : Write) : (mkMap fn f S).1.mayW w → f.mayW w := by
  cases f <;> simp [mkMap, Fut.mayW]

theorem mkMap_writes (fn : MapFn) (f : Fut) (S : Store) (w : Write) :
    HasWrite (mkMap fn f S).2.log w ↔ HasWrite S.log w := by
  cases f <;> simp only [mkMap] <;> first | exact applyMap_writes _ _ _ _ | rfl

theorem mkMapOkToAny_mayW (f : Fut) (w : Write) : (mkMapOkToAny f).mayW w → f.mayW w := by
  cases f <;> simp [mkMapOkToAny, Fut.mayW]

theorem mkMapOkValue_mayW (v : Val) (f : Fut) (w : Write) : (mkMapOkValue v f).mayW w → f.mayW w := by
  cases f with
  | ready r => cases r <;> simp [mkMapOkValue, Fut.mayW]
  | _ => simp [mkMapOkValue, Fut.mayW]

theorem mkJoin_mayW (fs : List Fut) (w : Write) : (mkJoin fs).mayW w → Fut.mayWL fs w := by
  unfold mkJoin; split <;> simp [Fut.mayW]

theorem mkAfter_mayW (fs : List Fut) (w : Write) : (mkAfter fs).mayW w → Fut.mayWL fs w := by
  unfold mkAfter; split <;> simp [Fut.mayW]

theorem nonNullWrap_mayW (nn : Bool) (path : Path) (f : Fut) (S : Store) (w : Write) :
    (nonNullWrap nn path f S).1.mayW w → f.mayW w := by
  unfold nonNullWrap; cases nn <;> simp <;> exact mkMap_mayW _ _ _ _

theorem nonNullWrap_writes (nn : Bool) (path : Path) (f : Fut) (S : Store) (w : Write) :
    HasWrite (nonNullWrap nn path f S).2.log w ↔ HasWrite S.log w := by
  unfold nonNullWrap; cases nn <;> simp <;> exact mkMap_writes _ _ _ _

theorem catchIfNullable_mayW (nn : Bool) (f : Fut) (S : Store) (w : Write) :
    (catchIfNullable nn f S).1.mayW w → f.mayW w := by
  unfold catchIfNullable; cases nn <;> simp <;> exact mkMap_mayW _ _ _ _

theorem catchIfNullable_writes (nn : Bool) (f : Fut) (S : Store) (w : Write) :
    HasWrite (catchIfNullable nn f S).2.log w ↔ HasWrite S.log w := by
  unfold catchIfNullable; cases nn <;> simp <;> exact mkMap_writes _ _ _ _

/-! ### builders -/

theorem execField_sound (nn : Bool) (mode : Mode) (rerr : Option String) (c : Comp) (itemPath : Path)
    (completed : Store → Fut × Store) (S : Store) (w : Write) (hm : mode ≠ .tname)
    (hc : ∀ S', ((completed S').1.mayW w → w ∈ Spec.writesC c itemPath) ∧
      (HasWrite (completed S').2.log w → HasWrite S'.log w ∨ w ∈ Spec.writesC c itemPath)) :
    ((execField nn mode rerr c itemPath completed S).1.mayW w →
      Spec.descends mode rerr = true ∧ w ∈ Spec.writesC c itemPath) ∧
    (HasWrite (execField nn mode rerr c itemPath completed S).2.log w →
      HasWrite S.log w ∨ (Spec.descends mode rerr = true ∧ w ∈ Spec.writesC c itemPath)) := by
  have hpush : ∀ e : Entry, (∀ mp i key v, e ≠ .write mp i key v) → ∀ T : Store,
      (HasWrite (T.push e).log w ↔ HasWrite T.log w) := fun e he T => HasWrite_push_other T e w he
  have hnw : ∀ (T : Store) (chan out : List Path) (n : Nat),
      HasWrite ({ T with chan := chan, outstanding := out, nextId := n } : Store).log w ↔ HasWrite T.log w :=
    fun _ _ _ _ => Iff.rfl
  unfold execField
  cases mode with
  | tname => exact absurd rfl hm
  | sync =>
    cases rerr with
    | none =>
      simp only [Spec.descends]
      exact ⟨fun h => ⟨trivial, (hc _).1 h⟩, fun h => by
        rcases (hc _).2 h with h | h
        · exact Or.inl ((hpush _ (by intros; simp) S).mp h)
        · exact Or.inr ⟨trivial, h⟩⟩
    | some msg =>
      simp only [Fut.mayW, Spec.descends]
      exact ⟨fun h => h.elim, fun h => Or.inl ((hpush _ (by intros; simp) S).mp h)⟩
  | promise =>
    cases rerr with
    | none =>
      simp only [Fut.mayW, Fut.out, Res.out, Out.isOk, Spec.descends, false_or, true_and]
      exact ⟨fun h => h, fun h => Or.inl ((hpush _ (by intros; simp) S).mp ((hnw _ _ _ _).mp h))⟩
    | some msg =>
      simp only [Fut.mayW, Fut.out, Res.out, Out.isOk, Spec.descends, false_or]
      exact ⟨fun h => absurd h.1 (by simp), fun h => Or.inl ((hpush _ (by intros; simp) S).mp ((hnw _ _ _ _).mp h))⟩
  | pre =>
    cases rerr with
    | none =>
      simp only [Fut.mayW, Fut.out, Res.out, Out.isOk, Spec.descends, false_or, true_and]
      refine ⟨fun h => h, fun h => Or.inl ?_⟩
      exact (hpush _ (by intros; simp) S).mp ((hpush _ (by intros; simp) _).mp h)
    | some msg =>
      simp only [Fut.mayW, Fut.out, Res.out, Out.isOk, Spec.descends, false_or]
      refine ⟨fun h => absurd h.1 (by simp), fun h => Or.inl ?_⟩
      exact (hpush _ (by intros; simp) S).mp ((hpush _ (by intros; simp) _).mp h)

end ApiFu.C02
