/-
  C02 lemmas about the response data (core Lean only): the `Set`s a run performs are right
  (§A), every slot of every visible object gets set (§B), right `Set`s of one slot agree when
  response keys are distinct (§C), hence reading the data back from the log yields the
  reference JSON (§D).
-/
import ApiFu.C02.Lemmas

namespace ApiFu.C02

/-! ## §A soundness: only right `Set`s -/

mutual
  /-- `f.mayW w`: polling `f` (now or later) may perform the `Set` `w`. Scripted continuations
      (`thenT`, combinator-level tests only) may do anything. -/
  def Fut.mayW : Fut → Write → Prop
    | .ready _, _ => False
    | .promise _ _, _ => False
    | .map _ g, w => g.mayW w
    | .mapOk (.setSlot mp i key) g, w => (∃ v, g.out = .ok v ∧ w = ⟨mp, i, key, v⟩) ∨ g.mayW w
    | .mapOkToAny g, w => g.mayW w
    | .mapOkValue _ g, w => g.mayW w
    | .thenK _ c path g none, w => g.mayW w ∨ (g.out.isOk = true ∧ w ∈ Spec.writesC c path)
    | .thenK _ _ _ _ (some t), w => t.mayW w
    | .thenT _ _ _ _ _, _ => True
    | .join gs, w => Fut.mayWL gs w
    | .after gs, w => Fut.mayWL gs w
  def Fut.mayWL : List Fut → Write → Prop
    | [], _ => False
    | g :: gs, w => g.mayW w ∨ Fut.mayWL gs w
end

/-- The `Set`s recorded in a log. -/
def HasWrite (log : List Entry) (w : Write) : Prop := Entry.write w.mp w.i w.key w.v ∈ log

theorem HasWrite_append (a b : List Entry) (w : Write) : HasWrite (a ++ b) w ↔ HasWrite a w ∨ HasWrite b w := by
  simp [HasWrite]

theorem HasWrite_push_write (S : Store) (mp : Path) (i : Nat) (key : String) (v : Val) (w : Write) :
    HasWrite (S.push (.write mp i key v)).log w ↔ HasWrite S.log w ∨ w = ⟨mp, i, key, v⟩ := by
  cases w
  simp [HasWrite, Store.push]

theorem HasWrite_push_other (S : Store) (e : Entry) (w : Write) (h : ∀ mp i key v, e ≠ .write mp i key v) :
    HasWrite (S.push e).log w ↔ HasWrite S.log w := by
  simp only [HasWrite, Store.push, List.mem_append, List.mem_singleton]
  constructor
  · rintro (h1 | h1)
    · exact h1
    · exact absurd h1.symm (h _ _ _ _)
  · exact Or.inl

theorem mayWL_append_one (acc : List Fut) (g : Fut) (w : Write) :
    Fut.mayWL (acc ++ [g]) w ↔ Fut.mayWL acc w ∨ g.mayW w := by
  induction acc with
  | nil => simp [Fut.mayWL]
  | cons a acc ih => simp [Fut.mayWL, ih, or_assoc]

/-! ### callbacks and constructors -/

theorem applyMap_writes (fn : MapFn) (r : Res) (S : Store) (w : Write) :
    HasWrite (applyMap fn r S).2.log w ↔ HasWrite S.log w := by
  cases fn <;> cases r <;> simp only [applyMap] <;> (try split) <;>
    first | rfl | exact HasWrite_push_other _ _ _ (by intros; simp)

theorem mkMap_mayW (fn : MapFn) (f : Fut) (S : Store) (w : Write) : (mkMap fn f S).1.mayW w → f.mayW w := by
  cases f <;> simp [mkMap, Fut.mayW]

theorem mkMap_writes (fn : MapFn) (f : Fut) (S : Store) (w : Write) :
    HasWrite (mkMap fn f S).2.log w ↔ HasWrite S.log w := by
  cases f <;> simp only [mkMap] <;> first | exact applyMap_writes _ _ _ _ | rfl

theorem mkMapOkToAny_mayW (f : Fut) (w : Write) : (mkMapOkToAny f).mayW w → f.mayW w := by
  cases f <;> simp [mkMapOkToAny, Fut.mayW]

theorem mkMapOkValue_mayW (v : Val) (f : Fut) (w : Write) : (mkMapOkValue v f).mayW w → f.mayW w := by
  cases f with
  | ready r => cases r <;> simp [mkMapOkValue, Fut.mayW]
  | _ => simp [mkMapOkValue, Fut.mayW]

theorem mkJoin_mayW (fs : List Fut) (w : Write) : (mkJoin fs).mayW w → Fut.mayWL fs w := by
  unfold mkJoin; split <;> simp [Fut.mayW]

theorem mkAfter_mayW (fs : List Fut) (w : Write) : (mkAfter fs).mayW w → Fut.mayWL fs w := by
  unfold mkAfter; split <;> simp [Fut.mayW]

theorem nonNullWrap_mayW (nn : Bool) (path : Path) (f : Fut) (S : Store) (w : Write) :
    (nonNullWrap nn path f S).1.mayW w → f.mayW w := by
  unfold nonNullWrap; cases nn <;> simp <;> exact mkMap_mayW _ _ _ _

theorem nonNullWrap_writes (nn : Bool) (path : Path) (f : Fut) (S : Store) (w : Write) :
    HasWrite (nonNullWrap nn path f S).2.log w ↔ HasWrite S.log w := by
  unfold nonNullWrap; cases nn <;> simp <;> exact mkMap_writes _ _ _ _

theorem catchIfNullable_mayW (nn : Bool) (f : Fut) (S : Store) (w : Write) :
    (catchIfNullable nn f S).1.mayW w → f.mayW w := by
  unfold catchIfNullable; cases nn <;> simp <;> exact mkMap_mayW _ _ _ _

theorem catchIfNullable_writes (nn : Bool) (f : Fut) (S : Store) (w : Write) :
    HasWrite (catchIfNullable nn f S).2.log w ↔ HasWrite S.log w := by
  unfold catchIfNullable; cases nn <;> simp <;> exact mkMap_writes _ _ _ _

/-! ### builders -/

theorem execField_sound (nn : Bool) (mode : Mode) (rerr : Option String) (c : Comp) (itemPath : Path)
    (completed : Store → Fut × Store) (S : Store) (w : Write) (hm : mode ≠ .tname)
    (hc : ∀ S', ((completed S').1.mayW w → w ∈ Spec.writesC c itemPath) ∧
      (HasWrite (completed S').2.log w → HasWrite S'.log w ∨ w ∈ Spec.writesC c itemPath)) :
    ((execField nn mode rerr c itemPath completed S).1.mayW w →
      Spec.descends mode rerr = true ∧ w ∈ Spec.writesC c itemPath) ∧
    (HasWrite (execField nn mode rerr c itemPath completed S).2.log w →
      HasWrite S.log w ∨ (Spec.descends mode rerr = true ∧ w ∈ Spec.writesC c itemPath)) := by
  have hpush : ∀ e : Entry, (∀ mp i key v, e ≠ .write mp i key v) → ∀ T : Store,
      (HasWrite (T.push e).log w ↔ HasWrite T.log w) := fun e he T => HasWrite_push_other T e w he
  have hnw : ∀ (T : Store) (chan : List Nat) (out : List (Nat × Path)) (n : Nat),
      HasWrite ({ T with chan := chan, outstanding := out, nextId := n } : Store).log w ↔ HasWrite T.log w :=
    fun _ _ _ _ => Iff.rfl
  unfold execField
  cases mode with
  | tname => exact absurd rfl hm
  | sync =>
    cases rerr with
    | none =>
      simp only [Spec.descends]
      exact ⟨fun h => ⟨trivial, (hc _).1 h⟩, fun h => by
        rcases (hc _).2 h with h | h
        · exact Or.inl ((hpush _ (by intros; simp) S).mp h)
        · exact Or.inr ⟨trivial, h⟩⟩
    | some msg =>
      simp only [Fut.mayW, Spec.descends]
      exact ⟨fun h => h.elim, fun h => Or.inl ((hpush _ (by intros; simp) S).mp h)⟩
  | promise =>
    cases rerr with
    | none =>
      simp only [Fut.mayW, Fut.out, Res.out, Out.isOk, Spec.descends, false_or, true_and]
      exact ⟨fun h => h, fun h => Or.inl ((hpush _ (by intros; simp) S).mp ((hnw _ _ _ _).mp h))⟩
    | some msg =>
      simp only [Fut.mayW, Fut.out, Res.out, Out.isOk, Spec.descends, false_or]
      exact ⟨fun h => absurd h.1 (by simp), fun h => Or.inl ((hpush _ (by intros; simp) S).mp ((hnw _ _ _ _).mp h))⟩
  | pre =>
    cases rerr with
    | none =>
      simp only [Fut.mayW, Fut.out, Res.out, Out.isOk, Spec.descends, false_or, true_and]
      refine ⟨fun h => h, fun h => Or.inl ?_⟩
      exact (hpush _ (by intros; simp) S).mp ((hpush _ (by intros; simp) _).mp h)
    | some msg =>
      simp only [Fut.mayW, Fut.out, Res.out, Out.isOk, Spec.descends, false_or]
      refine ⟨fun h => absurd h.1 (by simp), fun h => Or.inl ?_⟩
      exact (hpush _ (by intros; simp) S).mp ((hpush _ (by intros; simp) _).mp h)

theorem mem_writesF_cons (key : String) (nn : Bool) (mode : Mode) (rerr : Option String) (c : Comp)
    (rest : List Field) (path : Path) (i : Nat) (w : Write) :
    w ∈ Spec.writesF (.mk key nn mode rerr c :: rest) path i ↔
      (∃ v, Spec.field path (.mk key nn mode rerr c) = .ok v ∧ w = ⟨path, i, key, v⟩) ∨
      (Spec.descends mode rerr = true ∧ w ∈ Spec.writesC c (path ++ [.key key])) ∨
      w ∈ Spec.writesF rest path (i + 1) := by
  simp only [Spec.writesF, List.mem_append]
  cases hf : Spec.field path (.mk key nn mode rerr c) <;> cases hd : Spec.descends mode rerr <;>
    simp [or_assoc]

theorem mem_writesL_cons (c : Comp) (rest : List Comp) (path : Path) (i : Nat) (w : Write) :
    w ∈ Spec.writesL (c :: rest) path i ↔
      w ∈ Spec.writesC c (path ++ [.idx i]) ∨ w ∈ Spec.writesL rest path (i + 1) := by
  simp [Spec.writesL]

theorem fieldCont_ready_err (rest : List Field) (path : Path) (n i : Nat) (acc : List Fut) (key : String) (e : Err)
    (S11 : Store) : fieldCont rest path n i acc key (.ready (.err e)) S11 = (.ready (.err e), S11) := rfl

theorem fieldCont_ready_ok (rest : List Field) (path : Path) (n i : Nat) (acc : List Fut) (key : String) (v : Val)
    (S11 : Store) : fieldCont rest path n i acc key (.ready (.ok v)) S11 =
      execFields rest path n (i + 1) acc (S11.push (.write path i key v)) := rfl

theorem fieldCont_async (rest : List Field) (path : Path) (n i : Nat) (acc : List Fut) (key : String) (f1 : Fut)
    (S11 : Store) (hne : ∀ e, f1 = .ready (.err e) → False) (hno : ∀ v, f1 = .ready (.ok v) → False) :
    fieldCont rest path n i acc key f1 S11 =
      execFields rest path n (i + 1) (acc ++ [Fut.mapOk (OkFn.setSlot path i key) f1]) S11 := by
  unfold fieldCont
  split
  · exact absurd rfl (hne _)
  · exact absurd rfl (hno _)
  · rfl

/-- Everything the builders `Set`, and everything the futures they return may `Set` later, is
    right for the sub-response they are building. -/
theorem complete_sound_aux :
    (∀ nn c path S, ∀ w, ((complete nn c path S).1.mayW w → w ∈ Spec.writesC c path) ∧
      (HasWrite (complete nn c path S).2.log w → HasWrite S.log w ∨ w ∈ Spec.writesC c path)) ∧
    (∀ fields path n i acc S, ∀ w,
      ((execFields fields path n i acc S).1.mayW w → Fut.mayWL acc w ∨ w ∈ Spec.writesF fields path i) ∧
      (HasWrite (execFields fields path n i acc S).2.log w → HasWrite S.log w ∨ w ∈ Spec.writesF fields path i)) ∧
    (∀ inn items path i S, ∀ w,
      (Fut.mayWL (completeItems inn items path i S).1 w → w ∈ Spec.writesL items path i) ∧
      (HasWrite (completeItems inn items path i S).2.log w → HasWrite S.log w ∨ w ∈ Spec.writesL items path i)) := by
  apply complete.mutual_induct
    (motive_1 := fun nn c path S => ∀ w, ((complete nn c path S).1.mayW w → w ∈ Spec.writesC c path) ∧
      (HasWrite (complete nn c path S).2.log w → HasWrite S.log w ∨ w ∈ Spec.writesC c path))
    (motive_2 := fun fields path n i acc S => ∀ w,
      ((execFields fields path n i acc S).1.mayW w → Fut.mayWL acc w ∨ w ∈ Spec.writesF fields path i) ∧
      (HasWrite (execFields fields path n i acc S).2.log w → HasWrite S.log w ∨ w ∈ Spec.writesF fields path i))
    (motive_3 := fun inn items path i S => ∀ w,
      (Fut.mayWL (completeItems inn items path i S).1 w → w ∈ Spec.writesL items path i) ∧
      (HasWrite (completeItems inn items path i S).2.log w → HasWrite S.log w ∨ w ∈ Spec.writesL items path i))
  · intro nn path S w; simp only [complete]
    exact ⟨fun h => (nonNullWrap_mayW _ _ _ _ _ h).elim, fun h => Or.inl ((nonNullWrap_writes _ _ _ _ _).mp h)⟩
  · intro nn path S a w; simp only [complete]
    exact ⟨fun h => (nonNullWrap_mayW _ _ _ _ _ h).elim, fun h => Or.inl ((nonNullWrap_writes _ _ _ _ _).mp h)⟩
  · intro nn path S a w; simp only [complete]
    exact ⟨fun h => (nonNullWrap_mayW _ _ _ _ _ h).elim, fun h => Or.inl ((nonNullWrap_writes _ _ _ _ _).mp h)⟩
  · intro nn path S inn items fs S1 h ih w
    have ih := ih w; rw [h] at ih
    simp only [complete, h, Spec.writesC]
    exact ⟨fun hw => ih.1 (mkJoin_mayW _ _ (mkMapOkToAny_mayW _ _ (nonNullWrap_mayW _ _ _ _ _ hw))),
      fun hw => ih.2 ((nonNullWrap_writes _ _ _ _ _).mp hw)⟩
  · intro nn path S fields f S1 h ih w
    have ih := ih w; rw [h] at ih
    simp only [complete, h, Spec.writesC]
    refine ⟨fun hw => ?_, fun hw => ih.2 ((nonNullWrap_writes _ _ _ _ _).mp hw)⟩
    rcases ih.1 (mkMapOkToAny_mayW _ _ (nonNullWrap_mayW _ _ _ _ _ hw)) with h1 | h1
    · exact h1.elim
    · exact h1
  · intro inn path i S w; simp only [completeItems, Fut.mayWL]; exact ⟨fun h => h.elim, fun h => Or.inl h⟩
  · intro inn path i S c rest f S1 h1 f1 S11 h2 fs S2 h3 ih1 ih2 w
    have ih1 := ih1 w; rw [h1] at ih1
    have ih2 := ih2 w; rw [h3] at ih2
    have hc := catchIfNullable_mayW inn f S1 w
    have hcw := catchIfNullable_writes inn f S1 w
    rw [h2] at hc hcw
    simp only [completeItems, h1, h2, h3, Fut.mayWL, mem_writesL_cons]
    constructor
    · rintro (hw | hw)
      · exact Or.inl (ih1.1 (hc hw))
      · exact Or.inr (ih2.1 hw)
    · intro hw
      rcases ih2.2 hw with hw | hw
      · rcases ih1.2 (hcw.mp hw) with hw | hw
        · exact Or.inl hw
        · exact Or.inr (Or.inl hw)
      · exact Or.inr (Or.inr hw)
  · intro path n i acc S w
    simp only [execFields]
    exact ⟨fun hw => Or.inl (mkAfter_mayW _ _ (mkMapOkValue_mayW _ _ _ hw)), fun hw => Or.inl hw⟩
  · intro path n i acc S key nn rerr c rest ih w
    rw [execFields_tname]
    have ih := ih w
    simp only [mem_writesF_cons]
    constructor
    · intro hw
      rcases ih.1 hw with hw | hw
      · exact Or.inl hw
      · exact Or.inr (Or.inr (Or.inr hw))
    · intro hw
      rcases ih.2 hw with hw | hw
      · rcases (HasWrite_push_write _ _ _ _ _ _).mp hw with hw | hw
        · exact Or.inl hw
        · exact Or.inr (Or.inl ⟨tnameVal c, by simp [Spec.field], hw⟩)
      · exact Or.inr (Or.inr (Or.inr hw))
  · intro path n i acc S key nn mode rerr c rest itemPath f S1 h1 S11 e hm h2 ihc w
    have hm' : mode ≠ .tname := fun h => hm h
    have hf := execField_sound nn mode rerr c itemPath (fun S' => complete nn c itemPath S') S w hm' (fun S' => ihc S' w)
    rw [h1] at hf
    have hcw := catchIfNullable_writes nn f S1 w
    rw [h2] at hcw
    rw [execFields_cons path key nn mode rerr c rest n i acc S S1 S11 f _ hm' h1 h2, fieldCont_ready_err]
    simp only [Fut.mayW, mem_writesF_cons]
    refine ⟨fun hw => hw.elim, fun hw => ?_⟩
    rcases hf.2 (hcw.mp hw) with hw | hw
    · exact Or.inl hw
    · exact Or.inr (Or.inr (Or.inl hw))
  · intro path n i acc S key nn mode rerr c rest itemPath f S1 h1 S11 v hm h2 ihc ih w
    have hm' : mode ≠ .tname := fun h => hm h
    have hf := execField_sound nn mode rerr c itemPath (fun S' => complete nn c itemPath S') S w hm' (fun S' => ihc S' w)
    rw [h1] at hf
    have hcw := catchIfNullable_writes nn f S1 w
    rw [h2] at hcw
    have hout := fieldStep_out path key nn mode rerr c S S1 S11 f _ hm' (fun S' => complete_out _ _ _ _) h1 h2
    simp only [Fut.out, Res.out] at hout
    rw [execFields_cons path key nn mode rerr c rest n i acc S S1 S11 f _ hm' h1 h2, fieldCont_ready_ok]
    have ih := ih w
    simp only [mem_writesF_cons]
    constructor
    · intro hw
      rcases ih.1 hw with hw | hw
      · exact Or.inl hw
      · exact Or.inr (Or.inr (Or.inr hw))
    · intro hw
      rcases ih.2 hw with hw | hw
      · rcases (HasWrite_push_write _ _ _ _ _ _).mp hw with hw | hw
        · rcases hf.2 (hcw.mp hw) with hw | hw
          · exact Or.inl hw
          · exact Or.inr (Or.inr (Or.inl hw))
        · exact Or.inr (Or.inl ⟨v, hout.symm, hw⟩)
      · exact Or.inr (Or.inr (Or.inr hw))
  · intro path n i acc S key nn mode rerr c rest itemPath f S1 h1 S11 f1 hne hno hm h2 ihc ih w
    have hm' : mode ≠ .tname := fun h => hm h
    have hf := execField_sound nn mode rerr c itemPath (fun S' => complete nn c itemPath S') S w hm' (fun S' => ihc S' w)
    rw [h1] at hf
    have hcm := catchIfNullable_mayW nn f S1 w
    have hcw := catchIfNullable_writes nn f S1 w
    rw [h2] at hcm hcw
    have hout := fieldStep_out path key nn mode rerr c S S1 S11 f f1 hm' (fun S' => complete_out _ _ _ _) h1 h2
    rw [execFields_cons path key nn mode rerr c rest n i acc S S1 S11 f f1 hm' h1 h2,
      fieldCont_async rest path n i acc key f1 S11 hne hno]
    have ih := ih w
    simp only [mem_writesF_cons]
    constructor
    · intro hw
      rcases ih.1 hw with hw | hw
      · rcases (mayWL_append_one _ _ _).mp hw with hw | hw
        · exact Or.inl hw
        · simp only [Fut.mayW] at hw
          rcases hw with ⟨v, hv, rfl⟩ | hw
          · exact Or.inr (Or.inl ⟨v, by rw [← hout, hv], rfl⟩)
          · exact Or.inr (Or.inr (Or.inl (hf.1 (hcm hw))))
      · exact Or.inr (Or.inr (Or.inr hw))
    · intro hw
      rcases ih.2 hw with hw | hw
      · rcases hf.2 (hcw.mp hw) with hw | hw
        · exact Or.inl hw
        · exact Or.inr (Or.inr (Or.inl hw))
      · exact Or.inr (Or.inr (Or.inr hw))

/-! ### poll -/

theorem applyK_sound (nn : Bool) (c : Comp) (path : Path) (r : Res) (S : Store) (w : Write) :
    ((applyK nn c path r S).1.mayW w → r.isOk = true ∧ w ∈ Spec.writesC c path) ∧
    (HasWrite (applyK nn c path r S).2.log w → HasWrite S.log w ∨ (r.isOk = true ∧ w ∈ Spec.writesC c path)) := by
  cases r with
  | ok v =>
    simp only [applyK, Res.isOk, true_and]
    exact complete_sound_aux.1 nn c path S w
  | err e =>
    simp only [applyK, Fut.mayW, Res.isOk]
    exact ⟨fun h => h.elim, fun h => Or.inl h⟩

theorem out_isOk_of_res {g : Fut} {r : Res} (h : r.out = g.out) : g.out.isOk = r.isOk := by
  rw [← h]; cases r <;> rfl

/-- Polling performs only `Set`s the future was allowed to perform, and does not widen what it may
    perform later. -/
theorem poll_sound_aux :
    (∀ f S, ∀ w, ((poll f S).1.mayW w → f.mayW w) ∧
      (HasWrite (poll f S).2.1.log w → HasWrite S.log w ∨ f.mayW w)) ∧
    (∀ fs S, ∀ w, (Fut.mayWL (pollAll fs S).1 w → Fut.mayWL fs w) ∧
      (HasWrite (pollAll fs S).2.1.log w → HasWrite S.log w ∨ Fut.mayWL fs w)) := by
  apply poll_induct'
    (P1 := fun f S => ∀ w, ((poll f S).1.mayW w → f.mayW w) ∧
      (HasWrite (poll f S).2.1.log w → HasWrite S.log w ∨ f.mayW w))
    (P2 := fun fs S => ∀ w, (Fut.mayWL (pollAll fs S).1 w → Fut.mayWL fs w) ∧
      (HasWrite (pollAll fs S).2.1.log w → HasWrite S.log w ∨ Fut.mayWL fs w))
  · intro r S w; rw [poll_ready]; exact ⟨fun h => h, fun h => Or.inl h⟩
  · intro id res S w
    by_cases h : id ∈ S.chan <;> simp only [poll, h, if_true, if_false]
    · exact ⟨fun h => h.elim, fun h => Or.inl h⟩
    · exact ⟨fun h => h, fun h => Or.inl h⟩
  · intro fn g S ih w
    have ih := ih w
    rcases hp : poll g S with ⟨g', S1, o⟩
    rw [hp] at ih
    cases o with
    | some r =>
      rw [poll_map_some hp]
      exact ⟨fun h => h.elim, fun h => ih.2 ((applyMap_writes _ _ _ _).mp h)⟩
    | none => rw [poll_map_none hp]; exact ih
  · intro fn g S ih w
    cases fn with
    | setSlot mp i key =>
      have ih := ih w
      have hres := poll_result_out g S
      rcases hp : poll g S with ⟨g', S1, o⟩
      rw [hp] at ih hres
      cases o with
      | some r =>
        cases r with
        | ok v =>
          rw [poll_mapOk_ok hp]
          refine ⟨fun h => h.elim, fun h => ?_⟩
          rcases (HasWrite_push_write _ _ _ _ _ _).mp h with h | h
          · rcases ih.2 h with h | h
            · exact Or.inl h
            · exact Or.inr (Or.inr h)
          · exact Or.inr (Or.inl ⟨v, (hres _ rfl).symm, h⟩)
        | err e =>
          rw [poll_mapOk_err hp]
          refine ⟨fun h => h.elim, fun h => ?_⟩
          rcases ih.2 h with h | h
          · exact Or.inl h
          · exact Or.inr (Or.inr h)
      | none =>
        rw [poll_mapOk_none hp]
        have ho := poll_out g S; rw [hp] at ho
        simp only [Fut.mayW]
        constructor
        · rintro (⟨v, hv, rfl⟩ | h)
          · exact Or.inl ⟨v, by rw [← ho]; exact hv, rfl⟩
          · exact Or.inr (ih.1 h)
        · intro h
          rcases ih.2 h with h | h
          · exact Or.inl h
          · exact Or.inr (Or.inr h)
  · intro g S ih w
    have ih := ih w
    rcases hp : poll g S with ⟨g', S1, o⟩
    rw [hp] at ih
    cases o with
    | some r => rw [poll_mapOkToAny_some hp]; exact ⟨fun h => h.elim, ih.2⟩
    | none => rw [poll_mapOkToAny_none hp]; exact ih
  · intro v g S ih w
    have ih := ih w
    rcases hp : poll g S with ⟨g', S1, o⟩
    rw [hp] at ih
    cases o with
    | some r =>
      cases r with
      | ok u => rw [poll_mapOkValue_ok hp]; exact ⟨fun h => h.elim, ih.2⟩
      | err e => rw [poll_mapOkValue_err hp]; exact ⟨fun h => h.elim, ih.2⟩
    | none => rw [poll_mapOkValue_none hp]; exact ih
  · intro nn c path g S ih ihk w
    have ih := ih w
    have hres := poll_result_out g S
    have ho := poll_out g S
    rcases hp : poll g S with ⟨g', S1, o⟩
    rw [hp] at ih hres ho
    cases o with
    | none =>
      rw [poll_thenK_wait hp]
      simp only [Fut.mayW]
      simp only at ho
      constructor
      · rintro (h | h)
        · exact Or.inl (ih.1 h)
        · exact Or.inr (by rw [← ho]; exact h)
      · intro h
        rcases ih.2 h with h | h
        · exact Or.inl h
        · exact Or.inr (Or.inl h)
    | some r =>
      have hk := applyK_sound nn c path r S1 w
      have ihk := ihk g' S1 r hp w
      have hok : g.out.isOk = r.isOk := out_isOk_of_res (hres r rfl)
      have hwrites : HasWrite (poll (applyK nn c path r S1).1 (applyK nn c path r S1).2).2.1.log w →
          HasWrite S.log w ∨ (Fut.thenK nn c path g none).mayW w := by
        intro h
        simp only [Fut.mayW]
        rcases ihk.2 h with h | h
        · rcases hk.2 h with h | h
          · rcases ih.2 h with h | h
            · exact Or.inl h
            · exact Or.inr (Or.inl h)
          · exact Or.inr (Or.inr ⟨by rw [hok]; exact h.1, h.2⟩)
        · have := hk.1 h
          exact Or.inr (Or.inr ⟨by rw [hok]; exact this.1, this.2⟩)
      rcases hp2 : poll (applyK nn c path r S1).1 (applyK nn c path r S1).2 with ⟨t', S3, o2⟩
      rw [hp2] at ihk hwrites
      cases o2 with
      | some r' => rw [poll_thenK_fire_some hp hp2]; exact ⟨fun h => h.elim, hwrites⟩
      | none =>
        rw [poll_thenK_fire_none hp hp2]
        refine ⟨fun h => ?_, hwrites⟩
        simp only [Fut.mayW] at h ⊢
        have := hk.1 (ihk.1 h)
        exact Or.inr ⟨by rw [hok]; exact this.1, this.2⟩
  · intro nn c path g t S ih w
    have ih := ih w
    rcases hp : poll t S with ⟨t', S1, o⟩
    rw [hp] at ih
    cases o with
    | some r => rw [poll_thenK_cont_some hp]; exact ⟨fun h => h.elim, ih.2⟩
    | none => rw [poll_thenK_cont_none hp]; exact ih
  · intro tag a b g S _ _ w; exact ⟨fun _ => trivial, fun _ => Or.inr trivial⟩
  · intro tag a b g t S _ w; exact ⟨fun _ => trivial, fun _ => Or.inr trivial⟩
  · intro fs S ih w
    have ih := ih w
    rcases hp : pollAll fs S with ⟨fs', S1, p⟩
    rw [hp] at ih
    cases p with
    | failed e => rw [poll_join_failed hp]; exact ⟨fun h => h.elim, ih.2⟩
    | done vs => rw [poll_join_done hp]; exact ⟨fun h => h.elim, ih.2⟩
    | pending => rw [poll_join_pending hp]; exact ih
  · intro fs S ih w
    have ih := ih w
    rcases hp : pollAll fs S with ⟨fs', S1, p⟩
    rw [hp] at ih
    cases p with
    | failed e => rw [poll_after_failed hp]; exact ⟨fun h => h.elim, ih.2⟩
    | done vs => rw [poll_after_done hp]; exact ⟨fun h => h.elim, ih.2⟩
    | pending => rw [poll_after_pending hp]; exact ih
  · intro S w; rw [pollAll_nil]; exact ⟨fun h => h, fun h => Or.inl h⟩
  · intro f rest S ih ihr w
    have ih := ih w
    rcases hp : poll f S with ⟨f', S1, o⟩
    rw [hp] at ih
    have hcombine : ∀ (rest' : List Fut) (S2 : Store),
        ((Fut.mayWL rest' w → Fut.mayWL rest w) ∧ (HasWrite S2.log w → HasWrite S1.log w ∨ Fut.mayWL rest w)) →
        (Fut.mayWL (f' :: rest') w → Fut.mayWL (f :: rest) w) ∧
        (HasWrite S2.log w → HasWrite S.log w ∨ Fut.mayWL (f :: rest) w) := by
      intro rest' S2 hr
      simp only [Fut.mayWL]
      constructor
      · rintro (h | h)
        · exact Or.inl (ih.1 h)
        · exact Or.inr (hr.1 h)
      · intro h
        rcases hr.2 h with h | h
        · rcases ih.2 h with h | h
          · exact Or.inl h
          · exact Or.inr (Or.inl h)
        · exact Or.inr (Or.inr h)
    cases o with
    | some r =>
      cases r with
      | err e =>
        rw [pollAll_cons_err hp]
        exact hcombine rest S1 ⟨fun h => h, fun h => Or.inl h⟩
      | ok v =>
        have ihr := ihr f' S1 _ hp (by intro e h; cases h) w
        rcases hp2 : pollAll rest S1 with ⟨rest', S2, p⟩
        rw [hp2] at ihr
        rw [pollAll_cons_ok hp hp2]; exact hcombine rest' S2 ihr
    | none =>
      have ihr := ihr f' S1 _ hp (by intro e h; cases h) w
      rcases hp2 : pollAll rest S1 with ⟨rest', S2, p⟩
      rw [hp2] at ihr
      rw [pollAll_cons_none hp hp2]; exact hcombine rest' S2 ihr

/-! ## §B coverage: every slot of every visible object gets set -/

/-- Slot `cell` has been set (by some `Set`) in the log. -/
def Covered (log : List Entry) (cell : Cell) : Prop := ∃ key v, Entry.write cell.1 cell.2 key v ∈ log

theorem Covered.mono {S S' : Store} (h : Mono S S') {cell : Cell} (hc : Covered S.log cell) : Covered S'.log cell := by
  obtain ⟨l, hl⟩ := h.log
  obtain ⟨key, v, hm⟩ := hc
  exact ⟨key, v, by rw [hl]; exact List.mem_append_left _ hm⟩

theorem Covered.push_write (S : Store) (mp : Path) (i : Nat) (key : String) (v : Val) :
    Covered (S.push (.write mp i key v)).log (mp, i) := ⟨key, v, by simp [Store.push]⟩

mutual
  /-- The slots `f` still has to set before it resolves ok (none if it is going to fail). -/
  def Fut.owed : Fut → List Cell
    | .ready _ => []
    | .promise _ _ => []
    | .map _ g => g.owed
    | .mapOk (.setSlot mp i _) g => if g.out.isOk then (mp, i) :: g.owed else []
    | .mapOkToAny g => g.owed
    | .mapOkValue _ g => g.owed
    | .thenK nn c path g none => if g.out.isOk then Spec.cellsC nn c path else []
    | .thenK _ _ _ _ (some t) => t.owed
    | .thenT _ _ _ _ _ => []
    | .join gs => if (Fut.outs gs).isSome then Fut.owedL gs else []
    | .after gs => if (Fut.outs gs).isSome then Fut.owedL gs else []
  def Fut.owedL : List Fut → List Cell
    | [] => []
    | g :: gs => g.owed ++ Fut.owedL gs
end

theorem mkMap_owed (fn : MapFn) (f : Fut) (S : Store) : (mkMap fn f S).1.owed = f.owed := by
  cases f <;> simp [mkMap, Fut.owed]

theorem mkMapOkToAny_owed (f : Fut) : (mkMapOkToAny f).owed = f.owed := by
  cases f <;> simp [mkMapOkToAny, Fut.owed]

theorem mkMapOkValue_owed (v : Val) (f : Fut) : (mkMapOkValue v f).owed = f.owed := by
  cases f with
  | ready r => cases r <;> simp [mkMapOkValue, Fut.owed]
  | _ => simp [mkMapOkValue, Fut.owed]

theorem nonNullWrap_owed (nn : Bool) (path : Path) (f : Fut) (S : Store) : (nonNullWrap nn path f S).1.owed = f.owed := by
  unfold nonNullWrap; cases nn <;> simp [mkMap_owed]

theorem catchIfNullable_owed (nn : Bool) (f : Fut) (S : Store) : (catchIfNullable nn f S).1.owed = f.owed := by
  unfold catchIfNullable; cases nn <;> simp [mkMap_owed]

theorem scanReady_done_owed (fs : List Fut) (vs : List Val) (h : scanReady fs = .done vs) : Fut.owedL fs = [] := by
  induction fs generalizing vs with
  | nil => rfl
  | cons f rest ih =>
    cases f with
    | ready r =>
      cases r with
      | ok v =>
        simp only [scanReady] at h
        cases hr : scanReady rest with
        | done vs' => simp [Fut.owedL, Fut.owed, ih vs' hr]
        | failed e => simp [hr] at h
        | pending => simp [hr] at h
      | err e => simp [scanReady] at h
    | _ => simp only [scanReady] at h; split at h <;> cases h

theorem mkJoin_owed (fs : List Fut) (h : (Fut.outs fs).isSome = true) : (mkJoin fs).owed = Fut.owedL fs := by
  have hs := scanReady_out fs
  unfold mkJoin
  split
  · rename_i e he; rw [hs.1 e he] at h; simp at h
  · rename_i vs he; simp [Fut.owed, scanReady_done_owed fs vs he]
  · simp [Fut.owed, h]

theorem mkAfter_owed (fs : List Fut) (h : (Fut.outs fs).isSome = true) : (mkAfter fs).owed = Fut.owedL fs := by
  have hs := scanReady_out fs
  unfold mkAfter
  split
  · rename_i e he; rw [hs.1 e he] at h; simp at h
  · rename_i vs he; simp [Fut.owed, scanReady_done_owed fs vs he]
  · simp [Fut.owed, h]

theorem owedL_append_one (acc : List Fut) (g : Fut) : Fut.owedL (acc ++ [g]) = Fut.owedL acc ++ g.owed := by
  induction acc with
  | nil => simp [Fut.owedL]
  | cons a acc ih => simp [Fut.owedL, ih]

theorem execField_cover (nn : Bool) (mode : Mode) (rerr : Option String) (c : Comp) (itemPath : Path)
    (completed : Store → Fut × Store) (S : Store) (hd : Spec.descends mode rerr = true)
    (hc : ∀ S', ∀ cell ∈ Spec.cellsC nn c itemPath, cell ∈ (completed S').1.owed ∨ Covered (completed S').2.log cell) :
    ∀ cell ∈ Spec.cellsC nn c itemPath,
      cell ∈ (execField nn mode rerr c itemPath completed S).1.owed ∨
      Covered (execField nn mode rerr c itemPath completed S).2.log cell := by
  intro cell hcell
  unfold execField
  cases mode <;> cases rerr <;> simp [Spec.descends] at hd
  · exact hc _ cell hcell
  · exact Or.inl (by simpa [Fut.owed, Fut.out, Res.out, Out.isOk] using hcell)
  · exact Or.inl (by simpa [Fut.owed, Fut.out, Res.out, Out.isOk] using hcell)

theorem mem_cellsF_cons (key : String) (nn : Bool) (mode : Mode) (rerr : Option String) (c : Comp)
    (rest : List Field) (path : Path) (i : Nat) (cell : Cell) :
    cell ∈ Spec.cellsF (.mk key nn mode rerr c :: rest) path i ↔
      cell = (path, i) ∨ (Spec.descends mode rerr = true ∧ cell ∈ Spec.cellsC nn c (path ++ [.key key])) ∨
      cell ∈ Spec.cellsF rest path (i + 1) := by
  simp only [Spec.cellsF, List.mem_cons, List.mem_append]
  cases Spec.descends mode rerr <;> simp

theorem items_cons_some (inn : Bool) (c : Comp) (rest : List Comp) (path : Path) (i : Nat)
    (h : (Spec.items inn (c :: rest) path i).isSome = true) : (Spec.items inn rest path (i + 1)).isSome = true := by
  simp only [Spec.items] at h
  cases h1 : Out.caught inn (Spec.comp inn c (path ++ [.idx i])) <;> cases h2 : Spec.items inn rest path (i + 1) <;>
    simp_all

/-- After building, every slot the reference semantics makes visible is either already set or
    owed by the returned future. -/
theorem complete_cover_aux :
    (∀ nn c path S, ∀ cell ∈ Spec.cellsC nn c path,
      cell ∈ (complete nn c path S).1.owed ∨ Covered (complete nn c path S).2.log cell) ∧
    (∀ fields path n i acc S, (Fut.outs acc).isSome = true → Spec.fieldsOk fields path = true →
      ∀ cell, (cell ∈ Fut.owedL acc ∨ cell ∈ Spec.cellsF fields path i) →
        cell ∈ (execFields fields path n i acc S).1.owed ∨ Covered (execFields fields path n i acc S).2.log cell) ∧
    (∀ inn items path i S, (Spec.items inn items path i).isSome = true →
      ∀ cell ∈ Spec.cellsL inn items path i,
        cell ∈ Fut.owedL (completeItems inn items path i S).1 ∨ Covered (completeItems inn items path i S).2.log cell) := by
  apply complete.mutual_induct
    (motive_1 := fun nn c path S => ∀ cell ∈ Spec.cellsC nn c path,
      cell ∈ (complete nn c path S).1.owed ∨ Covered (complete nn c path S).2.log cell)
    (motive_2 := fun fields path n i acc S => (Fut.outs acc).isSome = true → Spec.fieldsOk fields path = true →
      ∀ cell, (cell ∈ Fut.owedL acc ∨ cell ∈ Spec.cellsF fields path i) →
        cell ∈ (execFields fields path n i acc S).1.owed ∨ Covered (execFields fields path n i acc S).2.log cell)
    (motive_3 := fun inn items path i S => (Spec.items inn items path i).isSome = true →
      ∀ cell ∈ Spec.cellsL inn items path i,
        cell ∈ Fut.owedL (completeItems inn items path i S).1 ∨ Covered (completeItems inn items path i S).2.log cell)
  · intro nn path S cell h; simp [Spec.cellsC] at h
  · intro nn path S a cell h; simp [Spec.cellsC] at h
  · intro nn path S a cell h; simp [Spec.cellsC] at h
  · intro nn path S inn items fs S1 h ih cell hcell
    have hsome : (Spec.items inn items path 0).isSome = true := by
      simp only [Spec.cellsC, Spec.comp] at hcell
      cases hi : Spec.items inn items path 0 <;> simp_all [Out.isOk]
    have hcl : cell ∈ Spec.cellsL inn items path 0 := by
      simp only [Spec.cellsC] at hcell
      split at hcell
      · exact hcell
      · simp at hcell
    have ih := ih hsome cell hcl; rw [h] at ih
    have houts : Fut.outs fs = Spec.items inn items path 0 := by
      have := complete_out_aux.2.2 inn items path 0 S; rw [h] at this; exact this
    simp only [complete, h, nonNullWrap_owed, mkMapOkToAny_owed, mkJoin_owed fs (by rw [houts]; exact hsome)]
    rcases ih with h1 | h1
    · exact Or.inl h1
    · exact Or.inr (h1.mono (nonNullWrap_mono _ _ _ _))
  · intro nn path S fields f S1 h ih cell hcell
    have hok : Spec.fieldsOk fields path = true := by
      simp only [Spec.cellsC, Spec.comp] at hcell
      cases hi : Spec.fieldsOk fields path <;> simp_all [Out.isOk]
    have hcl : cell ∈ Spec.cellsF fields path 0 := by
      simp only [Spec.cellsC] at hcell
      split at hcell
      · exact hcell
      · simp at hcell
    have ih := ih (by simp [Fut.outs]) hok cell (Or.inr hcl); rw [h] at ih
    simp only [complete, h, nonNullWrap_owed, mkMapOkToAny_owed]
    rcases ih with h1 | h1
    · exact Or.inl h1
    · exact Or.inr (h1.mono (nonNullWrap_mono _ _ _ _))
  · intro inn path i S _ cell h; simp [Spec.cellsL] at h
  · intro inn path i S c rest f S1 h1 f1 S11 h2 fs S2 h3 ih1 ih2 hsome cell hcell
    have hrest := items_cons_some inn c rest path i hsome
    have hc := catchIfNullable_owed inn f S1
    have hcm := catchIfNullable_mono inn f S1
    have hm3 := complete_mono_aux.2.2 inn rest path (i + 1) S11
    rw [h2] at hc hcm
    rw [h3] at hm3
    simp only [completeItems, h1, h2, h3, Fut.owedL]
    simp only [Spec.cellsL, List.mem_append] at hcell
    rcases hcell with hcell | hcell
    · have ih1 := ih1 cell hcell; rw [h1] at ih1
      rcases ih1 with h | h
      · exact Or.inl (List.mem_append_left _ (by rw [hc]; exact h))
      · exact Or.inr ((h.mono hcm).mono hm3)
    · have ih2 := ih2 hrest cell hcell; rw [h3] at ih2
      rcases ih2 with h | h
      · exact Or.inl (List.mem_append_right _ h)
      · exact Or.inr h
  · intro path n i acc S hacc _ cell hcell
    simp only [execFields, mkMapOkValue_owed, mkAfter_owed acc hacc]
    rcases hcell with h | h
    · exact Or.inl h
    · simp [Spec.cellsF] at h
  · intro path n i acc S key nn rerr c rest ih hacc hok cell hcell
    rw [execFields_tname]
    have hok' : Spec.fieldsOk rest path = true := by simpa [fieldsOk_cons] using (by rw [fieldsOk_cons] at hok; exact hok)
    have hm := complete_mono_aux.2.1 rest path n (i + 1) acc (S.push (.write path i key (tnameVal c)))
    rcases hcell with h | h
    · exact ih hacc hok' cell (Or.inl h)
    · rcases (mem_cellsF_cons _ _ _ _ _ _ _ _ _).mp h with h | h | h
      · subst h; exact Or.inr ((Covered.push_write S path i key _).mono hm)
      · simp [Spec.descends] at h
      · exact ih hacc hok' cell (Or.inr h)
  · intro path n i acc S key nn mode rerr c rest itemPath f S1 h1 S11 e hm h2 ihc hacc hok cell hcell
    have hm' : mode ≠ .tname := fun h => hm h
    have hout := fieldStep_out path key nn mode rerr c S S1 S11 f _ hm' (fun S' => complete_out _ _ _ _) h1 h2
    rw [fieldsOk_cons, ← hout] at hok
    simp [Fut.out, Res.out, Out.isOk] at hok
  · intro path n i acc S key nn mode rerr c rest itemPath f S1 h1 S11 v hm h2 ihc ih hacc hok cell hcell
    have hm' : mode ≠ .tname := fun h => hm h
    have hok' : Spec.fieldsOk rest path = true := by rw [fieldsOk_cons] at hok; simp at hok; exact hok.2
    have hco := catchIfNullable_owed nn f S1
    have hcm := catchIfNullable_mono nn f S1
    rw [h2] at hco hcm
    rw [execFields_cons path key nn mode rerr c rest n i acc S S1 S11 f _ hm' h1 h2, fieldCont_ready_ok]
    have hmr := complete_mono_aux.2.1 rest path n (i + 1) acc (S11.push (.write path i key v))
    rcases hcell with h | h
    · exact ih hacc hok' cell (Or.inl h)
    · rcases (mem_cellsF_cons _ _ _ _ _ _ _ _ _).mp h with h | h | h
      · subst h; exact Or.inr ((Covered.push_write S11 path i key v).mono hmr)
      · have hcov := execField_cover nn mode rerr c itemPath (fun S' => complete nn c itemPath S') S h.1 ihc cell h.2
        rw [h1] at hcov
        rcases hcov with hc | hc
        · simp only at hc; rw [← hco] at hc; simp [Fut.owed] at hc
        · exact Or.inr (((hc.mono hcm).mono (Mono.push _ _)).mono hmr)
      · exact ih hacc hok' cell (Or.inr h)
  · intro path n i acc S key nn mode rerr c rest itemPath f S1 h1 S11 f1 hne hno hm h2 ihc ih hacc hok cell hcell
    have hm' : mode ≠ .tname := fun h => hm h
    have hout := fieldStep_out path key nn mode rerr c S S1 S11 f f1 hm' (fun S' => complete_out _ _ _ _) h1 h2
    have hok1 : f1.out.isOk = true := by rw [hout]; rw [fieldsOk_cons] at hok; simp at hok; exact hok.1
    have hok' : Spec.fieldsOk rest path = true := by rw [fieldsOk_cons] at hok; simp at hok; exact hok.2
    have hco := catchIfNullable_owed nn f S1
    have hcm := catchIfNullable_mono nn f S1
    rw [h2] at hco hcm
    rw [execFields_cons path key nn mode rerr c rest n i acc S S1 S11 f f1 hm' h1 h2,
      fieldCont_async rest path n i acc key f1 S11 hne hno]
    have hacc' : (Fut.outs (acc ++ [Fut.mapOk (OkFn.setSlot path i key) f1])).isSome = true := by
      rw [outs_append_one]; simp only [hacc, Fut.out, Bool.true_and]
      cases hf : f1.out <;> simp_all [outOk, Out.isOk]
    have hmr := complete_mono_aux.2.1 rest path n (i + 1) (acc ++ [Fut.mapOk (OkFn.setSlot path i key) f1]) S11
    have ih := ih hacc' hok' cell
    rw [owedL_append_one] at ih
    simp only [Fut.owed, hok1, if_true, List.mem_append, List.mem_cons] at ih
    rcases hcell with h | h
    · exact ih (Or.inl (Or.inl h))
    · rcases (mem_cellsF_cons _ _ _ _ _ _ _ _ _).mp h with h | h | h
      · exact ih (Or.inl (Or.inr (Or.inl h)))
      · have hcov := execField_cover nn mode rerr c itemPath (fun S' => complete nn c itemPath S') S h.1 ihc cell h.2
        rw [h1] at hcov
        rcases hcov with hc | hc
        · simp only at hc; rw [← hco] at hc; exact ih (Or.inl (Or.inr (Or.inr hc)))
        · exact Or.inr ((hc.mono hcm).mono hmr)
      · exact ih (Or.inr h)

/-! ### poll -/

theorem pollAll_done_owed (fs : List Fut) : ∀ (S : Store) (fs' : List Fut) (S' : Store) (vs : List Val),
    pollAll fs S = (fs', S', .done vs) → Fut.owedL fs' = [] := by
  induction fs with
  | nil => intro S fs' S' vs h; rw [pollAll_nil] at h; cases h; rfl
  | cons f rest ih =>
    intro S fs' S' vs h
    rcases hp : poll f S with ⟨f', S1, o⟩
    cases o with
    | none =>
      rcases hp2 : pollAll rest S1 with ⟨rest', S2, p⟩
      rw [pollAll_cons_none hp hp2] at h
      cases p <;> simp at h
    | some r =>
      cases r with
      | err e => rw [pollAll_cons_err hp] at h; cases h
      | ok v =>
        rcases hp2 : pollAll rest S1 with ⟨rest', S2, p⟩
        rw [pollAll_cons_ok hp hp2] at h
        cases p with
        | done vs' =>
          simp only [Prod.mk.injEq] at h
          obtain ⟨rfl, _, _⟩ := h
          have hr := poll_some_ready f S f' S1 _ hp
          simp [Fut.owedL, hr, Fut.owed, ih S1 rest' S2 vs' hp2]
        | failed e => simp at h
        | pending => simp at h

theorem applyK_cover (nn : Bool) (c : Comp) (path : Path) (r : Res) (S : Store) (hr : r.isOk = true) :
    ∀ cell ∈ Spec.cellsC nn c path,
      cell ∈ (applyK nn c path r S).1.owed ∨ Covered (applyK nn c path r S).2.log cell := by
  cases r with
  | ok v => simp only [applyK]; exact complete_cover_aux.1 nn c path S
  | err e => simp [Res.isOk] at hr

/-- Polling never loses an owed slot: it stays owed or gets set. -/
theorem poll_cover_aux :
    (∀ f S, ∀ cell ∈ f.owed, cell ∈ (poll f S).1.owed ∨ Covered (poll f S).2.1.log cell) ∧
    (∀ fs S, ∀ cell ∈ Fut.owedL fs, cell ∈ Fut.owedL (pollAll fs S).1 ∨ Covered (pollAll fs S).2.1.log cell) := by
  apply poll_induct'
    (P1 := fun f S => ∀ cell ∈ f.owed, cell ∈ (poll f S).1.owed ∨ Covered (poll f S).2.1.log cell)
    (P2 := fun fs S => ∀ cell ∈ Fut.owedL fs, cell ∈ Fut.owedL (pollAll fs S).1 ∨ Covered (pollAll fs S).2.1.log cell)
  · intro r S cell h; simp [Fut.owed] at h
  · intro id res S cell h; simp [Fut.owed] at h
  · intro fn g S ih cell hcell
    have ih := ih cell (by simpa [Fut.owed] using hcell)
    rcases hp : poll g S with ⟨g', S1, o⟩
    rw [hp] at ih
    cases o with
    | some r =>
      rw [poll_map_some hp]
      have hr := poll_some_ready g S g' S1 r hp
      rcases ih with h | h
      · simp [hr, Fut.owed] at h
      · exact Or.inr (h.mono (applyMap_mono _ _ _))
    | none => rw [poll_map_none hp]; simpa [Fut.owed] using ih
  · intro fn g S ih cell hcell
    cases fn with
    | setSlot mp i key =>
      have hres := poll_result_out g S
      have ho := poll_out g S
      rcases hp : poll g S with ⟨g', S1, o⟩
      rw [hp] at hres ho
      simp only [Fut.owed] at hcell
      by_cases hok : g.out.isOk = true
      · simp only [hok, if_true, List.mem_cons] at hcell
        cases o with
        | some r =>
          cases r with
          | ok v =>
            rw [poll_mapOk_ok hp]
            have hr := poll_some_ready g S g' S1 _ hp
            rcases hcell with h | h
            · subst h; exact Or.inr (Covered.push_write S1 mp i key v)
            · have ih := ih cell h; rw [hp] at ih
              rcases ih with h | h
              · simp [hr, Fut.owed] at h
              · exact Or.inr (h.mono (Mono.push _ _))
          | err e =>
            have := hres _ rfl
            rw [← this] at hok; simp [Res.out, Out.isOk] at hok
        | none =>
          rw [poll_mapOk_none hp]
          simp only at ho
          simp only [Fut.owed, ho, hok, if_true, List.mem_cons]
          rcases hcell with h | h
          · exact Or.inl (Or.inl h)
          · have ih := ih cell h; rw [hp] at ih
            rcases ih with h | h
            · exact Or.inl (Or.inr h)
            · exact Or.inr h
      · simp [hok] at hcell
  · intro g S ih cell hcell
    have ih := ih cell (by simpa [Fut.owed] using hcell)
    rcases hp : poll g S with ⟨g', S1, o⟩
    rw [hp] at ih
    cases o with
    | some r =>
      rw [poll_mapOkToAny_some hp]
      have hr := poll_some_ready g S g' S1 r hp
      rcases ih with h | h
      · simp [hr, Fut.owed] at h
      · exact Or.inr h
    | none => rw [poll_mapOkToAny_none hp]; simpa [Fut.owed] using ih
  · intro v g S ih cell hcell
    have ih := ih cell (by simpa [Fut.owed] using hcell)
    rcases hp : poll g S with ⟨g', S1, o⟩
    rw [hp] at ih
    cases o with
    | some r =>
      have hr := poll_some_ready g S g' S1 r hp
      have hcov : Covered S1.log cell := by
        rcases ih with h | h
        · simp [hr, Fut.owed] at h
        · exact h
      cases r with
      | ok u => rw [poll_mapOkValue_ok hp]; exact Or.inr hcov
      | err e => rw [poll_mapOkValue_err hp]; exact Or.inr hcov
    | none => rw [poll_mapOkValue_none hp]; simpa [Fut.owed] using ih
  · intro nn c path g S ih ihk cell hcell
    have hres := poll_result_out g S
    have ho := poll_out g S
    rcases hp : poll g S with ⟨g', S1, o⟩
    rw [hp] at hres ho
    simp only [Fut.owed] at hcell
    by_cases hok : g.out.isOk = true
    · simp only [hok, if_true] at hcell
      cases o with
      | none =>
        rw [poll_thenK_wait hp]
        simp only at ho
        exact Or.inl (by simpa [Fut.owed, ho, hok] using hcell)
      | some r =>
        have hrok : r.isOk = true := by rw [← out_isOk_of_res (hres r rfl)]; exact hok
        have hk := applyK_cover nn c path r S1 hrok cell hcell
        have ihk := ihk g' S1 r hp
        have hmono := poll_mono (applyK nn c path r S1).1 (applyK nn c path r S1).2
        rcases hp2 : poll (applyK nn c path r S1).1 (applyK nn c path r S1).2 with ⟨t', S3, o2⟩
        rw [hp2] at ihk hmono
        have hfinal : cell ∈ t'.owed ∨ Covered S3.log cell := by
          rcases hk with h | h
          · exact ihk cell h
          · exact Or.inr (h.mono hmono)
        cases o2 with
        | some r' =>
          rw [poll_thenK_fire_some hp hp2]
          have hr := poll_some_ready _ _ t' S3 r' hp2
          rcases hfinal with h | h
          · simp [hr, Fut.owed] at h
          · exact Or.inr h
        | none => rw [poll_thenK_fire_none hp hp2]; simpa [Fut.owed] using hfinal
    · simp [hok] at hcell
  · intro nn c path g t S ih cell hcell
    have ih := ih cell (by simpa [Fut.owed] using hcell)
    rcases hp : poll t S with ⟨t', S1, o⟩
    rw [hp] at ih
    cases o with
    | some r =>
      rw [poll_thenK_cont_some hp]
      have hr := poll_some_ready t S t' S1 r hp
      rcases ih with h | h
      · simp [hr, Fut.owed] at h
      · exact Or.inr h
    | none => rw [poll_thenK_cont_none hp]; simpa [Fut.owed] using ih
  · intro tag a b g S _ _ cell h; simp [Fut.owed] at h
  · intro tag a b g t S _ cell h; simp [Fut.owed] at h
  · intro fs S ih cell hcell
    have hout := poll_out_aux.2 fs S
    rcases hp : pollAll fs S with ⟨fs', S1, p⟩
    rw [hp] at hout
    simp only [Fut.owed] at hcell
    by_cases hok : (Fut.outs fs).isSome = true
    · simp only [hok, if_true] at hcell
      have ih := ih cell hcell; rw [hp] at ih
      cases p with
      | failed e => have := hout.2.1 e rfl; rw [this] at hok; simp at hok
      | done vs =>
        rw [poll_join_done hp]
        have := pollAll_done_owed fs S fs' S1 vs hp
        rcases ih with h | h
        · simp [this] at h
        · exact Or.inr h
      | pending =>
        rw [poll_join_pending hp]
        simp only [Fut.owed, hout.1, hok, if_true]; exact ih
    · simp [hok] at hcell
  · intro fs S ih cell hcell
    have hout := poll_out_aux.2 fs S
    rcases hp : pollAll fs S with ⟨fs', S1, p⟩
    rw [hp] at hout
    simp only [Fut.owed] at hcell
    by_cases hok : (Fut.outs fs).isSome = true
    · simp only [hok, if_true] at hcell
      have ih := ih cell hcell; rw [hp] at ih
      cases p with
      | failed e => have := hout.2.1 e rfl; rw [this] at hok; simp at hok
      | done vs =>
        rw [poll_after_done hp]
        have := pollAll_done_owed fs S fs' S1 vs hp
        rcases ih with h | h
        · simp [this] at h
        · exact Or.inr h
      | pending =>
        rw [poll_after_pending hp]
        simp only [Fut.owed, hout.1, hok, if_true]; exact ih
    · simp [hok] at hcell
  · intro S cell h; simp [Fut.owedL] at h
  · intro f rest S ih ihr cell hcell
    simp only [Fut.owedL, List.mem_append] at hcell
    rcases hp : poll f S with ⟨f', S1, o⟩
    have ih := fun h => ih cell h
    rw [hp] at ih
    have hcombine : ∀ (rest' : List Fut) (S2 : Store), Mono S1 S2 →
        (cell ∈ Fut.owedL rest → cell ∈ Fut.owedL rest' ∨ Covered S2.log cell) →
        cell ∈ Fut.owedL (f' :: rest') ∨ Covered S2.log cell := by
      intro rest' S2 hm hr
      simp only [Fut.owedL, List.mem_append]
      rcases hcell with h | h
      · rcases ih h with h | h
        · exact Or.inl (Or.inl h)
        · exact Or.inr (h.mono hm)
      · rcases hr h with h | h
        · exact Or.inl (Or.inr h)
        · exact Or.inr h
    cases o with
    | some r =>
      cases r with
      | err e =>
        rw [pollAll_cons_err hp]
        exact hcombine rest S1 (Mono.refl _) (fun h => Or.inl h)
      | ok v =>
        have ihr := ihr f' S1 _ hp (by intro e h; cases h) cell
        have hm := poll_mono_aux.2 rest S1
        rcases hp2 : pollAll rest S1 with ⟨rest', S2, p⟩
        rw [hp2] at ihr hm
        rw [pollAll_cons_ok hp hp2]; exact hcombine rest' S2 hm ihr
    | none =>
      have ihr := ihr f' S1 _ hp (by intro e h; cases h) cell
      have hm := poll_mono_aux.2 rest S1
      rcases hp2 : pollAll rest S1 with ⟨rest', S2, p⟩
      rw [hp2] at ihr hm
      rw [pollAll_cons_none hp hp2]; exact hcombine rest' S2 hm ihr

/-! ## §C right `Set`s of one slot agree (distinct response keys) -/

/-- Two right `Set`s of the same slot carry the same key and value. -/
def FunW (W : List Write) : Prop :=
  ∀ w1 ∈ W, ∀ w2 ∈ W, w1.mp = w2.mp → w1.i = w2.i → w1.key = w2.key ∧ w1.v = w2.v

theorem FunW_nil : FunW [] := by intro w1 h; simp at h

theorem FunW_append {A B : List Write} (hA : FunW A) (hB : FunW B)
    (hx : ∀ a ∈ A, ∀ b ∈ B, a.mp = b.mp → a.i = b.i → False) : FunW (A ++ B) := by
  intro w1 h1 w2 h2 hmp hi
  rcases List.mem_append.mp h1 with h1 | h1 <;> rcases List.mem_append.mp h2 with h2 | h2
  · exact hA w1 h1 w2 h2 hmp hi
  · exact (hx w1 h1 w2 h2 hmp hi).elim
  · exact (hx w2 h2 w1 h1 hmp.symm hi.symm).elim
  · exact hB w1 h1 w2 h2 hmp hi

theorem prefix_singleton_inj {p m : Path} {a b : Seg} (h1 : (p ++ [a]) <+: m) (h2 : (p ++ [b]) <+: m) : a = b := by
  have h := List.prefix_of_prefix_length_le h1 h2 (by simp)
  have := h.eq_of_length (by simp)
  simpa using this

theorem not_prefix_longer {p : Path} {a : Seg} (h : (p ++ [a]) <+: p) : False := by
  have := h.length_le; simp at this; omega

/-- Where the right `Set`s of a selection set live: on the object itself (slots from `i` on) or
    beneath one of its keys. -/
def ShapeF (path : Path) (i : Nat) (keys : List String) (w : Write) : Prop :=
  (w.mp = path ∧ i ≤ w.i) ∨ (∃ key ∈ keys, (path ++ [.key key]) <+: w.mp)

theorem keysL_contains_false {key : String} {rest : List Field} (h : (Field.keysL rest).contains key = false) :
    key ∉ Field.keysL rest := by
  intro hm
  have : (Field.keysL rest).contains key = true := by simpa using hm
  rw [h] at this; cases this

theorem writes_fun_aux :
    (∀ c : Comp, ∀ path, c.distinctKeys = true →
      (∀ w ∈ Spec.writesC c path, path <+: w.mp) ∧ FunW (Spec.writesC c path)) ∧
    (∀ fs : List Field, ∀ path i, Field.distinctKeysL fs = true →
      (∀ w ∈ Spec.writesF fs path i, ShapeF path i (Field.keysL fs) w) ∧ FunW (Spec.writesF fs path i)) ∧
    (∀ cs : List Comp, ∀ path i, Comp.distinctKeysL cs = true →
      (∀ w ∈ Spec.writesL cs path i, ∃ j, i ≤ j ∧ (path ++ [Seg.idx j]) <+: w.mp) ∧ FunW (Spec.writesL cs path i)) := by
  apply Comp.allSync.mutual_induct
    (motive_1 := fun c => ∀ path, c.distinctKeys = true →
      (∀ w ∈ Spec.writesC c path, path <+: w.mp) ∧ FunW (Spec.writesC c path))
    (motive_2 := fun fs => ∀ path i, Field.distinctKeysL fs = true →
      (∀ w ∈ Spec.writesF fs path i, ShapeF path i (Field.keysL fs) w) ∧ FunW (Spec.writesF fs path i))
    (motive_3 := fun cs => ∀ path i, Comp.distinctKeysL cs = true →
      (∀ w ∈ Spec.writesL cs path i, ∃ j, i ≤ j ∧ (path ++ [Seg.idx j]) <+: w.mp) ∧ FunW (Spec.writesL cs path i))
  · intro inn cs ih path hd
    simp only [Comp.distinctKeys] at hd
    obtain ⟨h1, h2⟩ := ih path 0 hd
    simp only [Spec.writesC]
    refine ⟨fun w hw => ?_, h2⟩
    obtain ⟨j, _, hj⟩ := h1 w hw
    exact (List.prefix_append path [.idx j]).trans hj
  · intro fs ih path hd
    simp only [Comp.distinctKeys] at hd
    obtain ⟨h1, h2⟩ := ih path 0 hd
    simp only [Spec.writesC]
    refine ⟨fun w hw => ?_, h2⟩
    rcases h1 w hw with ⟨hmp, _⟩ | ⟨key, _, hk⟩
    · rw [hmp]; exact List.prefix_refl _
    · exact (List.prefix_append path [.key key]).trans hk
  · intro path _; simp only [Spec.writesC]; exact ⟨fun w h => by simp at h, FunW_nil⟩
  · intro s path _; simp only [Spec.writesC]; exact ⟨fun w h => by simp at h, FunW_nil⟩
  · intro m path _; simp only [Spec.writesC]; exact ⟨fun w h => by simp at h, FunW_nil⟩
  · intro path i _; simp only [Spec.writesL]; exact ⟨fun w h => by simp at h, FunW_nil⟩
  · intro c rest ih1 ih2 path i hd
    simp only [Comp.distinctKeysL, Bool.and_eq_true] at hd
    obtain ⟨a1, a2⟩ := ih1 (path ++ [.idx i]) hd.1
    obtain ⟨b1, b2⟩ := ih2 path (i + 1) hd.2
    simp only [Spec.writesL]
    constructor
    · intro w hw
      rcases List.mem_append.mp hw with hw | hw
      · exact ⟨i, Nat.le_refl _, a1 w hw⟩
      · obtain ⟨j, hj, hp⟩ := b1 w hw
        exact ⟨j, by omega, hp⟩
    · refine FunW_append a2 b2 ?_
      intro a ha b hb hmp _
      obtain ⟨j, hj, hp⟩ := b1 b hb
      have hpa := a1 a ha
      rw [hmp] at hpa
      have := prefix_singleton_inj hpa hp
      simp at this; omega
  · intro path i _; simp only [Spec.writesF]; exact ⟨fun w h => by simp at h, FunW_nil⟩
  · intro key nn mode rerr c rest ih1 ih2 path i hd
    simp only [Field.distinctKeysL, Bool.and_eq_true, Bool.not_eq_true'] at hd
    obtain ⟨⟨hk, hdc⟩, hdr⟩ := hd
    have hknot := keysL_contains_false hk
    obtain ⟨a1, a2⟩ := ih1 (path ++ [.key key]) hdc
    obtain ⟨b1, b2⟩ := ih2 path (i + 1) hdr
    -- the three groups
    have own_shape : ∀ w ∈ (match Spec.field path (.mk key nn mode rerr c) with
        | .ok v => [(⟨path, i, key, v⟩ : Write)] | .fail => []), w.mp = path ∧ w.i = i := by
      intro w hw
      cases hf : Spec.field path (.mk key nn mode rerr c) <;> simp [hf] at hw
      subst hw; exact ⟨rfl, rfl⟩
    have own_fun : FunW (match Spec.field path (.mk key nn mode rerr c) with
        | .ok v => [(⟨path, i, key, v⟩ : Write)] | .fail => []) := by
      cases hf : Spec.field path (.mk key nn mode rerr c)
      · intro w1 h1 w2 h2 _ _
        simp at h1 h2; subst h1; subst h2; exact ⟨rfl, rfl⟩
      · exact FunW_nil
    have nest_shape : ∀ w ∈ (if Spec.descends mode rerr then Spec.writesC c (path ++ [.key key]) else []),
        (path ++ [.key key]) <+: w.mp := by
      intro w hw
      cases hdsc : Spec.descends mode rerr <;> simp [hdsc] at hw
      exact a1 w hw
    have nest_fun : FunW (if Spec.descends mode rerr then Spec.writesC c (path ++ [.key key]) else []) := by
      cases hdsc : Spec.descends mode rerr <;> simp [FunW_nil, a2]
    simp only [Spec.writesF, Field.keysL]
    constructor
    · intro w hw
      rcases List.mem_append.mp hw with hw | hw
      · rcases List.mem_append.mp hw with hw | hw
        · obtain ⟨h1, h2⟩ := own_shape w hw
          exact Or.inl ⟨h1, by omega⟩
        · exact Or.inr ⟨key, List.mem_cons_self, nest_shape w hw⟩
      · rcases b1 w hw with ⟨h1, h2⟩ | ⟨key', hk', hp⟩
        · exact Or.inl ⟨h1, by omega⟩
        · exact Or.inr ⟨key', List.mem_cons_of_mem _ hk', hp⟩
    · refine FunW_append (FunW_append own_fun nest_fun ?_) b2 ?_
      · intro a ha b hb hmp _
        obtain ⟨h1, _⟩ := own_shape a ha
        have := nest_shape b hb
        rw [← hmp, h1] at this
        exact not_prefix_longer this
      · intro a ha b hb hmp hi
        rcases List.mem_append.mp ha with ha | ha
        · obtain ⟨h1, h2⟩ := own_shape a ha
          rcases b1 b hb with ⟨_, h4⟩ | ⟨key', _, hp⟩
          · omega
          · rw [← hmp, h1] at hp; exact not_prefix_longer hp
        · have hpa := nest_shape a ha
          rcases b1 b hb with ⟨h3, _⟩ | ⟨key', hk', hp⟩
          · rw [hmp, h3] at hpa; exact not_prefix_longer hpa
          · rw [hmp] at hpa
            have := prefix_singleton_inj hpa hp
            simp at this
            subst this
            exact hknot hk'

/-! ## §D reading the data back -/

theorem slotOf_mem (mp : Path) (i : Nat) (log : List Entry) (k : String) (v : Val)
    (h : slotOf mp i log = some (k, v)) : Entry.write mp i k v ∈ log := by
  induction log with
  | nil => simp [slotOf] at h
  | cons e rest ih =>
    cases e with
    | write mp' i' key' v' =>
      simp only [slotOf] at h
      cases hr : slotOf mp i rest with
      | some kv =>
        rw [hr] at h; simp only [Option.some.injEq] at h; subst h
        exact List.mem_cons_of_mem _ (ih hr)
      | none =>
        rw [hr] at h
        simp only at h
        split at h
        · rename_i hc
          simp only [Option.some.injEq, Prod.mk.injEq] at h
          obtain ⟨rfl, rfl⟩ := h
          obtain ⟨rfl, rfl⟩ := hc
          exact List.mem_cons_self
        · cases h
    | _ => simp only [slotOf] at h; exact List.mem_cons_of_mem _ (ih h)

theorem slotOf_isSome (mp : Path) (i : Nat) (log : List Entry) (k : String) (v : Val)
    (h : Entry.write mp i k v ∈ log) : (slotOf mp i log).isSome = true := by
  induction log with
  | nil => simp at h
  | cons e rest ih =>
    rcases List.mem_cons.mp h with h1 | h2
    · subst h1
      simp only [slotOf]
      cases slotOf mp i rest <;> simp
    · have hrest := ih h2
      clear h
      cases e with
      | write mp' i' key' v' =>
        simp only [slotOf]
        cases hr : slotOf mp i rest with
        | some kv => simp
        | none => rw [hr] at hrest; simp at hrest
      | _ => simp only [slotOf]; exact hrest

/-- In a log that holds only right `Set`s, a slot that has been set reads back as the right
    key and value. -/
theorem slot_read (log : List Entry) (W : List Write) (hs : ∀ w, HasWrite log w → w ∈ W) (hf : FunW W)
    (w : Write) (hw : w ∈ W) (hc : Covered log (w.mp, w.i)) : slotOf w.mp w.i log = some (w.key, w.v) := by
  obtain ⟨k, v, hm⟩ := hc
  have hsome := slotOf_isSome w.mp w.i log k v hm
  cases hr : slotOf w.mp w.i log with
  | none => rw [hr] at hsome; simp at hsome
  | some kv =>
    obtain ⟨k', v'⟩ := kv
    have hm' := slotOf_mem w.mp w.i log k' v' hr
    have hin : (⟨w.mp, w.i, k', v'⟩ : Write) ∈ W := hs ⟨w.mp, w.i, k', v'⟩ hm'
    obtain ⟨h1, h2⟩ := hf ⟨w.mp, w.i, k', v'⟩ hin w hw rfl rfl
    simp only at h1 h2
    rw [h1, h2]

theorem render_null (fuel : Nat) (log : List Entry) (h : 1 ≤ fuel) : render fuel log .null = "null" := by
  cases fuel with
  | zero => omega
  | succ k => rfl

theorem render_scalar (fuel : Nat) (log : List Entry) (s : String) (h : 1 ≤ fuel) : render fuel log (.scalar s) = s := by
  cases fuel with
  | zero => omega
  | succ k => rfl

theorem render_tname (fuel : Nat) (log : List Entry) (c : Comp) (h : 1 ≤ fuel) :
    render fuel log (tnameVal c) = (match tnameVal c with | .scalar s => s | _ => "null") := by
  cases c <;> simp [tnameVal, render_null fuel log h, render_scalar fuel log _ h]

theorem render_list (f : Nat) (log : List Entry) (vs : List Val) :
    render (f + 1) log (.list vs) = "[" ++ ",".intercalate (vs.map (render f log)) ++ "]" := rfl

theorem render_obj (f : Nat) (log : List Entry) (p : Path) (n : Nat) :
    render (f + 1) log (.obj p n) = "{" ++ ",".intercalate (slotTexts (render f log) log p n 0) ++ "}" := rfl

theorem comp_null_ok {nn : Bool} {path : Path} {v : Val} (h : Spec.comp nn .null path = .ok v) : v = .null := by
  cases nn <;> simp [Spec.comp, Out.nonNull] at h <;> exact h.symm

theorem comp_scalar_ok {nn : Bool} {s : String} {path : Path} {v : Val} (h : Spec.comp nn (.scalar s) path = .ok v) :
    v = .scalar s := by
  cases nn <;> simp [Spec.comp, Out.nonNull] at h <;> exact h.symm

/-- The slot value of a field that yields a value, by cases. -/
theorem field_ok_cases (path : Path) (key : String) (nn : Bool) (mode : Mode) (rerr : Option String) (c : Comp)
    (v : Val) (h : Spec.field path (.mk key nn mode rerr c) = .ok v) :
    (mode = .tname ∧ v = tnameVal c) ∨
    (mode ≠ .tname ∧ rerr ≠ none ∧ v = .null) ∨
    (Spec.descends mode rerr = true ∧ Spec.comp nn c (path ++ [.key key]) = .ok v) ∨
    (Spec.descends mode rerr = true ∧ (Spec.comp nn c (path ++ [.key key])).isOk = false ∧ v = .null) := by
  cases mode <;> cases rerr <;> cases nn <;> simp [Spec.field, Out.caught, Spec.descends] at h ⊢
  all_goals first
    | exact h.symm
    | (cases hc : Spec.comp _ c (path ++ [.key key]) <;> simp_all [Out.isOk])

theorem render_eq_json_aux (log : List Entry) (W : List Write) (hs : ∀ w, HasWrite log w → w ∈ W) (hf : FunW W) :
    (∀ c : Comp, ∀ nn path v fuel, Spec.comp nn c path = .ok v → c.weight ≤ fuel →
      (∀ w ∈ Spec.writesC c path, w ∈ W) → (∀ cell ∈ Spec.cellsC nn c path, Covered log cell) →
      render fuel log v = Spec.jsonC c path) ∧
    (∀ fs : List Field, ∀ path i fuel, Spec.fieldsOk fs path = true → Field.weightL fs ≤ fuel →
      (∀ w ∈ Spec.writesF fs path i, w ∈ W) → (∀ cell ∈ Spec.cellsF fs path i, Covered log cell) →
      slotTexts (render fuel log) log path fs.length i = Spec.jsonF fs path) ∧
    (∀ cs : List Comp, ∀ inn path i fuel vs, Spec.items inn cs path i = some vs → Comp.weightL cs ≤ fuel →
      (∀ w ∈ Spec.writesL cs path i, w ∈ W) → (∀ cell ∈ Spec.cellsL inn cs path i, Covered log cell) →
      vs.map (render fuel log) = Spec.jsonL inn cs path i) := by
  apply Comp.allSync.mutual_induct
    (motive_1 := fun c => ∀ nn path v fuel, Spec.comp nn c path = .ok v → c.weight ≤ fuel →
      (∀ w ∈ Spec.writesC c path, w ∈ W) → (∀ cell ∈ Spec.cellsC nn c path, Covered log cell) →
      render fuel log v = Spec.jsonC c path)
    (motive_2 := fun fs => ∀ path i fuel, Spec.fieldsOk fs path = true → Field.weightL fs ≤ fuel →
      (∀ w ∈ Spec.writesF fs path i, w ∈ W) → (∀ cell ∈ Spec.cellsF fs path i, Covered log cell) →
      slotTexts (render fuel log) log path fs.length i = Spec.jsonF fs path)
    (motive_3 := fun cs => ∀ inn path i fuel vs, Spec.items inn cs path i = some vs → Comp.weightL cs ≤ fuel →
      (∀ w ∈ Spec.writesL cs path i, w ∈ W) → (∀ cell ∈ Spec.cellsL inn cs path i, Covered log cell) →
      vs.map (render fuel log) = Spec.jsonL inn cs path i)
  · -- list
    intro inn cs ih nn path v fuel hv hw hW hC
    simp only [Comp.weight] at hw
    cases fuel with
    | zero => omega
    | succ f =>
      simp only [Spec.comp] at hv
      cases hi : Spec.items inn cs path 0 with
      | none => rw [hi] at hv; cases hv
      | some vs =>
        rw [hi] at hv; simp only [Out.ok.injEq] at hv; subst hv
        have hcells : ∀ cell ∈ Spec.cellsL inn cs path 0, Covered log cell := by
          intro cell hc; apply hC
          simp only [Spec.cellsC, Spec.comp, hi, Out.isOk, if_true]; exact hc
        rw [render_list, ih inn path 0 f vs hi (by omega) (by simpa [Spec.writesC] using hW) hcells]
        simp [Spec.jsonC]
  · -- object
    intro fs ih nn path v fuel hv hw hW hC
    simp only [Comp.weight] at hw
    cases fuel with
    | zero => omega
    | succ f =>
      simp only [Spec.comp] at hv
      cases hok : Spec.fieldsOk fs path with
      | false => rw [hok] at hv; simp at hv
      | true =>
        rw [hok] at hv; simp only [if_true, Out.ok.injEq] at hv; subst hv
        have hcells : ∀ cell ∈ Spec.cellsF fs path 0, Covered log cell := by
          intro cell hc; apply hC
          simp only [Spec.cellsC, Spec.comp, hok, Out.isOk, if_true]; exact hc
        rw [render_obj, ih path 0 f hok (by omega) (by simpa [Spec.writesC] using hW) hcells]
        simp [Spec.jsonC]
  · intro nn path v fuel hv hw _ _
    simp only [Comp.weight] at hw
    rw [comp_null_ok hv, render_null fuel log (by omega)]; simp [Spec.jsonC]
  · intro s nn path v fuel hv hw _ _
    simp only [Comp.weight] at hw
    rw [comp_scalar_ok hv, render_scalar fuel log s (by omega)]; simp [Spec.jsonC]
  · intro m nn path v fuel hv _ _ _; simp [Spec.comp] at hv
  · intro inn path i fuel vs hv _ _ _
    simp only [Spec.items, Option.some.injEq] at hv; subst hv; simp [Spec.jsonL]
  · -- items cons
    intro c rest ih1 ih2 inn path i fuel vs hv hw hW hC
    simp only [Comp.weightL] at hw
    simp only [Spec.items] at hv
    cases hcaught : Out.caught inn (Spec.comp inn c (path ++ [.idx i])) with
    | fail => rw [hcaught] at hv; simp at hv
    | ok u =>
      cases hrest : Spec.items inn rest path (i + 1) with
      | none => rw [hcaught, hrest] at hv; simp at hv
      | some us =>
        rw [hcaught, hrest] at hv; simp only [Option.some.injEq] at hv; subst hv
        have hWc : ∀ w ∈ Spec.writesC c (path ++ [.idx i]), w ∈ W :=
          fun w h => hW w ((mem_writesL_cons _ _ _ _ _).mpr (Or.inl h))
        have hWr : ∀ w ∈ Spec.writesL rest path (i + 1), w ∈ W :=
          fun w h => hW w ((mem_writesL_cons _ _ _ _ _).mpr (Or.inr h))
        have hCc : ∀ cell ∈ Spec.cellsC inn c (path ++ [.idx i]), Covered log cell :=
          fun cell h => hC cell (by simp only [Spec.cellsL, List.mem_append]; exact Or.inl h)
        have hCr : ∀ cell ∈ Spec.cellsL inn rest path (i + 1), Covered log cell :=
          fun cell h => hC cell (by simp only [Spec.cellsL, List.mem_append]; exact Or.inr h)
        simp only [List.map_cons, Spec.jsonL]
        rw [ih2 inn path (i + 1) fuel us hrest (by omega) hWr hCr]
        congr 1
        cases hcomp : Spec.comp inn c (path ++ [.idx i]) with
        | ok u' =>
          have : u = u' := by
            rw [hcomp] at hcaught; cases inn <;> simp [Out.caught] at hcaught <;> exact hcaught.symm
          subst this
          simp only [Out.isOk, if_true]
          exact ih1 inn (path ++ [.idx i]) u fuel hcomp (by omega) hWc hCc
        | fail =>
          have : u = .null := by
            rw [hcomp] at hcaught; cases inn <;> simp [Out.caught] at hcaught; exact hcaught.symm
          subst this
          have := Comp.weight_pos c
          simp [Out.isOk, render_null fuel log (by omega)]
  · intro path i fuel _ _ _ _; simp [slotTexts, Spec.jsonF]
  · -- fields cons
    intro key nn mode rerr c rest ih1 ih2 path i fuel hok hw hW hC
    simp only [Field.weightL] at hw
    rw [fieldsOk_cons] at hok
    simp only [Bool.and_eq_true] at hok
    obtain ⟨hfok, hrok⟩ := hok
    cases hfield : Spec.field path (.mk key nn mode rerr c) with
    | fail => rw [hfield] at hfok; simp [Out.isOk] at hfok
    | ok v =>
      have hWr : ∀ w ∈ Spec.writesF rest path (i + 1), w ∈ W :=
        fun w h => hW w ((mem_writesF_cons _ _ _ _ _ _ _ _ _).mpr (Or.inr (Or.inr h)))
      have hCr : ∀ cell ∈ Spec.cellsF rest path (i + 1), Covered log cell :=
        fun cell h => hC cell ((mem_cellsF_cons _ _ _ _ _ _ _ _ _).mpr (Or.inr (Or.inr h)))
      have hown : (⟨path, i, key, v⟩ : Write) ∈ W :=
        hW _ ((mem_writesF_cons _ _ _ _ _ _ _ _ _).mpr (Or.inl ⟨v, hfield, rfl⟩))
      have hcov : Covered log (path, i) := hC _ ((mem_cellsF_cons _ _ _ _ _ _ _ _ _).mpr (Or.inl rfl))
      have hslot := slot_read log W hs hf ⟨path, i, key, v⟩ hown hcov
      simp only at hslot
      simp only [List.length_cons, slotTexts, slotText, hslot, Spec.jsonF]
      rw [ih2 path (i + 1) fuel hrok (by omega) hWr hCr]
      congr 2
      rcases field_ok_cases path key nn mode rerr c v hfield with ⟨hm, hv⟩ | ⟨hm, hr, hv⟩ | ⟨hd, hc⟩ | ⟨hd, hc, hv⟩
      · subst hm; subst hv; simp only; exact render_tname fuel log c (by omega)
      · subst hv
        cases mode <;> cases rerr <;> simp_all [render_null fuel log (by omega)]
      · have hWc : ∀ w ∈ Spec.writesC c (path ++ [.key key]), w ∈ W :=
          fun w h => hW w ((mem_writesF_cons _ _ _ _ _ _ _ _ _).mpr (Or.inr (Or.inl ⟨hd, h⟩)))
        have hCc : ∀ cell ∈ Spec.cellsC nn c (path ++ [.key key]), Covered log cell :=
          fun cell h => hC cell ((mem_cellsF_cons _ _ _ _ _ _ _ _ _).mpr (Or.inr (Or.inl ⟨hd, h⟩)))
        have := ih1 nn (path ++ [.key key]) v fuel hc (by omega) hWc hCc
        cases mode <;> cases rerr <;> simp_all [Spec.descends, Out.isOk]
      · subst hv
        cases mode <;> cases rerr <;> simp_all [Spec.descends, render_null fuel log (by omega)]

/-! ## §E whole runs -/

theorem idleRound_writes (mask : Option Nat) (S : Store) (hne : S.outstanding ≠ []) (w : Write) :
    HasWrite (idleRound mask S).log w ↔ HasWrite S.log w := by
  obtain ⟨_, _, _, _, hlog, _⟩ := idleRound_spec mask S hne
  rw [hlog, HasWrite_append]
  constructor
  · rintro (h | h)
    · exact h
    · simp [HasWrite] at h
  · exact Or.inl

theorem idleRound_covered (mask : Option Nat) (S : Store) (hne : S.outstanding ≠ []) (cell : Cell)
    (h : Covered S.log cell) : Covered (idleRound mask S).log cell := by
  obtain ⟨_, _, _, _, hlog, _⟩ := idleRound_spec mask S hne
  obtain ⟨k, v, hm⟩ := h
  exact ⟨k, v, by rw [hlog]; exact List.mem_append_left _ hm⟩

/-- `wait` keeps the log sound and, when it returns a result, has set every owed slot. -/
theorem waitLoop_data (W : List Write) (cells : List Cell) (fuel : Nat) :
    ∀ (f : Fut) (sched : List Nat) (S : Store),
      (∀ w, HasWrite S.log w → w ∈ W) → (∀ w, f.mayW w → w ∈ W) →
      (∀ cell ∈ cells, cell ∈ f.owed ∨ Covered S.log cell) →
      (∀ w, HasWrite (waitLoop fuel f sched S).2.2.log w → w ∈ W) ∧
      (∀ r, (waitLoop fuel f sched S).1 = .done r → ∀ cell ∈ cells, Covered (waitLoop fuel f sched S).2.2.log cell) := by
  induction fuel with
  | zero =>
    intro f sched S hs hmay hc
    have hsound := poll_sound_aux.1 f S
    have hcov := poll_cover_aux.1 f S
    have hm := poll_mono f S
    rcases hp : poll f S with ⟨f', S1, o⟩
    rw [hp] at hsound hcov hm
    have hs1 : ∀ w, HasWrite S1.log w → w ∈ W := fun w h => by
      rcases (hsound w).2 h with h | h
      · exact hs w h
      · exact hmay w h
    cases o with
    | none =>
      have : (waitLoop 0 f sched S) = (.outOfFuel, sched, S1) := by simp [waitLoop, hp]
      rw [this]; exact ⟨hs1, fun r h => by cases h⟩
    | some r =>
      rw [waitLoop_some 0 f f' sched S S1 r hp]
      refine ⟨hs1, fun r' _ cell hcell => ?_⟩
      have hr := poll_some_ready f S f' S1 r hp
      rcases hc cell hcell with h | h
      · rcases hcov cell h with h | h
        · simp [hr, Fut.owed] at h
        · exact h
      · exact h.mono hm
  | succ fuel ih =>
    intro f sched S hs hmay hc
    have hsound := poll_sound_aux.1 f S
    have hcov := poll_cover_aux.1 f S
    have hm := poll_mono f S
    rcases hp : poll f S with ⟨f', S1, o⟩
    rw [hp] at hsound hcov hm
    have hs1 : ∀ w, HasWrite S1.log w → w ∈ W := fun w h => by
      rcases (hsound w).2 h with h | h
      · exact hs w h
      · exact hmay w h
    have hmay1 : ∀ w, f'.mayW w → w ∈ W := fun w h => hmay w ((hsound w).1 h)
    have hc1 : ∀ cell ∈ cells, cell ∈ f'.owed ∨ Covered S1.log cell := fun cell hcell => by
      rcases hc cell hcell with h | h
      · exact hcov cell h
      · exact Or.inr (h.mono hm)
    cases o with
    | some r =>
      rw [waitLoop_some (fuel + 1) f f' sched S S1 r hp]
      refine ⟨hs1, fun r' _ cell hcell => ?_⟩
      have hr := poll_some_ready f S f' S1 r hp
      rcases hc1 cell hcell with h | h
      · simp [hr, Fut.owed] at h
      · exact h
    | none =>
      by_cases he : S1.outstanding = []
      · have : (waitLoop (fuel + 1) f sched S) = (.stuck, sched, { S1 with rounds := S1.rounds + 1 }) := by
          simp [waitLoop, hp, he]
        rw [this]; exact ⟨hs1, fun r h => by cases h⟩
      · rw [waitLoop_succ_none fuel f f' sched S S1 hp he]
        exact ih f' sched.tail (idleRound sched.head? S1)
          (fun w h => hs1 w ((idleRound_writes _ _ he w).mp h)) hmay1
          (fun cell hcell => by
            rcases hc1 cell hcell with h | h
            · exact Or.inl h
            · exact Or.inr (idleRound_covered _ _ he cell h))

/-- The data `run` reports for a returned result. -/
def dataOfRes (rq : Request) (r : Res) (log : List Entry) : String :=
  match r with
  | .ok v => render (Field.weightL rq.fields + 6) log v
  | .err _ => "null"

theorem run_data_done (rq : Request) (r : Res) (h : (execute rq).1 = .done r) :
    (run rq).data = dataOfRes rq r (execute rq).2.log := by
  unfold run
  rcases hx : execute rq with ⟨w, S⟩
  rw [hx] at h; simp only at h; subst h
  cases r <;> rfl

/-- **Data of a query.** With distinct response keys, whenever execution returns the data read
    back from the log is the reference JSON. -/
theorem query_data (rq : Request) (hq : rq.mutation = false) (hd : Field.distinctKeysL rq.fields = true)
    (r : Res) (h : (execute rq).1 = .done r) : (run rq).data = Spec.data rq := by
  have hspec := (execute_spec rq r h).1
  -- unfold the query path
  rw [run_data_done rq r h]
  cases r with
  | err e =>
    simp only [dataOfRes]
    simp only [Res.out, Spec.request] at hspec
    simp only [Spec.data]
    split at hspec
    · cases hspec
    · rename_i hok; simp [hok]
  | ok v =>
    simp only [dataOfRes]
    simp only [Res.out, Spec.request] at hspec
    have hok : Spec.fieldsOk rq.fields [] = true := by
      split at hspec
      · assumption
      · cases hspec
    simp only [hok, if_true, Out.ok.injEq] at hspec
    subst hspec
    -- the log is sound and complete
    let W := Spec.writesF rq.fields [] 0
    let cells := Spec.cellsF rq.fields [] 0
    have hfun : FunW W := (writes_fun_aux.2.1 rq.fields [] 0 hd).2
    have hlog : (∀ w, HasWrite (execute rq).2.log w → w ∈ W) ∧ (∀ cell ∈ cells, Covered (execute rq).2.log cell) := by
      unfold execute at h ⊢
      simp only [hq, Bool.false_eq_true, if_false] at h ⊢
      rcases hb : execFields rq.fields [] rq.fields.length 0 [] {} with ⟨f, S1⟩
      rw [hb] at h
      simp only at h ⊢
      have hsound := complete_sound_aux.2.1 rq.fields [] rq.fields.length 0 [] {}
      have hcover := complete_cover_aux.2.1 rq.fields [] rq.fields.length 0 [] {} (by simp [Fut.outs]) hok
      rw [hb] at hsound hcover
      have hw := waitLoop_data W cells (Field.invocationsL rq.fields + 1) f rq.sched S1
        (fun w hw => by
          rcases (hsound w).2 hw with h1 | h1
          · simp [HasWrite] at h1
          · exact h1)
        (fun w hw => by
          rcases (hsound w).1 hw with h1 | h1
          · simp [Fut.mayWL] at h1
          · exact h1)
        (fun cell hcell => hcover cell (Or.inr hcell))
      rcases hwl : waitLoop (Field.invocationsL rq.fields + 1) f rq.sched S1 with ⟨w, sched', S⟩
      rw [hwl] at h hw
      cases w with
      | done r' =>
        cases r' with
        | ok v' => simp only at h ⊢; exact ⟨hw.1, hw.2 _ rfl⟩
        | err e => simp at h
      | stuck => simp at h
      | outOfFuel => simp at h
    have hrender := (render_eq_json_aux (execute rq).2.log W hlog.1 hfun).1 (.object rq.fields) false []
      (.obj [] rq.fields.length) (Field.weightL rq.fields + 6)
      (by simp [Spec.comp, hok, Out.nonNull]) (by simp [Comp.weight]; omega)
      (by simp only [Spec.writesC]; exact fun w hw => hw)
      (by
        intro cell hcell
        simp only [Spec.cellsC, Spec.comp, hok, if_true, Out.isOk] at hcell
        exact hlog.2 cell hcell)
    simp only [hrender, Spec.jsonC, Spec.data, hok, if_true]

theorem waitLoop_result_out (fuel : Nat) : ∀ (f : Fut) (sched : List Nat) (S : Store) (r : Res),
    (waitLoop fuel f sched S).1 = .done r → r.out = f.out := by
  induction fuel with
  | zero =>
    intro f sched S r h
    have ho := poll_result_out f S
    rcases hp : poll f S with ⟨f', S1, o⟩
    rw [hp] at ho
    cases o with
    | none => rw [waitLoop_zero_none f f' sched S S1 hp] at h; cases h
    | some r' => rw [waitLoop_some 0 f f' sched S S1 r' hp] at h; cases h; exact ho r rfl
  | succ fuel ih =>
    intro f sched S r h
    have ho := poll_result_out f S
    have hf := poll_out f S
    rcases hp : poll f S with ⟨f', S1, o⟩
    rw [hp] at ho hf
    cases o with
    | some r' => rw [waitLoop_some (fuel + 1) f f' sched S S1 r' hp] at h; cases h; exact ho r rfl
    | none =>
      by_cases he : S1.outstanding = []
      · rw [waitLoop_succ_stuck fuel f f' sched S S1 hp he] at h; cases h
      · rw [waitLoop_succ_none fuel f f' sched S S1 hp he] at h
        rw [ih f' _ _ r h]; exact hf

theorem Settled.hasWrite {S S' : Store} (h : Settled S S') (w : Write) : HasWrite S'.log w ↔ HasWrite S.log w := by
  obtain ⟨l, hl, hle⟩ := h.log
  rw [hl, HasWrite_append]
  constructor
  · intro hw
    rcases hw with hw | hw
    · exact hw
    · obtain ⟨p, _, hp⟩ := hle _ hw; cases hp
  · exact Or.inl

theorem Settled.covered {S S' : Store} (h : Settled S S') {cell : Cell} (hc : Covered S.log cell) : Covered S'.log cell := by
  obtain ⟨l, hl, _⟩ := h.log
  obtain ⟨key, v, hm⟩ := hc
  exact ⟨key, v, by rw [hl]; exact List.mem_append_left _ hm⟩

/-- The serial field loop keeps the log sound and, when it returns the root object, has set every
    slot of every visible object. -/
theorem execSerial_data (W : List Write) (st : Bool) (fuel : Nat) : ∀ (fields : List Field) (n i : Nat) (sched : List Nat) (S : Store),
    (∀ w ∈ Spec.writesF fields [] i, w ∈ W) → (∀ w, HasWrite S.log w → w ∈ W) →
    (∀ w, HasWrite (execSerial st fuel fields n i sched S).2.2.log w → w ∈ W) ∧
    (∀ v, (execSerial st fuel fields n i sched S).1 = .done (.ok v) →
      ∀ cell, (cell ∈ Spec.cellsF fields [] i ∨ Covered S.log cell) →
        Covered (execSerial st fuel fields n i sched S).2.2.log cell) := by
  intro fields
  induction fields with
  | nil =>
    intro n i sched S _ hs
    simp only [execSerial]
    refine ⟨hs, fun v _ cell hc => ?_⟩
    rcases hc with h | h
    · simp [Spec.cellsF] at h
    · exact h
  | cons fld rest ih =>
    intro n i sched S hW hs
    cases fld with
    | mk key nn mode rerr c =>
      have hWr : ∀ w ∈ Spec.writesF rest [] (i + 1), w ∈ W :=
        fun w h => hW w ((mem_writesF_cons _ _ _ _ _ _ _ _ _).mpr (Or.inr (Or.inr h)))
      by_cases hm : mode = .tname
      · subst hm
        simp only [execSerial]
        have hs' : ∀ w, HasWrite (S.push (.write [] i key (tnameVal c))).log w → w ∈ W := by
          intro w h
          rcases (HasWrite_push_write _ _ _ _ _ _).mp h with h | h
          · exact hs w h
          · exact hW w ((mem_writesF_cons _ _ _ _ _ _ _ _ _).mpr (Or.inl ⟨tnameVal c, by simp [Spec.field], h⟩))
        obtain ⟨h1, h2⟩ := ih n (i + 1) sched _ hWr hs'
        refine ⟨h1, fun v hv cell hc => h2 v hv cell ?_⟩
        rcases hc with h | h
        · rcases (mem_cellsF_cons _ _ _ _ _ _ _ _ _).mp h with h | h | h
          · subst h; exact Or.inr (Covered.push_write S [] i key _)
          · simp [Spec.descends] at h
          · exact Or.inl h
        · exact Or.inr (h.mono (Mono.push _ _))
      · rcases h1 : execField nn mode rerr c [.key key] (complete nn c [.key key]) S with ⟨f0, S1⟩
        rcases h2 : catchIfNullable nn f0 S1 with ⟨f, S2⟩
        have hmono : Mono S S2 := by
          have a := execField_mono nn mode rerr c [.key key] (complete nn c [.key key]) S (fun S' => complete_mono _ _ _ _)
          have b := catchIfNullable_mono nn f0 S1
          rw [h1] at a; rw [h2] at b; exact a.trans b
        have hout : f.out = Spec.field [] (.mk key nn mode rerr c) :=
          fieldStep_out [] key nn mode rerr c S S1 S2 f0 f hm (fun S' => complete_out _ _ _ _) h1 h2
        have hfs : ∀ w, ((f.mayW w → w ∈ W) ∧ (HasWrite S2.log w → w ∈ W)) := by
          intro w
          have a := execField_sound nn mode rerr c [.key key] (complete nn c [.key key]) S w hm
            (fun S' => complete_sound_aux.1 nn c [.key key] S' w)
          rw [h1] at a
          have b1 := catchIfNullable_mayW nn f0 S1 w
          have b2 := catchIfNullable_writes nn f0 S1 w
          rw [h2] at b1 b2
          have inW : (Spec.descends mode rerr = true ∧ w ∈ Spec.writesC c ([] ++ [.key key])) → w ∈ W :=
            fun h => hW w ((mem_writesF_cons _ _ _ _ _ _ _ _ _).mpr (Or.inr (Or.inl h)))
          refine ⟨fun h => inW (a.1 (b1 h)), fun h => ?_⟩
          rcases a.2 (b2.mp h) with h | h
          · exact hs w h
          · exact inW h
        rw [execSerial_cons st fuel key nn mode rerr c rest n i sched S S1 S2 f0 f hm h1 h2]
        -- everything the wait must cover: the field's own visible slots, plus any slot given as covered
        have hwait : ∀ cell, (cell ∈ (if Spec.descends mode rerr then Spec.cellsC nn c [.key key] else []) ∨ Covered S.log cell) →
            cell ∈ f.owed ∨ Covered S2.log cell := by
          intro cell hc
          rcases hc with h | h
          · by_cases hd : Spec.descends mode rerr = true
            · simp only [hd, if_true] at h
              have a := execField_cover nn mode rerr c [.key key] (complete nn c [.key key]) S hd
                (fun S' => complete_cover_aux.1 nn c [.key key] S') cell h
              rw [h1] at a
              have b := catchIfNullable_owed nn f0 S1
              have bm := catchIfNullable_mono nn f0 S1
              rw [h2] at b bm
              rcases a with a | a
              · exact Or.inl (by rw [b]; exact a)
              · exact Or.inr (a.mono bm)
            · simp [hd] at h
          · exact Or.inr (h.mono hmono)
        obtain ⟨sched0, S3', hwl, hset, _⟩ := waitSettle_settled st fuel f sched S2
        rcases hws : waitSettle st fuel f sched S2 with ⟨w, sched', S3⟩
        rw [hws] at hwl hset
        simp only at hwl hset
        have hsound3 : ∀ w', HasWrite S3.log w' → w' ∈ W := by
          have := (waitLoop_data W [] fuel f sched S2 (fun w => (hfs w).2) (fun w => (hfs w).1) (by simp)).1
          rw [hwl] at this
          exact fun w' hw' => this w' ((hset.hasWrite w').mp hw')
        cases w with
        | done r =>
          cases r with
          | err e => simp only [serialCont]; exact ⟨hsound3, fun v hv => by cases hv⟩
          | ok v =>
            simp only [serialCont]
            have hrout := waitLoop_result_out fuel f sched S2 (.ok v) (by rw [hwl])
            simp only [Res.out] at hrout
            have hs4 : ∀ w', HasWrite (S3.push (.write [] i key v)).log w' → w' ∈ W := by
              intro w' h
              rcases (HasWrite_push_write _ _ _ _ _ _).mp h with h | h
              · exact hsound3 w' h
              · exact hW w' ((mem_writesF_cons _ _ _ _ _ _ _ _ _).mpr
                  (Or.inl ⟨v, by rw [← hout, ← hrout], h⟩))
            obtain ⟨g1, g2⟩ := ih n (i + 1) sched' _ hWr hs4
            refine ⟨g1, fun v' hv' cell hc => g2 v' hv' cell ?_⟩
            -- the slots of this field are covered after the wait
            have hcov3 : ∀ cell, (cell ∈ (if Spec.descends mode rerr then Spec.cellsC nn c [.key key] else []) ∨
                Covered S.log cell) → Covered S3.log cell := by
              intro cell hc'
              have := (waitLoop_data W [cell] fuel f sched S2 (fun w => (hfs w).2) (fun w => (hfs w).1)
                (by intro c' hc''; simp only [List.mem_singleton] at hc''; subst hc''; exact hwait _ hc')).2
              rw [hwl] at this
              exact hset.covered (this _ rfl cell (by simp))
            rcases hc with h | h
            · rcases (mem_cellsF_cons _ _ _ _ _ _ _ _ _).mp h with h | h | h
              · subst h; exact Or.inr (Covered.push_write S3 [] i key v)
              · refine Or.inr ((hcov3 cell (Or.inl ?_)).mono (Mono.push _ _))
                simp only [h.1, if_true]; simpa using h.2
              · exact Or.inl h
            · exact Or.inr ((hcov3 cell (Or.inr h)).mono (Mono.push _ _))
        | stuck => simp only [serialCont]; exact ⟨hsound3, fun v hv => by cases hv⟩
        | outOfFuel => simp only [serialCont]; exact ⟨hsound3, fun v hv => by cases hv⟩

/-- **The log of a returned query is good**: only right `Set`s, and every slot of every visible
    object set. -/
theorem query_log_good (rq : Request) (hq : rq.mutation = false) (hok : Spec.fieldsOk rq.fields [] = true)
    (v : Val) (h : (execute rq).1 = .done (.ok v)) :
    (∀ w, HasWrite (execute rq).2.log w → w ∈ Spec.writesF rq.fields [] 0) ∧
    (∀ cell ∈ Spec.cellsF rq.fields [] 0, Covered (execute rq).2.log cell) := by
  let W := Spec.writesF rq.fields [] 0
  let cells := Spec.cellsF rq.fields [] 0
  unfold execute at h ⊢
  simp only [hq, Bool.false_eq_true, if_false] at h ⊢
  rcases hb : execFields rq.fields [] rq.fields.length 0 [] {} with ⟨f, S1⟩
  rw [hb] at h
  simp only at h ⊢
  have hsound := complete_sound_aux.2.1 rq.fields [] rq.fields.length 0 [] {}
  have hcover := complete_cover_aux.2.1 rq.fields [] rq.fields.length 0 [] {} (by simp [Fut.outs]) hok
  rw [hb] at hsound hcover
  have hw := waitLoop_data W cells (Field.invocationsL rq.fields + 1) f rq.sched S1
    (fun w hw => by
      rcases (hsound w).2 hw with h1 | h1
      · simp [HasWrite] at h1
      · exact h1)
    (fun w hw => by
      rcases (hsound w).1 hw with h1 | h1
      · simp [Fut.mayWL] at h1
      · exact h1)
    (fun cell hcell => hcover cell (Or.inr hcell))
  rcases hwl : waitLoop (Field.invocationsL rq.fields + 1) f rq.sched S1 with ⟨w, sched', S⟩
  rw [hwl] at h hw
  cases w with
  | done r' =>
    cases r' with
    | ok v' => simp only at h ⊢; exact ⟨hw.1, hw.2 _ rfl⟩
    | err e => simp at h
  | stuck => simp at h
  | outOfFuel => simp at h

theorem mutation_log_good (rq : Request) (hq : rq.mutation = true)
    (v : Val) (h : (execute rq).1 = .done (.ok v)) :
    (∀ w, HasWrite (execute rq).2.log w → w ∈ Spec.writesF rq.fields [] 0) ∧
    (∀ cell ∈ Spec.cellsF rq.fields [] 0, Covered (execute rq).2.log cell) := by
  let W := Spec.writesF rq.fields [] 0
  unfold execute at h ⊢
  simp only [hq, if_true] at h ⊢
  have hdata := execSerial_data W rq.settle (Field.invocationsL rq.fields + 1) rq.fields rq.fields.length 0 rq.sched {}
    (fun w hw => hw) (fun w hw => by simp [HasWrite] at hw)
  rcases hx : execSerial rq.settle (Field.invocationsL rq.fields + 1) rq.fields rq.fields.length 0 rq.sched {} with ⟨w, s', S⟩
  rw [hx] at h hdata
  cases w with
  | done r' =>
    cases r' with
    | ok v' => simp only at h ⊢; exact ⟨hdata.1, fun cell hc => hdata.2 v' rfl cell (Or.inl hc)⟩
    | err e => simp at h
  | stuck => simp at h
  | outOfFuel => simp at h

/-- **no_blank_key, at slot level.** When execution returns data, every slot of every object
    visible in the data has been set, and reads back as a right `Set` — one that carries the
    response key of the field at that position and its reference value (`Spec.writesF`). No slot is
    left as the zero item `("", null)`. -/
theorem visible_slots_read_back (rq : Request) (v : Val) (h : (execute rq).1 = .done (.ok v)) :
    ∀ cell ∈ Spec.cellsF rq.fields [] 0, ∃ key val,
      slotOf cell.1 cell.2 (execute rq).2.log = some (key, val) ∧
      (⟨cell.1, cell.2, key, val⟩ : Write) ∈ Spec.writesF rq.fields [] 0 := by
  have hspec := (execute_spec rq (.ok v) h).1
  simp only [Res.out, Spec.request] at hspec
  have hok : Spec.fieldsOk rq.fields [] = true := by
    split at hspec
    · assumption
    · cases hspec
  have hgood : (∀ w, HasWrite (execute rq).2.log w → w ∈ Spec.writesF rq.fields [] 0) ∧
      (∀ cell ∈ Spec.cellsF rq.fields [] 0, Covered (execute rq).2.log cell) := by
    cases hq : rq.mutation
    · exact query_log_good rq hq hok v h
    · exact mutation_log_good rq hq v h
  intro cell hcell
  obtain ⟨k, u, hm⟩ := hgood.2 cell hcell
  have hsome := slotOf_isSome cell.1 cell.2 _ k u hm
  cases hr : slotOf cell.1 cell.2 (execute rq).2.log with
  | none => rw [hr] at hsome; simp at hsome
  | some kv =>
    obtain ⟨k', u'⟩ := kv
    exact ⟨k', u', rfl, hgood.1 ⟨cell.1, cell.2, k', u'⟩ (slotOf_mem _ _ _ _ _ hr)⟩

/-- Every right `Set` of a selection set carries one of its response keys … -/
theorem writesF_key_aux :
    (∀ c : Comp, ∀ path, ∀ w ∈ Spec.writesC c path, w.key ∈ Comp.allKeys c) ∧
    (∀ fs : List Field, ∀ path i, ∀ w ∈ Spec.writesF fs path i, w.key ∈ Field.allKeysL fs) ∧
    (∀ cs : List Comp, ∀ path i, ∀ w ∈ Spec.writesL cs path i, w.key ∈ Comp.allKeysL cs) := by
  apply Comp.allSync.mutual_induct
    (motive_1 := fun c => ∀ path, ∀ w ∈ Spec.writesC c path, w.key ∈ Comp.allKeys c)
    (motive_2 := fun fs => ∀ path i, ∀ w ∈ Spec.writesF fs path i, w.key ∈ Field.allKeysL fs)
    (motive_3 := fun cs => ∀ path i, ∀ w ∈ Spec.writesL cs path i, w.key ∈ Comp.allKeysL cs)
  · intro inn cs ih path w hw; simp only [Spec.writesC] at hw; simp only [Comp.allKeys]; exact ih path 0 w hw
  · intro fs ih path w hw; simp only [Spec.writesC] at hw; simp only [Comp.allKeys]; exact ih path 0 w hw
  · intro path w hw; simp [Spec.writesC] at hw
  · intro s path w hw; simp [Spec.writesC] at hw
  · intro m path w hw; simp [Spec.writesC] at hw
  · intro path i w hw; simp [Spec.writesL] at hw
  · intro c rest ih1 ih2 path i w hw
    simp only [Comp.allKeysL, List.mem_append]
    rcases (mem_writesL_cons _ _ _ _ _).mp hw with h | h
    · exact Or.inl (ih1 _ w h)
    · exact Or.inr (ih2 path (i + 1) w h)
  · intro path i w hw; simp [Spec.writesF] at hw
  · intro key nn mode rerr c rest ih1 ih2 path i w hw
    simp only [Field.allKeysL, List.mem_cons, List.mem_append]
    rcases (mem_writesF_cons _ _ _ _ _ _ _ _ _).mp hw with ⟨v, _, rfl⟩ | ⟨_, h⟩ | h
    · exact Or.inl rfl
    · exact Or.inr (Or.inl (ih1 _ w h))
    · exact Or.inr (Or.inr (ih2 path (i + 1) w h))

/-- **Data of a mutation.** -/
theorem mutation_data (rq : Request) (hq : rq.mutation = true) (hd : Field.distinctKeysL rq.fields = true)
    (r : Res) (h : (execute rq).1 = .done r) : (run rq).data = Spec.data rq := by
  have hspec := (execute_spec rq r h).1
  rw [run_data_done rq r h]
  cases r with
  | err e =>
    simp only [dataOfRes]
    simp only [Res.out, Spec.request] at hspec
    simp only [Spec.data]
    split at hspec
    · cases hspec
    · rename_i hok; simp [hok]
  | ok v =>
    simp only [dataOfRes]
    simp only [Res.out, Spec.request] at hspec
    have hok : Spec.fieldsOk rq.fields [] = true := by
      split at hspec
      · assumption
      · cases hspec
    simp only [hok, if_true, Out.ok.injEq] at hspec
    subst hspec
    let W := Spec.writesF rq.fields [] 0
    have hfun : FunW W := (writes_fun_aux.2.1 rq.fields [] 0 hd).2
    have hlog : (∀ w, HasWrite (execute rq).2.log w → w ∈ W) ∧
        (∀ cell ∈ Spec.cellsF rq.fields [] 0, Covered (execute rq).2.log cell) := by
      unfold execute at h ⊢
      simp only [hq, if_true] at h ⊢
      have hdata := execSerial_data W rq.settle (Field.invocationsL rq.fields + 1) rq.fields rq.fields.length 0 rq.sched {}
        (fun w hw => hw) (fun w hw => by simp [HasWrite] at hw)
      rcases hx : execSerial rq.settle (Field.invocationsL rq.fields + 1) rq.fields rq.fields.length 0 rq.sched {} with ⟨w, s', S⟩
      rw [hx] at h hdata
      cases w with
      | done r' =>
        cases r' with
        | ok v' => simp only at h ⊢; exact ⟨hdata.1, fun cell hc => hdata.2 v' rfl cell (Or.inl hc)⟩
        | err e => simp at h
      | stuck => simp at h
      | outOfFuel => simp at h
    have hrender := (render_eq_json_aux (execute rq).2.log W hlog.1 hfun).1 (.object rq.fields) false []
      (.obj [] rq.fields.length) (Field.weightL rq.fields + 6)
      (by simp [Spec.comp, hok]) (by simp [Comp.weight]; omega)
      (by simp only [Spec.writesC]; exact fun w hw => hw)
      (by
        intro cell hcell
        simp only [Spec.cellsC, Spec.comp, hok, if_true, Out.isOk] at hcell
        exact hlog.2 cell hcell)
    simp only [hrender, Spec.jsonC, Spec.data, hok, if_true]

/-- **Data of any request.** -/
theorem request_data (rq : Request) (hd : Field.distinctKeysL rq.fields = true)
    (r : Res) (h : (execute rq).1 = .done r) : (run rq).data = Spec.data rq := by
  cases hq : rq.mutation
  · exact query_data rq hq hd r h
  · exact mutation_data rq hq hd r h

/-- The reference data does not depend on modes. -/
theorem spec_data_allSync_aux :
    (∀ c : Comp, ∀ path, Spec.jsonC c.allSync path = Spec.jsonC c path) ∧
    (∀ fs : List Field, ∀ path, Spec.jsonF (Field.allSyncL fs) path = Spec.jsonF fs path) ∧
    (∀ cs : List Comp, ∀ inn path i, Spec.jsonL inn (Comp.allSyncL cs) path i = Spec.jsonL inn cs path i) := by
  apply Comp.allSync.mutual_induct
    (motive_1 := fun c => ∀ path, Spec.jsonC c.allSync path = Spec.jsonC c path)
    (motive_2 := fun fs => ∀ path, Spec.jsonF (Field.allSyncL fs) path = Spec.jsonF fs path)
    (motive_3 := fun cs => ∀ inn path i, Spec.jsonL inn (Comp.allSyncL cs) path i = Spec.jsonL inn cs path i)
  · intro inn cs ih path; simp [Comp.allSync, Spec.jsonC, ih]
  · intro fs ih path; simp [Comp.allSync, Spec.jsonC, ih]
  · intro path; simp [Comp.allSync]
  · intro s path; simp [Comp.allSync]
  · intro m path; simp [Comp.allSync]
  · intro inn path i; simp [Comp.allSyncL]
  · intro c rest ih1 ih2 inn path i
    simp [Comp.allSyncL, Spec.jsonL, ih1, ih2, spec_allSync_aux.1]
  · intro path; simp [Field.allSyncL]
  · intro key nn mode rerr c rest ih1 ih2 path
    cases mode <;> simp [Field.allSyncL, Spec.jsonF, Mode.toSync, ih1, ih2, spec_allSync_aux.1] <;>
      cases c <;> simp [tnameVal, Comp.allSync]

theorem spec_data_allSync (rq : Request) (sched : List Nat) : Spec.data (rq.allSync sched) = Spec.data rq := by
  simp [Spec.data, Request.allSync, spec_allSync_aux.2.1, spec_data_allSync_aux.2.1]

theorem distinctKeys_allSync_aux :
    (∀ c : Comp, c.allSync.distinctKeys = c.distinctKeys) ∧
    (∀ fs : List Field, Field.distinctKeysL (Field.allSyncL fs) = Field.distinctKeysL fs ∧
      Field.keysL (Field.allSyncL fs) = Field.keysL fs) ∧
    (∀ cs : List Comp, Comp.distinctKeysL (Comp.allSyncL cs) = Comp.distinctKeysL cs) := by
  apply Comp.allSync.mutual_induct
    (motive_1 := fun c => c.allSync.distinctKeys = c.distinctKeys)
    (motive_2 := fun fs => Field.distinctKeysL (Field.allSyncL fs) = Field.distinctKeysL fs ∧
      Field.keysL (Field.allSyncL fs) = Field.keysL fs)
    (motive_3 := fun cs => Comp.distinctKeysL (Comp.allSyncL cs) = Comp.distinctKeysL cs)
  · intro inn cs ih; simp [Comp.allSync, Comp.distinctKeys, ih]
  · intro fs ih; simp [Comp.allSync, Comp.distinctKeys, ih.1]
  · simp [Comp.allSync]
  · intro s; simp [Comp.allSync]
  · intro m; simp [Comp.allSync]
  · simp [Comp.allSyncL]
  · intro c rest ih1 ih2; simp [Comp.allSyncL, Comp.distinctKeysL, ih1, ih2]
  · simp [Field.allSyncL]
  · intro key nn mode rerr c rest ih1 ih2
    simp [Field.allSyncL, Field.distinctKeysL, Field.keysL, ih1, ih2.1, ih2.2]

end ApiFu.C02
