/-
  C02 — the response is independent of sync/async resolution and promise order, with
  `collectFields` fully instantiated (ApiFu/C02/CollectInst.lean): directive arguments evaluated from
  literals and variables, type conditions checked against the object / interface / union relations
  of the schema, fragments looked up by name. `Request.ofDocC d` is the plan the executor model runs
  for the document `d` as written; the theorems of ApiFu/C02/Props.lean that needed distinct response
  keys hold for it without hypothesis, for every document, every variable assignment, every set of
  fragment definitions (cyclic ones included: `visitedFragments`), every schema relation, every
  resolver outcome, every async subset and every schedule.
-/
import ApiFu.C02.Props
import ApiFu.C02.CollectInst

namespace ApiFu.C02

/-- **collectedC_keys_distinct.** The response keys `collectFields(objectType, selections)` yields
    are pairwise distinct, whatever the directives, variables, type conditions and fragments. -/
theorem collectedC_keys_distinct (env : Env) (ty : String) (ss : List CSel) : (collectC env ty ss).keys.Nodup :=
  collectC_keys_nodup env ty ss

/-- **docC_plan_distinct_keys.** Every selection set of the plan of a concrete document, at every
    depth, has pairwise distinct response keys. -/
theorem docC_plan_distinct_keys (d : DocC) : Field.distinctKeysL (Request.ofDocC d).fields = true :=
  ofDocC_distinctKeys d

/-- **docC_response_data_independent.** For every concrete document, every async subset, every
    schedule and every schedule of the all-synchronous counterpart, the data of both runs is the
    reference JSON of the document's plan. -/
theorem docC_response_data_independent (d : DocC) (sched' : List Nat) :
    (run (Request.ofDocC d)).data = Spec.data (Request.ofDocC d) ∧
    (run ((Request.ofDocC d).allSync sched')).data = Spec.data (Request.ofDocC d) :=
  response_data_independent (Request.ofDocC d) sched' (ofDocC_distinctKeys d)

/-- **docC_async_eq_sync.** `async_eq_sync` instantiated: the run of a concrete document under an
    arbitrary async subset and schedule and its all-synchronous run yield the same data. -/
theorem docC_async_eq_sync (d : DocC) (sched' : List Nat) :
    (run (Request.ofDocC d)).data = (run ((Request.ofDocC d).allSync sched')).data := by
  obtain ⟨h1, h2⟩ := docC_response_data_independent d sched'
  rw [h1, h2]

/-- **docC_no_duplicate_error.** No (path, message) twice in the error list. -/
theorem docC_no_duplicate_error (d : DocC) : (run (Request.ofDocC d)).errors.Nodup :=
  no_duplicate_error (Request.ofDocC d) (ofDocC_distinctKeys d)

/-- **docC_required_errors_eq.** Every required error occurs exactly once in the response and in
    the all-synchronous response. -/
theorem docC_required_errors_eq (d : DocC) (sched' : List Nat) :
    ∀ e ∈ Spec.required (Request.ofDocC d), (run (Request.ofDocC d)).errors.count e = 1 ∧
      (run ((Request.ofDocC d).allSync sched')).errors.count e = 1 :=
  (required_errors_eq (Request.ofDocC d) sched' (ofDocC_distinctKeys d)).2

/-! ### what the instantiated parameters compute -/

/-- **directive_semantics.** `@skip(if: b)` filters the selection out iff `b`, `@include(if: b)` iff
    not `b`; with a variable the coerced value of the variable decides; a variable without a value
    (null at `Boolean!`) filters the selection out under either directive; other directives never do. -/
theorem directive_semantics (env : Env) (b : Bool) (v name : String) :
    dirSkips env ⟨"skip", .lit b⟩ = b ∧ dirSkips env ⟨"include", .lit b⟩ = !b ∧
    (lookupVar v env.vars = some b → dirSkips env ⟨"skip", .var v⟩ = b ∧ dirSkips env ⟨"include", .var v⟩ = !b) ∧
    (lookupVar v env.vars = none → dirSkips env ⟨"skip", .var v⟩ = true ∧ dirSkips env ⟨"include", .var v⟩ = true) ∧
    (name ≠ "skip" → name ≠ "include" → ∀ a, dirSkips env ⟨name, a⟩ = false) := by
  refine ⟨by simp [dirSkips, evalArg], by simp [dirSkips, evalArg], fun h => ?_, fun h => ?_, fun h1 h2 a => ?_⟩
  · simp [dirSkips, evalArg, h]
  · simp [dirSkips, evalArg, h]
  · simp [dirSkips, h1, h2]

/-- **type_condition_semantics.** A condition on an object type applies to that type only; on an
    interface, to the object types that list it among their implemented interfaces; on a union, to
    its members; an unknown type name applies to nothing. -/
theorem type_condition_semantics (env : Env) (objT cond : String) (ifs ms : List String) :
    (lookupType cond env.types = none → typeApplies env objT cond = false) ∧
    (lookupType cond env.types = some (.object ifs) → typeApplies env objT cond = (cond == objT)) ∧
    (lookupType cond env.types = some .iface → lookupType objT env.types = some (.object ifs) →
      typeApplies env objT cond = ifs.contains cond) ∧
    (lookupType cond env.types = some (.union ms) → typeApplies env objT cond = ms.contains objT) := by
  refine ⟨fun h => ?_, fun h => ?_, fun h h' => ?_, fun h => ?_⟩ <;> simp [typeApplies, h]
  simp [h']

/-- **skipped_selection_collects_nothing.** A selection one of whose directives filters it out
    leaves the grouped field set *and the visited fragments* as they are — in particular a skipped
    spread does not mark its fragment visited, so a later spread of the same fragment still collects. -/
theorem skipped_selection_collects_nothing (env : Env) (ty : String) (fuel : Nat) (dirs : List Dir)
    (h : skipped env dirs = true) (key name frag : String) (sub body : List CSel) (cond : Option String)
    (vis : List String) (g : GroupedC) :
    collectSelC env ty (fuel + 1) (.field key name dirs sub) vis g = (vis, g) ∧
    collectSelC env ty (fuel + 1) (.inline dirs cond body) vis g = (vis, g) ∧
    collectSelC env ty (fuel + 1) (.spread dirs frag) vis g = (vis, g) := by
  simp [collectSelC, h]

/-- **fragment_spread_semantics.** A spread that is not filtered out: of a visited fragment it
    collects nothing; of an unknown fragment, or of one whose type condition does not apply, it
    collects nothing but marks the fragment visited; otherwise it collects the fragment's body with
    the fragment marked visited. -/
theorem fragment_spread_semantics (env : Env) (ty : String) (fuel : Nat) (dirs : List Dir)
    (h : skipped env dirs = false) (frag : String) (vis : List String) (g : GroupedC) (fd : FragDef) :
    (vis.contains frag = true → collectSelC env ty (fuel + 1) (.spread dirs frag) vis g = (vis, g)) ∧
    (vis.contains frag = false → lookupFrag frag env.frags = none →
      collectSelC env ty (fuel + 1) (.spread dirs frag) vis g = (frag :: vis, g)) ∧
    (vis.contains frag = false → lookupFrag frag env.frags = some fd → typeApplies env ty fd.cond = false →
      collectSelC env ty (fuel + 1) (.spread dirs frag) vis g = (frag :: vis, g)) ∧
    (vis.contains frag = false → lookupFrag frag env.frags = some fd → typeApplies env ty fd.cond = true →
      collectSelC env ty (fuel + 1) (.spread dirs frag) vis g = collectLC env ty fuel fd.body (frag :: vis) g) := by
  refine ⟨fun h1 => ?_, fun h1 h2 => ?_, fun h1 h2 h3 => ?_, fun h1 h2 h3 => ?_⟩
  · simp only [collectSelC, h, h1, Bool.false_eq_true, if_false, if_true]
  · simp only [collectSelC, h, h1, h2, Bool.false_eq_true, if_false]
  · simp only [collectSelC, h, h1, h2, h3, Bool.false_eq_true, if_false]
  · simp only [collectSelC, h, h1, h2, h3, Bool.false_eq_true, if_false, if_true]

/-- **collectedC_fuel_independent.** The fuel argument of the model's `collectFields` only bounds the
    recursion: if the collection with `fuel` did not leave the out-of-fuel marker, every larger
    amount of fuel yields the same visited set and the same grouped field set — what is collected is
    then a function of document, variables, fragments and type relations alone, as in the Go code
    (whose recursion ends by `visitedFragments`). -/
theorem collectedC_fuel_independent (env : Env) (ty : String) (fuel : Nat) (ss : List CSel) (vis : List String)
    (g : GroupedC) (h : fuelKey ∉ (collectLC env ty fuel ss vis g).2.keys) (more : Nat) :
    collectLC env ty (fuel + more) ss vis g = collectLC env ty fuel ss vis g :=
  collectC_fuel_mono env ty fuel ss vis g h more

/-! ### non-vacuity: a fragment on an interface, spread twice — first under `@skip(if: $v)` with
    `$v = true` (does not count as a visit), then plainly — on an object type that implements the
    interface; a second fragment on another object type does not apply. -/

def exampleEnv : Env :=
  { vars := [("v", some true)],
    frags := [⟨"F", "I0", [.field "a" "a" [] [], .spread [] "F"]⟩, ⟨"G", "X0", [.field "b" "b" [] []]⟩],
    types := [("T0", .object ["I0"]), ("X0", .object ["I0"]), ("I0", .iface)],
    fuel := 10 }

example : (collectC exampleEnv "T0"
    [.spread [⟨"skip", .var "v"⟩] "F", .spread [] "G", .spread [⟨"include", .var "v"⟩] "F",
     .inline [] (some "T0") [.field "a" "a" [] [], .field "c" "c" [⟨"include", .var "w"⟩] []]]).keys = ["a"] := by
  simp [collectC, collectLC, collectSelC, exampleEnv, skipped, dirSkips, evalArg, lookupVar, lookupFrag, typeApplies,
    lookupType, GroupedC.add, GroupedC.keys]

/-- Running out of fuel is visible: with two units of fuel the nested selection below cannot be
    collected and the marker key appears instead of a silently shorter field set. -/
example : (collectC { exampleEnv with fuel := 2 } "T0" [.inline [] none [.inline [] none [.field "a" "a" [] []]]]).keys
    = [fuelKey] := by
  simp [collectC, collectLC, collectSelC, exampleEnv, skipped, GroupedC.add, GroupedC.keys]

/-! One selection set, two concrete types (the class of seed C02-22): typed fragments inside an
    inline fragment without type condition collect differently for a `Square` and for a `Blob`, and
    `WComp.planC` collects per value — a list `[Square, Blob]` under one selection set gets two plans. -/

def shapesEnv : Env :=
  { vars := [], frags := [],
    types := [("Square", .object ["Shape"]), ("Blob", .object ["Shape"]), ("Shape", .iface),
              ("Thing", .union ["Square", "Blob"])],
    fuel := 10 }

def nestedSel : List CSel :=
  [.field "__typename" "__typename" [] [],
   .inline [] none [.inline [] (some "Square") [.field "name" "name" [] [], .field "side" "side" [] []],
                    .inline [] (some "Blob") [.field "name" "name" [] [], .field "mass" "mass" [] []]]]

example : (collectC shapesEnv "Square" nestedSel).keys = ["__typename", "name", "side"] ∧
    (collectC shapesEnv "Blob" nestedSel).keys = ["__typename", "name", "mass"] := by
  simp [collectC, collectLC, collectSelC, shapesEnv, nestedSel, skipped, typeApplies, lookupType, GroupedC.add,
    GroupedC.keys]

end ApiFu.C02
