/-
  C02 termination lemmas (core Lean only): `wait` is never stuck and never runs out of fuel.

  §A  the promises a future is waiting on (`Fut.waits`) are pairwise distinct, were created
      (`< nextId`), and each either holds its message or is still outstanding (`GoodIds`);
      builders and `poll` preserve this, and a poll that reports no result leaves something
      outstanding.
  §B  promises created so far + promises the unbuilt continuations may still create never exceed
      the number of field invocations of the request (`Fut.potential`).
  §C  `waitLoop` returns `done`.
-/
import ApiFu.C02.Lemmas

namespace ApiFu.C02

/-! ## §A what a future is waiting on -/

mutual
  /-- Channel ids of the promise nodes `poll` may still receive from. -/
  def Fut.waits : Fut → List Nat
    | .ready _ => []
    | .promise id _ => [id]
    | .map _ g => g.waits
    | .mapOk _ g => g.waits
    | .mapOkToAny g => g.waits
    | .mapOkValue _ g => g.waits
    | .thenK _ _ _ g none => g.waits
    | .thenK _ _ _ _ (some t) => t.waits
    | .thenT _ _ _ g none => g.waits
    | .thenT _ _ _ _ (some t) => t.waits
    | .join gs => Fut.waitsL gs
    | .after gs => Fut.waitsL gs
  def Fut.waitsL : List Fut → List Nat
    | [] => []
    | g :: gs => g.waits ++ Fut.waitsL gs
end

mutual
  /-- No scripted continuation (`thenT` is for the combinator-level tests: its promises are
      fulfilled by the script, not by the idle handler). -/
  def Fut.noT : Fut → Bool
    | .ready _ => true
    | .promise _ _ => true
    | .map _ g => g.noT
    | .mapOk _ g => g.noT
    | .mapOkToAny g => g.noT
    | .mapOkValue _ g => g.noT
    | .thenK _ _ _ g none => g.noT
    | .thenK _ _ _ g (some t) => g.noT && t.noT
    | .thenT _ _ _ _ _ => false
    | .join gs => Fut.noTL gs
    | .after gs => Fut.noTL gs
  def Fut.noTL : List Fut → Bool
    | [] => true
    | g :: gs => g.noT && Fut.noTL gs
end

def outIds (S : Store) : List Nat := S.outstanding.map (·.1)

/-- The ids in `L` are distinct, created, and each holds its message or is outstanding. -/
def GoodIds (L : List Nat) (S : Store) : Prop :=
  L.Nodup ∧ ∀ id ∈ L, id < S.nextId ∧ (id ∈ S.chan ∨ id ∈ outIds S)

theorem GoodIds.sublist {L L' : List Nat} {S : Store} (h : GoodIds L S) (hs : L'.Sublist L) : GoodIds L' S :=
  ⟨List.Nodup.sublist hs h.1, fun id hid => h.2 id (hs.subset hid)⟩

theorem GoodIds.perm {L L' : List Nat} {S : Store} (h : GoodIds L S) (hp : L.Perm L') : GoodIds L' S :=
  ⟨hp.nodup_iff.mp h.1, fun id hid => h.2 id (hp.mem_iff.mpr hid)⟩

/-- Same channels, same outstanding promises, same counter. -/
def SameIds (S S' : Store) : Prop := S'.chan = S.chan ∧ S'.outstanding = S.outstanding ∧ S'.nextId = S.nextId

theorem SameIds.refl (S : Store) : SameIds S S := ⟨rfl, rfl, rfl⟩

theorem SameIds.trans {A B C : Store} (h1 : SameIds A B) (h2 : SameIds B C) : SameIds A C :=
  ⟨by rw [h2.1, h1.1], by rw [h2.2.1, h1.2.1], by rw [h2.2.2, h1.2.2]⟩

theorem SameIds.push (S : Store) (e : Entry) : SameIds S (S.push e) := ⟨rfl, rfl, rfl⟩

theorem GoodIds.same {L : List Nat} {S S' : Store} (h : GoodIds L S) (hs : SameIds S S') : GoodIds L S' := by
  obtain ⟨h1, h2, h3⟩ := hs
  refine ⟨h.1, fun id hid => ?_⟩
  have := h.2 id hid
  simp only [outIds, h1, h2, h3] at this ⊢
  exact this

theorem applyMap_same (fn : MapFn) (r : Res) (S : Store) : SameIds S (applyMap fn r S).2 := by
  cases fn <;> cases r <;> simp only [applyMap] <;> (try split) <;>
    first | exact SameIds.refl _ | exact SameIds.push _ _

theorem applyOk_same (fn : OkFn) (v : Val) (S : Store) : SameIds S (applyOk fn v S).2 := by
  cases fn; exact SameIds.push _ _

theorem mkMap_same (fn : MapFn) (f : Fut) (S : Store) : SameIds S (mkMap fn f S).2 := by
  cases f <;> simp only [mkMap] <;> first | exact applyMap_same _ _ _ | exact SameIds.refl _

theorem nonNullWrap_same (nn : Bool) (path : Path) (f : Fut) (S : Store) : SameIds S (nonNullWrap nn path f S).2 := by
  unfold nonNullWrap; cases nn <;> simp <;> first | exact SameIds.refl _ | exact mkMap_same _ _ _

theorem catchIfNullable_same (nn : Bool) (f : Fut) (S : Store) : SameIds S (catchIfNullable nn f S).2 := by
  unfold catchIfNullable; cases nn <;> simp <;> first | exact SameIds.refl _ | exact mkMap_same _ _ _

/-! ### constructors: what they wait on, and `noT` -/

theorem mkMap_waits (fn : MapFn) (f : Fut) (S : Store) : (mkMap fn f S).1.waits = f.waits := by
  cases f <;> simp [mkMap, Fut.waits]

theorem mkMapOkToAny_waits (f : Fut) : (mkMapOkToAny f).waits = f.waits := by
  cases f <;> simp [mkMapOkToAny, Fut.waits]

theorem mkMapOkValue_waits (v : Val) (f : Fut) : (mkMapOkValue v f).waits = f.waits := by
  cases f with
  | ready r => cases r <;> simp [mkMapOkValue, Fut.waits]
  | _ => simp [mkMapOkValue, Fut.waits]

theorem nonNullWrap_waits (nn : Bool) (path : Path) (f : Fut) (S : Store) :
    (nonNullWrap nn path f S).1.waits = f.waits := by
  unfold nonNullWrap; cases nn <;> simp [mkMap_waits]

theorem catchIfNullable_waits (nn : Bool) (f : Fut) (S : Store) : (catchIfNullable nn f S).1.waits = f.waits := by
  unfold catchIfNullable; cases nn <;> simp [mkMap_waits]

theorem mkJoin_waits (fs : List Fut) : (mkJoin fs).waits.Sublist (Fut.waitsL fs) := by
  unfold mkJoin; split <;> simp [Fut.waits]

theorem mkAfter_waits (fs : List Fut) : (mkAfter fs).waits.Sublist (Fut.waitsL fs) := by
  unfold mkAfter; split <;> simp [Fut.waits]

theorem mkMap_noT (fn : MapFn) (f : Fut) (S : Store) (h : f.noT = true) : (mkMap fn f S).1.noT = true := by
  cases f <;> simp_all [mkMap, Fut.noT]

theorem mkMapOkToAny_noT (f : Fut) (h : f.noT = true) : (mkMapOkToAny f).noT = true := by
  cases f <;> simp_all [mkMapOkToAny, Fut.noT]

theorem mkMapOkValue_noT (v : Val) (f : Fut) (h : f.noT = true) : (mkMapOkValue v f).noT = true := by
  cases f with
  | ready r => cases r <;> simp [mkMapOkValue, Fut.noT]
  | _ => simp_all [mkMapOkValue, Fut.noT]

theorem mkJoin_noT (fs : List Fut) (h : Fut.noTL fs = true) : (mkJoin fs).noT = true := by
  unfold mkJoin; split <;> simp_all [Fut.noT]

theorem mkAfter_noT (fs : List Fut) (h : Fut.noTL fs = true) : (mkAfter fs).noT = true := by
  unfold mkAfter; split <;> simp_all [Fut.noT]

theorem nonNullWrap_noT (nn : Bool) (path : Path) (f : Fut) (S : Store) (h : f.noT = true) :
    (nonNullWrap nn path f S).1.noT = true := by
  unfold nonNullWrap; cases nn <;> simp <;> first | exact h | exact mkMap_noT _ _ _ h

theorem catchIfNullable_noT (nn : Bool) (f : Fut) (S : Store) (h : f.noT = true) :
    (catchIfNullable nn f S).1.noT = true := by
  unfold catchIfNullable; cases nn <;> simp <;> first | exact h | exact mkMap_noT _ _ _ h

theorem waitsL_append_one (acc : List Fut) (g : Fut) : Fut.waitsL (acc ++ [g]) = Fut.waitsL acc ++ g.waits := by
  induction acc with
  | nil => simp [Fut.waitsL]
  | cons a acc ih => simp [Fut.waitsL, ih]

theorem noTL_append_one (acc : List Fut) (g : Fut) : Fut.noTL (acc ++ [g]) = (Fut.noTL acc && g.noT) := by
  induction acc with
  | nil => simp [Fut.noTL]
  | cons a acc ih => simp [Fut.noTL, ih, Bool.and_assoc]

end ApiFu.C02
