/-
  C02 termination lemmas (core Lean only): `wait` is never stuck and never runs out of fuel.

  §A  the promises a future is waiting on (`Fut.waits`) are pairwise distinct, were created
      (`< nextId`), and each either holds its message or is still outstanding (`GoodIds`);
      builders and `poll` preserve this, and a poll that reports no result leaves something
      outstanding.
  §B  promises created so far + promises the unbuilt continuations may still create never exceed
      the number of field invocations of the request (`Fut.potential`).
  §C  `waitLoop` returns `done`.
-/
import ApiFu.C02.Lemmas

namespace ApiFu.C02

/-! ## §A what a future is waiting on -/

mutual
  /-- Channel ids of the promise nodes `poll` may still receive from. -/
  def Fut.waits : Fut → List Nat
    | .ready _ => []
    | .promise id _ => [id]
    | .map _ g => g.waits
    | .mapOk _ g => g.waits
    | .mapOkToAny g => g.waits
    | .mapOkValue _ g => g.waits
    | .thenK _ _ _ g none => g.waits
    | .thenK _ _ _ _ (some t) => t.waits
    | .thenT _ _ _ g none => g.waits
    | .thenT _ _ _ _ (some t) => t.waits
    | .join gs => Fut.waitsL gs
    | .after gs => Fut.waitsL gs
  def Fut.waitsL : List Fut → List Nat
    | [] => []
    | g :: gs => g.waits ++ Fut.waitsL gs
end

mutual
  /-- No scripted continuation (`thenT` is for the combinator-level tests: its promises are
      fulfilled by the script, not by the idle handler). -/
  def Fut.noT : Fut → Bool
    | .ready _ => true
    | .promise _ _ => true
    | .map _ g => g.noT
    | .mapOk _ g => g.noT
    | .mapOkToAny g => g.noT
    | .mapOkValue _ g => g.noT
    | .thenK _ _ _ g none => g.noT
    | .thenK _ _ _ g (some t) => g.noT && t.noT
    | .thenT _ _ _ _ _ => false
    | .join gs => Fut.noTL gs
    | .after gs => Fut.noTL gs
  def Fut.noTL : List Fut → Bool
    | [] => true
    | g :: gs => g.noT && Fut.noTL gs
end

def outIds (S : Store) : List Nat := S.outstanding.map (·.1)

/-- The ids in `L` are distinct, created, and each holds its message or is outstanding. -/
def GoodIds (L : List Nat) (S : Store) : Prop :=
  L.Nodup ∧ ∀ id ∈ L, id < S.nextId ∧ (id ∈ S.chan ∨ id ∈ outIds S)

theorem GoodIds.sublist {L L' : List Nat} {S : Store} (h : GoodIds L S) (hs : L'.Sublist L) : GoodIds L' S :=
  ⟨List.Nodup.sublist hs h.1, fun id hid => h.2 id (hs.subset hid)⟩

theorem GoodIds.perm {L L' : List Nat} {S : Store} (h : GoodIds L S) (hp : L.Perm L') : GoodIds L' S :=
  ⟨hp.nodup_iff.mp h.1, fun id hid => h.2 id (hp.mem_iff.mpr hid)⟩

/-- Same channels, same outstanding promises, same counter. -/
def SameIds (S S' : Store) : Prop := S'.chan = S.chan ∧ S'.outstanding = S.outstanding ∧ S'.nextId = S.nextId

theorem SameIds.refl (S : Store) : SameIds S S := ⟨rfl, rfl, rfl⟩

theorem SameIds.trans {A B C : Store} (h1 : SameIds A B) (h2 : SameIds B C) : SameIds A C :=
  ⟨by rw [h2.1, h1.1], by rw [h2.2.1, h1.2.1], by rw [h2.2.2, h1.2.2]⟩

theorem SameIds.push (S : Store) (e : Entry) : SameIds S (S.push e) := ⟨rfl, rfl, rfl⟩

theorem GoodIds.same {L : List Nat} {S S' : Store} (h : GoodIds L S) (hs : SameIds S S') : GoodIds L S' := by
  obtain ⟨h1, h2, h3⟩ := hs
  refine ⟨h.1, fun id hid => ?_⟩
  have := h.2 id hid
  simp only [outIds, h1, h2, h3] at this ⊢
  exact this

theorem applyMap_same (fn : MapFn) (r : Res) (S : Store) : SameIds S (applyMap fn r S).2 := by
  cases fn <;> cases r <;> simp only [applyMap] <;> (try split) <;>
    first | exact SameIds.refl _ | exact SameIds.push _ _

theorem applyOk_same (fn : OkFn) (v : Val) (S : Store) : SameIds S (applyOk fn v S).2 := by
  cases fn; exact SameIds.push _ _

theorem mkMap_same (fn : MapFn) (f : Fut) (S : Store) : SameIds S (mkMap fn f S).2 := by
  cases f <;> simp only [mkMap] <;> first | exact applyMap_same _ _ _ | exact SameIds.refl _

theorem nonNullWrap_same (nn : Bool) (path : Path) (f : Fut) (S : Store) : SameIds S (nonNullWrap nn path f S).2 := by
  unfold nonNullWrap; cases nn <;> simp <;> first | exact SameIds.refl _ | exact mkMap_same _ _ _

theorem catchIfNullable_same (nn : Bool) (f : Fut) (S : Store) : SameIds S (catchIfNullable nn f S).2 := by
  unfold catchIfNullable; cases nn <;> simp <;> first | exact SameIds.refl _ | exact mkMap_same _ _ _

/-! ### constructors: what they wait on, and `noT` -/

theorem mkMap_waits (fn : MapFn) (f : Fut) (S : Store) : (mkMap fn f S).1.waits = f.waits := by
  cases f <;> simp [mkMap, Fut.waits]

theorem mkMapOkToAny_waits (f : Fut) : (mkMapOkToAny f).waits = f.waits := by
  cases f <;> simp [mkMapOkToAny, Fut.waits]

theorem mkMapOkValue_waits (v : Val) (f : Fut) : (mkMapOkValue v f).waits = f.waits := by
  cases f with
  | ready r => cases r <;> simp [mkMapOkValue, Fut.waits]
  | _ => simp [mkMapOkValue, Fut.waits]

theorem nonNullWrap_waits (nn : Bool) (path : Path) (f : Fut) (S : Store) :
    (nonNullWrap nn path f S).1.waits = f.waits := by
  unfold nonNullWrap; cases nn <;> simp [mkMap_waits]

theorem catchIfNullable_waits (nn : Bool) (f : Fut) (S : Store) : (catchIfNullable nn f S).1.waits = f.waits := by
  unfold catchIfNullable; cases nn <;> simp [mkMap_waits]

theorem mkJoin_waits (fs : List Fut) : (mkJoin fs).waits.Sublist (Fut.waitsL fs) := by
  unfold mkJoin; split <;> simp [Fut.waits]

theorem mkAfter_waits (fs : List Fut) : (mkAfter fs).waits.Sublist (Fut.waitsL fs) := by
  unfold mkAfter; split <;> simp [Fut.waits]

theorem mkMap_noT (fn : MapFn) (f : Fut) (S : Store) (h : f.noT = true) : (mkMap fn f S).1.noT = true := by
  cases f <;> simp_all [mkMap, Fut.noT]

theorem mkMapOkToAny_noT (f : Fut) (h : f.noT = true) : (mkMapOkToAny f).noT = true := by
  cases f <;> simp_all [mkMapOkToAny, Fut.noT]

theorem mkMapOkValue_noT (v : Val) (f : Fut) (h : f.noT = true) : (mkMapOkValue v f).noT = true := by
  cases f with
  | ready r => cases r <;> simp [mkMapOkValue, Fut.noT]
  | _ => simp_all [mkMapOkValue, Fut.noT]

theorem mkJoin_noT (fs : List Fut) (h : Fut.noTL fs = true) : (mkJoin fs).noT = true := by
  unfold mkJoin; split <;> simp_all [Fut.noT]

theorem mkAfter_noT (fs : List Fut) (h : Fut.noTL fs = true) : (mkAfter fs).noT = true := by
  unfold mkAfter; split <;> simp_all [Fut.noT]

theorem nonNullWrap_noT (nn : Bool) (path : Path) (f : Fut) (S : Store) (h : f.noT = true) :
    (nonNullWrap nn path f S).1.noT = true := by
  unfold nonNullWrap; cases nn <;> simp <;> first | exact h | exact mkMap_noT _ _ _ h

theorem catchIfNullable_noT (nn : Bool) (f : Fut) (S : Store) (h : f.noT = true) :
    (catchIfNullable nn f S).1.noT = true := by
  unfold catchIfNullable; cases nn <;> simp <;> first | exact h | exact mkMap_noT _ _ _ h

theorem waitsL_append_one (acc : List Fut) (g : Fut) : Fut.waitsL (acc ++ [g]) = Fut.waitsL acc ++ g.waits := by
  induction acc with
  | nil => simp [Fut.waitsL]
  | cons a acc ih => simp [Fut.waitsL, ih]

theorem noTL_append_one (acc : List Fut) (g : Fut) : Fut.noTL (acc ++ [g]) = (Fut.noTL acc && g.noT) := by
  induction acc with
  | nil => simp [Fut.noTL]
  | cons a acc ih => simp [Fut.noTL, ih, Bool.and_assoc]

/-! ### builders create fresh ids -/

theorem GoodIds.fresh_out {F : List Nat} {S : Store} (h : GoodIds F S) (p : Path) :
    GoodIds (S.nextId :: F) { S with nextId := S.nextId + 1, outstanding := S.outstanding ++ [(S.nextId, p)] } := by
  refine ⟨List.nodup_cons.mpr ⟨fun hm => ?_, h.1⟩, fun id hid => ?_⟩
  · have := (h.2 _ hm).1; omega
  · rcases List.mem_cons.mp hid with rfl | hid
    · exact ⟨by simp, Or.inr (by simp [outIds])⟩
    · obtain ⟨h1, h2⟩ := h.2 id hid
      refine ⟨by simp; omega, ?_⟩
      rcases h2 with h2 | h2
      · exact Or.inl h2
      · exact Or.inr (by simp only [outIds, List.map_append, List.mem_append]; exact Or.inl h2)

theorem GoodIds.fresh_chan {F : List Nat} {S : Store} (h : GoodIds F S) :
    GoodIds (S.nextId :: F) { S with nextId := S.nextId + 1, chan := S.chan ++ [S.nextId] } := by
  refine ⟨List.nodup_cons.mpr ⟨fun hm => ?_, h.1⟩, fun id hid => ?_⟩
  · have := (h.2 _ hm).1; omega
  · rcases List.mem_cons.mp hid with rfl | hid
    · exact ⟨by simp, Or.inl (by simp)⟩
    · obtain ⟨h1, h2⟩ := h.2 id hid
      refine ⟨by simp; omega, ?_⟩
      rcases h2 with h2 | h2
      · exact Or.inl (by simp [h2])
      · exact Or.inr h2

theorem execField_ids (nn : Bool) (mode : Mode) (rerr : Option String) (c : Comp) (itemPath : Path)
    (completed : Store → Fut × Store) (S : Store)
    (hc : ∀ S' F, GoodIds F S' → GoodIds ((completed S').1.waits ++ F) (completed S').2 ∧ (completed S').1.noT = true) :
    ∀ F, GoodIds F S →
      GoodIds ((execField nn mode rerr c itemPath completed S).1.waits ++ F) (execField nn mode rerr c itemPath completed S).2 ∧
      (execField nn mode rerr c itemPath completed S).1.noT = true := by
  intro F hF
  have h0 : GoodIds F (S.push (.start itemPath)) := hF.same (SameIds.push _ _)
  unfold execField
  cases mode <;> cases rerr <;> simp only [Fut.waits, Fut.noT, List.nil_append, List.singleton_append, and_true]
  · exact hc _ F h0
  · exact h0
  · exact h0.fresh_out itemPath
  · exact h0.fresh_out itemPath
  · exact (h0.same (SameIds.push _ (.fulfil itemPath))).fresh_chan
  · exact (h0.same (SameIds.push _ (.fulfil itemPath))).fresh_chan
  · exact hc _ F h0
  · exact h0

theorem perm_swap3 (A B C : List Nat) : (A ++ (B ++ C)).Perm (B ++ (A ++ C)) := by
  rw [← List.append_assoc, ← List.append_assoc]
  exact List.Perm.append_right C List.perm_append_comm

theorem complete_ids_aux :
    (∀ nn c path S, ∀ F, GoodIds F S →
      GoodIds ((complete nn c path S).1.waits ++ F) (complete nn c path S).2 ∧ (complete nn c path S).1.noT = true) ∧
    (∀ fields path n i acc S, ∀ F, Fut.noTL acc = true → GoodIds (Fut.waitsL acc ++ F) S →
      GoodIds ((execFields fields path n i acc S).1.waits ++ F) (execFields fields path n i acc S).2 ∧
      (execFields fields path n i acc S).1.noT = true) ∧
    (∀ inn items path i S, ∀ F, GoodIds F S →
      GoodIds (Fut.waitsL (completeItems inn items path i S).1 ++ F) (completeItems inn items path i S).2 ∧
      Fut.noTL (completeItems inn items path i S).1 = true) := by
  apply complete.mutual_induct
    (motive_1 := fun nn c path S => ∀ F, GoodIds F S →
      GoodIds ((complete nn c path S).1.waits ++ F) (complete nn c path S).2 ∧ (complete nn c path S).1.noT = true)
    (motive_2 := fun fields path n i acc S => ∀ F, Fut.noTL acc = true → GoodIds (Fut.waitsL acc ++ F) S →
      GoodIds ((execFields fields path n i acc S).1.waits ++ F) (execFields fields path n i acc S).2 ∧
      (execFields fields path n i acc S).1.noT = true)
    (motive_3 := fun inn items path i S => ∀ F, GoodIds F S →
      GoodIds (Fut.waitsL (completeItems inn items path i S).1 ++ F) (completeItems inn items path i S).2 ∧
      Fut.noTL (completeItems inn items path i S).1 = true)
  · intro nn path S F hF; simp only [complete, nonNullWrap_waits, Fut.waits, List.nil_append]
    exact ⟨hF.same (nonNullWrap_same _ _ _ _), nonNullWrap_noT _ _ _ _ (by simp [Fut.noT])⟩
  · intro nn path S a F hF; simp only [complete, nonNullWrap_waits, Fut.waits, List.nil_append]
    exact ⟨hF.same (nonNullWrap_same _ _ _ _), nonNullWrap_noT _ _ _ _ (by simp [Fut.noT])⟩
  · intro nn path S a F hF; simp only [complete, nonNullWrap_waits, Fut.waits, List.nil_append]
    exact ⟨hF.same (nonNullWrap_same _ _ _ _), nonNullWrap_noT _ _ _ _ (by simp [Fut.noT])⟩
  · intro nn path S inn items fs S1 h ih F hF
    have ih := ih F hF; rw [h] at ih
    simp only [complete, h, nonNullWrap_waits, mkMapOkToAny_waits]
    exact ⟨(ih.1.sublist (List.Sublist.append_right (mkJoin_waits fs) F)).same (nonNullWrap_same _ _ _ _),
      nonNullWrap_noT _ _ _ _ (mkMapOkToAny_noT _ (mkJoin_noT _ ih.2))⟩
  · intro nn path S fields f S1 h ih F hF
    have ih := ih F (by simp [Fut.noTL]) (by simpa [Fut.waitsL] using hF); rw [h] at ih
    simp only [complete, h, nonNullWrap_waits, mkMapOkToAny_waits]
    exact ⟨ih.1.same (nonNullWrap_same _ _ _ _), nonNullWrap_noT _ _ _ _ (mkMapOkToAny_noT _ ih.2)⟩
  · intro inn path i S F hF; simp only [completeItems, Fut.waitsL, Fut.noTL, List.nil_append]; exact ⟨hF, trivial⟩
  · intro inn path i S c rest f S1 h1 f1 S11 h2 fs S2 h3 ih1 ih2 F hF
    have ih1 := ih1 F hF; rw [h1] at ih1
    have hw := catchIfNullable_waits inn f S1
    have hs := catchIfNullable_same inn f S1
    have hn := catchIfNullable_noT inn f S1 ih1.2
    rw [h2] at hw hs hn
    have ih2 := ih2 (f1.waits ++ F) (by rw [hw]; exact ih1.1.same hs); rw [h3] at ih2
    simp only [completeItems, h1, h2, h3, Fut.waitsL, Fut.noTL]
    refine ⟨?_, by simp [hn, ih2.2]⟩
    rw [List.append_assoc]
    exact ih2.1.perm (perm_swap3 _ _ _)
  · intro path n i acc S F hacc hF
    simp only [execFields, mkMapOkValue_waits]
    exact ⟨hF.sublist (List.Sublist.append_right (mkAfter_waits acc) F),
      mkMapOkValue_noT _ _ (mkAfter_noT _ hacc)⟩
  · intro path n i acc S key nn rerr c rest ih F hacc hF
    rw [execFields_tname]; exact ih F hacc (hF.same (SameIds.push _ _))
  · intro path n i acc S key nn mode rerr c rest itemPath f S1 h1 S11 e hm h2 ihc F hacc hF
    have hm' : mode ≠ .tname := fun h => hm h
    have hf := execField_ids nn mode rerr c itemPath (fun S' => complete nn c itemPath S') S ihc _ hF
    rw [h1] at hf
    have hs := catchIfNullable_same nn f S1
    rw [h2] at hs
    rw [execFields_cons path key nn mode rerr c rest n i acc S S1 S11 f _ hm' h1 h2]
    simp only [fieldCont, Fut.waits, Fut.noT, List.nil_append, and_true]
    exact (hf.1.same hs).sublist ((List.sublist_append_right _ _).trans (List.sublist_append_right _ _))
  · intro path n i acc S key nn mode rerr c rest itemPath f S1 h1 S11 v hm h2 ihc ih F hacc hF
    have hm' : mode ≠ .tname := fun h => hm h
    have hf := execField_ids nn mode rerr c itemPath (fun S' => complete nn c itemPath S') S ihc _ hF
    rw [h1] at hf
    have hs := catchIfNullable_same nn f S1
    rw [h2] at hs
    rw [execFields_cons path key nn mode rerr c rest n i acc S S1 S11 f _ hm' h1 h2]
    simp only [fieldCont]
    exact ih F hacc (((hf.1.same hs).sublist (List.sublist_append_right _ _)).same (SameIds.push _ _))
  · intro path n i acc S key nn mode rerr c rest itemPath f S1 h1 S11 f1 hne hno hm h2 ihc ih F hacc hF
    have hm' : mode ≠ .tname := fun h => hm h
    have hf := execField_ids nn mode rerr c itemPath (fun S' => complete nn c itemPath S') S ihc _ hF
    rw [h1] at hf
    have hw := catchIfNullable_waits nn f S1
    have hs := catchIfNullable_same nn f S1
    have hn := catchIfNullable_noT nn f S1 hf.2
    rw [h2] at hw hs hn
    rw [execFields_cons path key nn mode rerr c rest n i acc S S1 S11 f f1 hm' h1 h2]
    have hshape : fieldCont rest path n i acc key f1 S11 =
        execFields rest path n (i + 1) (acc ++ [Fut.mapOk (OkFn.setSlot path i key) f1]) S11 := by
      unfold fieldCont
      split
      · exact absurd rfl (hne _)
      · exact absurd rfl (hno _)
      · rfl
    rw [hshape]
    refine ih F (by rw [noTL_append_one]; simp [hacc, Fut.noT, hn]) ?_
    rw [waitsL_append_one]
    simp only [Fut.waits, List.append_assoc]
    have := (hf.1.same hs)
    rw [← hw] at this
    exact this.perm (perm_swap3 _ _ _)

theorem applyK_ids (nn : Bool) (c : Comp) (path : Path) (r : Res) (S : Store) (F : List Nat) (hF : GoodIds F S) :
    GoodIds ((applyK nn c path r S).1.waits ++ F) (applyK nn c path r S).2 ∧ (applyK nn c path r S).1.noT = true := by
  cases r with
  | ok v => simp only [applyK]; exact complete_ids_aux.1 nn c path S F hF
  | err e => simp only [applyK, Fut.waits, Fut.noT, List.nil_append]; exact ⟨hF, trivial⟩

/-! ### poll -/

theorem outIds_mono {S S' : Store} (h : Mono S S') {id : Nat} (hid : id ∈ outIds S) : id ∈ outIds S' := by
  obtain ⟨o, ho⟩ := h.out
  simp only [outIds, ho, List.map_append, List.mem_append]; exact Or.inl hid

/-- `poll` keeps the waited-on ids good, and when it reports no result some promise is still
    outstanding (nothing is ever waiting on a channel nobody will write to). -/
theorem poll_ids_aux :
    (∀ f S, f.noT = true → ∀ F, GoodIds (f.waits ++ F) S →
      (poll f S).1.noT = true ∧ GoodIds ((poll f S).1.waits ++ F) (poll f S).2.1 ∧
      ((poll f S).2.2 = none → ∃ id, id ∈ outIds (poll f S).2.1)) ∧
    (∀ fs S, Fut.noTL fs = true → ∀ F, GoodIds (Fut.waitsL fs ++ F) S →
      Fut.noTL (pollAll fs S).1 = true ∧ GoodIds (Fut.waitsL (pollAll fs S).1 ++ F) (pollAll fs S).2.1 ∧
      ((pollAll fs S).2.2 = .pending → ∃ id, id ∈ outIds (pollAll fs S).2.1)) := by
  apply poll_induct'
    (P1 := fun f S => f.noT = true → ∀ F, GoodIds (f.waits ++ F) S →
      (poll f S).1.noT = true ∧ GoodIds ((poll f S).1.waits ++ F) (poll f S).2.1 ∧
      ((poll f S).2.2 = none → ∃ id, id ∈ outIds (poll f S).2.1))
    (P2 := fun fs S => Fut.noTL fs = true → ∀ F, GoodIds (Fut.waitsL fs ++ F) S →
      Fut.noTL (pollAll fs S).1 = true ∧ GoodIds (Fut.waitsL (pollAll fs S).1 ++ F) (pollAll fs S).2.1 ∧
      ((pollAll fs S).2.2 = .pending → ∃ id, id ∈ outIds (pollAll fs S).2.1))
  · intro r S _ F hF; rw [poll_ready]; exact ⟨by simp [Fut.noT], hF, fun h => by cases h⟩
  · intro id res S _ F hF
    simp only [Fut.waits, List.singleton_append] at hF
    by_cases h : id ∈ S.chan <;> simp only [poll, h, if_true, if_false]
    · refine ⟨by simp [Fut.noT], ?_, fun h => by cases h⟩
      simp only [Fut.waits, List.nil_append]
      obtain ⟨hnd, hall⟩ := hF
      obtain ⟨hnotin, hndF⟩ := List.nodup_cons.mp hnd
      refine ⟨hndF, fun id' hid' => ?_⟩
      obtain ⟨h1, h2⟩ := hall id' (List.mem_cons_of_mem _ hid')
      refine ⟨h1, ?_⟩
      rcases h2 with h2 | h2
      · exact Or.inl ((List.mem_erase_of_ne (by rintro rfl; exact hnotin hid')).mpr h2)
      · exact Or.inr h2
    · refine ⟨by simp [Fut.noT], by simpa [Fut.waits] using hF, fun _ => ⟨id, ?_⟩⟩
      rcases (hF.2 id List.mem_cons_self).2 with h2 | h2
      · exact absurd h2 h
      · exact h2
  · intro fn g S ih hn F hF
    obtain ⟨i1, i2, i3⟩ := ih (by simpa [Fut.noT] using hn) F (by simpa [Fut.waits] using hF)
    rcases hp : poll g S with ⟨g', S1, o⟩
    rw [hp] at i1 i2 i3
    cases o with
    | some r =>
      rw [poll_map_some hp]
      have hr := poll_some_ready g S g' S1 r hp
      simp only [hr, Fut.waits, List.nil_append] at i2
      exact ⟨by simp [Fut.noT], by simpa [Fut.waits] using i2.same (applyMap_same _ _ _), fun h => by cases h⟩
    | none => rw [poll_map_none hp]; exact ⟨by simpa [Fut.noT] using i1, by simpa [Fut.waits] using i2, fun _ => i3 rfl⟩
  · intro fn g S ih hn F hF
    obtain ⟨i1, i2, i3⟩ := ih (by simpa [Fut.noT] using hn) F (by simpa [Fut.waits] using hF)
    rcases hp : poll g S with ⟨g', S1, o⟩
    rw [hp] at i1 i2 i3
    cases o with
    | some r =>
      have hr := poll_some_ready g S g' S1 r hp
      simp only [hr, Fut.waits, List.nil_append] at i2
      cases r with
      | ok v =>
        rw [poll_mapOk_ok hp]
        exact ⟨by simp [Fut.noT], by simpa [Fut.waits] using i2.same (applyOk_same _ _ _), fun h => by cases h⟩
      | err e => rw [poll_mapOk_err hp]; exact ⟨by simp [Fut.noT], by simpa [Fut.waits] using i2, fun h => by cases h⟩
    | none => rw [poll_mapOk_none hp]; exact ⟨by simpa [Fut.noT] using i1, by simpa [Fut.waits] using i2, fun _ => i3 rfl⟩
  · intro g S ih hn F hF
    obtain ⟨i1, i2, i3⟩ := ih (by simpa [Fut.noT] using hn) F (by simpa [Fut.waits] using hF)
    rcases hp : poll g S with ⟨g', S1, o⟩
    rw [hp] at i1 i2 i3
    cases o with
    | some r =>
      rw [poll_mapOkToAny_some hp]
      have hr := poll_some_ready g S g' S1 r hp
      simp only [hr, Fut.waits, List.nil_append] at i2
      exact ⟨by simp [Fut.noT], by simpa [Fut.waits] using i2, fun h => by cases h⟩
    | none => rw [poll_mapOkToAny_none hp]; exact ⟨by simpa [Fut.noT] using i1, by simpa [Fut.waits] using i2, fun _ => i3 rfl⟩
  · intro v g S ih hn F hF
    obtain ⟨i1, i2, i3⟩ := ih (by simpa [Fut.noT] using hn) F (by simpa [Fut.waits] using hF)
    rcases hp : poll g S with ⟨g', S1, o⟩
    rw [hp] at i1 i2 i3
    cases o with
    | some r =>
      have hr := poll_some_ready g S g' S1 r hp
      simp only [hr, Fut.waits, List.nil_append] at i2
      cases r with
      | ok u => rw [poll_mapOkValue_ok hp]; exact ⟨by simp [Fut.noT], by simpa [Fut.waits] using i2, fun h => by cases h⟩
      | err e => rw [poll_mapOkValue_err hp]; exact ⟨by simp [Fut.noT], by simpa [Fut.waits] using i2, fun h => by cases h⟩
    | none => rw [poll_mapOkValue_none hp]; exact ⟨by simpa [Fut.noT] using i1, by simpa [Fut.waits] using i2, fun _ => i3 rfl⟩
  · intro nn c path g S ih ihk hn F hF
    obtain ⟨i1, i2, i3⟩ := ih (by simpa [Fut.noT] using hn) F (by simpa [Fut.waits] using hF)
    rcases hp : poll g S with ⟨g', S1, o⟩
    rw [hp] at i1 i2 i3
    cases o with
    | none =>
      rw [poll_thenK_wait hp]
      exact ⟨by simpa [Fut.noT] using i1, by simpa [Fut.waits] using i2, fun _ => i3 rfl⟩
    | some r =>
      have hr := poll_some_ready g S g' S1 r hp
      simp only [hr, Fut.waits, List.nil_append] at i2
      have hk := applyK_ids nn c path r S1 F i2
      obtain ⟨k1, k2, k3⟩ := ihk g' S1 r hp hk.2 F hk.1
      rcases hp2 : poll (applyK nn c path r S1).1 (applyK nn c path r S1).2 with ⟨t', S3, o2⟩
      rw [hp2] at k1 k2 k3
      cases o2 with
      | some r' =>
        rw [poll_thenK_fire_some hp hp2]
        have hr2 := poll_some_ready _ _ t' S3 r' hp2
        simp only [hr2, Fut.waits, List.nil_append] at k2
        exact ⟨by simp [Fut.noT], by simpa [Fut.waits] using k2, fun h => by cases h⟩
      | none =>
        rw [poll_thenK_fire_none hp hp2]
        exact ⟨by simp [Fut.noT, hr, k1], by simpa [Fut.waits] using k2, fun _ => k3 rfl⟩
  · intro nn c path g t S ih hn F hF
    simp only [Fut.noT, Bool.and_eq_true] at hn
    obtain ⟨i1, i2, i3⟩ := ih hn.2 F (by simpa [Fut.waits] using hF)
    rcases hp : poll t S with ⟨t', S1, o⟩
    rw [hp] at i1 i2 i3
    cases o with
    | some r =>
      rw [poll_thenK_cont_some hp]
      have hr := poll_some_ready t S t' S1 r hp
      simp only [hr, Fut.waits, List.nil_append] at i2
      exact ⟨by simp [Fut.noT], by simpa [Fut.waits] using i2, fun h => by cases h⟩
    | none =>
      rw [poll_thenK_cont_none hp]
      exact ⟨by simp [Fut.noT, hn.1, i1], by simpa [Fut.waits] using i2, fun _ => i3 rfl⟩
  · intro tag a b g S _ _ hn; simp [Fut.noT] at hn
  · intro tag a b g t S _ hn; simp [Fut.noT] at hn
  · intro fs S ih hn F hF
    obtain ⟨i1, i2, i3⟩ := ih (by simpa [Fut.noT] using hn) F (by simpa [Fut.waits] using hF)
    rcases hp : pollAll fs S with ⟨fs', S1, p⟩
    rw [hp] at i1 i2 i3
    cases p with
    | failed e =>
      rw [poll_join_failed hp]
      exact ⟨by simp [Fut.noT], by simpa [Fut.waits] using i2.sublist (List.sublist_append_right _ _), fun h => by cases h⟩
    | done vs =>
      rw [poll_join_done hp]
      exact ⟨by simp [Fut.noT], by simpa [Fut.waits] using i2.sublist (List.sublist_append_right _ _), fun h => by cases h⟩
    | pending => rw [poll_join_pending hp]; exact ⟨by simpa [Fut.noT] using i1, by simpa [Fut.waits] using i2, fun _ => i3 rfl⟩
  · intro fs S ih hn F hF
    obtain ⟨i1, i2, i3⟩ := ih (by simpa [Fut.noT] using hn) F (by simpa [Fut.waits] using hF)
    rcases hp : pollAll fs S with ⟨fs', S1, p⟩
    rw [hp] at i1 i2 i3
    cases p with
    | failed e =>
      rw [poll_after_failed hp]
      exact ⟨by simp [Fut.noT], by simpa [Fut.waits] using i2.sublist (List.sublist_append_right _ _), fun h => by cases h⟩
    | done vs =>
      rw [poll_after_done hp]
      exact ⟨by simp [Fut.noT], by simpa [Fut.waits] using i2.sublist (List.sublist_append_right _ _), fun h => by cases h⟩
    | pending => rw [poll_after_pending hp]; exact ⟨by simpa [Fut.noT] using i1, by simpa [Fut.waits] using i2, fun _ => i3 rfl⟩
  · intro S _ F hF; rw [pollAll_nil]; exact ⟨by simp [Fut.noTL], hF, fun h => by cases h⟩
  · intro f rest S ih ihr hn F hF
    simp only [Fut.noTL, Bool.and_eq_true] at hn
    simp only [Fut.waitsL, List.append_assoc] at hF
    obtain ⟨i1, i2, i3⟩ := ih hn.1 (Fut.waitsL rest ++ F) hF
    rcases hp : poll f S with ⟨f', S1, o⟩
    rw [hp] at i1 i2 i3
    cases o with
    | some r =>
      cases r with
      | err e =>
        rw [pollAll_cons_err hp]
        exact ⟨by simp [Fut.noTL, i1, hn.2], by simpa [Fut.waitsL, List.append_assoc] using i2, fun h => by cases h⟩
      | ok v =>
        obtain ⟨r1, r2, r3⟩ := ihr f' S1 _ hp (by intro e h; cases h) hn.2 (f'.waits ++ F) (i2.perm (perm_swap3 _ _ _))
        rcases hp2 : pollAll rest S1 with ⟨rest', S2, p⟩
        rw [hp2] at r1 r2 r3
        rw [pollAll_cons_ok hp hp2]
        refine ⟨by simp [Fut.noTL, i1, r1], ?_, ?_⟩
        · simp only [Fut.waitsL, List.append_assoc]; exact r2.perm (perm_swap3 _ _ _)
        · intro hpend
          cases p <;> simp at hpend
          exact r3 rfl
    | none =>
      obtain ⟨r1, r2, r3⟩ := ihr f' S1 _ hp (by intro e h; cases h) hn.2 (f'.waits ++ F) (i2.perm (perm_swap3 _ _ _))
      have hm := poll_mono_aux.2 rest S1
      rcases hp2 : pollAll rest S1 with ⟨rest', S2, p⟩
      rw [hp2] at r1 r2 r3 hm
      rw [pollAll_cons_none hp hp2]
      refine ⟨by simp [Fut.noTL, i1, r1], ?_, ?_⟩
      · simp only [Fut.waitsL, List.append_assoc]; exact r2.perm (perm_swap3 _ _ _)
      · intro _
        obtain ⟨id, hid⟩ := i3 rfl
        exact ⟨id, outIds_mono hm hid⟩

/-! ## §B how many promises can still be created -/

mutual
  /-- Upper bound on the promises the continuations not yet built may create. -/
  def Fut.potential : Fut → Nat
    | .ready _ => 0
    | .promise _ _ => 0
    | .map _ g => g.potential
    | .mapOk _ g => g.potential
    | .mapOkToAny g => g.potential
    | .mapOkValue _ g => g.potential
    | .thenK _ c _ g none => g.potential + Comp.invocations c
    | .thenK _ _ _ _ (some t) => t.potential
    | .thenT _ _ _ _ _ => 0
    | .join gs => Fut.potentialL gs
    | .after gs => Fut.potentialL gs
  def Fut.potentialL : List Fut → Nat
    | [] => 0
    | g :: gs => g.potential + Fut.potentialL gs
end

theorem mkMap_potential (fn : MapFn) (f : Fut) (S : Store) : (mkMap fn f S).1.potential ≤ f.potential := by
  cases f <;> simp [mkMap, Fut.potential]

theorem mkMapOkToAny_potential (f : Fut) : (mkMapOkToAny f).potential ≤ f.potential := by
  cases f <;> simp [mkMapOkToAny, Fut.potential]

theorem mkMapOkValue_potential (v : Val) (f : Fut) : (mkMapOkValue v f).potential ≤ f.potential := by
  cases f with
  | ready r => cases r <;> simp [mkMapOkValue, Fut.potential]
  | _ => simp [mkMapOkValue, Fut.potential]

theorem mkJoin_potential (fs : List Fut) : (mkJoin fs).potential ≤ Fut.potentialL fs := by
  unfold mkJoin; split <;> simp [Fut.potential]

theorem mkAfter_potential (fs : List Fut) : (mkAfter fs).potential ≤ Fut.potentialL fs := by
  unfold mkAfter; split <;> simp [Fut.potential]

theorem nonNullWrap_potential (nn : Bool) (path : Path) (f : Fut) (S : Store) :
    (nonNullWrap nn path f S).1.potential ≤ f.potential := by
  unfold nonNullWrap; cases nn <;> simp; exact mkMap_potential _ _ _

theorem catchIfNullable_potential (nn : Bool) (f : Fut) (S : Store) :
    (catchIfNullable nn f S).1.potential ≤ f.potential := by
  unfold catchIfNullable; cases nn <;> simp; exact mkMap_potential _ _ _

theorem potentialL_append_one (acc : List Fut) (g : Fut) :
    Fut.potentialL (acc ++ [g]) = Fut.potentialL acc + g.potential := by
  induction acc with
  | nil => simp [Fut.potentialL]
  | cons a acc ih => simp [Fut.potentialL, ih]; omega

theorem execField_potential (nn : Bool) (mode : Mode) (rerr : Option String) (c : Comp) (itemPath : Path)
    (completed : Store → Fut × Store) (S : Store)
    (hc : ∀ S', (completed S').2.nextId + (completed S').1.potential ≤ S'.nextId + Comp.invocations c) :
    (execField nn mode rerr c itemPath completed S).2.nextId + (execField nn mode rerr c itemPath completed S).1.potential
      ≤ S.nextId + 1 + Comp.invocations c := by
  unfold execField
  cases mode <;> cases rerr <;> simp [Fut.potential, Store.push]
  all_goals first
    | omega
    | (have := hc (S.push (.start itemPath)); simp [Store.push] at this; omega)

theorem complete_potential_aux :
    (∀ nn c path S, (complete nn c path S).2.nextId + (complete nn c path S).1.potential ≤ S.nextId + Comp.invocations c) ∧
    (∀ fields path n i acc S,
      (execFields fields path n i acc S).2.nextId + (execFields fields path n i acc S).1.potential
        ≤ S.nextId + Fut.potentialL acc + Field.invocationsL fields) ∧
    (∀ inn items path i S,
      (completeItems inn items path i S).2.nextId + Fut.potentialL (completeItems inn items path i S).1
        ≤ S.nextId + Comp.invocationsL items) := by
  apply complete.mutual_induct
    (motive_1 := fun nn c path S =>
      (complete nn c path S).2.nextId + (complete nn c path S).1.potential ≤ S.nextId + Comp.invocations c)
    (motive_2 := fun fields path n i acc S =>
      (execFields fields path n i acc S).2.nextId + (execFields fields path n i acc S).1.potential
        ≤ S.nextId + Fut.potentialL acc + Field.invocationsL fields)
    (motive_3 := fun inn items path i S =>
      (completeItems inn items path i S).2.nextId + Fut.potentialL (completeItems inn items path i S).1
        ≤ S.nextId + Comp.invocationsL items)
  · intro nn path S
    have h1 := nonNullWrap_potential nn path (.ready (.ok .null)) S
    have h2 := (nonNullWrap_same nn path (.ready (.ok .null)) S).2.2
    simp only [complete, Comp.invocations, Fut.potential] at *; omega
  · intro nn path S a
    have h1 := nonNullWrap_potential nn path (.ready (.ok (.scalar a))) S
    have h2 := (nonNullWrap_same nn path (.ready (.ok (.scalar a))) S).2.2
    simp only [complete, Comp.invocations, Fut.potential] at *; omega
  · intro nn path S a
    have h1 := nonNullWrap_potential nn path (.ready (.err ⟨path, a⟩)) S
    have h2 := (nonNullWrap_same nn path (.ready (.err ⟨path, a⟩)) S).2.2
    simp only [complete, Comp.invocations, Fut.potential] at *; omega
  · intro nn path S inn items fs S1 h ih
    rw [h] at ih; simp only at ih
    have h1 := nonNullWrap_potential nn path (mkMapOkToAny (mkJoin fs)) S1
    have h2 := (nonNullWrap_same nn path (mkMapOkToAny (mkJoin fs)) S1).2.2
    have h3 := mkMapOkToAny_potential (mkJoin fs)
    have h4 := mkJoin_potential fs
    simp only [complete, h, Comp.invocations]; omega
  · intro nn path S fields f S1 h ih
    rw [h] at ih; simp only [Fut.potentialL] at ih
    have h1 := nonNullWrap_potential nn path (mkMapOkToAny f) S1
    have h2 := (nonNullWrap_same nn path (mkMapOkToAny f) S1).2.2
    have h3 := mkMapOkToAny_potential f
    simp only [complete, h, Comp.invocations]; omega
  · intro inn path i S; simp [completeItems, Fut.potentialL, Comp.invocationsL]
  · intro inn path i S c rest f S1 h1 f1 S11 h2 fs S2 h3 ih1 ih2
    rw [h1] at ih1; rw [h3] at ih2; simp only at ih1 ih2
    have hc := catchIfNullable_potential inn f S1
    have hs := (catchIfNullable_same inn f S1).2.2
    rw [h2] at hc hs; simp only at hc hs
    simp only [completeItems, h1, h2, h3, Fut.potentialL, Comp.invocationsL]; omega
  · intro path n i acc S
    have h1 := mkMapOkValue_potential (.obj path n) (mkAfter acc)
    have h2 := mkAfter_potential acc
    simp only [execFields, Field.invocationsL]; omega
  · intro path n i acc S key nn rerr c rest ih
    rw [execFields_tname]
    simp only [Store.push, Field.invocationsL] at ih ⊢; omega
  · intro path n i acc S key nn mode rerr c rest itemPath f S1 h1 S11 e hm h2 ihc
    have hm' : mode ≠ .tname := fun h => hm h
    have hf := execField_potential nn mode rerr c itemPath (fun S' => complete nn c itemPath S') S ihc
    rw [h1] at hf; simp only at hf
    have hs := (catchIfNullable_same nn f S1).2.2
    rw [h2] at hs; simp only at hs
    rw [execFields_cons path key nn mode rerr c rest n i acc S S1 S11 f _ hm' h1 h2]
    simp only [fieldCont, Fut.potential, Field.invocationsL]; omega
  · intro path n i acc S key nn mode rerr c rest itemPath f S1 h1 S11 v hm h2 ihc ih
    have hm' : mode ≠ .tname := fun h => hm h
    have hf := execField_potential nn mode rerr c itemPath (fun S' => complete nn c itemPath S') S ihc
    rw [h1] at hf; simp only at hf
    have hs := (catchIfNullable_same nn f S1).2.2
    rw [h2] at hs; simp only at hs
    rw [execFields_cons path key nn mode rerr c rest n i acc S S1 S11 f _ hm' h1 h2]
    simp only [fieldCont, Store.push, Field.invocationsL] at ih ⊢; omega
  · intro path n i acc S key nn mode rerr c rest itemPath f S1 h1 S11 f1 hne hno hm h2 ihc ih
    have hm' : mode ≠ .tname := fun h => hm h
    have hf := execField_potential nn mode rerr c itemPath (fun S' => complete nn c itemPath S') S ihc
    rw [h1] at hf; simp only at hf
    have hc := catchIfNullable_potential nn f S1
    have hs := (catchIfNullable_same nn f S1).2.2
    rw [h2] at hc hs; simp only at hc hs
    rw [execFields_cons path key nn mode rerr c rest n i acc S S1 S11 f f1 hm' h1 h2]
    have hshape : fieldCont rest path n i acc key f1 S11 =
        execFields rest path n (i + 1) (acc ++ [Fut.mapOk (OkFn.setSlot path i key) f1]) S11 := by
      unfold fieldCont
      split
      · exact absurd rfl (hne _)
      · exact absurd rfl (hno _)
      · rfl
    rw [hshape]
    rw [potentialL_append_one] at ih
    simp only [Fut.potential, Field.invocationsL] at ih ⊢; omega

theorem applyK_potential (nn : Bool) (c : Comp) (path : Path) (r : Res) (S : Store) :
    (applyK nn c path r S).2.nextId + (applyK nn c path r S).1.potential ≤ S.nextId + Comp.invocations c := by
  cases r with
  | ok v => simp only [applyK]; exact complete_potential_aux.1 nn c path S
  | err e => simp [applyK, Fut.potential]

theorem poll_potential_aux :
    (∀ f S, f.noT = true → (poll f S).2.1.nextId + (poll f S).1.potential ≤ S.nextId + f.potential) ∧
    (∀ fs S, Fut.noTL fs = true →
      (pollAll fs S).2.1.nextId + Fut.potentialL (pollAll fs S).1 ≤ S.nextId + Fut.potentialL fs) := by
  apply poll_induct'
    (P1 := fun f S => f.noT = true → (poll f S).2.1.nextId + (poll f S).1.potential ≤ S.nextId + f.potential)
    (P2 := fun fs S => Fut.noTL fs = true →
      (pollAll fs S).2.1.nextId + Fut.potentialL (pollAll fs S).1 ≤ S.nextId + Fut.potentialL fs)
  · intro r S _; rw [poll_ready]; simp
  · intro id res S _
    by_cases h : id ∈ S.chan <;> simp [poll, h, Fut.potential]
  · intro fn g S ih hn
    have ih := ih (by simpa [Fut.noT] using hn)
    rcases hp : poll g S with ⟨g', S1, o⟩
    rw [hp] at ih
    cases o with
    | some r =>
      rw [poll_map_some hp]
      have := (applyMap_same fn r S1).2.2
      simp only [Fut.potential] at ih ⊢; omega
    | none => rw [poll_map_none hp]; simpa [Fut.potential] using ih
  · intro fn g S ih hn
    have ih := ih (by simpa [Fut.noT] using hn)
    rcases hp : poll g S with ⟨g', S1, o⟩
    rw [hp] at ih
    cases o with
    | some r =>
      cases r with
      | ok v =>
        rw [poll_mapOk_ok hp]
        have := (applyOk_same fn v S1).2.2
        simp only [Fut.potential] at ih ⊢; omega
      | err e => rw [poll_mapOk_err hp]; simp only [Fut.potential] at ih ⊢; omega
    | none => rw [poll_mapOk_none hp]; simpa [Fut.potential] using ih
  · intro g S ih hn
    have ih := ih (by simpa [Fut.noT] using hn)
    rcases hp : poll g S with ⟨g', S1, o⟩
    rw [hp] at ih
    cases o with
    | some r => rw [poll_mapOkToAny_some hp]; simp only [Fut.potential] at ih ⊢; omega
    | none => rw [poll_mapOkToAny_none hp]; simpa [Fut.potential] using ih
  · intro v g S ih hn
    have ih := ih (by simpa [Fut.noT] using hn)
    rcases hp : poll g S with ⟨g', S1, o⟩
    rw [hp] at ih
    cases o with
    | some r =>
      cases r with
      | ok u => rw [poll_mapOkValue_ok hp]; simp only [Fut.potential] at ih ⊢; omega
      | err e => rw [poll_mapOkValue_err hp]; simp only [Fut.potential] at ih ⊢; omega
    | none => rw [poll_mapOkValue_none hp]; simpa [Fut.potential] using ih
  · intro nn c path g S ih ihk hn
    have hgn : g.noT = true := by simpa [Fut.noT] using hn
    have ih := ih hgn
    rcases hp : poll g S with ⟨g', S1, o⟩
    rw [hp] at ih
    cases o with
    | none => rw [poll_thenK_wait hp]; simp only [Fut.potential] at ih ⊢; omega
    | some r =>
      have hk := applyK_potential nn c path r S1
      have hkn : (applyK nn c path r S1).1.noT = true := (applyK_ids nn c path r S1 [] ⟨List.nodup_nil, by simp⟩).2
      have ihk := ihk g' S1 r hp hkn
      rcases hp2 : poll (applyK nn c path r S1).1 (applyK nn c path r S1).2 with ⟨t', S3, o2⟩
      rw [hp2] at ihk
      cases o2 with
      | some r' => rw [poll_thenK_fire_some hp hp2]; simp only [Fut.potential] at ih ihk ⊢; omega
      | none => rw [poll_thenK_fire_none hp hp2]; simp only [Fut.potential] at ih ihk ⊢; omega
  · intro nn c path g t S ih hn
    simp only [Fut.noT, Bool.and_eq_true] at hn
    have ih := ih hn.2
    rcases hp : poll t S with ⟨t', S1, o⟩
    rw [hp] at ih
    cases o with
    | some r => rw [poll_thenK_cont_some hp]; simp only [Fut.potential] at ih ⊢; omega
    | none => rw [poll_thenK_cont_none hp]; simpa [Fut.potential] using ih
  · intro tag a b g S _ _ hn; simp [Fut.noT] at hn
  · intro tag a b g t S _ hn; simp [Fut.noT] at hn
  · intro fs S ih hn
    have ih := ih (by simpa [Fut.noT] using hn)
    rcases hp : pollAll fs S with ⟨fs', S1, p⟩
    rw [hp] at ih
    cases p with
    | failed e => rw [poll_join_failed hp]; simp only [Fut.potential] at ih ⊢; omega
    | done vs => rw [poll_join_done hp]; simp only [Fut.potential] at ih ⊢; omega
    | pending => rw [poll_join_pending hp]; simpa [Fut.potential] using ih
  · intro fs S ih hn
    have ih := ih (by simpa [Fut.noT] using hn)
    rcases hp : pollAll fs S with ⟨fs', S1, p⟩
    rw [hp] at ih
    cases p with
    | failed e => rw [poll_after_failed hp]; simp only [Fut.potential] at ih ⊢; omega
    | done vs => rw [poll_after_done hp]; simp only [Fut.potential] at ih ⊢; omega
    | pending => rw [poll_after_pending hp]; simpa [Fut.potential] using ih
  · intro S _; rw [pollAll_nil]; simp
  · intro f rest S ih ihr hn
    simp only [Fut.noTL, Bool.and_eq_true] at hn
    have ih := ih hn.1
    rcases hp : poll f S with ⟨f', S1, o⟩
    rw [hp] at ih
    cases o with
    | some r =>
      cases r with
      | err e => rw [pollAll_cons_err hp]; simp only [Fut.potentialL] at ih ⊢; omega
      | ok v =>
        have ihr := ihr f' S1 _ hp (by intro e h; cases h) hn.2
        rcases hp2 : pollAll rest S1 with ⟨rest', S2, p⟩
        rw [hp2] at ihr
        rw [pollAll_cons_ok hp hp2]; simp only [Fut.potentialL] at ih ihr ⊢; omega
    | none =>
      have ihr := ihr f' S1 _ hp (by intro e h; cases h) hn.2
      rcases hp2 : pollAll rest S1 with ⟨rest', S2, p⟩
      rw [hp2] at ihr
      rw [pollAll_cons_none hp hp2]; simp only [Fut.potentialL] at ih ihr ⊢; omega

/-! ## §C `wait` returns -/

theorem mem_fulfilled_or_kept {α : Type} (ps : List α) (bs : List Bool) (p : α) (h : p ∈ ps) :
    p ∈ fulfilled ps bs ∨ p ∈ kept ps bs := by
  induction ps generalizing bs with
  | nil => simp at h
  | cons q ps ih =>
    cases bs with
    | nil =>
      simp only [kept, fulfilled]
      rcases List.mem_cons.mp h with rfl | h
      · exact Or.inr List.mem_cons_self
      · rcases ih [] h with h | h
        · cases ps <;> simp [fulfilled] at h
        · exact Or.inr (List.mem_cons_of_mem _ h)
    | cons b bs =>
      cases b <;> simp only [kept, fulfilled, Bool.false_eq_true, if_false, if_true]
      · rcases List.mem_cons.mp h with rfl | h
        · exact Or.inr List.mem_cons_self
        · rcases ih bs h with h | h
          · exact Or.inl h
          · exact Or.inr (List.mem_cons_of_mem _ h)
      · rcases List.mem_cons.mp h with rfl | h
        · exact Or.inl List.mem_cons_self
        · rcases ih bs h with h | h
          · exact Or.inl (List.mem_cons_of_mem _ h)
          · exact Or.inr h

theorem idleRound_ids (mask : Option Nat) (S : Store) (hne : S.outstanding ≠ []) (L : List Nat) (h : GoodIds L S) :
    GoodIds L (idleRound mask S) := by
  have hs := deliver_spec S.outstanding (picks mask S.outstanding.length)
    { S with outstanding := [], rounds := S.rounds + 1 }
  obtain ⟨h1, h2, _, _, h5, _⟩ := hs
  refine ⟨h.1, fun id hid => ?_⟩
  obtain ⟨a, b⟩ := h.2 id hid
  unfold idleRound
  simp only at h1 h2 h5 ⊢
  refine ⟨by rw [h5]; exact a, ?_⟩
  rcases b with b | b
  · exact Or.inl (by rw [h2]; exact List.mem_append_left _ b)
  · simp only [outIds] at b
    obtain ⟨p, hp, rfl⟩ := List.mem_map.mp b
    rcases mem_fulfilled_or_kept S.outstanding (picks mask S.outstanding.length) p hp with hq | hq
    · exact Or.inl (by rw [h2]; exact List.mem_append_right _ (List.mem_map_of_mem hq))
    · exact Or.inr (by simp only [outIds, h1, List.nil_append]; exact List.mem_map_of_mem hq)

/-- **`wait` returns.** With good ids, the store invariant, and enough fuel for the promises that
    can still exist, `waitLoop` ends with `done`; it created at most `f.potential` promises. -/
theorem waitLoop_terminates (N : Nat) (fuel : Nat) : ∀ (f : Fut) (sched : List Nat) (S : Store),
    f.noT = true → GoodIds f.waits S → Inv S → S.nextId + f.potential ≤ N → N < fuel + S.rounds →
    ∃ r, (waitLoop fuel f sched S).1 = .done r ∧ (waitLoop fuel f sched S).2.2.nextId ≤ S.nextId + f.potential := by
  induction fuel with
  | zero =>
    intro f sched S hn hg hi hb hf
    obtain ⟨i1, i2, i3⟩ := poll_ids_aux.1 f S hn [] (by simpa using hg)
    have hpot := poll_potential_aux.1 f S hn
    have hm := poll_mono f S
    rcases hp : poll f S with ⟨f', S1, o⟩
    rw [hp] at i1 i2 i3 hpot hm
    simp only at hm
    cases o with
    | some r => rw [waitLoop_some 0 f f' sched S S1 r hp]; exact ⟨r, rfl, by simp only at hpot ⊢; omega⟩
    | none =>
      obtain ⟨id, hid⟩ := i3 rfl
      have hi1 := hm.inv hi
      have hlen : 0 < S1.outstanding.length := by
        simp only [outIds] at hid
        cases h : S1.outstanding with
        | nil => simp [h] at hid
        | cons a l => simp
      have := hm.rounds
      simp only [Inv] at hi1
      simp only at hpot
      omega
  | succ fuel ih =>
    intro f sched S hn hg hi hb hf
    obtain ⟨i1, i2, i3⟩ := poll_ids_aux.1 f S hn [] (by simpa using hg)
    have hpot := poll_potential_aux.1 f S hn
    have hm := poll_mono f S
    rcases hp : poll f S with ⟨f', S1, o⟩
    rw [hp] at i1 i2 i3 hpot hm
    simp only at hpot hm
    cases o with
    | some r => rw [waitLoop_some (fuel + 1) f f' sched S S1 r hp]; exact ⟨r, rfl, by simp only; omega⟩
    | none =>
      obtain ⟨id, hid⟩ := i3 rfl
      have hne : S1.outstanding ≠ [] := by
        intro h; simp [outIds, h] at hid
      rw [waitLoop_succ_none fuel f f' sched S S1 hp hne]
      have hsp := idleRound_spec sched.head? S1 hne
      have hg2 : GoodIds f'.waits (idleRound sched.head? S1) :=
        idleRound_ids _ _ hne _ (by simpa using i2)
      obtain ⟨r, hr, hb'⟩ := ih f' sched.tail (idleRound sched.head? S1) i1 hg2
        (idleRound_inv _ _ hne (hm.inv hi)) (by rw [hsp.2.1]; omega) (by rw [hsp.1, hm.rounds]; omega)
      exact ⟨r, hr, by rw [hsp.2.1] at hb'; omega⟩

theorem GoodIds_nil (S : Store) : GoodIds [] S := ⟨List.nodup_nil, by simp⟩

theorem execSerial_terminates (st : Bool) (N fuel : Nat) (hfuel : N < fuel) :
    ∀ (fields : List Field) (n i : Nat) (sched : List Nat) (S : Store),
      Inv S → S.nextId + Field.invocationsL fields ≤ N →
      ∃ r, (execSerial st fuel fields n i sched S).1 = .done r := by
  intro fields
  induction fields with
  | nil => intro n i sched S _ _; exact ⟨.ok (.obj [] n), by simp [execSerial]⟩
  | cons fld rest ih =>
    intro n i sched S hi hb
    cases fld with
    | mk key nn mode rerr c =>
      simp only [Field.invocationsL] at hb
      by_cases hm : mode = .tname
      · subst hm
        simp only [execSerial]
        exact ih n (i + 1) sched _ ((Mono.push S _).inv hi) (by simp only [Store.push]; omega)
      · rcases h1 : execField nn mode rerr c [.key key] (complete nn c [.key key]) S with ⟨f0, S1⟩
        rcases h2 : catchIfNullable nn f0 S1 with ⟨f, S2⟩
        have hmono : Mono S S2 := by
          have a := execField_mono nn mode rerr c [.key key] (complete nn c [.key key]) S (fun S' => complete_mono _ _ _ _)
          have b := catchIfNullable_mono nn f0 S1
          rw [h1] at a; rw [h2] at b; exact a.trans b
        have hids := execField_ids nn mode rerr c [.key key] (complete nn c [.key key]) S
          (fun S' F hF => complete_ids_aux.1 nn c [.key key] S' F hF) [] (GoodIds_nil S)
        rw [h1] at hids
        have hw := catchIfNullable_waits nn f0 S1
        have hs := catchIfNullable_same nn f0 S1
        have hn := catchIfNullable_noT nn f0 S1 hids.2
        rw [h2] at hw hs hn
        have hgood : GoodIds f.waits S2 := by
          have := hids.1.same hs
          simpa [hw] using this
        have hpot := execField_potential nn mode rerr c [.key key] (complete nn c [.key key]) S
          (fun S' => complete_potential_aux.1 nn c [.key key] S')
        rw [h1] at hpot
        have hcp := catchIfNullable_potential nn f0 S1
        rw [h2] at hcp
        have hs3 := hs.2.2
        simp only at hpot hcp hs3
        obtain ⟨r, hr, hnext⟩ := waitLoop_terminates N fuel f sched S2 hn hgood (hmono.inv hi) (by omega) (by omega)
        have hspec := waitLoop_spec fuel f sched S2 (hmono.inv hi) r hr
        rw [execSerial_cons st fuel key nn mode rerr c rest n i sched S S1 S2 f0 f hm h1 h2]
        obtain ⟨sched0, S3', hwl, hset, _⟩ := waitSettle_settled st fuel f sched S2
        rcases hws : waitSettle st fuel f sched S2 with ⟨w, sched', S3⟩
        rw [hws] at hwl hset
        rw [hwl] at hr hnext hspec
        simp only at hr hnext hspec hset
        subst hr
        have hn3 := hset.next
        cases r with
        | err e => exact ⟨.err e, by simp [serialCont]⟩
        | ok v =>
          simp only [serialCont]
          exact ih n (i + 1) sched' _ ((Mono.push S3 _).inv (hset.inv hspec.2.1)) (by simp only [Store.push]; omega)

/-- **Termination.** For every request, async subset and schedule, execution returns: `wait` is
    never stuck (a poll that reports nothing always leaves a promise outstanding for the idle
    handler to fulfil) and the fuel — one more than the number of field invocations — is never
    exhausted. -/
theorem execute_terminates (rq : Request) : ∃ r, (execute rq).1 = .done r := by
  unfold execute
  by_cases hmut : rq.mutation = true
  · simp only [hmut, if_true]
    obtain ⟨r, hr⟩ := execSerial_terminates rq.settle (Field.invocationsL rq.fields) (Field.invocationsL rq.fields + 1) (by omega)
      rq.fields rq.fields.length 0 rq.sched {} Inv_init (by simp)
    rcases hx : execSerial rq.settle (Field.invocationsL rq.fields + 1) rq.fields rq.fields.length 0 rq.sched {} with ⟨w, s', S⟩
    rw [hx] at hr; simp only at hr; subst hr
    cases r <;> exact ⟨_, rfl⟩
  · simp only [hmut, Bool.false_eq_true, if_false]
    rcases hb : execFields rq.fields [] rq.fields.length 0 [] {} with ⟨f, S1⟩
    have hm : Mono {} S1 := by
      have := complete_mono_aux.2.1 rq.fields [] rq.fields.length 0 [] {}; rw [hb] at this; exact this
    have hids := complete_ids_aux.2.1 rq.fields [] rq.fields.length 0 [] {} [] (by simp [Fut.noTL])
      (by simpa [Fut.waitsL] using GoodIds_nil {})
    have hpot := complete_potential_aux.2.1 rq.fields [] rq.fields.length 0 [] {}
    rw [hb] at hids hpot
    simp only [Fut.potentialL] at hpot
    have hr0 := hm.rounds
    obtain ⟨r, hr, _⟩ := waitLoop_terminates (Field.invocationsL rq.fields) (Field.invocationsL rq.fields + 1) f rq.sched S1
      hids.2 (by simpa using hids.1) (hm.inv Inv_init) (by simp at hpot; omega) (by omega)
    simp only
    rcases hwl : waitLoop (Field.invocationsL rq.fields + 1) f rq.sched S1 with ⟨w, sched', S⟩
    rw [hwl] at hr; simp only at hr; subst hr
    cases r <;> exact ⟨_, rfl⟩

end ApiFu.C02
