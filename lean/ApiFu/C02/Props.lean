/-
  C02 — the response is independent of sync/async resolution and promise order.
  Property theorems over the model (ApiFu/C02/Model.lean), for *all* future terms, requests,
  async subsets (`Mode` per field invocation) and schedules (`sched`, any list of masks).

  Reading guide
  * `Fut.out f`          — the denotation ⟦f⟧ of a future term: the value it will resolve to, or `fail`
                           (some error propagates; by the GraphQL rules *which* one may depend on
                           the schedule when several fields fail beneath one non-null position,
                           so the identity of a propagating error is deliberately not part of ⟦·⟧).
  * `Spec.comp/request`  — the reference semantics (ApiFu/C02/Spec.lean); mentions neither modes
                           nor schedules.
  * `execute rq`         — the executor model run on request `rq` (query: `execFields` + `wait`;
                           mutation: `execSerial`); `run rq` its observable.

  Proof scripts live in ApiFu/C02/Lemmas.lean.
-/
import ApiFu.C02.Lemmas
import ApiFu.C02.Data
import ApiFu.C02.Term
import ApiFu.C02.Errors
import ApiFu.C02.Required
import ApiFu.C02.Nulls
import ApiFu.C02.Collect

namespace ApiFu.C02

/-! ## Combinator level (future.go) -/

/-- **poll_idempotent_after_ready.** Polling a ready future changes nothing — not the future, not
    the store (so no callback runs again) — and reports the stored result. -/
theorem poll_idempotent_after_ready (r : Res) (S : Store) :
    poll (.ready r) S = (.ready r, S, some r) := poll_ready r S

/-- A result reported by `poll` is stored in the future: from then on the holder sees `ready r`. -/
theorem poll_stores_result (f f' : Fut) (S S' : Store) (r : Res) (h : poll f S = (f', S', some r)) :
    f' = .ready r := poll_some_ready f S f' S' r h

/-- Consequently a future that has reported a result is never run again: every later poll, in any
    later store, returns the same result and leaves that store untouched (F-02b: with `After`
    polling its children in place this holds for every child of `After` and `Join`). -/
theorem poll_stable_after_result (f f' : Fut) (S S' S'' : Store) (r : Res) (h : poll f S = (f', S', some r)) :
    poll f' S'' = (f', S'', some r) := by
  rw [poll_some_ready f S f' S' r h]; exact poll_ready r S''

/-- A future that did not report a result is not ready (readiness and reporting coincide). -/
theorem poll_pending_not_ready (f f' : Fut) (S S' : Store) (h : poll f S = (f', S', none)) :
    f'.isReady = false := poll_none_not_ready f S f' S' h

/-- **poll preserves the denotation** (subject reduction), whatever the store holds. -/
theorem poll_preserves_denotation (f : Fut) (S : Store) : (poll f S).1.out = f.out := poll_out f S

/-- **A reported result is the denotation**: ok with exactly the denoted value, or an error iff
    the denotation is `fail`. In particular the value a future resolves to does not depend on when
    and in which order its promises were fulfilled. -/
theorem poll_result_is_denotation (f : Fut) (S : Store) (r : Res) (h : (poll f S).2.2 = some r) :
    r.out = f.out := poll_result_out f S r h

/-- The constructors' ready fast paths have the same denotation as the combinator they shortcut. -/
theorem constructors_agree (fn : MapFn) (g : OkFn) (v : Val) (f : Fut) (fs : List Fut) (S : Store) :
    (mkMap fn f S).1.out = (Fut.map fn f).out ∧ (mkMapOk g f S).1.out = (Fut.mapOk g f).out ∧
    (mkMapOkToAny f).out = (Fut.mapOkToAny f).out ∧ (mkMapOkValue v f).out = (Fut.mapOkValue v f).out ∧
    (mkJoin fs).out = (Fut.join fs).out ∧ (mkAfter fs).out = (Fut.after fs).out :=
  ⟨mkMap_out fn f S, mkMapOk_out g f S, by rw [mkMapOkToAny_out]; simp [Fut.out],
   by rw [mkMapOkValue_out]; simp [Fut.out], mkJoin_out fs, mkAfter_out fs⟩

/-- **Combinator laws** for ⟦·⟧: `Map` applies its function to the result; `MapOk`, `MapOkToAny`,
    `MapOkValue` transform values and *forward failures* (F-02a); `Join`/`After` fail iff a child
    fails and otherwise collect the values / yield unit. -/
theorem combinator_laws (fn : MapFn) (g : OkFn) (v : Val) (f : Fut) (fs : List Fut) :
    (Fut.map fn f).out = outMap fn f.out ∧
    (Fut.mapOk g f).out = (match f.out with | .ok _ => .ok .null | .fail => .fail) ∧
    (Fut.mapOkToAny f).out = f.out ∧
    (Fut.mapOkValue v f).out = (match f.out with | .ok _ => .ok v | .fail => .fail) ∧
    (Fut.join fs).out = (match Fut.outs fs with | some vs => .ok (.list vs) | none => .fail) ∧
    (Fut.after fs).out = (match Fut.outs fs with | some _ => .ok .unit | none => .fail) := by
  refine ⟨rfl, ?_, rfl, ?_, rfl, rfl⟩ <;> simp only [Fut.out, outOk] <;> cases f.out <;> rfl

/-- **F-02a, operationally**: if the child of `MapOk` / `MapOkToAny` / `MapOkValue` will fail, then
    whenever the combinator reports a result — in the ready fast path or after any number of polls —
    that result is an error, never an ok zero value. -/
theorem mapOk_family_forwards_error (g : OkFn) (v : Val) (f : Fut) (S : Store) (r : Res) (hf : f.out = .fail) :
    ((poll (.mapOk g f) S).2.2 = some r → r.isOk = false) ∧
    ((poll (.mapOkToAny f) S).2.2 = some r → r.isOk = false) ∧
    ((poll (.mapOkValue v f) S).2.2 = some r → r.isOk = false) := by
  refine ⟨fun h => ?_, fun h => ?_, fun h => ?_⟩
  all_goals
    have := poll_result_out _ S r h
    simp only [Fut.out, outOk, hf] at this
    cases r <;> simp_all [Res.out, Res.isOk]

/-! ## Executor level (executor.go) -/

/-- The future `completeValue` builds denotes what the reference semantics prescribes for the
    value, independently of the store it is built in and of the modes inside the plan. -/
theorem complete_denotes_spec (nn : Bool) (c : Comp) (path : Path) (S : Store) :
    (complete nn c path S).1.out = Spec.comp nn c path := complete_out nn c path S

/-- **async_eq_spec (outcome).** For every request, every async subset and every schedule: if
    execution returns, the root result is the one the reference semantics prescribes — the root
    object `Val.obj [] n`, or an error exactly when a failure reaches the root (data null). -/
theorem async_outcome_eq_spec (rq : Request) (r : Res) (h : (execute rq).1 = .done r) :
    r.out = Spec.request rq := (execute_spec rq r h).1

/-- **async_eq_sync (outcome).** The same request under an arbitrary async subset and schedule and
    under all-synchronous resolution yields the same root outcome (same object / both null). -/
theorem async_eq_sync_outcome (rq : Request) (sched' : List Nat) (r r' : Res)
    (h : (execute rq).1 = .done r) (h' : (execute (rq.allSync sched')).1 = .done r') :
    r.out = r'.out := by
  rw [async_outcome_eq_spec rq r h, async_outcome_eq_spec _ r' h', spec_request_allSync]

/-- **async_eq_spec (data).** For every request whose selection sets have pairwise distinct
    response keys (validation and collectFields guarantee it), every async subset and every
    schedule: if execution returns, the data — read back from the `OrderedMap.Set`s the run
    actually performed — is exactly the reference JSON `Spec.data rq`, which mentions neither modes
    nor the schedule. -/
theorem async_data_eq_spec (rq : Request) (hd : Field.distinctKeysL rq.fields = true)
    (r : Res) (h : (execute rq).1 = .done r) : (run rq).data = Spec.data rq := request_data rq hd r h

/-- **async_eq_sync (data).** The same request under an arbitrary async subset and schedule, and
    with every resolver answering synchronously, yield the same data. -/
theorem async_eq_sync (rq : Request) (sched' : List Nat) (hd : Field.distinctKeysL rq.fields = true)
    (r r' : Res) (h : (execute rq).1 = .done r) (h' : (execute (rq.allSync sched')).1 = .done r') :
    (run rq).data = (run (rq.allSync sched')).data := by
  rw [request_data rq hd r h, request_data (rq.allSync sched') (by
    simp only [Request.allSync]; rw [(distinctKeys_allSync_aux.2.1 rq.fields).1]; exact hd) r' h',
    spec_data_allSync]

/-- **no_blank_key.** When execution returns data, every slot of every object visible in the data
    has been set and reads back with a response key of the request (F-02a left such a slot as the
    zero item `("", null)`): with no blank key in the request there is none in the response. The
    value read back is the right one (`visible_slots_read_back`), which is how
    `async_data_eq_spec` is proved. -/
theorem no_blank_key (rq : Request) (v : Val) (h : (execute rq).1 = .done (.ok v))
    (hk : "" ∉ Field.allKeysL rq.fields) :
    ∀ cell ∈ Spec.cellsF rq.fields [] 0, ∃ key val,
      slotOf cell.1 cell.2 (execute rq).2.log = some (key, val) ∧ key ≠ "" := by
  intro cell hcell
  obtain ⟨key, val, h1, h2⟩ := visible_slots_read_back rq v h cell hcell
  refine ⟨key, val, h1, fun hk' => hk ?_⟩
  have := writesF_key_aux.2.1 rq.fields [] 0 _ h2
  simpa [hk'] using this

/-- The error list `run` reports is `executor.Errors` as recorded in the log. -/
theorem run_errors (rq : Request) : (run rq).errors = errorsOf (execute rq).2.log := by
  unfold run
  rcases execute rq with ⟨w, S⟩
  cases w with
  | done r => cases r <;> rfl
  | stuck => rfl
  | outOfFuel => rfl

/-- **errors_are_field_errors** (`errors ⊆ Ref.all`). For every request, async subset and schedule,
    every error in the response is one of the field errors the resolver outcomes allow
    (`Spec.errsF`: resolver errors, completion errors, null for non-null) — with the right path. -/
theorem errors_are_field_errors (rq : Request) : ∀ e ∈ (run rq).errors, e ∈ Spec.errsF rq.fields [] := by
  obtain ⟨r, h⟩ := execute_terminates rq
  intro e he
  rw [run_errors] at he
  have := request_errors_count rq r h e
  have hpos := List.count_pos_iff.mpr he
  exact List.count_pos_iff.mp (by omega)

/-- **no_duplicate_error.** For every request with distinct response keys, every async subset and
    every schedule, no (path, message) occurs twice in the error list (F-02b appended a caught
    error again in every later idle round). Proved by counting: for each error, the number of
    times it has been reported plus the number of times the pending futures may still report it
    never increases, and starts at most at its multiplicity among the request's field errors,
    which is one. -/
theorem no_duplicate_error (rq : Request) (hd : Field.distinctKeysL rq.fields = true) : (run rq).errors.Nodup := by
  obtain ⟨r, h⟩ := execute_terminates rq
  rw [run_errors]
  refine nodup_of_count_le_one (fun e => ?_)
  have := request_errors_count rq r h e
  have := count_le_one_of_nodup (errsF_nodup rq.fields [] hd) e
  omega

/-- **required_errors_reported.** For every request, async subset and schedule, every *required*
    error — the own error of every null left visible in the data because that nullable position's
    resolver failed or its value failed with its own completion error (`Spec.required`) — is in the
    response's error list. (When a non-null position fails, the error that propagates to the
    nearest nullable position is one of possibly several beneath it; which one is reported may
    depend on the schedule, as the GraphQL rules allow, and is not "required": see
    `errors_are_field_errors`.) -/
theorem required_errors_reported (rq : Request) : ∀ e ∈ Spec.required rq, e ∈ (run rq).errors := by
  obtain ⟨r, h⟩ := execute_terminates rq
  intro e he
  rw [run_errors]
  exact required_reported rq r h e he

/-- **required_errors_eq.** The required errors are the same list for the request and for its
    all-synchronous counterpart, and each of them occurs in both responses — exactly once when
    response keys are distinct. -/
theorem required_errors_eq (rq : Request) (sched' : List Nat) (hd : Field.distinctKeysL rq.fields = true) :
    Spec.required (rq.allSync sched') = Spec.required rq ∧
    ∀ e ∈ Spec.required rq, (run rq).errors.count e = 1 ∧ (run (rq.allSync sched')).errors.count e = 1 := by
  refine ⟨required_allSync rq sched', fun e he => ⟨?_, ?_⟩⟩
  · have h1 := List.count_pos_iff.mpr (required_errors_reported rq e he)
    have h2 := count_le_one_of_nodup (no_duplicate_error rq hd) e
    omega
  · have hd' : Field.distinctKeysL (rq.allSync sched').fields = true := by
      simp only [Request.allSync]; rw [(distinctKeys_allSync_aux.2.1 rq.fields).1]; exact hd
    have h1 := List.count_pos_iff.mpr (required_errors_reported (rq.allSync sched') e (by rw [required_allSync]; exact he))
    have h2 := count_le_one_of_nodup (no_duplicate_error (rq.allSync sched') hd') e
    omega

/-- **visible_null_has_error.** For every request, async subset and schedule: every null that the
    reference semantics leaves visible in the data *because something failed* (`Spec.nulls`: a
    nullable field or list item whose resolver failed or beneath which a field error propagated;
    the root when the whole data is null) has at least one error in the response's error list that
    explains it — one of the field errors of the failed sub-plan, its path extending the path of
    the null. (Which of several candidates is reported may depend on the schedule; that one is
    does not.) Together with `errors_are_field_errors` / `every error leads to a null`: no silent
    null, for any schedule. -/
theorem visible_null_has_error (rq : Request) :
    ∀ pc ∈ Spec.nulls rq, ∃ e ∈ pc.2, e ∈ (run rq).errors ∧ pc.1 <+: e.path := by
  obtain ⟨r, h⟩ := execute_terminates rq
  intro pc hpc
  obtain ⟨e, he, hr⟩ := nulls_hit rq r h pc hpc
  exact ⟨e, he, by rw [run_errors]; exact hr, nulls_prefix rq pc hpc e he⟩

/-- **visible_nulls_eq_sync.** The failure-nulls (positions and candidate sets) are the same for
    the request and for its all-synchronous counterpart — they are read off the plan, not off a
    run — so both responses have an explaining error for each of them. -/
theorem visible_nulls_eq_sync (rq : Request) (sched' : List Nat) :
    Spec.nulls (rq.allSync sched') = Spec.nulls rq ∧
    ∀ pc ∈ Spec.nulls rq, (∃ e ∈ pc.2, e ∈ (run rq).errors) ∧ (∃ e ∈ pc.2, e ∈ (run (rq.allSync sched')).errors) := by
  refine ⟨nulls_allSync rq sched', fun pc hpc => ⟨?_, ?_⟩⟩
  · obtain ⟨e, he, hr, _⟩ := visible_null_has_error rq pc hpc; exact ⟨e, he, hr⟩
  · obtain ⟨e, he, hr, _⟩ := visible_null_has_error (rq.allSync sched') pc (by rw [nulls_allSync]; exact hpc)
    exact ⟨e, he, hr⟩

/-- **rounds_le_promises.** Whenever execution returns, the number of idle rounds is at most the
    number of promises created: every round the model lets happen fulfils at least one outstanding
    promise (`idleRound_spec`), for every schedule. -/
theorem rounds_le_promises (rq : Request) (r : Res) (h : (execute rq).1 = .done r) :
    (execute rq).2.rounds ≤ (execute rq).2.nextId := (execute_spec rq r h).2.1

/-- The two guarded branches of `poll` (continuation heavier than its `Then` node) are never
    taken: the model's explicit crash flag stays down. -/
theorem no_crash_branch (rq : Request) (r : Res) (h : (execute rq).1 = .done r) :
    (execute rq).2.crash = false := (execute_spec rq r h).2.2

/-- **Termination (wait never hangs).** For every request, every async subset and every schedule
    (any list of masks: the model's idle handler fulfils the promises a mask selects, the first
    outstanding one if it selects none, all of them once the list is used up — every round fulfils a
    non-empty subset of the outstanding promises), execution returns a result. In particular the
    idle handler is never called with nothing left to fulfil (`WaitResult.stuck`), and the number of
    idle rounds never exceeds the fuel — one more than the number of field invocations. -/
theorem execution_terminates (rq : Request) : ∃ r, (execute rq).1 = .done r := execute_terminates rq

/-- **The response is independent of sync/async resolution and promise order (data).**
    Unconditional form of `async_eq_sync`: for every request with distinct response keys, every
    async subset, every schedule and every schedule of the all-synchronous counterpart, the data of
    both runs is the same text, namely `Spec.data rq`. -/
theorem response_data_independent (rq : Request) (sched' : List Nat) (hd : Field.distinctKeysL rq.fields = true) :
    (run rq).data = Spec.data rq ∧ (run (rq.allSync sched')).data = Spec.data rq := by
  obtain ⟨r, h⟩ := execute_terminates rq
  obtain ⟨r', h'⟩ := execute_terminates (rq.allSync sched')
  refine ⟨request_data rq hd r h, ?_⟩
  rw [request_data (rq.allSync sched') (by
    simp only [Request.allSync]; rw [(distinctKeys_allSync_aux.2.1 rq.fields).1]; exact hd) r' h', spec_data_allSync]

/-- Unconditional form of `rounds_le_promises`. -/
theorem idle_rounds_le_promises (rq : Request) : (execute rq).2.rounds ≤ (execute rq).2.nextId := by
  obtain ⟨r, h⟩ := execute_terminates rq
  exact rounds_le_promises rq r h

/-! ## From the document: the distinct-keys hypothesis discharged

`Request.ofDoc d` (Collect.lean) is the plan the executor runs for a document `d`: every selection
set is built by the transliteration of `collectFields` (fields, inline fragments, fragment spreads
with the visited set, @skip/@include, `GroupedFieldSet.Append`) and `mergeSelectionSets`, and fused
with the resolver outcomes keyed by field name. For such requests — all the executor can be given —
the hypothesis `Field.distinctKeysL` of the data and no-duplicate theorems is a theorem. -/

/-- **collected_keys_distinct.** The response keys of a `GroupedFieldSet` built by `collectFields`
    are pairwise distinct, for every selection set (any nesting of fragments, any repetition of
    keys, any skipped selections). -/
theorem collected_keys_distinct (ss : List Sel) : (collect ss).keys.Nodup := collect_keys_nodup ss

/-- **doc_plan_distinct_keys.** Every selection set of the plan of a document, at every depth, has
    pairwise distinct response keys. -/
theorem doc_plan_distinct_keys (d : Doc) : Field.distinctKeysL (Request.ofDoc d).fields = true := ofDoc_distinctKeys d

/-- **doc_response_data_independent.** `response_data_independent` without hypothesis: for every
    document, every resolver outcome, every async subset, every schedule and every schedule of the
    all-synchronous counterpart, the data of both runs is `Spec.data` of the document's plan. -/
theorem doc_response_data_independent (d : Doc) (sched' : List Nat) :
    (run (Request.ofDoc d)).data = Spec.data (Request.ofDoc d) ∧
    (run ((Request.ofDoc d).allSync sched')).data = Spec.data (Request.ofDoc d) :=
  response_data_independent (Request.ofDoc d) sched' (ofDoc_distinctKeys d)

/-- **doc_no_duplicate_error.** `no_duplicate_error` without hypothesis. -/
theorem doc_no_duplicate_error (d : Doc) : (run (Request.ofDoc d)).errors.Nodup :=
  no_duplicate_error (Request.ofDoc d) (ofDoc_distinctKeys d)

/-- **doc_required_errors_eq.** `required_errors_eq` without hypothesis: every required error
    occurs exactly once in the response and in the all-synchronous response. -/
theorem doc_required_errors_eq (d : Doc) (sched' : List Nat) :
    ∀ e ∈ Spec.required (Request.ofDoc d), (run (Request.ofDoc d)).errors.count e = 1 ∧
      (run ((Request.ofDoc d).allSync sched')).errors.count e = 1 :=
  (required_errors_eq (Request.ofDoc d) sched' (ofDoc_distinctKeys d)).2

/-- Non-vacuity: `{ obj { ...F } ... { b obj { t: __typename } } } fragment F on Obj { nn }` collects to
    the keys `obj`, `b`; the two occurrences of `obj` are merged. -/
example : (collect [.field "obj" "obj" false [.spread false "F" true [.field "nn" "nn" false []]],
                     .inline false true [.field "b" "b" false [],
                                         .field "obj" "obj" false [.field "t" "__typename" false []]]]).keys
    = ["obj", "b"] := by
  simp [collect, collectL, collectSel, Grouped.add, Grouped.keys]

/-! Non-vacuity: a request for which execution returns under a two-round schedule, with a promise
    failing beneath a non-null field inside a nullable object (the F-02a shape). -/

def exampleRequest : Request :=
  { mutation := false,
    fields := [.mk "obj" false .sync none (.object [.mk "nn" true .promise (some "boom") .null]),
               .mk "b" false .promise none (.scalar "1")],
    sched := [2, 1] }

example : Field.distinctKeysL exampleRequest.fields = true := by
  simp [exampleRequest, Field.distinctKeysL, Field.keysL, Comp.distinctKeys]

example : Spec.data exampleRequest = "{\"obj\":null,\"b\":1}" := by
  simp [Spec.data, exampleRequest, Spec.fieldsOk, Spec.comp, Out.caught, Out.isOk, Out.nonNull, Spec.jsonF, Spec.jsonC,
    quote]

/-- Non-vacuity of `required_errors_reported`: a nullable field failing through a promise beside
    a value. -/
def reqExample : Request :=
  { mutation := false,
    fields := [.mk "a" false .promise (some "boom") .null, .mk "b" true .sync none (.scalar "1")],
    sched := [] }

example : Spec.required reqExample = [⟨[.key "a"], "boom"⟩] := by
  simp [Spec.required, reqExample, Spec.fieldsOk, Spec.comp, Out.caught, Out.isOk, Out.nonNull, Spec.reqF, Spec.reqHead,
    Spec.reqC]

/-- Non-vacuity of `visible_null_has_error`: in `exampleRequest` the null at `obj` is explained by
    the error of `obj.nn`, one level down. -/
example : Spec.nulls exampleRequest = [([.key "obj"], [⟨[.key "obj", .key "nn"], "boom"⟩])] := by
  simp [Spec.nulls, exampleRequest, Spec.fieldsOk, Spec.comp, Out.caught, Out.isOk, Out.nonNull, Spec.nullsF,
    Spec.nullHead, Spec.nullsC, Spec.errsC, Spec.errsF, Spec.headErrs]

example : Spec.request exampleRequest = .ok (.obj [] 2) := by
  simp [Spec.request, exampleRequest, Spec.fieldsOk, Spec.comp, Out.caught, Out.isOk, Out.nonNull]

/-- … and execution of such a request does return (the hypothesis `(execute rq).1 = .done r` of
    the theorems above is satisfiable): one promised field, fulfilled in the first idle round. -/
def tinyRequest : Request :=
  { mutation := false, fields := [.mk "a" false .promise none (.scalar "1")], sched := [1] }

example : (execute tinyRequest).1 = .done (.ok (.obj [] 1)) := by
  simp [execute, tinyRequest, execFields, execField, catchIfNullable, mkMap, mkAfter, scanReady, mkMapOkValue,
    Field.invocationsL, Comp.invocations, waitLoop, poll, pollAll, Store.push, idleRound, deliver, picks, maskPicks,
    testBit, applyK, complete, nonNullWrap, applyMap, applyOk, Fut.weight, Fut.weightO, Comp.weight]

end ApiFu.C02
