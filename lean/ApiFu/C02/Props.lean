import ApiFu.C02.Model
namespace ApiFu.C02
end ApiFu.C02
