/-
  C02: the inventory of graphql/executor/internal/future/future.go (core Lean only; linked into the
  driver, which prints it for `(inventory)`).

  One entry per exported item of the Go package — types, struct fields, functions, methods — with
  its arity as the source declares it, the construct of the model (ApiFu/C02/Model.lean) that renders
  it, and the theorems of ApiFu/C02/PropsFuture.lean that give its equation against the result-level
  reference semantics (`FutureSpec`). The harness lists the exported items of the source with
  go/parser on every run and compares: an item of the source that is not here (a new combinator),
  an entry that is no longer in the source, or a changed arity is an undischarged obligation.
  ApiFu/C02/PropsFuture.lean proves (`inventory_theorems_exist`) that every theorem named here exists.
-/
import ApiFu.C02.Model

namespace ApiFu.C02

/-- `Future.Result()` of the Go struct: the stored result, the zero `Result` while not ready. -/
def Fut.result : Fut → Res
  | .ready r => r
  | _ => .ok .null

/-- `Result.IsErr()`. (`Result.IsOk()` is `Res.isOk`: the model's resolver outcomes are already
    classified by the executor's nil test — a typed nil pointer error is a success —, so the
    reflect-based test inside `IsOk` is not modelled; the harness runs typed-nil, value-kind, nil-slice
    and nil-map errors through the real code, F-03d / F-02c.) -/
def Res.isErr (r : Res) : Bool := !r.isOk

structure CombEntry where
  go : String            -- the Go name: `Map`, `Future.IsReady`, `(*Future).Poll`, `Result.Value`
  kind : String          -- type | field | func | method
  params : Nat           -- declared parameters (a variadic parameter counts as one)
  variadic : Bool
  typeParams : Nat
  model : String         -- what renders it in Model.lean
  theorems : List String -- names in ApiFu.C02 (PropsFuture.lean)

def combinatorTable : List CombEntry := [
  ⟨"Result", "type", 0, false, 1, "Res", []⟩,
  ⟨"Result.Value", "field", 0, false, 0, "Res.ok v", []⟩,
  ⟨"Result.Error", "field", 0, false, 0, "Res.err e", []⟩,
  ⟨"Result.IsOk", "method", 0, false, 0, "Res.isOk", ["future_Result_IsOk_IsErr_eq"]⟩,
  ⟨"Result.IsErr", "method", 0, false, 0, "Res.isErr", ["future_Result_IsOk_IsErr_eq"]⟩,
  ⟨"Future", "type", 0, false, 1, "Fut (struct + closure state as a term)", []⟩,
  ⟨"New", "func", 1, false, 1, "Fut.promise (the only poll function handed to New: a non-blocking channel receive)",
    ["future_New_eq"]⟩,
  ⟨"Future.IsReady", "method", 0, false, 0, "Fut.isReady", ["future_IsReady_Result_eq"]⟩,
  ⟨"Future.Result", "method", 0, false, 0, "Fut.result", ["future_IsReady_Result_eq"]⟩,
  ⟨"Map", "func", 2, false, 2, "mkMap / Fut.map / poll", ["future_Map_eq"]⟩,
  ⟨"MapOk", "func", 2, false, 2, "mkMapOk / Fut.mapOk / poll", ["future_MapOk_eq"]⟩,
  ⟨"MapOkToAny", "func", 1, false, 1, "mkMapOkToAny / Fut.mapOkToAny / poll", ["future_MapOkToAny_eq"]⟩,
  ⟨"MapOkValue", "func", 2, false, 2, "mkMapOkValue / Fut.mapOkValue / poll", ["future_MapOkValue_eq"]⟩,
  ⟨"Then", "func", 2, false, 2, "construct (ready) / Fut.thenT, Fut.thenK / poll", ["future_Then_eq", "future_Then_executeField_eq"]⟩,
  ⟨"(*Future).Poll", "method", 0, false, 0, "poll", ["future_Poll_eq"]⟩,
  ⟨"Ok", "func", 1, false, 1, "Fut.ready (Res.ok v)", ["future_Ok_Err_eq"]⟩,
  ⟨"Err", "func", 1, false, 1, "Fut.ready (Res.err e)", ["future_Ok_Err_eq"]⟩,
  ⟨"Join", "func", 1, true, 1, "mkJoin / Fut.join / poll + pollAll", ["future_Join_eq", "future_pass_eq"]⟩,
  ⟨"After", "func", 1, true, 1, "mkAfter / Fut.after / poll + pollAll", ["future_After_eq", "future_pass_eq"]⟩
]

end ApiFu.C02
