/-
  C02 — future.go, combinator by combinator. For every exported function and method of
  graphql/executor/internal/future/future.go (the inventory: ApiFu/C02/Combinators.lean, compared
  with the source on every run of the harness) the equation of its model against the result-level
  reference semantics `FutureSpec` below, in both branches the Go code has: the `IsReady()` fast
  path of the constructor and the poll closure of the not-ready branch. All statements are for
  every child future, every store and every callback of the model.

  `FutureSpec` is written from the doc comments of future.go and mentions neither stores nor
  polling: what the result of the combinator is, given the results of its children.
-/
import ApiFu.C02.Lemmas
import ApiFu.C02.Combinators

namespace ApiFu.C02

namespace FutureSpec

/-- `MapOk`: "converts a future's value": the value is replaced, an error is passed on. -/
def mapOk (v' : Val) : Res → Res
  | .ok _ => .ok v'
  | .err e => .err e

/-- `MapOkToAny`: the result unchanged. -/
def mapOkToAny (r : Res) : Res := r

/-- `Join` / `After` over what the children report in one pass (`none`: not ready yet), in child
    order: "if any future errors, the returned future immediately resolves to an error" — the first
    error met in child order —, otherwise the values once all have reported, otherwise not yet. -/
def pass : List (Option Res) → Pass
  | [] => .done []
  | some (.err e) :: _ => .failed e
  | some (.ok v) :: rest =>
    match pass rest with
    | .failed e => .failed e
    | .done vs => .done (v :: vs)
    | .pending => .pending
  | none :: rest =>
    match pass rest with
    | .failed e => .failed e
    | _ => .pending

end FutureSpec

/-- What a child reports to a holder that looks at it without polling: its result when ready. -/
def Fut.report : Fut → Option Res
  | .ready r => some r
  | _ => none

/-- The constructors' scan of the ready children is `FutureSpec.pass` of what the children report. -/
theorem scanReady_eq_pass (fs : List Fut) : scanReady fs = FutureSpec.pass (fs.map Fut.report) := by
  induction fs with
  | nil => rfl
  | cons f rest ih =>
    cases f with
    | ready r =>
      cases r <;> simp only [scanReady, FutureSpec.pass, Fut.report, List.map_cons, ih]
      generalize FutureSpec.pass _ = p; cases p <;> rfl
    | _ =>
      simp only [scanReady, FutureSpec.pass, Fut.report, List.map_cons, ih]
      generalize FutureSpec.pass _ = p; cases p <;> rfl

/-- The pass the poll closure reports is the scan of the children's states after that pass. -/
theorem pollAll_pass_aux : ∀ (fs : List Fut) (S : Store), (pollAll fs S).2.2 = scanReady (pollAll fs S).1 := by
  intro fs
  induction fs with
  | nil => intro S; simp [pollAll_nil, scanReady]
  | cons f rest ih =>
    intro S
    rcases hp : poll f S with ⟨f', S1, o⟩
    cases o with
    | none =>
      have hnr := poll_none_not_ready f S f' S1 hp
      rcases hq : pollAll rest S1 with ⟨rest', S2, p⟩
      have := ih S1
      rw [hq] at this
      simp only at this
      rw [pollAll_cons_none hp hq]
      cases f' with
      | ready r => simp [Fut.isReady] at hnr
      | _ => cases p <;> simp [scanReady, ← this]
    | some r =>
      have hr := poll_some_ready f S f' S1 r hp
      subst hr
      cases r with
      | err e => rw [pollAll_cons_err hp]; simp [scanReady]
      | ok v =>
        rcases hq : pollAll rest S1 with ⟨rest', S2, p⟩
        have := ih S1
        rw [hq] at this
        simp only at this
        rw [pollAll_cons_ok hp hq]
        cases p <;> simp [scanReady, ← this]

/-! ## Result -/

/-- **`Result.IsOk` / `Result.IsErr`**: a value is ok, an error is not, and `IsErr` is the negation
    of `IsOk` (the model's results are already classified by the executor's nil test; see
    Combinators.lean). -/
theorem future_Result_IsOk_IsErr_eq (v : Val) (e : Err) (r : Res) :
    (Res.ok v).isOk = true ∧ (Res.err e).isOk = false ∧ r.isErr = !r.isOk := ⟨rfl, rfl, rfl⟩

/-! ## New, Ok, Err, IsReady, Result, Poll -/

/-- **`New`** (with the one poll function the executor hands it: `select { case r := <-ch: …;
    default: }`): polling reports the promise's result exactly when the channel holds its message,
    takes the message out of the channel, and stores the result; otherwise nothing changes. -/
theorem future_New_eq (id : Nat) (res : Res) (S : Store) :
    (Fut.promise id res).isReady = false ∧
    (id ∈ S.chan → poll (.promise id res) S = (.ready res, { S with chan := S.chan.erase id }, some res)) ∧
    (id ∉ S.chan → poll (.promise id res) S = (.promise id res, S, none)) := by
  refine ⟨rfl, fun h => ?_, fun h => ?_⟩ <;> simp [poll, h]

/-- **`Ok` / `Err`**: immediately ready with the given value / error; polling them is a no-op. -/
theorem future_Ok_Err_eq (v : Val) (e : Err) (S : Store) :
    (Fut.ready (.ok v)).isReady = true ∧ (Fut.ready (.ok v)).result = .ok v ∧
    (Fut.ready (.err e)).isReady = true ∧ (Fut.ready (.err e)).result = .err e ∧
    poll (.ready (.ok v)) S = (.ready (.ok v), S, some (.ok v)) ∧
    poll (.ready (.err e)) S = (.ready (.err e), S, some (.err e)) :=
  ⟨rfl, rfl, rfl, rfl, poll_ready _ S, poll_ready _ S⟩

/-- **`IsReady` / `Result`**: a future is ready iff it stores a result (`poll == nil`), `Result()` is
    that result — the zero `Result` while not ready —, and after a poll that reported `r` the future
    is ready with `Result() = r`. -/
theorem future_IsReady_Result_eq (f f' : Fut) (S S' : Store) (r : Res) :
    (f.isReady = true ↔ ∃ r, f = .ready r) ∧ (f.isReady = false → f.result = .ok .null) ∧
    (poll f S = (f', S', some r) → f'.isReady = true ∧ f'.result = r) ∧
    (poll f S = (f', S', none) → f'.isReady = false) := by
  refine ⟨?_, ?_, fun h => ?_, fun h => poll_none_not_ready f S f' S' h⟩
  · cases f <;> simp [Fut.isReady]
  · cases f <;> simp [Fut.isReady, Fut.result]
  · rw [poll_some_ready f S f' S' r h]; exact ⟨rfl, rfl⟩

/-- **`(*Future).Poll`**: `if f.poll != nil { if f.result, ok = f.poll(); ok { f.poll = nil } }` — a
    ready future is left alone (nothing runs, the store is untouched); a poll function that reports a
    result has it stored and is dropped, so it never runs again; one that does not report leaves the
    future not ready. -/
theorem future_Poll_eq (f f' : Fut) (S S' S'' : Store) (r : Res) :
    poll (.ready r) S = (.ready r, S, some r) ∧
    (poll f S = (f', S', some r) → f' = .ready r ∧ poll f' S'' = (f', S'', some r)) ∧
    (poll f S = (f', S', none) → f'.isReady = false) := by
  refine ⟨poll_ready r S, fun h => ?_, fun h => poll_none_not_ready f S f' S' h⟩
  have := poll_some_ready f S f' S' r h
  exact ⟨this, by rw [this]; exact poll_ready r S''⟩

/-! ## Map, MapOk, MapOkToAny, MapOkValue -/

/-- **`Map`**: on a ready child `fn` is applied at once (`Future{result: fn(f.result)}`); otherwise
    the node is kept, nothing runs, and each poll polls the child: while it does not report, nothing
    else happens; when it reports `r` the node reports `fn r` — `fn` run exactly once, on the store the
    child's poll left — and stores it. -/
theorem future_Map_eq (fn : MapFn) (g g' : Fut) (S S1 : Store) (r : Res) :
    mkMap fn (.ready r) S = (.ready (applyMap fn r S).1, (applyMap fn r S).2) ∧
    (g.isReady = false → mkMap fn g S = (.map fn g, S)) ∧
    (poll g S = (g', S1, some r) →
      poll (.map fn g) S = (.ready (applyMap fn r S1).1, (applyMap fn r S1).2, some (applyMap fn r S1).1)) ∧
    (poll g S = (g', S1, none) → poll (.map fn g) S = (.map fn g', S1, none)) := by
  refine ⟨rfl, fun h => ?_, fun h => poll_map_some h, fun h => poll_map_none h⟩
  cases g <;> simp_all [mkMap, Fut.isReady]

/-- **`MapOk`**: a value is converted by `fn` (run exactly once; the model's only `fn` sets a slot and
    returns nil), an error is passed on *without* running `fn` — in the ready fast path and in the poll
    closure alike (F-02a: the closure used to drop the error). -/
theorem future_MapOk_eq (mp : Path) (i : Nat) (key : String) (g g' : Fut) (S S1 : Store) (v : Val) (e : Err) :
    mkMapOk (.setSlot mp i key) (.ready (.ok v)) S = (.ready (FutureSpec.mapOk .null (.ok v)), S.push (.write mp i key v)) ∧
    mkMapOk (.setSlot mp i key) (.ready (.err e)) S = (.ready (FutureSpec.mapOk .null (.err e)), S) ∧
    (g.isReady = false → mkMapOk (.setSlot mp i key) g S = (.mapOk (.setSlot mp i key) g, S)) ∧
    (poll g S = (g', S1, some (.ok v)) → poll (.mapOk (.setSlot mp i key) g) S =
      (.ready (FutureSpec.mapOk .null (.ok v)), S1.push (.write mp i key v), some (FutureSpec.mapOk .null (.ok v)))) ∧
    (poll g S = (g', S1, some (.err e)) → poll (.mapOk (.setSlot mp i key) g) S =
      (.ready (FutureSpec.mapOk .null (.err e)), S1, some (FutureSpec.mapOk .null (.err e)))) ∧
    (poll g S = (g', S1, none) → poll (.mapOk (.setSlot mp i key) g) S = (.mapOk (.setSlot mp i key) g', S1, none)) := by
  refine ⟨rfl, rfl, fun h => ?_, fun h => ?_, fun h => ?_, fun h => poll_mapOk_none h⟩
  · cases g <;> simp_all [mkMapOk, Fut.isReady]
  · rw [poll_mapOk_ok h]; simp [applyOk, FutureSpec.mapOk]
  · rw [poll_mapOk_err h]; simp [FutureSpec.mapOk]

/-- **`MapOkToAny`**: the child's result unchanged, value or error, in both branches. -/
theorem future_MapOkToAny_eq (g g' : Fut) (S S1 : Store) (r : Res) :
    mkMapOkToAny (.ready r) = .ready (FutureSpec.mapOkToAny r) ∧
    (g.isReady = false → mkMapOkToAny g = .mapOkToAny g) ∧
    (poll g S = (g', S1, some r) →
      poll (.mapOkToAny g) S = (.ready (FutureSpec.mapOkToAny r), S1, some (FutureSpec.mapOkToAny r))) ∧
    (poll g S = (g', S1, none) → poll (.mapOkToAny g) S = (.mapOkToAny g', S1, none)) := by
  refine ⟨rfl, fun h => ?_, fun h => poll_mapOkToAny_some h, fun h => poll_mapOkToAny_none h⟩
  cases g <;> simp_all [mkMapOkToAny, Fut.isReady]

/-- **`MapOkValue`**: a value is replaced by `v`, an error is passed on, in both branches. -/
theorem future_MapOkValue_eq (v : Val) (g g' : Fut) (S S1 : Store) (r : Res) :
    mkMapOkValue v (.ready r) = .ready (FutureSpec.mapOk v r) ∧
    (g.isReady = false → mkMapOkValue v g = .mapOkValue v g) ∧
    (poll g S = (g', S1, some r) →
      poll (.mapOkValue v g) S = (.ready (FutureSpec.mapOk v r), S1, some (FutureSpec.mapOk v r))) ∧
    (poll g S = (g', S1, none) → poll (.mapOkValue v g) S = (.mapOkValue v g', S1, none)) := by
  refine ⟨?_, fun h => ?_, fun h => ?_, fun h => poll_mapOkValue_none h⟩
  · cases r <;> rfl
  · cases g <;> simp_all [mkMapOkValue, Fut.isReady]
  · cases r with
    | ok w => rw [poll_mapOkValue_ok h]; rfl
    | err e => rw [poll_mapOkValue_err h]; rfl

/-! ## Then -/

/-- **`Then`** (scripted continuations, the general form): over a ready future the continuation is
    called at once and its future returned (`return fn(f.result)`); otherwise, while the first future
    does not report nothing else happens; in the poll in which it reports `r` the continuation is
    built — exactly once: from then on the node holds the continuation's future (`hasThen`) and the
    first future is not polled again — and polled in the same call; afterwards every poll polls the
    continuation's future in place, and the node reports what that future reports. -/
theorem future_Then_eq (tag : String) (a b g g' t t' : Fut) (S S1 S3 : Store) (r r' : Res) :
    construct (.thenT tag a b (.ready r) none) S = thenTBuilt tag a b r S ∧
    (poll g S = (g', S1, none) → poll (.thenT tag a b g none) S = (.thenT tag a b g' none, S1, none)) ∧
    (poll g S = (g', S1, some r) → poll (thenTBuilt tag a b r S1).1 (thenTBuilt tag a b r S1).2 = (t', S3, some r') →
      poll (.thenT tag a b g none) S = (.ready r', S3, some r')) ∧
    (poll g S = (g', S1, some r) → poll (thenTBuilt tag a b r S1).1 (thenTBuilt tag a b r S1).2 = (t', S3, none) →
      poll (.thenT tag a b g none) S = (.thenT tag a b g' (some t'), S3, none)) ∧
    (poll t S = (t', S1, some r) → poll (.thenT tag a b g (some t)) S = (.ready r, S1, some r)) ∧
    (poll t S = (t', S1, none) → poll (.thenT tag a b g (some t)) S = (.thenT tag a b g (some t'), S1, none)) := by
  refine ⟨?_, fun h => poll_thenT_wait h, fun h h2 => poll_thenT_fire_some h h2,
    fun h h2 => poll_thenT_fire_none h h2, fun h => poll_thenT_cont_some h, fun h => poll_thenT_cont_none h⟩
  simp only [construct, thenTBuilt]

/-- **`Then` as `executeField` uses it** (the promise adapter: the continuation completes the
    delivered value, or turns the delivered error into the field's error): same equations, the
    continuation being `applyK`. -/
theorem future_Then_executeField_eq (nn : Bool) (c : Comp) (path : Path) (g g' t t' : Fut) (S S1 S3 : Store) (r r' : Res) :
    (poll g S = (g', S1, none) → poll (.thenK nn c path g none) S = (.thenK nn c path g' none, S1, none)) ∧
    (poll g S = (g', S1, some r) → poll (applyK nn c path r S1).1 (applyK nn c path r S1).2 = (t', S3, some r') →
      poll (.thenK nn c path g none) S = (.ready r', S3, some r')) ∧
    (poll g S = (g', S1, some r) → poll (applyK nn c path r S1).1 (applyK nn c path r S1).2 = (t', S3, none) →
      poll (.thenK nn c path g none) S = (.thenK nn c path g' (some t'), S3, none)) ∧
    (poll t S = (t', S1, some r) → poll (.thenK nn c path g (some t)) S = (.ready r, S1, some r)) ∧
    (poll t S = (t', S1, none) → poll (.thenK nn c path g (some t)) S = (.thenK nn c path g (some t'), S1, none)) :=
  ⟨fun h => poll_thenK_wait h, fun h h2 => poll_thenK_fire_some h h2, fun h h2 => poll_thenK_fire_none h h2,
   fun h => poll_thenK_cont_some h, fun h => poll_thenK_cont_none h⟩

/-! ## Join, After -/

/-- **One pass over the children** (`future_pass_eq`): the constructor's scan of the ready children,
    and the poll closure's loop — which polls the children in place, in order, and stops at the
    first one that is ready with an error —, both compute `FutureSpec.pass` of what the children
    report (after the polls of that pass, for the closure). -/
theorem future_pass_eq (fs : List Fut) (S : Store) :
    scanReady fs = FutureSpec.pass (fs.map Fut.report) ∧
    (pollAll fs S).2.2 = FutureSpec.pass ((pollAll fs S).1.map Fut.report) := by
  refine ⟨scanReady_eq_pass fs, ?_⟩
  rw [pollAll_pass_aux, scanReady_eq_pass]

/-- **`Join`**: resolves to the first error of a pass at once, to the list of values in child order
    once every child has reported a value, and stays pending (children kept in their polled state)
    otherwise — constructor and poll closure alike. -/
theorem future_Join_eq (fs : List Fut) (S : Store) :
    mkJoin fs = (match FutureSpec.pass (fs.map Fut.report) with
      | .failed e => .ready (.err e) | .done vs => .ready (.ok (.list vs)) | .pending => .join fs) ∧
    poll (.join fs) S = (match FutureSpec.pass ((pollAll fs S).1.map Fut.report) with
      | .failed e => (.ready (.err e), (pollAll fs S).2.1, some (.err e))
      | .done vs => (.ready (.ok (.list vs)), (pollAll fs S).2.1, some (.ok (.list vs)))
      | .pending => (.join (pollAll fs S).1, (pollAll fs S).2.1, none)) := by
  refine ⟨by rw [← scanReady_eq_pass]; rfl, ?_⟩
  rw [← (future_pass_eq fs S).2]
  rcases h : pollAll fs S with ⟨fs', S1, p⟩
  cases p with
  | failed e => exact poll_join_failed h
  | done vs => exact poll_join_done h
  | pending => exact poll_join_pending h

/-- **`After`**: as `Join`, with the empty struct for the values. -/
theorem future_After_eq (fs : List Fut) (S : Store) :
    mkAfter fs = (match FutureSpec.pass (fs.map Fut.report) with
      | .failed e => .ready (.err e) | .done _ => .ready (.ok .unit) | .pending => .after fs) ∧
    poll (.after fs) S = (match FutureSpec.pass ((pollAll fs S).1.map Fut.report) with
      | .failed e => (.ready (.err e), (pollAll fs S).2.1, some (.err e))
      | .done _ => (.ready (.ok .unit), (pollAll fs S).2.1, some (.ok .unit))
      | .pending => (.after (pollAll fs S).1, (pollAll fs S).2.1, none)) := by
  refine ⟨by rw [← scanReady_eq_pass]; rfl, ?_⟩
  rw [← (future_pass_eq fs S).2]
  rcases h : pollAll fs S with ⟨fs', S1, p⟩
  cases p with
  | failed e => exact poll_after_failed h
  | done vs => exact poll_after_done h
  | pending => exact poll_after_pending h

/-! ## the inventory is covered -/

open Lean in
/-- `proved% thm` is the string "thm"; it elaborates only if `thm` is a declaration. -/
macro "proved% " i:ident : term => do
  let s := Syntax.mkStrLit (toString i.getId)
  `((by have _h := @$i; exact $s : String))

/-- The theorems of this file, by name (a name that does not resolve is an elaboration error). -/
def provedNames : List String := [
  proved% future_Result_IsOk_IsErr_eq, proved% future_New_eq, proved% future_Ok_Err_eq,
  proved% future_IsReady_Result_eq, proved% future_Poll_eq, proved% future_Map_eq,
  proved% future_MapOk_eq, proved% future_MapOkToAny_eq, proved% future_MapOkValue_eq,
  proved% future_Then_eq, proved% future_Then_executeField_eq, proved% future_pass_eq,
  proved% future_Join_eq, proved% future_After_eq]

/-- **inventory_theorems_exist.** Every function and method of the inventory names at least one
    theorem, and every theorem the inventory names is one of this file. -/
theorem inventory_theorems_exist :
    (∀ e ∈ combinatorTable, (e.kind = "func" ∨ e.kind = "method") → e.theorems ≠ []) ∧
    (∀ e ∈ combinatorTable, ∀ t ∈ e.theorems, t ∈ provedNames) := by
  decide

/-- Non-vacuity of `future_pass_eq`: a pending child before a failed one — the pass fails at once. -/
example : FutureSpec.pass [none, some (.err ⟨[], "boom"⟩), none] = .failed ⟨[], "boom"⟩ := rfl

end ApiFu.C02
