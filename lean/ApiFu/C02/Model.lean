/-
  C02 model: a first-order rendering of graphql/executor/internal/future/future.go and of the
  asynchronous parts of graphql/executor/executor.go (wait, executeSelections, executeField's
  promise adapter, completeValue, catchErrorIfNullable), as the code is written *after* the
  fixes F-02a (MapOk/MapOkToAny/MapOkValue forward the error in the not-ready branch), F-02b
  (After polls its children in place), F-03d (IsOk on value-kind errors) and F-01b (the
  synchronous non-null branch of completeValue returns the inner future).

  Core Lean only (linked into the driver `c02model`).

  Representation choices (all injective renamings of Go state, none changes control flow):
  * a Go `Future[T]` struct value together with the state captured by its poll closure is a
    term `Fut`; `ready r` is a struct whose `poll` field is nil;
  * callbacks are defunctionalised (`MapFn`, `OkFn`, the two `Then` continuations);
  * an `*OrderedMap` is named by the response path of the object it is allocated for
    (`Val.obj path n`); `OrderedMap.Set` is an entry `Entry.write` of the append-only log and the
    map is read back from the log at the end (`render`); a slot never written reads back as
    `("", null)` exactly like the zero `OrderedMapItem`;
  * `executor.Errors`, the harness's resolver event log and the writes share one append-only log;
  * a `ResolvePromise` channel is `promise id res`, `id` counting promises in creation order;
    what it will deliver is fixed by the world when the resolver runs, so the node carries that
    result `res` and the store only records which channels currently hold their message (`chan`)
    and which promises are still unfulfilled, in creation order, with the response path of the
    field invocation that made them (`outstanding`); the value itself is described by the plan
    (`Comp`), so `res` is only ok/err.
-/
namespace ApiFu.C02

/-! ## Values, results, plans -/

inductive Seg where
  | key (s : String)
  | idx (n : Nat)
  deriving DecidableEq, Repr, Inhabited

abbrev Path := List Seg

/-- Values flowing through futures. `obj p n` is the pointer to the OrderedMap with `n` slots that
    `executeSelections` allocated for the object at response path `p`. -/
inductive Val where
  | null
  | unit                         -- struct{}{}: the value of `After` (not nil)
  | scalar (s : String)
  | list (vs : List Val)
  | obj (p : Path) (n : Nat)
  deriving Repr, Inhabited

def Val.isNull : Val → Bool
  | .null => true
  | _ => false

structure Err where
  path : Path
  msg : String
  deriving DecidableEq, Repr, Inhabited

inductive Res where
  | ok (v : Val)
  | err (e : Err)
  deriving Repr, Inhabited

def Res.isOk : Res → Bool
  | .ok _ => true
  | .err _ => false

inductive Mode where
  | sync      -- the resolver returns the value / error directly
  | promise   -- the resolver returns a ResolvePromise fulfilled later by the idle handler
  | pre       -- the resolver returns a ResolvePromise that already holds its result
  | tname     -- `__typename`: no resolver, the slot is set directly
  deriving DecidableEq, Repr, Inhabited

mutual
  /-- What `completeValue` will meet for a resolved Go value at a (nullable) type. -/
  inductive Comp where
    | null                                   -- isNil(result)
    | scalar (s : String)                    -- leaf that coerces; `s` is its JSON text
    | bad (msg : String)                     -- completion error (coercion failure, "Result is not a list.")
    | list (inn : Bool) (items : List Comp)  -- a slice; `inn`: the element type is non-null
    | object (fields : List Field)           -- an object value with its collected selection set
  /-- One collected field of a selection set and the outcome of its resolver. -/
  inductive Field where
    | mk (key : String) (nn : Bool) (mode : Mode) (rerr : Option String) (c : Comp)
end

deriving instance Repr for Comp, Field

instance : Inhabited Comp := ⟨.null⟩
instance : Inhabited Field := ⟨.mk "" false .sync none .null⟩

def Field.key : Field → String
  | .mk k _ _ _ _ => k

/-! ## The store: channels, outstanding promises, the append-only log -/

inductive Entry where
  | error (e : Err)                                       -- executor.Errors = append(executor.Errors, …)
  | write (mp : Path) (i : Nat) (key : String) (v : Val)  -- resultMap.Set(i, key, v) on the map of object `mp`
  | note (s : String)                                     -- combinator-level test callbacks
  | start (p : Path)                                      -- a resolver was called
  | fulfil (p : Path)                                     -- the idle handler (or a `pre` resolver) delivered a promise
  deriving Repr, Inhabited

structure Store where
  chan : List Nat := []                   -- channels that hold their message (sent, not yet received)
  outstanding : List (Nat × Path) := []   -- promises created and not yet fulfilled (creation order)
  nextId : Nat := 0                    -- promises created so far
  log : List Entry := []
  rounds : Nat := 0                    -- idle-handler calls so far
  crash : Bool := false                -- a branch that panics in Go (or that the model cannot follow) was reached
  deriving Repr, Inhabited

def Store.push (S : Store) (e : Entry) : Store := { S with log := S.log ++ [e] }

/-! ## Futures -/

inductive MapFn where
  | catchError           -- executor.CatchError
  | nonNull (e : Err)    -- the closure of completeValue's non-null branch (error to raise on an ok nil)
  | tap (tag : String)   -- test callback: logs and returns its argument
  deriving Repr, Inhabited

inductive OkFn where
  | setSlot (mp : Path) (i : Nat) (key : String)  -- func(v) any { resultMap.Set(i, key, v); return nil }
  deriving Repr, Inhabited

inductive Fut where
  | ready (r : Res)
  | promise (id : Nat) (res : Res)                 -- future.New(select on the channel); `res`: what it will receive
  | map (fn : MapFn) (f : Fut)
  | mapOk (fn : OkFn) (f : Fut)
  | mapOkToAny (f : Fut)
  | mapOkValue (v : Val) (f : Fut)
  /-- `Then` of executeField: the continuation completes the delivered value (`c`) at `path`. -/
  | thenK (nn : Bool) (c : Comp) (path : Path) (f : Fut) (cont : Option Fut)
  /-- `Then` with a scripted continuation (combinator-level tests): logs, then builds `onOk`/`onErr`. -/
  | thenT (tag : String) (onOk onErr : Fut) (f : Fut) (cont : Option Fut)
  | join (fs : List Fut)
  | after (fs : List Fut)
  deriving Repr, Inhabited

def Fut.isReady : Fut → Bool
  | .ready _ => true
  | _ => false

/-! ### Callbacks -/

def showVal : Val → String
  | .null => "null"
  | .unit => "null"
  | .scalar s => s
  | .list vs => "[" ++ ",".intercalate (showVals vs) ++ "]"
  | .obj _ _ => "{}"
where showVals : List Val → List String
  | [] => []
  | v :: vs => showVal v :: showVals vs

def showRes : Res → String
  | .ok v => "ok:" ++ showVal v
  | .err e => "err:" ++ e.msg

def applyMap (fn : MapFn) (r : Res) (S : Store) : Res × Store :=
  match fn, r with
  | .catchError, .err e => (.ok .null, S.push (.error e))
  | .catchError, .ok v => (.ok v, S)
  | .nonNull e, .ok v => if v.isNull then (.err e, S) else (.ok v, S)
  | .nonNull _, .err e' => (.err e', S)
  | .tap tag, r => (r, S.push (.note ("log:" ++ tag ++ ":" ++ showRes r)))

def applyOk (fn : OkFn) (v : Val) (S : Store) : Val × Store :=
  match fn with
  | .setSlot mp i key => (.null, S.push (.write mp i key v))

/-! ### Constructors (the `IsReady()` fast paths of future.go) -/

def mkMap (fn : MapFn) (f : Fut) (S : Store) : Fut × Store :=
  match f with
  | .ready r => let (r', S') := applyMap fn r S; (.ready r', S')
  | f => (.map fn f, S)

def mkMapOk (fn : OkFn) (f : Fut) (S : Store) : Fut × Store :=
  match f with
  | .ready (.ok v) => let (v', S') := applyOk fn v S; (.ready (.ok v'), S')
  | .ready (.err e) => (.ready (.err e), S)
  | f => (.mapOk fn f, S)

def mkMapOkToAny (f : Fut) : Fut :=
  match f with
  | .ready r => .ready r
  | f => .mapOkToAny f

def mkMapOkValue (v : Val) (f : Fut) : Fut :=
  match f with
  | .ready (.ok _) => .ready (.ok v)
  | .ready (.err e) => .ready (.err e)
  | f => .mapOkValue v f

/-- Outcome of one pass over the children of Join / After. -/
inductive Pass where
  | failed (e : Err)        -- a ready child holds an error: resolve to it immediately
  | done (vs : List Val)    -- every child is ready and ok
  | pending
  deriving Repr, Inhabited

/-- The loop `for i, f := range fs { if f.IsReady() {…} else { ok = false } }` of the constructors. -/
def scanReady : List Fut → Pass
  | [] => .done []
  | .ready (.err e) :: _ => .failed e
  | .ready (.ok v) :: rest =>
    match scanReady rest with
    | .failed e => .failed e
    | .done vs => .done (v :: vs)
    | .pending => .pending
  | _ :: rest =>
    match scanReady rest with
    | .failed e => .failed e
    | _ => .pending

def mkJoin (fs : List Fut) : Fut :=
  match scanReady fs with
  | .failed e => .ready (.err e)
  | .done vs => .ready (.ok (.list vs))
  | .pending => .join fs

def mkAfter (fs : List Fut) : Fut :=
  match scanReady fs with
  | .failed e => .ready (.err e)
  | .done _ => .ready (.ok .unit)
  | .pending => .after fs

/-! ## The executor: building futures (executeSelections / executeField / completeValue) -/

def nonNullMsg : String := "Null result for non-null field."

/-- `catchErrorIfNullable`. -/
def catchIfNullable (nn : Bool) (f : Fut) (S : Store) : Fut × Store :=
  if nn then (f, S) else mkMap .catchError f S

/-- The non-null branch of completeValue (after F-01b): `Err(null result)` on a ready ok nil, the
    inner future itself on any other ready result, `Map(fut, check)` when not ready — which is
    `mkMap` of the check. -/
def nonNullWrap (nn : Bool) (path : Path) (f : Fut) (S : Store) : Fut × Store :=
  if nn then mkMap (.nonNull ⟨path, nonNullMsg⟩) f S else (f, S)

/-- The value of a `__typename` slot (the plan carries the type name as a scalar). -/
def tnameVal : Comp → Val
  | .scalar s => .scalar s
  | _ => .null

/-- `executeField`: call the resolver (event `start`), then either complete the value
    (`completed` is `complete nn c itemPath`, passed in so that the recursion stays structural),
    return the resolver's error, or adapt the promise with `Then(New(select…), continuation)`. -/
def execField (nn : Bool) (mode : Mode) (rerr : Option String) (c : Comp) (itemPath : Path)
    (completed : Store → Fut × Store) (S : Store) : Fut × Store :=
  let S0 := S.push (.start itemPath)
  match mode with
  | .sync | .tname =>
    match rerr with
    | some msg => (.ready (.err ⟨itemPath, msg⟩), S0)
    | none => completed S0
  | .promise =>
    let res : Res := match rerr with | some msg => .err ⟨[], msg⟩ | none => .ok .null
    (.thenK nn c itemPath (.promise S0.nextId res) none,
     { S0 with nextId := S0.nextId + 1, outstanding := S0.outstanding ++ [(S0.nextId, itemPath)] })
  | .pre =>
    let res : Res := match rerr with | some msg => .err ⟨[], msg⟩ | none => .ok .null
    (.thenK nn c itemPath (.promise S0.nextId res) none,
     { (S0.push (.fulfil itemPath)) with nextId := S0.nextId + 1, chan := S0.chan ++ [S0.nextId] })

mutual
  /-- `completeValue(fieldType, fields, result, path)`; `nn` says whether fieldType is NonNull. -/
  def complete (nn : Bool) (c : Comp) (path : Path) (S : Store) : Fut × Store :=
    match c with
    | .null => nonNullWrap nn path (.ready (.ok .null)) S
    | .scalar s => nonNullWrap nn path (.ready (.ok (.scalar s))) S
    | .bad msg => nonNullWrap nn path (.ready (.err ⟨path, msg⟩)) S
    | .list inn items =>
      let (fs, S1) := completeItems inn items path 0 S
      nonNullWrap nn path (mkMapOkToAny (mkJoin fs)) S1
    | .object fields =>
      let (f, S1) := execFields fields path fields.length 0 [] S
      nonNullWrap nn path (mkMapOkToAny f) S1
  /-- The item loop of the list branch: `catchErrorIfNullable(innerType, completeValue(innerType, item, path+[i]))`. -/
  def completeItems (inn : Bool) (items : List Comp) (path : Path) (i : Nat) (S : Store) : List Fut × Store :=
    match items with
    | [] => ([], S)
    | c :: rest =>
      let (f, S1) := complete inn c (path ++ [.idx i]) S
      let (f', S2) := catchIfNullable inn f S1
      let (fs, S3) := completeItems inn rest path (i + 1) S2
      (f' :: fs, S3)
  /-- The field loop of `executeSelections` with forceSerial = false. `n` is the length of the
      pre-sized result map of the object at `path`, `i` the slot index, `acc` the `futures` slice. -/
  def execFields (fields : List Field) (path : Path) (n : Nat) (i : Nat) (acc : List Fut) (S : Store) : Fut × Store :=
    match fields with
    | [] => (mkMapOkValue (.obj path n) (mkAfter acc), S)
    | .mk key nn mode rerr c :: rest =>
      match mode with
      | .tname =>
        -- resultMap.Set(i, responseKey, objectType.Name); continue
        execFields rest path n (i + 1) acc (S.push (.write path i key (tnameVal c)))
      | _ =>
        let itemPath := path ++ [.key key]
        let (f0, S1) := execField nn mode rerr c itemPath (fun S' => complete nn c itemPath S') S
        let (f, S2) := catchIfNullable nn f0 S1
        match f with
        | .ready (.err e) => (.ready (.err e), S2)                  -- wait(ready) → return future.Err(err)
        | .ready (.ok v) => execFields rest path n (i + 1) acc (S2.push (.write path i key v))
        | f => execFields rest path n (i + 1) (acc ++ [.mapOk (.setSlot path i key) f]) S2
end

/-- The `Then` continuation of executeField applied to the delivered result. -/
def applyK (nn : Bool) (c : Comp) (path : Path) (r : Res) (S : Store) : Fut × Store :=
  match r with
  | .ok _ => complete nn c path S
  | .err e => (.ready (.err ⟨path, e.msg⟩), S)

/-! ### Building a scripted term (combinator-level tests): run the constructors bottom-up -/

mutual
  def construct (t : Fut) (S : Store) : Fut × Store :=
    match t with
    | .ready r => (.ready r, S)
    | .promise id res => (.promise id res, S)
    | .map fn t => let (f, S1) := construct t S; mkMap fn f S1
    | .mapOk fn t => let (f, S1) := construct t S; mkMapOk fn f S1
    | .mapOkToAny t => let (f, S1) := construct t S; (mkMapOkToAny f, S1)
    | .mapOkValue v t => let (f, S1) := construct t S; (mkMapOkValue v f, S1)
    | .thenK nn c path t cont => (.thenK nn c path t cont, S)
    | .thenT tag a b t (some k) => (.thenT tag a b t (some k), S)   -- already running: not a description
    | .thenT tag a b t none =>
      let (f, S1) := construct t S
      match f with
      | .ready r =>
        -- Then over a ready future calls the continuation at once and returns its future
        let S2 := S1.push (.note ("then:" ++ tag ++ ":" ++ showRes r))
        if r.isOk then construct a S2 else construct b S2
      | f => (.thenT tag a b f none, S1)
    | .join ts => let (fs, S1) := constructAll ts S; (mkJoin fs, S1)
    | .after ts => let (fs, S1) := constructAll ts S; (mkAfter fs, S1)
  def constructAll (ts : List Fut) (S : Store) : List Fut × Store :=
    match ts with
    | [] => ([], S)
    | t :: rest =>
      let (f, S1) := construct t S
      let (fs, S2) := constructAll rest S1
      (f :: fs, S2)
end

/-! ## poll -/

mutual
  /-- A bound on the weight of the future `complete nn c …` builds (`complete_weight`). -/
  def Comp.weight : Comp → Nat
    | .null => 2
    | .scalar _ => 2
    | .bad _ => 2
    | .list _ items => 4 + Comp.weightL items
    | .object fields => 5 + Field.weightL fields
  def Comp.weightL : List Comp → Nat
    | [] => 0
    | c :: cs => 3 + c.weight + Comp.weightL cs
  def Field.weightL : List Field → Nat
    | [] => 0
    | .mk _ _ _ _ c :: fs => 6 + c.weight + Field.weightL fs
end

mutual
  def Fut.weight : Fut → Nat
    | .ready _ => 1
    | .promise _ _ => 1
    | .map _ f => 1 + f.weight
    | .mapOk _ f => 1 + f.weight
    | .mapOkToAny f => 1 + f.weight
    | .mapOkValue _ f => 1 + f.weight
    | .thenK _ c _ f cont => 1 + Comp.weight c + f.weight + Fut.weightO cont
    | .thenT _ a b f cont => 1 + a.weight + b.weight + f.weight + Fut.weightO cont
    | .join fs => 1 + Fut.weightL fs
    | .after fs => 1 + Fut.weightL fs
  def Fut.weightO : Option Fut → Nat
    | none => 0
    | some g => g.weight
  def Fut.weightL : List Fut → Nat
    | [] => 0
    | f :: fs => 1 + f.weight + Fut.weightL fs
end

mutual
  /--
  `f.Poll()` through a pointer: a ready future is left alone; otherwise its poll closure runs and,
  when it reports a result, the holder stores it and drops the closure (`ready r`).
  Returns the new state of the future, the store, and the result if it is (now) ready.
  -/
  def poll (f : Fut) (S : Store) : Fut × Store × Option Res :=
    match f with
    | .ready r => (.ready r, S, some r)
    | .promise id res =>
      -- select { case r := <-ch: … default: not ready }
      if id ∈ S.chan then (.ready res, { S with chan := S.chan.erase id }, some res)
      else (.promise id res, S, none)
    | .map fn g =>
      match poll g S with
      | (_, S1, some r) => let (r', S2) := applyMap fn r S1; (.ready r', S2, some r')
      | (g', S1, none) => (.map fn g', S1, none)
    | .mapOk fn g =>
      match poll g S with
      | (_, S1, some (.ok v)) => let (v', S2) := applyOk fn v S1; (.ready (.ok v'), S2, some (.ok v'))
      | (_, S1, some (.err e)) => (.ready (.err e), S1, some (.err e))   -- F-02a: the error is forwarded
      | (g', S1, none) => (.mapOk fn g', S1, none)
    | .mapOkToAny g =>
      match poll g S with
      | (_, S1, some r) => (.ready r, S1, some r)
      | (g', S1, none) => (.mapOkToAny g', S1, none)
    | .mapOkValue v g =>
      match poll g S with
      | (_, S1, some (.ok _)) => (.ready (.ok v), S1, some (.ok v))
      | (_, S1, some (.err e)) => (.ready (.err e), S1, some (.err e))
      | (g', S1, none) => (.mapOkValue v g', S1, none)
    | .thenK nn c path g none =>
      -- if !hasThen { if r, ok := fpoll(); ok { then = fn(r); hasThen = true } }; if hasThen { then.Poll(); … }
      match poll g S with
      | (g', S1, some r) =>
        let built := applyK nn c path r S1
        if _h : built.1.weight < (Fut.thenK nn c path g none).weight then
          match poll built.1 built.2 with
          | (_, S3, some r') => (.ready r', S3, some r')
          | (t', S3, none) => (.thenK nn c path g' (some t'), S3, none)
        else
          (.thenK nn c path g' none, { S1 with crash := true }, none)   -- unreachable (`complete_weight`)
      | (g', S1, none) => (.thenK nn c path g' none, S1, none)
    | .thenK nn c path g (some t) =>
      match poll t S with
      | (_, S1, some r) => (.ready r, S1, some r)
      | (t', S1, none) => (.thenK nn c path g (some t'), S1, none)
    | .thenT tag a b g none =>
      match poll g S with
      | (g', S1, some r) =>
        let S2 := S1.push (.note ("then:" ++ tag ++ ":" ++ showRes r))
        let built := if r.isOk then construct a S2 else construct b S2
        if _h : built.1.weight < (Fut.thenT tag a b g none).weight then
          match poll built.1 built.2 with
          | (_, S3, some r') => (.ready r', S3, some r')
          | (t', S3, none) => (.thenT tag a b g' (some t'), S3, none)
        else
          (.thenT tag a b g' none, { S2 with crash := true }, none)     -- unreachable (`construct_weight`)
      | (g', S1, none) => (.thenT tag a b g' none, S1, none)
    | .thenT tag a b g (some t) =>
      match poll t S with
      | (_, S1, some r) => (.ready r, S1, some r)
      | (t', S1, none) => (.thenT tag a b g (some t'), S1, none)
    | .join fs =>
      match pollAll fs S with
      | (_, S1, .failed e) => (.ready (.err e), S1, some (.err e))
      | (_, S1, .done vs) => (.ready (.ok (.list vs)), S1, some (.ok (.list vs)))
      | (fs', S1, .pending) => (.join fs', S1, none)
    | .after fs =>
      match pollAll fs S with
      | (_, S1, .failed e) => (.ready (.err e), S1, some (.err e))
      | (_, S1, .done _) => (.ready (.ok .unit), S1, some (.ok .unit))
      | (fs', S1, .pending) => (.after fs', S1, none)
  termination_by f.weight
  decreasing_by
    all_goals first
      | assumption
      | (simp only [Fut.weight, Fut.weightO]; omega)
  /--
  The loop of Join's and After's poll closure: `for i := range fs { f := &fs[i]; f.Poll(); if
  f.IsReady() { if !ok → return the error at once } else { ok = false } }` — children are polled in
  place (F-02b), and the children after a failed one are not polled in that pass.
  -/
  def pollAll (fs : List Fut) (S : Store) : List Fut × Store × Pass :=
    match fs with
    | [] => ([], S, .done [])
    | f :: rest =>
      match poll f S with
      | (f', S1, some (.err e)) => (f' :: rest, S1, .failed e)
      | (f', S1, some (.ok v)) =>
        match pollAll rest S1 with
        | (rest', S2, .failed e) => (f' :: rest', S2, .failed e)
        | (rest', S2, .done vs) => (f' :: rest', S2, .done (v :: vs))
        | (rest', S2, .pending) => (f' :: rest', S2, .pending)
      | (f', S1, none) =>
        match pollAll rest S1 with
        | (rest', S2, .failed e) => (f' :: rest', S2, .failed e)
        | (rest', S2, _) => (f' :: rest', S2, .pending)
  termination_by Fut.weightL fs
  decreasing_by
    all_goals (simp only [Fut.weightL]; omega)
end

/-! ## The idle handler and `wait` -/

def testBit (m j : Nat) : Bool := (m / 2 ^ j) % 2 = 1

/-- Positions `j < n` selected by the mask (bit `j` set), counted from `j`. -/
def maskPicks (mask : Nat) (j : Nat) : Nat → List Bool
  | 0 => []
  | n + 1 => testBit mask j :: maskPicks mask (j + 1) n

/-- The selection the schedule's mask makes among `n` outstanding promises: bit `j` selects
    position `j`; an empty selection selects position 0; no mask selects everything. -/
def picks (mask : Option Nat) (n : Nat) : List Bool :=
  match mask with
  | none => List.replicate n true
  | some m =>
    let bs := maskPicks m 0 n
    if bs.any id then bs else
      match n with
      | 0 => []
      | k + 1 => true :: List.replicate k false

/-- Deliver the picked promises (creation order): `ch <- result`, event `fulfil`. -/
def deliver : List (Nat × Path) → List Bool → Store → Store
  | [], _, S => S
  | p :: ps, [], S => deliver ps [] { S with outstanding := S.outstanding ++ [p] }
  | p :: ps, b :: bs, S =>
    if b then deliver ps bs { (S.push (.fulfil p.2)) with chan := S.chan ++ [p.1] }
    else deliver ps bs { S with outstanding := S.outstanding ++ [p] }

/-- One call of the harness's IdleHandler. -/
def idleRound (mask : Option Nat) (S : Store) : Store :=
  let out := S.outstanding
  deliver out (picks mask out.length) { S with outstanding := [], rounds := S.rounds + 1 }

inductive WaitResult where
  | done (r : Res)
  | stuck        -- the idle handler is called with no outstanding promise: Go would spin forever
  | outOfFuel
  deriving Repr, Inhabited

/--
`wait(e, f)`: `f.Poll(); for !done { e.IdleHandler(); f.Poll() }` (the `Map` that captures the
result is transparent: `poll` already returns the result). `sched` is consumed one mask per idle
round. `fuel` bounds the number of idle rounds (`wait_fuel_sufficient`).
-/
def waitLoop : Nat → Fut → List Nat → Store → WaitResult × List Nat × Store
  | 0, f, sched, S =>
    match poll f S with
    | (_, S1, some r) => (.done r, sched, S1)
    | (_, S1, none) => (.outOfFuel, sched, S1)
  | fuel + 1, f, sched, S =>
    match poll f S with
    | (_, S1, some r) => (.done r, sched, S1)
    | (f', S1, none) =>
      if S1.outstanding.isEmpty then (.stuck, sched, { S1 with rounds := S1.rounds + 1 })
      else
        match sched with
        | [] => waitLoop fuel f' [] (idleRound none S1)
        | m :: ms => waitLoop fuel f' ms (idleRound (some m) S1)

/-! ## Requests -/

structure Request where
  mutation : Bool
  fields : List Field
  sched : List Nat
  /-- Which executor the request runs on: `true` = with the repair of finding F-11a
      (repo-patches/C11/01-fix-…): after waiting for a mutation root field, the serial loop receives
      the result of every promise returned beneath it — driving the idle handler while any is
      unfulfilled — before it goes on (`settleSerialPromises`); `false` = without it. -/
  settle : Bool := false
  deriving Inhabited

mutual
  def Comp.invocations : Comp → Nat
    | .list _ items => Comp.invocationsL items
    | .object fields => Field.invocationsL fields
    | _ => 0
  def Comp.invocationsL : List Comp → Nat
    | [] => 0
    | c :: cs => c.invocations + Comp.invocationsL cs
  def Field.invocationsL : List Field → Nat
    | [] => 0
    | .mk _ _ _ _ c :: fs => 1 + c.invocations + Field.invocationsL fs
end

/-- `settleSerialPromises` (repair of F-11a): receive what the channels of the promises returned
    beneath the current root field hold; while one of them is still unfulfilled call the idle
    handler and look again. After `wait` every promise that is still of interest has been received,
    so what is left belongs to futures nobody polls anymore; at most `n` rounds are needed when `n`
    promises are outstanding (every round fulfils at least one). -/
def settleLoop : Nat → List Nat → Store → List Nat × Store
  | 0, sched, S => (sched, { S with chan := [] })
  | n + 1, sched, S =>
    if S.outstanding.isEmpty then (sched, { S with chan := [] })
    else settleLoop n sched.tail (idleRound sched.head? S)

/-- `wait(e, f)` followed, on the repaired executor, by `settleSerialPromises`. -/
def waitSettle (settle : Bool) (fuel : Nat) (f : Fut) (sched : List Nat) (S : Store) :
    WaitResult × List Nat × Store :=
  match waitLoop fuel f sched S with
  | (.done r, sched', S3) =>
    if settle then ((.done r : WaitResult), (settleLoop S3.outstanding.length sched' S3).1,
      (settleLoop S3.outstanding.length sched' S3).2)
    else (.done r, sched', S3)
  | other => other

/-- The field loop of `executeSelections` with forceSerial = true (mutation root): each field's
    future is waited for — driving idle rounds — before the next field is touched. -/
def execSerial (settle : Bool) (fuel : Nat) : List Field → Nat → Nat → List Nat → Store → WaitResult × List Nat × Store
  | [], n, _, sched, S => (.done (.ok (.obj [] n)), sched, S)
  | .mk key nn mode rerr c :: rest, n, i, sched, S =>
    match mode with
    | .tname => execSerial settle fuel rest n (i + 1) sched (S.push (.write [] i key (tnameVal c)))
    | _ =>
      let (f0, S1) := execField nn mode rerr c [.key key] (complete nn c [.key key]) S
      let (f, S2) := catchIfNullable nn f0 S1
      match waitSettle settle fuel f sched S2 with
      | (.done (.err e), sched', S3) => (.done (.err e), sched', S3)
      | (.done (.ok v), sched', S3) => execSerial settle fuel rest n (i + 1) sched' (S3.push (.write [] i key v))
      | (w, sched', S3) => (w, sched', S3)

/-- `executeQuery` / `executeMutation`: run the root selection set, wait, move a root error into
    the error list. Returns the final result and store. -/
def execute (rq : Request) : WaitResult × Store :=
  let fuel := Field.invocationsL rq.fields + 1
  let S0 : Store := {}
  if rq.mutation then
    match execSerial rq.settle fuel rq.fields rq.fields.length 0 rq.sched S0 with
    | (.done (.err e), _, S) => (.done (.err e), S.push (.error e))
    | (w, _, S) => (w, S)
  else
    let (f, S1) := execFields rq.fields [] rq.fields.length 0 [] S0
    match waitLoop fuel f rq.sched S1 with
    | (.done (.err e), _, S) => (.done (.err e), S.push (.error e))
    | (w, _, S) => (w, S)

/-! ## Observables: reading the data back from the log -/

def errorsOf : List Entry → List Err
  | [] => []
  | .error e :: rest => e :: errorsOf rest
  | _ :: rest => errorsOf rest

/-- The last `Set` of slot `i` of the map of object `mp`. -/
def slotOf (mp : Path) (i : Nat) : List Entry → Option (String × Val)
  | [] => none
  | .write mp' i' key v :: rest =>
    match slotOf mp i rest with
    | some kv => some kv
    | none => if mp' = mp ∧ i' = i then some (key, v) else none
  | _ :: rest => slotOf mp i rest

def quote (s : String) : String := "\"" ++ s ++ "\""

/-- The text of slot `i` of the map of object `p`, given how to print values; an unset slot is
    the zero `OrderedMapItem`: `"":null`. -/
def slotText (rv : Val → String) (log : List Entry) (p : Path) (i : Nat) : String :=
  match slotOf p i log with
  | some (key, v) => quote key ++ ":" ++ rv v
  | none => quote "" ++ ":null"

/-- Slots `i, i+1, …, i+k-1`. -/
def slotTexts (rv : Val → String) (log : List Entry) (p : Path) : Nat → Nat → List String
  | 0, _ => []
  | k + 1, i => slotText rv log p i :: slotTexts rv log p k (i + 1)

/-- JSON text of a value; object slots are read from the log.
    `fuel` bounds the nesting depth (`run` passes more than any value can have). -/
def render : Nat → List Entry → Val → String
  | 0, _, _ => "<fuel>"
  | _ + 1, _, .null => "null"
  | _ + 1, _, .unit => "null"
  | _ + 1, _, .scalar s => s
  | f + 1, log, .list vs => "[" ++ ",".intercalate (vs.map (render f log)) ++ "]"
  | f + 1, log, .obj p n => "{" ++ ",".intercalate (slotTexts (render f log) log p n 0) ++ "}"

def segText : Seg → String
  | .key s => quote s
  | .idx n => toString n

def pathText (p : Path) : String := "[" ++ ",".intercalate (p.map segText) ++ "]"

structure Outcome where
  data : String
  errors : List Err
  rounds : Nat
  promises : Nat
  log : List Entry
  crash : Bool

def run (rq : Request) : Outcome :=
  match execute rq with
  | (.done (.ok v), S) => ⟨render (Field.weightL rq.fields + 6) S.log v, errorsOf S.log, S.rounds, S.nextId, S.log, S.crash⟩
  | (.done (.err _), S) => ⟨"null", errorsOf S.log, S.rounds, S.nextId, S.log, S.crash⟩
  | (.stuck, S) => ⟨"STUCK", errorsOf S.log, S.rounds, S.nextId, S.log, S.crash⟩
  | (.outOfFuel, S) => ⟨"OUT-OF-FUEL", errorsOf S.log, S.rounds, S.nextId, S.log, S.crash⟩

end ApiFu.C02
