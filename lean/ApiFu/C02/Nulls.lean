/-
  C02: every null left visible in the data because something failed has an error (core Lean only).

  `Spec.nulls rq` lists the positions of the response where the reference semantics puts a null
  *because of a failure* — a nullable field or list item whose resolver failed, or beneath which a
  field error propagated — each with its candidate set: the field errors that can explain it (the
  resolver's own error, or every field error of the failed sub-plan; all of them lie at or beneath
  the position). When the whole data is null the position is the root and the candidates are all
  field errors of the request. Which candidate a run reports may depend on the schedule; that it
  reports at least one does not:

      visible_null_has_error : ∀ rq (any async subset, any schedule), ∀ (p, C) ∈ Spec.nulls rq,
          ∃ e ∈ C, e ∈ (run rq).errors ∧ p <+: e.path

  `f.owedN` lists the candidate sets future `f` still has to hit before it resolves ok. Builders
  establish, and `poll` preserves,   "every candidate set of a visible null is owed (a subset of it
  is) or already hit by executor.Errors". Under a `CatchError` whose child is going to fail the owed
  set is the child's `pot` (the errors it may still emit, Errors.lean), which only shrinks.
-/
import ApiFu.C02.Required

namespace ApiFu.C02

namespace Spec

/-- Failure-nulls of one field invocation at `p`: a nullable field whose resolver fails is null
    because of that error; one whose value fails is null because of one of the field errors beneath
    (`cands`); a field that yields a value passes on the nulls beneath it (`inner`). -/
def nullHead (mode : Mode) (nn : Bool) (rerr : Option String) (p : Path) (ok : Bool)
    (inner : List (Path × List Err)) (cands : List Err) : List (Path × List Err) :=
  match mode with
  | .tname => []
  | _ =>
    match rerr with
    | some msg => if nn then [] else [(p, [⟨p, msg⟩])]
    | none => if ok then inner else if nn then [] else [(p, cands)]

mutual
  /-- Failure-nulls beneath a value that is visible in the data. -/
  def nullsC (nn : Bool) (c : Comp) (path : Path) : List (Path × List Err) :=
    if (comp nn c path).isOk then
      match c with
      | .list inn cs => nullsL inn cs path 0
      | .object fs => nullsF fs path
      | _ => []
    else []
  def nullsL (inn : Bool) (cs : List Comp) (path : Path) (i : Nat) : List (Path × List Err) :=
    match cs with
    | [] => []
    | c :: rest =>
      (if (comp inn c (path ++ [.idx i])).isOk then nullsC inn c (path ++ [.idx i])
       else if inn then [] else [(path ++ [.idx i], errsC inn c (path ++ [.idx i]))]) ++ nullsL inn rest path (i + 1)
  def nullsF (fs : List Field) (path : Path) : List (Path × List Err) :=
    match fs with
    | [] => []
    | .mk key nn mode rerr c :: rest =>
      nullHead mode nn rerr (path ++ [.key key]) (comp nn c (path ++ [.key key])).isOk
        (nullsC nn c (path ++ [.key key])) (errsC nn c (path ++ [.key key])) ++ nullsF rest path
end

/-- The nulls of the response that a failure explains, each with the field errors that can explain
    it. -/
def nulls (rq : Request) : List (Path × List Err) :=
  if fieldsOk rq.fields [] then nullsF rq.fields [] else [([], errsF rq.fields [])]

end Spec

/-- Some error of `C` is in executor.Errors. -/
def Hit (log : List Entry) (C : List Err) : Prop := ∃ e ∈ C, Rep log e

theorem Hit.mono {S S' : Store} (h : Mono S S') {C : List Err} (hh : Hit S.log C) : Hit S'.log C := by
  obtain ⟨e, he, hr⟩ := hh; exact ⟨e, he, hr.mono h⟩

/-- A subset of `C` is among the owed sets. -/
def Owes (sets : List (List Err)) (C : List Err) : Prop := ∃ C' ∈ sets, ∀ e ∈ C', e ∈ C

theorem Owes.nil {C : List Err} (h : Owes [] C) : False := by
  obtain ⟨_, h, _⟩ := h; cases h

theorem Owes.append {a b : List (List Err)} {C : List Err} : Owes (a ++ b) C ↔ Owes a C ∨ Owes b C := by
  constructor
  · rintro ⟨C', hm, hs⟩
    rcases List.mem_append.mp hm with h | h
    · exact Or.inl ⟨C', h, hs⟩
    · exact Or.inr ⟨C', h, hs⟩
  · rintro (⟨C', hm, hs⟩ | ⟨C', hm, hs⟩)
    · exact ⟨C', List.mem_append_left _ hm, hs⟩
    · exact ⟨C', List.mem_append_right _ hm, hs⟩

def setsOf (l : List (Path × List Err)) : List (List Err) := l.map Prod.snd

theorem setsOf_append (a b : List (Path × List Err)) : setsOf (a ++ b) = setsOf a ++ setsOf b := by
  simp [setsOf]

theorem Owes.of_mem {l : List (Path × List Err)} {pc : Path × List Err} (h : pc ∈ l) : Owes (setsOf l) pc.2 :=
  ⟨pc.2, List.mem_map_of_mem h, fun _ h => h⟩

mutual
  /-- Candidate sets `f` still has to hit before it resolves ok. -/
  def Fut.owedN : Fut → List (List Err)
    | .ready _ => []
    | .promise _ _ => []
    | .map .catchError g => if g.out.isOk then g.owedN else [g.pot]
    | .map (.nonNull _) g => g.owedN
    | .map (.tap _) g => g.owedN
    | .mapOk _ g => g.owedN
    | .mapOkToAny g => g.owedN
    | .mapOkValue _ g => g.owedN
    | .thenK nn c path g none => if g.out.isOk then setsOf (Spec.nullsC nn c path) else []
    | .thenK _ _ _ _ (some t) => t.owedN
    | .thenT _ _ _ _ _ => []
    | .join gs => if (Fut.outs gs).isSome then Fut.owedNL gs else []
    | .after gs => if (Fut.outs gs).isSome then Fut.owedNL gs else []
  def Fut.owedNL : List Fut → List (List Err)
    | [] => []
    | g :: gs => g.owedN ++ Fut.owedNL gs
end

/-! ### what a future may still emit only shrinks -/

theorem count_log_le {S S' : Store} (h : Mono S S') (e : Err) : (errorsOf S.log).count e ≤ (errorsOf S'.log).count e := by
  obtain ⟨l, hl⟩ := h.log
  rw [hl, errorsOf_append, List.count_append]; omega

theorem mem_of_cnt_le {e : Err} {a b : List Err} {n m : Nat} (h : m + a.count e ≤ n + b.count e) (hnm : n ≤ m)
    (he : e ∈ a) : e ∈ b := by
  have := List.count_pos_iff.mpr he
  exact List.count_pos_iff.mp (by omega)

theorem poll_pot_sub (f : Fut) (S : Store) (hs : f.shaped = true) : ∀ e ∈ (poll f S).1.pot, e ∈ f.pot := by
  intro e he
  have h := (poll_cnt_aux.1 f S hs).1 e
  exact mem_of_cnt_le h (count_log_le (poll_mono f S) e) he

theorem poll_err_mem_pot {f f' : Fut} {S S1 : Store} {e : Err} (hs : f.shaped = true)
    (hp : poll f S = (f', S1, some (.err e))) : e ∈ f.pot := by
  have hr := poll_some_ready f S f' S1 _ hp
  have := poll_pot_sub f S hs e (by rw [hp]; simp [hr, Fut.pot])
  exact this

theorem poll_shaped (f : Fut) (S : Store) (hs : f.shaped = true) : (poll f S).1.shaped = true :=
  (poll_cnt_aux.1 f S hs).2

theorem complete_pot_sub (nn : Bool) (c : Comp) (path : Path) (S : Store) :
    ∀ e ∈ (complete nn c path S).1.pot, e ∈ Spec.errsC nn c path := by
  intro e he
  exact mem_of_cnt_le ((complete_cnt_aux e).1 nn c path S).1 (count_log_le (complete_mono nn c path S) e) he

theorem execField_pot_sub (nn : Bool) (mode : Mode) (rerr : Option String) (c : Comp) (p : Path) (S : Store) :
    ∀ e ∈ (execField nn mode rerr c p (fun S' => complete nn c p S') S).1.pot, e ∈ fieldErrs nn rerr c p := by
  intro e he
  have h := (execField_cnt nn mode rerr c p (fun S' => complete nn c p S') S e
    (fun S' => (complete_cnt_aux e).1 nn c p S')).1
  exact mem_of_cnt_le h (count_log_le (execField_mono nn mode rerr c p _ S (fun S' => complete_mono _ _ _ _)) e) he

/-! ### constructors -/

/-- `CatchError` over a future that is going to fail: a subset of its candidates is owed, or — if
    it had failed already — its error has just been appended. -/
theorem catch_null_fail (f : Fut) (S : Store) (hok : f.out.isOk = false) (C : List Err) (hsub : ∀ e ∈ f.pot, e ∈ C) :
    Owes (catchIfNullable false f S).1.owedN C ∨ Hit (catchIfNullable false f S).2.log C := by
  simp only [catchIfNullable, Bool.false_eq_true, if_false]
  cases f with
  | ready r =>
    cases r with
    | ok v => simp [Fut.out, Res.out, Out.isOk] at hok
    | err e0 =>
      refine Or.inr ⟨e0, hsub e0 (by simp [Fut.pot]), ?_⟩
      simp only [mkMap, applyMap]; exact Rep.push_error S e0
  | _ => exact Or.inl ⟨_, by simp [mkMap, Fut.owedN, hok], hsub⟩

/-- `CatchError` over a future that is going to yield a value keeps what it owes. -/
theorem catch_null_ok (nn : Bool) (f : Fut) (S : Store) (hok : f.out.isOk = true) (C : List Err) (h : Owes f.owedN C) :
    Owes (catchIfNullable nn f S).1.owedN C := by
  cases nn with
  | true => simpa [catchIfNullable] using h
  | false =>
    simp only [catchIfNullable, Bool.false_eq_true, if_false]
    cases f with
    | ready r => exact absurd h (by simp [Fut.owedN, Owes])
    | _ => simpa [mkMap, Fut.owedN, hok] using h

theorem mkMap_owedN_nonNull (e0 : Err) (f : Fut) (S : Store) : (mkMap (.nonNull e0) f S).1.owedN = f.owedN := by
  cases f <;> simp [mkMap, Fut.owedN]

theorem nonNullWrap_owedN (nn : Bool) (path : Path) (f : Fut) (S : Store) :
    (nonNullWrap nn path f S).1.owedN = f.owedN := by
  unfold nonNullWrap; cases nn <;> simp [mkMap_owedN_nonNull]

theorem mkMapOkToAny_owedN (f : Fut) : (mkMapOkToAny f).owedN = f.owedN := by
  cases f <;> simp [mkMapOkToAny, Fut.owedN]

theorem mkMapOkValue_owedN (v : Val) (f : Fut) : (mkMapOkValue v f).owedN = f.owedN := by
  cases f with
  | ready r => cases r <;> simp [mkMapOkValue, Fut.owedN]
  | _ => simp [mkMapOkValue, Fut.owedN]

theorem scanReady_done_owedN (fs : List Fut) (vs : List Val) (h : scanReady fs = .done vs) : Fut.owedNL fs = [] := by
  induction fs generalizing vs with
  | nil => rfl
  | cons f rest ih =>
    cases f with
    | ready r =>
      cases r with
      | ok v =>
        simp only [scanReady] at h
        cases hr : scanReady rest with
        | done vs' => simp [Fut.owedNL, Fut.owedN, ih vs' hr]
        | failed e => simp [hr] at h
        | pending => simp [hr] at h
      | err e => simp [scanReady] at h
    | _ => simp only [scanReady] at h; split at h <;> cases h

theorem mkJoin_owedN (fs : List Fut) (h : (Fut.outs fs).isSome = true) : (mkJoin fs).owedN = Fut.owedNL fs := by
  have hs := scanReady_out fs
  unfold mkJoin
  split
  · rename_i e he; rw [hs.1 e he] at h; simp at h
  · rename_i vs he; simp [Fut.owedN, scanReady_done_owedN fs vs he]
  · simp [Fut.owedN, h]

theorem mkAfter_owedN (fs : List Fut) (h : (Fut.outs fs).isSome = true) : (mkAfter fs).owedN = Fut.owedNL fs := by
  have hs := scanReady_out fs
  unfold mkAfter
  split
  · rename_i e he; rw [hs.1 e he] at h; simp at h
  · rename_i vs he; simp [Fut.owedN, scanReady_done_owedN fs vs he]
  · simp [Fut.owedN, h]

theorem owedNL_append_one (acc : List Fut) (g : Fut) : Fut.owedNL (acc ++ [g]) = Fut.owedNL acc ++ g.owedN := by
  induction acc with
  | nil => simp [Fut.owedNL]
  | cons a acc ih => simp [Fut.owedNL, ih]

/-! ### builders -/

/-- Either a subset of `C` is owed by `f`, or `C` has been hit. -/
def Good (f : Fut) (S : Store) (C : List Err) : Prop := Owes f.owedN C ∨ Hit S.log C

theorem execField_nulls (nn : Bool) (mode : Mode) (c : Comp) (p : Path) (completed : Store → Fut × Store) (S : Store)
    (hm : mode ≠ .tname) (C : List Err) (hC : Owes (setsOf (Spec.nullsC nn c p)) C)
    (hc : ∀ S', Good (completed S').1 (completed S').2 C) :
    Good (execField nn mode none c p completed S).1 (execField nn mode none c p completed S).2 C := by
  unfold execField
  cases mode with
  | tname => exact absurd rfl hm
  | sync => exact hc _
  | promise => exact Or.inl (by simpa [Fut.owedN, Fut.out, Res.out, Out.isOk] using hC)
  | pre => exact Or.inl (by simpa [Fut.owedN, Fut.out, Res.out, Out.isOk] using hC)

theorem mem_nullHead_sets {mode : Mode} {nn : Bool} {rerr : Option String} {p : Path} {ok : Bool}
    {inner : List (Path × List Err)} {cands : List Err} {C : List Err}
    (h : Owes (setsOf (Spec.nullHead mode nn rerr p ok inner cands)) C) (hm : mode ≠ .tname) :
    (∃ msg, rerr = some msg ∧ nn = false ∧ (⟨p, msg⟩ : Err) ∈ C) ∨
    (rerr = none ∧ ok = true ∧ Owes (setsOf inner) C) ∨
    (rerr = none ∧ ok = false ∧ nn = false ∧ ∀ e ∈ cands, e ∈ C) := by
  cases mode with
  | tname => exact absurd rfl hm
  | _ =>
    all_goals
      simp only [Spec.nullHead] at h
      cases rerr with
      | some msg =>
        cases nn with
        | true => exact absurd h (by simp [setsOf, Owes])
        | false =>
          obtain ⟨C', hm', hs⟩ := h
          simp [setsOf] at hm'
          subst hm'
          exact Or.inl ⟨msg, rfl, rfl, hs _ (by simp)⟩
      | none =>
        cases ok with
        | true => exact Or.inr (Or.inl ⟨rfl, rfl, by simpa using h⟩)
        | false =>
          cases nn with
          | true => exact absurd h (by simp [setsOf, Owes])
          | false =>
            obtain ⟨C', hm', hs⟩ := h
            simp [setsOf] at hm'
            subst hm'
            exact Or.inr (Or.inr ⟨rfl, rfl, rfl, hs⟩)

/-- The future of one field, after `catchErrorIfNullable`, owes or has hit every candidate set of
    that field. -/
theorem fieldStep_nulls (path : Path) (key : String) (nn : Bool) (mode : Mode) (rerr : Option String) (c : Comp)
    (S S1 S11 : Store) (f f1 : Fut) (hm : mode ≠ .tname)
    (ihc : ∀ S' C, Owes (setsOf (Spec.nullsC nn c (path ++ [.key key]))) C →
      Good (complete nn c (path ++ [.key key]) S').1 (complete nn c (path ++ [.key key]) S').2 C)
    (h1 : execField nn mode rerr c (path ++ [.key key]) (fun S' => complete nn c (path ++ [.key key]) S') S = (f, S1))
    (h2 : catchIfNullable nn f S1 = (f1, S11)) (C : List Err)
    (hC : Owes (setsOf (Spec.nullHead mode nn rerr (path ++ [.key key]) (Spec.comp nn c (path ++ [.key key])).isOk
        (Spec.nullsC nn c (path ++ [.key key])) (Spec.errsC nn c (path ++ [.key key])))) C) :
    Good f1 S11 C := by
  have hfout := execField_out nn mode rerr c (path ++ [.key key]) (fun S' => complete nn c (path ++ [.key key]) S') S
    (fun S' => complete_out _ _ _ _)
  have hpot := execField_pot_sub nn mode rerr c (path ++ [.key key]) S
  rw [h1] at hfout hpot
  simp only at hfout hpot
  have hcm := catchIfNullable_mono nn f S1
  rw [h2] at hcm
  rcases mem_nullHead_sets hC hm with ⟨msg, rfl, rfl, hmem⟩ | ⟨rfl, hok, hin⟩ | ⟨rfl, hok, rfl, hsub⟩
  · have := catch_null_fail f S1 (by rw [hfout]; rfl) C (fun e he => by
      have := hpot e he; simp only [fieldErrs, List.mem_singleton] at this; rw [this]; exact hmem)
    rw [h2] at this; exact this
  · have hgood := execField_nulls nn mode c (path ++ [.key key]) (fun S' => complete nn c (path ++ [.key key]) S') S hm C hin
      (fun S' => ihc S' C hin)
    rw [h1] at hgood
    rcases hgood with hg | hg
    · have := catch_null_ok nn f S1 (by rw [hfout]; exact hok) C hg
      rw [h2] at this; exact Or.inl this
    · exact Or.inr (hg.mono hcm)
  · have := catch_null_fail f S1 (by rw [hfout]; exact hok) C (fun e he => hsub e (by
      have := hpot e he; simpa [fieldErrs] using this))
    rw [h2] at this; exact this

theorem itemStep_nulls (inn : Bool) (c : Comp) (p : Path) (S S1 S11 : Store) (f f1 : Fut)
    (ih1 : ∀ C, Owes (setsOf (Spec.nullsC inn c p)) C → Good (complete inn c p S).1 (complete inn c p S).2 C)
    (h1 : complete inn c p S = (f, S1)) (h2 : catchIfNullable inn f S1 = (f1, S11)) (C : List Err)
    (hC : Owes (setsOf (if (Spec.comp inn c p).isOk then Spec.nullsC inn c p
      else if inn then [] else [(p, Spec.errsC inn c p)])) C) :
    Good f1 S11 C := by
  have hfout : f.out = Spec.comp inn c p := by have := complete_out inn c p S; rw [h1] at this; exact this
  have hpot := complete_pot_sub inn c p S
  have hcm := catchIfNullable_mono inn f S1
  rw [h2] at hcm
  rw [h1] at ih1 hpot
  simp only at hpot
  by_cases hok : (Spec.comp inn c p).isOk = true
  · simp only [hok, if_true] at hC
    rcases ih1 C hC with h | h
    · have := catch_null_ok inn f S1 (by rw [hfout]; exact hok) C h
      rw [h2] at this; exact Or.inl this
    · exact Or.inr (h.mono hcm)
  · have hok' : (Spec.comp inn c p).isOk = false := by simpa using hok
    simp only [hok', Bool.false_eq_true, if_false] at hC
    cases inn with
    | true => exact absurd hC (by simp [setsOf, Owes])
    | false =>
      simp only [Bool.false_eq_true, if_false] at hC
      obtain ⟨C', hm', hs⟩ := hC
      simp [setsOf] at hm'
      subst hm'
      have := catch_null_fail f S1 (by rw [hfout]; exact hok') C (fun e he => hs e (hpot e he))
      rw [h2] at this; exact this

theorem setsOf_nullsF_cons (key : String) (nn : Bool) (mode : Mode) (rerr : Option String) (c : Comp)
    (rest : List Field) (path : Path) :
    setsOf (Spec.nullsF (.mk key nn mode rerr c :: rest) path) =
      setsOf (Spec.nullHead mode nn rerr (path ++ [.key key]) (Spec.comp nn c (path ++ [.key key])).isOk
        (Spec.nullsC nn c (path ++ [.key key])) (Spec.errsC nn c (path ++ [.key key]))) ++
      setsOf (Spec.nullsF rest path) := by
  simp [Spec.nullsF, setsOf_append]

/-- After building, every candidate set of a failure-null beneath a visible value is owed by the
    returned future or already hit. -/
theorem complete_nulls_aux :
    (∀ nn c path S, ∀ C, Owes (setsOf (Spec.nullsC nn c path)) C →
      Good (complete nn c path S).1 (complete nn c path S).2 C) ∧
    (∀ fields path n i acc S, (Fut.outs acc).isSome = true → Spec.fieldsOk fields path = true →
      ∀ C, (Owes (Fut.owedNL acc) C ∨ Owes (setsOf (Spec.nullsF fields path)) C) →
        Good (execFields fields path n i acc S).1 (execFields fields path n i acc S).2 C) ∧
    (∀ inn items path i S, (Spec.items inn items path i).isSome = true →
      ∀ C, Owes (setsOf (Spec.nullsL inn items path i)) C →
        Owes (Fut.owedNL (completeItems inn items path i S).1) C ∨ Hit (completeItems inn items path i S).2.log C) := by
  apply complete.mutual_induct
    (motive_1 := fun nn c path S => ∀ C, Owes (setsOf (Spec.nullsC nn c path)) C →
      Good (complete nn c path S).1 (complete nn c path S).2 C)
    (motive_2 := fun fields path n i acc S => (Fut.outs acc).isSome = true → Spec.fieldsOk fields path = true →
      ∀ C, (Owes (Fut.owedNL acc) C ∨ Owes (setsOf (Spec.nullsF fields path)) C) →
        Good (execFields fields path n i acc S).1 (execFields fields path n i acc S).2 C)
    (motive_3 := fun inn items path i S => (Spec.items inn items path i).isSome = true →
      ∀ C, Owes (setsOf (Spec.nullsL inn items path i)) C →
        Owes (Fut.owedNL (completeItems inn items path i S).1) C ∨ Hit (completeItems inn items path i S).2.log C)
  · intro nn path S C h; exact absurd h (by simp [Spec.nullsC, setsOf, Owes])
  · intro nn path S a C h; exact absurd h (by simp [Spec.nullsC, setsOf, Owes])
  · intro nn path S a C h; exact absurd h (by simp [Spec.nullsC, setsOf, Owes])
  · intro nn path S inn items fs S1 h ih C hC
    have hsome : (Spec.items inn items path 0).isSome = true := by
      simp only [Spec.nullsC, Spec.comp] at hC
      cases hi : Spec.items inn items path 0 <;> simp_all [Out.isOk, setsOf, Owes]
    have hcl : Owes (setsOf (Spec.nullsL inn items path 0)) C := by
      simp only [Spec.nullsC] at hC
      split at hC
      · exact hC
      · exact absurd hC (by simp [setsOf, Owes])
    have ih := ih hsome C hcl; rw [h] at ih
    have houts : Fut.outs fs = Spec.items inn items path 0 := by
      have := complete_out_aux.2.2 inn items path 0 S; rw [h] at this; exact this
    simp only [Good, complete, h, nonNullWrap_owedN, mkMapOkToAny_owedN, mkJoin_owedN fs (by rw [houts]; exact hsome)]
    rcases ih with h1 | h1
    · exact Or.inl h1
    · exact Or.inr (h1.mono (nonNullWrap_mono _ _ _ _))
  · intro nn path S fields f S1 h ih C hC
    have hok : Spec.fieldsOk fields path = true := by
      simp only [Spec.nullsC, Spec.comp] at hC
      cases hi : Spec.fieldsOk fields path <;> simp_all [Out.isOk, setsOf, Owes]
    have hcl : Owes (setsOf (Spec.nullsF fields path)) C := by
      simp only [Spec.nullsC] at hC
      split at hC
      · exact hC
      · exact absurd hC (by simp [setsOf, Owes])
    have ih := ih (by simp [Fut.outs]) hok C (Or.inr hcl); rw [h] at ih
    simp only [Good, complete, h, nonNullWrap_owedN, mkMapOkToAny_owedN]
    rcases ih with h1 | h1
    · exact Or.inl h1
    · exact Or.inr (h1.mono (nonNullWrap_mono _ _ _ _))
  · intro inn path i S _ C h; exact absurd h (by simp [Spec.nullsL, setsOf, Owes])
  · intro inn path i S c rest f S1 h1 f1 S11 h2 fs S2 h3 ih1 ih2 hsome C hC
    have hrest := items_cons_some inn c rest path i hsome
    have hm3 := complete_mono_aux.2.2 inn rest path (i + 1) S11
    rw [h3] at hm3
    simp only [completeItems, h1, h2, h3, Fut.owedNL]
    simp only [Spec.nullsL, setsOf_append] at hC
    rcases Owes.append.mp hC with hC | hC
    · rcases itemStep_nulls inn c (path ++ [.idx i]) S S1 S11 f f1 ih1 h1 h2 C hC with h | h
      · exact Or.inl (Owes.append.mpr (Or.inl h))
      · exact Or.inr (h.mono hm3)
    · have ih2 := ih2 hrest C hC; rw [h3] at ih2
      rcases ih2 with h | h
      · exact Or.inl (Owes.append.mpr (Or.inr h))
      · exact Or.inr h
  · intro path n i acc S hacc _ C hC
    simp only [Good, execFields, mkMapOkValue_owedN, mkAfter_owedN acc hacc]
    rcases hC with h | h
    · exact Or.inl h
    · exact absurd h (by simp [Spec.nullsF, setsOf, Owes])
  · intro path n i acc S key nn rerr c rest ih hacc hok C hC
    rw [execFields_tname]
    have hok' : Spec.fieldsOk rest path = true := by rw [fieldsOk_cons] at hok; simp at hok; exact hok.2
    rcases hC with h | h
    · exact ih hacc hok' C (Or.inl h)
    · rw [setsOf_nullsF_cons] at h
      rcases Owes.append.mp h with h | h
      · exact absurd h (by simp [Spec.nullHead, setsOf, Owes])
      · exact ih hacc hok' C (Or.inr h)
  · intro path n i acc S key nn mode rerr c rest itemPath f S1 h1 S11 e' hm h2 ihc hacc hok C hC
    have hm' : mode ≠ .tname := fun h => hm h
    have hout := fieldStep_out path key nn mode rerr c S S1 S11 f _ hm' (fun S' => complete_out _ _ _ _) h1 h2
    rw [fieldsOk_cons, ← hout] at hok
    simp [Fut.out, Res.out, Out.isOk] at hok
  · intro path n i acc S key nn mode rerr c rest itemPath f S1 h1 S11 v hm h2 ihc ih hacc hok C hC
    have hm' : mode ≠ .tname := fun h => hm h
    have hok' : Spec.fieldsOk rest path = true := by rw [fieldsOk_cons] at hok; simp at hok; exact hok.2
    rw [execFields_cons path key nn mode rerr c rest n i acc S S1 S11 f _ hm' h1 h2, fieldCont_ready_ok]
    have hmr := complete_mono_aux.2.1 rest path n (i + 1) acc (S11.push (.write path i key v))
    rcases hC with h | h
    · exact ih hacc hok' C (Or.inl h)
    · rw [setsOf_nullsF_cons] at h
      rcases Owes.append.mp h with h | h
      · rcases fieldStep_nulls path key nn mode rerr c S S1 S11 f _ hm' (fun S' C hC => ihc S' C hC) h1 h2 C h with hc | hc
        · exact absurd hc (by simp [Fut.owedN, Owes])
        · exact Or.inr ((hc.mono (Mono.push _ _)).mono hmr)
      · exact ih hacc hok' C (Or.inr h)
  · intro path n i acc S key nn mode rerr c rest itemPath f S1 h1 S11 f1 hne hno hm h2 ihc ih hacc hok C hC
    have hm' : mode ≠ .tname := fun h => hm h
    have hout := fieldStep_out path key nn mode rerr c S S1 S11 f f1 hm' (fun S' => complete_out _ _ _ _) h1 h2
    have hok1 : f1.out.isOk = true := by rw [hout]; rw [fieldsOk_cons] at hok; simp at hok; exact hok.1
    have hok' : Spec.fieldsOk rest path = true := by rw [fieldsOk_cons] at hok; simp at hok; exact hok.2
    rw [execFields_cons path key nn mode rerr c rest n i acc S S1 S11 f f1 hm' h1 h2,
      fieldCont_async rest path n i acc key f1 S11 hne hno]
    have hacc' : (Fut.outs (acc ++ [Fut.mapOk (OkFn.setSlot path i key) f1])).isSome = true := by
      rw [outs_append_one]; simp only [hacc, Fut.out, Bool.true_and]
      cases hf : f1.out <;> simp_all [outOk, Out.isOk]
    have hmr := complete_mono_aux.2.1 rest path n (i + 1) (acc ++ [Fut.mapOk (OkFn.setSlot path i key) f1]) S11
    have ih := ih hacc' hok' C
    rw [owedNL_append_one] at ih
    simp only [Fut.owedN] at ih
    rcases hC with h | h
    · exact ih (Or.inl (Owes.append.mpr (Or.inl h)))
    · rw [setsOf_nullsF_cons] at h
      rcases Owes.append.mp h with h | h
      · rcases fieldStep_nulls path key nn mode rerr c S S1 S11 f f1 hm' (fun S' C hC => ihc S' C hC) h1 h2 C h with hc | hc
        · exact ih (Or.inl (Owes.append.mpr (Or.inr hc)))
        · exact Or.inr (hc.mono hmr)
      · exact ih (Or.inr h)

/-! ### poll -/

theorem pollAll_done_owedN (fs : List Fut) : ∀ (S : Store) (fs' : List Fut) (S' : Store) (vs : List Val),
    pollAll fs S = (fs', S', .done vs) → Fut.owedNL fs' = [] := by
  induction fs with
  | nil => intro S fs' S' vs h; rw [pollAll_nil] at h; cases h; rfl
  | cons f rest ih =>
    intro S fs' S' vs h
    rcases hp : poll f S with ⟨f', S1, o⟩
    cases o with
    | none =>
      rcases hp2 : pollAll rest S1 with ⟨rest', S2, p⟩
      rw [pollAll_cons_none hp hp2] at h
      cases p <;> simp at h
    | some r =>
      cases r with
      | err e => rw [pollAll_cons_err hp] at h; cases h
      | ok v =>
        rcases hp2 : pollAll rest S1 with ⟨rest', S2, p⟩
        rw [pollAll_cons_ok hp hp2] at h
        cases p with
        | done vs' =>
          simp only [Prod.mk.injEq] at h
          obtain ⟨rfl, _, _⟩ := h
          have hr := poll_some_ready f S f' S1 _ hp
          simp [Fut.owedNL, hr, Fut.owedN, ih S1 rest' S2 vs' hp2]
        | failed e => simp at h
        | pending => simp at h

theorem applyK_nulls (nn : Bool) (c : Comp) (path : Path) (r : Res) (S : Store) (hr : r.isOk = true) (C : List Err)
    (hC : Owes (setsOf (Spec.nullsC nn c path)) C) : Good (applyK nn c path r S).1 (applyK nn c path r S).2 C := by
  cases r with
  | ok v => simp only [applyK]; exact complete_nulls_aux.1 nn c path S C hC
  | err e => simp [Res.isOk] at hr

theorem owes_ready {r : Res} {C : List Err} (h : Owes (Fut.ready r).owedN C) : False := by
  simp [Fut.owedN, Owes] at h

/-- Polling never loses a candidate set: a subset of it stays owed, or it gets hit. -/
theorem poll_nulls_aux :
    (∀ f S, f.shaped = true → ∀ C, Owes f.owedN C → Good (poll f S).1 (poll f S).2.1 C) ∧
    (∀ fs S, Fut.shapedL fs = true → ∀ C, Owes (Fut.owedNL fs) C →
      Owes (Fut.owedNL (pollAll fs S).1) C ∨ Hit (pollAll fs S).2.1.log C) := by
  apply poll_induct'
    (P1 := fun f S => f.shaped = true → ∀ C, Owes f.owedN C → Good (poll f S).1 (poll f S).2.1 C)
    (P2 := fun fs S => Fut.shapedL fs = true → ∀ C, Owes (Fut.owedNL fs) C →
      Owes (Fut.owedNL (pollAll fs S).1) C ∨ Hit (pollAll fs S).2.1.log C)
  · intro r S _ C h; exact absurd h (by simp [Fut.owedN, Owes])
  · intro id res S _ C h; exact absurd h (by simp [Fut.owedN, Owes])
  · -- map
    intro fn g S ih hs C hC
    have hsg : g.shaped = true := by simpa [Fut.shaped] using hs
    have hres := poll_result_out g S
    have ho := poll_out g S
    have hpot := poll_pot_sub g S hsg
    rcases hp : poll g S with ⟨g', S1, o⟩
    rw [hp] at hres ho hpot
    simp only at ho hpot
    cases fn with
    | catchError =>
      simp only [Fut.owedN] at hC
      by_cases hok : g.out.isOk = true
      · simp only [hok, if_true] at hC
        have ih := ih hsg C hC; rw [hp] at ih
        cases o with
        | some r =>
          rw [poll_map_some hp]
          have hr := poll_some_ready g S g' S1 r hp
          rcases ih with h | h
          · rw [hr] at h; exact absurd h (fun h => owes_ready h)
          · exact Or.inr (h.mono (applyMap_mono _ _ _))
        | none =>
          rw [poll_map_none hp]
          simp only [Good, Fut.owedN, ho, hok, if_true]; exact ih
      · have hok' : g.out.isOk = false := by simpa using hok
        simp only [hok', Bool.false_eq_true, if_false] at hC
        obtain ⟨C', hm', hsub⟩ := hC
        simp only [List.mem_singleton] at hm'
        subst hm'
        cases o with
        | some r =>
          rw [poll_map_some hp]
          cases r with
          | ok v => have := hres _ rfl; rw [← this] at hok'; simp [Res.out, Out.isOk] at hok'
          | err e' =>
            have hmem := poll_err_mem_pot hsg hp
            exact Or.inr ⟨e', hsub e' hmem, by simp only [applyMap]; exact Rep.push_error S1 e'⟩
        | none =>
          rw [poll_map_none hp]
          refine Or.inl ⟨g'.pot, ?_, fun e he => hsub e (hpot e he)⟩
          simp [Fut.owedN, ho, hok']
    | nonNull e0 =>
      have ih := ih hsg C (by simpa [Fut.owedN] using hC); rw [hp] at ih
      cases o with
      | some r =>
        rw [poll_map_some hp]
        have hr := poll_some_ready g S g' S1 r hp
        rcases ih with h | h
        · rw [hr] at h; exact absurd h (fun h => owes_ready h)
        · exact Or.inr (h.mono (applyMap_mono _ _ _))
      | none => rw [poll_map_none hp]; simpa [Good, Fut.owedN] using ih
    | tap t =>
      have ih := ih hsg C (by simpa [Fut.owedN] using hC); rw [hp] at ih
      cases o with
      | some r =>
        rw [poll_map_some hp]
        have hr := poll_some_ready g S g' S1 r hp
        rcases ih with h | h
        · rw [hr] at h; exact absurd h (fun h => owes_ready h)
        · exact Or.inr (h.mono (applyMap_mono _ _ _))
      | none => rw [poll_map_none hp]; simpa [Good, Fut.owedN] using ih
  · intro fn g S ih hs C hC
    have hsg : g.shaped = true := by simpa [Fut.shaped] using hs
    have ih := ih hsg C (by simpa [Fut.owedN] using hC)
    rcases hp : poll g S with ⟨g', S1, o⟩
    rw [hp] at ih
    cases o with
    | some r =>
      have hr := poll_some_ready g S g' S1 r hp
      have hrep : Hit S1.log C := by
        rcases ih with h | h
        · rw [hr] at h; exact absurd h (fun h => owes_ready h)
        · exact h
      cases r with
      | ok v => rw [poll_mapOk_ok hp]; exact Or.inr (hrep.mono (applyOk_mono _ _ _))
      | err e' => rw [poll_mapOk_err hp]; exact Or.inr hrep
    | none => rw [poll_mapOk_none hp]; simpa [Good, Fut.owedN] using ih
  · intro g S ih hs C hC
    have hsg : g.shaped = true := by simpa [Fut.shaped] using hs
    have ih := ih hsg C (by simpa [Fut.owedN] using hC)
    rcases hp : poll g S with ⟨g', S1, o⟩
    rw [hp] at ih
    cases o with
    | some r =>
      rw [poll_mapOkToAny_some hp]
      have hr := poll_some_ready g S g' S1 r hp
      rcases ih with h | h
      · rw [hr] at h; exact absurd h (fun h => owes_ready h)
      · exact Or.inr h
    | none => rw [poll_mapOkToAny_none hp]; simpa [Good, Fut.owedN] using ih
  · intro v g S ih hs C hC
    have hsg : g.shaped = true := by simpa [Fut.shaped] using hs
    have ih := ih hsg C (by simpa [Fut.owedN] using hC)
    rcases hp : poll g S with ⟨g', S1, o⟩
    rw [hp] at ih
    cases o with
    | some r =>
      have hr := poll_some_ready g S g' S1 r hp
      have hrep : Hit S1.log C := by
        rcases ih with h | h
        · rw [hr] at h; exact absurd h (fun h => owes_ready h)
        · exact h
      cases r with
      | ok u => rw [poll_mapOkValue_ok hp]; exact Or.inr hrep
      | err e' => rw [poll_mapOkValue_err hp]; exact Or.inr hrep
    | none => rw [poll_mapOkValue_none hp]; simpa [Good, Fut.owedN] using ih
  · intro nn c path g S ih ihk hs C hC
    have hres := poll_result_out g S
    have ho := poll_out g S
    rcases hp : poll g S with ⟨g', S1, o⟩
    rw [hp] at hres ho
    simp only [Fut.owedN] at hC
    by_cases hok : g.out.isOk = true
    · simp only [hok, if_true] at hC
      cases o with
      | none =>
        rw [poll_thenK_wait hp]
        simp only at ho
        exact Or.inl (by simpa [Fut.owedN, ho, hok] using hC)
      | some r =>
        have hrok : r.isOk = true := by rw [← out_isOk_of_res (hres r rfl)]; exact hok
        have hk := applyK_nulls nn c path r S1 hrok C hC
        have hsk := (applyK_cnt nn c path r S1 0 ⟨[], ""⟩).2
        have ihk := ihk g' S1 r hp hsk C
        have hmono := poll_mono (applyK nn c path r S1).1 (applyK nn c path r S1).2
        rcases hp2 : poll (applyK nn c path r S1).1 (applyK nn c path r S1).2 with ⟨t', S3, o2⟩
        rw [hp2] at ihk hmono
        have hfinal : Good t' S3 C := by
          rcases hk with h | h
          · exact ihk h
          · exact Or.inr (h.mono hmono)
        cases o2 with
        | some r' =>
          rw [poll_thenK_fire_some hp hp2]
          have hr := poll_some_ready _ _ t' S3 r' hp2
          rcases hfinal with h | h
          · rw [hr] at h; exact absurd h (fun h => owes_ready h)
          · exact Or.inr h
        | none => rw [poll_thenK_fire_none hp hp2]; simpa [Good, Fut.owedN] using hfinal
    · exact absurd hC (by simp [hok, Owes])
  · intro nn c path g t S ih hs C hC
    have hst : t.shaped = true := by simpa [Fut.shaped] using hs
    have ih := ih hst C (by simpa [Fut.owedN] using hC)
    rcases hp : poll t S with ⟨t', S1, o⟩
    rw [hp] at ih
    cases o with
    | some r =>
      rw [poll_thenK_cont_some hp]
      have hr := poll_some_ready t S t' S1 r hp
      rcases ih with h | h
      · rw [hr] at h; exact absurd h (fun h => owes_ready h)
      · exact Or.inr h
    | none => rw [poll_thenK_cont_none hp]; simpa [Good, Fut.owedN] using ih
  · intro tag a b g S _ _ _ C h; exact absurd h (by simp [Fut.owedN, Owes])
  · intro tag a b g t S _ _ C h; exact absurd h (by simp [Fut.owedN, Owes])
  · intro fs S ih hs C hC
    have hsl : Fut.shapedL fs = true := by simpa [Fut.shaped] using hs
    have hout := poll_out_aux.2 fs S
    rcases hp : pollAll fs S with ⟨fs', S1, p⟩
    rw [hp] at hout
    simp only [Fut.owedN] at hC
    by_cases hok : (Fut.outs fs).isSome = true
    · simp only [hok, if_true] at hC
      have ih := ih hsl C hC; rw [hp] at ih
      cases p with
      | failed e0 => have := hout.2.1 e0 rfl; rw [this] at hok; simp at hok
      | done vs =>
        rw [poll_join_done hp]
        have := pollAll_done_owedN fs S fs' S1 vs hp
        rcases ih with h | h
        · rw [this] at h; exact absurd h (fun h => Owes.nil h)
        · exact Or.inr h
      | pending =>
        rw [poll_join_pending hp]
        simp only [Good, Fut.owedN, hout.1, hok, if_true]; exact ih
    · exact absurd hC (by simp [hok, Owes])
  · intro fs S ih hs C hC
    have hsl : Fut.shapedL fs = true := by simpa [Fut.shaped] using hs
    have hout := poll_out_aux.2 fs S
    rcases hp : pollAll fs S with ⟨fs', S1, p⟩
    rw [hp] at hout
    simp only [Fut.owedN] at hC
    by_cases hok : (Fut.outs fs).isSome = true
    · simp only [hok, if_true] at hC
      have ih := ih hsl C hC; rw [hp] at ih
      cases p with
      | failed e0 => have := hout.2.1 e0 rfl; rw [this] at hok; simp at hok
      | done vs =>
        rw [poll_after_done hp]
        have := pollAll_done_owedN fs S fs' S1 vs hp
        rcases ih with h | h
        · rw [this] at h; exact absurd h (fun h => Owes.nil h)
        · exact Or.inr h
      | pending =>
        rw [poll_after_pending hp]
        simp only [Good, Fut.owedN, hout.1, hok, if_true]; exact ih
    · exact absurd hC (by simp [hok, Owes])
  · intro S _ C h; exact absurd h (by simp [Fut.owedNL, Owes])
  · intro f rest S ih ihr hs C hC
    have hsf : f.shaped = true := by simp [Fut.shapedL] at hs; exact hs.1
    have hsr : Fut.shapedL rest = true := by simp [Fut.shapedL] at hs; exact hs.2
    simp only [Fut.owedNL] at hC
    have hC := Owes.append.mp hC
    rcases hp : poll f S with ⟨f', S1, o⟩
    have ih := fun h => ih hsf C h
    rw [hp] at ih
    have hcombine : ∀ (rest' : List Fut) (S2 : Store), Mono S1 S2 →
        (Owes (Fut.owedNL rest) C → Owes (Fut.owedNL rest') C ∨ Hit S2.log C) →
        Owes (Fut.owedNL (f' :: rest')) C ∨ Hit S2.log C := by
      intro rest' S2 hm hr
      simp only [Fut.owedNL]
      rcases hC with h | h
      · rcases ih h with h | h
        · exact Or.inl (Owes.append.mpr (Or.inl h))
        · exact Or.inr (h.mono hm)
      · rcases hr h with h | h
        · exact Or.inl (Owes.append.mpr (Or.inr h))
        · exact Or.inr h
    cases o with
    | some r =>
      cases r with
      | err e' =>
        rw [pollAll_cons_err hp]
        exact hcombine rest S1 (Mono.refl _) (fun h => Or.inl h)
      | ok v =>
        have ihr := ihr f' S1 _ hp (by intro e h; cases h) hsr C
        have hm := poll_mono_aux.2 rest S1
        rcases hp2 : pollAll rest S1 with ⟨rest', S2, p⟩
        rw [hp2] at ihr hm
        rw [pollAll_cons_ok hp hp2]; exact hcombine rest' S2 hm ihr
    | none =>
      have ihr := ihr f' S1 _ hp (by intro e h; cases h) hsr C
      have hm := poll_mono_aux.2 rest S1
      rcases hp2 : pollAll rest S1 with ⟨rest', S2, p⟩
      rw [hp2] at ihr hm
      rw [pollAll_cons_none hp hp2]; exact hcombine rest' S2 hm ihr

/-! ### wait and whole requests -/

theorem idleRound_hit (mask : Option Nat) (S : Store) (hne : S.outstanding ≠ []) (C : List Err) (h : Hit S.log C) :
    Hit (idleRound mask S).log C := by
  obtain ⟨e, he, hr⟩ := h; exact ⟨e, he, idleRound_rep mask S hne e hr⟩

theorem waitLoop_nulls (sets : List (List Err)) (fuel : Nat) : ∀ (f : Fut) (sched : List Nat) (S : Store),
    f.shaped = true → (∀ C ∈ sets, Good f S C) →
    ∀ r, (waitLoop fuel f sched S).1 = .done r → ∀ C ∈ sets, Hit (waitLoop fuel f sched S).2.2.log C := by
  induction fuel with
  | zero =>
    intro f sched S hs hinv r h C hC
    have hreq := poll_nulls_aux.1 f S hs
    have hm := poll_mono f S
    rcases hp : poll f S with ⟨f', S1, o⟩
    rw [hp] at hreq hm
    cases o with
    | none => rw [waitLoop_zero_none f f' sched S S1 hp] at h; cases h
    | some r' =>
      rw [waitLoop_some 0 f f' sched S S1 r' hp]
      have hr := poll_some_ready f S f' S1 r' hp
      rcases hinv C hC with h1 | h1
      · rcases hreq C h1 with h2 | h2
        · rw [hr] at h2; exact absurd h2 (fun h => owes_ready h)
        · exact h2
      · exact h1.mono hm
  | succ fuel ih =>
    intro f sched S hs hinv r h C hC
    have hreq := poll_nulls_aux.1 f S hs
    have hm := poll_mono f S
    have hs' := poll_shaped f S hs
    rcases hp : poll f S with ⟨f', S1, o⟩
    rw [hp] at hreq hm hs'
    have hinv1 : ∀ C ∈ sets, Good f' S1 C := fun C hC => by
      rcases hinv C hC with h1 | h1
      · exact hreq C h1
      · exact Or.inr (h1.mono hm)
    cases o with
    | some r' =>
      rw [waitLoop_some (fuel + 1) f f' sched S S1 r' hp]
      have hr := poll_some_ready f S f' S1 r' hp
      rcases hinv1 C hC with h2 | h2
      · rw [hr] at h2; exact absurd h2 (fun h => owes_ready h)
      · exact h2
    | none =>
      by_cases hne : S1.outstanding = []
      · rw [waitLoop_succ_stuck fuel f f' sched S S1 hp hne] at h; cases h
      · rw [waitLoop_succ_none fuel f f' sched S S1 hp hne] at h ⊢
        exact ih f' sched.tail (idleRound sched.head? S1) hs'
          (fun C hC => by
            rcases hinv1 C hC with h1 | h1
            · exact Or.inl h1
            · exact Or.inr (idleRound_hit _ _ hne C h1)) r h C hC

theorem query_nulls (rq : Request) (hq : rq.mutation = false) (hok : Spec.fieldsOk rq.fields [] = true)
    (r : Res) (h : (execute rq).1 = .done r) :
    ∀ C ∈ setsOf (Spec.nullsF rq.fields []), Hit (execute rq).2.log C := by
  intro C hC
  unfold execute at h ⊢
  simp only [hq, Bool.false_eq_true, if_false] at h ⊢
  rcases hb : execFields rq.fields [] rq.fields.length 0 [] {} with ⟨f, S1⟩
  have hbuild := complete_nulls_aux.2.1 rq.fields [] rq.fields.length 0 [] {} (by simp [Fut.outs]) hok
  have hshape := ((complete_cnt_aux ⟨[], ""⟩).2.1 rq.fields [] rq.fields.length 0 [] {} (by simp [Fut.shapedL])).2
  rw [hb] at h hbuild hshape
  simp only at h ⊢
  have hw := waitLoop_nulls (setsOf (Spec.nullsF rq.fields [])) (Field.invocationsL rq.fields + 1) f rq.sched S1 hshape
    (fun C hC => hbuild C (Or.inr ⟨C, hC, fun _ h => h⟩))
  rcases hwl : waitLoop (Field.invocationsL rq.fields + 1) f rq.sched S1 with ⟨w, sched', S⟩
  rw [hwl] at h hw
  cases w with
  | done r' =>
    have := hw r' rfl C hC
    cases r' with
    | ok v => exact this
    | err e' => exact this.mono (Mono.push _ _)
  | stuck => simp at h
  | outOfFuel => simp at h

theorem Settled.hit {S S' : Store} (h : Settled S S') {C : List Err} (hh : Hit S.log C) : Hit S'.log C := by
  obtain ⟨e, he, hr⟩ := hh
  exact ⟨e, he, by simp only [Rep, h.errorsOf]; exact hr⟩

theorem execSerial_nulls (st : Bool) (fuel : Nat) : ∀ (fields : List Field) (n i : Nat) (sched : List Nat) (S : Store),
    ∀ v, (execSerial st fuel fields n i sched S).1 = .done (.ok v) →
      ∀ C, (Owes (setsOf (Spec.nullsF fields [])) C ∨ Hit S.log C) → Hit (execSerial st fuel fields n i sched S).2.2.log C := by
  intro fields
  induction fields with
  | nil =>
    intro n i sched S v _ C hC
    simp only [execSerial]
    rcases hC with h | h
    · exact absurd h (by simp [Spec.nullsF, setsOf, Owes])
    · exact h
  | cons fld rest ih =>
    intro n i sched S v h C hC
    cases fld with
    | mk key nn mode rerr c =>
      by_cases hm : mode = .tname
      · subst hm
        simp only [execSerial] at h ⊢
        refine ih n (i + 1) sched _ v h C ?_
        rcases hC with hC | hC
        · rw [setsOf_nullsF_cons] at hC
          rcases Owes.append.mp hC with h1 | h1
          · exact absurd h1 (by simp [Spec.nullHead, setsOf, Owes])
          · exact Or.inl h1
        · exact Or.inr (hC.mono (Mono.push _ _))
      · rcases h1 : execField nn mode rerr c [.key key] (complete nn c [.key key]) S with ⟨f0, S1⟩
        rcases h2 : catchIfNullable nn f0 S1 with ⟨f, S2⟩
        have hmono : Mono S S2 := by
          have a := execField_mono nn mode rerr c [.key key] (complete nn c [.key key]) S (fun S' => complete_mono _ _ _ _)
          have b := catchIfNullable_mono nn f0 S1
          rw [h1] at a; rw [h2] at b; exact a.trans b
        have hstep := fieldStep_nulls [] key nn mode rerr c S S1 S2 f0 f hm
          (fun S' C hC => complete_nulls_aux.1 nn c ([] ++ [.key key]) S' C hC) h1 h2
        have hshape : f.shaped = true := by
          have hf := execField_cnt nn mode rerr c [.key key] (complete nn c [.key key]) S ⟨[], ""⟩
            (fun S' => (complete_cnt_aux ⟨[], ""⟩).1 nn c [.key key] S')
          rw [h1] at hf
          have hcs := catchIfNullable_shaped nn f0 S1 hf.2
          rw [h2] at hcs; exact hcs
        rw [execSerial_cons st fuel key nn mode rerr c rest n i sched S S1 S2 f0 f hm h1 h2] at h ⊢
        have hw := waitLoop_nulls [C] fuel f sched S2 hshape
        obtain ⟨sched0, S3', hwl, hset, _⟩ := waitSettle_settled st fuel f sched S2
        rcases hws : waitSettle st fuel f sched S2 with ⟨w, sched', S3⟩
        rw [hws] at h hwl hset
        rw [hwl] at hw
        simp only at hset hw
        cases w with
        | done r' =>
          cases r' with
          | err e' => simp [serialCont] at h
          | ok v' =>
            simp only [serialCont] at h ⊢
            refine ih n (i + 1) sched' _ v h C ?_
            rcases hC with hC | hC
            · rw [setsOf_nullsF_cons] at hC
              rcases Owes.append.mp hC with h3 | h3
              · refine Or.inr ((hset.hit (hw (fun C' hC' => ?_) _ rfl C (by simp))).mono (Mono.push _ _))
                simp only [List.mem_singleton] at hC'; subst hC'
                exact hstep C' h3
              · exact Or.inl h3
            · refine Or.inr ((hset.hit (hw (fun C' hC' => ?_) _ rfl C (by simp))).mono (Mono.push _ _))
              simp only [List.mem_singleton] at hC'; subst hC'
              exact Or.inr (hC.mono hmono)
        | stuck => simp [serialCont] at h
        | outOfFuel => simp [serialCont] at h

theorem mutation_nulls (rq : Request) (hq : rq.mutation = true)
    (v : Val) (h : (execute rq).1 = .done (.ok v)) :
    ∀ C ∈ setsOf (Spec.nullsF rq.fields []), Hit (execute rq).2.log C := by
  intro C hC
  unfold execute at h ⊢
  simp only [hq, if_true] at h ⊢
  have hs := execSerial_nulls rq.settle (Field.invocationsL rq.fields + 1) rq.fields rq.fields.length 0 rq.sched {}
  rcases hx : execSerial rq.settle (Field.invocationsL rq.fields + 1) rq.fields rq.fields.length 0 rq.sched {} with ⟨w, s', S⟩
  rw [hx] at h hs
  cases w with
  | done r' =>
    cases r' with
    | ok v' => simp only at h ⊢; exact hs v' rfl C (Or.inl ⟨C, hC, fun _ h => h⟩)
    | err e' => simp at h
  | stuck => simp at h
  | outOfFuel => simp at h

/-- When the whole data is null, the error that propagated to the root is in the error list (and
    it is a field error of the request). -/
theorem root_null_hit (rq : Request) (hok : Spec.fieldsOk rq.fields [] = false) (r : Res)
    (h : (execute rq).1 = .done r) : Hit (execute rq).2.log (Spec.errsF rq.fields []) := by
  have hspec := (execute_spec rq r h).1
  simp only [Spec.request, hok, Bool.false_eq_true, if_false] at hspec
  cases r with
  | ok v => simp [Res.out] at hspec
  | err e =>
    have hin : Rep (execute rq).2.log e := by
      unfold execute at h ⊢
      by_cases hq : rq.mutation = true
      · simp only [hq, if_true] at h ⊢
        rcases hx : execSerial rq.settle (Field.invocationsL rq.fields + 1) rq.fields rq.fields.length 0 rq.sched {} with ⟨w, s', S⟩
        rw [hx] at h
        cases w with
        | done r' =>
          cases r' with
          | ok v' => simp at h
          | err e' => simp only [WaitResult.done.injEq, Res.err.injEq] at h; subst h; exact Rep.push_error S e'
        | stuck => simp at h
        | outOfFuel => simp at h
      · simp only [hq, Bool.false_eq_true, if_false] at h ⊢
        rcases hb : execFields rq.fields [] rq.fields.length 0 [] {} with ⟨f, S1⟩
        rw [hb] at h
        simp only at h ⊢
        rcases hwl : waitLoop (Field.invocationsL rq.fields + 1) f rq.sched S1 with ⟨w, sched', S⟩
        rw [hwl] at h
        cases w with
        | done r' =>
          cases r' with
          | ok v' => simp at h
          | err e' => simp only [WaitResult.done.injEq, Res.err.injEq] at h; subst h; exact Rep.push_error S e'
        | stuck => simp at h
        | outOfFuel => simp at h
    refine ⟨e, ?_, hin⟩
    have := request_errors_count rq _ h e
    have hpos := List.count_pos_iff.mpr hin
    exact List.count_pos_iff.mp (by omega)

/-- **Every failure-null is hit.** -/
theorem nulls_hit (rq : Request) (r : Res) (h : (execute rq).1 = .done r) :
    ∀ pc ∈ Spec.nulls rq, Hit (execute rq).2.log pc.2 := by
  intro pc hpc
  simp only [Spec.nulls] at hpc
  by_cases hok : Spec.fieldsOk rq.fields [] = true
  · simp only [hok, if_true] at hpc
    have hC : pc.2 ∈ setsOf (Spec.nullsF rq.fields []) := List.mem_map_of_mem hpc
    cases hq : rq.mutation
    · exact query_nulls rq hq hok r h pc.2 hC
    · have hspec := (execute_spec rq r h).1
      simp only [Spec.request, hok, if_true] at hspec
      cases r with
      | ok v => exact mutation_nulls rq hq v h pc.2 hC
      | err e' => simp [Res.out] at hspec
  · have hok' : Spec.fieldsOk rq.fields [] = false := by simpa using hok
    simp only [hok', Bool.false_eq_true, if_false, List.mem_singleton] at hpc
    subst hpc
    exact root_null_hit rq hok' r h

/-! ### the candidates lie at or beneath the null -/

theorem errs_prefix_aux :
    (∀ c : Comp, ∀ nn path, ∀ e ∈ Spec.errsC nn c path, path <+: e.path) ∧
    (∀ fs : List Field, ∀ path, ∀ e ∈ Spec.errsF fs path, path <+: e.path) ∧
    (∀ cs : List Comp, ∀ inn path i, ∀ e ∈ Spec.errsL inn cs path i, path <+: e.path) := by
  apply Comp.allSync.mutual_induct
    (motive_1 := fun c => ∀ nn path, ∀ e ∈ Spec.errsC nn c path, path <+: e.path)
    (motive_2 := fun fs => ∀ path, ∀ e ∈ Spec.errsF fs path, path <+: e.path)
    (motive_3 := fun cs => ∀ inn path i, ∀ e ∈ Spec.errsL inn cs path i, path <+: e.path)
  · intro inn cs ih nn path e he; exact ih inn path 0 e (by simpa [Spec.errsC] using he)
  · intro fs ih nn path e he; exact ih path e (by simpa [Spec.errsC] using he)
  · intro nn path e he
    cases nn <;> simp [Spec.errsC] at he
    subst he; exact List.prefix_refl _
  · intro s nn path e he; simp [Spec.errsC] at he
  · intro m nn path e he
    simp [Spec.errsC] at he
    subst he; exact List.prefix_refl _
  · intro inn path i e he; simp [Spec.errsL] at he
  · intro c rest ih1 ih2 inn path i e he
    simp only [Spec.errsL, List.mem_append] at he
    rcases he with h | h
    · exact (List.prefix_append path [Seg.idx i]).trans (ih1 inn _ e h)
    · exact ih2 inn path (i + 1) e h
  · intro path e he; simp [Spec.errsF] at he
  · intro key nn mode rerr c rest ih1 ih2 path e he
    simp only [Spec.errsF, List.mem_append] at he
    rcases he with h | h
    · refine (List.prefix_append path [Seg.key key]).trans ?_
      cases mode <;> cases rerr <;> simp only [Spec.headErrs, List.mem_singleton] at h <;>
        first
        | (exact ih1 nn _ e h)
        | (subst h; exact List.prefix_refl _)
        | (cases h)
    · exact ih2 path e h

theorem nulls_prefix_aux :
    (∀ c : Comp, ∀ nn path, ∀ pc ∈ Spec.nullsC nn c path, path <+: pc.1 ∧ ∀ e ∈ pc.2, pc.1 <+: e.path) ∧
    (∀ fs : List Field, ∀ path, ∀ pc ∈ Spec.nullsF fs path, path <+: pc.1 ∧ ∀ e ∈ pc.2, pc.1 <+: e.path) ∧
    (∀ cs : List Comp, ∀ inn path i, ∀ pc ∈ Spec.nullsL inn cs path i, path <+: pc.1 ∧ ∀ e ∈ pc.2, pc.1 <+: e.path) := by
  apply Comp.allSync.mutual_induct
    (motive_1 := fun c => ∀ nn path, ∀ pc ∈ Spec.nullsC nn c path, path <+: pc.1 ∧ ∀ e ∈ pc.2, pc.1 <+: e.path)
    (motive_2 := fun fs => ∀ path, ∀ pc ∈ Spec.nullsF fs path, path <+: pc.1 ∧ ∀ e ∈ pc.2, pc.1 <+: e.path)
    (motive_3 := fun cs => ∀ inn path i, ∀ pc ∈ Spec.nullsL inn cs path i,
      path <+: pc.1 ∧ ∀ e ∈ pc.2, pc.1 <+: e.path)
  · intro inn cs ih nn path pc hpc
    simp only [Spec.nullsC] at hpc
    split at hpc
    · exact ih inn path 0 pc hpc
    · cases hpc
  · intro fs ih nn path pc hpc
    simp only [Spec.nullsC] at hpc
    split at hpc
    · exact ih path pc hpc
    · cases hpc
  · intro nn path pc hpc; simp [Spec.nullsC] at hpc
  · intro s nn path pc hpc; simp [Spec.nullsC] at hpc
  · intro m nn path pc hpc; simp [Spec.nullsC] at hpc
  · intro inn path i pc hpc; simp [Spec.nullsL] at hpc
  · intro c rest ih1 ih2 inn path i pc hpc
    simp only [Spec.nullsL, List.mem_append] at hpc
    rcases hpc with h | h
    · split at h
      · obtain ⟨a, b⟩ := ih1 inn _ pc h
        exact ⟨(List.prefix_append path [Seg.idx i]).trans a, b⟩
      · split at h
        · cases h
        · simp only [List.mem_singleton] at h; subst h
          exact ⟨List.prefix_append _ _, fun e he => errs_prefix_aux.1 c inn _ e he⟩
    · exact ih2 inn path (i + 1) pc h
  · intro path pc hpc; simp [Spec.nullsF] at hpc
  · intro key nn mode rerr c rest ih1 ih2 path pc hpc
    simp only [Spec.nullsF, List.mem_append] at hpc
    rcases hpc with h | h
    · cases mode <;> simp only [Spec.nullHead] at h
      all_goals first
        | (cases h; done)
        | (cases rerr with
           | some msg =>
             simp only at h
             split at h
             · cases h
             · simp only [List.mem_singleton] at h; subst h
               exact ⟨List.prefix_append _ _, fun e he => by simp at he; subst he; exact List.prefix_refl _⟩
           | none =>
             simp only at h
             split at h
             · obtain ⟨a, b⟩ := ih1 nn _ pc h
               exact ⟨(List.prefix_append path [Seg.key key]).trans a, b⟩
             · split at h
               · cases h
               · simp only [List.mem_singleton] at h; subst h
                 exact ⟨List.prefix_append _ _, fun e he => errs_prefix_aux.1 c nn _ e he⟩)
    · exact ih2 path pc h

/-- The candidates of a failure-null lie at or beneath it, and are field errors of the request. -/
theorem nulls_prefix (rq : Request) : ∀ pc ∈ Spec.nulls rq, ∀ e ∈ pc.2, pc.1 <+: e.path := by
  intro pc hpc e he
  simp only [Spec.nulls] at hpc
  split at hpc
  · exact (nulls_prefix_aux.2.1 rq.fields [] pc hpc).2 e he
  · simp only [List.mem_singleton] at hpc; subst hpc; exact List.nil_prefix

/-! ### the failure-nulls do not depend on modes -/

theorem errs_allSync_aux :
    (∀ c : Comp, ∀ nn path, Spec.errsC nn c.allSync path = Spec.errsC nn c path) ∧
    (∀ fs : List Field, ∀ path, Spec.errsF (Field.allSyncL fs) path = Spec.errsF fs path) ∧
    (∀ cs : List Comp, ∀ inn path i, Spec.errsL inn (Comp.allSyncL cs) path i = Spec.errsL inn cs path i) := by
  apply Comp.allSync.mutual_induct
    (motive_1 := fun c => ∀ nn path, Spec.errsC nn c.allSync path = Spec.errsC nn c path)
    (motive_2 := fun fs => ∀ path, Spec.errsF (Field.allSyncL fs) path = Spec.errsF fs path)
    (motive_3 := fun cs => ∀ inn path i, Spec.errsL inn (Comp.allSyncL cs) path i = Spec.errsL inn cs path i)
  · intro inn cs ih nn path; simp [Comp.allSync, Spec.errsC, ih]
  · intro fs ih nn path; simp [Comp.allSync, Spec.errsC, ih]
  · intro nn path; simp [Comp.allSync]
  · intro s nn path; simp [Comp.allSync]
  · intro m nn path; simp [Comp.allSync]
  · intro inn path i; simp [Comp.allSyncL]
  · intro c rest ih1 ih2 inn path i; simp [Comp.allSyncL, Spec.errsL, ih1, ih2]
  · intro path; simp [Field.allSyncL]
  · intro key nn mode rerr c rest ih1 ih2 path
    simp only [Field.allSyncL, Spec.errsF, ih1, ih2]
    cases mode <;> simp [Spec.headErrs, Mode.toSync]

theorem nulls_allSync_aux :
    (∀ c : Comp, ∀ nn path, Spec.nullsC nn c.allSync path = Spec.nullsC nn c path) ∧
    (∀ fs : List Field, ∀ path, Spec.nullsF (Field.allSyncL fs) path = Spec.nullsF fs path) ∧
    (∀ cs : List Comp, ∀ inn path i, Spec.nullsL inn (Comp.allSyncL cs) path i = Spec.nullsL inn cs path i) := by
  apply Comp.allSync.mutual_induct
    (motive_1 := fun c => ∀ nn path, Spec.nullsC nn c.allSync path = Spec.nullsC nn c path)
    (motive_2 := fun fs => ∀ path, Spec.nullsF (Field.allSyncL fs) path = Spec.nullsF fs path)
    (motive_3 := fun cs => ∀ inn path i, Spec.nullsL inn (Comp.allSyncL cs) path i = Spec.nullsL inn cs path i)
  · intro inn cs ih nn path
    have h := spec_allSync_aux.1 (.list inn cs) nn path
    simp only [Comp.allSync] at h
    simp [Comp.allSync, Spec.nullsC, ih, h]
  · intro fs ih nn path
    have h := spec_allSync_aux.1 (.object fs) nn path
    simp only [Comp.allSync] at h
    simp [Comp.allSync, Spec.nullsC, ih, h]
  · intro nn path; simp [Comp.allSync]
  · intro s nn path; simp [Comp.allSync]
  · intro m nn path; simp [Comp.allSync]
  · intro inn path i; simp [Comp.allSyncL]
  · intro c rest ih1 ih2 inn path i
    simp [Comp.allSyncL, Spec.nullsL, ih1, ih2, spec_allSync_aux.1, errs_allSync_aux.1]
  · intro path; simp [Field.allSyncL]
  · intro key nn mode rerr c rest ih1 ih2 path
    simp only [Field.allSyncL, Spec.nullsF, ih1, ih2, spec_allSync_aux.1, errs_allSync_aux.1]
    cases mode <;> simp [Spec.nullHead, Mode.toSync]

theorem nulls_allSync (rq : Request) (sched : List Nat) : Spec.nulls (rq.allSync sched) = Spec.nulls rq := by
  simp [Spec.nulls, Request.allSync, spec_allSync_aux.2.1, nulls_allSync_aux.2.1, errs_allSync_aux.2.1]

end ApiFu.C02
