/-
  C02/C11 model driver (shared request handling). Line protocol (S-expressions, one per line):

  executor level
    (run query|mutation|mutation-settle (<field>…) (<mask>…))
      field := (f <key> true|false sync|promise|pre|meta none|(e "<msg>") <comp>)
      comp  := null | (s "<json leaf>") | (bad "<msg>") | (list true|false <comp>…) | (obj <field>…)
    → (out "<data json>" ((err "<path json>" "<msg>")…) <idle rounds> <promises created> ((ev start|fulfil "<path json>")…)
           (spec "<Spec.data>" (<Spec.required errors>) (<Spec.errsF errors>)
                 ((null "<path json>" (<candidate errors>))…)))      -- Spec.nulls

  executor level, from the document (the model runs collectFields / mergeSelectionSets itself,
  ApiFu/C02/Collect.lean: `Request.ofDoc`)
    (rund query|mutation|mutation-settle (<sel>…) <root type name> (<wfield>…) (<mask>…))
      sel    := (f <key> <name> <skip> (<sel>…)) | (inl <skip> <applies> (<sel>…))
              | (spr <skip> <fragment> <applies> (<sel>…))          -- skip / applies: true|false
      wfield := (w <name> true|false sync|promise|pre none|(e "<msg>") <wcomp>)   -- per field *name*
      wcomp  := null | (s "<json leaf>") | (bad "<msg>") | (list true|false <wcomp>…) | (wobj <type name> <wfield>…)
    → as for `run`

  executor level, from the document as written (ApiFu/C02/CollectInst.lean: `Request.ofDocC` — the
  model evaluates directive arguments, type conditions and fragment lookups itself)
    (runc query|mutation|mutation-settle (<csel>…) <root type name> (<wfield>…) (<mask>…)
          (vars (v <name> true|false|null)…) (frags (fr <name> <type condition> (<csel>…))…)
          (types (obj <name> (<interface>…)) | (iface <name>) | (union <name> (<member>…))…))
      csel := (f <key> <name> (<dir>…) (<csel>…)) | (inl (<dir>…) <type condition>|- (<csel>…)) | (spr (<dir>…) <fragment>)
      dir  := (d <directive name> lit true|false) | (d <directive name> var <variable>)
    → as for `run`

  combinator level
    (comb <term> (<step>…))
      term := (ready ok null|<n>) | (ready err "<msg>") | (promise <id>) | (map catch|nonnull|log <tag> <term>)
            | (mapOk <tag> <term>) | (mapOkToAny <term>) | (mapOkValue null|<n> <term>)
            | (then <tag> <term> <onOk> <onErr>) | (join <term>…) | (after <term>…)
      step := (poll) | (fulfil <id> ok null|<n>) | (fulfil <id> err "<msg>")
    → (comb (<state after construction> <state after each step>…) (<log entry>…))   state := pending | "ok:…" | "err:…"
-/
import ApiFu.Common.Sexp
import ApiFu.Common.Loop
import ApiFu.C02.Model
import ApiFu.C02.Spec
import ApiFu.C02.Nulls
import ApiFu.C02.Collect
import ApiFu.C02.Combinators
import ApiFu.C02.CollectInst

open ApiFu ApiFu.C02

namespace ApiFu.C02.Driver

def parseMode : String → Option Mode
  | "sync" => some .sync
  | "promise" => some .promise
  | "pre" => some .pre
  | "meta" => some .tname
  | _ => none

def parseBool : Sexp → Option Bool
  | .atom "true" => some true
  | .atom "false" => some false
  | _ => none

mutual
  partial def parseComp : Sexp → Option Comp
    | .atom "null" => some .null
    | .list [.atom "s", .atom t] => some (.scalar t)
    | .list [.atom "bad", .atom m] => some (.bad m)
    | .list (.atom "list" :: nn :: items) => do
      let nn ← parseBool nn
      let items ← items.mapM parseComp
      pure (.list nn items)
    | .list (.atom "obj" :: fields) => do
      let fields ← fields.mapM parseField
      pure (.object fields)
    | _ => none
  partial def parseField : Sexp → Option Field
    | .list [.atom "f", .atom key, nn, .atom mode, e, c] => do
      let nn ← parseBool nn
      let mode ← parseMode mode
      let rerr ← (match e with
        | .atom "none" => some none
        | .list [.atom "e", .atom m] => some (some m)
        | _ => none)
      let c ← parseComp c
      pure (.mk key nn mode rerr c)
    | _ => none
end

def eventsOf : List Entry → List Sexp
  | [] => []
  | .start p :: rest => Sexp.node "ev" [.atom "start", .atom (pathText p)] :: eventsOf rest
  | .fulfil p :: rest => Sexp.node "ev" [.atom "fulfil", .atom (pathText p)] :: eventsOf rest
  | _ :: rest => eventsOf rest

def errSexp (e : Err) : Sexp := Sexp.node "err" [.atom (pathText e.path), .atom e.msg]

/-- The reply also carries the reference semantics of the request (`Spec.data`, `Spec.required`,
    `Spec.errsF`, `Spec.nulls`), so that the harness checks the specification itself against the implementation. -/
def outSexp (rq : Request) (o : Outcome) : Sexp :=
  Sexp.node "out" [
    .atom (if o.crash then "CRASH" else o.data),
    .list (o.errors.map errSexp),
    Sexp.ofNat o.rounds, Sexp.ofNat o.promises, .list (eventsOf o.log),
    Sexp.node "spec" [.atom (Spec.data rq), .list ((Spec.required rq).map errSexp),
      .list ((Spec.errsF rq.fields []).map errSexp),
      .list ((Spec.nulls rq).map (fun pc => Sexp.node "null" [.atom (pathText pc.1), .list (pc.2.map errSexp)]))]]

def handleRun (kind : String) (fields : List Sexp) (sched : List Sexp) : Option Sexp := do
  let fields ← fields.mapM parseField
  let sched ← sched.mapM Sexp.nat?
  let (mutation, settle) ← (match kind with
    | "query" => some (false, false)
    | "mutation" => some (true, false)
    | "mutation-settle" => some (true, true)     -- the executor with the repair of F-11a
    | _ => none)
  let rq : Request := { mutation := mutation, fields := fields, sched := sched, settle := settle }
  pure (outSexp rq (run rq))

/-! executor level, from the document -/

partial def parseSel : Sexp → Option Sel
  | .list [.atom "f", .atom key, .atom name, skip, .list sub] => do
    pure (.field key name (← parseBool skip) (← sub.mapM parseSel))
  | .list [.atom "inl", skip, applies, .list body] => do
    pure (.inline (← parseBool skip) (← parseBool applies) (← body.mapM parseSel))
  | .list [.atom "spr", skip, .atom frag, applies, .list body] => do
    pure (.spread (← parseBool skip) frag (← parseBool applies) (← body.mapM parseSel))
  | _ => none

mutual
  partial def parseWComp : Sexp → Option WComp
    | .atom "null" => some .null
    | .list [.atom "s", .atom t] => some (.scalar t)
    | .list [.atom "bad", .atom m] => some (.bad m)
    | .list (.atom "list" :: nn :: items) => do
      pure (.list (← parseBool nn) (← items.mapM parseWComp))
    | .list (.atom "wobj" :: .atom tname :: fields) => do
      pure (.object tname (← fields.mapM parseWField))
    | _ => none
  partial def parseWField : Sexp → Option WField
    | .list [.atom "w", .atom name, nn, .atom mode, e, c] => do
      let nn ← parseBool nn
      let mode ← parseMode mode
      let rerr ← (match e with
        | .atom "none" => some none
        | .list [.atom "e", .atom m] => some (some m)
        | _ => none)
      pure (.mk name nn mode rerr (← parseWComp c))
    | _ => none
end

def handleRunDoc (kind : String) (sels : List Sexp) (tname : String) (world : List Sexp) (sched : List Sexp) :
    Option Sexp := do
  let sels ← sels.mapM parseSel
  let world ← world.mapM parseWField
  let sched ← sched.mapM Sexp.nat?
  let (mutation, settle) ← (match kind with
    | "query" => some (false, false)
    | "mutation" => some (true, false)
    | "mutation-settle" => some (true, true)
    | _ => none)
  let rq := Request.ofDoc { mutation := mutation, sels := sels, tname := tname, world := world, sched := sched,
                            settle := settle }
  pure (outSexp rq (run rq))

/-! executor level, from the document as written -/

def parseDir : Sexp → Option Dir
  | .list [.atom "d", .atom name, .atom "lit", b] => do pure ⟨name, .lit (← parseBool b)⟩
  | .list [.atom "d", .atom name, .atom "var", .atom v] => some ⟨name, .var v⟩
  | _ => none

partial def parseCSel : Sexp → Option CSel
  | .list [.atom "f", .atom key, .atom name, .list dirs, .list sub] => do
    pure (.field key name (← dirs.mapM parseDir) (← sub.mapM parseCSel))
  | .list [.atom "inl", .list dirs, .atom cond, .list body] => do
    pure (.inline (← dirs.mapM parseDir) (if cond = "-" then none else some cond) (← body.mapM parseCSel))
  | .list [.atom "spr", .list dirs, .atom frag] => do
    pure (.spread (← dirs.mapM parseDir) frag)
  | _ => none

def parseVar : Sexp → Option (String × Option Bool)
  | .list [.atom "v", .atom name, .atom "true"] => some (name, some true)
  | .list [.atom "v", .atom name, .atom "false"] => some (name, some false)
  | .list [.atom "v", .atom name, .atom "null"] => some (name, none)
  | _ => none

def parseFrag : Sexp → Option FragDef
  | .list [.atom "fr", .atom name, .atom cond, .list body] => do pure ⟨name, cond, ← body.mapM parseCSel⟩
  | _ => none

def atomsOf (xs : List Sexp) : Option (List String) := xs.mapM Sexp.atom?

def parseType : Sexp → Option (String × TypeDef)
  | .list [.atom "obj", .atom name, .list ifs] => do pure (name, .object (← atomsOf ifs))
  | .list [.atom "iface", .atom name] => some (name, .iface)
  | .list [.atom "union", .atom name, .list ms] => do pure (name, .union (← atomsOf ms))
  | _ => none

def handleRunC (kind : String) (sels : List Sexp) (tname : String) (world sched vars frags types : List Sexp) :
    Option Sexp := do
  let sels ← sels.mapM parseCSel
  let world ← world.mapM parseWField
  let sched ← sched.mapM Sexp.nat?
  let env : Env := { vars := ← vars.mapM parseVar, frags := ← frags.mapM parseFrag, types := ← types.mapM parseType,
                     fuel := 100000 }
  let (mutation, settle) ← (match kind with
    | "query" => some (false, false)
    | "mutation" => some (true, false)
    | "mutation-settle" => some (true, true)
    | _ => none)
  let rq := Request.ofDocC { mutation := mutation, sels := sels, env := env, tname := tname, world := world,
                             sched := sched, settle := settle }
  pure (outSexp rq (run rq))

/-! combinator level -/

def parseValAtom : String → Val
  | "null" => .null
  | s => .scalar s

/-- `deliv id` is what the script will deliver to promise `id` (the script is known up front). -/
partial def parseTerm (deliv : Nat → Res) : Sexp → Option Fut
  | .list [.atom "ready", .atom "ok", .atom v] => some (.ready (.ok (parseValAtom v)))
  | .list [.atom "ready", .atom "err", .atom m] => some (.ready (.err ⟨[], m⟩))
  | .list [.atom "promise", id] => do let n ← id.nat?; pure (.promise n (deliv n))
  | .list [.atom "map", .atom fn, .atom tag, t] => do
    let t ← parseTerm deliv t
    match fn with
    | "catch" => pure (.map .catchError t)
    | "nonnull" => pure (.map (.nonNull ⟨[], "nonnull:" ++ tag⟩) t)
    | "log" => pure (.map (.tap tag) t)
    | _ => none
  | .list [.atom "mapOk", .atom tag, t] => do pure (.mapOk (.setSlot [] 0 tag) (← parseTerm deliv t))
  | .list [.atom "mapOkToAny", t] => do pure (.mapOkToAny (← parseTerm deliv t))
  | .list [.atom "mapOkValue", .atom v, t] => do pure (.mapOkValue (parseValAtom v) (← parseTerm deliv t))
  | .list [.atom "then", .atom tag, t, a, b] => do
    pure (.thenT tag (← parseTerm deliv a) (← parseTerm deliv b) (← parseTerm deliv t) none)
  | .list (.atom "join" :: ts) => do pure (.join (← ts.mapM (parseTerm deliv)))
  | .list (.atom "after" :: ts) => do pure (.after (← ts.mapM (parseTerm deliv)))
  | _ => none

inductive Step where
  | poll
  | fulfil (id : Nat) (r : Res)

def parseStep : Sexp → Option Step
  | .list [.atom "poll"] => some .poll
  | .list [.atom "fulfil", id, .atom "ok", .atom v] => do pure (.fulfil (← id.nat?) (.ok (parseValAtom v)))
  | .list [.atom "fulfil", id, .atom "err", .atom m] => do pure (.fulfil (← id.nat?) (.err ⟨[], m⟩))
  | _ => none

def stateOf : Fut → String
  | .ready r => showRes r
  | _ => "pending"

def combLog : List Entry → List String
  | [] => []
  | .error e :: rest => ("catch:" ++ e.msg) :: combLog rest
  | .write _ _ key v :: rest => ("set:" ++ key ++ ":" ++ showVal v) :: combLog rest
  | .note s :: rest => s :: combLog rest
  | _ :: rest => combLog rest

def runSteps : List Step → Fut → Store → List String → List String × Store
  | [], _, S, acc => (acc.reverse, S)
  | .poll :: rest, f, S, acc =>
    let (f', S', _) := poll f S
    runSteps rest f' S' (stateOf f' :: acc)
  | .fulfil id _ :: rest, f, S, acc =>
    runSteps rest f { S with chan := S.chan ++ [id] } (stateOf f :: acc)

def handleComb (t : Sexp) (steps : List Sexp) : Option Sexp := do
  let steps ← steps.mapM parseStep
  let deliv : Nat → Res := fun id =>
    match steps.find? (fun s => match s with | .fulfil j _ => j == id | _ => false) with
    | some (.fulfil _ r) => r
    | _ => .ok .null
  let t ← parseTerm deliv t
  let (f, S) := construct t {}
  let (states, S') := runSteps steps f S [stateOf f]
  let states := if S'.crash then ["CRASH"] else states
  pure (Sexp.node "comb" [.list (states.map Sexp.atom), .list ((combLog S'.log).map Sexp.atom)])

/-- `(inventory)` → `(inventory (c "<Go name>" <kind> <params> <variadic> <type params> "<model>" ("<theorem>"…))…)`:
    the model's list of the exported items of future.go (ApiFu/C02/Combinators.lean). -/
def inventorySexp : Sexp :=
  Sexp.node "inventory" (combinatorTable.map (fun e =>
    Sexp.node "c" [.atom e.go, .atom e.kind, Sexp.ofNat e.params, .atom (if e.variadic then "true" else "false"),
      Sexp.ofNat e.typeParams, .atom e.model, .list (e.theorems.map Sexp.atom)]))

def handle (line : String) : String :=
  match Sexp.parse line with
  | some (.list [.atom "inventory"]) => toString inventorySexp
  | some (.list [.atom "run", .atom kind, .list fields, .list sched]) =>
    match handleRun kind fields sched with
    | some s => toString s
    | none => "bad-op"
  | some (.list [.atom "rund", .atom kind, .list sels, .atom tname, .list world, .list sched]) =>
    match handleRunDoc kind sels tname world sched with
    | some s => toString s
    | none => "bad-op"
  | some (.list [.atom "runc", .atom kind, .list sels, .atom tname, .list world, .list sched,
      .list (.atom "vars" :: vars), .list (.atom "frags" :: frags), .list (.atom "types" :: types)]) =>
    match handleRunC kind sels tname world sched vars frags types with
    | some s => toString s
    | none => "bad-op"
  | some (.list [.atom "comb", t, .list steps]) =>
    match handleComb t steps with
    | some s => toString s
    | none => "bad-op"
  | _ => "bad-op"

end ApiFu.C02.Driver

