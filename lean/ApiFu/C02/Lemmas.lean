/-
  C02 helper definitions and lemmas (core Lean only; no Mathlib needed).

  §1  generic facts about `poll`: ready futures are left alone, a reported result is stored,
      the log only grows.
  §2  the static outcome `Fut.out` of a future term and its preservation by the constructors,
      by the executor's builders (where it equals the reference semantics `Spec.comp`) and by
      `poll` (subject reduction).
-/
import ApiFu.C02.Spec

namespace ApiFu.C02

/-! ## §1 generic facts about poll -/

theorem poll_ready (r : Res) (S : Store) : poll (.ready r) S = (.ready r, S, some r) := by
  simp [poll]

/-- A result reported by `poll` is stored in the future (`ready r`). -/
theorem poll_some_ready (f : Fut) (S : Store) :
    ∀ f' S' r, poll f S = (f', S', some r) → f' = .ready r := by
  apply poll.induct (motive1 := fun f S => ∀ f' S' r, poll f S = (f', S', some r) → f' = .ready r)
    (motive2 := fun _ _ => True)
  all_goals (intros; try trivial)
  all_goals (simp_all [poll]; try grind)

/-- A future that did not report a result is not ready. -/
theorem poll_none_not_ready (f : Fut) (S : Store) :
    ∀ f' S', poll f S = (f', S', none) → f'.isReady = false := by
  apply poll.induct (motive1 := fun f S => ∀ f' S', poll f S = (f', S', none) → f'.isReady = false)
    (motive2 := fun _ _ => True)
  all_goals (intros; try trivial)
  all_goals (simp_all [poll, Fut.isReady]; try grind [Fut.isReady])

/-! ## §2 static outcomes -/

def outMap (fn : MapFn) (o : Out) : Out :=
  match fn, o with
  | .catchError, .fail => .ok .null
  | .catchError, .ok v => .ok v
  | .nonNull _, .ok v => if v.isNull then .fail else .ok v
  | .nonNull _, .fail => .fail
  | .tap _, o => o

def outOk (o : Out) (v : Val) : Out :=
  match o with
  | .ok _ => .ok v
  | .fail => .fail

mutual
  /-- What the future will resolve to, read off the term (and, for `thenK`, off the reference
      semantics of the plan its continuation completes). -/
  def Fut.out : Fut → Out
    | .ready r => r.out
    | .promise _ res => res.out
    | .map fn f => outMap fn f.out
    | .mapOk _ f => outOk f.out .null
    | .mapOkToAny f => f.out
    | .mapOkValue v f => outOk f.out v
    | .thenK nn c path f none => (match f.out with | .ok _ => Spec.comp nn c path | .fail => .fail)
    | .thenK _ _ _ _ (some t) => t.out
    | .thenT _ a b f none => (match f.out with | .ok _ => a.out | .fail => b.out)
    | .thenT _ _ _ _ (some t) => t.out
    | .join fs => (match Fut.outs fs with | some vs => .ok (.list vs) | none => .fail)
    | .after fs => (match Fut.outs fs with | some _ => .ok .unit | none => .fail)
  def Fut.outs : List Fut → Option (List Val)
    | [] => some []
    | f :: fs =>
      match f.out, Fut.outs fs with
      | .ok v, some vs => some (v :: vs)
      | _, _ => none
end

theorem applyMap_out (fn : MapFn) (r : Res) (S : Store) : (applyMap fn r S).1.out = outMap fn r.out := by
  cases fn with
  | catchError => cases r <;> simp [applyMap, outMap, Res.out]
  | nonNull e =>
    cases r with
    | ok v => by_cases h : v.isNull <;> simp [applyMap, outMap, Res.out, h]
    | err e' => simp [applyMap, outMap, Res.out]
  | tap t => simp [applyMap, outMap]

theorem mkMap_out (fn : MapFn) (f : Fut) (S : Store) : (mkMap fn f S).1.out = (Fut.map fn f).out := by
  cases f <;> simp [mkMap, Fut.out, applyMap_out]

theorem mkMapOk_out (fn : OkFn) (f : Fut) (S : Store) : (mkMapOk fn f S).1.out = (Fut.mapOk fn f).out := by
  cases f with
  | ready r => cases r <;> cases fn <;> simp [mkMapOk, Fut.out, applyOk, Res.out, outOk]
  | _ => simp [mkMapOk, Fut.out]

theorem mkMapOkToAny_out (f : Fut) : (mkMapOkToAny f).out = f.out := by
  cases f <;> simp [mkMapOkToAny, Fut.out]

theorem mkMapOkValue_out (v : Val) (f : Fut) : (mkMapOkValue v f).out = outOk f.out v := by
  cases f with
  | ready r => cases r <;> simp [mkMapOkValue, Fut.out, Res.out, outOk]
  | _ => simp [mkMapOkValue, Fut.out]

theorem scanReady_out (fs : List Fut) :
    (∀ e, scanReady fs = .failed e → Fut.outs fs = none) ∧
    (∀ vs, scanReady fs = .done vs → Fut.outs fs = some vs) := by
  fun_induction scanReady fs <;> simp_all [Fut.outs, Fut.out, Res.out]
  all_goals (try grind)

theorem mkJoin_out (fs : List Fut) : (mkJoin fs).out = (Fut.join fs).out := by
  have h := scanReady_out fs
  unfold mkJoin
  split <;> simp_all [Fut.out, Res.out]

theorem mkAfter_out (fs : List Fut) : (mkAfter fs).out = (Fut.after fs).out := by
  have h := scanReady_out fs
  unfold mkAfter
  split <;> simp_all [Fut.out, Res.out]

theorem construct_out_aux :
    (∀ t S, (construct t S).1.out = t.out) ∧ (∀ ts S, Fut.outs (constructAll ts S).1 = Fut.outs ts) := by
  apply construct.mutual_induct
    (motive_1 := fun t S => (construct t S).1.out = t.out)
    (motive_2 := fun ts S => Fut.outs (constructAll ts S).1 = Fut.outs ts)
  case case9 =>
    intro S tag a b t S1 r S2 h x ih2 ih1
    cases r <;> simp_all [construct, Fut.out, Res.out, Res.isOk, S2]
    rw [← ih2]
  case case10 =>
    intro S tag a b t S1 r S2 h x ih2 ih1
    cases r <;> simp_all [construct, Fut.out, Res.out, Res.isOk, S2]
    rw [← ih2]
  all_goals intros
  all_goals simp_all [construct, constructAll, mkMap_out, mkMapOk_out, mkMapOkToAny_out, mkMapOkValue_out,
    mkJoin_out, mkAfter_out, Fut.out, Fut.outs, outOk]

theorem construct_out (t : Fut) (S : Store) : (construct t S).1.out = t.out := construct_out_aux.1 t S

theorem Val.isNull_iff (v : Val) : v.isNull = true ↔ v = .null := by
  cases v <;> simp [Val.isNull]

theorem nonNullWrap_out (nn : Bool) (path : Path) (f : Fut) (S : Store) :
    (nonNullWrap nn path f S).1.out = Out.nonNull nn f.out := by
  unfold nonNullWrap Out.nonNull
  cases nn <;> simp [mkMap_out, Fut.out]
  cases h : f.out with
  | fail => simp [outMap]
  | ok v => cases v <;> simp [outMap, Val.isNull]

theorem catchIfNullable_out (nn : Bool) (f : Fut) (S : Store) :
    (catchIfNullable nn f S).1.out = Out.caught nn f.out := by
  unfold catchIfNullable Out.caught
  cases nn <;> simp [mkMap_out, Fut.out]
  cases h : f.out <;> simp [outMap]

theorem execField_out (nn : Bool) (mode : Mode) (rerr : Option String) (c : Comp) (itemPath : Path)
    (completed : Store → Fut × Store) (S : Store)
    (hc : ∀ S', (completed S').1.out = Spec.comp nn c itemPath) :
    (execField nn mode rerr c itemPath completed S).1.out =
      (match rerr with | some _ => Out.fail | none => Spec.comp nn c itemPath) := by
  unfold execField
  cases mode <;> cases rerr <;> simp [Fut.out, Res.out, hc]

theorem outs_append_one (acc : List Fut) (g : Fut) :
    (Fut.outs (acc ++ [g])).isSome = ((Fut.outs acc).isSome && g.out.isOk) := by
  induction acc with
  | nil => cases h : g.out <;> simp [Fut.outs, h, Out.isOk]
  | cons a acc ih =>
    simp only [List.cons_append, Fut.outs]
    cases ha : a.out <;> cases hacc : Fut.outs acc <;> cases hg : g.out <;>
      cases h2 : Fut.outs (acc ++ [g]) <;> simp_all [Out.isOk]

/-- Outcome of the future `execFields` builds: the object, iff the futures collected so far and
    all remaining fields yield values. -/
def fieldsOut (fields : List Field) (path : Path) (n : Nat) (acc : List Fut) : Out :=
  if (Fut.outs acc).isSome && Spec.fieldsOk fields path then .ok (.obj path n) else .fail

theorem fieldsOk_cons (fld : Field) (rest : List Field) (path : Path) :
    Spec.fieldsOk (fld :: rest) path = ((Spec.field path fld).isOk && Spec.fieldsOk rest path) := by
  cases fld with
  | mk key nn mode rerr c =>
    cases mode <;> cases rerr <;> cases nn <;> simp [Spec.fieldsOk, Spec.field, Out.caught, Out.isOk]

theorem field_eq (path : Path) (key : String) (nn : Bool) (mode : Mode) (rerr : Option String) (c : Comp)
    (hm : mode ≠ .tname) :
    Spec.field path (.mk key nn mode rerr c) =
      Out.caught nn (match rerr with | some _ => Out.fail | none => Spec.comp nn c (path ++ [.key key])) := by
  cases mode <;> cases rerr <;> simp_all [Spec.field]

/-- The future of one field (`catchErrorIfNullable(executeField(…))`) has the reference outcome. -/
theorem fieldStep_out (path : Path) (key : String) (nn : Bool) (mode : Mode) (rerr : Option String) (c : Comp)
    (S S1 S11 : Store) (f f1 : Fut) (hm : mode ≠ .tname)
    (ihc : ∀ S', (complete nn c (path ++ [.key key]) S').1.out = Spec.comp nn c (path ++ [.key key]))
    (h1 : execField nn mode rerr c (path ++ [.key key]) (fun S' => complete nn c (path ++ [.key key]) S') S = (f, S1))
    (h2 : catchIfNullable nn f S1 = (f1, S11)) :
    f1.out = Spec.field path (.mk key nn mode rerr c) := by
  have hf := execField_out nn mode rerr c (path ++ [.key key]) (fun S' => complete nn c (path ++ [.key key]) S') S ihc
  rw [h1] at hf
  have hc := catchIfNullable_out nn f S1
  rw [h2] at hc
  rw [field_eq path key nn mode rerr c hm, hc, hf]

/-- What `execFields` does with the future `f1` of the current field. -/
def fieldCont (rest : List Field) (path : Path) (n i : Nat) (acc : List Fut) (key : String) (f1 : Fut) (S11 : Store) :
    Fut × Store :=
  match f1 with
  | .ready (.err e) => (.ready (.err e), S11)
  | .ready (.ok v) => execFields rest path n (i + 1) acc (S11.push (.write path i key v))
  | f1 => execFields rest path n (i + 1) (acc ++ [.mapOk (.setSlot path i key) f1]) S11

/-- One step of the field loop of `execFields` (all resolver-backed modes). -/
theorem execFields_cons (path : Path) (key : String) (nn : Bool) (mode : Mode) (rerr : Option String) (c : Comp)
    (rest : List Field) (n i : Nat) (acc : List Fut) (S S1 S11 : Store) (f f1 : Fut) (hm : mode ≠ .tname)
    (h1 : execField nn mode rerr c (path ++ [.key key]) (fun S' => complete nn c (path ++ [.key key]) S') S = (f, S1))
    (h2 : catchIfNullable nn f S1 = (f1, S11)) :
    execFields (.mk key nn mode rerr c :: rest) path n i acc S = fieldCont rest path n i acc key f1 S11 := by
  cases mode
  all_goals first
    | exact absurd rfl hm
    | (simp only [execFields, h1, h2, fieldCont]
       cases f1 with
       | ready r => cases r <;> rfl
       | _ => rfl)

theorem execFields_tname (path : Path) (key : String) (nn : Bool) (rerr : Option String) (c : Comp)
    (rest : List Field) (n i : Nat) (acc : List Fut) (S : Store) :
    execFields (.mk key nn .tname rerr c :: rest) path n i acc S =
      execFields rest path n (i + 1) acc
        (S.push (.write path i key (tnameVal c))) := by
  simp [execFields]

theorem complete_out_aux :
    (∀ nn c path S, (complete nn c path S).1.out = Spec.comp nn c path) ∧
    (∀ fields path n i acc S, (execFields fields path n i acc S).1.out = fieldsOut fields path n acc) ∧
    (∀ inn items path i S, Fut.outs (completeItems inn items path i S).1 = Spec.items inn items path i) := by
  apply complete.mutual_induct
    (motive_1 := fun nn c path S => (complete nn c path S).1.out = Spec.comp nn c path)
    (motive_2 := fun fields path n i acc S => (execFields fields path n i acc S).1.out = fieldsOut fields path n acc)
    (motive_3 := fun inn items path i S => Fut.outs (completeItems inn items path i S).1 = Spec.items inn items path i)
  · intro nn path S; simp [complete, nonNullWrap_out, Spec.comp, Fut.out, Res.out]
  · intro nn path S a; simp [complete, nonNullWrap_out, Spec.comp, Fut.out, Res.out]
  · intro nn path S a
    simp [complete, nonNullWrap_out, Spec.comp, Fut.out, Res.out, Out.nonNull]
  · intro nn path S inn items fs S1 h ih
    simp only [complete, h, nonNullWrap_out, mkMapOkToAny_out, mkJoin_out, Fut.out, Spec.comp]
    rw [h] at ih; simp only at ih; rw [ih]
    cases Spec.items inn items path 0 <;> simp [Out.nonNull] <;> cases nn <;> simp
  · intro nn path S fields f S1 h ih
    simp only [complete, h, nonNullWrap_out, mkMapOkToAny_out, Spec.comp]
    rw [h] at ih; simp only at ih; rw [ih]
    simp [fieldsOut, Fut.outs]
    cases Spec.fieldsOk fields path <;> simp [Out.nonNull] <;> cases nn <;> simp
  · intro inn path i S; simp [completeItems, Fut.outs, Spec.items]
  · intro inn path i S c rest f S1 h1 f1 S11 h2 fs S2 h3 ih1 ih2
    simp only [completeItems, h1, h2, h3, Fut.outs, Spec.items]
    rw [h1] at ih1; simp only at ih1
    rw [h3] at ih2; simp only at ih2
    have hc := catchIfNullable_out inn f S1
    rw [h2] at hc; simp only at hc
    rw [hc, ih1, ih2]
    cases Out.caught inn (Spec.comp inn c (path ++ [Seg.idx i])) <;> cases Spec.items inn rest path (i + 1) <;> rfl
  · intro path n i acc S
    simp [execFields, mkMapOkValue_out, mkAfter_out, Fut.out, fieldsOut, Spec.fieldsOk]
    cases Fut.outs acc <;> simp [outOk]
  · intro path n i acc S key nn rerr c rest ih
    rw [execFields_tname, ih]
    simp [fieldsOut, fieldsOk_cons, Spec.field, Out.isOk]
  · intro path n i acc S key nn mode rerr c rest itemPath f S1 h1 S11 e hm h2 ihc
    have hm' : mode ≠ .tname := fun h => hm h
    have hout := fieldStep_out path key nn mode rerr c S S1 S11 f _ hm' ihc h1 h2
    rw [execFields_cons path key nn mode rerr c rest n i acc S S1 S11 f _ hm' h1 h2]
    simp only [fieldCont, fieldsOut, fieldsOk_cons, ← hout, Fut.out, Res.out, Out.isOk]
    simp
  · intro path n i acc S key nn mode rerr c rest itemPath f S1 h1 S11 v hm h2 ihc ih
    have hm' : mode ≠ .tname := fun h => hm h
    have hout := fieldStep_out path key nn mode rerr c S S1 S11 f _ hm' ihc h1 h2
    rw [execFields_cons path key nn mode rerr c rest n i acc S S1 S11 f _ hm' h1 h2]
    simp only [fieldCont, ih, fieldsOut, fieldsOk_cons, ← hout, Fut.out, Res.out, Out.isOk]
    simp
  · intro path n i acc S key nn mode rerr c rest itemPath f S1 h1 S11 f1 hne hno hm h2 ihc ih
    have hm' : mode ≠ .tname := fun h => hm h
    have hout := fieldStep_out path key nn mode rerr c S S1 S11 f f1 hm' ihc h1 h2
    have happ := outs_append_one acc (Fut.mapOk (OkFn.setSlot path i key) f1)
    have hshape : (execFields (Field.mk key nn mode rerr c :: rest) path n i acc S) =
        execFields rest path n (i + 1) (acc ++ [Fut.mapOk (OkFn.setSlot path i key) f1]) S11 := by
      rw [execFields_cons path key nn mode rerr c rest n i acc S S1 S11 f f1 hm' h1 h2]
      unfold fieldCont
      split
      · exact absurd rfl (hne _)
      · exact absurd rfl (hno _)
      · rfl
    rw [hshape, ih]
    simp only [fieldsOut, happ, fieldsOk_cons, ← hout, Fut.out]
    cases f1.out <;> simp [outOk, Out.isOk, Bool.and_assoc]

theorem applyK_out (nn : Bool) (c : Comp) (path : Path) (r : Res) (S : Store) :
    (applyK nn c path r S).1.out = (match r.out with | .ok _ => Spec.comp nn c path | .fail => .fail) := by
  cases r <;> simp [applyK, complete_out_aux.1, Res.out, Fut.out]

theorem complete_out (nn : Bool) (c : Comp) (path : Path) (S : Store) :
    (complete nn c path S).1.out = Spec.comp nn c path := complete_out_aux.1 nn c path S

/-- Subject reduction: polling does not change what a future will resolve to, and a reported
    result is that outcome. -/
theorem poll_out_aux :
    (∀ f S, ∀ f' S' o, poll f S = (f', S', o) → f'.out = f.out ∧ (∀ r, o = some r → r.out = f.out)) ∧
    (∀ fs S, ∀ fs' S' p, pollAll fs S = (fs', S', p) →
      Fut.outs fs' = Fut.outs fs ∧ (∀ e, p = .failed e → Fut.outs fs = none) ∧
      (∀ vs, p = .done vs → Fut.outs fs = some vs)) := by
  apply poll.mutual_induct
    (motive1 := fun f S => ∀ f' S' o, poll f S = (f', S', o) → f'.out = f.out ∧ (∀ r, o = some r → r.out = f.out))
    (motive2 := fun fs S => ∀ fs' S' p, pollAll fs S = (fs', S', p) →
      Fut.outs fs' = Fut.outs fs ∧ (∀ e, p = .failed e → Fut.outs fs = none) ∧
      (∀ vs, p = .done vs → Fut.outs fs = some vs))
  all_goals intros
  all_goals simp_all [poll, pollAll, Fut.out, Fut.outs, outOk, Res.out]
  all_goals (try grind [applyMap_out, applyK_out, construct_out, Res.out, Fut.out, outOk])

end ApiFu.C02
