/-
  C02 helper definitions and lemmas (core Lean only; no Mathlib needed).

  §1  generic facts about `poll`: ready futures are left alone, a reported result is stored,
      the log only grows.
  §2  the static outcome `Fut.out` of a future term and its preservation by the constructors,
      by the executor's builders (where it equals the reference semantics `Spec.comp`) and by
      `poll` (subject reduction).
-/
import ApiFu.C02.Spec

namespace ApiFu.C02

/-! ## §1 generic facts about poll -/

theorem poll_ready (r : Res) (S : Store) : poll (.ready r) S = (.ready r, S, some r) := by
  simp [poll]

/-- A result reported by `poll` is stored in the future (`ready r`). -/
theorem poll_some_ready (f : Fut) (S : Store) :
    ∀ f' S' r, poll f S = (f', S', some r) → f' = .ready r := by
  apply poll.induct (motive1 := fun f S => ∀ f' S' r, poll f S = (f', S', some r) → f' = .ready r)
    (motive2 := fun _ _ => True)
  all_goals (intros; try trivial)
  all_goals (simp_all [poll]; try grind)

/-- A future that did not report a result is not ready. -/
theorem poll_none_not_ready (f : Fut) (S : Store) :
    ∀ f' S', poll f S = (f', S', none) → f'.isReady = false := by
  apply poll.induct (motive1 := fun f S => ∀ f' S', poll f S = (f', S', none) → f'.isReady = false)
    (motive2 := fun _ _ => True)
  all_goals (intros; try trivial)
  all_goals (simp_all [poll, Fut.isReady]; try grind [Fut.isReady])

/-! ## §2 static outcomes -/

def outMap (fn : MapFn) (o : Out) : Out :=
  match fn, o with
  | .catchError, .fail => .ok .null
  | .catchError, .ok v => .ok v
  | .nonNull _, .ok v => if v.isNull then .fail else .ok v
  | .nonNull _, .fail => .fail
  | .tap _, o => o

def outOk (o : Out) (v : Val) : Out :=
  match o with
  | .ok _ => .ok v
  | .fail => .fail

mutual
  /-- What the future will resolve to, read off the term (and, for `thenK`, off the reference
      semantics of the plan its continuation completes). -/
  def Fut.out : Fut → Out
    | .ready r => r.out
    | .promise _ res => res.out
    | .map fn f => outMap fn f.out
    | .mapOk _ f => outOk f.out .null
    | .mapOkToAny f => f.out
    | .mapOkValue v f => outOk f.out v
    | .thenK nn c path f none => (match f.out with | .ok _ => Spec.comp nn c path | .fail => .fail)
    | .thenK _ _ _ _ (some t) => t.out
    | .thenT _ a b f none => (match f.out with | .ok _ => a.out | .fail => b.out)
    | .thenT _ _ _ _ (some t) => t.out
    | .join fs => (match Fut.outs fs with | some vs => .ok (.list vs) | none => .fail)
    | .after fs => (match Fut.outs fs with | some _ => .ok .unit | none => .fail)
  def Fut.outs : List Fut → Option (List Val)
    | [] => some []
    | f :: fs =>
      match f.out, Fut.outs fs with
      | .ok v, some vs => some (v :: vs)
      | _, _ => none
end

theorem applyMap_out (fn : MapFn) (r : Res) (S : Store) : (applyMap fn r S).1.out = outMap fn r.out := by
  cases fn with
  | catchError => cases r <;> simp [applyMap, outMap, Res.out]
  | nonNull e =>
    cases r with
    | ok v => by_cases h : v.isNull <;> simp [applyMap, outMap, Res.out, h]
    | err e' => simp [applyMap, outMap, Res.out]
  | tap t => simp [applyMap, outMap]

theorem mkMap_out (fn : MapFn) (f : Fut) (S : Store) : (mkMap fn f S).1.out = (Fut.map fn f).out := by
  cases f <;> simp [mkMap, Fut.out, applyMap_out]

theorem mkMapOk_out (fn : OkFn) (f : Fut) (S : Store) : (mkMapOk fn f S).1.out = (Fut.mapOk fn f).out := by
  cases f with
  | ready r => cases r <;> cases fn <;> simp [mkMapOk, Fut.out, applyOk, Res.out, outOk]
  | _ => simp [mkMapOk, Fut.out]

theorem mkMapOkToAny_out (f : Fut) : (mkMapOkToAny f).out = f.out := by
  cases f <;> simp [mkMapOkToAny, Fut.out]

theorem mkMapOkValue_out (v : Val) (f : Fut) : (mkMapOkValue v f).out = outOk f.out v := by
  cases f with
  | ready r => cases r <;> simp [mkMapOkValue, Fut.out, Res.out, outOk]
  | _ => simp [mkMapOkValue, Fut.out]

theorem scanReady_out (fs : List Fut) :
    (∀ e, scanReady fs = .failed e → Fut.outs fs = none) ∧
    (∀ vs, scanReady fs = .done vs → Fut.outs fs = some vs) := by
  fun_induction scanReady fs <;> simp_all [Fut.outs, Fut.out, Res.out]
  all_goals (try grind)

theorem mkJoin_out (fs : List Fut) : (mkJoin fs).out = (Fut.join fs).out := by
  have h := scanReady_out fs
  unfold mkJoin
  split <;> simp_all [Fut.out, Res.out]

theorem mkAfter_out (fs : List Fut) : (mkAfter fs).out = (Fut.after fs).out := by
  have h := scanReady_out fs
  unfold mkAfter
  split <;> simp_all [Fut.out, Res.out]

theorem construct_out_aux :
    (∀ t S, (construct t S).1.out = t.out) ∧ (∀ ts S, Fut.outs (constructAll ts S).1 = Fut.outs ts) := by
  apply construct.mutual_induct
    (motive_1 := fun t S => (construct t S).1.out = t.out)
    (motive_2 := fun ts S => Fut.outs (constructAll ts S).1 = Fut.outs ts)
  case case9 =>
    intro S tag a b t S1 r S2 h x ih2 ih1
    cases r <;> simp_all [construct, Fut.out, Res.out, Res.isOk, S2]
    rw [← ih2]
  case case10 =>
    intro S tag a b t S1 r S2 h x ih2 ih1
    cases r <;> simp_all [construct, Fut.out, Res.out, Res.isOk, S2]
    rw [← ih2]
  all_goals intros
  all_goals simp_all [construct, constructAll, mkMap_out, mkMapOk_out, mkMapOkToAny_out, mkMapOkValue_out,
    mkJoin_out, mkAfter_out, Fut.out, Fut.outs, outOk]

theorem construct_out (t : Fut) (S : Store) : (construct t S).1.out = t.out := construct_out_aux.1 t S

theorem Val.isNull_iff (v : Val) : v.isNull = true ↔ v = .null := by
  cases v <;> simp [Val.isNull]

theorem nonNullWrap_out (nn : Bool) (path : Path) (f : Fut) (S : Store) :
    (nonNullWrap nn path f S).1.out = Out.nonNull nn f.out := by
  unfold nonNullWrap Out.nonNull
  cases nn <;> simp [mkMap_out, Fut.out]
  cases h : f.out with
  | fail => simp [outMap]
  | ok v => cases v <;> simp [outMap, Val.isNull]

theorem catchIfNullable_out (nn : Bool) (f : Fut) (S : Store) :
    (catchIfNullable nn f S).1.out = Out.caught nn f.out := by
  unfold catchIfNullable Out.caught
  cases nn <;> simp [mkMap_out, Fut.out]
  cases h : f.out <;> simp [outMap]

theorem execField_out (nn : Bool) (mode : Mode) (rerr : Option String) (c : Comp) (itemPath : Path)
    (completed : Store → Fut × Store) (S : Store)
    (hc : ∀ S', (completed S').1.out = Spec.comp nn c itemPath) :
    (execField nn mode rerr c itemPath completed S).1.out =
      (match rerr with | some _ => Out.fail | none => Spec.comp nn c itemPath) := by
  unfold execField
  cases mode <;> cases rerr <;> simp [Fut.out, Res.out, hc]

theorem outs_append_one (acc : List Fut) (g : Fut) :
    (Fut.outs (acc ++ [g])).isSome = ((Fut.outs acc).isSome && g.out.isOk) := by
  induction acc with
  | nil => cases h : g.out <;> simp [Fut.outs, h, Out.isOk]
  | cons a acc ih =>
    simp only [List.cons_append, Fut.outs]
    cases ha : a.out <;> cases hacc : Fut.outs acc <;> cases hg : g.out <;>
      cases h2 : Fut.outs (acc ++ [g]) <;> simp_all [Out.isOk]

/-- Outcome of the future `execFields` builds: the object, iff the futures collected so far and
    all remaining fields yield values. -/
def fieldsOut (fields : List Field) (path : Path) (n : Nat) (acc : List Fut) : Out :=
  if (Fut.outs acc).isSome && Spec.fieldsOk fields path then .ok (.obj path n) else .fail

theorem fieldsOk_cons (fld : Field) (rest : List Field) (path : Path) :
    Spec.fieldsOk (fld :: rest) path = ((Spec.field path fld).isOk && Spec.fieldsOk rest path) := by
  cases fld with
  | mk key nn mode rerr c =>
    cases mode <;> cases rerr <;> cases nn <;> simp [Spec.fieldsOk, Spec.field, Out.caught, Out.isOk]

theorem field_eq (path : Path) (key : String) (nn : Bool) (mode : Mode) (rerr : Option String) (c : Comp)
    (hm : mode ≠ .tname) :
    Spec.field path (.mk key nn mode rerr c) =
      Out.caught nn (match rerr with | some _ => Out.fail | none => Spec.comp nn c (path ++ [.key key])) := by
  cases mode <;> cases rerr <;> simp_all [Spec.field]

/-- The future of one field (`catchErrorIfNullable(executeField(…))`) has the reference outcome. -/
theorem fieldStep_out (path : Path) (key : String) (nn : Bool) (mode : Mode) (rerr : Option String) (c : Comp)
    (S S1 S11 : Store) (f f1 : Fut) (hm : mode ≠ .tname)
    (ihc : ∀ S', (complete nn c (path ++ [.key key]) S').1.out = Spec.comp nn c (path ++ [.key key]))
    (h1 : execField nn mode rerr c (path ++ [.key key]) (fun S' => complete nn c (path ++ [.key key]) S') S = (f, S1))
    (h2 : catchIfNullable nn f S1 = (f1, S11)) :
    f1.out = Spec.field path (.mk key nn mode rerr c) := by
  have hf := execField_out nn mode rerr c (path ++ [.key key]) (fun S' => complete nn c (path ++ [.key key]) S') S ihc
  rw [h1] at hf
  have hc := catchIfNullable_out nn f S1
  rw [h2] at hc
  rw [field_eq path key nn mode rerr c hm, hc, hf]

/-- What `execFields` does with the future `f1` of the current field. -/
def fieldCont (rest : List Field) (path : Path) (n i : Nat) (acc : List Fut) (key : String) (f1 : Fut) (S11 : Store) :
    Fut × Store :=
  match f1 with
  | .ready (.err e) => (.ready (.err e), S11)
  | .ready (.ok v) => execFields rest path n (i + 1) acc (S11.push (.write path i key v))
  | f1 => execFields rest path n (i + 1) (acc ++ [.mapOk (.setSlot path i key) f1]) S11

/-- One step of the field loop of `execFields` (all resolver-backed modes). -/
theorem execFields_cons (path : Path) (key : String) (nn : Bool) (mode : Mode) (rerr : Option String) (c : Comp)
    (rest : List Field) (n i : Nat) (acc : List Fut) (S S1 S11 : Store) (f f1 : Fut) (hm : mode ≠ .tname)
    (h1 : execField nn mode rerr c (path ++ [.key key]) (fun S' => complete nn c (path ++ [.key key]) S') S = (f, S1))
    (h2 : catchIfNullable nn f S1 = (f1, S11)) :
    execFields (.mk key nn mode rerr c :: rest) path n i acc S = fieldCont rest path n i acc key f1 S11 := by
  cases mode
  all_goals first
    | exact absurd rfl hm
    | (simp only [execFields, h1, h2, fieldCont]
       cases f1 with
       | ready r => cases r <;> rfl
       | _ => rfl)

theorem execFields_tname (path : Path) (key : String) (nn : Bool) (rerr : Option String) (c : Comp)
    (rest : List Field) (n i : Nat) (acc : List Fut) (S : Store) :
    execFields (.mk key nn .tname rerr c :: rest) path n i acc S =
      execFields rest path n (i + 1) acc
        (S.push (.write path i key (tnameVal c))) := by
  simp [execFields]

theorem complete_out_aux :
    (∀ nn c path S, (complete nn c path S).1.out = Spec.comp nn c path) ∧
    (∀ fields path n i acc S, (execFields fields path n i acc S).1.out = fieldsOut fields path n acc) ∧
    (∀ inn items path i S, Fut.outs (completeItems inn items path i S).1 = Spec.items inn items path i) := by
  apply complete.mutual_induct
    (motive_1 := fun nn c path S => (complete nn c path S).1.out = Spec.comp nn c path)
    (motive_2 := fun fields path n i acc S => (execFields fields path n i acc S).1.out = fieldsOut fields path n acc)
    (motive_3 := fun inn items path i S => Fut.outs (completeItems inn items path i S).1 = Spec.items inn items path i)
  · intro nn path S; simp [complete, nonNullWrap_out, Spec.comp, Fut.out, Res.out]
  · intro nn path S a; simp [complete, nonNullWrap_out, Spec.comp, Fut.out, Res.out]
  · intro nn path S a
    simp [complete, nonNullWrap_out, Spec.comp, Fut.out, Res.out, Out.nonNull]
  · intro nn path S inn items fs S1 h ih
    simp only [complete, h, nonNullWrap_out, mkMapOkToAny_out, mkJoin_out, Fut.out, Spec.comp]
    rw [h] at ih; simp only at ih; rw [ih]
    cases Spec.items inn items path 0 <;> simp [Out.nonNull] <;> cases nn <;> simp
  · intro nn path S fields f S1 h ih
    simp only [complete, h, nonNullWrap_out, mkMapOkToAny_out, Spec.comp]
    rw [h] at ih; simp only at ih; rw [ih]
    simp [fieldsOut, Fut.outs]
    cases Spec.fieldsOk fields path <;> simp [Out.nonNull] <;> cases nn <;> simp
  · intro inn path i S; simp [completeItems, Fut.outs, Spec.items]
  · intro inn path i S c rest f S1 h1 f1 S11 h2 fs S2 h3 ih1 ih2
    simp only [completeItems, h1, h2, h3, Fut.outs, Spec.items]
    rw [h1] at ih1; simp only at ih1
    rw [h3] at ih2; simp only at ih2
    have hc := catchIfNullable_out inn f S1
    rw [h2] at hc; simp only at hc
    rw [hc, ih1, ih2]
    cases Out.caught inn (Spec.comp inn c (path ++ [Seg.idx i])) <;> cases Spec.items inn rest path (i + 1) <;> rfl
  · intro path n i acc S
    simp [execFields, mkMapOkValue_out, mkAfter_out, Fut.out, fieldsOut, Spec.fieldsOk]
    cases Fut.outs acc <;> simp [outOk]
  · intro path n i acc S key nn rerr c rest ih
    rw [execFields_tname, ih]
    simp [fieldsOut, fieldsOk_cons, Spec.field, Out.isOk]
  · intro path n i acc S key nn mode rerr c rest itemPath f S1 h1 S11 e hm h2 ihc
    have hm' : mode ≠ .tname := fun h => hm h
    have hout := fieldStep_out path key nn mode rerr c S S1 S11 f _ hm' ihc h1 h2
    rw [execFields_cons path key nn mode rerr c rest n i acc S S1 S11 f _ hm' h1 h2]
    simp only [fieldCont, fieldsOut, fieldsOk_cons, ← hout, Fut.out, Res.out, Out.isOk]
    simp
  · intro path n i acc S key nn mode rerr c rest itemPath f S1 h1 S11 v hm h2 ihc ih
    have hm' : mode ≠ .tname := fun h => hm h
    have hout := fieldStep_out path key nn mode rerr c S S1 S11 f _ hm' ihc h1 h2
    rw [execFields_cons path key nn mode rerr c rest n i acc S S1 S11 f _ hm' h1 h2]
    simp only [fieldCont, ih, fieldsOut, fieldsOk_cons, ← hout, Fut.out, Res.out, Out.isOk]
    simp
  · intro path n i acc S key nn mode rerr c rest itemPath f S1 h1 S11 f1 hne hno hm h2 ihc ih
    have hm' : mode ≠ .tname := fun h => hm h
    have hout := fieldStep_out path key nn mode rerr c S S1 S11 f f1 hm' ihc h1 h2
    have happ := outs_append_one acc (Fut.mapOk (OkFn.setSlot path i key) f1)
    have hshape : (execFields (Field.mk key nn mode rerr c :: rest) path n i acc S) =
        execFields rest path n (i + 1) (acc ++ [Fut.mapOk (OkFn.setSlot path i key) f1]) S11 := by
      rw [execFields_cons path key nn mode rerr c rest n i acc S S1 S11 f f1 hm' h1 h2]
      unfold fieldCont
      split
      · exact absurd rfl (hne _)
      · exact absurd rfl (hno _)
      · rfl
    rw [hshape, ih]
    simp only [fieldsOut, happ, fieldsOk_cons, ← hout, Fut.out]
    cases f1.out <;> simp [outOk, Out.isOk, Bool.and_assoc]

theorem applyK_out (nn : Bool) (c : Comp) (path : Path) (r : Res) (S : Store) :
    (applyK nn c path r S).1.out = (match r.out with | .ok _ => Spec.comp nn c path | .fail => .fail) := by
  cases r <;> simp [applyK, complete_out_aux.1, Res.out, Fut.out]

theorem complete_out (nn : Bool) (c : Comp) (path : Path) (S : Store) :
    (complete nn c path S).1.out = Spec.comp nn c path := complete_out_aux.1 nn c path S

/-! ## §3 weights: the two non-structural calls of `poll` always satisfy their guard -/

theorem Fut.weight_pos (f : Fut) : 1 ≤ f.weight := by
  cases f <;> simp [Fut.weight] <;> omega

theorem mkMap_weight (fn : MapFn) (f : Fut) (S : Store) : (mkMap fn f S).1.weight ≤ 1 + f.weight := by
  cases f <;> simp [mkMap, Fut.weight]

theorem mkMapOk_weight (fn : OkFn) (f : Fut) (S : Store) : (mkMapOk fn f S).1.weight ≤ 1 + f.weight := by
  cases f with
  | ready r => cases r <;> simp [mkMapOk, Fut.weight]
  | _ => simp [mkMapOk, Fut.weight]

theorem mkMapOkToAny_weight (f : Fut) : (mkMapOkToAny f).weight ≤ 1 + f.weight := by
  cases f <;> simp [mkMapOkToAny, Fut.weight]

theorem mkMapOkValue_weight (v : Val) (f : Fut) : (mkMapOkValue v f).weight ≤ 1 + f.weight := by
  cases f with
  | ready r => cases r <;> simp [mkMapOkValue, Fut.weight]
  | _ => simp [mkMapOkValue, Fut.weight]

theorem mkJoin_weight (fs : List Fut) : (mkJoin fs).weight ≤ 1 + Fut.weightL fs := by
  unfold mkJoin; split <;> simp [Fut.weight]

theorem mkAfter_weight (fs : List Fut) : (mkAfter fs).weight ≤ 1 + Fut.weightL fs := by
  unfold mkAfter; split <;> simp [Fut.weight]

theorem construct_weight_aux :
    (∀ t S, (construct t S).1.weight ≤ t.weight) ∧
    (∀ ts S, Fut.weightL (constructAll ts S).1 ≤ Fut.weightL ts) := by
  apply construct.mutual_induct
    (motive_1 := fun t S => (construct t S).1.weight ≤ t.weight)
    (motive_2 := fun ts S => Fut.weightL (constructAll ts S).1 ≤ Fut.weightL ts)
  case case9 =>
    intro S tag a b t S1 r S2 h x ih2 ih1
    simp only [construct, x, h, Fut.weight, Fut.weightO, if_true]
    have : (construct a (S1.push (Entry.note ("then:" ++ tag ++ ":" ++ showRes r)))).1.weight ≤ a.weight := ih1
    omega
  case case10 =>
    intro S tag a b t S1 r S2 h x ih2 ih1
    simp only [construct, x, h, Fut.weight, Fut.weightO]
    have : (construct b (S1.push (Entry.note ("then:" ++ tag ++ ":" ++ showRes r)))).1.weight ≤ b.weight := ih1
    simp only [Bool.false_eq_true, if_false]
    omega
  case case11 =>
    intro S tag a b t f S1 x hnr ih
    have hc : (construct (Fut.thenT tag a b t none) S) = (Fut.thenT tag a b f none, S1) := by
      simp only [construct, x]
    rw [x] at ih
    simp only [hc, Fut.weight, Fut.weightO]
    simp only at ih
    omega
  all_goals intros
  all_goals simp_all only [construct, constructAll, Fut.weight, Fut.weightL, Fut.weightO]
  all_goals first
    | omega
    | (have := mkMap_weight ‹MapFn› ‹Fut› ‹Store›; omega)
    | (have := mkMapOk_weight ‹OkFn› ‹Fut› ‹Store›; omega)
    | (have := mkMapOkToAny_weight ‹Fut›; omega)
    | (have := mkMapOkValue_weight ‹Val› ‹Fut›; omega)
    | (have := mkJoin_weight ‹List Fut›; omega)
    | (have := mkAfter_weight ‹List Fut›; omega)
    | skip

theorem construct_weight (t : Fut) (S : Store) : (construct t S).1.weight ≤ t.weight := construct_weight_aux.1 t S

theorem nonNullWrap_weight (nn : Bool) (path : Path) (f : Fut) (S : Store) :
    (nonNullWrap nn path f S).1.weight ≤ 1 + f.weight := by
  unfold nonNullWrap; cases nn <;> simp
  exact mkMap_weight _ _ _

theorem catchIfNullable_weight (nn : Bool) (f : Fut) (S : Store) :
    (catchIfNullable nn f S).1.weight ≤ 1 + f.weight := by
  unfold catchIfNullable; cases nn <;> simp
  exact mkMap_weight _ _ _

theorem execField_weight (nn : Bool) (mode : Mode) (rerr : Option String) (c : Comp) (itemPath : Path)
    (completed : Store → Fut × Store) (S : Store) (hc : ∀ S', (completed S').1.weight ≤ c.weight)
    (_hpos : 1 ≤ c.weight) :
    (execField nn mode rerr c itemPath completed S).1.weight ≤ c.weight + 2 := by
  unfold execField
  cases mode <;> cases rerr <;> simp [Fut.weight, Fut.weightO] <;> first | omega | (have := hc (S.push (.start itemPath)); omega)

theorem Comp.weight_pos (c : Comp) : 1 ≤ c.weight := by
  cases c <;> simp [Comp.weight] <;> omega

theorem weightL_append_one (acc : List Fut) (g : Fut) : Fut.weightL (acc ++ [g]) = Fut.weightL acc + 1 + g.weight := by
  induction acc with
  | nil => simp [Fut.weightL]
  | cons a acc ih => simp [Fut.weightL, ih]; omega

theorem complete_weight_aux :
    (∀ nn c path S, (complete nn c path S).1.weight ≤ c.weight) ∧
    (∀ fields path n i acc S, (execFields fields path n i acc S).1.weight ≤ 2 + Fut.weightL acc + Field.weightL fields) ∧
    (∀ inn items path i S, Fut.weightL (completeItems inn items path i S).1 ≤ Comp.weightL items) := by
  apply complete.mutual_induct
    (motive_1 := fun nn c path S => (complete nn c path S).1.weight ≤ c.weight)
    (motive_2 := fun fields path n i acc S =>
      (execFields fields path n i acc S).1.weight ≤ 2 + Fut.weightL acc + Field.weightL fields)
    (motive_3 := fun inn items path i S => Fut.weightL (completeItems inn items path i S).1 ≤ Comp.weightL items)
  · intro nn path S
    have := nonNullWrap_weight nn path (.ready (.ok .null)) S
    simp [complete, Comp.weight, Fut.weight] at *; omega
  · intro nn path S a
    have := nonNullWrap_weight nn path (.ready (.ok (.scalar a))) S
    simp [complete, Comp.weight, Fut.weight] at *; omega
  · intro nn path S a
    have := nonNullWrap_weight nn path (.ready (.err ⟨path, a⟩)) S
    simp [complete, Comp.weight, Fut.weight] at *; omega
  · intro nn path S inn items fs S1 h ih
    rw [h] at ih; simp only at ih
    have h1 := nonNullWrap_weight nn path (mkMapOkToAny (mkJoin fs)) S1
    have h2 := mkMapOkToAny_weight (mkJoin fs)
    have h3 := mkJoin_weight fs
    simp only [complete, h, Comp.weight]; omega
  · intro nn path S fields f S1 h ih
    rw [h] at ih; simp only [Fut.weightL] at ih
    have h1 := nonNullWrap_weight nn path (mkMapOkToAny f) S1
    have h2 := mkMapOkToAny_weight f
    simp only [complete, h, Comp.weight]; omega
  · intro inn path i S; simp [completeItems, Fut.weightL]
  · intro inn path i S c rest f S1 h1 f1 S11 h2 fs S2 h3 ih1 ih2
    rw [h1] at ih1; rw [h3] at ih2; simp only at ih1 ih2
    have hc := catchIfNullable_weight inn f S1
    rw [h2] at hc; simp only at hc
    simp only [completeItems, h1, h2, h3, Fut.weightL, Comp.weightL]; omega
  · intro path n i acc S
    have h1 := mkMapOkValue_weight (.obj path n) (mkAfter acc)
    have h2 := mkAfter_weight acc
    simp only [execFields, Field.weightL]; omega
  · intro path n i acc S key nn rerr c rest ih
    rw [execFields_tname]; simp only [Field.weightL]; omega
  · intro path n i acc S key nn mode rerr c rest itemPath f S1 h1 S11 e hm h2 ihc
    have hm' : mode ≠ .tname := fun h => hm h
    rw [execFields_cons path key nn mode rerr c rest n i acc S S1 S11 f _ hm' h1 h2]
    simp only [fieldCont, Fut.weight]; omega
  · intro path n i acc S key nn mode rerr c rest itemPath f S1 h1 S11 v hm h2 ihc ih
    have hm' : mode ≠ .tname := fun h => hm h
    rw [execFields_cons path key nn mode rerr c rest n i acc S S1 S11 f _ hm' h1 h2]
    simp only [fieldCont, Field.weightL]; omega
  · intro path n i acc S key nn mode rerr c rest itemPath f S1 h1 S11 f1 hne hno hm h2 ihc ih
    have hm' : mode ≠ .tname := fun h => hm h
    have hf := execField_weight nn mode rerr c itemPath (fun S' => complete nn c itemPath S') S ihc (Comp.weight_pos c)
    rw [h1] at hf; simp only at hf
    have hc := catchIfNullable_weight nn f S1
    rw [h2] at hc; simp only at hc
    rw [execFields_cons path key nn mode rerr c rest n i acc S S1 S11 f f1 hm' h1 h2]
    have hshape : fieldCont rest path n i acc key f1 S11 =
        execFields rest path n (i + 1) (acc ++ [Fut.mapOk (OkFn.setSlot path i key) f1]) S11 := by
      unfold fieldCont
      split
      · exact absurd rfl (hne _)
      · exact absurd rfl (hno _)
      · rfl
    rw [hshape]
    rw [weightL_append_one] at ih
    simp only [Fut.weight, Field.weightL] at *; omega

theorem complete_weight (nn : Bool) (c : Comp) (path : Path) (S : Store) :
    (complete nn c path S).1.weight ≤ c.weight := complete_weight_aux.1 nn c path S

/-- The guard of `poll`'s `thenK` branch always holds. -/
theorem applyK_weight (nn : Bool) (c : Comp) (path : Path) (r : Res) (S : Store) (g : Fut) :
    (applyK nn c path r S).1.weight < (Fut.thenK nn c path g none).weight := by
  have := Fut.weight_pos g
  cases r with
  | ok v => have := complete_weight nn c path S; simp [applyK, Fut.weight, Fut.weightO]; omega
  | err e => simp [applyK, Fut.weight, Fut.weightO]; omega

/-- The guard of `poll`'s `thenT` branch always holds. -/
theorem thenT_built_weight (tag : String) (a b g : Fut) (r : Res) (S : Store) :
    (if r.isOk = true then construct a S else construct b S).1.weight < (Fut.thenT tag a b g none).weight := by
  have := Fut.weight_pos g
  have ha := construct_weight a S
  have hb := construct_weight b S
  split <;> simp [Fut.weight, Fut.weightO] <;> omega

theorem applyOk_fst' (fn : OkFn) (v : Val) (S : Store) : (applyOk fn v S).1 = .null := by
  cases fn; simp [applyOk]

@[simp] theorem applyOk_fst (fn : OkFn) (v : Val) (S : Store) : (applyOk fn v S).1 = .null := by
  cases fn; simp [applyOk]

theorem thenT_built_out (r : Res) (a b : Fut) (S : Store) :
    (if r.isOk = true then construct a S else construct b S).1.out =
      (match r.out with | .ok _ => a.out | .fail => b.out) := by
  cases r <;> simp [Res.isOk, Res.out, construct_out]

/-- Subject reduction: polling does not change what a future will resolve to, and a reported
    result is that outcome. -/
theorem poll_out_aux :
    (∀ f S, (poll f S).1.out = f.out ∧ (∀ r, (poll f S).2.2 = some r → r.out = f.out)) ∧
    (∀ fs S, Fut.outs (pollAll fs S).1 = Fut.outs fs ∧
      (∀ e, (pollAll fs S).2.2 = .failed e → Fut.outs fs = none) ∧
      (∀ vs, (pollAll fs S).2.2 = .done vs → Fut.outs fs = some vs)) := by
  apply poll.mutual_induct
    (motive1 := fun f S => (poll f S).1.out = f.out ∧ (∀ r, (poll f S).2.2 = some r → r.out = f.out))
    (motive2 := fun fs S => Fut.outs (pollAll fs S).1 = Fut.outs fs ∧
      (∀ e, (pollAll fs S).2.2 = .failed e → Fut.outs fs = none) ∧
      (∀ vs, (pollAll fs S).2.2 = .done vs → Fut.outs fs = some vs))
  all_goals intros
  all_goals simp_all +zetaDelta [poll, pollAll, Fut.out, Fut.outs, outOk, Res.out]
  all_goals (try grind [applyMap_out, applyK_out, construct_out, Res.out, Fut.out, outOk])
  · rename_i fn g fst S1 v x1 v' S' x ih
    have := applyOk_fst fn v S1
    rw [x] at this; simp only at this; subst this
    rw [← ih.2]
  · rename_i x ih2 ih1
    rw [thenT_built_out, ← ih2.2]
    rename_i r _ _ _ _
    cases r <;> rfl
  · rename_i x ih2 ih1
    rw [thenT_built_out, ← ih2.2]
    rename_i r _ _ _
    cases r <;> rfl

theorem poll_out (f : Fut) (S : Store) : (poll f S).1.out = f.out := (poll_out_aux.1 f S).1

theorem poll_result_out (f : Fut) (S : Store) (r : Res) (h : (poll f S).2.2 = some r) : r.out = f.out :=
  (poll_out_aux.1 f S).2 r h

/-! ## §3b a tidier induction principle for `poll`, and its unfolding equations -/

theorem poll_map_some {fn : MapFn} {g g' : Fut} {S S1 : Store} {r : Res} (h : poll g S = (g', S1, some r)) :
    poll (.map fn g) S = (.ready (applyMap fn r S1).1, (applyMap fn r S1).2, some (applyMap fn r S1).1) := by
  simp [poll, h]

theorem poll_map_none {fn : MapFn} {g g' : Fut} {S S1 : Store} (h : poll g S = (g', S1, none)) :
    poll (.map fn g) S = (.map fn g', S1, none) := by
  simp [poll, h]

theorem poll_mapOk_ok {fn : OkFn} {g g' : Fut} {S S1 : Store} {v : Val} (h : poll g S = (g', S1, some (.ok v))) :
    poll (.mapOk fn g) S = (.ready (.ok .null), (applyOk fn v S1).2, some (.ok .null)) := by
  simp [poll, h, applyOk_fst']

theorem poll_mapOk_err {fn : OkFn} {g g' : Fut} {S S1 : Store} {e : Err} (h : poll g S = (g', S1, some (.err e))) :
    poll (.mapOk fn g) S = (.ready (.err e), S1, some (.err e)) := by
  simp [poll, h]

theorem poll_mapOk_none {fn : OkFn} {g g' : Fut} {S S1 : Store} (h : poll g S = (g', S1, none)) :
    poll (.mapOk fn g) S = (.mapOk fn g', S1, none) := by
  simp [poll, h]

theorem poll_mapOkToAny_some {g g' : Fut} {S S1 : Store} {r : Res} (h : poll g S = (g', S1, some r)) :
    poll (.mapOkToAny g) S = (.ready r, S1, some r) := by
  simp [poll, h]

theorem poll_mapOkToAny_none {g g' : Fut} {S S1 : Store} (h : poll g S = (g', S1, none)) :
    poll (.mapOkToAny g) S = (.mapOkToAny g', S1, none) := by
  simp [poll, h]

theorem poll_mapOkValue_ok {v : Val} {g g' : Fut} {S S1 : Store} {w : Val} (h : poll g S = (g', S1, some (.ok w))) :
    poll (.mapOkValue v g) S = (.ready (.ok v), S1, some (.ok v)) := by
  simp [poll, h]

theorem poll_mapOkValue_err {v : Val} {g g' : Fut} {S S1 : Store} {e : Err} (h : poll g S = (g', S1, some (.err e))) :
    poll (.mapOkValue v g) S = (.ready (.err e), S1, some (.err e)) := by
  simp [poll, h]

theorem poll_mapOkValue_none {v : Val} {g g' : Fut} {S S1 : Store} (h : poll g S = (g', S1, none)) :
    poll (.mapOkValue v g) S = (.mapOkValue v g', S1, none) := by
  simp [poll, h]

/-- `Then` of executeField: the promise did not deliver. -/
theorem poll_thenK_wait {nn : Bool} {c : Comp} {path : Path} {g g' : Fut} {S S1 : Store}
    (h : poll g S = (g', S1, none)) : poll (.thenK nn c path g none) S = (.thenK nn c path g' none, S1, none) := by
  simp [poll, h]

/-- … it delivered and the continuation's future resolved in the same poll. -/
theorem poll_thenK_fire_some {nn : Bool} {c : Comp} {path : Path} {g g' t' : Fut} {S S1 S3 : Store} {r r' : Res}
    (h : poll g S = (g', S1, some r))
    (h2 : poll (applyK nn c path r S1).1 (applyK nn c path r S1).2 = (t', S3, some r')) :
    poll (.thenK nn c path g none) S = (.ready r', S3, some r') := by
  simp [poll, h, h2, applyK_weight nn c path r S1 g]

/-- … it delivered and the continuation's future is still pending. -/
theorem poll_thenK_fire_none {nn : Bool} {c : Comp} {path : Path} {g g' t' : Fut} {S S1 S3 : Store} {r : Res}
    (h : poll g S = (g', S1, some r))
    (h2 : poll (applyK nn c path r S1).1 (applyK nn c path r S1).2 = (t', S3, none)) :
    poll (.thenK nn c path g none) S = (.thenK nn c path g' (some t'), S3, none) := by
  simp [poll, h, h2, applyK_weight nn c path r S1 g]

theorem poll_thenK_cont_some {nn : Bool} {c : Comp} {path : Path} {g t t' : Fut} {S S1 : Store} {r : Res}
    (h : poll t S = (t', S1, some r)) : poll (.thenK nn c path g (some t)) S = (.ready r, S1, some r) := by
  simp [poll, h]

theorem poll_thenK_cont_none {nn : Bool} {c : Comp} {path : Path} {g t t' : Fut} {S S1 : Store}
    (h : poll t S = (t', S1, none)) :
    poll (.thenK nn c path g (some t)) S = (.thenK nn c path g (some t'), S1, none) := by
  simp [poll, h]

/-- The store and future a `thenT` continuation starts from. -/
def thenTBuilt (tag : String) (a b : Fut) (r : Res) (S1 : Store) : Fut × Store :=
  if r.isOk = true then construct a (S1.push (.note ("then:" ++ tag ++ ":" ++ showRes r)))
  else construct b (S1.push (.note ("then:" ++ tag ++ ":" ++ showRes r)))

theorem poll_thenT_wait {tag : String} {a b g g' : Fut} {S S1 : Store}
    (h : poll g S = (g', S1, none)) : poll (.thenT tag a b g none) S = (.thenT tag a b g' none, S1, none) := by
  simp [poll, h]

theorem poll_thenT_fire_some {tag : String} {a b g g' t' : Fut} {S S1 S3 : Store} {r r' : Res}
    (h : poll g S = (g', S1, some r))
    (h2 : poll (thenTBuilt tag a b r S1).1 (thenTBuilt tag a b r S1).2 = (t', S3, some r')) :
    poll (.thenT tag a b g none) S = (.ready r', S3, some r') := by
  have hw := thenT_built_weight tag a b g r (S1.push (.note ("then:" ++ tag ++ ":" ++ showRes r)))
  unfold thenTBuilt at h2
  simp [poll, h, h2, hw]

theorem poll_thenT_fire_none {tag : String} {a b g g' t' : Fut} {S S1 S3 : Store} {r : Res}
    (h : poll g S = (g', S1, some r))
    (h2 : poll (thenTBuilt tag a b r S1).1 (thenTBuilt tag a b r S1).2 = (t', S3, none)) :
    poll (.thenT tag a b g none) S = (.thenT tag a b g' (some t'), S3, none) := by
  have hw := thenT_built_weight tag a b g r (S1.push (.note ("then:" ++ tag ++ ":" ++ showRes r)))
  unfold thenTBuilt at h2
  simp [poll, h, h2, hw]

theorem poll_thenT_cont_some {tag : String} {a b g t t' : Fut} {S S1 : Store} {r : Res}
    (h : poll t S = (t', S1, some r)) : poll (.thenT tag a b g (some t)) S = (.ready r, S1, some r) := by
  simp [poll, h]

theorem poll_thenT_cont_none {tag : String} {a b g t t' : Fut} {S S1 : Store}
    (h : poll t S = (t', S1, none)) :
    poll (.thenT tag a b g (some t)) S = (.thenT tag a b g (some t'), S1, none) := by
  simp [poll, h]

theorem poll_join_failed {fs fs' : List Fut} {S S1 : Store} {e : Err} (h : pollAll fs S = (fs', S1, .failed e)) :
    poll (.join fs) S = (.ready (.err e), S1, some (.err e)) := by simp [poll, h]

theorem poll_join_done {fs fs' : List Fut} {S S1 : Store} {vs : List Val} (h : pollAll fs S = (fs', S1, .done vs)) :
    poll (.join fs) S = (.ready (.ok (.list vs)), S1, some (.ok (.list vs))) := by simp [poll, h]

theorem poll_join_pending {fs fs' : List Fut} {S S1 : Store} (h : pollAll fs S = (fs', S1, .pending)) :
    poll (.join fs) S = (.join fs', S1, none) := by simp [poll, h]

theorem poll_after_failed {fs fs' : List Fut} {S S1 : Store} {e : Err} (h : pollAll fs S = (fs', S1, .failed e)) :
    poll (.after fs) S = (.ready (.err e), S1, some (.err e)) := by simp [poll, h]

theorem poll_after_done {fs fs' : List Fut} {S S1 : Store} {vs : List Val} (h : pollAll fs S = (fs', S1, .done vs)) :
    poll (.after fs) S = (.ready (.ok .unit), S1, some (.ok .unit)) := by simp [poll, h]

theorem poll_after_pending {fs fs' : List Fut} {S S1 : Store} (h : pollAll fs S = (fs', S1, .pending)) :
    poll (.after fs) S = (.after fs', S1, none) := by simp [poll, h]

theorem pollAll_nil (S : Store) : pollAll [] S = ([], S, .done []) := by simp [pollAll]

/-- A child resolved to an error: the pass ends there; the remaining children are not polled. -/
theorem pollAll_cons_err {f f' : Fut} {rest : List Fut} {S S1 : Store} {e : Err}
    (h : poll f S = (f', S1, some (.err e))) : pollAll (f :: rest) S = (f' :: rest, S1, .failed e) := by
  simp [pollAll, h]

theorem pollAll_cons_ok {f f' : Fut} {rest rest' : List Fut} {S S1 S2 : Store} {v : Val} {p : Pass}
    (h : poll f S = (f', S1, some (.ok v))) (h2 : pollAll rest S1 = (rest', S2, p)) :
    pollAll (f :: rest) S = (f' :: rest', S2,
      match p with | .failed e => .failed e | .done vs => .done (v :: vs) | .pending => .pending) := by
  cases p <;> simp [pollAll, h, h2]

theorem pollAll_cons_none {f f' : Fut} {rest rest' : List Fut} {S S1 S2 : Store} {p : Pass}
    (h : poll f S = (f', S1, none)) (h2 : pollAll rest S1 = (rest', S2, p)) :
    pollAll (f :: rest) S = (f' :: rest', S2, match p with | .failed e => .failed e | _ => .pending) := by
  cases p <;> simp [pollAll, h, h2]

/--
Induction over the run of `poll`: one case per combinator; the hypotheses about sub-polls are
plain facts (`P1 g S` for the child polled first; for what is polled afterwards a statement
quantified over the outcome of the first poll).
-/
theorem poll_induct' {P1 : Fut → Store → Prop} {P2 : List Fut → Store → Prop}
    (ready : ∀ r S, P1 (.ready r) S)
    (promise : ∀ id res S, P1 (.promise id res) S)
    (map : ∀ fn g S, P1 g S → P1 (.map fn g) S)
    (mapOk : ∀ fn g S, P1 g S → P1 (.mapOk fn g) S)
    (mapOkToAny : ∀ g S, P1 g S → P1 (.mapOkToAny g) S)
    (mapOkValue : ∀ v g S, P1 g S → P1 (.mapOkValue v g) S)
    (thenK_none : ∀ nn c path g S, P1 g S →
      (∀ g' S1 r, poll g S = (g', S1, some r) → P1 (applyK nn c path r S1).1 (applyK nn c path r S1).2) →
      P1 (.thenK nn c path g none) S)
    (thenK_some : ∀ nn c path g t S, P1 t S → P1 (.thenK nn c path g (some t)) S)
    (thenT_none : ∀ tag a b g S, P1 g S →
      (∀ g' S1 r, poll g S = (g', S1, some r) → P1 (thenTBuilt tag a b r S1).1 (thenTBuilt tag a b r S1).2) →
      P1 (.thenT tag a b g none) S)
    (thenT_some : ∀ tag a b g t S, P1 t S → P1 (.thenT tag a b g (some t)) S)
    (join : ∀ fs S, P2 fs S → P1 (.join fs) S)
    (after : ∀ fs S, P2 fs S → P1 (.after fs) S)
    (nil : ∀ S, P2 [] S)
    (cons : ∀ f rest S, P1 f S →
      (∀ f' S1 o, poll f S = (f', S1, o) → (∀ e, o ≠ some (.err e)) → P2 rest S1) → P2 (f :: rest) S) :
    (∀ f S, P1 f S) ∧ (∀ fs S, P2 fs S) := by
  apply poll.mutual_induct (motive1 := P1) (motive2 := P2)
  case case1 => exact fun S r => ready r S
  case case2 => exact fun S id res _ => promise id res S
  case case3 => exact fun S id res _ => promise id res S
  case case4 => exact fun S fn g _ _ _ _ _ _ _ ih => map fn g S ih
  case case5 => exact fun S fn g _ _ _ ih => map fn g S ih
  case case6 => exact fun S fn g _ _ _ _ _ _ _ ih => mapOk fn g S ih
  case case7 => exact fun S fn g _ _ _ _ ih => mapOk fn g S ih
  case case8 => exact fun S fn g _ _ _ ih => mapOk fn g S ih
  case case9 => exact fun S g _ _ _ _ ih => mapOkToAny g S ih
  case case10 => exact fun S g _ _ _ ih => mapOkToAny g S ih
  case case11 => exact fun S v g _ _ _ _ ih => mapOkValue v g S ih
  case case12 => exact fun S v g _ _ _ _ ih => mapOkValue v g S ih
  case case13 => exact fun S v g _ _ _ ih => mapOkValue v g S ih
  case case14 =>
    intro S nn c path g fst S1 r x built _ _ _ _ _ ih1 ih2
    refine thenK_none nn c path g S ih1 ?_
    intro g' S1' r' hp; rw [x] at hp; cases hp; exact ih2
  case case15 =>
    intro S nn c path g fst S1 r x built _ _ _ _ ih1 ih2
    refine thenK_none nn c path g S ih1 ?_
    intro g' S1' r' hp; rw [x] at hp; cases hp; exact ih2
  case case16 =>
    intro S nn c path g fst S1 r x built h _
    exact absurd (applyK_weight nn c path r S1 g) h
  case case17 =>
    intro S nn c path g g' S1 x ih
    refine thenK_none nn c path g S ih ?_
    intro g'' S1' r' hp; rw [x] at hp; cases hp
  case case18 => exact fun S nn c path g t _ _ _ _ ih => thenK_some nn c path g t S ih
  case case19 => exact fun S nn c path g t _ _ _ ih => thenK_some nn c path g t S ih
  case case20 =>
    intro S tag a b g fst S1 r x S2 built _ _ _ _ _ ih1 ih2
    refine thenT_none tag a b g S ih1 ?_
    intro g' S1' r' hp; rw [x] at hp; cases hp
    simpa [thenTBuilt, built, S2] using ih2
  case case21 =>
    intro S tag a b g fst S1 r x S2 built _ _ _ _ ih1 ih2
    refine thenT_none tag a b g S ih1 ?_
    intro g' S1' r' hp; rw [x] at hp; cases hp
    simpa [thenTBuilt, built, S2] using ih2
  case case22 =>
    intro S tag a b g fst S1 r x S2 built h _
    have := thenT_built_weight tag a b g r S2
    simp only [built, dite_eq_ite] at h
    exact absurd this h
  case case23 =>
    intro S tag a b g g' S1 x ih
    refine thenT_none tag a b g S ih ?_
    intro g'' S1' r' hp; rw [x] at hp; cases hp
  case case24 => exact fun S tag a b g t _ _ _ _ ih => thenT_some tag a b g t S ih
  case case25 => exact fun S tag a b g t _ _ _ ih => thenT_some tag a b g t S ih
  case case26 => exact fun S fs _ _ _ _ ih => join fs S ih
  case case27 => exact fun S fs _ _ _ _ ih => join fs S ih
  case case28 => exact fun S fs _ _ _ ih => join fs S ih
  case case29 => exact fun S fs _ _ _ _ ih => after fs S ih
  case case30 => exact fun S fs _ _ _ _ ih => after fs S ih
  case case31 => exact fun S fs _ _ _ ih => after fs S ih
  case case32 => exact fun S => nil S
  case case33 =>
    intro S t rest f' S1 e x ih
    refine cons t rest S ih ?_
    intro f'' S1' o hp hne; rw [x] at hp; cases hp; exact absurd rfl (hne e)
  case case34 =>
    intro S t rest f' S1 v x _ _ _ _ ih1 ih2
    refine cons t rest S ih1 ?_
    intro f'' S1' o hp _; rw [x] at hp; cases hp; exact ih2
  case case35 =>
    intro S t rest f' S1 v x _ _ _ _ ih1 ih2
    refine cons t rest S ih1 ?_
    intro f'' S1' o hp _; rw [x] at hp; cases hp; exact ih2
  case case36 =>
    intro S t rest f' S1 v x _ _ _ ih1 ih2
    refine cons t rest S ih1 ?_
    intro f'' S1' o hp _; rw [x] at hp; cases hp; exact ih2
  case case37 =>
    intro S t rest f' S1 x _ _ _ _ ih1 ih2
    refine cons t rest S ih1 ?_
    intro f'' S1' o hp _; rw [x] at hp; cases hp; exact ih2
  case case38 =>
    intro S t rest f' S1 x _ _ _ _ _ ih1 ih2
    refine cons t rest S ih1 ?_
    intro f'' S1' o hp _; rw [x] at hp; cases hp; exact ih2

/-! ## §4 what building and polling may do to the store

`Mono S S'`: no idle round happened; the log and the outstanding list only grew at the end; every
new outstanding promise was counted in `nextId`. -/

structure Mono (S S' : Store) : Prop where
  rounds : S'.rounds = S.rounds
  ids : S.nextId + S'.outstanding.length ≤ S'.nextId + S.outstanding.length
  next : S.nextId ≤ S'.nextId
  log : ∃ l, S'.log = S.log ++ l
  out : ∃ l, S'.outstanding = S.outstanding ++ l
  crash : S'.crash = S.crash

theorem Mono.refl (S : Store) : Mono S S := ⟨rfl, Nat.le_refl _, Nat.le_refl _, ⟨[], by simp⟩, ⟨[], by simp⟩, rfl⟩

theorem Mono.trans {A B C : Store} (h1 : Mono A B) (h2 : Mono B C) : Mono A C := by
  obtain ⟨l1, hl1⟩ := h1.log; obtain ⟨l2, hl2⟩ := h2.log
  obtain ⟨o1, ho1⟩ := h1.out; obtain ⟨o2, ho2⟩ := h2.out
  refine ⟨by rw [h2.rounds, h1.rounds], ?_, Nat.le_trans h1.next h2.next, ⟨l1 ++ l2, by rw [hl2, hl1]; simp⟩,
    ⟨o1 ++ o2, by rw [ho2, ho1]; simp⟩, by rw [h2.crash, h1.crash]⟩
  have := h1.ids; have := h2.ids; omega

theorem Mono.push (S : Store) (e : Entry) : Mono S (S.push e) :=
  ⟨rfl, Nat.le_refl _, Nat.le_refl _, ⟨[e], rfl⟩, ⟨[], by simp [Store.push]⟩, rfl⟩

theorem applyMap_mono (fn : MapFn) (r : Res) (S : Store) : Mono S (applyMap fn r S).2 := by
  cases fn <;> cases r <;> simp only [applyMap] <;> (try split) <;>
    first | exact Mono.refl _ | exact Mono.push _ _

theorem applyOk_mono (fn : OkFn) (v : Val) (S : Store) : Mono S (applyOk fn v S).2 := by
  cases fn; exact Mono.push _ _

theorem mkMap_mono (fn : MapFn) (f : Fut) (S : Store) : Mono S (mkMap fn f S).2 := by
  cases f <;> simp only [mkMap] <;> first | exact applyMap_mono _ _ _ | exact Mono.refl _

theorem mkMapOk_mono (fn : OkFn) (f : Fut) (S : Store) : Mono S (mkMapOk fn f S).2 := by
  cases f with
  | ready r => cases r <;> simp only [mkMapOk] <;> first | exact applyOk_mono _ _ _ | exact Mono.refl _
  | _ => exact Mono.refl _

theorem nonNullWrap_mono (nn : Bool) (path : Path) (f : Fut) (S : Store) : Mono S (nonNullWrap nn path f S).2 := by
  unfold nonNullWrap; cases nn <;> simp <;> first | exact Mono.refl _ | exact mkMap_mono _ _ _

theorem catchIfNullable_mono (nn : Bool) (f : Fut) (S : Store) : Mono S (catchIfNullable nn f S).2 := by
  unfold catchIfNullable; cases nn <;> simp <;> first | exact Mono.refl _ | exact mkMap_mono _ _ _

theorem execField_mono (nn : Bool) (mode : Mode) (rerr : Option String) (c : Comp) (itemPath : Path)
    (completed : Store → Fut × Store) (S : Store) (hc : ∀ S', Mono S' (completed S').2) :
    Mono S (execField nn mode rerr c itemPath completed S).2 := by
  unfold execField
  cases mode <;> cases rerr <;> simp only
  all_goals first
    | exact Mono.push _ _
    | exact (Mono.push _ _).trans (hc _)
    | (refine ⟨rfl, ?_, ?_, ⟨[.start itemPath], rfl⟩, ⟨[(S.nextId, itemPath)], rfl⟩, rfl⟩ <;> simp [Store.push] <;> omega)
    | (refine ⟨rfl, ?_, ?_, ⟨[.start itemPath, .fulfil itemPath], by simp [Store.push]⟩, ⟨[], by simp [Store.push]⟩, rfl⟩ <;>
        simp [Store.push])

theorem complete_mono_aux :
    (∀ nn c path S, Mono S (complete nn c path S).2) ∧
    (∀ fields path n i acc S, Mono S (execFields fields path n i acc S).2) ∧
    (∀ inn items path i S, Mono S (completeItems inn items path i S).2) := by
  apply complete.mutual_induct
    (motive_1 := fun nn c path S => Mono S (complete nn c path S).2)
    (motive_2 := fun fields path n i acc S => Mono S (execFields fields path n i acc S).2)
    (motive_3 := fun inn items path i S => Mono S (completeItems inn items path i S).2)
  · intro nn path S; simp only [complete]; exact nonNullWrap_mono _ _ _ _
  · intro nn path S a; simp only [complete]; exact nonNullWrap_mono _ _ _ _
  · intro nn path S a; simp only [complete]; exact nonNullWrap_mono _ _ _ _
  · intro nn path S inn items fs S1 h ih
    rw [h] at ih; simp only [complete, h]
    exact ih.trans (nonNullWrap_mono _ _ _ _)
  · intro nn path S fields f S1 h ih
    rw [h] at ih; simp only [complete, h]
    exact ih.trans (nonNullWrap_mono _ _ _ _)
  · intro inn path i S; simp only [completeItems]; exact Mono.refl _
  · intro inn path i S c rest f S1 h1 f1 S11 h2 fs S2 h3 ih1 ih2
    rw [h1] at ih1; rw [h3] at ih2
    have hc := catchIfNullable_mono inn f S1
    rw [h2] at hc
    simp only [completeItems, h1, h2, h3]
    exact (ih1.trans hc).trans ih2
  · intro path n i acc S; simp only [execFields]; exact Mono.refl _
  · intro path n i acc S key nn rerr c rest ih
    rw [execFields_tname]; exact (Mono.push _ _).trans ih
  · intro path n i acc S key nn mode rerr c rest itemPath f S1 h1 S11 e hm h2 ihc
    have hm' : mode ≠ .tname := fun h => hm h
    have hf := execField_mono nn mode rerr c itemPath (fun S' => complete nn c itemPath S') S ihc
    rw [h1] at hf
    have hc := catchIfNullable_mono nn f S1
    rw [h2] at hc
    rw [execFields_cons path key nn mode rerr c rest n i acc S S1 S11 f _ hm' h1 h2]
    simp only [fieldCont]; exact hf.trans hc
  · intro path n i acc S key nn mode rerr c rest itemPath f S1 h1 S11 v hm h2 ihc ih
    have hm' : mode ≠ .tname := fun h => hm h
    have hf := execField_mono nn mode rerr c itemPath (fun S' => complete nn c itemPath S') S ihc
    rw [h1] at hf
    have hc := catchIfNullable_mono nn f S1
    rw [h2] at hc
    rw [execFields_cons path key nn mode rerr c rest n i acc S S1 S11 f _ hm' h1 h2]
    simp only [fieldCont]; exact ((hf.trans hc).trans (Mono.push _ _)).trans ih
  · intro path n i acc S key nn mode rerr c rest itemPath f S1 h1 S11 f1 hne hno hm h2 ihc ih
    have hm' : mode ≠ .tname := fun h => hm h
    have hf := execField_mono nn mode rerr c itemPath (fun S' => complete nn c itemPath S') S ihc
    rw [h1] at hf
    have hc := catchIfNullable_mono nn f S1
    rw [h2] at hc
    rw [execFields_cons path key nn mode rerr c rest n i acc S S1 S11 f f1 hm' h1 h2]
    have hshape : fieldCont rest path n i acc key f1 S11 =
        execFields rest path n (i + 1) (acc ++ [Fut.mapOk (OkFn.setSlot path i key) f1]) S11 := by
      unfold fieldCont
      split
      · exact absurd rfl (hne _)
      · exact absurd rfl (hno _)
      · rfl
    rw [hshape]; exact (hf.trans hc).trans ih

theorem complete_mono (nn : Bool) (c : Comp) (path : Path) (S : Store) : Mono S (complete nn c path S).2 :=
  complete_mono_aux.1 nn c path S

theorem applyK_mono (nn : Bool) (c : Comp) (path : Path) (r : Res) (S : Store) : Mono S (applyK nn c path r S).2 := by
  cases r <;> simp only [applyK] <;> first | exact complete_mono _ _ _ _ | exact Mono.refl _

theorem construct_mono_aux :
    (∀ t S, Mono S (construct t S).2) ∧ (∀ ts S, Mono S (constructAll ts S).2) := by
  apply construct.mutual_induct
    (motive_1 := fun t S => Mono S (construct t S).2)
    (motive_2 := fun ts S => Mono S (constructAll ts S).2)
  case case9 =>
    intro S tag a b t S1 r S2 h x ih2 ih1
    rw [x] at ih2
    simp only [construct, x, h, if_true]
    exact (ih2.trans (Mono.push _ _)).trans ih1
  case case10 =>
    intro S tag a b t S1 r S2 h x ih2 ih1
    rw [x] at ih2
    simp only [construct, x, h, Bool.false_eq_true, if_false]
    exact (ih2.trans (Mono.push _ _)).trans ih1
  case case11 =>
    intro S tag a b t f S1 x hnr ih
    rw [x] at ih
    have hc : (construct (Fut.thenT tag a b t none) S) = (Fut.thenT tag a b f none, S1) := by
      simp only [construct, x]
    rw [hc]; exact ih
  all_goals intros
  all_goals simp_all only [construct, constructAll]
  all_goals first
    | exact Mono.refl _
    | exact Mono.trans ‹_› (mkMap_mono _ _ _)
    | exact Mono.trans ‹_› (mkMapOk_mono _ _ _)
    | assumption
    | exact Mono.trans ‹Mono _ _› ‹Mono _ _›
    | skip

theorem construct_mono (t : Fut) (S : Store) : Mono S (construct t S).2 := construct_mono_aux.1 t S

theorem Mono.of_eq_fields {S S' : Store} (h1 : S'.rounds = S.rounds) (h2 : S'.nextId = S.nextId)
    (h3 : S'.log = S.log) (h4 : S'.outstanding = S.outstanding) (h5 : S'.crash = S.crash) : Mono S S' :=
  ⟨h1, by rw [h2, h4]; exact Nat.le_refl _, by rw [h2]; exact Nat.le_refl _, ⟨[], by simp [h3]⟩, ⟨[], by simp [h4]⟩, h5⟩

theorem thenT_built_mono (r : Res) (a b : Fut) (S : Store) :
    Mono S (if r.isOk = true then construct a S else construct b S).2 := by
  split <;> exact construct_mono _ _

theorem applyMap_mono' {fn : MapFn} {r r' : Res} {S S' : Store} (h : applyMap fn r S = (r', S')) : Mono S S' := by
  have := applyMap_mono fn r S; rw [h] at this; exact this

theorem applyOk_mono' {fn : OkFn} {v v' : Val} {S S' : Store} (h : applyOk fn v S = (v', S')) : Mono S S' := by
  have := applyOk_mono fn v S; rw [h] at this; exact this

theorem poll_mono_aux :
    (∀ f S, Mono S (poll f S).2.1) ∧ (∀ fs S, Mono S (pollAll fs S).2.1) := by
  apply poll.mutual_induct
    (motive1 := fun f S => Mono S (poll f S).2.1)
    (motive2 := fun fs S => Mono S (pollAll fs S).2.1)
  all_goals intros
  all_goals simp_all +zetaDelta only [poll, pollAll, if_true, if_false, dite_eq_ite]
  all_goals first
    | exact Mono.refl _
    | exact Mono.of_eq_fields rfl rfl rfl rfl rfl
    | assumption
    | exact Mono.trans ‹Mono _ _› (applyMap_mono' ‹_›)
    | exact Mono.trans ‹Mono _ _› (applyOk_mono' ‹_›)
    | exact (Mono.trans ‹Mono _ _› (applyK_mono _ _ _ _ _)).trans ‹Mono (applyK _ _ _ _ _).2 _›
    | exact absurd (applyK_weight _ _ _ _ _ _) ‹_›
    | exact absurd (thenT_built_weight _ _ _ _ _ _) ‹_›
    | exact ((Mono.trans ‹Mono _ _› (Mono.push _ _)).trans (thenT_built_mono _ _ _ _)).trans (by assumption)
    | (apply Mono.trans <;> assumption)

theorem poll_mono (f : Fut) (S : Store) : Mono S (poll f S).2.1 := poll_mono_aux.1 f S

/-! ## §5 the idle handler -/

theorem maskPicks_length (m j n : Nat) : (maskPicks m j n).length = n := by
  induction n generalizing j with
  | zero => simp [maskPicks]
  | succ n ih => simp [maskPicks, ih]

theorem picks_length (mask : Option Nat) (n : Nat) : (picks mask n).length = n := by
  unfold picks
  cases mask with
  | none => simp
  | some m =>
    simp only
    split
    · exact maskPicks_length m 0 n
    · cases n <;> simp

theorem picks_any (mask : Option Nat) (n : Nat) (hn : 0 < n) : (picks mask n).any id = true := by
  unfold picks
  cases mask with
  | none => cases n with
    | zero => omega
    | succ k => simp [List.replicate_succ]
  | some m =>
    simp only
    split
    · assumption
    · cases n with
      | zero => omega
      | succ k => simp

/-- The promises an idle round leaves outstanding. -/
def kept {α : Type} : List α → List Bool → List α
  | [], _ => []
  | p :: ps, [] => p :: kept ps []
  | p :: ps, b :: bs => if b then kept ps bs else p :: kept ps bs

def fulfilled {α : Type} : List α → List Bool → List α
  | [], _ => []
  | _ :: _, [] => []
  | p :: ps, b :: bs => if b then p :: fulfilled ps bs else fulfilled ps bs

theorem deliver_spec (ps : List (Nat × Path)) (bs : List Bool) (S : Store) :
    (deliver ps bs S).outstanding = S.outstanding ++ kept ps bs ∧
    (deliver ps bs S).chan = S.chan ++ (fulfilled ps bs).map (·.1) ∧
    (deliver ps bs S).log = S.log ++ (fulfilled ps bs).map (fun p => Entry.fulfil p.2) ∧
    (deliver ps bs S).rounds = S.rounds ∧ (deliver ps bs S).nextId = S.nextId ∧
    (deliver ps bs S).crash = S.crash := by
  induction ps generalizing bs S with
  | nil => simp [deliver, kept, fulfilled]
  | cons p ps ih =>
    cases bs with
    | nil =>
      have := ih [] { S with outstanding := S.outstanding ++ [p] }
      simp only [deliver, kept, fulfilled]
      simp_all [fulfilled]
      cases ps <;> simp [fulfilled]
    | cons b bs =>
      cases b
      · have := ih bs { S with outstanding := S.outstanding ++ [p] }
        simp_all [deliver, kept, fulfilled]
      · have := ih bs { (S.push (.fulfil p.2)) with chan := S.chan ++ [p.1] }
        simp_all [deliver, kept, fulfilled, Store.push]

theorem kept_length_le {α : Type} (ps : List α) (bs : List Bool) : (kept ps bs).length ≤ ps.length := by
  induction ps generalizing bs with
  | nil => simp [kept]
  | cons p ps ih =>
    cases bs with
    | nil => simp [kept]; exact ih []
    | cons b bs => cases b <;> simp [kept] <;> have := ih bs <;> omega

theorem kept_length_lt {α : Type} (ps : List α) (bs : List Bool) (hl : bs.length = ps.length) (ha : bs.any id = true) :
    (kept ps bs).length < ps.length := by
  induction ps generalizing bs with
  | nil => cases bs <;> simp_all
  | cons p ps ih =>
    cases bs with
    | nil => simp at hl
    | cons b bs =>
      cases b
      · simp [kept]; apply ih bs (by simpa using hl); simpa using ha
      · simp [kept]; have := kept_length_le ps bs; omega

theorem fulfilled_sub {α : Type} (ps : List α) (bs : List Bool) : ∀ p ∈ fulfilled ps bs, p ∈ ps := by
  induction ps generalizing bs with
  | nil => simp [fulfilled]
  | cons q ps ih =>
    cases bs with
    | nil => simp [fulfilled]
    | cons b bs =>
      cases b <;> simp only [fulfilled, Bool.false_eq_true, if_false, if_true]
      · intro p hp; exact List.mem_cons_of_mem _ (ih bs p hp)
      · intro p hp
        rcases List.mem_cons.mp hp with h | h
        · exact h ▸ List.mem_cons_self
        · exact List.mem_cons_of_mem _ (ih bs p h)

theorem kept_sub {α : Type} (ps : List α) (bs : List Bool) : ∀ p ∈ kept ps bs, p ∈ ps := by
  induction ps generalizing bs with
  | nil => simp [kept]
  | cons q ps ih =>
    cases bs with
    | nil =>
      simp only [kept]
      intro p hp
      rcases List.mem_cons.mp hp with h | h
      · exact h ▸ List.mem_cons_self
      · exact List.mem_cons_of_mem _ (ih [] p h)
    | cons b bs =>
      cases b <;> simp only [kept, Bool.false_eq_true, if_false, if_true]
      · intro p hp
        rcases List.mem_cons.mp hp with h | h
        · exact h ▸ List.mem_cons_self
        · exact List.mem_cons_of_mem _ (ih bs p h)
      · intro p hp; exact List.mem_cons_of_mem _ (ih bs p hp)

/-- What one call of the idle handler does when something is outstanding: one more round, at
    least one promise fewer outstanding, nothing else touched but channels and `fulfil` events. -/
theorem idleRound_spec (mask : Option Nat) (S : Store) (hne : S.outstanding ≠ []) :
    (idleRound mask S).rounds = S.rounds + 1 ∧ (idleRound mask S).nextId = S.nextId ∧
    (idleRound mask S).outstanding.length < S.outstanding.length ∧
    (idleRound mask S).crash = S.crash ∧
    (idleRound mask S).log = S.log ++
      (fulfilled S.outstanding (picks mask S.outstanding.length)).map (fun p => Entry.fulfil p.2) ∧
    (idleRound mask S).outstanding = kept S.outstanding (picks mask S.outstanding.length) := by
  have hpos : 0 < S.outstanding.length := by
    cases h : S.outstanding with
    | nil => exact absurd h hne
    | cons a l => simp
  have hs := deliver_spec S.outstanding (picks mask S.outstanding.length)
    { S with outstanding := [], rounds := S.rounds + 1 }
  have hk := kept_length_lt S.outstanding (picks mask S.outstanding.length) (picks_length _ _) (picks_any _ _ hpos)
  unfold idleRound
  simp only at hs ⊢
  obtain ⟨h1, h2, h3, h4, h5, h6⟩ := hs
  refine ⟨h4, h5, ?_, h6, h3, ?_⟩
  · rw [h1]; simpa using hk
  · rw [h1]; simp

/-! ## §6 wait -/

/-- Every idle round so far fulfilled at least one promise: rounds + still outstanding ≤ created. -/
def Inv (S : Store) : Prop := S.rounds + S.outstanding.length ≤ S.nextId

theorem Mono.inv {S S' : Store} (h : Mono S S') (hi : Inv S) : Inv S' := by
  unfold Inv at *; have := h.ids; have := h.rounds; omega

theorem idleRound_inv (mask : Option Nat) (S : Store) (hne : S.outstanding ≠ []) (hi : Inv S) :
    Inv (idleRound mask S) := by
  obtain ⟨h1, h2, h3, _⟩ := idleRound_spec mask S hne
  unfold Inv at *; omega

theorem isEmpty_false_ne {α : Type} (l : List α) (h : ¬ l.isEmpty = true) : l ≠ [] := by
  cases l <;> simp_all

theorem waitLoop_some (fuel : Nat) (f f' : Fut) (sched : List Nat) (S S1 : Store) (r : Res)
    (hp : poll f S = (f', S1, some r)) : waitLoop fuel f sched S = (.done r, sched, S1) := by
  cases fuel <;> simp [waitLoop, hp]

theorem waitLoop_succ_none (fuel : Nat) (f f' : Fut) (sched : List Nat) (S S1 : Store)
    (hp : poll f S = (f', S1, none)) (hne : S1.outstanding ≠ []) :
    waitLoop (fuel + 1) f sched S = waitLoop fuel f' sched.tail (idleRound sched.head? S1) := by
  have he : S1.outstanding.isEmpty = false := by cases h : S1.outstanding <;> simp_all
  cases sched <;> simp [waitLoop, hp, he]

theorem waitLoop_succ_stuck (fuel : Nat) (f f' : Fut) (sched : List Nat) (S S1 : Store)
    (hp : poll f S = (f', S1, none)) (he : S1.outstanding = []) :
    (waitLoop (fuel + 1) f sched S).1 = .stuck := by
  simp [waitLoop, hp, he]

theorem waitLoop_zero_none (f f' : Fut) (sched : List Nat) (S S1 : Store)
    (hp : poll f S = (f', S1, none)) : (waitLoop 0 f sched S).1 = .outOfFuel := by
  simp [waitLoop, hp]

/-- `wait` (when it returns): the result has the future's static outcome; the store invariant
    holds; no crash flag was raised; `nextId` only grew. -/
theorem waitLoop_spec (fuel : Nat) : ∀ (f : Fut) (sched : List Nat) (S : Store), Inv S →
    ∀ r, (waitLoop fuel f sched S).1 = .done r →
      r.out = f.out ∧ Inv (waitLoop fuel f sched S).2.2 ∧ (waitLoop fuel f sched S).2.2.crash = S.crash ∧
      S.nextId ≤ (waitLoop fuel f sched S).2.2.nextId := by
  induction fuel with
  | zero =>
    intro f sched S hi r h
    have hm := poll_mono f S
    have ho := poll_result_out f S
    rcases hp : poll f S with ⟨f', S1, o⟩
    rw [hp] at hm ho
    cases o with
    | none => rw [waitLoop_zero_none f f' sched S S1 hp] at h; cases h
    | some r' =>
      rw [waitLoop_some 0 f f' sched S S1 r' hp] at h ⊢
      cases h
      exact ⟨ho r rfl, hm.inv hi, hm.crash, hm.next⟩
  | succ fuel ih =>
    intro f sched S hi r h
    have hm := poll_mono f S
    have ho := poll_result_out f S
    have hf := poll_out f S
    rcases hp : poll f S with ⟨f', S1, o⟩
    rw [hp] at hm ho hf
    cases o with
    | some r' =>
      rw [waitLoop_some (fuel + 1) f f' sched S S1 r' hp] at h ⊢
      cases h
      exact ⟨ho r rfl, hm.inv hi, hm.crash, hm.next⟩
    | none =>
      simp only at hm hf
      by_cases he : S1.outstanding = []
      · rw [waitLoop_succ_stuck fuel f f' sched S S1 hp he] at h; cases h
      · rw [waitLoop_succ_none fuel f f' sched S S1 hp he] at h ⊢
        have hsp := idleRound_spec sched.head? S1 he
        obtain ⟨h1, h2, h3, h4⟩ := ih f' sched.tail (idleRound sched.head? S1)
          (idleRound_inv sched.head? S1 he (hm.inv hi)) r h
        refine ⟨by rw [h1, hf], h2, by rw [h3, hsp.2.2.2.1, hm.crash], ?_⟩
        have := hsp.2.1; have := hm.next; omega

/-! ## §6b settling the promises a failed selection set left behind (repair of F-11a) -/

/-- What `settleSerialPromises` does to the store: only `fulfil` events of promises that were
    outstanding are logged, nothing is created, no crash flag, the invariant is kept, every channel
    is emptied, and with enough rounds nothing stays outstanding. -/
theorem settleLoop_spec (n : Nat) : ∀ (sched : List Nat) (S : Store),
    (∃ l, (settleLoop n sched S).2.log = S.log ++ l ∧ ∀ e ∈ l, ∃ p ∈ S.outstanding, e = Entry.fulfil p.2) ∧
    (settleLoop n sched S).2.nextId = S.nextId ∧ (settleLoop n sched S).2.crash = S.crash ∧
    (Inv S → Inv (settleLoop n sched S).2) ∧ (settleLoop n sched S).2.chan = [] ∧
    (S.outstanding.length ≤ n → (settleLoop n sched S).2.outstanding = []) ∧
    (∀ p ∈ (settleLoop n sched S).2.outstanding, p ∈ S.outstanding) ∧
    S.rounds ≤ (settleLoop n sched S).2.rounds := by
  induction n with
  | zero =>
    intro sched S
    simp only [settleLoop]
    refine ⟨⟨[], by simp, by simp⟩, by simp, by simp, fun h => by simpa [Inv] using h, by simp, fun h => ?_,
      fun p hp => by simpa using hp, by simp⟩
    cases ho : S.outstanding with
    | nil => rfl
    | cons a l => rw [ho] at h; simp at h
  | succ n ih =>
    intro sched S
    by_cases he : S.outstanding = []
    · have : S.outstanding.isEmpty = true := by simp [he]
      simp only [settleLoop, this, if_true]
      exact ⟨⟨[], by simp, by simp⟩, by simp, by simp, fun h => by simpa [Inv] using h, by simp, fun _ => he,
        fun p hp => by simpa using hp, by simp⟩
    · have hemp : S.outstanding.isEmpty = false := by cases h : S.outstanding <;> simp_all
      simp only [settleLoop, hemp, Bool.false_eq_true, if_false]
      obtain ⟨h1, h2, h3, h4, h5, h6⟩ := idleRound_spec sched.head? S he
      obtain ⟨⟨l, hl, hle⟩, i2, i3, i4, i5, i6, i7, i8⟩ := ih sched.tail (idleRound sched.head? S)
      refine ⟨⟨List.map (fun p => Entry.fulfil p.snd)
            (fulfilled S.outstanding (picks sched.head? S.outstanding.length)) ++ l,
          by rw [hl, h5, List.append_assoc], ?_⟩, by rw [i2, h2], by rw [i3, h4],
        fun hi => i4 (idleRound_inv _ _ he hi), i5, fun hlen => i6 (by omega), ?_, by omega⟩
      · intro e hmem
        rcases List.mem_append.mp hmem with hm | hm
        · obtain ⟨p, hp, rfl⟩ := List.mem_map.mp hm
          exact ⟨p, (fulfilled_sub _ _ p hp), rfl⟩
        · obtain ⟨p, hp, rfl⟩ := hle e hm
          rw [h6] at hp
          exact ⟨p, kept_sub _ _ p hp, rfl⟩
      · intro p hp
        have := i7 p hp
        rw [h6] at this
        exact kept_sub _ _ p this

theorem waitSettle_done (st : Bool) (fuel : Nat) (f : Fut) (sched sched' : List Nat) (S S3 : Store) (r : Res)
    (h : waitLoop fuel f sched S = (.done r, sched', S3)) :
    waitSettle st fuel f sched S =
      (.done r, if st then (settleLoop S3.outstanding.length sched' S3).1 else sched',
        if st then (settleLoop S3.outstanding.length sched' S3).2 else S3) := by
  cases st <;> simp [waitSettle, h]

theorem waitSettle_stuck (st : Bool) (fuel : Nat) (f : Fut) (sched sched' : List Nat) (S S3 : Store)
    (h : waitLoop fuel f sched S = (.stuck, sched', S3)) : waitSettle st fuel f sched S = (.stuck, sched', S3) := by
  simp [waitSettle, h]

theorem waitSettle_outOfFuel (st : Bool) (fuel : Nat) (f : Fut) (sched sched' : List Nat) (S S3 : Store)
    (h : waitLoop fuel f sched S = (.outOfFuel, sched', S3)) :
    waitSettle st fuel f sched S = (.outOfFuel, sched', S3) := by
  simp [waitSettle, h]

/-- Reduction of a statement about `waitSettle` to `waitLoop` + the settle step. -/
theorem waitSettle_cases (st : Bool) (fuel : Nat) (f : Fut) (sched : List Nat) (S : Store)
    (P : WaitResult × List Nat × Store → Prop)
    (hdone : ∀ r sched' S3, waitLoop fuel f sched S = (.done r, sched', S3) →
      P (.done r, if st then (settleLoop S3.outstanding.length sched' S3).1 else sched',
        if st then (settleLoop S3.outstanding.length sched' S3).2 else S3))
    (hother : ∀ w sched' S3, waitLoop fuel f sched S = (w, sched', S3) → (∀ r, w ≠ .done r) → P (w, sched', S3)) :
    P (waitSettle st fuel f sched S) := by
  rcases hwl : waitLoop fuel f sched S with ⟨w, sched', S3⟩
  cases w with
  | done r => rw [waitSettle_done st fuel f sched sched' S S3 r hwl]; exact hdone r sched' S3 hwl
  | stuck => rw [waitSettle_stuck st fuel f sched sched' S S3 hwl]; exact hother _ _ _ hwl (by intro r h; cases h)
  | outOfFuel =>
    rw [waitSettle_outOfFuel st fuel f sched sched' S S3 hwl]; exact hother _ _ _ hwl (by intro r h; cases h)

theorem waitSettle_spec (st : Bool) (fuel : Nat) (f : Fut) (sched : List Nat) (S : Store) (hi : Inv S) :
    ∀ r, (waitSettle st fuel f sched S).1 = .done r →
      r.out = f.out ∧ Inv (waitSettle st fuel f sched S).2.2 ∧ (waitSettle st fuel f sched S).2.2.crash = S.crash ∧
      S.nextId ≤ (waitSettle st fuel f sched S).2.2.nextId := by
  apply waitSettle_cases st fuel f sched S
    (P := fun R => ∀ r, R.1 = .done r → r.out = f.out ∧ Inv R.2.2 ∧ R.2.2.crash = S.crash ∧ S.nextId ≤ R.2.2.nextId)
  · intro r sched' S3 hwl r' hr
    simp only [WaitResult.done.injEq] at hr; subst hr
    have hw := waitLoop_spec fuel f sched S hi r (by rw [hwl])
    rw [hwl] at hw
    obtain ⟨a, b, c, d⟩ := hw
    cases st
    · exact ⟨a, b, c, d⟩
    · obtain ⟨_, i2, i3, i4, _⟩ := settleLoop_spec S3.outstanding.length sched' S3
      simp only [if_true]
      exact ⟨a, i4 b, by rw [i3]; exact c, by rw [i2]; exact d⟩
  · intro w sched' S3 _ hne r hr; exact absurd hr (hne r)

/-- How the store after `waitSettle` relates to the store after the `waitLoop` inside it: only
    `fulfil` events of promises that were outstanding were appended; nothing was created. -/
structure Settled (S S' : Store) : Prop where
  log : ∃ l, S'.log = S.log ++ l ∧ ∀ e ∈ l, ∃ p ∈ S.outstanding, e = Entry.fulfil p.2
  next : S'.nextId = S.nextId
  crash : S'.crash = S.crash
  inv : Inv S → Inv S'
  out : ∀ p ∈ S'.outstanding, p ∈ S.outstanding
  rounds : S.rounds ≤ S'.rounds

theorem Settled.refl (S : Store) : Settled S S :=
  ⟨⟨[], by simp, by simp⟩, rfl, rfl, fun h => h, fun _ h => h, Nat.le_refl _⟩

theorem settleLoop_settled (n : Nat) (sched : List Nat) (S : Store) : Settled S (settleLoop n sched S).2 := by
  obtain ⟨a, b, c, d, _, _, g, h⟩ := settleLoop_spec n sched S
  exact ⟨a, b, c, d, g, h⟩

/-- `waitSettle` is `waitLoop` followed by a `Settled` step; with the switch on, a `done` leaves
    nothing outstanding and no channel holding a message. -/
theorem waitSettle_settled (st : Bool) (fuel : Nat) (f : Fut) (sched : List Nat) (S : Store) :
    ∃ sched0 S3, waitLoop fuel f sched S = ((waitSettle st fuel f sched S).1, sched0, S3) ∧
      Settled S3 (waitSettle st fuel f sched S).2.2 ∧
      (st = true → ∀ r, (waitSettle st fuel f sched S).1 = .done r →
        (waitSettle st fuel f sched S).2.2.outstanding = [] ∧ (waitSettle st fuel f sched S).2.2.chan = []) := by
  rcases hwl : waitLoop fuel f sched S with ⟨w, sched', S3⟩
  cases w with
  | done r =>
    rw [waitSettle_done st fuel f sched sched' S S3 r hwl]
    cases st
    · exact ⟨sched', S3, rfl, Settled.refl _, fun h => by cases h⟩
    · refine ⟨sched', S3, rfl, settleLoop_settled _ _ _, fun _ r' _ => ?_⟩
      obtain ⟨_, _, _, _, i5, i6, _⟩ := settleLoop_spec S3.outstanding.length sched' S3
      exact ⟨i6 (Nat.le_refl _), i5⟩
  | stuck =>
    rw [waitSettle_stuck st fuel f sched sched' S S3 hwl]
    exact ⟨sched', S3, rfl, Settled.refl _, fun _ r h => by cases h⟩
  | outOfFuel =>
    rw [waitSettle_outOfFuel st fuel f sched sched' S S3 hwl]
    exact ⟨sched', S3, rfl, Settled.refl _, fun _ r h => by cases h⟩

/-! ## §7 whole requests -/

/-- Outcome of a serially executed root selection set. -/
def serialOut (fields : List Field) (n : Nat) : Out :=
  if Spec.fieldsOk fields [] then .ok (.obj [] n) else .fail

/-- What `execSerial` does with the outcome of waiting for the current root field. -/
def serialCont (st : Bool) (fuel : Nat) (rest : List Field) (n i : Nat) (key : String) (w : WaitResult × List Nat × Store) :
    WaitResult × List Nat × Store :=
  match w with
  | (.done (.err e), sched', S3) => (.done (.err e), sched', S3)
  | (.done (.ok v), sched', S3) => execSerial st fuel rest n (i + 1) sched' (S3.push (.write [] i key v))
  | (w, sched', S3) => (w, sched', S3)

theorem execSerial_cons (st : Bool) (fuel : Nat) (key : String) (nn : Bool) (mode : Mode) (rerr : Option String) (c : Comp)
    (rest : List Field) (n i : Nat) (sched : List Nat) (S S1 S2 : Store) (f0 f : Fut) (hm : mode ≠ .tname)
    (h1 : execField nn mode rerr c [.key key] (complete nn c [.key key]) S = (f0, S1))
    (h2 : catchIfNullable nn f0 S1 = (f, S2)) :
    execSerial st fuel (.mk key nn mode rerr c :: rest) n i sched S =
      serialCont st fuel rest n i key (waitSettle st fuel f sched S2) := by
  cases mode
  all_goals first
    | exact absurd rfl hm
    | (simp only [execSerial, h1, h2, serialCont]
       rcases waitSettle st fuel f sched S2 with ⟨w, s', S3⟩
       cases w with
       | done r => cases r <;> rfl
       | _ => rfl)

theorem execSerial_spec (st : Bool) (fuel : Nat) : ∀ (fields : List Field) (n i : Nat) (sched : List Nat) (S : Store), Inv S →
    ∀ r, (execSerial st fuel fields n i sched S).1 = .done r →
      r.out = serialOut fields n ∧ Inv (execSerial st fuel fields n i sched S).2.2 ∧
      (execSerial st fuel fields n i sched S).2.2.crash = S.crash := by
  intro fields
  induction fields with
  | nil =>
    intro n i sched S hi r h
    simp only [execSerial] at h ⊢
    cases h
    exact ⟨by simp [serialOut, Spec.fieldsOk, Res.out], hi, trivial⟩
  | cons fld rest ih =>
    intro n i sched S hi r h
    cases fld with
    | mk key nn mode rerr c =>
      by_cases hm : mode = .tname
      · subst hm
        simp only [execSerial] at h ⊢
        obtain ⟨h1, h2, h3⟩ := ih n (i + 1) sched _ ((Mono.push S _).inv hi) r h
        refine ⟨?_, h2, by rw [h3, (Mono.push S _).crash]⟩
        rw [h1]; simp [serialOut, fieldsOk_cons, Spec.field, Out.isOk]
      · rcases h1 : execField nn mode rerr c [.key key] (complete nn c [.key key]) S with ⟨f0, S1⟩
        rcases h2 : catchIfNullable nn f0 S1 with ⟨f, S2⟩
        have hout : f.out = Spec.field [] (.mk key nn mode rerr c) :=
          fieldStep_out [] key nn mode rerr c S S1 S2 f0 f hm (fun S' => complete_out _ _ _ _) h1 h2
        have hmono : Mono S S2 := by
          have a := execField_mono nn mode rerr c [.key key] (complete nn c [.key key]) S (fun S' => complete_mono _ _ _ _)
          have b := catchIfNullable_mono nn f0 S1
          rw [h1] at a; rw [h2] at b; exact a.trans b
        rw [execSerial_cons st fuel key nn mode rerr c rest n i sched S S1 S2 f0 f hm h1 h2] at h ⊢
        have hw := waitSettle_spec st fuel f sched S2 (hmono.inv hi)
        rcases hwl : waitSettle st fuel f sched S2 with ⟨w, sched', S3⟩
        rw [hwl] at h hw
        simp only [serialCont] at h ⊢
        cases w with
        | done r' =>
          cases r' with
          | err e =>
            simp only at h ⊢
            cases h
            obtain ⟨a, b, c', _⟩ := hw _ rfl
            refine ⟨?_, b, by rw [c', hmono.crash]⟩
            simp only [Res.out, hout] at a
            simp [serialOut, fieldsOk_cons, ← a, Out.isOk, Res.out]
          | ok v =>
            simp only at h ⊢
            obtain ⟨a, b, c', _⟩ := hw _ rfl
            obtain ⟨h1', h2', h3'⟩ := ih n (i + 1) sched' _ ((Mono.push S3 _).inv b) r h
            refine ⟨?_, h2', by rw [h3', (Mono.push S3 _).crash, c', hmono.crash]⟩
            simp only [Res.out, hout] at a
            rw [h1']; simp [serialOut, fieldsOk_cons, ← a, Out.isOk]
        | stuck => simp at h
        | outOfFuel => simp at h

/-- The outcome the reference semantics assigns to a request: the root object, or failure (data
    is null). It does not mention modes or the schedule. -/
def Spec.request (rq : Request) : Out :=
  if Spec.fieldsOk rq.fields [] then .ok (.obj [] rq.fields.length) else .fail

theorem Inv_init : Inv ({} : Store) := by simp [Inv]

/-- Whenever `execute` returns, its result is the reference outcome, every idle round fulfilled a
    promise, and no crash branch was taken. -/
theorem execute_spec (rq : Request) (r : Res) (h : (execute rq).1 = .done r) :
    r.out = Spec.request rq ∧ (execute rq).2.rounds ≤ (execute rq).2.nextId ∧ (execute rq).2.crash = false := by
  unfold execute at h ⊢
  by_cases hmut : rq.mutation = true
  · simp only [hmut, if_true] at h ⊢
    have hs := execSerial_spec rq.settle (Field.invocationsL rq.fields + 1) rq.fields rq.fields.length 0 rq.sched {} Inv_init
    rcases hx : execSerial rq.settle (Field.invocationsL rq.fields + 1) rq.fields rq.fields.length 0 rq.sched {} with ⟨w, sched', S⟩
    rw [hx] at h hs
    cases w with
    | done r' =>
      obtain ⟨a, b, c⟩ := hs r' rfl
      cases r' with
      | err e =>
        simp only at h ⊢; cases h
        refine ⟨by simpa [serialOut, Spec.request] using a, ?_, by simpa [Store.push] using c⟩
        simp only [Inv, Store.push] at b ⊢; omega
      | ok v =>
        simp only at h ⊢; cases h
        refine ⟨by simpa [serialOut, Spec.request] using a, ?_, by simpa using c⟩
        simp only [Inv] at b; omega
    | stuck => simp at h
    | outOfFuel => simp at h
  · simp only [hmut] at h ⊢
    simp only [Bool.false_eq_true, if_false] at h ⊢
    rcases hb : execFields rq.fields [] rq.fields.length 0 [] {} with ⟨f, S1⟩
    have hm : Mono {} S1 := by have := complete_mono_aux.2.1 rq.fields [] rq.fields.length 0 [] {}; rw [hb] at this; exact this
    have ho : f.out = fieldsOut rq.fields [] rq.fields.length [] := by
      have := complete_out_aux.2.1 rq.fields [] rq.fields.length 0 [] {}; rw [hb] at this; exact this
    rw [hb] at h
    simp only at h ⊢
    have hw := waitLoop_spec (Field.invocationsL rq.fields + 1) f rq.sched S1 (hm.inv Inv_init)
    rcases hwl : waitLoop (Field.invocationsL rq.fields + 1) f rq.sched S1 with ⟨w, sched', S⟩
    rw [hwl] at h hw
    cases w with
    | done r' =>
      obtain ⟨a, b, c, _⟩ := hw r' rfl
      have hc0 : S1.crash = false := by rw [hm.crash]
      cases r' with
      | err e =>
        simp only at h ⊢; cases h
        refine ⟨by rw [a, ho]; simp [fieldsOut, Spec.request, Fut.outs], ?_, by simpa [Store.push, hc0] using c⟩
        simp only [Inv, Store.push] at b ⊢; omega
      | ok v =>
        simp only at h ⊢; cases h
        refine ⟨by rw [a, ho]; simp [fieldsOut, Spec.request, Fut.outs], ?_, by simpa [hc0] using c⟩
        simp only [Inv] at b; omega
    | stuck => simp at h
    | outOfFuel => simp at h

/-! ## §8 the reference semantics does not look at modes -/

theorem allSyncL_length (fs : List Field) : (Field.allSyncL fs).length = fs.length := by
  induction fs with
  | nil => simp [Field.allSyncL]
  | cons f rest ih => cases f; simp [Field.allSyncL, ih]

theorem Mode.toSync_tname (m : Mode) : m.toSync = .tname ↔ m = .tname := by
  cases m <;> simp [Mode.toSync]

theorem spec_allSync_aux :
    (∀ c, ∀ nn path, Spec.comp nn c.allSync path = Spec.comp nn c path) ∧
    (∀ fs, ∀ path, Spec.fieldsOk (Field.allSyncL fs) path = Spec.fieldsOk fs path) ∧
    (∀ cs, ∀ inn path i, Spec.items inn (Comp.allSyncL cs) path i = Spec.items inn cs path i) := by
  apply Comp.allSync.mutual_induct
    (motive_1 := fun c => ∀ nn path, Spec.comp nn c.allSync path = Spec.comp nn c path)
    (motive_2 := fun fs => ∀ path, Spec.fieldsOk (Field.allSyncL fs) path = Spec.fieldsOk fs path)
    (motive_3 := fun cs => ∀ inn path i, Spec.items inn (Comp.allSyncL cs) path i = Spec.items inn cs path i)
  · intro inn cs ih nn path; simp [Comp.allSync, Spec.comp, ih]
  · intro fs ih nn path; simp [Comp.allSync, Spec.comp, ih, allSyncL_length]
  · intro nn path; simp [Comp.allSync]
  · intro s nn path; simp [Comp.allSync]
  · intro m nn path; simp [Comp.allSync]
  · intro inn path i; simp [Comp.allSyncL]
  · intro c rest ih1 ih2 inn path i; simp [Comp.allSyncL, Spec.items, ih1, ih2]
  · intro path; simp [Field.allSyncL]
  · intro key nn mode rerr c rest ih1 ih2 path
    cases mode <;> simp [Field.allSyncL, Spec.fieldsOk, Mode.toSync, ih1, ih2]

theorem spec_request_allSync (rq : Request) (sched : List Nat) :
    Spec.request (rq.allSync sched) = Spec.request rq := by
  simp [Spec.request, Request.allSync, spec_allSync_aux.2.1, allSyncL_length]

end ApiFu.C02
