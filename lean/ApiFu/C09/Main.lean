/-
  C09 model driver. One S-expression per line.

    (direct (c…) after before first last)                 -- pagination.EdgesToReturn
        → panic | (ok (c…) hasPrev hasNext start end)
    (relay (c…) after before first last)                  -- the Relay specification (Spec.lean) on a list
        → error | (ok (c…) prevReq nextReq)                  in connection order; Req = (must b) | (may p)
    (conn all|window (E…) tc selPI selTC first last AFTER BEFORE (table ((a b lim) (c…))…))
        → (error class) | crash | (ok (c…) PI tc (calls all | (w a b lim) …))
          PI = none | (pi hasPrev hasNext start end)

    (walk fwd|bwd all|window (E…) tc n (table …))          -- Walk.lean's client with the CONCRETE codec
        → none | (ok ((page…)…) (sent "<cursor>"…))           (decK / encK): pages in connection order,
                                                              the cursor strings in the order sent

  Optional integers are `none` or the integer. AFTER/BEFORE are `none` or `(s "<string>" D)` with
  D = `model` (the string is a cursor of the harness's type `struct{K int; P string}`: the driver
  decodes it itself with the codec model of Codec.lean, `decK`), or — for connections whose cursor
  type the codec model does not cover — `invalid` or the integer the real DeserializeCursor produced
  for that string (there the codec is a parameter of the model). `table` lists the replies of the harness's window getter for the calls it
  received; a call that is not in the table is answered with the empty list (the `calls` comparison
  then reports the disagreement).
-/
import ApiFu.Common.Sexp
import ApiFu.Common.Loop
import ApiFu.C09.Model
import ApiFu.C09.Spec
import ApiFu.C09.CodecDriver
import ApiFu.C09.Walk

open ApiFu ApiFu.C09

namespace ApiFu.C09.Driver

abbrev Cursor := Int

def ltInt (a b : Int) : Bool := decide (a < b)

def optInt? : Sexp → Option (Option Int)
  | Sexp.atom "none" => some none
  | x => x.int?.map some

def ints? : Sexp → Option (List Int)
  | Sexp.list xs => xs.mapM Sexp.int?
  | _ => none

def ofOptInt : Option Int → Sexp
  | none => Sexp.atom "none"
  | some n => Sexp.ofInt n

def ofInts (xs : List Int) : Sexp := Sexp.list (xs.map Sexp.ofInt)

/-- `(s "<string>" D)` → the argument string and the decoder's answer for it. -/
def curArg? : Sexp → Option (Option String × Option Cursor)
  | Sexp.atom "none" => some (none, none)
  | Sexp.list [Sexp.atom "s", Sexp.atom str, Sexp.atom "invalid"] => some (some str, none)
  -- the cursor string is decoded by the codec model (Codec.lean), not by the harness
  | Sexp.list [Sexp.atom "s", Sexp.atom str, Sexp.atom "model"] => some (some str, ApiFu.C09.Codec.Driver.decK str)
  | Sexp.list [Sexp.atom "s", Sexp.atom str, d] => d.int?.map (fun n => (some str, some n))
  | _ => none

def tableEntry? : Sexp → Option ((Option Int × Option Int × Int) × List Int)
  | Sexp.list [Sexp.list [a, b, l], r] => do
    let a ← optInt? a
    let b ← optInt? b
    let l ← l.int?
    let r ← ints? r
    pure ((a, b, l), r)
  | _ => none

def errName : Err → String
  | .firstNegative => "first-negative"
  | .bothFirstAndLast => "both"
  | .lastNegative => "last-negative"
  | .neitherFirstNorLast => "neither"
  | .invalidAfter => "invalid-after"
  | .invalidBefore => "invalid-before"

def callSexp : Call Cursor → Sexp
  | .all => Sexp.atom "all"
  | .window a b l => Sexp.node "w" [ofOptInt a, ofOptInt b, Sexp.ofInt l]

def piSexp : Option (PageInfo Cursor) → Sexp
  | none => Sexp.atom "none"
  | some p => Sexp.node "pi" [Sexp.ofBool p.hasPreviousPage, Sexp.ofBool p.hasNextPage, ofOptInt p.startCursor, ofOptInt p.endCursor]

def reqSexp : Relay.Req → Sexp
  | .mustBe b => Sexp.node "must" [Sexp.ofBool b]
  | .mayBeTrueIf p => Sexp.node "may" [Sexp.ofBool p]

def handle (line : String) : String :=
  match Sexp.parse line with
  | some (Sexp.list [Sexp.atom "direct", es, a, b, f, l]) =>
    match ints? es, optInt? a, optInt? b, optInt? f, optInt? l with
    | some es, some a, some b, some f, some l =>
      match edgesToReturn ltInt (isort ltInt) es a b f l with
      | none => "panic"
      | some (out, p) =>
        toString (Sexp.node "ok" [ofInts out, Sexp.ofBool p.hasPreviousPage, Sexp.ofBool p.hasNextPage,
                                  ofOptInt p.startCursor, ofOptInt p.endCursor])
    | _, _, _, _, _ => "bad-op"
  | some (Sexp.list [Sexp.atom "relay", es, a, b, f, l]) =>
    match ints? es, optInt? a, optInt? b, optInt? f, optInt? l with
    | some es, some a, some b, some f, some l =>
      match Relay.edgesToReturn ltInt es b a f l with
      | none => "error"
      | some out =>
        toString (Sexp.node "ok" [ofInts out, reqSexp (Relay.hasPreviousPage ltInt es b a f l), reqSexp (Relay.hasNextPage ltInt es b a f l)])
    | _, _, _, _, _ => "bad-op"
  | some (Sexp.list [Sexp.atom "conn", Sexp.atom mode, es, tc, Sexp.atom sp, Sexp.atom st, f, l, a, b, Sexp.list (Sexp.atom "table" :: tbl)]) =>
    match ints? es, optInt? tc, optInt? f, optInt? l, curArg? a, curArg? b, tbl.mapM tableEntry? with
    | some es, some tc, some f, some l, some (astr, adec), some (bstr, bdec), some tbl =>
      if mode != "all" && mode != "window" then "bad-op" else
      let dec : String → Option Cursor := fun s =>
        if some s == astr then adec else if some s == bstr then bdec else none
      -- the same string may be sent for both arguments; the harness then sends the same decoding
      let getter : Option Cursor → Option Cursor → Int → List Cursor := fun a b lim =>
        match tbl.find? (fun e => e.1 == (a, b, lim)) with
        | some e => e.2
        | none => []
      let app : App Cursor := { allEdges := es, getter := getter, totalCount := tc }
      let m : Mode := if mode == "all" then .all else .window
      match resolve ltInt (isort ltInt) dec app m { first := f, last := l, after := astr, before := bstr }
              { pageInfo := sp == "true", totalCount := st == "true" } with
      | .error e => toString (Sexp.node "error" [Sexp.atom (errName e)])
      | .crash => "crash"
      | .ok c =>
        toString (Sexp.node "ok" [ofInts c.edges, piSexp c.pageInfo, ofOptInt c.totalCount,
                                  Sexp.node "calls" (c.calls.map callSexp)])
    | _, _, _, _, _, _, _ => "bad-op"
  | some (Sexp.list [Sexp.atom "walk", Sexp.atom dir, Sexp.atom mode, es, tc, n, Sexp.list (Sexp.atom "table" :: tbl)]) =>
    match ints? es, optInt? tc, n.nat?, tbl.mapM tableEntry? with
    | some es, some tc, some n, some tbl =>
      if (mode != "all" && mode != "window") || (dir != "fwd" && dir != "bwd") then "bad-op" else
      let getter : Option Cursor → Option Cursor → Int → List Cursor := fun a b lim =>
        match tbl.find? (fun e => e.1 == (a, b, lim)) with
        | some e => e.2
        | none => []
      let app : App Cursor := { allEdges := es, getter := getter, totalCount := tc }
      let m : Mode := if mode == "all" then .all else .window
      let dec := ApiFu.C09.Codec.Driver.decK
      let enc := ApiFu.C09.Codec.Driver.encK
      -- the client of Walk.lean with the concrete codec: pages in connection order, and the cursor
      -- strings it sent, in the order it sent them
      if dir == "fwd" then
        match walkForward ltInt (isort ltInt) dec enc app m n (es.length + 1) none with
        | none => "none"
        | some pages =>
          toString (Sexp.node "ok" [Sexp.list (pages.map ofInts),
            Sexp.node "sent" (pages.dropLast.map fun p => Sexp.atom (match p.getLast? with | some c => enc c | none => ""))])
      else
        match walkBackward ltInt (isort ltInt) dec enc app m n (es.length + 1) none with
        | none => "none"
        | some pages =>
          toString (Sexp.node "ok" [Sexp.list (pages.map ofInts),
            Sexp.node "sent" ((pages.drop 1).reverse.map fun p => Sexp.atom (match p.head? with | some c => enc c | none => ""))])
    | _, _, _, _ => "bad-op"
  | some x =>
    -- the cursor codec operations (b64enc, b64dec, cursor-enc, cursor-dec): CodecDriver.lean
    match ApiFu.C09.Codec.Driver.handle? x with
    | some r => r
    | none => "bad-op"
  | none => "bad-op"

end ApiFu.C09.Driver

def main : IO Unit := ApiFu.lineLoopPure ApiFu.C09.Driver.handle
