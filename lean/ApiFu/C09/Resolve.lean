/-
  C09 — closed form of the connection field's resolver (`resolveDecoded`) in both modes.
-/
import ApiFu.C09.Window

namespace ApiFu.C09

variable {α : Type}

/-- The arguments passed `checkArgs`: exactly one non-negative count. -/
theorem checkArgs_none {a : Args} (h : checkArgs a = none) :
    (∃ n, a.first = some n ∧ 0 ≤ n ∧ a.last = none) ∨ (∃ n, a.first = none ∧ a.last = some n ∧ 0 ≤ n) := by
  unfold checkArgs at h
  cases hf : a.first with
  | some f =>
    rw [hf] at h
    simp only at h
    by_cases hneg : f < 0
    · simp [hneg] at h
    · cases hl : a.last with
      | some l => simp [hneg, hl] at h
      | none => exact Or.inl ⟨f, rfl, by omega, rfl⟩
  | none =>
    rw [hf] at h
    simp only at h
    cases hl : a.last with
    | some l =>
      rw [hl] at h
      simp only at h
      by_cases hneg : l < 0
      · simp [hneg] at h
      · exact Or.inr ⟨l, rfl, rfl, by omega⟩
    | none => rw [hl] at h; simp at h

theorem checkArgs_nonneg {a : Args} (h : checkArgs a = none) : NonNeg a.first ∧ NonNeg a.last := by
  rcases checkArgs_none h with ⟨n, h1, h2, h3⟩ | ⟨n, h1, h2, h3⟩
  · rw [h1, h3]; exact ⟨h2, trivial⟩
  · rw [h1, h2]; exact ⟨trivial, h3⟩

/-- On the lazy zero-edge path the page is empty anyway. -/
theorem page_nil_of_lazy {a : Args} (h : checkArgs a = none) (hl : limitOf a = 1 ∨ limitOf a = -1)
    (X : List α) : lastTrunc (firstTrunc X a.first) a.last = [] := by
  rcases checkArgs_none h with ⟨n, h1, h2, h3⟩ | ⟨n, h1, h2, h3⟩
  · have hn : n = 0 := by
      simp only [limitOf, h1] at hl
      omega
    subst hn
    simp [h1, h3, firstTrunc, lastTrunc]
  · have hn : n = 0 := by
      simp only [limitOf, h1, h2, Option.getD_some] at hl
      omega
    subst hn
    simp [h1, h2, firstTrunc, lastTrunc]

/-- The value `totalCount` resolves to when the field exists. -/
def totalCountValue (app : App α) : Int :=
  match app.totalCount with
  | some n => n
  | none => (app.allEdges.length : Int)

/-- Closed form of the resolver once the arguments are checked and decoded: it always answers with
    a connection (never a crash), whose page, page info and total count are the closed forms over
    the slice the application supplied. -/
theorem resolveDecoded_shape (lt : α → α → Bool) (sort : List α → List α) (app : App α) (mode : Mode)
    (a : Args) (sel : Sel) (av bv : Option α) (hc : checkArgs a = none) :
    ∃ c, resolveDecoded lt sort app mode a sel av bv = .ok c ∧
      c.edges = lastTrunc (firstTrunc (sort ((fetch app mode av bv (limitOf a)).1.filter (inRange lt av bv))) a.first) a.last ∧
      c.pageInfo = (if sel.pageInfo then
          some (pageInfoOf lt (fetch app mode av bv (limitOf a)).1
                  (sort ((fetch app mode av bv (limitOf a)).1.filter (inRange lt av bv))) av bv a.first a.last)
        else none) ∧
      c.totalCount = (if sel.totalCount && hasTotalCountField app mode then some (totalCountValue app) else none) := by
  obtain ⟨hf, hl⟩ := checkArgs_nonneg hc
  have hraw := edgesToReturn_raw lt sort (fetch app mode av bv (limitOf a)).1 av bv a.first a.last hf hl
  unfold resolveDecoded
  simp only
  by_cases hlazy : limitOf a = 1 ∨ limitOf a = -1
  · rw [if_pos hlazy]
    have hnil := page_nil_of_lazy hc hlazy (sort ((fetch app mode av bv (limitOf a)).1.filter (inRange lt av bv)))
    rw [hnil]
    simp only [complete, hraw]
    by_cases hpi : sel.pageInfo = true
    · by_cases htc : (sel.totalCount && hasTotalCountField app mode) = true
      · cases hT : app.totalCount with
        | some n => simp [hpi, htc, hT, totalCountValue]
        | none => simp [hpi, htc, hT, totalCountValue]
      · simp [hpi, htc]
    · by_cases htc : (sel.totalCount && hasTotalCountField app mode) = true
      · cases hT : app.totalCount with
        | some n => simp [hpi, htc, hT, totalCountValue]
        | none => simp [hpi, htc, hT, totalCountValue]
      · simp [hpi, htc]
  · rw [if_neg hlazy]
    simp only [complete, hraw]
    refine ⟨_, rfl, rfl, rfl, ?_⟩
    simp only
    by_cases htc : (sel.totalCount && hasTotalCountField app mode) = true
    · simp only [htc, if_true, totalCountValue]
      cases hT : app.totalCount with
      | some n => rfl
      | none =>
        -- the field exists without ResolveTotalCount only in mode `all`, where the slice is `allEdges`
        cases mode with
        | all => rfl
        | window => simp [hasTotalCountField, hT] at htc
    · simp [htc]

/-- The application behind the connection field serves the connection whose edge set is `E`:
    `ResolveAllEdges` returns the edges (in any order), respectively `ResolveEdges` honours its
    documented contract. -/
def Serves (lt : α → α → Bool) (E : List α) (app : App α) : Mode → Prop
  | .all => app.allEdges.Perm E
  | .window => HonoursWindow lt E app.getter

theorem take_succ_eq {A B : List α} {n : Nat} (h : A.take (n + 1) = B.take (n + 1)) :
    A.take n = B.take n ∧ (n < A.length ↔ n < B.length) := by
  constructor
  · have h1 : A.take n = (A.take (n + 1)).take n := by rw [List.take_take]; congr 1; omega
    have h2 : B.take n = (B.take (n + 1)).take n := by rw [List.take_take]; congr 1; omega
    rw [h1, h2, h]
  · have := congrArg List.length h
    simp only [List.length_take] at this
    omega

theorem drop_eq_reverse_take (A : List α) (n : Nat) :
    A.drop (A.length - n) = (A.reverse.take n).reverse := by
  rw [List.take_reverse, List.reverse_reverse]

theorem drop_of_reverse_take_succ {A B : List α} {n : Nat}
    (h : A.reverse.take (n + 1) = B.reverse.take (n + 1)) :
    A.drop (A.length - n) = B.drop (B.length - n) ∧ (n < A.length ↔ n < B.length) := by
  obtain ⟨h1, h2⟩ := take_succ_eq h
  constructor
  · rw [drop_eq_reverse_take, drop_eq_reverse_take, h1]
  · simpa using h2

section
variable [DecidableEq α]

/-- **Closed form of the connection field over the edge set.** Whatever the mode, a request with
    accepted arguments is answered with the page `lastTrunc (firstTrunc R first) last` of the range
    `R` of the connection in cursor order; start/end cursor are the first/last edge of the page; the
    flag on the side of the count is exactly "the range holds more than `count` edges"; the flag on
    the other side is true only if the application showed an edge outside the range on that side. -/
theorem conn_closed_form {lt : α → α → Bool} (h : StrictTotal lt) {sort : List α → List α}
    (hs : LawfulSort lt sort) {E S : List α} (hperm : S.Perm E) (hsorted : Sorted lt S)
    {app : App α} {mode : Mode} (hserve : Serves lt E app mode)
    (a : Args) (sel : Sel) (av bv : Option α) (hc : checkArgs a = none) :
    ∃ c, resolveDecoded lt sort app mode a sel av bv = .ok c ∧
      c.edges = lastTrunc (firstTrunc (S.filter (inRange lt av bv)) a.first) a.last ∧
      (sel.pageInfo = false → c.pageInfo = none) ∧
      (sel.pageInfo = true → ∃ pi, c.pageInfo = some pi ∧
        pi.startCursor = c.edges.head? ∧ pi.endCursor = c.edges.getLast? ∧
        (∀ n, a.first = some n → pi.hasNextPage = decide (((S.filter (inRange lt av bv)).length : Int) > n)) ∧
        (∀ n, a.last = some n → pi.hasPreviousPage = decide (((S.filter (inRange lt av bv)).length : Int) > n)) ∧
        (a.first = none → pi.hasNextPage = true → ∃ e, e ∈ E ∧ pastBefore lt bv e = true) ∧
        (a.last = none → pi.hasPreviousPage = true →
          ∃ e, e ∈ E ∧ pastBefore lt bv e = false ∧ notPastAfter lt av e = true)) ∧
      c.totalCount = (if sel.totalCount && hasTotalCountField app mode then some (totalCountValue app) else none) := by
  obtain ⟨c, hres, hedges, hpi, htc⟩ := resolveDecoded_shape lt sort app mode a sel av bv hc
  -- the slice, its range in cursor order, and how both relate to the connection's range
  have key : ∃ slice : List α, (fetch app mode av bv (limitOf a)).1 = slice ∧ (∀ e, e ∈ slice → e ∈ E) ∧
      lastTrunc (firstTrunc (sort (slice.filter (inRange lt av bv))) a.first) a.last =
        lastTrunc (firstTrunc (S.filter (inRange lt av bv)) a.first) a.last ∧
      (∀ n, a.first = some n →
        (((sort (slice.filter (inRange lt av bv))).length : Int) > n ↔ ((S.filter (inRange lt av bv)).length : Int) > n)) ∧
      (∀ n, a.last = some n →
        (((sort (slice.filter (inRange lt av bv))).length : Int) > n ↔ ((S.filter (inRange lt av bv)).length : Int) > n)) := by
    cases mode with
    | all =>
      have hserve' : app.allEdges.Perm E := hserve
      refine ⟨app.allEdges, rfl, fun e he => hserve'.mem_iff.mp he, ?_, ?_, ?_⟩
      all_goals rw [sort_filter_eq h hs (hperm.trans hserve'.symm) hsorted]
      · intro n _; exact Iff.rfl
      · intro n _; exact Iff.rfl
    | window =>
      have hg : HonoursWindow lt E app.getter := hserve
      refine ⟨app.getter av bv (limitOf a), rfl, fun e he => hg.sub _ _ _ e he, ?_⟩
      have hnd := hg.nodup av bv (limitOf a)
      have hsG : Sorted lt (sort (app.getter av bv (limitOf a))) := sorted_sort h hs hnd
      have hpG := (hs (app.getter av bv (limitOf a))).1
      rw [sort_filter_eq h hs hpG hsG]
      rcases checkArgs_none hc with ⟨n, h1, h2, h3⟩ | ⟨n, h1, h2, h3⟩
      · have hlim : limitOf a = n + 1 := by simp [limitOf, h1]
        have hw := window_first h hg hperm hsorted av bv (limitOf a) (by omega) hpG hsG
        have hnat : (limitOf a).toNat = n.toNat + 1 := by omega
        rw [hnat] at hw
        obtain ⟨ht, hlen⟩ := take_succ_eq hw
        refine ⟨?_, ?_, ?_⟩
        · simp only [h1, h3, firstTrunc, lastTrunc]; exact ht
        · intro m hm
          have : m = n := by rw [h1] at hm; exact (Option.some.inj hm).symm
          subst this
          constructor <;> intro hx <;> omega
        · intro m hm; rw [h3] at hm; cases hm
      · have hlim : limitOf a = -(n + 1) := by simp [limitOf, h1, h2]
        have hw := window_last h hg hperm hsorted av bv (limitOf a) (by omega) hpG hsG
        have hnat : (-(limitOf a)).toNat = n.toNat + 1 := by omega
        rw [hnat] at hw
        obtain ⟨ht, hlen⟩ := drop_of_reverse_take_succ hw
        refine ⟨?_, ?_, ?_⟩
        · simp only [h1, h2, firstTrunc, lastTrunc]; exact ht
        · intro m hm; rw [h1] at hm; cases hm
        · intro m hm
          have : m = n := by rw [h2] at hm; exact (Option.some.inj hm).symm
          subst this
          constructor <;> intro hx <;> omega
  obtain ⟨slice, hslice, hsub, hpage, hfirst, hlast⟩ := key
  rw [hslice] at hedges hpi
  refine ⟨c, hres, hedges.trans hpage, ?_, ?_, htc⟩
  · intro hsel; rw [hpi, hsel]; simp
  · intro hsel
    rw [hsel] at hpi
    simp only [if_true] at hpi
    refine ⟨_, hpi, ?_, ?_, ?_, ?_, ?_, ?_⟩
    · simp only [pageInfoOf]; rw [hedges]
    · simp only [pageInfoOf]; rw [hedges]
    · intro n hn
      simp only [pageInfoOf, hn]
      exact decide_eq_decide.mpr (hfirst n hn)
    · intro n hn
      have hfn : a.first = none := by
        rcases checkArgs_none hc with ⟨m, h1, h2, h3⟩ | ⟨m, h1, h2, h3⟩
        · rw [h3] at hn; cases hn
        · exact h1
      simp only [pageInfoOf, hn, hfn, firstTrunc]
      exact decide_eq_decide.mpr (hlast n hn)
    · intro hn hflag
      simp only [pageInfoOf, hn] at hflag
      obtain ⟨e, he, hp⟩ := List.any_eq_true.mp hflag
      exact ⟨e, hsub e he, hp⟩
    · intro hn hflag
      simp only [pageInfoOf, hn] at hflag
      obtain ⟨e, he, hp⟩ := List.any_eq_true.mp hflag
      simp only [Bool.and_eq_true, Bool.not_eq_true'] at hp
      exact ⟨e, hsub e he, hp.1, hp.2⟩

end

end ApiFu.C09
