/-
  C09 — the Relay "GraphQL Cursor Connections Specification" pagination algorithm, written from the
  text of the specification (§4.4 "Pagination algorithm", §5.1 PageInfo fields), independently of the
  Go code.  Nothing here is shared with Model.lean.

  `allEdges` is the connection's edge list *in connection order*.  The specification leaves the
  order to the server ("the ordering of edges should be the same when using first/after as when
  using last/before"); the property fixes it to the cursor order, so the theorems instantiate
  `allEdges` with the strictly increasing arrangement of the edge set.

    ApplyCursorsToEdges(allEdges, before, after):
      Initialize edges to be allEdges.
      If after is set:  Let afterEdge be the edge in edges whose cursor is equal to the after argument.
                        If afterEdge exists: Remove all elements of edges before and including afterEdge.
      If before is set: Let beforeEdge be the edge in edges whose cursor is equal to the before argument.
                        If beforeEdge exists: Remove all elements of edges after and including beforeEdge.
      Return edges.

  A cursor that belongs to no edge ("foreign") is, by the property statement, "treated as some
  position in the cursor order": everything at or before that position is removed for `after`,
  everything at or after it for `before`.  (The Relay text would ignore such a cursor; the property
  deliberately asks for the position reading, and for cursors of existing edges the two coincide on
  a list in cursor order — that coincidence is `Relay.removeThrough_eq_filter` in Lemmas.lean.)

    EdgesToReturn(allEdges, before, after, first, last):
      Let edges be the result of calling ApplyCursorsToEdges(allEdges, before, after).
      If first is set: If first is less than 0: Throw an error.
                       If edges has length greater than than first: Slice edges to be of length first
                       by removing edges from the end of edges.
      If last is set:  If last is less than 0: Throw an error.
                       If edges has length greater than than last: Slice edges to be of length last by
                       removing edges from the start of edges.
      Return edges.

    HasPreviousPage(allEdges, before, after, first, last):
      If last is set: Let edges be ApplyCursorsToEdges(allEdges, before, after).
                      If edges contains more than last elements return true, otherwise false.
      If after is set: If the server can efficiently determine that elements exist prior to after,
                       return true.
      Return false.
    HasNextPage: symmetric with first / before / "elements exist following before".

  The "if the server can efficiently determine" clauses are permissions, not obligations: the
  requirement on a flag is three-valued (`Req`).
-/
namespace ApiFu.C09.Relay

section
variable {α : Type} [DecidableEq α] (lt : α → α → Bool)

/-- Position of the edge whose cursor equals `c`, if such an edge exists. -/
def indexOfCursor (c : α) : List α → Option Nat
  | [] => none
  | d :: ds => if d = c then some 0 else (indexOfCursor c ds).map (· + 1)

/-- "Remove all elements of edges before and including afterEdge"; a foreign cursor is a position. -/
def removeThrough (edges : List α) (after : α) : List α :=
  match indexOfCursor after edges with
  | some i => edges.drop (i + 1)
  | none => edges.filter (fun c => lt after c)

/-- "Remove all elements of edges after and including beforeEdge"; a foreign cursor is a position. -/
def removeFrom (edges : List α) (before : α) : List α :=
  match indexOfCursor before edges with
  | some i => edges.take i
  | none => edges.filter (fun c => lt c before)

def applyCursorsToEdges (allEdges : List α) (before after : Option α) : List α :=
  let edges := allEdges
  let edges := match after with
    | some a => removeThrough lt edges a
    | none => edges
  let edges := match before with
    | some b => removeFrom lt edges b
    | none => edges
  edges

/-- `none` = "Throw an error". -/
def edgesToReturn (allEdges : List α) (before after : Option α) (first last : Option Int) :
    Option (List α) :=
  let edges := applyCursorsToEdges lt allEdges before after
  let afterFirst : Option (List α) :=
    match first with
    | some f =>
      if f < 0 then none
      else if edges.length > f.toNat then some (edges.take f.toNat) else some edges
    | none => some edges
  match afterFirst with
  | none => none
  | some edges =>
    match last with
    | some l =>
      if l < 0 then none
      else if edges.length > l.toNat then some (edges.drop (edges.length - l.toNat)) else some edges
    | none => some edges

end

/-- What the specification demands of a page-info flag. -/
inductive Req where
  | mustBe (b : Bool)
  | mayBeTrueIf (p : Bool)     -- "if the server can efficiently determine that … return true": the
                               -- flag may be true only if `p`, and may always be false
  deriving Repr, DecidableEq

def Req.admits : Req → Bool → Bool
  | .mustBe b, x => x == b
  | .mayBeTrueIf p, x => !x || p

section
variable {α : Type} [DecidableEq α] (lt : α → α → Bool)

/-- "Elements exist prior to `after`" is read as: an edge exists at or before the position `after`
    (the edge the cursor belongs to is itself outside the page, on that side). -/
def hasPreviousPage (allEdges : List α) (before after : Option α) (_first last : Option Int) : Req :=
  match last with
  | some l =>
    let edges := applyCursorsToEdges lt allEdges before after
    .mustBe (decide ((edges.length : Int) > l))
  | none =>
    match after with
    | some a => .mayBeTrueIf (allEdges.any (fun c => !(lt a c)))
    | none => .mustBe false

def hasNextPage (allEdges : List α) (before after : Option α) (first _last : Option Int) : Req :=
  match first with
  | some f =>
    let edges := applyCursorsToEdges lt allEdges before after
    .mustBe (decide ((edges.length : Int) > f))
  | none =>
    match before with
    | some b => .mayBeTrueIf (allEdges.any (fun c => !(lt c b)))
    | none => .mustBe false

end

end ApiFu.C09.Relay
